(* Proofs/StoreAgree.v -- consequences of the two refinements (property C11):
   two stores that refine the same list agree; additions lose nothing; save and
   load; every input form reduces to the sequence of its objects; what happens
   outside the theorems' domain (refutations).                                *)
From Coq Require Import NArith ZArith List Bool Lia Permutation String.
From V Require Import Base.UString Model.Store Model.StoreRun Spec.StoreSpec
  Proofs.StoreBase Proofs.StoreMem Proofs.StoreFs.
Import ListNotations.
Open Scope list_scope.

(* ---------- refinement determines the answers when no version is added twice ---------- *)
Lemma vkey_inj_in : forall L a b, NoDup (map vkey_of L) -> In a L -> In b L -> vkey_of a = vkey_of b -> a = b.
Proof.
  induction L as [|x L IH]; intros a b ND Ha Hb E; [contradiction|].
  simpl in ND. apply NoDup_cons_iff in ND. destruct ND as [N1 N2].
  destruct Ha as [Ha|Ha]; destruct Hb as [Hb|Hb]; subst; auto.
  - exfalso. apply N1. rewrite E. apply in_map. auto.
  - exfalso. apply N1. rewrite <- E. apply in_map. auto.
Qed.

Lemma v_ge_antisym : forall a b, v_ge a b -> v_ge b a -> a = b.
Proof. destruct a, b; simpl; intros; try contradiction; auto. f_equal. lia. Qed.

Lemma NoDup_of_map : forall {A B} (f : A -> B) l, NoDup (map f l) -> NoDup l.
Proof.
  induction l as [|a l IH]; intros H; [constructor|].
  simpl in H. apply NoDup_cons_iff in H. destruct H as [H1 H2]. constructor; auto.
  intros Hi. apply H1. apply in_map. auto.
Qed.

Theorem refines_unique : forall L g a st g' a' st',
  NoDup (map vkey_of L) -> refines L g a st -> refines L g' a' st' ->
  (forall id, g id = g' id) /\ (forall id, Permutation (a id) (a' id)) /\ Permutation st st'.
Proof.
  intros L g a st g' a' st' ND R R'. split; [|split].
  - intros id. destruct (g id) as [o|] eqn:E; destruct (g' id) as [o'|] eqn:E'; auto.
    + destruct (r_get_some _ _ _ _ R _ _ E) as [H1 [H2 H3]].
      destruct (r_get_some _ _ _ _ R' _ _ E') as [H1' [H2' H3']].
      f_equal. apply (vkey_inj_in L); auto. unfold vkey_of. f_equal; [congruence|].
      apply v_ge_antisym; auto.
    + destruct (r_get_some _ _ _ _ R _ _ E) as [H1 [H2 H3]].
      pose proof (r_get_none _ _ _ _ R' _ E') as Hn.
      assert (In o (versions id L)) as Hv by (apply versions_In; auto). rewrite Hn in Hv. contradiction.
    + destruct (r_get_some _ _ _ _ R' _ _ E') as [H1 [H2 H3]].
      pose proof (r_get_none _ _ _ _ R _ E) as Hn.
      assert (In o' (versions id L)) as Hv by (apply versions_In; auto). rewrite Hn in Hv. contradiction.
  - intros id.
    assert (forall x y sx sy, refines L x y sx -> refines L g a sy -> True) as _ by auto.
    assert (forall (b b' : ustring -> list obj) s1 g1 s2 g2, refines L g1 b s1 -> refines L g2 b' s2 ->
            forall o, In o (b id) -> In o (b' id)) as Hsub.
    { intros b b' s1 g1 s2 g2 Rb Rb' o Ho.
      destruct (r_all_sound _ _ _ _ Rb _ _ Ho) as [H1 H2].
      destruct (r_all_complete _ _ _ _ Rb' _ _ H1 H2) as [o' [H3 H4]].
      destruct (r_all_sound _ _ _ _ Rb' _ _ H3) as [H5 H6].
      assert (o' = o); [|subst; auto].
      apply (vkey_inj_in L); auto. unfold vkey_of. congruence. }
    apply NoDup_Permutation.
    + eapply NoDup_of_map. apply (r_all_distinct _ _ _ _ R).
    + eapply NoDup_of_map. apply (r_all_distinct _ _ _ _ R').
    + intros o. split; eapply Hsub; eauto.
  - assert (forall s1 g1 b1 s2 g2 b2, refines L g1 b1 s1 -> refines L g2 b2 s2 -> forall o, In o s1 -> In o s2) as Hsub.
    { intros s1 g1 b1 s2 g2 b2 R1 R2 o Ho.
      pose proof (r_stored_sound _ _ _ _ R1 _ Ho) as H1.
      destruct (r_stored_complete _ _ _ _ R2 _ H1) as [o' [H2 H3]].
      pose proof (r_stored_sound _ _ _ _ R2 _ H2) as H4.
      assert (o' = o); [|subst; auto]. apply (vkey_inj_in L); auto. }
    apply NoDup_Permutation.
    + eapply NoDup_of_map. apply (r_stored_distinct _ _ _ _ R).
    + eapply NoDup_of_map. apply (r_stored_distinct _ _ _ _ R').
    + intros o. split; eapply Hsub; eauto.
Qed.

Lemma Permutation_filter : forall {A} (g : A -> bool) (l l' : list A),
  Permutation l l' -> Permutation (filter g l) (filter g l').
Proof.
  intros A g l l' P. induction P; simpl; auto.
  - destruct (g x); auto.
  - destruct (g x); destruct (g y); auto. constructor.
  - eapply Permutation_trans; eauto.
Qed.

Section Agree.
  Variable mode : text_mode.
  Variable iot : ustring -> option Z.
  Variable ts2fn : Z -> ustring.
  Hypothesis ts2fn_inj : forall a b, ts2fn a = ts2fn b -> a = b.

  Notation nrm := (norm_obj mode iot).
  Notation run := (mem_run mode iot).
  Notation frun := (fs_run mode iot ts2fn).
  Notation fsok := (fs_ok).

  Lemma mem_outcomes_nrm : forall L m, mem_outcomes mode iot (map nrm L) m = mem_outcomes mode iot L m.
  Proof.
    induction L as [|o r IH]; intros m; simpl; auto.
    unfold madd. rewrite add1_nrm. rewrite IH. reflexivity.
  Qed.

  Lemma fadd1_nrm : forall o s, fs_add1 mode iot ts2fn (nrm o) s = fs_add1 mode iot ts2fn o s.
  Proof. intros. unfold fs_add1. rewrite nrm_idem. reflexivity. Qed.

  Lemma frun_map_nrm : forall L, frun (map nrm L) = frun L.
  Proof.
    intros L. unfold fs_run. generalize (@nil fsfile).
    induction L as [|o r IH]; intros s; simpl; auto.
    unfold fadd at 2 4. rewrite fadd1_nrm. apply IH.
  Qed.

  Lemma fs_outcomes_nrm : forall L s, fs_outcomes mode iot ts2fn (map nrm L) s = fs_outcomes mode iot ts2fn L s.
  Proof.
    induction L as [|o r IH]; intros s; simpl; auto.
    unfold fadd. rewrite fadd1_nrm. rewrite IH. reflexivity.
  Qed.

  (* ---------- the two refinement theorems, over raw histories ---------- *)
  Theorem mem_refines_thm : forall L, let NL := map nrm L in
    Forall clean NL -> uniform NL ->
    Forall (fun e => e = None) (mem_outcomes mode iot L []) /\
    refines NL (fun id => mem_get [] id (run L)) (fun id => mem_all [] id (run L)) (mem_objs (run L)) /\
    (forall fl, mem_query fl (run L) = filter (all_hold fl) (mem_objs (run L))).
  Proof.
    intros L NL F U. destruct (run_inv mode iot NL F U) as [I O].
    unfold NL in *. rewrite run_map_nrm in I. rewrite mem_outcomes_nrm in O.
    split; auto. split; [apply (mem_refines_inv iot); auto | reflexivity].
  Qed.

  Lemma uniform_of_fsok : True. Proof. exact I. Qed.

  Theorem fs_refines_thm : forall L, let NL := map nrm L in
    Forall fsok NL -> uniform NL ->
    Forall (fun e => e = None \/ e = Some EOverwrite) (fs_outcomes mode iot ts2fn L []) /\
    (forall id, exists x, fs_get [] id (frun L) = Ok x) /\
    refines NL (fun id => fs_get_val id (frun L)) (fun id => fs_all [] id (frun L)) (map fobj (frun L)) /\
    (forall fl, Permutation (fs_query fl (frun L)) (filter (all_hold fl) (map fobj (frun L)))).
  Proof.
    intros L NL F U.
    pose proof (frun_inv mode iot ts2fn ts2fn_inj NL F) as I.
    pose proof (fs_outcomes_ok mode iot ts2fn ts2fn_inj NL F) as O.
    unfold NL in *. rewrite frun_map_nrm in I. rewrite fs_outcomes_nrm in O.
    split; auto. split; [|split].
    - intros id. destruct (fs_get_spec iot ts2fn _ _ id I U) as [x [E _]]. eauto.
    - apply (fs_refines_inv iot ts2fn); auto.
    - intros fl. eapply fs_query_perm; eauto.
  Qed.

  (* ---------- no re-additions: the filesystem store never refuses ---------- *)
  Lemma fs_outcomes_none : forall L, Forall fsok L -> NoDup (map vkey_of L) ->
    Forall (fun e => e = None) (fs_outcomes mode iot ts2fn L []).
  Proof.
    intros L. induction L as [|o L IH] using rev_ind; intros F ND.
    - constructor.
    - apply Forall_app in F. destruct F as [F1 F2]. inversion F2; subst.
      rewrite map_app in ND. pose proof (NoDup_remove_2 _ _ _ ND) as N2. rewrite app_nil_r in N2.
      apply NoDup_remove_1 in ND. rewrite app_nil_r in ND.
      assert (forall L0 s0, fs_outcomes mode iot ts2fn (L0 ++ [o]) s0 =
              fs_outcomes mode iot ts2fn L0 s0 ++ [snd (fs_add1 mode iot ts2fn o (fold_left (fadd mode iot ts2fn) L0 s0))]) as Hs.
      { induction L0 as [|a r IHr]; intros s0; simpl; auto. rewrite IHr. reflexivity. }
      rewrite Hs. apply Forall_app. split; auto. constructor; [|constructor].
      fold (frun L).
      destruct (fadd1_step mode iot ts2fn ts2fn_inj _ _ _ (frun_inv mode iot ts2fn ts2fn_inj _ F1) H1) as [[E _]|[E [[o' [O1 O2]] _]]];
        rewrite E; simpl; auto.
      exfalso. apply N2. rewrite <- O2. apply in_map. auto.
  Qed.

  (* the stores agree: same lookups, same versions, same query results *)
  Theorem stores_agree_thm : forall L, let NL := map nrm L in
    Forall fsok NL -> uniform NL -> NoDup (map vkey_of NL) ->
    Forall (fun e => e = None) (mem_outcomes mode iot L []) /\
    Forall (fun e => e = None) (fs_outcomes mode iot ts2fn L []) /\
    (forall id, fs_get [] id (frun L) = Ok (mem_get [] id (run L))) /\
    (forall id, Permutation (mem_all [] id (run L)) (fs_all [] id (frun L))) /\
    (forall fl, Permutation (mem_query fl (run L)) (fs_query fl (frun L))).
  Proof.
    intros L NL F U ND.
    assert (Forall clean NL) as Fc.
    { eapply Forall_impl; [|exact F]. intros o [H _]. exact H. }
    destruct (mem_refines_thm L Fc U) as [O1 [R1 Q1]].
    destruct (fs_refines_thm L F U) as [_ [G2 [R2 Q2]]].
    pose proof (fs_outcomes_none NL F ND) as O2. unfold NL in O2. rewrite fs_outcomes_nrm in O2.
    destruct (refines_unique _ _ _ _ _ _ _ ND R1 R2) as [A1 [A2 A3]].
    split; auto. split; auto. split; [|split]; auto.
    - intros id. destruct (G2 id) as [x E]. rewrite E. f_equal. rewrite A1. unfold fs_get_val. rewrite E. reflexivity.
    - intros fl. rewrite Q1. eapply Permutation_trans; [|apply Permutation_sym; apply Q2].
      apply Permutation_filter. exact A3.
  Qed.

  (* ---------- an addition loses nothing ---------- *)
  Lemma madd_keeps : forall L m o o1, MemInv L m -> clean o -> uniform (L ++ [o]) ->
    In o1 (mem_objs m) -> vkey_of o1 <> vkey_of o -> In o1 (mem_objs (madd mode iot m o)).
  Proof.
    intros L m o o1 I Cl U H1 Hne.
    destruct (add1_step mode iot _ _ _ I Cl U) as [m' [E I']].
    unfold madd. rewrite E. simpl.
    pose proof I as [ND Inv]. pose proof I' as [ND' Inv'].
    apply In_mem_objs in H1; auto. destruct H1 as [id [e [G1 G2]]].
    apply In_mem_objs; auto.
    assert (normal o) as No by (destruct Cl; auto).
    rewrite (nrm_id mode iot _ No), (nrm_clean mode iot _ Cl) in E.
    destruct (s_dec (oid o) id) as [Eid|Nid].
    - subst id.
      assert (oid o1 = oid o) as Eo1.
      { specialize (Inv (oid o)). rewrite G1 in Inv. apply (entry_objs_sound _ _ _ Inv) in G2.
        apply versions_In in G2. tauto. }
      assert (omod o1 <> omod o) as Nm by (intros X; apply Hne; unfold vkey_of; congruence).
      destruct (is_vnone (omod o)) eqn:Ev.
      + (* o unversioned: so is everything under this id; o1 would be the same version *)
        exfalso. apply Nm.
        assert (omod o = VNone) as Xo by (destruct (omod o); simpl in Ev; try discriminate; auto).
        specialize (Inv (oid o)). rewrite G1 in Inv. apply (entry_objs_sound _ _ _ Inv) in G2.
        apply versions_In in G2. destruct G2 as [G2 _].
        rewrite Xo. apply (U o o1); auto; apply in_or_app; simpl; auto.
      + rewrite G1 in E. destruct e as [vs lat|x].
        * destruct (fam_add vs lat o) as [e' r'] eqn:Ef. inversion E; subst m'.
          exists (oid o), e'. split; [apply dict_get_set_same; apply s_eqb_eq|].
          unfold fam_add in Ef. simpl in G2. apply in_map_iff in G2. destruct G2 as [[k x] [X1 X2]]. simpl in X1. subst x.
          assert (k = omod o1) as Ek.
          { specialize (Inv (oid o)). rewrite G1 in Inv. destruct Inv as [_ [_ [Hs _]]]. apply Hs in X2. tauto. }
          subst k.
          assert (In (omod o1, o1) (dict_set vkey_eqb vs (omod o) o)) as Hin.
          { apply In_dict_set_other; auto. apply vkey_eqb_eq. }
          destruct lat as [l|]; [destruct (vgt (omod o) (omod l)) as [[|]|]|]; inversion Ef; subst e'; simpl;
            apply in_map_iff; exists (omod o1, o1); auto.
        * discriminate.
    - exists id, e. split; auto.
      assert (dict_get ustr_eqb m' id = dict_get ustr_eqb m id) as Eg; [|rewrite Eg; auto].
      destruct (is_vnone (omod o)).
      + inversion E; subst m'. apply dict_get_set_other; auto. apply s_eqb_eq.
      + destruct (dict_get ustr_eqb m (oid o)) as [[vs lat|x]|].
        * destruct (fam_add vs lat o) as [e' r']. inversion E; subst m'. apply dict_get_set_other; auto. apply s_eqb_eq.
        * inversion E.
        * destruct (fam_add [] None o) as [e' r']. inversion E; subst m'. apply dict_get_set_other; auto. apply s_eqb_eq.
  Qed.

  Theorem no_silent_loss_mem : forall L o, let NL := map nrm (L ++ [o]) in
    Forall clean NL -> uniform NL ->
    snd (mem_add1 mode iot o (run L)) = None /\
    forall o1, In o1 (mem_objs (run L)) -> vkey_of o1 <> vkey_of (nrm o) -> In o1 (mem_objs (run (L ++ [o]))).
  Proof.
    intros L o NL F U. unfold NL in *. rewrite map_app in F, U. simpl in F, U.
    apply Forall_app in F. destruct F as [F1 F2]. inversion F2; subst.
    destruct (run_inv mode iot _ F1 (uniform_app_l _ _ U)) as [I _]. rewrite run_map_nrm in I.
    split.
    - destruct (add1_step mode iot _ _ _ I H1 U) as [m' [E _]]. rewrite add1_nrm in E. rewrite E. reflexivity.
    - intros o1 G1 G2. rewrite run_snoc. fold (madd mode iot (run L) o).
      pose proof (madd_keeps _ _ _ _ I H1 U G1 G2) as K. unfold madd in *. rewrite add1_nrm in K. exact K.
  Qed.

  Theorem no_silent_loss_fs : forall L o, let NL := map nrm (L ++ [o]) in
    Forall fsok NL ->
    (snd (fs_add1 mode iot ts2fn o (frun L)) = None /\ frun (L ++ [o]) = frun L ++ [file_of ts2fn (nrm o)] /\
       forall o', In o' (map nrm L) -> vkey_of o' <> vkey_of (nrm o)) \/
    (snd (fs_add1 mode iot ts2fn o (frun L)) = Some EOverwrite /\ frun (L ++ [o]) = frun L /\
       exists o', In o' (map nrm L) /\ vkey_of o' = vkey_of (nrm o)).
  Proof.
    intros L o NL F. unfold NL in *. rewrite map_app in F. simpl in F.
    apply Forall_app in F. destruct F as [F1 F2]. inversion F2; subst.
    pose proof (frun_inv mode iot ts2fn ts2fn_inj _ F1) as I. rewrite frun_map_nrm in I.
    rewrite frun_snoc.
    destruct (fadd1_step mode iot ts2fn ts2fn_inj _ _ _ I H1) as [[E [A _]]|[E [A _]]];
      rewrite fadd1_nrm in E; rewrite E; simpl; [left | right]; auto.
  Qed.

  (* ---------- save to a file, load into a fresh store ---------- *)
  Lemma add_items_goods : forall l L0 m, MemInv L0 m -> Forall clean l -> uniform (L0 ++ l) ->
    mem_add_items mode iot (map Good l) m = (fold_left (madd mode iot) l m, None) /\
    MemInv (L0 ++ l) (fold_left (madd mode iot) l m).
  Proof.
    induction l as [|o l IH]; intros L0 m I F U; simpl.
    - rewrite app_nil_r. auto.
    - inversion F; subst.
      assert (uniform (L0 ++ [o])) as U1.
      { apply (uniform_app_l _ l). rewrite <- app_assoc. exact U. }
      destruct (add1_step mode iot _ _ _ I H1 U1) as [m' [E I']].
      assert (madd mode iot m o = m') as Em by (unfold madd; rewrite E; reflexivity).
      rewrite E, Em.
      replace (L0 ++ o :: l) with ((L0 ++ [o]) ++ l) in * by (rewrite <- app_assoc; reflexivity).
      apply IH; auto.
  Qed.

  Lemma aware_map_clean : forall l, Forall clean l -> map (fun o => Good (aware_obj o)) l = map Good l.
  Proof.
    intros l F. apply map_ext_in. intros o Ho. rewrite Forall_forall in F. rewrite aware_clean; auto.
  Qed.

  Theorem save_load_thm : forall L, let NL := map nrm L in
    Forall clean NL -> uniform NL ->
    exists m2, mem_load_saved mode iot (run L) [] = (m2, None) /\
      Permutation (mem_objs m2) (mem_objs (run L)) /\
      (forall id, mem_get [] id m2 = None <-> mem_get [] id (run L) = None) /\
      (forall id o2 o, mem_get [] id m2 = Some o2 -> mem_get [] id (run L) = Some o -> omod o2 = omod o).
  Proof.
    intros L NL F U. destruct (mem_refines_thm L F U) as [_ [R _]].
    set (S := mem_objs (run L)) in *.
    assert (Forall clean S) as Fs.
    { apply Forall_forall. intros o Ho. apply (r_stored_sound _ _ _ _ R) in Ho.
      rewrite Forall_forall in F. auto. }
    assert (uniform S) as Us.
    { intros a b Ha Hb. apply U; apply (r_stored_sound _ _ _ _ R); auto. }
    unfold mem_load_saved. fold S. rewrite (aware_map_clean _ Fs).
    destruct (add_items_goods S [] [] MemInv_nil Fs Us) as [E I2]. simpl in I2.
    exists (fold_left (madd mode iot) S []). split; auto.
    pose proof (mem_refines_inv iot _ _ I2) as R2.
    pose proof (r_stored_distinct _ _ _ _ R) as NDs. fold S in NDs.
    set (m2 := fold_left (madd mode iot) S []) in *.
    assert (Permutation (mem_objs m2) S) as P.
    { apply NoDup_Permutation.
      - eapply NoDup_of_map. apply (r_stored_distinct _ _ _ _ R2).
      - eapply NoDup_of_map. exact NDs.
      - intros o. split; intros Ho.
        + apply (r_stored_sound _ _ _ _ R2). auto.
        + destruct (r_stored_complete _ _ _ _ R2 _ Ho) as [o' [H1 H2]].
          pose proof (r_stored_sound _ _ _ _ R2 _ H1) as H3.
          assert (o' = o); [|subst; auto]. apply (vkey_inj_in S); auto. }
    split; auto.
    (* lookups: same ids present, same newest version *)
    assert (forall id, versions id S = [] <-> versions id NL = []) as Hv.
    { intros id. split; intros H.
      - destruct (versions id NL) as [|a r] eqn:Ev; auto.
        assert (In a (versions id NL)) as Ha by (rewrite Ev; simpl; auto). apply versions_In in Ha. destruct Ha as [Ha1 Ha2].
        destruct (r_stored_complete _ _ _ _ R _ Ha1) as [a' [A1 A2]]. fold S in A1.
        assert (In a' (versions id S)) as X. { apply versions_In. split; auto. unfold vkey_of in A2. congruence. }
        rewrite H in X. contradiction.
      - destruct (versions id S) as [|a r] eqn:Ev; auto.
        assert (In a (versions id S)) as Ha by (rewrite Ev; simpl; auto). apply versions_In in Ha. destruct Ha as [Ha1 Ha2].
        apply (r_stored_sound _ _ _ _ R) in Ha1.
        assert (In a (versions id NL)) as X by (apply versions_In; auto). rewrite H in X. contradiction. }
    split.
    - intros id. split; intros H.
      + apply (r_get_none _ _ _ _ R2) in H. apply Hv in H.
        destruct (mem_get [] id (run L)) as [o|] eqn:Eg; auto.
        destruct (r_get_some _ _ _ _ R _ _ Eg) as [A1 [A2 _]].
        assert (In o (versions id NL)) as X by (apply versions_In; auto). rewrite H in X. contradiction.
      + apply (r_get_none _ _ _ _ R) in H. apply Hv in H.
        destruct (mem_get [] id m2) as [o|] eqn:Eg; auto.
        destruct (r_get_some _ _ _ _ R2 _ _ Eg) as [A1 [A2 _]].
        assert (In o (versions id S)) as X by (apply versions_In; auto). rewrite H in X. contradiction.
    - intros id o2 o G2 G1.
      destruct (r_get_some _ _ _ _ R2 _ _ G2) as [A1 [A2 A3]].
      destruct (r_get_some _ _ _ _ R _ _ G1) as [B1 [B2 B3]].
      apply v_ge_antisym.
      + destruct (r_stored_complete _ _ _ _ R _ B1) as [o' [C1 C2]]. fold S in C1.
        unfold vkey_of in C2. injection C2 as C3 C4. rewrite <- C4. apply A3; auto. congruence.
      + apply B3; auto. apply (r_stored_sound _ _ _ _ R). auto.
  Qed.
End Agree.

(* ---------- refinement only looks at which objects are in the list ---------- *)
Lemma versions_nil_iff : forall id L, versions id L = [] <-> forall o, In o L -> oid o <> id.
Proof.
  intros id L. split.
  - intros H o Ho E. assert (In o (versions id L)) as X by (apply versions_In; auto). rewrite H in X. contradiction.
  - intros H. destruct (versions id L) as [|o l] eqn:E; auto.
    assert (In o (versions id L)) as X by (rewrite E; simpl; auto). apply versions_In in X. destruct X as [X1 X2].
    exfalso. exact (H o X1 X2).
Qed.

Lemma refines_ext : forall L L' g a st, (forall o, In o L <-> In o L') -> refines L g a st -> refines L' g a st.
Proof.
  intros L L' g a st E R. constructor.
  - intros id H. apply versions_nil_iff. intros o Ho. apply E in Ho.
    pose proof (r_get_none _ _ _ _ R _ H) as X. rewrite versions_nil_iff in X. auto.
  - intros id o H. destruct (r_get_some _ _ _ _ R _ _ H) as [A [B C]]. split; [apply E; auto|]. split; auto.
    intros o' Ho'. apply C. apply E. auto.
  - intros id o H. destruct (r_all_sound _ _ _ _ R _ _ H). split; auto. apply E. auto.
  - intros id o H1 H2. apply (r_all_complete _ _ _ _ R); auto. apply E. auto.
  - apply (r_all_distinct _ _ _ _ R).
  - intros o H. apply E. apply (r_stored_sound _ _ _ _ R). auto.
  - intros o H. apply (r_stored_complete _ _ _ _ R). apply E. auto.
  - apply (r_stored_distinct _ _ _ _ R).
Qed.

Section SaveLoadExact.
  Variable mode : text_mode.
  Variable iot : ustring -> option Z.
  Notation nrm := (norm_obj mode iot).
  Notation run := (mem_run mode iot).

  (* when no (id, modified) was added twice, the reloaded store answers every lookup with the SAME object, holds
     the same versions and the same population *)
  Theorem save_load_exact_thm : forall L, let NL := map nrm L in
    Forall clean NL -> uniform NL -> NoDup (map vkey_of NL) ->
    exists m2, mem_load_saved mode iot (run L) [] = (m2, None) /\
      (forall id, mem_get [] id m2 = mem_get [] id (run L)) /\
      (forall id, Permutation (mem_all [] id m2) (mem_all [] id (run L))) /\
      Permutation (mem_objs m2) (mem_objs (run L)).
  Proof.
    intros L NL F U ND. destruct (mem_refines_thm mode iot L F U) as [_ [R _]].
    set (S := mem_objs (run L)) in *.
    assert (forall o, In o S <-> In o NL) as ES.
    { intros o. split; intros H.
      - apply (r_stored_sound _ _ _ _ R). auto.
      - destruct (r_stored_complete _ _ _ _ R _ H) as [o' [H1 H2]].
        pose proof (r_stored_sound _ _ _ _ R _ H1) as H3.
        assert (o' = o); [|subst; auto]. apply (vkey_inj_in NL); auto. }
    assert (Forall clean S) as Fs.
    { apply Forall_forall. intros o Ho. apply ES in Ho. rewrite Forall_forall in F. auto. }
    assert (uniform S) as Us.
    { intros a b Ha Hb. apply U; apply ES; auto. }
    unfold mem_load_saved. fold S. rewrite (aware_map_clean _ Fs).
    destruct (add_items_goods mode iot S [] [] MemInv_nil Fs Us) as [E I2]. simpl in I2.
    exists (fold_left (madd mode iot) S []). split; auto.
    pose proof (mem_refines_inv iot _ _ I2) as R2.
    apply (refines_ext _ NL _ _ _ ES) in R2.
    destruct (refines_unique _ _ _ _ _ _ _ ND R2 R) as [A1 [A2 A3]]. auto.
  Qed.
End SaveLoadExact.

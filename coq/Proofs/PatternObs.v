(* Proofs/PatternObs.v -- C10: what the (repaired) visitor makes of observation
   expressions and qualifiers, and the top-level statement `visit_sv`.        *)
From Coq Require Import NArith ZArith List String Bool Lia.
From V Require Import Model.PatternSyntax Spec.PatternSpec Proofs.PatternR Proofs.PatternNumbers Proofs.PatternLit Proofs.PatternPath Proofs.PatternCmp.
Import ListNotations.
Open Scope N_scope.





(* the whole side condition of the theorems about the visitor *)

Lemma kind_single : forall t k, kind_in t [k] = true -> tk t = k /\ token_ok t = true.
Proof.
  intros [k' s] k H. unfold kind_in in H. apply andb_true_iff in H. destruct H as [H1 H2].
  cbn [tk existsb] in *. rewrite orb_false_r in H1. split; [|exact H2].
  destruct k', k; cbn in H1; try discriminate; reflexivity.
Qed.

Lemma kind_in_weaken : forall t ks ks', kind_in t ks = true ->
  (forall k, existsb (tkind_eqb k) ks = true -> existsb (tkind_eqb k) ks' = true) -> kind_in t ks' = true.
Proof.
  intros t ks ks' H W. unfold kind_in in *. apply andb_true_iff in H. destruct H as [H1 H2].
  rewrite (W _ H1), H2. reflexivity.
Qed.

Lemma ts_primitive : forall t, kind_in t [KTimestamp] = true -> kind_in t primitive_kinds = true.
Proof. intros t H. apply (kind_in_weaken _ _ _ H). intros k. destruct k; cbn; intros E; try discriminate; reflexivity. Qed.
Lemma intpos_primitive : forall t, kind_in t [KIntPos] = true -> kind_in t primitive_kinds = true.
Proof. intros t H. apply (kind_in_weaken _ _ _ H). intros k. destruct k; cbn; intros E; try discriminate; reflexivity. Qed.
Lemma within_primitive : forall t, kind_in t [KIntPos; KFloatPos] = true -> kind_in t primitive_kinds = true.
Proof. intros t H. apply (kind_in_weaken _ _ _ H). intros k. destruct k; cbn; intros E; try discriminate; reflexivity. Qed.

Lemma lit_sem_other : forall t, tk t <> KTimestamp -> tk t <> KHex -> tk t <> KFloatPos -> tk t <> KFloatNeg -> lit_sem t = true.
Proof. intros [k s] H1 H2 H3 H4. unfold lit_sem. cbn [tk] in *. destruct k; try reflexivity; congruence. Qed.

(* the constant a numeric token visits to *)
Lemma sv_lit_intpos : forall t, kind_in t [KIntPos] = true -> exists z, sv_lit t = CInt z.
Proof.
  intros t H. destruct (kind_single _ _ H) as [Hk Hok]. destruct t as [k s]. cbn [tk] in Hk. subst k.
  unfold token_ok in Hok. cbn [tk tx] in Hok. destruct (py_int_intpos s Hok) as [z Hz].
  exists z. unfold sv_lit, PatternSyntax.visit_terminal. cbn [tk tx]. rewrite Hz. reflexivity.
Qed.

Lemma sv_lit_within : forall t, kind_in t [KIntPos; KFloatPos] = true ->
  (exists z, sv_lit t = CInt z) \/ (exists f, sv_lit t = CFloat f).
Proof.
  intros t H. unfold kind_in in H. apply andb_true_iff in H. destruct H as [H1 Hok].
  destruct t as [k s]. cbn [tk] in H1. unfold token_ok in Hok. cbn [tk tx] in Hok.
  destruct k; cbn in H1; try discriminate.
  - left. destruct (py_int_intpos s Hok) as [z Hz]. exists z. unfold sv_lit, PatternSyntax.visit_terminal. cbn [tk tx]. rewrite Hz. reflexivity.
  - right. destruct (py_float_floatpos s Hok) as [f Hf]. exists f. unfold sv_lit, PatternSyntax.visit_terminal. cbn [tk tx]. rewrite Hf. reflexivity.
Qed.

Lemma sv_lit_ts : forall t, kind_in t [KTimestamp] = true -> lit_sem t = true -> exists v, sv_lit t = CTimestamp v.
Proof.
  intros t H S. pose proof (visit_lit t (ts_primitive t H) S) as V.
  destruct (kind_single _ _ H) as [Hk Hok]. destruct t as [k s]. cbn [tk] in Hk. subst k.
  unfold PatternSyntax.visit_terminal in V. cbn [tk tx] in V.
  destruct (py_strptime _) as [v|]; [|discriminate]. exists v. inversion V. reflexivity.
Qed.

Lemma v_qual_ok : forall q, wf_qual q = true -> sem_qual q = true -> v_qual repaired q = Ok (VQual (sv_qual q)).
Proof.
  intros [a b|n|n] Hw Hs; cbn [wf_qual sem_qual] in Hw, Hs.
  - apply andb_true_iff in Hw, Hs. destruct Hw as [Ha Hb]. destruct Hs as [Sa Sb].
    cbn [v_qual]. rewrite (visit_lit a (ts_primitive a Ha) Sa), (visit_lit b (ts_primitive b Hb) Sb).
    destruct (sv_lit_ts a Ha Sa) as [va Ea]. destruct (sv_lit_ts b Hb Sb) as [vb Eb].
    cbn [sv_qual]. rewrite Ea, Eb. reflexivity.
  - pose proof Hs as S.
    cbn [v_qual]. rewrite (visit_lit n (within_primitive n Hw) S). cbn [sv_qual].
    destruct (sv_lit_within n Hw) as [[z E]|[f E]]; rewrite E; reflexivity.
  - assert (S : lit_sem n = true).
    { destruct (kind_single _ _ Hw) as [Hk _]. apply lit_sem_other; rewrite Hk; discriminate. }
    cbn [v_qual]. rewrite (visit_lit n (intpos_primitive n Hw) S). cbn [sv_qual].
    destruct (sv_lit_intpos n Hw) as [z E]. rewrite E. reflexivity.
Qed.

Scheme obs_mind := Induction for obs Sort Prop
  with obsand_mind := Induction for obsand Sort Prop
  with obsor_mind := Induction for obsor Sort Prop
  with obsfb_mind := Induction for obsfb Sort Prop.
Combined Scheme obs_mutind from obs_mind, obsand_mind, obsor_mind, obsfb_mind.

Lemma m_obs_binary_one : forall op v, m_obs_binary op [v] = Ok v.
Proof. reflexivity. Qed.

Lemma visit_obs :
  (forall o, wf_obs o = true -> sem_obs o = true -> v_obs repaired o = Ok (VExpr (sv_obs o) None)) /\
  (forall a, wf_oand a = true -> sem_oand a = true -> v_oand repaired a = Ok (VExpr (sv_oand a) None)) /\
  (forall a, wf_oor a = true -> sem_oor a = true -> v_oor repaired a = Ok (VExpr (sv_oor a) None)) /\
  (forall a, wf_fb a = true -> sem_fb a = true -> v_fb repaired a = Ok (VExpr (sv_fb a) None)).
Proof.
  apply obs_mutind.
  - intros e Hw Hs. cbn [wf_obs sem_obs] in Hw, Hs. cbn [v_obs]. rewrite (v_or_value e Hw Hs). reflexivity.
  - intros e IH Hw Hs. cbn [wf_obs sem_obs] in Hw, Hs. cbn [v_obs]. rewrite (IH Hw Hs). reflexivity.
  - intros o IH q Hw Hs. cbn [wf_obs sem_obs] in Hw, Hs.
    apply andb_true_iff in Hw, Hs. destruct Hw as [Hwo Hwq]. destruct Hs as [Hso Hsq].
    cbn [v_obs]. rewrite (IH Hwo Hso), (v_qual_ok q Hwq Hsq). reflexivity.
  - intros o IH Hw Hs. cbn [wf_oand sem_oand] in Hw, Hs. cbn [v_oand]. rewrite (IH Hw Hs). reflexivity.
  - intros l IHl r IHr Hw Hs. cbn [wf_oand sem_oand] in Hw, Hs.
    apply andb_true_iff in Hw, Hs. destruct Hw as [Hwl Hwr]. destruct Hs as [Hsl Hsr].
    cbn [v_oand]. rewrite (IHl Hwl Hsl), (IHr Hwr Hsr). reflexivity.
  - intros o IH Hw Hs. cbn [wf_oor sem_oor] in Hw, Hs. cbn [v_oor]. rewrite (IH Hw Hs). reflexivity.
  - intros l IHl r IHr Hw Hs. cbn [wf_oor sem_oor] in Hw, Hs.
    apply andb_true_iff in Hw, Hs. destruct Hw as [Hwl Hwr]. destruct Hs as [Hsl Hsr].
    cbn [v_oor]. rewrite (IHl Hwl Hsl), (IHr Hwr Hsr). reflexivity.
  - intros o IH Hw Hs. cbn [wf_fb sem_fb] in Hw, Hs. cbn [v_fb]. rewrite (IH Hw Hs). reflexivity.
  - intros l IHl r IHr Hw Hs. cbn [wf_fb sem_fb] in Hw, Hs.
    apply andb_true_iff in Hw, Hs. destruct Hw as [Hwl Hwr]. destruct Hs as [Hsl Hsr].
    cbn [v_fb]. rewrite (IHl Hwl Hsl), (IHr Hwr Hsr). reflexivity.
Qed.

(* the model of pattern_visitor.py computes sv on every admissible tree *)
Theorem visit_sv : forall c : pattern, wf c = true -> sem c = true -> visit repaired c = Ok (sv_fb c).
Proof.
  intros c Hw Hs. unfold visit. rewrite (proj2 (proj2 (proj2 visit_obs)) c Hw Hs). reflexivity.
Qed.

(* Proofs/C01Bundle.v -- the round trip of Bundle: its `objects` are parsed (not constructed by a class named
   in the tables), each member through stix2.parse on its own dictionary.
   Route (as for MarkingDefinition, Proofs/C01Marking.v): a Bundle constructor run whose members all come out as
   objects of parse-covered classes is a run of the generic constructor of a class whose `objects` slot is a
   list of embedded objects of a reserved class id MEMB, served by `member_clean` (the member checks of
   STIXObjectProperty.clean around the recursive parse); the theory of Proofs/C01Object.v applies to that class,
   with the parse-level round trip (Proofs/C01Parse.v) as the idempotence of the member constructor; and a run
   of that class is a Bundle run again.                                                              *)
From Coq Require Import NArith ZArith List String Bool Lia.
From V Require Import Base.UString Base.Json Model.SchemaTypes Model.PyBase Model.Schema.
From V Require Import Proofs.C01Basics Proofs.C01Kinds Proofs.C01Float Proofs.C01KindsAll Proofs.C01Sort Proofs.C01Object
  Proofs.C04Strict Proofs.C01Marking Proofs.C01Roundtrip Proofs.C01Parse.
Import ListNotations.

Definition MEMB : ustring := u "<bundle member>".
Definition OBJECTS : ustring := u "objects".

Definition bwrap_slot (s : slot) : slot :=
  if ustr_eqb (sname s) OBJECTS then {| sname := sname s; skind := KListOf MEMB; sreq := sreq s; sdef := sdef s |} else s.

Definition bwrap_cls (c : cls) : cls :=
  {| cid := cid c; cver := cver c; ctype := ctype c; cfamily := cfamily c; cslots := map bwrap_slot (cslots c);
     ccons := ccons c; cinit := cinit c; cidcontrib := cidcontrib c; cserialize_tlp := cserialize_tlp c |}.

Lemma bwrap_sname : forall s, sname (bwrap_slot s) = sname s.
Proof. intros s. unfold bwrap_slot. destruct (ustr_eqb (sname s) OBJECTS); reflexivity. Qed.
Lemma bwrap_sreq : forall s, sreq (bwrap_slot s) = sreq s.
Proof. intros s. unfold bwrap_slot. destruct (ustr_eqb (sname s) OBJECTS); reflexivity. Qed.
Lemma bwrap_sdef : forall s, sdef (bwrap_slot s) = sdef s.
Proof. intros s. unfold bwrap_slot. destruct (ustr_eqb (sname s) OBJECTS); reflexivity. Qed.

Lemma bwrap_PN : forall c, PN (bwrap_cls c) = PN c.
Proof. intros c. unfold PN, bwrap_cls. cbn [cslots]. rewrite map_map. apply map_ext. intros s. apply bwrap_sname. Qed.

Lemma bwrap_slot_of : forall c n, slot_of (bwrap_cls c) n = option_map bwrap_slot (slot_of c n).
Proof.
  intros c n. unfold slot_of, bwrap_cls. cbn [cslots]. induction (cslots c) as [| s r IH]; cbn [map find option_map]; [reflexivity |].
  rewrite bwrap_sname. destruct (ustr_eqb (sname s) n); [reflexivity | exact IH].
Qed.

Lemma bwrap_defaulted : forall c S, defaulted_names (bwrap_cls c) S = defaulted_names c S.
Proof.
  intros c S. unfold defaulted_names, bwrap_cls. cbn [cslots].
  induction (cslots c) as [| s r IH]; cbn [map filter]; [reflexivity |].
  rewrite bwrap_sreq, bwrap_sdef, bwrap_sname.
  match goal with |- context [if ?b then _ else _] => destruct b end; cbn [map]; [rewrite bwrap_sname, IH | rewrite IH]; reflexivity.
Qed.

Lemma bwrap_required : forall c (S : list (ustring * pval)),
  existsb (fun s => sreq s && negb (amem (sname s) S)) (cslots (bwrap_cls c)) =
  existsb (fun s => sreq s && negb (amem (sname s) S)) (cslots c).
Proof.
  intros c S. unfold bwrap_cls. cbn [cslots]. induction (cslots c) as [| s r IH]; cbn [map existsb]; [reflexivity |].
  rewrite bwrap_sreq, bwrap_sname, IH. reflexivity.
Qed.

Lemma bwrap_default_checked : forall c, default_checked (bwrap_cls c) = default_checked c.
Proof.
  intros c. unfold default_checked. cbn [cfamily bwrap_cls cslots]. rewrite map_map.
  f_equal. apply map_ext. intros s. apply bwrap_sname.
Qed.

Lemma bwrap_eval_constr : forall vr po c fuel inner k,
  eval_constr vr po fuel (bwrap_cls c) inner k = eval_constr vr po fuel c inner k.
Proof.
  intros vr po c. induction fuel as [| f IH]; intros inner k; [reflexivity |].
  cbn [eval_constr]. destruct k; try reflexivity; try (rewrite bwrap_default_checked; reflexivity).
  match goal with |- context [eval_ccond ?q ?i] => destruct (eval_ccond q i) as [[] | |] end; cbn [bind]; try reflexivity.
  apply constr_all_ext. intros x. apply IH.
Qed.

Lemma bwrap_cg_tail : forall vr po so c a fuel AC r,
  cg_tail vr po so (bwrap_cls c) a fuel AC r = cg_tail vr po so c a fuel AC r.
Proof.
  intros vr po so c a fuel AC [S hc0]. unfold cg_tail. rewrite bwrap_required, bwrap_defaulted. cbn [ccons cfamily cid bwrap_cls].
  rewrite (constr_all_ext _ _ _ (bwrap_eval_constr vr po c fuel S)). reflexivity.
Qed.

Lemma written_bwrap : forall c S, written (bwrap_cls c) S = written c S.
Proof. intros c S. unfold written. rewrite bwrap_defaulted. reflexivity. Qed.

(* ------------------------------------------------------------------ the members *)
Section Members.
  Variable vr : variant.
  Variable w : world.
  Variable rc : ustring -> bool -> bool -> list (ustring * jvalue) -> result pval.
  Variable rp : bool -> bool -> list (ustring * jvalue) -> result pval.
  Variable ro : ver -> list (ustring * ustring) -> bool -> list (ustring * jvalue) -> result pval.
  Variable pids : list ustring.      (* the parse-covered classes *)
  Variable vv : ver.

  (* a member whose id is given, or whose type is not a 2.1 observable type (the condition of the parse-level theorem) *)
  Definition idcond (d : list (ustring * jvalue)) : bool :=
    amem id_key d ||
    match alookup type_key d with Some (JStr t) => negb (amem t (robservables (wreg21 w))) | _ => false end.

  Definition is_v20 : bool := match vv with V20 => true | V21 => false end.

  Definition sv_in (p : pval) : bool :=
    match p with
    | PObject _ inner _ _ => amem (u "spec_version") inner
    | PJ (JObj m) => amem (u "spec_version") m
    | _ => false
    end.

  (* STIXObjectProperty.clean on one member dictionary, for members that come out as objects of covered classes *)
  Definition member_clean (a i : bool) (d : list (ustring * jvalue)) : result pval :=
    match d with
    | [] => Err EValueError
    | _ =>
      if jvalue_eqb (match alookup (u "type") d with Some t => t | None => JNull end) (JStr (u "bundle")) then Err EValueError
      else if amem (u "spec_version") d && is_v20 then Err EValueError
      else
        do p <- rp a i d;
        if vr_bundle20_recheck vr && is_v20 && sv_in p then Err EValueError else
        match p with
        | PObject ci _ _ hc =>
          if negb (mem_ustr ci pids && idcond d) then Err EOutOfFuel
          else if negb a && hc then Err ECustomContent else Ok p
        | _ => Err EOutOfFuel
        end
    end.

  Definition rc2 : ustring -> bool -> bool -> list (ustring * jvalue) -> result pval :=
    fun cid0 a0 i0 x => if ustr_eqb cid0 MEMB then member_clean a0 i0 x else rc cid0 a0 i0 x.

  Lemma rc2_agree : forall cid0 a0 i0 x, ustr_eqb cid0 MEMB = false -> rc2 cid0 a0 i0 x = rc cid0 a0 i0 x.
  Proof. intros cid0 a0 i0 x E. unfold rc2. rewrite E. reflexivity. Qed.

  Notation CK := (clean_kind vr w rc rp ro).
  Notation CK2 := (clean_kind vr w rc2 rp ro).

  (* what is required of a member (given as x, stored as p) for the two to agree *)
  Definition member_cov (x : jvalue) (p : pval) : bool :=
    match x, p with
    | JObj d, PObject ci _ _ _ => mem_ustr ci pids && idcond d &&
                                  match reserved_kw d with Ok _ => true | _ => false end
    | _, _ => false
    end.

  Fixpoint members_cov (l : list jvalue) (res : list pval) : bool :=
    match l, res with
    | [], [] => true
    | x :: l', p :: res' => member_cov x p && members_cov l' res'
    | _, _ => false
    end.

  Lemma item_fwd : forall a i d p h,
    CK (KStixObject vv) a i (JObj d) = Ok (p, h) -> member_cov (JObj d) p = true ->
    member_clean a i d = Ok p /\ pval_has_custom p = h.
  Proof.
    intros a i d p h H Hc. cbn [clean_kind get_dict bind] in H. unfold member_clean.
    destruct d as [| kv d']; [discriminate |].
    fold is_v20 in H.
    destruct (jvalue_eqb (match alookup (u "type") (kv :: d') with Some t => t | None => JNull end) (JStr (u "bundle"))); try discriminate.
    destruct (amem (u "spec_version") (kv :: d') && is_v20); try discriminate.
    unfold bind in *. destruct (rp a i (kv :: d')) as [q | |]; try discriminate.
    fold (sv_in q) in H.
    destruct (vr_bundle20_recheck vr && is_v20 && sv_in q); try discriminate.
    destruct (negb a && match q with PObject _ _ _ h0 => h0 | _ => true end) eqn:Es; try discriminate.
    inversion H; subst p h. clear H.
    unfold member_cov in Hc. destruct q as [| | | | ci inner dfl hc]; try discriminate.
    apply andb_true_iff in Hc. destruct Hc as [Hc _]. rewrite Hc. cbn [negb]. rewrite Es. split; reflexivity.
  Qed.

  Lemma item_bwd : forall a i d p,
    member_clean a i d = Ok p -> CK (KStixObject vv) a i (JObj d) = Ok (p, pval_has_custom p).
  Proof.
    intros a i d p H. cbn [clean_kind get_dict bind]. unfold member_clean in H.
    destruct d as [| kv d']; [discriminate |].
    fold is_v20.
    destruct (jvalue_eqb (match alookup (u "type") (kv :: d') with Some t => t | None => JNull end) (JStr (u "bundle"))); try discriminate.
    destruct (amem (u "spec_version") (kv :: d') && is_v20); try discriminate.
    unfold bind in *. destruct (rp a i (kv :: d')) as [q | |]; try discriminate.
    fold (sv_in q).
    destruct (vr_bundle20_recheck vr && is_v20 && sv_in q); try discriminate.
    destruct q as [| | | | ci inner dfl hc]; try discriminate.
    destruct (negb (mem_ustr ci pids && idcond (kv :: d'))); try discriminate.
    destruct (negb a && hc); try discriminate. inversion H; subst. reflexivity.
  Qed.

  Lemma items_fwd : forall a i l res h,
    clean_items (CK (KStixObject vv) a i) l = Ok (res, h) -> members_cov l res = true ->
    listof_items rc2 MEMB a i l = Ok (res, h).
  Proof.
    induction l as [| x r IH]; intros res h H Hc; cbn [clean_items listof_items] in *.
    - inversion H; subst. reflexivity.
    - unfold bind in H. destruct (CK (KStixObject vv) a i x) as [[p hp] | |] eqn:Ex; try discriminate.
      destruct (clean_items (CK (KStixObject vv) a i) r) as [[res' h'] | |] eqn:Er; try discriminate.
      inversion H; subst res h. clear H. cbn [fst snd members_cov] in *.
      apply andb_true_iff in Hc. destruct Hc as [Hc1 Hc2].
      destruct x as [| | | | | | d]; try discriminate.
      destruct (item_fwd a i d p hp Ex Hc1) as [Em Eh].
      unfold member_cov in Hc1. destruct p as [| | | | ci inner dfl hc]; try discriminate.
      apply andb_true_iff in Hc1. destruct Hc1 as [_ Hr]. destruct (reserved_kw d) as [[] | |]; try discriminate.
      cbn [bind]. unfold rc2 at 1. rewrite ustr_eqb_refl. rewrite Em. cbn [bind].
      rewrite (IH res' h' eq_refl Hc2). cbn [bind fst snd]. rewrite Eh. reflexivity.
  Qed.

  Lemma items_bwd : forall a i l res h,
    listof_items rc2 MEMB a i l = Ok (res, h) -> clean_items (CK (KStixObject vv) a i) l = Ok (res, h).
  Proof.
    induction l as [| x r IH]; intros res h H; cbn [clean_items listof_items] in *.
    - exact H.
    - destruct x as [| | | | | | d]; try discriminate. unfold bind in H.
      destruct (reserved_kw d) as [[] | |]; try discriminate.
      unfold rc2 at 1 in H. rewrite ustr_eqb_refl in H.
      destruct (member_clean a i d) as [p | |] eqn:Em; try discriminate.
      destruct (listof_items rc2 MEMB a i r) as [[res' h'] | |] eqn:Er; try discriminate.
      inversion H; subst res h. clear H.
      rewrite (item_bwd a i d p Em). cbn [bind]. rewrite (IH res' h' eq_refl). reflexivity.
  Qed.

  (* the two property kinds on the same value *)
  Lemma ck_list : forall k a i j,
    CK (KList k) a i j = (do l <- list_items j; do r <- clean_items (CK k a i) l; finish_list a r).
  Proof. reflexivity. Qed.
  Lemma ck2_listof : forall c0 a i j,
    CK2 (KListOf c0) a i j = (do l <- list_items j; do r <- listof_items rc2 c0 a i l; finish_list a r).
  Proof. reflexivity. Qed.

  Lemma kind_fwd : forall a i j l v h,
    list_items j = Ok l ->
    CK (KList (KStixObject vv)) a i j = Ok (v, h) ->
    (forall res, v = PArr res -> members_cov l res = true) ->
    CK2 (KListOf MEMB) a i j = Ok (v, h).
  Proof.
    intros a i j l v h El H Hc. rewrite ck_list in H. rewrite ck2_listof. rewrite El in *. cbn [bind] in *.
    destruct (clean_items (CK (KStixObject vv) a i) l) as [[res h0] | |] eqn:Ec; cbn [bind] in H; try discriminate.
    assert (Ev : v = PArr res /\ h = h0).
    { unfold finish_list in H. destruct (negb a && h0); try discriminate. destruct res; try discriminate.
      inversion H; subst; split; reflexivity. }
    destruct Ev as [Ev Eh]. subst v h.
    rewrite (items_fwd a i l res h0 Ec (Hc res eq_refl)). cbn [bind]. exact H.
  Qed.

  Lemma kind_bwd : forall a i j v h,
    CK2 (KListOf MEMB) a i j = Ok (v, h) -> CK (KList (KStixObject vv)) a i j = Ok (v, h).
  Proof.
    intros a i j v h H. rewrite ck2_listof in H. rewrite ck_list. destruct (list_items j) as [l | |]; cbn [bind] in *; try discriminate.
    destruct (listof_items rc2 MEMB a i l) as [[res h0] | |] eqn:Ec; cbn [bind] in H; try discriminate.
    rewrite (items_bwd a i l res h0 Ec). cbn [bind]. exact H.
  Qed.
End Members.

(* ------------------------------------------------------------------ the property loop and the generic constructor *)
Section BundleCG.
  Variable vr : variant.
  Variable ev : env.
  Variable w : world.
  Variable pattern_ok : ver -> ustring -> bool.
  Variable selectors_ok : list (ustring * pval) -> pval -> result bool.
  Variable rc : ustring -> bool -> bool -> list (ustring * jvalue) -> result pval.
  Variable rp : bool -> bool -> list (ustring * jvalue) -> result pval.
  Variable ro : ver -> list (ustring * ustring) -> bool -> list (ustring * jvalue) -> result pval.
  Variable pids : list ustring.
  Variable vv : ver.
  Variable c : cls.
  Variable a interop : bool.
  Variable vrefs : option (list (ustring * ustring)).
  Variable sO : slot.

  Hypothesis Hnodup : NoDup (map sname (cslots c)).
  Hypothesis HsO : slot_of c OBJECTS = Some sO.
  Hypothesis HkO : skind sO = KList (KStixObject vv).
  Hypothesis HdO : sdef sO = DNone.
  Hypothesis Hav : forall sl, In sl (cslots c) -> sname sl <> OBJECTS -> kind_avoids MEMB (skind sl) = true.

  Notation RC2 := (rc2 vr w rc rp pids vv).
  Notation cw := (bwrap_cls c).
  Notation CPL := (check_property vr ev w rc rp ro c).
  Notation CPR := (check_property vr ev w RC2 rp ro cw).
  Notation STEPL := (step vr ev w rc rp ro c a interop vrefs).
  Notation STEPR := (step vr ev w RC2 rp ro cw a interop vrefs).
  Notation LOOPL := (assign_loop vr ev w rc rp ro c a interop vrefs).
  Notation LOOPR := (assign_loop vr ev w RC2 rp ro cw a interop vrefs).

  Lemma sO_name : sname sO = OBJECTS.
  Proof. destruct (slot_of_In c OBJECTS sO HsO) as [_ E]. exact E. Qed.

  Lemma bwrap_sO : bwrap_slot sO = {| sname := OBJECTS; skind := KListOf MEMB; sreq := sreq sO; sdef := DNone |}.
  Proof. unfold bwrap_slot. rewrite sO_name, ustr_eqb_refl, HdO. reflexivity. Qed.

  Lemma refs_ok_L : forall v, refs_ok c sO vrefs v = Ok tt.
  Proof.
    intros v. unfold refs_ok. rewrite HkO. destruct (cfamily c); try reflexivity. destruct (cver c); try reflexivity.
    destruct vrefs; try reflexivity; destruct v; reflexivity.
  Qed.

  Lemma refs_ok_R : forall v, refs_ok cw (bwrap_slot sO) vrefs v = Ok tt.
  Proof.
    intros v. rewrite bwrap_sO. unfold refs_ok. cbn [skind]. destruct (cfamily cw); try reflexivity. destruct (cver cw); try reflexivity.
    destruct vrefs; reflexivity.
  Qed.

  (* the check of `objects`, both directions *)
  Lemma cp_obj_fwd : forall s' s1 h,
    CPL sO a interop vrefs s' = Ok (s1, h) ->
    (forall j l res, alookup OBJECTS s' = Some (PJ j) -> list_items j = Ok l -> alookup OBJECTS s1 = Some (PArr res) ->
       members_cov w pids l res = true) ->
    CPR (bwrap_slot sO) a interop vrefs s' = Ok (s1, h).
  Proof.
    intros s' s1 h H Hc. rewrite bwrap_sO. unfold check_property, default_value in *. rewrite sO_name, HdO in H. cbn [sname sdef].
    assert (Ed : (match alookup OBJECTS s' with Some _ => Ok (s', false) | None => Ok (s', false) end) = Ok (s', false))
      by (destruct (alookup OBJECTS s'); reflexivity).
    rewrite Ed in *. cbn [bind fst snd] in *.
    unfold clean_present in *. rewrite sO_name in H. cbn [sname skind].
    destruct (alookup OBJECTS s') as [raw |] eqn:Er; [| exact H].
    destruct raw as [j | | | |]; try exact H.
    rewrite HkO in H.
    destruct (clean_kind vr w rc rp ro (KList (KStixObject vv)) a interop j) as [[v hv] | |] eqn:Eck; try discriminate.
    rewrite refs_ok_L in H. cbn [bind] in H. inversion H; subst s1 h. clear H.
    assert (El : exists l, list_items j = Ok l).
    { rewrite ck_list in Eck. destruct (list_items j) as [l | |]; try discriminate. eauto. }
    destruct El as [l El].
    rewrite (kind_fwd vr w rc rp ro pids vv a interop j l v hv El Eck).
    - pose proof (refs_ok_R v) as Hr. rewrite bwrap_sO in Hr. rewrite Hr. reflexivity.
    - intros res Ev. subst v. apply (Hc j l res eq_refl El). apply alookup_aset_same.
  Qed.

  Lemma cp_obj_bwd : forall s' s1 h,
    CPR (bwrap_slot sO) a interop vrefs s' = Ok (s1, h) -> CPL sO a interop vrefs s' = Ok (s1, h).
  Proof.
    intros s' s1 h H. rewrite bwrap_sO in H. unfold check_property, default_value in *. rewrite sO_name, HdO. cbn [sname sdef] in H.
    assert (Ed : (match alookup OBJECTS s' with Some _ => Ok (s', false) | None => Ok (s', false) end) = Ok (s', false))
      by (destruct (alookup OBJECTS s'); reflexivity).
    rewrite Ed in *. cbn [bind fst snd] in *.
    unfold clean_present in *. rewrite sO_name. cbn [sname skind] in H.
    destruct (alookup OBJECTS s') as [raw |] eqn:Er; [| exact H].
    destruct raw as [j | | | |]; try exact H.
    rewrite HkO.
    destruct (clean_kind vr w RC2 rp ro (KListOf MEMB) a interop j) as [[v hv] | |] eqn:Eck; try discriminate.
    rewrite (kind_bwd vr w rc rp ro pids vv a interop j v hv Eck).
    rewrite refs_ok_L. pose proof (refs_ok_R v) as Hr. rewrite bwrap_sO in Hr. rewrite Hr in H. exact H.
  Qed.

  (* every other property: the same check *)
  Lemma cp_other : forall sl s', In sl (cslots c) -> sname sl <> OBJECTS ->
    CPR sl a interop vrefs s' = CPL sl a interop vrefs s'.
  Proof.
    intros sl s' Hin Hne. unfold check_property.
    destruct (default_value vr ev sl s') as [[s2 isnow] | |]; cbn [bind fst snd]; try reflexivity.
    unfold clean_present. destruct (alookup (sname sl) s2) as [raw |]; try reflexivity.
    destruct isnow; try reflexivity. destruct raw; try reflexivity.
    rewrite (clean_kind_ext vr w MEMB rc RC2 rp ro (rc2_agree vr w rc rp pids vv) (skind sl) (Hav sl Hin Hne)). reflexivity.
  Qed.

  Lemma step_other : forall K n s hc, n <> OBJECTS -> STEPR K n s hc = STEPL K n s hc.
  Proof.
    intros K n s hc Hne. unfold step. rewrite bwrap_slot_of.
    destruct (slot_of c n) as [sl |] eqn:Esl; cbn [option_map]; [| reflexivity].
    destruct (slot_of_In c n sl Esl) as [Hin En].
    assert (Hw : bwrap_slot sl = sl).
    { unfold bwrap_slot. rewrite En. destruct (ustr_eqb n OBJECTS) eqn:E; [apply ustr_eqb_eq in E; contradiction | reflexivity]. }
    rewrite Hw. rewrite cp_other; [reflexivity | exact Hin | congruence].
  Qed.

  Lemma step_obj_fwd : forall K s hc s1 h1,
    amem OBJECTS s = false ->
    STEPL K OBJECTS s hc = Ok (s1, h1) ->
    (forall j l res, alookup OBJECTS K = Some j -> list_items j = Ok l -> alookup OBJECTS s1 = Some (PArr res) ->
       members_cov w pids l res = true) ->
    STEPR K OBJECTS s hc = Ok (s1, h1).
  Proof.
    intros K s hc s1 h1 Hf H Hc. unfold step in *. rewrite bwrap_slot_of. rewrite HsO in *. cbn [option_map].
    unfold bind in *.
    destruct (CPL sO a interop vrefs (assign_raw K [] [] OBJECTS s)) as [[x y] | |] eqn:Ec; try discriminate.
    inversion H; subst s1 h1. clear H. cbn [fst snd] in *.
    rewrite (cp_obj_fwd _ x y Ec); [reflexivity |].
    intros j l res Ej El Er. apply (Hc j l res); auto.
    rewrite assign_raw_spec in Ej. destruct (alookup OBJECTS K) as [j0 |] eqn:Ek.
    - destruct (nullish j0).
      + apply amem_alookup_none in Hf. rewrite Hf in Ej. discriminate.
      + rewrite alookup_aset_same in Ej. inversion Ej. reflexivity.
    - apply amem_alookup_none in Hf. rewrite Hf in Ej. discriminate.
  Qed.

  Lemma step_obj_bwd : forall K s hc r, STEPR K OBJECTS s hc = Ok r -> STEPL K OBJECTS s hc = Ok r.
  Proof.
    intros K s hc r H. unfold step in *. rewrite bwrap_slot_of in H. rewrite HsO in *. cbn [option_map] in H.
    unfold bind in *.
    destruct (CPR (bwrap_slot sO) a interop vrefs (assign_raw K [] [] OBJECTS s)) as [[x y] | |] eqn:Ec; try discriminate.
    rewrite (cp_obj_bwd _ x y Ec). exact H.
  Qed.

  Lemma loop_fwd : forall K l s hc S hcf,
    NoDup l -> (forall n, In n l -> amem n s = false) ->
    LOOPL K [] [] l s hc = Ok (S, hcf) ->
    (forall j l0 res, alookup OBJECTS K = Some j -> list_items j = Ok l0 -> alookup OBJECTS S = Some (PArr res) ->
       members_cov w pids l0 res = true) ->
    LOOPR K [] [] l s hc = Ok (S, hcf).
  Proof.
    induction l as [| n rest IH]; intros s hc S hcf ND Hf H Hc; [exact H |].
    rewrite loop_cons in *. unfold bind in *.
    destruct (STEPL K n s hc) as [[s1 h1] | |] eqn:Es; try discriminate. cbn [fst snd] in H.
    inversion ND; subst.
    assert (Hf1 : forall m, In m rest -> amem m s1 = false).
    { intros m Hm. unfold amem. rewrite (sos_frame _ _ _ m (step_shape vr ev w rc rp ro c a interop vrefs _ _ _ _ _ _ Es)).
      - apply Hf. right. exact Hm.
      - intros E2. subst. contradiction. }
    assert (Er : STEPR K n s hc = Ok (s1, h1)).
    { destruct (ustr_eqb n OBJECTS) eqn:En.
      - apply ustr_eqb_eq in En. subst n. apply step_obj_fwd; [apply Hf; left; reflexivity | exact Es |].
        intros j l0 res Ej El Ea. apply (Hc j l0 res Ej El).
        rewrite (loop_frame vr ev w rc rp ro c a interop vrefs _ _ _ _ _ _ OBJECTS H H2). exact Ea.
      - rewrite step_other; [exact Es |]. intros E. subst. rewrite ustr_eqb_refl in En. discriminate. }
    rewrite Er. cbn [fst snd]. apply IH; auto.
  Qed.

  Lemma loop_bwd : forall K l s hc S hcf,
    LOOPR K [] [] l s hc = Ok (S, hcf) -> LOOPL K [] [] l s hc = Ok (S, hcf).
  Proof.
    induction l as [| n rest IH]; intros s hc S hcf H; [exact H |].
    rewrite loop_cons in *. unfold bind in *.
    destruct (STEPR K n s hc) as [[s1 h1] | |] eqn:Es; try discriminate. cbn [fst snd] in H.
    assert (El : STEPL K n s hc = Ok (s1, h1)).
    { destruct (ustr_eqb n OBJECTS) eqn:En.
      - apply ustr_eqb_eq in En. subst n. apply step_obj_bwd. exact Es.
      - rewrite <- step_other; [exact Es |]. intros E. subst. rewrite ustr_eqb_refl in En. discriminate. }
    rewrite El. cbn [fst snd]. apply IH. exact H.
  Qed.
  (* the generic constructor, both directions *)
  Lemma order_nodup : forall (AC : list ustring), (forall x, In x AC -> notPN c x = true) -> NoDup AC ->
    NoDup (PN c ++ [] ++ usort AC).
  Proof.
    intros AC HAC ND. cbn [app]. apply NoDup_app_disj; [exact Hnodup | apply NoDup_usort; exact ND |].
    intros x Hx Hx2. apply (proj1 (In_usort _ _)) in Hx2. pose proof (HAC x Hx2) as Hn. unfold notPN in Hn.
    apply negb_true_iff in Hn. apply (proj2 (mem_ustr_In x (PN c))) in Hx. congruence.
  Qed.

  Lemma cg_fwd : forall fuel kw obj,
    alookup cp_key kw = None -> alookup ext_key kw = None ->
    construct_generic vr ev w pattern_ok selectors_ok rc rp ro fuel c a interop kw [] vrefs = Ok obj ->
    (forall ci S dfl hc j l0 res, obj = PObject ci S dfl hc -> alookup OBJECTS kw = Some j -> list_items j = Ok l0 ->
       alookup OBJECTS S = Some (PArr res) -> members_cov w pids l0 res = true) ->
    construct_generic vr ev w pattern_ok selectors_ok RC2 rp ro fuel cw a interop kw [] vrefs = Ok obj.
  Proof.
    intros fuel kw obj Hcp Hext H Hc.
    rewrite (cg_plain vr ev w pattern_ok selectors_ok rc rp ro c a interop vrefs fuel kw Hcp Hext) in H.
    rewrite (cg_plain vr ev w pattern_ok selectors_ok RC2 rp ro cw a interop vrefs fuel kw Hcp Hext).
    cbv zeta in *. unfold notPN in *. rewrite bwrap_PN. fold (notPN c) in *.
    set (E := filter (notPN c) (akeys kw)) in *.
    set (AC := udedup (filter (notPN c) (E ++ []))) in *.
    cbn [cver bwrap_cls].
    assert (Hchk : E = [] \/ a = true).
    { destruct E; [left; reflexivity |]. destruct a eqn:Ea; [right; reflexivity | discriminate H]. }
    rewrite (extra_match _ E a _ _ Hchk) in H. rewrite (extra_match _ E a _ _ Hchk).
    destruct (match cver c with V21 => negb (forallb re_prefix21 AC) | V20 => false end); [discriminate |].
    unfold bind in *.
    destruct (assign_loop vr ev w rc rp ro c a interop vrefs kw [] [] (PN c ++ [] ++ usort AC) [] (flag0 vr AC)) as [[S0 hc0] | |] eqn:EL;
      try discriminate.
    destruct (cg_tail_shape vr pattern_ok selectors_ok c a fuel AC S0 hc0 obj H) as [hcx Eo].
    rewrite (loop_fwd kw _ [] _ S0 hc0); [rewrite bwrap_cg_tail; exact H | | intros; reflexivity | exact EL |].
    - apply order_nodup; [| apply NoDup_udedup]. intros x Hx. unfold AC in Hx. apply (proj1 (In_udedup _ _)) in Hx.
      apply filter_In in Hx. tauto.
    - intros j l0 res Ej El Ea. exact (Hc _ _ _ _ j l0 res Eo Ej El Ea).
  Qed.

  Lemma cg_bwd : forall fuel kw obj,
    alookup cp_key kw = None -> alookup ext_key kw = None ->
    construct_generic vr ev w pattern_ok selectors_ok RC2 rp ro fuel cw a interop kw [] vrefs = Ok obj ->
    construct_generic vr ev w pattern_ok selectors_ok rc rp ro fuel c a interop kw [] vrefs = Ok obj.
  Proof.
    intros fuel kw obj Hcp Hext H.
    rewrite (cg_plain vr ev w pattern_ok selectors_ok RC2 rp ro cw a interop vrefs fuel kw Hcp Hext) in H.
    rewrite (cg_plain vr ev w pattern_ok selectors_ok rc rp ro c a interop vrefs fuel kw Hcp Hext).
    cbv zeta in *. unfold notPN in *. rewrite bwrap_PN in H. fold (notPN c) in *.
    set (E := filter (notPN c) (akeys kw)) in *.
    set (AC := udedup (filter (notPN c) (E ++ []))) in *.
    cbn [cver bwrap_cls] in H.
    assert (Hchk : E = [] \/ a = true).
    { destruct E; [left; reflexivity |]. destruct a eqn:Ea; [right; reflexivity | discriminate H]. }
    rewrite (extra_match _ E a _ _ Hchk) in H. rewrite (extra_match _ E a _ _ Hchk).
    destruct (match cver c with V21 => negb (forallb re_prefix21 AC) | V20 => false end); [discriminate |].
    unfold bind in *.
    destruct (assign_loop vr ev w RC2 rp ro cw a interop vrefs kw [] [] (PN c ++ [] ++ usort AC) [] (flag0 vr AC)) as [[S0 hc0] | |] eqn:EL;
      try discriminate.
    rewrite (loop_bwd kw _ [] _ S0 hc0 EL). rewrite bwrap_cg_tail in H. exact H.
  Qed.
End BundleCG.

(* ------------------------------------------------------------------ the constructor of Bundle *)
Definition bundle_vv (c : cls) : option ver :=
  match slot_of c OBJECTS with
  | Some sO => match skind sO with KList (KStixObject vv) => Some vv | _ => None end
  | None => None
  end.

(* what the theorem asks of the members: given with their id (or of a type that is not a 2.1 observable type)
   and without reserved argument names, and stored as objects of parse-covered classes *)
Definition bundle_members_ok (w : world) (pids : list ustring) (kw : list (ustring * jvalue)) (o : pval) : bool :=
  match alookup OBJECTS kw, o with
  | Some j, PObject _ Sv _ _ =>
    match list_items j, alookup OBJECTS Sv with
    | Ok l0, Some (PArr res) => members_cov w pids l0 res
    | _, _ => true
    end
  | _, _ => true
  end.

Section BundleRun.
  Variable vr : variant.
  Variable ev : env.
  Variable w : world.
  Variable pattern_ok : ver -> ustring -> bool.
  Variable selectors_ok : list (ustring * pval) -> pval -> result bool.
  Hypothesis Hpad : vr_year_pad vr = true.
  Variable ids : list ustring.
  Hypothesis Hclosed : closed_okw vr w ids = true.
  Hypothesis Hreg : registry_ok w = true.
  Variable pids : list ustring.
  Hypothesis Hsub : forallb (fun k => mem_ustr k ids) pids = true.
  Hypothesis Hpc : forallb (fun k => match find_class (wclasses w) k with Some c => parse_class_ok w c | None => false end) pids = true.

  Notation RUN := (run vr ev w pattern_ok selectors_ok).

  Definition P2b (cid0 : ustring) : bool := ustr_eqb cid0 MEMB || nestable w ids cid0.

  Definition bundle_ok (c : cls) : bool :=
    match cinit c with IBundleObjects => true | _ => false end &&
    match cfamily c with FSco => false | _ => true end &&
    nodupb (map sname (cslots c)) && nodupb (map sname (cslots (bwrap_cls c))) &&
    forallb (slot_ok vr P2b) (cslots (bwrap_cls c)) &&
    forallb (fun s => ustr_eqb (sname s) OBJECTS || kind_avoids MEMB (skind s)) (cslots c) &&
    match slot_of c OBJECTS with
    | Some sO => is_dnone sO &&
                 match skind sO with
                 | KList (KStixObject vv) => match vv with V20 => vr_bundle20_recheck vr | V21 => true end
                 | _ => false
                 end
    | None => false
    end.

  Section Level.
    Variable f : nat.
    Variable vv : ver.
    Hypothesis Hrecheck : match vv with V20 => vr_bundle20_recheck vr = true | V21 => True end.

    Notation rc := (fun k a i kw0 => RUN f (RConstruct k a i kw0 None)).
    Notation rp := (fun a i d => RUN f (RParse a i None d)).
    Notation ro := (fun vv0 refs a d => RUN f (RParseObs (Some vv0) refs a false d)).
    Notation RC2 := (rc2 vr w rc rp pids vv).

    Lemma idcond_prop : forall d, idcond w d = true ->
      amem id_key d = true \/ forall t, alookup type_key d = Some (JStr t) -> amem t (robservables (wreg21 w)) = false.
    Proof.
      intros d H. unfold idcond in H. apply orb_true_iff in H. destruct H as [H | H]; [left; exact H | right].
      intros t Et. rewrite Et in H. apply negb_true_iff in H. exact H.
    Qed.

    Lemma rc2b_idem : rc_idem RC2 ro P2b.
    Proof.
      split.
      2:{ intros vv0 HP. unfold P2b in HP. rewrite nestable_no_tag in HP.
          assert (E : ustr_eqb (obs_tag vv0) MEMB = false) by (destruct vv0; vm_compute; reflexivity).
          rewrite E in HP. discriminate. }
      intros cid0 a i d o HP Hp H. unfold rc2 in *. unfold P2b in HP.
      destruct (ustr_eqb cid0 MEMB) eqn:E.
      2:{ cbn [orb] in HP.
          exact (proj1 (claim_rc vr ev w pattern_ok selectors_ok ids f
                   (run_construct_idem vr ev w pattern_ok selectors_ok Hpad ids Hclosed f)) cid0 a i d o HP Hp H). }
      clear HP E. unfold member_clean in H.
      destruct d as [| kv d']; [discriminate |]. set (d := kv :: d') in *.
      destruct (jvalue_eqb (match alookup (u "type") d with Some t => t | None => JNull end) (JStr (u "bundle"))) eqn:Hty; try discriminate.
      destruct (amem (u "spec_version") d && is_v20 vv) eqn:Hsv; try discriminate.
      unfold bind in H. destruct (RUN f (RParse a i None d)) as [q | |] eqn:Erp; try discriminate.
      destruct (vr_bundle20_recheck vr && is_v20 vv && sv_in q) eqn:Hre; try discriminate.
      destruct q as [| | | | ci inner dfl hc]; try discriminate.
      destruct (negb (mem_ustr ci pids && idcond w d)) eqn:Hcov; try discriminate.
      destruct (negb a && hc) eqn:Hst; try discriminate.
      inversion H; subst o. clear H.
      apply negb_false_iff in Hcov. apply andb_true_iff in Hcov. destruct Hcov as [Hci Hid].
      destruct (parse_roundtrip_full vr ev w pattern_ok selectors_ok Hpad ids Hclosed Hreg pids Hsub Hpc f a i d ci inner dfl hc
                  Hp Hci (idcond_prop d Hid) Erp) as [R1 [Hpl [Hres [[t [Et Et']] [Hidp Hkeys]]]]].
      set (o := PObject ci inner dfl hc) in *.
      split; [unfold o, omem; rewrite !encode_obj; reflexivity |]. split; [exact Hres |]. split; [| exact Hpl].
      unfold member_clean.
      destruct (omem o) as [| kv2 d2] eqn:Eom; [unfold type_key in Et'; discriminate |].
      rewrite <- Eom in *.
      change (u "type") with type_key in *. rewrite Et'. rewrite Et in Hty. rewrite Hty.
      assert (Hsv' : amem (u "spec_version") (omem o) && is_v20 vv = false).
      { destruct (is_v20 vv) eqn:Ev; [| apply andb_false_r].
        rewrite andb_true_r. destruct vv; try discriminate. rewrite Hrecheck in Hre. cbn [andb] in Hre.
        unfold sv_in, o in Hre. destruct (amem (u "spec_version") (omem (PObject ci inner dfl hc))) eqn:Ea; auto.
        apply Hkeys in Ea. congruence. }
      rewrite Hsv'. unfold bind. rewrite R1. rewrite Hre. unfold o at 1.
      assert (Hid' : idcond w (omem o) = true).
      { unfold idcond in *. apply orb_true_iff in Hid. destruct Hid as [Hid | Hid].
        - rewrite (Hidp Hid). reflexivity.
        - rewrite Et'. rewrite Et in Hid. rewrite Hid. apply orb_true_r. }
      rewrite Hci, Hid'. cbn [andb negb]. rewrite Hst. reflexivity.
    Qed.
  End Level.
  Lemma bundle_ok_facts : forall c, bundle_ok c = true ->
    cinit c = IBundleObjects /\ cfamily c <> FSco /\
    NoDup (map sname (cslots c)) /\ NoDup (map sname (cslots (bwrap_cls c))) /\
    forallb (slot_ok vr P2b) (cslots (bwrap_cls c)) = true /\
    (forall sl, In sl (cslots c) -> sname sl <> OBJECTS -> kind_avoids MEMB (skind sl) = true) /\
    exists sO vv, slot_of c OBJECTS = Some sO /\ sdef sO = DNone /\ skind sO = KList (KStixObject vv) /\
                  match vv with V20 => vr_bundle20_recheck vr = true | V21 => True end.
  Proof.
    intros c H. unfold bundle_ok in H.
    apply andb_true_iff in H. destruct H as [H H7]. apply andb_true_iff in H. destruct H as [H H6].
    apply andb_true_iff in H. destruct H as [H H5]. apply andb_true_iff in H. destruct H as [H H4].
    apply andb_true_iff in H. destruct H as [H H3]. apply andb_true_iff in H. destruct H as [H1 H2].
    split; [destruct (cinit c); try discriminate; reflexivity |].
    split; [intros E; rewrite E in H2; discriminate |].
    split; [apply nodupb_NoDup; exact H3 |]. split; [apply nodupb_NoDup; exact H4 |]. split; [exact H5 |]. split.
    - intros sl Hin Hne. rewrite forallb_forall in H6. specialize (H6 sl Hin). apply orb_true_iff in H6.
      destruct H6 as [E | E]; [apply ustr_eqb_eq in E; contradiction | exact E].
    - destruct (slot_of c OBJECTS) as [sO |]; try discriminate. apply andb_true_iff in H7. destruct H7 as [A B].
      unfold is_dnone in A. destruct (sdef sO) eqn:Ed; try discriminate.
      destruct (skind sO) eqn:Ek; try discriminate.
      match type of B with match ?k0 with _ => _ end = true => destruct k0; try discriminate end.
      match goal with Ek' : skind sO = KList (KStixObject ?x) |- _ => exists sO, x; repeat split; auto; destruct x; auto end.
  Qed.

  (* roundtrip_equal for Bundle, constructor level *)
  Theorem bundle_roundtripw : forall fuel kid allow interop kw vrefs o c,
    find_class (wclasses w) kid = Some c -> bundle_ok c = true ->
    plain_dict kw = true ->
    RUN fuel (RConstruct kid allow interop kw vrefs) = Ok o ->
    bundle_members_ok w pids kw o = true ->
    RUN fuel (RConstruct kid allow interop (omem o) vrefs) = Ok o.
  Proof.
    intros fuel kid allow interop kw vrefs o c Ef Hbo Hp H Hcov.
    destruct fuel as [| f]; [cbn [run] in H; discriminate |].
    destruct (bundle_ok_facts c Hbo) as [Hci [Hfam [Hnd [Hndw [Hslw [Hav [sO [vv [HsO [HdO [HkO Hrk]]]]]]]]]]].
    assert (Hiw : init_okw vr w ids c = true) by (unfold init_okw; rewrite Hci; reflexivity).
    rewrite (run_unfold vr ev w pattern_ok selectors_ok ids f kid allow interop kw vrefs c Ef Hiw) in H.
    rewrite (run_unfold vr ev w pattern_ok selectors_ok ids f kid allow interop _ vrefs c Ef Hiw).
    destruct (amem (u "_valid_refs") kw || amem (u "allow_custom") kw || amem (u "interoperability") kw || amem (u "self") kw) eqn:Eres;
      try discriminate.
    destruct (reserved_split kw Eres) as [R1 [R2 [R3 R4]]].
    set (vrf := match cfamily c with FSco => Some match vrefs with Some r => r | None => [] end | _ => None end) in *.
    unfold init_expr in *. rewrite Hci in *. unfold GEN in *. unfold bind in H.
    match type of H with match ?g with _ => _ end = _ => destruct g as [obj | |] eqn:Eg; try discriminate end.
    assert (Eo : o = obj).
    { unfold post in H. destruct obj; try (inversion H; reflexivity). destruct (cfamily c); try contradiction; inversion H; reflexivity. }
    subst obj.
    destruct (plain_dict_no_key kw Hp) as [Hcp Hext]. apply amem_alookup_none in Hcp. apply amem_alookup_none in Hext.
    (* the run is a generic run of the wrapping class *)
    assert (Hfw := cg_fwd vr ev w pattern_ok selectors_ok
                     (fun k a i kw0 => RUN f (RConstruct k a i kw0 None)) (fun a i d => RUN f (RParse a i None d))
                     (fun vv0 refs a d => RUN f (RParseObs (Some vv0) refs a false d))
                     pids vv c allow interop vrf sO Hnd HsO HkO HdO Hav (S f) kw o Hcp Hext Eg).
    assert (Hcg2 : construct_generic vr ev w pattern_ok selectors_ok
                     (rc2 vr w (fun k a i kw0 => RUN f (RConstruct k a i kw0 None)) (fun a i d => RUN f (RParse a i None d)) pids vv)
                     (fun a i d => RUN f (RParse a i None d)) (fun vv0 refs a d => RUN f (RParseObs (Some vv0) refs a false d))
                     (S f) (bwrap_cls c) allow interop kw [] vrf = Ok o).
    { apply Hfw. intros ci S0 dfl hc j l0 res Eobj Ej El Ea. subst o. unfold bundle_members_ok in Hcov.
      rewrite Ej, El, Ea in Hcov. exact Hcov. }
    destruct (written_facts vr ev w pattern_ok selectors_ok _ _ _ P2b Hpad (rc2b_idem f vv Hrk) (bwrap_cls c) allow interop vrf
                Hndw Hslw (S f) kw o Hp Hcg2) as [Sv [hc [Eobj [Hre [Hpl [Hresv Hgiv]]]]]].
    rewrite written_bwrap in *. rewrite bwrap_defaulted in Eobj. cbn [cid bwrap_cls] in Eobj.
    assert (Eom : omem o = written c Sv) by (subst o; unfold omem; rewrite encode_obj; reflexivity).
    rewrite Eom.
    assert (In1 : In (u "_valid_refs") reserved_names) by (unfold reserved_names; cbn [map In]; repeat (try (left; reflexivity); right)).
    assert (In2 : In (u "allow_custom") reserved_names) by (unfold reserved_names; cbn [map In]; repeat (try (left; reflexivity); right)).
    assert (In3 : In (u "interoperability") reserved_names) by (unfold reserved_names; cbn [map In]; repeat (try (left; reflexivity); right)).
    assert (In4 : In (u "self") reserved_names) by (unfold reserved_names; cbn [map In]; repeat (try (left; reflexivity); right)).
    rewrite (Hresv _ In1 R1), (Hresv _ In2 R2), (Hresv _ In3 R3), (Hresv _ In4 R4). cbn [orb].
    destruct (plain_dict_no_key _ Hpl) as [Hcp' Hext']. apply amem_alookup_none in Hcp'. apply amem_alookup_none in Hext'.
    rewrite (cg_bwd vr ev w pattern_ok selectors_ok _ _ _ pids vv c allow interop vrf sO HsO HkO HdO Hav (S f) (written c Sv) o Hcp' Hext' Hre).
    cbn [bind]. unfold post. subst o. destruct (cfamily c); try contradiction; reflexivity.
  Qed.
End BundleRun.

(* the same under the narrower table condition closed_ok (plain __init__ forms only) *)
Theorem bundle_roundtrip : forall vr ev w pattern_ok selectors_ok, vr_year_pad vr = true ->
  forall ids, closed_ok vr w ids = true -> registry_ok w = true ->
  forall pids, forallb (fun k => mem_ustr k ids) pids = true ->
    forallb (fun k => match find_class (wclasses w) k with Some c => parse_class_ok w c | None => false end) pids = true ->
  forall fuel kid allow interop kw vrefs o c,
    find_class (wclasses w) kid = Some c -> bundle_ok vr w ids c = true ->
    plain_dict kw = true ->
    run vr ev w pattern_ok selectors_ok fuel (RConstruct kid allow interop kw vrefs) = Ok o ->
    bundle_members_ok w pids kw o = true ->
    run vr ev w pattern_ok selectors_ok fuel (RConstruct kid allow interop (omem o) vrefs) = Ok o.
Proof.
  intros vr ev w po so Hpad ids Hc Hreg pids Hsub Hpc.
  exact (bundle_roundtripw vr ev w po so Hpad ids (closed_ok_weaken vr w ids Hc) Hreg pids Hsub Hpc).
Qed.

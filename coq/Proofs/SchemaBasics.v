(* Proofs/SchemaBasics.v -- generic facts used by the proofs about Model/Schema.v:
   result/bind inversion, string equality, association lists, encode.          *)
From Coq Require Import NArith ZArith List String Bool Lia.
From V Require Import Base.UString Base.Json Model.SchemaTypes Model.PyBase Model.Schema.
Import ListNotations.

(* ---------- result ---------- *)
Lemma bind_ok {A B} (r : result A) (f : A -> result B) (b : B) :
  bind r f = Ok b -> exists a, r = Ok a /\ f a = Ok b.
Proof. destruct r; simpl; intros H; try discriminate. eauto. Qed.

Ltac inv_bind H :=
  let a := fresh "a" in let H1 := fresh H "a" in let H2 := fresh H "b" in
  apply bind_ok in H; destruct H as [a [H1 H2]].

(* ---------- strings ---------- *)
Lemma ustr_eqb_refl (a : ustring) : ustr_eqb a a = true.
Proof. induction a; simpl; auto. rewrite N.eqb_refl. auto. Qed.

Lemma ustr_eqb_eq (a b : ustring) : ustr_eqb a b = true <-> a = b.
Proof.
  split.
  - revert b. induction a; destruct b; simpl; intros H; try discriminate; auto.
    apply andb_true_iff in H. destruct H as [H1 H2]. apply N.eqb_eq in H1. subst. f_equal. auto.
  - intros ->. apply ustr_eqb_refl.
Qed.

Lemma ustr_eqb_sym (a b : ustring) : ustr_eqb a b = ustr_eqb b a.
Proof.
  destruct (ustr_eqb a b) eqn:E.
  - apply ustr_eqb_eq in E. subst. symmetry. apply ustr_eqb_refl.
  - destruct (ustr_eqb b a) eqn:E2; auto. apply ustr_eqb_eq in E2. subst. rewrite ustr_eqb_refl in E. discriminate.
Qed.

Lemma ustr_eqb_neq (a b : ustring) : ustr_eqb a b = false <-> a <> b.
Proof.
  split.
  - intros H E. subst. rewrite ustr_eqb_refl in H. discriminate.
  - intros H. destruct (ustr_eqb a b) eqn:E; auto. apply ustr_eqb_eq in E. contradiction.
Qed.

Lemma mem_ustr_In (x : ustring) (l : list ustring) : mem_ustr x l = true <-> In x l.
Proof.
  induction l; simpl.
  - split; [discriminate | tauto].
  - rewrite orb_true_iff, IHl, ustr_eqb_eq. split; intros [H | H]; auto.
Qed.

Lemma mem_ustr_false (x : ustring) (l : list ustring) : mem_ustr x l = false <-> ~ In x l.
Proof.
  rewrite <- mem_ustr_In. destruct (mem_ustr x l); split; intros; try discriminate; auto. exfalso; auto.
Qed.

Lemma ustr_prefix_app (p s : ustring) : ustr_prefix p (p ++ s) = true.
Proof. induction p; simpl; auto. rewrite N.eqb_refl. auto. Qed.

Lemma ustr_prefix_split (p s : ustring) : ustr_prefix p s = true -> s = p ++ udrop (List.length p) s.
Proof.
  revert s. induction p; simpl; intros s H; auto.
  destruct s; try discriminate. apply andb_true_iff in H. destruct H as [H1 H2].
  apply N.eqb_eq in H1. subst. f_equal. auto.
Qed.

(* ---------- association lists ---------- *)
Section AssocFacts.
  Context {A : Type}.
  Implicit Types (m : list (ustring * A)) (k : ustring).

  Lemma alookup_In k m v : alookup k m = Some v -> In (k, v) m.
  Proof.
    induction m as [|[k' v'] m IH]; simpl; intros H; try discriminate.
    destruct (ustr_eqb k k') eqn:E.
    - apply ustr_eqb_eq in E. inversion H; subst. auto.
    - auto.
  Qed.

  Lemma amem_alookup k m : amem k m = true <-> exists v, alookup k m = Some v.
  Proof. unfold amem. destruct (alookup k m); split; intros H; eauto; try discriminate. destruct H; discriminate. Qed.

  Lemma amem_false k m : amem k m = false <-> alookup k m = None.
  Proof. unfold amem. destruct (alookup k m); split; intros; auto; discriminate. Qed.

  Lemma amem_keys k m : amem k m = mem_ustr k (map fst m).
  Proof.
    unfold amem. induction m as [|[k' v'] m IH]; simpl; auto.
    destruct (ustr_eqb k k'); simpl; auto.
  Qed.

  Lemma alookup_aset_same k v m : alookup k (aset k v m) = Some v.
  Proof.
    induction m as [|[k' v'] m IH]; simpl.
    - rewrite ustr_eqb_refl. auto.
    - destruct (ustr_eqb k k') eqn:E; simpl.
      + rewrite ustr_eqb_refl. auto.
      + rewrite E. auto.
  Qed.

  Lemma alookup_aset_other k k2 v m : ustr_eqb k2 k = false -> alookup k2 (aset k v m) = alookup k2 m.
  Proof.
    intros N. induction m as [|[k' v'] m IH]; simpl.
    - rewrite N. auto.
    - destruct (ustr_eqb k k') eqn:E; simpl.
      + apply ustr_eqb_eq in E. subst. rewrite N. auto.
      + destruct (ustr_eqb k2 k'); auto.
  Qed.

  Lemma amem_aset k k2 v m : amem k2 (aset k v m) = ustr_eqb k2 k || amem k2 m.
  Proof.
    unfold amem. destruct (ustr_eqb k2 k) eqn:E.
    - apply ustr_eqb_eq in E. subst. rewrite alookup_aset_same. auto.
    - rewrite alookup_aset_other by auto. auto.
  Qed.

  (* every entry of aset k v m is the new one or an old one *)
  Lemma In_aset k v m kv : In kv (aset k v m) -> kv = (k, v) \/ In kv m.
  Proof.
    induction m as [|[k' v'] m IH]; simpl.
    - intros [H | []]; subst; auto.
    - destruct (ustr_eqb k k') eqn:E; simpl.
      + intros [H | H]; subst; auto.
      + intros [H | H]; subst; auto. destruct (IH H); auto.
  Qed.

  (* keys stay unique *)
  Lemma keys_aset_nodup k v m : NoDup (map fst m) -> NoDup (map fst (aset k v m)).
  Proof.
    induction m as [|[k' v'] m IH]; simpl; intros H.
    - repeat constructor. simpl. tauto.
    - inversion H; subst. destruct (ustr_eqb k k') eqn:E; simpl.
      + apply ustr_eqb_eq in E. subst. constructor; auto.
      + constructor; auto. intros Hin. apply in_map_iff in Hin. destruct Hin as [[k2 v2] [E2 Hin]]. simpl in E2. subst.
        apply In_aset in Hin. destruct Hin as [Hin | Hin].
        * inversion Hin; subst. rewrite ustr_eqb_refl in E. discriminate.
        * apply H2. apply in_map_iff. exists (k', v2). auto.
  Qed.

  Lemma alookup_In_nodup k v m : NoDup (map fst m) -> In (k, v) m -> alookup k m = Some v.
  Proof.
    induction m as [|[k' v'] m IH]; simpl; intros ND H.
    { destruct H. }
    inversion ND; subst. destruct H as [H | H].
    - inversion H; subst. rewrite ustr_eqb_refl. auto.
    - destruct (ustr_eqb k k') eqn:E; auto.
      apply ustr_eqb_eq in E. subst. exfalso. apply H2. apply in_map_iff. exists (k', v). auto.
  Qed.
End AssocFacts.

Lemma jlookup_alookup (k : ustring) (m : list (ustring * jvalue)) : jlookup k m = alookup k m.
Proof. induction m as [|[k' v] m IH]; simpl; auto. Qed.

(* ---------- encode ---------- *)
Lemma encode_PArr incl l : encode incl (PArr l) = JArr (map (encode incl) l).
Proof. reflexivity. Qed.

Lemma encode_PMap incl m : encode incl (PMap m) = JObj (map (fun kv => (fst kv, encode incl (snd kv))) m).
Proof. simpl. f_equal. induction m as [|[k x] m IH]; simpl; congruence. Qed.

Definition kept (incl : bool) (dfl : list ustring) (kv : ustring * pval) : bool := incl || negb (mem_ustr (fst kv) dfl).

Lemma encode_PObject incl cid inner dfl hc :
  encode incl (PObject cid inner dfl hc) =
  JObj (map (fun kv => (fst kv, encode incl (snd kv))) (filter (kept incl dfl) inner)).
Proof.
  simpl. f_equal. induction inner as [|[k x] m IH]; simpl; auto.
  unfold kept at 1. simpl. destruct (incl || negb (mem_ustr k dfl)); simpl; rewrite IH; auto.
Qed.

Lemma alookup_map_encode incl (m : list (ustring * pval)) k :
  alookup k (map (fun kv => (fst kv, encode incl (snd kv))) m) =
  match alookup k m with Some x => Some (encode incl x) | None => None end.
Proof. induction m as [|[k' x] m IH]; simpl; auto. destruct (ustr_eqb k k'); auto. Qed.

Lemma alookup_filter_keys {A} (p : ustring -> bool) (m : list (ustring * A)) k :
  alookup k (filter (fun kv => p (fst kv)) m) = if p k then alookup k m else None.
Proof.
  induction m as [|[k' x] m IH]; simpl.
  - destruct (p k); auto.
  - destruct (p k') eqn:Ep; simpl.
    + destruct (ustr_eqb k k') eqn:E; auto. apply ustr_eqb_eq in E. subst. rewrite Ep. auto.
    + rewrite IH. destruct (ustr_eqb k k') eqn:E; auto. apply ustr_eqb_eq in E. subst. rewrite Ep. auto.
Qed.

(* a cleaned timestamp carries a non-empty text (used where truthiness of a value is compared with
   truthiness of its serialization) *)
Definition nice (x : pval) : Prop := match x with PTime _ t => t <> [] | _ => True end.

Lemma udrop_app (p s : ustring) : udrop (List.length p) (p ++ s) = s.
Proof. induction p; simpl; auto. Qed.

(* Proofs/ScoIdOrderProofs.v -- the id does not depend on the order of nested
   dictionaries (hashes, extensions, dictionaries inside them, members of nested
   objects): objects holding the same properties up to dictionary order get the
   same id.  For the pinned hash fallback (ByDictOrder) this needs a preferred
   algorithm in `hashes`; for the repaired one (ByName) it is unconditional.     *)
From Coq Require Import String NArith ZArith List Bool Lia Sorted Permutation.
From V Require Import Base.UString Base.Json Model.JcsText Model.Jcs Model.ScoId
  Spec.Rfc8785 Spec.JcsSpec Spec.ScoIdSpec Spec.ScoIdOrder
  Proofs.JcsNumFacts Proofs.JcsSortFacts Proofs.JcsCanonFacts Proofs.ScoIdFacts Proofs.ScoIdHashFacts
  Proofs.ScoIdOrderFacts.
Import ListNotations.
Open Scope N_scope.

Definition F2kv {A B : Type} (R : A -> B -> Prop) (m : list (ustring * A)) (m' : list (ustring * B)) : Prop :=
  Forall2 (fun a b => fst a = fst b /\ R (snd a) (snd b)) m m'.

Definition Ropt {A B : Type} (R : A -> B -> Prop) (o : option A) (o' : option B) : Prop :=
  match o, o' with Some v, Some v' => R v v' | None, None => True | _, _ => False end.

Definition Roptkv {A B : Type} (R : A -> B -> Prop) (o : option (ustring * A)) (o' : option (ustring * B)) : Prop :=
  match o, o' with Some (k, v), Some (k', v') => k = k' /\ R v v' | None, None => True | _, _ => False end.

Section F2.
  Context {A B : Type}.
  Variable R : A -> B -> Prop.

  Lemma plookup_F2 : forall m m', F2kv R m m' -> forall k, Ropt R (plookup k m) (plookup k m').
  Proof.
    induction 1 as [|[k1 v1] [k2 v2] m m' [E1 E2] Hm IH]; intro k; simpl; [exact I|].
    simpl in E1, E2. subst k2. destruct (ustr_eqb k k1); [exact E2|apply IH].
  Qed.

  Lemma first_present_F2 : forall names m m', F2kv R m m' -> Roptkv R (first_present names m) (first_present names m').
  Proof.
    induction names as [|n r IH]; intros m m' H; simpl; [exact I|].
    pose proof (plookup_F2 m m' H n) as L. unfold Ropt in L.
    destruct (plookup n m); destruct (plookup n m'); try contradiction; [split; [reflexivity|exact L]|apply IH; exact H].
  Qed.

  Lemma min_member_F2 : forall m m', F2kv R m m' -> Roptkv R (min_member m) (min_member m').
  Proof.
    induction 1 as [|[k1 v1] [k2 v2] m m' [E1 E2] Hm IH]; simpl; [exact I|].
    simpl in E1, E2. subst k2. unfold Roptkv in IH.
    destruct (min_member m) as [[ka va]|]; destruct (min_member m') as [[kb vb]|]; try contradiction.
    - destruct IH as [Ek Ev]. subst kb. destruct (ustr_ltb ka k1); simpl; auto.
    - simpl. auto.
  Qed.

  Lemma hd_error_F2 : forall m m', F2kv R m m' -> Roptkv R (hd_error m) (hd_error m').
  Proof. destruct 1 as [|[k1 v1] [k2 v2] m m' [E1 E2] Hm]; simpl; auto. Qed.

  Lemma choose_F2 : forall prefs hp m m', F2kv R m m' -> Roptkv R (choose_one_hash prefs hp m) (choose_one_hash prefs hp m').
  Proof.
    intros prefs hp m m' H. unfold choose_one_hash.
    pose proof (first_present_F2 prefs m m' H) as F. unfold Roptkv in F.
    destruct (first_present prefs m) as [[k v]|]; destruct (first_present prefs m') as [[k' v']|]; try contradiction; [exact F|].
    destruct hp; [apply hd_error_F2|apply min_member_F2]; exact H.
  Qed.

  Lemma F2kv_keys : forall m m', F2kv R m m' -> map fst m = map fst m'.
  Proof. induction 1 as [|a b m m' [E _] Hm IH]; simpl; [reflexivity|]. rewrite E, IH. reflexivity. Qed.
End F2.

(* ---- one contributing value ------------------------------------------------------------------- *)
(* the hash fallback does not depend on dictionary order: repaired variant, or a
   preferred algorithm is present *)
Definition hash_ok (prefs : list ustring) (hp : hash_pick) (v : pval) : Prop :=
  hp = ByName \/ forall h, v = PDict h -> first_present prefs h <> None.

Lemma pperm_str_inv : forall s w, pperm (PStr s) w -> w = PStr s.
Proof. intros s w H. inversion H. reflexivity. Qed.

Definition same_shape (v w : pval) : Prop :=
  match v, w with
  | PNone, PNone | PBool _, PBool _ | PInt _, PInt _ | PFloat _, PFloat _ | PStr _, PStr _ | PTime _, PTime _
  | PStamp _ _ _ _, PStamp _ _ _ _
  | PList _, PList _ | PDict _, PDict _ => True
  | _, _ => False
  end.

Lemma pperm_shape : forall v w, pperm v w -> same_shape v w.
Proof. intros v w H. inversion H; subst; simpl; auto. destruct w; exact I. Qed.

Lemma contrib_value_pperm : forall prefs hp key v w, pperm v w -> pnodup v ->
  (key = k_hashes -> hash_ok prefs hp v) ->
  Rres (contrib_value prefs hp key v) (contrib_value prefs hp key w).
Proof.
  intros prefs hp key v w P N HO'. unfold contrib_value.
  destruct (ustr_eqb key k_hashes) eqn:Ek; [|apply jsonable_pperm; assumption].
  apply ustr_eqb_eq in Ek. specialize (HO' Ek). rename HO' into HO.
  inversion P as [v0|l0 l' F2|m0 m' m'' F2 Pm]; subst.
  - (* the same value *)
    destruct w; try reflexivity.
    destruct (choose_one_hash prefs hp m) as [[k hv]|]; [|reflexivity].
    destruct hv; try reflexivity. simpl. apply jp_refl.
  - reflexivity.
  - (* a dictionary in another order *)
    inversion N as [| | | | | | | |m1 N1 N2]; subst.
    pose proof (choose_F2 pperm prefs hp m0 m' F2) as C1.
    assert (K : NoDup (map fst m')) by (rewrite <- (F2kv_keys pperm m0 m' F2); exact N1).
    assert (C2 : choose_one_hash prefs hp m' = choose_one_hash prefs hp m'').
    { destruct HO as [HO|HO].
      - subst hp. apply choose_byname_perm; assumption.
      - specialize (HO m0 eq_refl).
        pose proof (first_present_F2 pperm prefs m0 m' F2) as F. unfold Roptkv in F.
        destruct (first_present prefs m0) as [[k0 v0]|] eqn:E0; [|contradiction].
        destruct (first_present prefs m') as [[k1 v1]|] eqn:E1; [|contradiction].
        eapply choose_preferred_perm; eauto. }
    rewrite <- C2. unfold Roptkv in C1.
    destruct (choose_one_hash prefs hp m0) as [[k hv]|]; destruct (choose_one_hash prefs hp m') as [[k' hv']|]; try contradiction; [|reflexivity].
    destruct C1 as [Ek Ev]. subst k'. pose proof (pperm_shape _ _ Ev) as Sh.
    destruct hv; destruct hv'; try contradiction; try reflexivity.
    apply pperm_str_inv in Ev. inversion Ev; subst. simpl. apply jp_refl.
Qed.

Lemma contrib_value_nodup : forall prefs hp key v a, pnodup v -> contrib_value prefs hp key v = IOk a -> nodup_keys a.
Proof.
  intros prefs hp key v a N H. unfold contrib_value in H.
  destruct (ustr_eqb key k_hashes); [|eapply jsonable_nodup; eauto].
  destruct v; try discriminate. destruct (choose_one_hash prefs hp m) as [[k hv]|]; [|discriminate].
  destruct hv; try discriminate. inversion H; subst.
  constructor; [simpl; constructor; [intros []|constructor]|repeat constructor].
Qed.

(* ---- the projection ------------------------------------------------------------------------------ *)
Definition Rj (a b : ustring * jvalue) : Prop := fst a = fst b /\ jperm (snd a) (snd b).

Lemma dict_set_F2 : forall k v v' d d', jperm v v' -> Forall2 Rj d d' -> Forall2 Rj (dict_set k v d) (dict_set k v' d').
Proof.
  intros k v v' d d' Hv H. induction H as [|[k1 a1] [k2 a2] d d' [E1 E2] Hd IH]; simpl.
  - constructor; [split; [reflexivity|exact Hv]|constructor].
  - simpl in E1, E2. subst k2. destruct (ustr_eqb k k1).
    + constructor; [split; [reflexivity|exact Hv]|exact Hd].
    + constructor; [split; [reflexivity|exact E2]|exact IH].
Qed.

Lemma dict_set_Forall : forall (P : jvalue -> Prop) k v d, P v -> Forall (fun kv => P (snd kv)) d ->
  Forall (fun kv => P (snd kv)) (dict_set k v d).
Proof.
  intros P k v d Hv H. induction H as [|[k1 a1] d H1 Hd IH]; simpl.
  - constructor; [exact Hv|constructor].
  - destruct (ustr_eqb k k1); constructor; auto.
Qed.

Lemma project_pperm : forall prefs hp contrib obj obj' acc acc',
  same_props obj obj' -> Forall (fun kv => pnodup (snd kv)) obj ->
  Forall (fun kv => fst kv = k_hashes -> hash_ok prefs hp (snd kv)) obj ->
  Forall2 Rj acc acc' -> Forall (fun kv => nodup_keys (snd kv)) acc ->
  match project prefs hp contrib obj acc, project prefs hp contrib obj' acc' with
  | IOk m, IOk m' => Forall2 Rj m m' /\ Forall (fun kv => nodup_keys (snd kv)) m
  | IRaise e, IRaise e' => e = e'
  | _, _ => False
  end.
Proof.
  induction contrib as [|key rest IH]; intros obj obj' acc acc' S N HO Hacc Nacc; simpl; [split; assumption|].
  pose proof (plookup_F2 pperm obj obj' S key) as L. unfold Ropt in L.
  destruct (plookup key obj) as [v|] eqn:E1; destruct (plookup key obj') as [v'|] eqn:E2; try contradiction.
  - assert (Nv : pnodup v).
    { apply plookup_In in E1. rewrite Forall_forall in N. exact (N _ E1). }
    assert (Hv : key = k_hashes -> hash_ok prefs hp v).
    { apply plookup_In in E1. rewrite Forall_forall in HO. exact (HO _ E1). }
    pose proof (contrib_value_pperm prefs hp key v v' L Nv Hv) as C. unfold Rres in C.
    destruct (contrib_value prefs hp key v) as [a|e] eqn:Ea; destruct (contrib_value prefs hp key v') as [b|e']; try contradiction; [|exact C].
    apply IH; auto; [apply dict_set_F2; assumption|].
    apply dict_set_Forall; [|exact Nacc]. eapply contrib_value_nodup; eauto.
  - apply IH; auto.
Qed.

Lemma id_order_indep_nested_proof : forall uuid5 prefs hp ty contrib obj obj',
  same_props obj obj' -> Forall (fun kv => pnodup (snd kv)) obj ->
  Forall (fun kv => fst kv = k_hashes -> hash_ok prefs hp (snd kv)) obj ->
  gen_id uuid5 prefs hp ty contrib obj = gen_id uuid5 prefs hp ty contrib obj'.
Proof.
  intros uuid5 prefs hp ty contrib obj obj' S N HO. unfold gen_id.
  pose proof (project_pperm prefs hp contrib obj obj' [] [] S N HO (Forall2_nil _) (Forall_nil _)) as P.
  destruct (project prefs hp contrib obj []) as [m|e] eqn:E1; destruct (project prefs hp contrib obj' []) as [m'|e'] eqn:E2;
    try contradiction; [|subst; reflexivity].
  destruct P as [F Nm]. destruct (project_spec prefs hp contrib obj m E1) as [Nk _].
  assert (C : canon (JObj m) = canon (JObj m')).
  { apply canon_jperm_proof; [|constructor; assumption].
    eapply jp_obj; [exact F|apply Permutation_refl]. }
  destruct F as [|a b m m' Hab F]; [reflexivity|]. rewrite C. reflexivity.
Qed.

(* Proofs/StoreSrc.v -- the store model at the choices read from the SOURCE TEXT
   (Gen/StoreFacts.v, regenerated on every run by translators/tr_stores.py).

   1. one named obligation per choice: the text makes the choice the proofs are about;
   2. the generalised model (Model/StoreCfg.v) at those choices is Model/Store.v;
   3. the refinement / composite theorems for the instance the text denotes;
   4. each alternative the translator recognises violates the property (witnesses).       *)
From Coq Require Import NArith ZArith List Bool Lia Permutation String.
From V Require Import Base.UString Model.Store Model.StoreRun Model.StoreCases Model.StoreCfg Spec.StoreSpec Spec.StoreNavSpec
  Proofs.StoreBase Proofs.StoreMem Proofs.StoreFs Proofs.StoreAgree Proofs.StoreComposite Proofs.StoreNav
  Gen.StoreFacts.
Import ListNotations.
Open Scope list_scope.

(* ---------- 1. the choices of the text ---------- *)
Lemma src_version_table_keyed_by_modified : c_fam_key src_store_cfg = KeyModified.
Proof. reflexivity. Qed.
Lemma src_latest_is_strictly_greater : c_latest_cmp src_store_cfg = CmpGt.
Proof. reflexivity. Qed.
Lemma src_memory_filters_all_chained : c_mem_filters src_store_cfg = AllChained.
Proof. reflexivity. Qed.
Lemma src_fs_get_sorts_by_modified : c_sort_key src_store_cfg = SortModified.
Proof. reflexivity. Qed.
Lemma src_fs_get_picks_last : c_pick src_store_cfg = PickLast.
Proof. reflexivity. Qed.
Lemma src_filename_from_formatted_modified : c_filename src_store_cfg = FormatStrip.
Proof. reflexivity. Qed.
Lemma src_sink_refuses_overwrite : c_overwrite src_store_cfg = Refuse.
Proof. reflexivity. Qed.
Lemma src_versioned_dir_test_ignores_case : c_dir_case src_store_cfg = CaseInsensitive.
Proof. reflexivity. Qed.
Lemma src_composite_get_strictly_greater : c_cget_cmp src_store_cfg = CmpGt.
Proof. reflexivity. Qed.
Lemma src_composite_running_maximum : c_run_max src_store_cfg = UpdateOnTake.
Proof. reflexivity. Qed.
Lemma src_composite_asks_every_member : c_members src_store_cfg = AllMembers.
Proof. reflexivity. Qed.
Lemma src_composite_get_merges_filters : c_merge_get src_store_cfg = Merged.
Proof. reflexivity. Qed.
Lemma src_composite_all_versions_merges_filters : c_merge_all src_store_cfg = Merged.
Proof. reflexivity. Qed.
Lemma src_composite_query_merges_filters : c_merge_query src_store_cfg = Merged.
Proof. reflexivity. Qed.
Lemma src_dedupe_key_is_id_and_version : c_dedupe_key src_store_cfg = KeyIdVer.
Proof. reflexivity. Qed.
Lemma src_related_to_is_federated : c_related src_store_cfg = Federated.
Proof. reflexivity. Qed.
Lemma src_navigation_is_generic_scan : c_navigation src_store_cfg = GenericScan.
Proof. reflexivity. Qed.
Lemma src_environment_store_then_source : c_environment src_store_cfg = StoreThenSource.
Proof. reflexivity. Qed.

Lemma src_is_model : src_store_cfg = model_cfg Federated.
Proof. reflexivity. Qed.

(* ---------- 2. the generalised model at the model's choices is the model ---------- *)
Section AtModel.
  Variable mode : text_mode.
  Variable iot : ustring -> option Z.
  Variable ts2fn : Z -> ustring.
  Variable rm : related_mode.
  Notation mc := (model_cfg rm).

  Lemma mem_add1_g_model : forall o m, mem_add1_g mode iot mc o m = mem_add1 mode iot o m.
  Proof. reflexivity. Qed.

  Lemma mem_run_g_model : forall L, mem_run_g mode iot mc L = mem_run mode iot L.
  Proof. reflexivity. Qed.

  Lemma fs_add1_g_model : forall o s, fs_add1_g mode iot ts2fn mc o s = fs_add1 mode iot ts2fn o s.
  Proof. reflexivity. Qed.

  Lemma fs_run_g_model : forall L, fs_run_g mode iot ts2fn mc L = fs_run mode iot ts2fn L.
  Proof. reflexivity. Qed.

  Lemma fs_query_g_model : forall fl s, fs_query_g mc fl s = fs_query fl s.
  Proof. reflexivity. Qed.

  Lemma fs_all_g_model : forall fl id s, fs_all_g mc fl id s = fs_all fl id s.
  Proof. reflexivity. Qed.

  Lemma fs_get_g_model : forall fl id s, fs_get_g mc fl id s = fs_get fl id s.
  Proof. reflexivity. Qed.

  Lemma cget_loop_g_model : forall l cur, cget_loop_g mc cur l = cget_loop cur l.
  Proof.
    induction l as [|o r IH]; intros cur; simpl; auto;
      destruct cur as [[c v]|]; auto; destruct (is_vnone (ver_of o)); auto;
      destruct (vgt (ver_of o) v) as [[|]|]; auto.
  Qed.

  Lemma cget_g_model : forall af ms cf id, cget_g mc af ms cf id = cget af ms cf id.
  Proof.
    intros af ms cf id. destruct ms; reflexivity.
  Qed.

  Lemma dedupe_g_model : forall l, dedupe_g mc l = dedupe l.
  Proof. reflexivity. Qed.

  Lemma call_g_model : forall af ms cf id, call_g mc af ms cf id = call af ms cf id.
  Proof. reflexivity. Qed.

  Lemma cquery_g_model : forall af ms cf q, cquery_g mc af ms cf q = cquery af ms cf q.
  Proof. reflexivity. Qed.

  Lemma crelationships_g_model : forall ms a rt so to, crelationships_g mc ms a rt so to = crelationships ms a rt so to.
  Proof. reflexivity. Qed.

  Lemma crelated_to_g_model : forall af ms a rt so to fl,
    crelated_to_g mc af ms a rt so to fl = crelated_to rm af ms a rt so to fl.
  Proof. intros. unfold crelated_to_g, crelated_to. destruct ms; auto. Qed.
End AtModel.

(* ---------- 3. the theorems for the instance the text denotes ---------- *)
Section AtSource.
  Variable mode : text_mode.
  Variable iot : ustring -> option Z.
  Variable ts2fn : Z -> ustring.
  Hypothesis ts2fn_inj : forall a b, ts2fn a = ts2fn b -> a = b.
  Notation nrm := (norm_obj mode iot).
  Notation sc := src_store_cfg.

  Lemma src_mem_refines : forall L, let NL := map nrm L in
    Forall clean NL -> uniform NL ->
    refines NL (fun id => mem_get [] id (mem_run_g mode iot sc L)) (fun id => mem_all [] id (mem_run_g mode iot sc L))
               (mem_objs (mem_run_g mode iot sc L)) /\
    (forall fl, mem_query fl (mem_run_g mode iot sc L) = filter (all_hold fl) (mem_objs (mem_run_g mode iot sc L))).
  Proof.
    intros L NL F U. rewrite src_is_model, mem_run_g_model.
    destruct (mem_refines_thm mode iot L F U) as [_ [R Q]]. auto.
  Qed.

  Lemma src_fs_refines : forall L, let NL := map nrm L in
    Forall fs_ok NL -> uniform NL ->
    (forall id, exists x, fs_get_g sc [] id (fs_run_g mode iot ts2fn sc L) = Ok x) /\
    refines NL (fun id => match fs_get_g sc [] id (fs_run_g mode iot ts2fn sc L) with Ok x => x | Err _ => None end)
               (fun id => fs_all_g sc [] id (fs_run_g mode iot ts2fn sc L))
               (map fobj (fs_run_g mode iot ts2fn sc L)) /\
    (forall fl, Permutation (fs_query_g sc fl (fs_run_g mode iot ts2fn sc L))
                            (filter (all_hold fl) (map fobj (fs_run_g mode iot ts2fn sc L)))).
  Proof.
    intros L NL F U. rewrite src_is_model, fs_run_g_model.
    destruct (fs_refines_thm mode iot ts2fn ts2fn_inj L F U) as [_ [G [R Q]]].
    split; [|split].
    - intros id. rewrite fs_get_g_model. apply G.
    - exact R.
    - intros fl. rewrite fs_query_g_model. apply Q.
  Qed.

  Lemma src_stores_agree : forall L, let NL := map nrm L in
    Forall fs_ok NL -> uniform NL -> NoDup (map vkey_of NL) ->
    (forall id, fs_get_g sc [] id (fs_run_g mode iot ts2fn sc L) = Ok (mem_get [] id (mem_run_g mode iot sc L))) /\
    (forall fl, Permutation (mem_query fl (mem_run_g mode iot sc L)) (fs_query_g sc fl (fs_run_g mode iot ts2fn sc L))).
  Proof.
    intros L NL F U ND. rewrite src_is_model, fs_run_g_model, mem_run_g_model.
    destruct (stores_agree_thm mode iot ts2fn ts2fn_inj L F U ND) as [_ [_ [A [_ B]]]].
    split.
    - intros id. rewrite fs_get_g_model. apply A.
    - intros fl. rewrite fs_query_g_model. apply B.
  Qed.

  Lemma src_cget_any_order : forall af ms ms' cf id rs,
    ms <> [] -> Permutation ms ms' ->
    collect (fun m => s_get m (af ++ cf) id) ms = Ok rs -> versioned_all (somes rs) ->
    exists r r', cget_g sc af ms cf id = Ok r /\ cget_g sc af ms' cf id = Ok r' /\
      newest_of (somes rs) r /\ option_map ver_of r = option_map ver_of r'.
  Proof. intros. rewrite src_is_model, !cget_g_model. eapply cget_any_order; eauto. Qed.

  Lemma src_call_distinct_once : forall af ms cf id rs,
    ms <> [] -> collect (fun m => s_all m (af ++ cf) id) ms = Ok rs ->
    exists res, call_g sc af ms cf id = Ok res /\
      (forall o, In o res -> exists r, In r rs /\ In o r) /\
      (forall r o, In r rs -> In o r -> exists o', In o' res /\ dkey_of o' = dkey_of o) /\
      NoDup (map dkey_of res).
  Proof. intros. rewrite src_is_model, call_g_model. eapply call_distinct_once_l; eauto. Qed.

  Lemma src_cquery_distinct_once : forall af ms cf q rs,
    ms <> [] -> collect (fun m => s_query m (af ++ cf) q) ms = Ok rs ->
    exists res, cquery_g sc af ms cf q = Ok res /\
      (forall o, In o res -> exists r, In r rs /\ In o r) /\
      (forall r o, In r rs -> In o r -> exists o', In o' res /\ dkey_of o' = dkey_of o) /\
      NoDup (map dkey_of res).
  Proof. intros. rewrite src_is_model, cquery_g_model. eapply cquery_distinct_once_l; eauto. Qed.

  Lemma src_filters_reach_members : forall af ms (owns : source -> list sfilter),
    (forall m, In m ms -> sound_src (owns m) m) ->
    (forall cf id o, cget_g sc af ms cf id = Ok (Some o) -> all_hold cf o = true /\ all_hold af o = true) /\
    (forall cf id rs o, call_g sc af ms cf id = Ok rs -> In o rs -> all_hold cf o = true /\ all_hold af o = true) /\
    (forall cf q rs o, cquery_g sc af ms cf q = Ok rs -> In o rs ->
        all_hold cf o = true /\ all_hold af o = true /\ all_hold q o = true).
  Proof.
    intros af ms owns Hm.
    destruct (composite_filters_reach_members iot Federated af ms owns Hm) as [A [B C]]. simpl in A, B, C.
    rewrite src_is_model. split; [|split].
    - intros cf id o H. rewrite cget_g_model in H. eapply A; eauto.
    - intros cf id rs o H. rewrite call_g_model in H. eapply B; eauto.
    - intros cf q rs o H. rewrite cquery_g_model in H. eapply C; eauto.
  Qed.

  Lemma src_related_federated : forall ms Ps a rt so to fl,
    ms <> [] -> Forall2 scan_member ms Ps -> so && to = false ->
    let U := List.concat Ps in
    (forall x y, In x U -> In y U -> dkey_of x = dkey_of y -> x = y) ->
    (forall r, In r (rel_scan U a rt so to) -> prop_get k_source_ref r <> None /\ prop_get k_target_ref r <> None) ->
    exists res, crelated_to_g sc [] ms a rt so to fl = Ok res /\
      forall o, In o res <-> In o U /\ all_hold fl o = true /\ neighbour (rel_scan U a rt so to) a (oid o).
  Proof.
    intros. rewrite src_is_model, crelated_to_g_model. eapply (related_federated_union iot); eauto.
  Qed.
End AtSource.

(* ---------- 4. every recognised alternative violates the property ---------- *)
Definition v_obj (id : ustring) (t : Z) (p : N) : obj := mkObj id (u "identity") (VInst t) (VInst 0%Z) p [].
Definition a_id : ustring := u "identity--00000001-0000-4000-8000-000000000001".

Definition cfg_latest (op : cmp_op) : store_cfg :=
  mk_store_cfg KeyModified op AllChained SortModified PickLast FormatStrip Refuse CaseInsensitive
               CmpGt UpdateOnTake AllMembers Merged Merged Merged KeyIdVer Federated GenericScan StoreThenSource.
Definition cfg_pick_first : store_cfg :=
  mk_store_cfg KeyModified CmpGt AllChained SortModified PickFirst FormatStrip Refuse CaseInsensitive
               CmpGt UpdateOnTake AllMembers Merged Merged Merged KeyIdVer Federated GenericScan StoreThenSource.
Definition cfg_overwrites : store_cfg :=
  mk_store_cfg KeyModified CmpGt AllChained SortModified PickLast FormatStrip Overwrites CaseInsensitive
               CmpGt UpdateOnTake AllMembers Merged Merged Merged KeyIdVer Federated GenericScan StoreThenSource.
Definition cfg_case_sensitive : store_cfg :=
  mk_store_cfg KeyModified CmpGt AllChained SortModified PickLast FormatStrip Refuse CaseSensitive
               CmpGt UpdateOnTake AllMembers Merged Merged Merged KeyIdVer Federated GenericScan StoreThenSource.
Definition cfg_run_always : store_cfg :=
  mk_store_cfg KeyModified CmpGt AllChained SortModified PickLast FormatStrip Refuse CaseInsensitive
               CmpGt UpdateAlways AllMembers Merged Merged Merged KeyIdVer Federated GenericScan StoreThenSource.
Definition cfg_first_hit : store_cfg :=
  mk_store_cfg KeyModified CmpGt AllChained SortModified PickLast FormatStrip Refuse CaseInsensitive
               CmpGt UpdateOnTake FirstHit Merged Merged Merged KeyIdVer Federated GenericScan StoreThenSource.
Definition cfg_all_own_only : store_cfg :=
  mk_store_cfg KeyModified CmpGt AllChained SortModified PickLast FormatStrip Refuse CaseInsensitive
               CmpGt UpdateOnTake AllMembers Merged OwnOnly Merged KeyIdVer Federated GenericScan StoreThenSource.
Definition cfg_key_id : store_cfg :=
  mk_store_cfg KeyModified CmpGt AllChained SortModified PickLast FormatStrip Refuse CaseInsensitive
               CmpGt UpdateOnTake AllMembers Merged Merged Merged KeyId Federated GenericScan StoreThenSource.

Definition no_iot : ustring -> option Z := fun _ => None.
Definition mem_of (l : list obj) : source := mem_source [] (mem_run TextOrder no_iot l).

(* `<` instead of `>` in the latest tracking: the memory store returns the oldest *)
Lemma alt_latest_lt_refuted :
  mem_get [] a_id (mem_run_g TextOrder no_iot (cfg_latest CmpLt) [v_obj a_id 1 1; v_obj a_id 2 2]) = Some (v_obj a_id 1 1).
Proof. vm_compute. reflexivity. Qed.

(* [0] instead of [-1]: the filesystem source returns the oldest *)
Lemma alt_pick_first_refuted :
  fs_get_g cfg_pick_first [] a_id (fs_run TextOrder no_iot ts2fn_dec [v_obj a_id 1 1; v_obj a_id 2 2]) = Ok (Some (v_obj a_id 1 1)).
Proof. vm_compute. reflexivity. Qed.

(* no refusal to overwrite: a re-added version silently replaces the stored content *)
Lemma alt_overwrites_refuted :
  map fobj (fs_run_g TextOrder no_iot ts2fn_dec cfg_overwrites [v_obj a_id 1 1; v_obj a_id 1 2]) = [v_obj a_id 1 2].
Proof. vm_compute. reflexivity. Qed.

(* no re.I: objects whose id spells the UUID with upper-case digits are stored but never found *)
Definition uc_id : ustring := u "identity--0000000A-0000-4000-8000-00000000000A".
Lemma alt_case_sensitive_refuted :
  fs_query_g cfg_case_sensitive [] (fs_run TextOrder no_iot ts2fn_dec [v_obj uc_id 1 1]) = [] /\
  fs_query [] (fs_run TextOrder no_iot ts2fn_dec [v_obj uc_id 1 1]) = [v_obj uc_id 1 1].
Proof. vm_compute. split; reflexivity. Qed.

(* the running maximum updated at every step: three members holding versions 3, 1, 2 -> version 2 *)
Lemma alt_run_always_refuted :
  cget_g cfg_run_always [] [mem_of [v_obj a_id 3 1]; mem_of [v_obj a_id 1 2]; mem_of [v_obj a_id 2 3]] [] a_id = Ok (Some (v_obj a_id 2 3)) /\
  cget [] [mem_of [v_obj a_id 3 1]; mem_of [v_obj a_id 1 2]; mem_of [v_obj a_id 2 3]] [] a_id = Ok (Some (v_obj a_id 3 1)).
Proof. vm_compute. split; reflexivity. Qed.

(* the members loop stopping at the first hit: the first member's (older) version *)
Lemma alt_first_hit_refuted :
  cget_g cfg_first_hit [] [mem_of [v_obj a_id 1 1]; mem_of [v_obj a_id 2 2]] [] a_id = Ok (Some (v_obj a_id 1 1)).
Proof. vm_compute. reflexivity. Qed.

(* all_versions not merging the filters handed down: a composite nested in a composite with a filter on the
   outer one returns what the outer filter excludes *)
Lemma alt_all_own_only_refuted :
  let inner af ms := mkSource (cget af ms) (call_g cfg_all_own_only af ms) (cquery af ms) (crelationships ms)
                              (crelated_to Federated af ms) in
  call [FOther (pay_is 2)] [inner [] [mem_of [v_obj a_id 1 1; v_obj a_id 2 2]]] [] a_id = Ok [v_obj a_id 1 1; v_obj a_id 2 2] /\
  call [FOther (pay_is 2)] [composite_source Federated [] [mem_of [v_obj a_id 1 1; v_obj a_id 2 2]]] [] a_id = Ok [v_obj a_id 2 2].
Proof. vm_compute. split; reflexivity. Qed.

(* de-duplication by id only: two versions of one id collapse into one *)
Lemma alt_key_id_refuted :
  call_g cfg_key_id [] [mem_of [v_obj a_id 1 1; v_obj a_id 2 2]] [] a_id = Ok [v_obj a_id 2 2] /\
  call [] [mem_of [v_obj a_id 1 1; v_obj a_id 2 2]] [] a_id = Ok [v_obj a_id 1 1; v_obj a_id 2 2].
Proof. vm_compute. split; reflexivity. Qed.

(* `<=` instead of `>` in the latest tracking: a newer version never replaces the first one *)
Lemma alt_latest_le_refuted :
  mem_get [] a_id (mem_run_g TextOrder no_iot (cfg_latest CmpLe) [v_obj a_id 1 1; v_obj a_id 2 2]) = Some (v_obj a_id 1 1).
Proof. vm_compute. reflexivity. Qed.

(* `>=` instead of `>` is NOT refuted: it still returns a version with the greatest modified (of two copies of
   the same version, the one added last instead of the one added first) *)
Lemma alt_latest_ge_still_newest :
  mem_get [] a_id (mem_run_g TextOrder no_iot (cfg_latest CmpGe) [v_obj a_id 1 1; v_obj a_id 2 2; v_obj a_id 2 3]) = Some (v_obj a_id 2 3) /\
  mem_get [] a_id (mem_run TextOrder no_iot [v_obj a_id 1 1; v_obj a_id 2 2; v_obj a_id 2 3]) = Some (v_obj a_id 2 2).
Proof. vm_compute. split; reflexivity. Qed.

Definition cfg_cget (op : cmp_op) : store_cfg :=
  mk_store_cfg KeyModified CmpGt AllChained SortModified PickLast FormatStrip Refuse CaseInsensitive
               op UpdateOnTake AllMembers Merged Merged Merged KeyIdVer Federated GenericScan StoreThenSource.

(* `<` / `<=` instead of `>` in CompositeDataSource.get: the oldest / the first member's version *)
Lemma alt_cget_lt_refuted :
  cget_g (cfg_cget CmpLt) [] [mem_of [v_obj a_id 2 1]; mem_of [v_obj a_id 1 2]] [] a_id = Ok (Some (v_obj a_id 1 2)) /\
  cget_g (cfg_cget CmpLe) [] [mem_of [v_obj a_id 1 1]; mem_of [v_obj a_id 2 2]] [] a_id = Ok (Some (v_obj a_id 1 1)).
Proof. vm_compute. split; reflexivity. Qed.

(* Proofs/C01Pretty.v -- pretty_toplevel_spec_order: the tie between the serialization layer (pretty=True lists the
   top-level members in the object's own property order, Proofs/C01Serialize.v) and the constructor (the object's
   own property order is the class's property list -- the specification order -- followed by the custom property
   names sorted), for every covered class.                                                                  *)
From Coq Require Import NArith ZArith List String Bool Lia.
From V Require Import Base.UString Base.Json Model.SchemaTypes Model.PyBase Model.Schema Model.Serialize.
From V Require Import Proofs.C01Basics Proofs.C01Kinds Proofs.C01KindsAll Proofs.C01Sort Proofs.C01Object Proofs.C01Serialize
  Proofs.C01Marking Proofs.C01Roundtrip.
Import ListNotations.

Lemma NoDup_app_inv : forall (A : Type) (l1 l2 : list A) x, NoDup (l1 ++ l2) -> In x l1 -> In x l2 -> False.
Proof.
  induction l1 as [| a r IH]; intros l2 x H H1 H2; [contradiction |].
  cbn [app] in H. inversion H; subst. destruct H1 as [E | H1].
  - subst. apply H4. apply in_or_app. right. exact H2.
  - exact (IH l2 x H5 H1 H2).
Qed.

Section Order.
  Variable vr : variant.
  Variable ev : env.
  Variable w : world.
  Variable pattern_ok : ver -> ustring -> bool.
  Variable selectors_ok : list (ustring * pval) -> pval -> result bool.

  (* the stored members of a generic constructor run on plain arguments: the class's properties in class order,
     then the custom property names sorted *)
  Lemma cg_key_order : forall rc rp ro c a i vrf (Hnd : NoDup (map sname (cslots c))) fuel kw ci S0 dfl hc,
    plain_dict kw = true ->
    construct_generic vr ev w pattern_ok selectors_ok rc rp ro fuel c a i kw [] vrf = Ok (PObject ci S0 dfl hc) ->
    exists customs,
      map fst S0 = filter (fun n => amem n S0) (PN c ++ customs) /\
      NoDup (PN c ++ customs) /\ (forall x, In x customs -> mem_ustr x (PN c) = false) /\ usort customs = customs.
  Proof.
    intros rc rp ro c a i vrf Hnd fuel kw ci S0 dfl hc Hp H.
    destruct (cg_unfold vr ev w pattern_ok selectors_ok rc rp ro c a i vrf Hnd fuel kw _ Hp H) as [AC [S1 [hc0 [hc1 [HND [_ [EL Eo]]]]]]].
    inversion Eo; subst. exists (usort AC). split; [| split; [| split; [| apply usort_idem]]].
    - pose proof (loop_keys vr ev w rc rp ro c a i vrf kw _ [] _ S1 hc0 HND (fun _ _ => eq_refl) EL) as Hk.
      cbn [map app] in Hk. exact Hk.
    - exact HND.
    - intros x Hx. destruct (mem_ustr x (PN c)) eqn:E; auto. exfalso.
      apply mem_ustr_In in E. cbn [app] in HND. exact (NoDup_app_inv _ _ _ x HND E Hx).
  Qed.

  Hypothesis Hpad : vr_year_pad vr = true.
  Variable ids : list ustring.
  Hypothesis Hclosed : closed_okw vr w ids = true.

  (* pretty_toplevel_spec_order: for an object a covered constructor returns, pretty=True writes the top-level
     members that are kept (all of them, or those not defaulted) in this order: the class's properties in class
     order, then the custom properties sorted by name *)
  Theorem pretty_spec_order : forall f kid allow interop kw vrefs ci inner dfl hc c incl g ms,
    mem_ustr kid ids = true -> plain_dict kw = true -> id_given w kid kw = true ->
    run vr ev w pattern_ok selectors_ok (S f) (RConstruct kid allow interop kw vrefs) = Ok (PObject ci inner dfl hc) ->
    find_class (wclasses w) kid = Some c ->
    forallb (fun kv => negb (key_isdigit (fst kv))) inner = true ->
    forallb (fun kv => pyeq (snd kv) (snd kv)) inner = true ->
    pretty_enc (S g) (PObject ci inner dfl hc) incl (PObject ci inner dfl hc) = JObj ms ->
    map fst ms = map fst (kept incl dfl inner) /\
    exists customs,
      map fst inner = filter (fun n => amem n inner) (PN c ++ customs) /\
      NoDup (PN c ++ customs) /\ (forall x, In x customs -> mem_ustr x (PN c) = false) /\ usort customs = customs.
  Proof.
    intros f kid allow interop kw vrefs ci inner dfl hc c incl g ms Hm Hp Hid H Ef Hdig Heq Hpr.
    destruct (run_construct_eff vr ev w pattern_ok selectors_ok Hpad ids Hclosed f kid allow interop kw vrefs _ Hm Hp Hid H)
      as [c' [Ef' [_ Heff]]].
    rewrite Ef in Ef'. inversion Ef'; subst c'. clear Ef'.
    unfold effective in Heff.
    destruct Heff as [cE [rcE [PE [kwE [_ [Hnd [_ [Hcg [HpE [_ [_ [_ [_ HPN]]]]]]]]]]]]].
    destruct (cg_key_order rcE _ _ cE allow interop _ Hnd (S f) kwE ci inner dfl hc HpE Hcg) as [customs [Hk [HND [Hcust Hsorted]]]].
    rewrite HPN in *.
    split; [| exists customs; auto].
    apply (pretty_toplevel_order ci inner dfl hc incl) with (fuel := g); auto.
    rewrite Hk. apply NoDup_filter. exact HND.
  Qed.
End Order.

(* Proofs/PatternRefuted.v -- C10: the pinned visitor (cfg `pinned`) violates
   the property; concrete witnesses, decided by evaluation.                   *)
From Coq Require Import NArith ZArith List String Bool.
From V Require Import Model.PatternSyntax.
Import ListNotations.
Open Scope N_scope.

Definition kt (kd : tkind) (s : string) := Tok kd (u s).
Definition w_path : objpath := ObjPath (kt KIdent "a") (kt KIdent "b") None.
Definition w_obs (p : proptest) : pattern := OFbBase (OOrBase (OAndBase (OSimple (COrBase (CAndBase p))))).

(* [a:b NOT != 1] *)
Definition w_not_neq : pattern := w_obs (PTEqual w_path true (kt KNEQ "!=") (kt KIntPos "1")).
(* [a:b NOT > 1] *)
Definition w_not_gt : pattern := w_obs (PTOrder w_path true t_GT (kt KIntPos "1")).
(* [a:b NOT IN (1, 2)] *)
Definition w_not_in : pattern := w_obs (PTSet w_path true [kt KIntPos "1"; kt KIntPos "2"]).
(* [a:b NOT LIKE 'x'] etc. *)
Definition w_not_str (o : strop) : pattern := w_obs (PTStr o w_path true (kt KString "'x'")).
(* [a:b = 1] WITHIN 5.5 SECONDS *)
Definition w_within_float : pattern :=
  OFbBase (OOrBase (OAndBase (OQual (OSimple (COrBase (CAndBase (PTEqual w_path false t_EQ (kt KIntPos "1")))))
                                    (QWithin (kt KFloatPos "5.5"))))).
(* [EXISTS a:b] *)
Definition w_exists : pattern := w_obs (PTExists false w_path).

(* "the visitor yields an object with the same meaning" fails on c *)
Definition loses_meaning (g : cfg) (c : pattern) : Prop :=
  wf c = true /\ forall a, visit g c = Ok a -> meaning_ast a <> meaning_cst c.
(* the visitor raises on a well-formed tree *)
Definition crashes (g : cfg) (c : pattern) (e : exn) : Prop := wf c = true /\ visit g c = Raise e.

Ltac decide_loses :=
  split; [vm_compute; reflexivity |
          intros a H; vm_compute in H; inversion H; subst; vm_compute; discriminate].

Lemma not_neq_loses : loses_meaning pinned w_not_neq.
Proof. decide_loses. Qed.
Lemma not_in_loses : loses_meaning pinned w_not_in.
Proof. decide_loses. Qed.
Lemma not_like_loses : loses_meaning pinned (w_not_str SLike).
Proof. decide_loses. Qed.
Lemma not_matches_loses : loses_meaning pinned (w_not_str SRegex).
Proof. decide_loses. Qed.
Lemma not_issubset_loses : loses_meaning pinned (w_not_str SIsSubset).
Proof. decide_loses. Qed.
Lemma not_issuperset_loses : loses_meaning pinned (w_not_str SIsSuperset).
Proof. decide_loses. Qed.

Lemma not_order_crashes : crashes pinned w_not_gt TypeError.
Proof. split; vm_compute; reflexivity. Qed.
Lemma within_float_crashes : crashes pinned w_within_float ValueError.
Proof. split; vm_compute; reflexivity. Qed.
(* no variant of the visitor handles EXISTS: the generated base class returns
   the list of children, which is not a pattern object *)
Lemma exists_crashes : forall g, crashes g w_exists Junk.
Proof. intros g. split; vm_compute; reflexivity. Qed.

(* Proofs/PatternRefuted.v -- C10: the pinned visitor (cfg `pinned`) violates
   the property; concrete witnesses, decided by evaluation.                   *)
From Coq Require Import NArith ZArith List String Bool.
From V Require Import Model.PatternSyntax.
Import ListNotations.
Open Scope N_scope.

Definition kt (kd : tkind) (s : string) := Tok kd (u s).
Definition w_path : objpath := ObjPath (kt KIdent "a") (kt KIdent "b") None.
Definition w_obs (p : proptest) : pattern := OFbBase (OOrBase (OAndBase (OSimple (COrBase (CAndBase p))))).
Definition w_obs_and (p q : proptest) : pattern := OFbBase (OOrBase (OAndBase (OSimple (COrBase (CAnd (CAndBase p) q))))).

(* [a:b NOT != 1] *)
Definition w_not_neq : pattern := w_obs (PTEqual w_path true (kt KNEQ "!=") (kt KIntPos "1")).
(* [a:b NOT > 1] *)
Definition w_not_gt : pattern := w_obs (PTOrder w_path true t_GT (kt KIntPos "1")).
(* [a:b NOT IN (1, 2)] *)
Definition w_not_in : pattern := w_obs (PTSet w_path true [kt KIntPos "1"; kt KIntPos "2"]).
(* [a:b NOT LIKE 'x'] etc. *)
Definition w_not_str (o : strop) : pattern := w_obs (PTStr o w_path true (kt KString "'x'")).
(* [a:b = 1] WITHIN 5.5 SECONDS *)
Definition w_within_float : pattern :=
  OFbBase (OOrBase (OAndBase (OQual (OSimple (COrBase (CAndBase (PTEqual w_path false t_EQ (kt KIntPos "1")))))
                                    (QWithin (kt KFloatPos "5.5"))))).
(* [EXISTS a:b] *)
Definition w_exists : pattern := w_obs (PTExists false w_path).

(* "the visitor yields an object with the same meaning" fails on c *)
Definition loses_meaning (g : cfg) (c : pattern) : Prop :=
  wf c = true /\ forall a, visit g c = Ok a -> meaning_ast g a <> meaning_cst c.
(* the visitor raises on a well-formed tree *)
Definition crashes (g : cfg) (c : pattern) (e : exn) : Prop := wf c = true /\ visit g c = Raise e.

Ltac decide_loses :=
  split; [vm_compute; reflexivity |
          intros a H; vm_compute in H; inversion H; subst; vm_compute; discriminate].

Lemma not_neq_loses : loses_meaning pinned w_not_neq.
Proof. decide_loses. Qed.
Lemma not_in_loses : loses_meaning pinned w_not_in.
Proof. decide_loses. Qed.
Lemma not_like_loses : loses_meaning pinned (w_not_str SLike).
Proof. decide_loses. Qed.
Lemma not_matches_loses : loses_meaning pinned (w_not_str SRegex).
Proof. decide_loses. Qed.
Lemma not_issubset_loses : loses_meaning pinned (w_not_str SIsSubset).
Proof. decide_loses. Qed.
Lemma not_issuperset_loses : loses_meaning pinned (w_not_str SIsSuperset).
Proof. decide_loses. Qed.

Lemma not_order_crashes : crashes pinned w_not_gt TypeError.
Proof. split; vm_compute; reflexivity. Qed.
Lemma within_float_crashes : crashes pinned w_within_float ValueError.
Proof. split; vm_compute; reflexivity. Qed.
(* no variant of the visitor handles EXISTS: the generated base class returns
   the list of children, which is not a pattern object *)
Lemma exists_crashes : forall g, crashes g w_exists Junk.
Proof. intros g. split; vm_compute; reflexivity. Qed.

(* ---- the defects repaired in the second batch ---- *)

Definition w_lit (t : token) : pattern := w_obs (PTEqual w_path false t_EQ t).
Definition w_steps (c : opc) : pattern :=
  w_obs (PTEqual (ObjPath (kt KIdent "a") (kt KIdent "b") (Some c)) false t_EQ (kt KIntPos "1")).
(* [a:b = 0.00001] *)
Definition w_float_small : pattern := w_lit (kt KFloatPos "0.00001").
(* [a:b.'a b' = 1] *)
Definition w_key_space : pattern := w_steps (OStep (KeyStep (kt KString "'a b'"))).
(* [a:b = h''] *)
Definition w_hex_empty : pattern := w_lit (kt KHex "h''").
(* [a:b.'a-b'[*] = 1] *)
Definition w_key_star : pattern := w_steps (OPathStep (OStep (KeyStep (kt KString "'a-b'"))) (IndexStep (kt KASTERISK "*"))).
(* [(x:b = 1 OR y:b = 1 OR a:b = 1) AND a:b = 1] *)
Definition w_eq1 (ty : string) : proptest := PTEqual (ObjPath (kt KIdent ty) (kt KIdent "b") None) false t_EQ (kt KIntPos "1").
Definition w_rt_stale : pattern :=
  w_obs_and (PTParen (COr (COr (COrBase (CAndBase (w_eq1 "x"))) (CAndBase (w_eq1 "y"))) (CAndBase (w_eq1 "a")))) (w_eq1 "a").

(* the visitor succeeds but the printed tokens are not all lexical tokens of the grammar *)
Definition prints_invalid (g : cfg) (c : pattern) : Prop :=
  wf c = true /\ exists a, visit g c = Ok a /\ forallb token_ok (print g a) = false.

Lemma float_exponent_invalid : prints_invalid pinned w_float_small.
Proof. split; [vm_compute; reflexivity|]. eexists. split; vm_compute; reflexivity. Qed.
Lemma quoted_key_invalid : prints_invalid pinned w_key_space.
Proof. split; [vm_compute; reflexivity|]. eexists. split; vm_compute; reflexivity. Qed.
Lemma hex_empty_crashes : crashes pinned w_hex_empty ValueError.
Proof. split; vm_compute; reflexivity. Qed.
Lemma key_star_crashes : crashes pinned w_key_star AttributeError.
Proof. split; vm_compute; reflexivity. Qed.
Lemma rt_stale_crashes : crashes pinned w_rt_stale ValueError.
Proof. split; vm_compute; reflexivity. Qed.

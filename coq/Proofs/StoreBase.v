(* Proofs/StoreBase.v -- generic facts used by the store proofs (C11, C18):
   decidable equalities of the model reflect Leibniz equality, the order on
   version keys, insertion-ordered dictionaries.                              *)
From Coq Require Import NArith ZArith List Bool Lia Permutation.
From V Require Import Base.UString Model.Store.
Import ListNotations.
Open Scope list_scope.

(* ---------- strings ---------- *)
Lemma s_eqb_refl : forall a, ustr_eqb a a = true.
Proof. induction a; simpl; auto. rewrite N.eqb_refl; auto. Qed.

Lemma s_eqb_eq : forall a b, ustr_eqb a b = true <-> a = b.
Proof.
  induction a; destruct b; simpl; split; intros H; try congruence; auto.
  - apply andb_true_iff in H. destruct H as [H1 H2]. apply N.eqb_eq in H1. apply IHa in H2. congruence.
  - inversion H; subst. rewrite N.eqb_refl. simpl. apply s_eqb_refl.
Qed.

Lemma s_eqb_neq : forall a b, ustr_eqb a b = false <-> a <> b.
Proof.
  intros a b. split; intros H.
  - intros E. apply s_eqb_eq in E. congruence.
  - destruct (ustr_eqb a b) eqn:E; auto. apply s_eqb_eq in E. contradiction.
Qed.

Lemma s_eqb_sym : forall a b, ustr_eqb a b = ustr_eqb b a.
Proof.
  intros a b. destruct (ustr_eqb a b) eqn:E.
  - apply s_eqb_eq in E. subst. symmetry. apply s_eqb_refl.
  - symmetry. apply s_eqb_neq. apply s_eqb_neq in E. congruence.
Qed.

Lemma s_dec : forall a b : ustring, {a = b} + {a <> b}.
Proof. intros a b. destruct (ustr_eqb a b) eqn:E; [left; apply s_eqb_eq | right; apply s_eqb_neq]; auto. Qed.

(* ---------- version keys ---------- *)
Lemma vkey_eqb_eq : forall a b, vkey_eqb a b = true <-> a = b.
Proof.
  destruct a, b; simpl; split; intros H; try congruence; auto.
  - apply Z.eqb_eq in H. congruence.
  - inversion H. apply Z.eqb_refl.
  - apply Z.eqb_eq in H. congruence.
  - inversion H. apply Z.eqb_refl.
  - apply s_eqb_eq in H. congruence.
  - inversion H. apply s_eqb_refl.
Qed.

Lemma vkey_eqb_refl : forall a, vkey_eqb a a = true.
Proof. intros. apply vkey_eqb_eq. reflexivity. Qed.

Lemma vkey_eqb_neq : forall a b, vkey_eqb a b = false <-> a <> b.
Proof.
  intros a b. split; intros H.
  - intros E. apply vkey_eqb_eq in E. congruence.
  - destruct (vkey_eqb a b) eqn:E; auto. apply vkey_eqb_eq in E. contradiction.
Qed.

Lemma vkey_dec : forall a b : vkey, {a = b} + {a <> b}.
Proof. intros a b. destruct (vkey_eqb a b) eqn:E; [left; apply vkey_eqb_eq | right; apply vkey_eqb_neq]; auto. Qed.

(* ---------- dictionaries ---------- *)
Section DictFacts.
  Variables K V : Type.
  Variable keqb : K -> K -> bool.
  Hypothesis keqb_eq : forall a b, keqb a b = true <-> a = b.

  Lemma keqb_refl : forall a, keqb a a = true.
  Proof. intros. apply keqb_eq. reflexivity. Qed.

  Lemma keqb_false : forall a b, keqb a b = false <-> a <> b.
  Proof.
    intros a b. split; intros H.
    - intros E. apply keqb_eq in E. congruence.
    - destruct (keqb a b) eqn:E; auto. apply keqb_eq in E. contradiction.
  Qed.

  Lemma dict_get_set_same : forall (d : list (K * V)) k v, dict_get keqb (dict_set keqb d k v) k = Some v.
  Proof.
    induction d as [|[k' v'] r IH]; intros k v; simpl.
    - rewrite keqb_refl. reflexivity.
    - destruct (keqb k' k) eqn:E; simpl; rewrite E; auto.
  Qed.

  Lemma dict_get_set_other : forall (d : list (K * V)) k v k', k <> k' ->
    dict_get keqb (dict_set keqb d k v) k' = dict_get keqb d k'.
  Proof.
    induction d as [|[k0 v0] r IH]; intros k v k' N; simpl.
    - apply keqb_false in N. rewrite N. reflexivity.
    - destruct (keqb k0 k) eqn:E; simpl.
      + apply keqb_eq in E. subst k0. apply keqb_false in N. rewrite N. reflexivity.
      + destruct (keqb k0 k'); auto.
  Qed.

  Lemma dict_get_In : forall (d : list (K * V)) k v, dict_get keqb d k = Some v -> In (k, v) d.
  Proof.
    induction d as [|[k0 v0] r IH]; intros k v H; simpl in *; try discriminate.
    destruct (keqb k0 k) eqn:E.
    - apply keqb_eq in E. inversion H; subst. auto.
    - right. auto.
  Qed.

  Lemma dict_get_None : forall (d : list (K * V)) k, dict_get keqb d k = None <-> ~ In k (map fst d).
  Proof.
    induction d as [|[k0 v0] r IH]; intros k; simpl.
    - tauto.
    - destruct (keqb k0 k) eqn:E.
      + apply keqb_eq in E. subst. split; [discriminate | intros H; exfalso; apply H; auto].
      + apply keqb_false in E. rewrite IH. tauto.
  Qed.

  Lemma In_dict_get : forall (d : list (K * V)) k v, NoDup (map fst d) -> In (k, v) d -> dict_get keqb d k = Some v.
  Proof.
    induction d as [|[k0 v0] r IH]; intros k v ND H; simpl in *; try contradiction.
    inversion ND; subst.
    destruct H as [H|H].
    - inversion H; subst. rewrite keqb_refl. reflexivity.
    - destruct (keqb k0 k) eqn:E.
      + apply keqb_eq in E. subst. exfalso. apply H2. apply in_map_iff. exists (k, v). auto.
      + auto.
  Qed.

  (* the keys after an assignment *)
  Lemma dict_set_keys : forall (d : list (K * V)) k v,
    map fst (dict_set keqb d k v) = if existsb (keqb k) (map fst d) then map fst d else map fst d ++ [k].
  Proof.
    induction d as [|[k0 v0] r IH]; intros k v; simpl; auto.
    destruct (keqb k0 k) eqn:E.
    - apply keqb_eq in E. subst. rewrite keqb_refl. reflexivity.
    - assert (keqb k k0 = false) as E'.
      { apply keqb_false. apply keqb_false in E. congruence. }
      rewrite E'. simpl. rewrite IH. destruct (existsb (keqb k) (map fst r)); reflexivity.
  Qed.

  Lemma existsb_keqb : forall k l, existsb (keqb k) l = true <-> In k l.
  Proof.
    intros k l. rewrite existsb_exists. split.
    - intros [x [H1 H2]]. apply keqb_eq in H2. subst. auto.
    - intros H. exists k. split; auto. apply keqb_refl.
  Qed.

  Lemma NoDup_snoc : forall (A : Type) (l : list A) x, NoDup l -> ~ In x l -> NoDup (l ++ [x]).
  Proof.
    induction l as [|a l IH]; intros x ND NI; simpl.
    - constructor; [intros [] | constructor].
    - inversion ND; subst. constructor.
      + rewrite in_app_iff. simpl. intros [H|[H|[]]]; auto. subst. apply NI. simpl. auto.
      + apply IH; auto. intros H. apply NI. simpl. auto.
  Qed.

  Lemma dict_set_NoDup : forall (d : list (K * V)) k v, NoDup (map fst d) -> NoDup (map fst (dict_set keqb d k v)).
  Proof.
    intros d k v ND. rewrite dict_set_keys.
    destruct (existsb (keqb k) (map fst d)) eqn:E; auto.
    apply NoDup_snoc; auto. intros H. apply existsb_keqb in H. congruence.
  Qed.

  (* membership after an assignment *)
  Lemma In_dict_set : forall (d : list (K * V)) k v k' v', NoDup (map fst d) ->
    In (k', v') (dict_set keqb d k v) -> (k' = k /\ v' = v) \/ (k' <> k /\ In (k', v') d).
  Proof.
    intros d k v k' v' ND H.
    assert (NoDup (map fst (dict_set keqb d k v))) as ND' by (apply dict_set_NoDup; auto).
    apply In_dict_get in H; auto.
    destruct (keqb k k') eqn:E.
    - apply keqb_eq in E. subst k'. rewrite dict_get_set_same in H. inversion H. auto.
    - apply keqb_false in E. rewrite dict_get_set_other in H; auto.
      right. split; [congruence|]. apply dict_get_In. auto.
  Qed.

  Lemma In_dict_set_other : forall (d : list (K * V)) k v k' v', k' <> k ->
    In (k', v') d -> In (k', v') (dict_set keqb d k v).
  Proof.
    induction d as [|[k0 v0] r IH]; intros k v k' v' N H; simpl in *; try contradiction.
    destruct (keqb k0 k) eqn:E.
    - apply keqb_eq in E. subst k0. destruct H as [H|H].
      + inversion H; subst. contradiction.
      + right. auto.
    - destruct H as [H|H]; [left; auto | right; auto].
  Qed.

  Lemma In_dict_set_same : forall (d : list (K * V)) k v, In (k, v) (dict_set keqb d k v).
  Proof.
    induction d as [|[k0 v0] r IH]; intros k v; simpl; auto.
    destruct (keqb k0 k) eqn:E.
    - apply keqb_eq in E. subst. left. reflexivity.
    - right. auto.
  Qed.
End DictFacts.

(* Proofs/HeapInterp.v -- frame theorem for the interpreter of Model/HeapOps.v
   (Property.clean of every container property class, _STIXBase.__init__,
   dict_to_stix2, parse_observable): whatever the arguments and the heap, no
   node that existed before the call is changed -- provided the three
   defensive copies are copies at all (Deep or Shallow, not NoCopy).        *)
From Coq Require Import NArith ZArith String Bool Arith List Lia.
From V Require Import Model.Heap Model.HeapOps Proofs.HeapFacts.
Import ListNotations.
Open Scope nat_scope.

(* the defensive copies of the interpreter are really copies *)
Definition copies (vt : variant) : Prop :=
  cm_ext vt <> NoCopy /\ cm_obs vt <> NoCopy /\ cm_pobs vt <> NoCopy.

Lemma copies_as_written : copies as_written.
Proof. repeat split; discriminate. Qed.

Lemma grows_then_keeps : forall h h1 h', grows h h1 -> keeps (length h) h1 h' -> grows h h'.
Proof. intros h h1 h' G K. apply keeps_grows. eapply keeps_trans; eauto. now apply grows_keeps. Qed.

Lemma keeps_then_grows : forall b h h1 h', keeps b h h1 -> grows h1 h' -> keeps b h h'.
Proof. intros. eapply keeps_trans; eauto. now apply grows_keeps. Qed.

Lemma pair_inv : forall (h h' : heap) (r r' : res), (h, r) = (h', r') -> h = h' /\ r = r'.
Proof. intros. inversion H. auto. Qed.

Lemma lift_inv : forall o h v h' r, lift o h v = (h', r) -> o = Some h' \/ h' = h.
Proof. unfold lift. intros [h1|] h v h' r H; inversion H; auto. Qed.

Lemma get_dict_grows : forall v h h' r, get_dict v h = (h', r) -> grows h h'.
Proof.
  unfold get_dict. intros v h h' r H. destruct (is_dict h v).
  - inversion H. apply grows_refl.
  - destruct (mapping_entries h v).
    + destruct (alloc h (NDict l)) as [h1 l1] eqn:Ea. inversion H; subst. eapply alloc_grows; eauto.
    + inversion H. apply grows_refl.
Qed.

(* leaf of a case analysis: the equation `(h, r) = (h', r')` closes the goal *)
Ltac leaf :=
  match goal with
  | H : (_, _) = (_, _) |- _ => apply pair_inv in H; destruct H; subst
  end;
  eauto using grows_refl, keeps_refl, grows_keeps.

(* ------------------------------------------------------------------ *)
(* the `extensions` entry of a freshly built inner dict (custom types)   *)

Definition fresh_ref (b : nat) (v : val) : Prop := match v with VA _ => True | VR l => b <= l end.

Lemma ustr_eqb_true : forall a b, ustr_eqb a b = true -> a = b.
Proof.
  induction a as [|x a IH]; destruct b as [|y b]; simpl; intros H; try discriminate; auto.
  apply andb_true_iff in H. destruct H as [H1 H2]. apply N.eqb_eq in H1. subst. f_equal. auto.
Qed.

Lemma ustr_eqb_rfl : forall a, ustr_eqb a a = true.
Proof. induction a; simpl; auto. rewrite N.eqb_refl. auto. Qed.

Lemma assoc_assoc_set : forall k k' v m,
  assoc k (assoc_set k' v m) = if ustr_eqb k k' then Some v else assoc k m.
Proof.
  induction m as [|[k1 v1] r IH]; simpl.
  - destruct (ustr_eqb k k'); auto.
  - destruct (ustr_eqb k' k1) eqn:E1; simpl.
    + apply ustr_eqb_true in E1. subst k1. destruct (ustr_eqb k k'); auto.
    + rewrite IH. destruct (ustr_eqb k k1) eqn:E2; auto.
      destruct (ustr_eqb k k') eqn:E3; auto.
      apply ustr_eqb_true in E2. apply ustr_eqb_true in E3. subst. rewrite ustr_eqb_rfl in E1. discriminate.
Qed.

Lemma set_item_get_dict : forall h l k v h' m, set_item h l k v = Some h' -> get h l = Some (NDict m) ->
  get h' l = Some (NDict (assoc_set k v m)).
Proof.
  unfold set_item. intros h l k v h' m H E. rewrite E in H. inversion H.
  apply get_upd_same. eapply get_lt; eauto.
Qed.

Definition EXT : ustring := u "extensions".

(* the dict at s maps "extensions" (if at all) to an atom or to a container allocated at or after b *)
Definition ext_ok (b : nat) (h : heap) (s : nat) : Prop :=
  exists m, get h s = Some (NDict m) /\ forall x, assoc EXT m = Some x -> fresh_ref b x.

Lemma ext_ok_grows : forall b h h' s, grows h h' -> ext_ok b h s -> ext_ok b h' s.
Proof. intros b h h' s G (m & E & F). exists m. split; auto. eapply grows_get; eauto. Qed.

Lemma ext_ok_set : forall b h s k v h',
  set_item h s k v = Some h' -> ext_ok b h s -> (ustr_eqb EXT k = true -> fresh_ref b v) -> ext_ok b h' s.
Proof.
  intros b h s k v h' H (m & E & F) Hv. exists (assoc_set k v m). split; [eapply set_item_get_dict; eauto|].
  intros x A. rewrite assoc_assoc_set in A. destruct (ustr_eqb EXT k); [inversion A; subst; auto | auto].
Qed.

Lemma ext_ok_update : forall b kvs h s h',
  update_items h s kvs = Some h' -> Forall (fun kv => fresh_ref b (snd kv)) kvs -> ext_ok b h s -> ext_ok b h' s.
Proof.
  induction kvs as [|[k v] r IH]; simpl; intros h s h' H F O.
  - destruct (get h s) as [[?|?|? ?|?]|]; inversion H; subst; auto.
  - destruct (set_item h s k v) as [h1|] eqn:E; [|discriminate]. inversion F; subst.
    eapply IH; eauto. eapply ext_ok_set; eauto.
Qed.

Lemma ext_loop_result : forall W rec v21 c ents h h' x, ext_loop W rec v21 c ents h = (h', RVal x) -> x = VR c.
Proof.
  induction ents as [|[key sub] rest IH]; simpl; intros h h' x H.
  - inversion H; auto.
  - assert (K : forall y h1, match set_item h1 c key y with
                            | Some h2 => ext_loop W rec v21 c rest h2
                            | None => (h1, RExc "TypeError")
                            end = (h', RVal x) -> x = VR c).
    { intros y h1 H1. destruct (set_item h1 c key y); [eauto | discriminate]. }
    destruct (class_for_type W key v21 "extensions"); [|eapply K; eauto].
    destruct (is_dict h sub).
    + unfold bindv in H. destruct (rec (QConstruct u sub) h) as [h1 r1]. destruct r1; try discriminate. eapply K; eauto.
    + destruct (is_obj h sub); [eapply K; eauto | discriminate].
Qed.

(* what ExtensionsProperty.clean returns is a container allocated by that call *)
Lemma clean_ext_result : forall vt W rec fuel v21 v h h' x, copies vt ->
  clean_ext vt W rec fuel v21 v h = (h', RVal x) -> fresh_ref (length h) x.
Proof.
  unfold clean_ext, bindv. intros vt W rec fuel v21 v h h' x Hvt H.
  destruct (get_dict v h) as [h0 r0] eqn:Eg. assert (G := get_dict_grows _ _ _ _ Eg).
  destruct r0; try discriminate.
  destruct (copy_at (cm_ext vt) fuel v0 h0) as [h1 r1] eqn:Ec.
  destruct r1; try discriminate.
  destruct v1 as [a|c]; [discriminate|].
  destruct (mapping_entries h1 (VR c)); [|discriminate].
  apply ext_loop_result in H. subst x. simpl.
  assert (Hc : length h0 <= c) by (eapply copy_at_fresh; [|eauto]; apply Hvt).
  apply grows_len in G. lia.
Qed.

Lemma interp_ext_fresh : forall vt W d n v21 v h h' x, copies vt ->
  interp vt W d n (QClean (KExt v21) v) h = (h', RVal x) -> fresh_ref (length h) x.
Proof.
  intros vt W d n v21 v h h' x Hvt H. destruct n; simpl in H; [discriminate|].
  eapply clean_ext_result; eauto.
Qed.

Section InterpFacts.
  Variable vt : variant.
  Variable W : world.
  Variable rec : req -> heap -> heap * res.
  Variable fuel : nat.
  Hypothesis Hvt : copies vt.
  Hypothesis Hrec : forall q h h' r, rec q h = (h', r) -> grows h h'.
  Hypothesis Hrec_ext : forall v21 v h h' x, rec (QClean (KExt v21) v) h = (h', RVal x) -> fresh_ref (length h) x.

  Lemma list_loop_keeps : forall mk r items b h h' res,
    b <= r -> list_loop rec mk r items h = (h', res) -> keeps b h h'.
  Proof.
    induction items as [|it rest IH]; simpl; intros b h h' res Hb H.
    - leaf.
    - unfold bindv in H. destruct (rec (mk it) h) as [h1 r1] eqn:E. assert (G := Hrec _ _ _ _ E).
      destruct r1; try leaf.
      destruct (append_item h1 r v) as [h2|] eqn:Ea; [|leaf].
      eapply keeps_trans; [apply grows_keeps; eauto|].
      eapply keeps_trans; [eapply wrote_keeps; [|eapply append_item_wrote]; eauto|]. eauto.
  Qed.

  Lemma clean_list_grows : forall mk v h h' res, clean_list rec mk v h = (h', res) -> grows h h'.
  Proof.
    unfold clean_list. intros mk v h h' res H.
    match type of H with (match ?X with _ => _ end) = _ => destruct X as [[|i its]|] end; try leaf.
    destruct (alloc h (NList [])) as [h1 r] eqn:Ea.
    eapply grows_then_keeps; [eapply alloc_grows; eauto|].
    eapply list_loop_keeps; [|eauto]. rewrite (alloc_loc _ _ _ _ Ea). lia.
  Qed.

  Lemma clean_hashes_grows : forall v h h' res, clean_hashes v h = (h', res) -> grows h h'.
  Proof.
    unfold clean_hashes, bindv. intros v h h' res H.
    destruct (get_dict v h) as [h0 r0] eqn:Eg. assert (G := get_dict_grows _ _ _ _ Eg).
    destruct r0; try leaf.
    destruct (mapping_entries h0 v0); [|leaf].
    destruct (alloc h0 (NDict [])) as [h1 r] eqn:Ea.
    apply lift_inv in H. eapply grows_trans; eauto.
    destruct H as [H|H].
    - eapply grows_then_keeps; [eapply alloc_grows; eauto|].
      eapply wrote_keeps; [|eapply update_items_wrote; eauto]. rewrite (alloc_loc _ _ _ _ Ea). lia.
    - subst. eapply alloc_grows; eauto.
  Qed.

  Lemma ext_loop_keeps : forall v21 c ents b h h' res,
    b <= c -> ext_loop W rec v21 c ents h = (h', res) -> keeps b h h'.
  Proof.
    induction ents as [|[key sub] rest IH]; simpl; intros b h h' res Hb H.
    - leaf.
    - assert (K : forall x h1, keeps b h h1 ->
                 match set_item h1 c key x with
                 | Some h2 => ext_loop W rec v21 c rest h2
                 | None => (h1, RExc "TypeError")
                 end = (h', res) -> keeps b h h').
      { intros x h1 K1 H1. destruct (set_item h1 c key x) as [h2|] eqn:Es; [|leaf].
        eapply keeps_trans; [exact K1|].
        eapply keeps_trans; [eapply wrote_keeps; [|eapply set_item_wrote]; eauto|]. eauto. }
      destruct (class_for_type W key v21 "extensions").
      + destruct (is_dict h sub).
        * unfold bindv in H. destruct (rec (QConstruct u sub) h) as [h1 r1] eqn:E.
          assert (G := Hrec _ _ _ _ E). destruct r1; try leaf.
          eapply K; [|exact H]. now apply grows_keeps.
        * destruct (is_obj h sub); [|leaf]. eapply K; [|exact H]. apply keeps_refl.
      + eapply K; [|exact H]. apply keeps_refl.
  Qed.

  Lemma clean_ext_grows : forall v21 v h h' res, clean_ext vt W rec fuel v21 v h = (h', res) -> grows h h'.
  Proof.
    unfold clean_ext, bindv. intros v21 v h h' res H.
    destruct (get_dict v h) as [h0 r0] eqn:Eg. assert (G := get_dict_grows _ _ _ _ Eg).
    destruct r0; try leaf.
    destruct (copy_at (cm_ext vt) fuel v0 h0) as [h1 r1] eqn:Ec. assert (G1 := copy_at_grows _ _ _ _ _ _ Ec).
    destruct r1; try (leaf; eapply grows_trans; eauto; fail).
    destruct v1 as [a|c]; [leaf; eapply grows_trans; eauto|].
    destruct (mapping_entries h1 (VR c)); [|leaf; eapply grows_trans; eauto].
    assert (Hc : length h0 <= c) by (destruct Hvt as (He & Ho & Hp); eapply copy_at_fresh; [|eauto]; assumption).
    eapply grows_trans; [exact G|]. eapply grows_then_keeps; [exact G1|].
    eapply ext_loop_keeps; [|eauto]. exact Hc.
  Qed.

  Lemma obs_loop_keeps : forall v21 c vr ents b h h' res,
    b <= c -> obs_loop rec v21 c vr ents h = (h', res) -> keeps b h h'.
  Proof.
    induction ents as [|[key obj] rest IH]; simpl; intros b h h' res Hb H.
    - leaf.
    - unfold bindv in H. destruct (rec (QParseObs obj vr (Some v21) true) h) as [h1 r1] eqn:E.
      assert (G := Hrec _ _ _ _ E). destruct r1; try leaf.
      destruct (set_item h1 c key v) as [h2|] eqn:Es; [|leaf].
      eapply keeps_trans; [apply grows_keeps; eauto|].
      eapply keeps_trans; [eapply wrote_keeps; [|eapply set_item_wrote]; eauto|]. eauto.
  Qed.

  Lemma clean_obs_grows : forall v21 v h h' res, clean_obs vt rec fuel v21 v h = (h', res) -> grows h h'.
  Proof.
    unfold clean_obs, bindv. intros v21 v h h' res H.
    destruct (get_dict v h) as [h0 r0] eqn:Eg. assert (G := get_dict_grows _ _ _ _ Eg).
    destruct r0; try leaf.
    destruct (copy_at (cm_obs vt) fuel v0 h0) as [h1 r1] eqn:Ec. assert (G1 := copy_at_grows _ _ _ _ _ _ Ec).
    destruct r1; try (leaf; eapply grows_trans; eauto; fail).
    destruct v1 as [a|c]; [leaf; eapply grows_trans; eauto|].
    assert (Hc : length h0 <= c) by (destruct Hvt as (He & Ho & Hp); eapply copy_at_fresh; [|eauto]; assumption).
    destruct (mapping_entries h1 (VR c)) as [[|e ents]|]; try (leaf; eapply grows_trans; eauto; fail).
    match type of H with (let (_, _) := alloc ?hh ?nn in _) = _ => destruct (alloc hh nn) as [h2 r] eqn:Ea end.
    eapply grows_trans; [exact G|]. eapply grows_then_keeps; [exact G1|].
    eapply keeps_trans; [apply grows_keeps; eapply alloc_grows; eauto|].
    eapply obs_loop_keeps; [|eauto]. exact Hc.
  Qed.

  Lemma clean_grows : forall k v h h' res, clean vt W rec fuel k v h = (h', res) -> grows h h'.
  Proof.
    intros k v h h' res H. destruct k; simpl in H.
    - destruct v; leaf.
    - leaf.
    - eapply clean_list_grows; eauto.
    - eapply clean_list_grows; eauto.
    - eapply get_dict_grows; eauto.
    - eapply clean_hashes_grows; eauto.
    - destruct (is_dict h v); [eapply Hrec; eauto|]. destruct (is_obj h v); leaf.
    - eapply clean_ext_grows; eauto.
    - eapply clean_obs_grows; eauto.
    - match type of H with (if ?c then _ else _) = _ => destruct c end; [leaf|]. unfold bindv in H.
      destruct (get_dict v h) as [h0 r0] eqn:Eg. assert (G := get_dict_grows _ _ _ _ Eg).
      destruct r0; try leaf. eapply grows_trans; eauto.
  Qed.

  Lemma init_loop_keeps : forall s sch props b h h' res,
    b <= s -> init_loop rec s sch props h = (h', res) -> keeps b h h'.
  Proof.
    induction props as [|[name v] rest IH]; simpl; intros b h h' res Hb H.
    - leaf.
    - destruct (reserved_kw name || none_or_empty_list h v); [eauto|].
      destruct (set_item h s name v) as [h1|] eqn:Es; [|leaf].
      assert (K1 : keeps b h h1) by (eapply wrote_keeps; [|eapply set_item_wrote]; eauto).
      destruct (lookup name sch) as [k|].
      + unfold bindv in H. destruct (rec (QClean k v) h1) as [h2 r2] eqn:E.
        assert (G := Hrec _ _ _ _ E). destruct r2; try (leaf; eapply keeps_then_grows; eauto; fail).
        destruct (set_item h2 s name v0) as [h3|] eqn:Es2; [|leaf; eapply keeps_then_grows; eauto].
        eapply keeps_trans; [exact K1|]. eapply keeps_trans; [apply grows_keeps; exact G|].
        eapply keeps_trans; [eapply wrote_keeps; [|eapply set_item_wrote]; eauto|]. eauto.
      + eapply keeps_trans; eauto.
  Qed.

  Lemma construct_body_grows : forall c sch m h h' res, construct_body W rec c sch m h = (h', res) -> grows h h'.
  Proof.
    unfold construct_body. intros c sch m h h' res H.
    match type of H with (let (_, _) := alloc ?hh ?nn in _) = _ => destruct (alloc hh nn) as [h1 s] eqn:Ea end.
    assert (Hs : length h <= s) by (rewrite (alloc_loc _ _ _ _ Ea); lia).
    assert (G1 := alloc_grows _ _ _ _ Ea).
    unfold bindv in H.
    match type of H with (let (_, _) := init_loop ?a ?b ?c ?d ?e in _) = _ =>
      destruct (init_loop a b c d e) as [h2 r2] eqn:Ei end.
    assert (K2 : keeps (length h) h1 h2) by (eapply init_loop_keeps; eauto).
    destruct r2; try (leaf; eapply grows_then_keeps; eauto; fail).
    match type of H with context [alloc ?hx (NList [])] => set (h3 := hx) in * end.
    assert (K3 : keeps (length h) h2 h3).
    { subst h3.
      match goal with |- keeps _ _ (if ?c then _ else _) => destruct c end.
      - match goal with |- keeps _ _ (match set_item ?a ?b ?c ?d with _ => _ end) => destruct (set_item a b c d) as [hd|] eqn:Es end.
        + eapply keeps_trans; [|eapply wrote_keeps; [|eapply set_item_wrote]; eauto].
          match goal with |- keeps _ _ (match ?x with _ => _ end) => destruct x as [hu|] eqn:Eu end; [|apply keeps_refl].
          eapply wrote_keeps; [|eapply update_items_wrote]; eauto.
        + match goal with |- keeps _ _ (match ?x with _ => _ end) => destruct x as [hu|] eqn:Eu end; [|apply keeps_refl].
          eapply wrote_keeps; [|eapply update_items_wrote]; eauto.
      - match goal with |- keeps _ _ (match ?x with _ => _ end) => destruct x as [hu|] eqn:Eu end; [|apply keeps_refl].
        eapply wrote_keeps; [|eapply update_items_wrote]; eauto. }
    clearbody h3.
    assert (K : forall hx fs, keeps (length h) h hx ->
              (let (h4, o) := alloc hx (NObj c fs) in (h4, RVal (VR o))) = (h', res) -> grows h h').
    { intros hx fs Kx Hx. destruct (alloc hx (NObj c fs)) as [h4 o] eqn:Ea2. inversion Hx; subst.
      apply keeps_grows. eapply keeps_then_grows; [exact Kx | eapply alloc_grows; eauto]. }
    assert (K03 : keeps (length h) h h3).
    { eapply keeps_trans; [apply grows_keeps; exact G1|]. eapply keeps_trans; eauto. }
    destruct (assoc (u "_valid_refs") m); [eapply K; eauto|].
    destruct (mem_ustr c (observables W)); [|eapply K; eauto].
    destruct (alloc h3 (NList [])) as [hv lv] eqn:Eav.
    eapply K; [|exact H]. eapply keeps_then_grows; [exact K03 | eapply alloc_grows; eauto].
  Qed.

  Lemma init_loop_ext : forall s sch v21 props b h h' r,
    lookup EXT sch = Some (KExt v21) -> b <= length h -> ext_ok b h s ->
    init_loop rec s sch props h = (h', RVal r) -> ext_ok b h' s.
  Proof.
    induction props as [|[name v] rest IH]; simpl; intros b h h' r Hs Hb O H.
    - inversion H; subst; auto.
    - destruct (reserved_kw name || none_or_empty_list h v); [eauto|].
      destruct (set_item h s name v) as [h1|] eqn:Es; [|discriminate].
      assert (L1 : length h1 = length h) by (apply set_item_wrote in Es; apply Es).
      destruct O as (m & Em & Fm).
      assert (E1 := set_item_get_dict _ _ _ _ _ _ Es Em).
      destruct (lookup name sch) as [k|] eqn:Ek.
      + unfold bindv in H. destruct (rec (QClean k v) h1) as [h2 r2] eqn:Er.
        assert (G := Hrec _ _ _ _ Er). destruct r2 as [c| |]; try discriminate.
        destruct (set_item h2 s name c) as [h3|] eqn:Es2; [|discriminate].
        assert (E2 : get h2 s = Some (NDict (assoc_set name v m))) by (eapply grows_get; eauto).
        assert (E3 := set_item_get_dict _ _ _ _ _ _ Es2 E2).
        eapply (IH b h3); [exact Hs | | | exact H].
        * apply set_item_wrote in Es2. destruct Es2 as [L3 _]. apply grows_len in G. lia.
        * exists (assoc_set name c (assoc_set name v m)). split; auto.
          intros x A. rewrite !assoc_assoc_set in A. destruct (ustr_eqb EXT name) eqn:En; [|auto].
          inversion A; subst x. apply ustr_eqb_true in En. subst name. rewrite Hs in Ek. inversion Ek; subst k.
          assert (F := Hrec_ext _ _ _ _ _ Er). destruct c as [a|l]; simpl in *; auto. lia.
      + eapply (IH b h1); [exact Hs | lia | | exact H].
        exists (assoc_set name v m). split; auto.
        intros x A. rewrite assoc_assoc_set in A. destruct (ustr_eqb EXT name) eqn:En; [|auto].
        apply ustr_eqb_true in En. subst name. rewrite Hs in Ek. discriminate.
  Qed.

  (* what the base constructor returns: a new object whose `_inner` is a new dict, in which
     `extensions` -- when the class declares it as an ExtensionsProperty -- is a new container *)
  Lemma construct_body_spec : forall c sch m h h' ov, construct_body W rec c sch m h = (h', RVal ov) ->
    exists o s fs, ov = VR o /\ length h <= o /\ length h <= s /\
                   get h' o = Some (NObj c fs) /\ assoc (u "_inner") fs = Some (VR s) /\
                   (forall v21, lookup EXT sch = Some (KExt v21) -> ext_ok (length h) h' s).
  Proof.
    unfold construct_body. intros c sch m h h' ov H.
    match type of H with (let (_, _) := alloc ?hh ?nn in _) = _ => destruct (alloc hh nn) as [h1 s] eqn:Ea end.
    assert (Hs : length h <= s) by (rewrite (alloc_loc _ _ _ _ Ea); lia).
    assert (G1 := alloc_grows _ _ _ _ Ea).
    unfold bindv in H.
    match type of H with (let (_, _) := init_loop ?a ?b ?c ?d ?e in _) = _ =>
      destruct (init_loop a b c d e) as [h2 r2] eqn:Ei end.
    assert (K2 : keeps (length h) h1 h2) by (eapply init_loop_keeps; eauto).
    destruct r2 as [r| |]; try discriminate.
    match type of H with context [alloc ?hx (NList [])] => set (h3 := hx) in * end.
    assert (O1 : ext_ok (length h) h1 s).
    { exists []. split; [eapply alloc_get_new; eauto | intros x A; discriminate]. }
    assert (L2 : length h <= length h2) by (apply keeps_len in K2; apply grows_len in G1; lia).
    (* the two writes between init_loop and the allocation of the object *)
    assert (P3 : length h2 <= length h3 /\ forall v21, lookup EXT sch = Some (KExt v21) -> ext_ok (length h) h3 s).
    { assert (P2 : forall v21, lookup EXT sch = Some (KExt v21) -> ext_ok (length h) h2 s).
      { intros v21 Hk. eapply init_loop_ext; [exact Hk | | exact O1 | exact Ei]. apply grows_len in G1. lia. }
      subst h3.
      match goal with |- context [update_items ?a ?b ?kvs] => destruct (update_items a b kvs) as [hu|] eqn:Eu end.
      - assert (Lu : length hu = length h2) by (apply update_items_wrote in Eu; apply Eu).
        assert (Pu : forall v21, lookup EXT sch = Some (KExt v21) -> ext_ok (length h) hu s).
        { intros v21 Hk. eapply ext_ok_update; [exact Eu | | eauto].
          rewrite Forall_forall. intros kv Hin. apply in_map_iff in Hin. destruct Hin as (na & <- & _). simpl. exact I. }
        match goal with |- context [if ?c then _ else _] => destruct c end; [|split; [lia|auto]].
        match goal with |- context [set_item ?a ?b ?c ?d] => destruct (set_item a b c d) as [hd|] eqn:Ed end;
          [|split; [lia|auto]].
        split; [apply set_item_wrote in Ed; destruct Ed as [Ld _]; lia|].
        intros v21 Hk. eapply ext_ok_set; [exact Ed | eauto | intros _; exact I].
      - match goal with |- context [if ?c then _ else _] => destruct c end; [|split; [lia|auto]].
        match goal with |- context [set_item ?a ?b ?c ?d] => destruct (set_item a b c d) as [hd|] eqn:Ed end;
          [|split; [lia|auto]].
        split; [apply set_item_wrote in Ed; destruct Ed as [Ld _]; lia|].
        intros v21 Hk. eapply ext_ok_set; [exact Ed | eauto | intros _; exact I]. }
    clearbody h3. destruct P3 as [L3 P3].
    assert (K : forall hx vrf, grows h3 hx ->
              (let (h4, o) := alloc hx (NObj c ((u "_inner", VR s) :: vrf)) in (h4, RVal (VR o))) = (h', RVal ov) ->
              exists o s0 fs, ov = VR o /\ length h <= o /\ length h <= s0 /\
                   get h' o = Some (NObj c fs) /\ assoc (u "_inner") fs = Some (VR s0) /\
                   (forall v21, lookup EXT sch = Some (KExt v21) -> ext_ok (length h) h' s0)).
    { intros hx vrf Gx Hx. destruct (alloc hx (NObj c ((u "_inner", VR s) :: vrf))) as [h4 o] eqn:Ea2.
      inversion Hx; subst h' ov. exists o, s. eexists. split; [reflexivity|].
      split; [rewrite (alloc_loc _ _ _ _ Ea2); apply grows_len in Gx; lia|]. split; [exact Hs|].
      split; [eapply alloc_get_new; eauto|].
      split; [cbn [assoc]; rewrite ustr_eqb_rfl; reflexivity|].
      intros v21 Hk. eapply ext_ok_grows; [eapply alloc_grows; eauto|]. eapply ext_ok_grows; [exact Gx | eauto]. }
    destruct (assoc (u "_valid_refs") m); [eapply K; [apply grows_refl | exact H]|].
    destruct (mem_ustr c (observables W)); [|eapply K; [apply grows_refl | exact H]].
    destruct (alloc h3 (NList [])) as [hv lv] eqn:Eav.
    eapply K; [eapply alloc_grows; eauto | exact H].
  Qed.

  Lemma ext_step_keeps : forall ext c o s fs b h h' res,
    get h o = Some (NObj c fs) -> assoc (u "_inner") fs = Some (VR s) ->
    b <= o -> b <= length h -> ext_ok b h s ->
    ext_step W rec ext (VR o) h = (h', res) -> keeps b h h'.
  Proof.
    unfold ext_step. intros ext c o s fs b h h' res Eo Ei Ho Hb (m & Em & Fm) H.
    rewrite Eo, Ei, Em in H.
    assert (K : forall h1 x, keeps b h h1 -> fresh_ref b x ->
      match x with
      | VA _ => (h1, RExc "TypeError")
      | VR x0 =>
        match class_for_type W ext true "extensions" with
        | None => (h1, RExc "TypeError")
        | Some ec =>
          let (h2, k) := alloc h1 (NDict []) in
          bindv (rec (QConstruct ec (VR k)) h2) (fun eo h3 =>
            match set_item h3 x0 ext eo with
            | Some h4 => (h4, RVal (VR o))
            | None => (h3, RExc "TypeError")
            end)
        end
      end = (h', res) -> keeps b h h').
    { intros h1 x K1 Fx H1. destruct x as [a|x0]; [leaf|]. simpl in Fx.
      destruct (class_for_type W ext true "extensions") as [ec|]; [|leaf].
      destruct (alloc h1 (NDict [])) as [h2 k] eqn:Ea.
      assert (K2 : keeps b h h2) by (eapply keeps_then_grows; [exact K1|]; eapply alloc_grows; eauto).
      unfold bindv in H1. destruct (rec (QConstruct ec (VR k)) h2) as [h3 r3] eqn:Er.
      assert (K3 : keeps b h h3) by (eapply keeps_then_grows; [exact K2|]; eapply Hrec; eauto).
      destruct r3; try leaf.
      destruct (set_item h3 x0 ext v) as [h4|] eqn:Es; [|leaf]. leaf.
      eapply keeps_trans; [exact K3|]. eapply (wrote_keeps b x0); [exact Fx | eapply set_item_wrote; eauto]. }
    destruct (assoc (u "extensions") m) as [x|] eqn:Ex.
    - eapply (K h x); [apply keeps_refl | apply Fm; exact Ex | exact H].
    - destruct (alloc h (NDict [])) as [ha e] eqn:Ea.
      match type of H with context [alloc ha ?nn] => destruct (alloc ha nn) as [hb s'] eqn:Eb end.
      destruct (set_field hb o (u "_inner") (VR s')) as [hc|] eqn:Ef; [|leaf].
      eapply (K hc (VR e)); [| | exact H].
      + eapply keeps_trans; [apply grows_keeps; eapply alloc_grows; eauto|].
        eapply keeps_trans; [apply grows_keeps; eapply alloc_grows; eauto|].
        eapply (wrote_keeps b o); [exact Ho | eapply set_field_wrote; eauto].
      + simpl. rewrite (alloc_loc _ _ _ _ Ea). exact Hb.
  Qed.

  Lemma construct_full_grows : forall c sch m h h' res, construct_full W rec c sch m h = (h', res) -> grows h h'.
  Proof.
    unfold construct_full, bindv. intros c sch m0 h h' res H.
    destruct (merge_custom h m0) as [m|]; [|leaf].
    destruct (construct_body W rec c sch m h) as [h1 r1] eqn:Eb.
    assert (G1 := construct_body_grows _ _ _ _ _ _ Eb).
    destruct r1 as [ov| |]; try leaf.
    destruct (lookup c (with_ext W)) as [ext|]; [|leaf].
    destruct (lookup (u "extensions") sch) as [[| | | | | | |v21| |]|] eqn:Ek; try leaf.
    destruct (construct_body_spec _ _ _ _ _ _ Eb) as (o & s & fs & -> & Ho & Hs & Eo & Ei & Ok).
    eapply grows_then_keeps; [exact G1|].
    eapply ext_step_keeps; [exact Eo | exact Ei | exact Ho | apply grows_len in G1; exact G1 | eapply Ok; exact Ek | exact H].
  Qed.

  Lemma construct_grows : forall c kw h h' res, construct W rec c kw h = (h', res) -> grows h h'.
  Proof.
    unfold construct. intros c kw h h' res H.
    destruct (lookup c (classes W)) as [sch|]; [|leaf].
    destruct (mapping_entries h kw) as [m|]; [|leaf].
    destruct (lookup c (defn_classes W)) as [table|]; [|eapply construct_full_grows; eauto].
    destruct (assoc (u "definition_type") m) as [dt|]; [|eapply construct_full_grows; eauto].
    destruct (assoc (u "definition") m) as [dv|]; [|eapply construct_full_grows; eauto].
    match type of H with (match ?x with _ => _ end) = _ => destruct x as [mc|] end; [|leaf].
    match type of H with (if ?x then _ else _) = _ => destruct x end; [eapply construct_full_grows; eauto|].
    unfold bindv in H.
    destruct (get_dict dv h) as [h0 r0] eqn:Eg. assert (G := get_dict_grows _ _ _ _ Eg).
    destruct r0; try leaf.
    destruct (rec (QConstruct mc v) h0) as [h1 r1] eqn:Er. assert (G1 := Hrec _ _ _ _ Er).
    destruct r1; try (leaf; eapply grows_trans; eauto; fail).
    eapply grows_trans; [exact G|]. eapply grows_trans; [exact G1|]. eapply construct_full_grows; eauto.
  Qed.

  Lemma parse_dict_grows : forall v ver ac h h' res, parse_dict W rec v ver ac h = (h', res) -> grows h h'.
  Proof.
    unfold parse_dict. intros v ver ac h h' res H.
    destruct (str_atom (mapping_get h v (u "type"))) as [ty|]; [|leaf].
    match type of H with (match ?a with _ => _ end) = _ => destruct a end; [eapply Hrec; eauto|].
    match type of H with (match ?a with _ => _ end) = _ => destruct a end; [eapply Hrec; eauto|].
    destruct ac; leaf.
  Qed.

  Lemma parse_observable_grows : forall v vr ver ac h h' res,
    parse_observable vt W rec fuel v vr ver ac h = (h', res) -> grows h h'.
  Proof.
    unfold parse_observable, bindv. intros v vr ver ac h h' res H.
    destruct (get_dict v h) as [h0 r0] eqn:Eg. assert (G := get_dict_grows _ _ _ _ Eg).
    destruct r0; try leaf.
    destruct (str_atom (mapping_get h0 v0 (u "type"))) as [ty|]; [|leaf].
    destruct (copy_at (cm_pobs vt) fuel v0 h0) as [h1 r1] eqn:Ec. assert (G1 := copy_at_grows _ _ _ _ _ _ Ec).
    destruct r1; try (leaf; eapply grows_trans; eauto; fail).
    destruct v1 as [a|c]; [leaf; eapply grows_trans; eauto|].
    assert (Hc : length h0 <= c) by (destruct Hvt as (He & Ho & Hp); eapply copy_at_fresh; [|eauto]; assumption).
    eapply grows_trans; [exact G|]. eapply grows_then_keeps; [exact G1|].
    cbv beta iota in H.
    assert (K : forall h2 vr', keeps (length h0) h1 h2 ->
      match set_item h2 c (u "_valid_refs") vr' with
      | Some h3 =>
          match class_for_type W ty match ver with Some b => b | None => detect_v21 W h3 (VR c) end "observables" with
          | Some cls => rec (QConstruct cls (VR c)) h3
          | None => if ac then (h3, RVal (VR c)) else (h3, RExc "ParseError")
          end
      | None => (h2, RExc "TypeError")
      end = (h', res) -> keeps (length h0) h1 h').
    { intros h2 vr' K2 H2.
      destruct (set_item h2 c (u "_valid_refs") vr') as [h3|] eqn:Es; [|leaf].
      eapply keeps_trans; [exact K2|].
      eapply keeps_trans; [eapply wrote_keeps; [|eapply set_item_wrote]; eauto|].
      match type of H2 with (match ?a with _ => _ end) = _ => destruct a end.
      - apply grows_keeps. eapply Hrec; eauto.
      - destruct ac; leaf. }
    destruct (truthy h1 vr).
    - eapply K; [|exact H]. apply keeps_refl.
    - destruct (alloc h1 (NList [])) as [hh ll] eqn:Ea.
      eapply K; [|exact H]. apply grows_keeps. eapply alloc_grows; eauto.
  Qed.

  Lemma step_grows : forall q h h' res, step vt W rec fuel q h = (h', res) -> grows h h'.
  Proof.
    intros [k v|c kw|v ver ac|v vr ver ac] h h' res H; simpl in H.
    - eapply clean_grows; eauto.
    - eapply construct_grows; eauto.
    - eapply parse_dict_grows; eauto.
    - eapply parse_observable_grows; eauto.
  Qed.
End InterpFacts.

(* FRAME for the interpreter: for every request (clean of any property kind,
   construction of any class from any keyword mapping, dict_to_stix2,
   parse_observable), every heap, every fuel. *)
Lemma interp_grows : forall vt W d, copies vt ->
  forall n q h h' res, interp vt W d n q h = (h', res) -> grows h h'.
Proof.
  intros vt W d Hvt. induction n as [|n IH]; intros q h h' res H; simpl in H.
  - inversion H. apply grows_refl.
  - eapply step_grows; eauto. intros; eapply interp_ext_fresh; eauto.
Qed.

(* Proofs/HeapInterp.v -- frame theorem for the interpreter of Model/HeapOps.v
   (Property.clean of every container property class, _STIXBase.__init__,
   dict_to_stix2, parse_observable): whatever the arguments and the heap, no
   node that existed before the call is changed -- provided the three
   defensive copies are copies at all (Deep or Shallow, not NoCopy).        *)
From Coq Require Import NArith ZArith String Bool Arith List Lia.
From V Require Import Model.Heap Model.HeapOps Proofs.HeapFacts.
Import ListNotations.
Open Scope nat_scope.

(* the defensive copies of the interpreter are really copies *)
Definition copies (vt : variant) : Prop :=
  cm_ext vt <> NoCopy /\ cm_obs vt <> NoCopy /\ cm_pobs vt <> NoCopy.

Lemma copies_as_written : copies as_written.
Proof. repeat split; discriminate. Qed.

Lemma grows_then_keeps : forall h h1 h', grows h h1 -> keeps (length h) h1 h' -> grows h h'.
Proof. intros h h1 h' G K. apply keeps_grows. eapply keeps_trans; eauto. now apply grows_keeps. Qed.

Lemma keeps_then_grows : forall b h h1 h', keeps b h h1 -> grows h1 h' -> keeps b h h'.
Proof. intros. eapply keeps_trans; eauto. now apply grows_keeps. Qed.

Lemma pair_inv : forall (h h' : heap) (r r' : res), (h, r) = (h', r') -> h = h' /\ r = r'.
Proof. intros. inversion H. auto. Qed.

Lemma lift_inv : forall o h v h' r, lift o h v = (h', r) -> o = Some h' \/ h' = h.
Proof. unfold lift. intros [h1|] h v h' r H; inversion H; auto. Qed.

Lemma get_dict_grows : forall v h h' r, get_dict v h = (h', r) -> grows h h'.
Proof.
  unfold get_dict. intros v h h' r H. destruct (is_dict h v).
  - inversion H. apply grows_refl.
  - destruct (mapping_entries h v).
    + destruct (alloc h (NDict l)) as [h1 l1] eqn:Ea. inversion H; subst. eapply alloc_grows; eauto.
    + inversion H. apply grows_refl.
Qed.

(* leaf of a case analysis: the equation `(h, r) = (h', r')` closes the goal *)
Ltac leaf :=
  match goal with
  | H : (_, _) = (_, _) |- _ => apply pair_inv in H; destruct H; subst
  end;
  eauto using grows_refl, keeps_refl, grows_keeps.

Section InterpFacts.
  Variable vt : variant.
  Variable W : world.
  Variable rec : req -> heap -> heap * res.
  Variable fuel : nat.
  Hypothesis Hvt : copies vt.
  Hypothesis Hrec : forall q h h' r, rec q h = (h', r) -> grows h h'.

  Lemma list_loop_keeps : forall mk r items b h h' res,
    b <= r -> list_loop rec mk r items h = (h', res) -> keeps b h h'.
  Proof.
    induction items as [|it rest IH]; simpl; intros b h h' res Hb H.
    - leaf.
    - unfold bindv in H. destruct (rec (mk it) h) as [h1 r1] eqn:E. assert (G := Hrec _ _ _ _ E).
      destruct r1; try leaf.
      destruct (append_item h1 r v) as [h2|] eqn:Ea; [|leaf].
      eapply keeps_trans; [apply grows_keeps; eauto|].
      eapply keeps_trans; [eapply wrote_keeps; [|eapply append_item_wrote]; eauto|]. eauto.
  Qed.

  Lemma clean_list_grows : forall mk v h h' res, clean_list rec mk v h = (h', res) -> grows h h'.
  Proof.
    unfold clean_list. intros mk v h h' res H.
    match type of H with (match ?X with _ => _ end) = _ => destruct X as [[|i its]|] end; try leaf.
    destruct (alloc h (NList [])) as [h1 r] eqn:Ea.
    eapply grows_then_keeps; [eapply alloc_grows; eauto|].
    eapply list_loop_keeps; [|eauto]. rewrite (alloc_loc _ _ _ _ Ea). lia.
  Qed.

  Lemma clean_hashes_grows : forall v h h' res, clean_hashes v h = (h', res) -> grows h h'.
  Proof.
    unfold clean_hashes, bindv. intros v h h' res H.
    destruct (get_dict v h) as [h0 r0] eqn:Eg. assert (G := get_dict_grows _ _ _ _ Eg).
    destruct r0; try leaf.
    destruct (mapping_entries h0 v0); [|leaf].
    destruct (alloc h0 (NDict [])) as [h1 r] eqn:Ea.
    apply lift_inv in H. eapply grows_trans; eauto.
    destruct H as [H|H].
    - eapply grows_then_keeps; [eapply alloc_grows; eauto|].
      eapply wrote_keeps; [|eapply update_items_wrote; eauto]. rewrite (alloc_loc _ _ _ _ Ea). lia.
    - subst. eapply alloc_grows; eauto.
  Qed.

  Lemma ext_loop_keeps : forall v21 c ents b h h' res,
    b <= c -> ext_loop W rec v21 c ents h = (h', res) -> keeps b h h'.
  Proof.
    induction ents as [|[key sub] rest IH]; simpl; intros b h h' res Hb H.
    - leaf.
    - assert (K : forall x h1, keeps b h h1 ->
                 match set_item h1 c key x with
                 | Some h2 => ext_loop W rec v21 c rest h2
                 | None => (h1, RExc "TypeError")
                 end = (h', res) -> keeps b h h').
      { intros x h1 K1 H1. destruct (set_item h1 c key x) as [h2|] eqn:Es; [|leaf].
        eapply keeps_trans; [exact K1|].
        eapply keeps_trans; [eapply wrote_keeps; [|eapply set_item_wrote]; eauto|]. eauto. }
      destruct (class_for_type W key v21 "extensions").
      + destruct (is_dict h sub).
        * unfold bindv in H. destruct (rec (QConstruct u sub) h) as [h1 r1] eqn:E.
          assert (G := Hrec _ _ _ _ E). destruct r1; try leaf.
          eapply K; [|exact H]. now apply grows_keeps.
        * destruct (is_obj h sub); [|leaf]. eapply K; [|exact H]. apply keeps_refl.
      + eapply K; [|exact H]. apply keeps_refl.
  Qed.

  Lemma clean_ext_grows : forall v21 v h h' res, clean_ext vt W rec fuel v21 v h = (h', res) -> grows h h'.
  Proof.
    unfold clean_ext, bindv. intros v21 v h h' res H.
    destruct (get_dict v h) as [h0 r0] eqn:Eg. assert (G := get_dict_grows _ _ _ _ Eg).
    destruct r0; try leaf.
    destruct (copy_at (cm_ext vt) fuel v0 h0) as [h1 r1] eqn:Ec. assert (G1 := copy_at_grows _ _ _ _ _ _ Ec).
    destruct r1; try (leaf; eapply grows_trans; eauto; fail).
    destruct v1 as [a|c]; [leaf; eapply grows_trans; eauto|].
    destruct (mapping_entries h1 (VR c)); [|leaf; eapply grows_trans; eauto].
    assert (Hc : length h0 <= c) by (destruct Hvt as (He & Ho & Hp); eapply copy_at_fresh; [|eauto]; assumption).
    eapply grows_trans; [exact G|]. eapply grows_then_keeps; [exact G1|].
    eapply ext_loop_keeps; [|eauto]. exact Hc.
  Qed.

  Lemma obs_loop_keeps : forall v21 c vr ents b h h' res,
    b <= c -> obs_loop rec v21 c vr ents h = (h', res) -> keeps b h h'.
  Proof.
    induction ents as [|[key obj] rest IH]; simpl; intros b h h' res Hb H.
    - leaf.
    - unfold bindv in H. destruct (rec (QParseObs obj vr (Some v21) true) h) as [h1 r1] eqn:E.
      assert (G := Hrec _ _ _ _ E). destruct r1; try leaf.
      destruct (set_item h1 c key v) as [h2|] eqn:Es; [|leaf].
      eapply keeps_trans; [apply grows_keeps; eauto|].
      eapply keeps_trans; [eapply wrote_keeps; [|eapply set_item_wrote]; eauto|]. eauto.
  Qed.

  Lemma clean_obs_grows : forall v21 v h h' res, clean_obs vt rec fuel v21 v h = (h', res) -> grows h h'.
  Proof.
    unfold clean_obs, bindv. intros v21 v h h' res H.
    destruct (get_dict v h) as [h0 r0] eqn:Eg. assert (G := get_dict_grows _ _ _ _ Eg).
    destruct r0; try leaf.
    destruct (copy_at (cm_obs vt) fuel v0 h0) as [h1 r1] eqn:Ec. assert (G1 := copy_at_grows _ _ _ _ _ _ Ec).
    destruct r1; try (leaf; eapply grows_trans; eauto; fail).
    destruct v1 as [a|c]; [leaf; eapply grows_trans; eauto|].
    assert (Hc : length h0 <= c) by (destruct Hvt as (He & Ho & Hp); eapply copy_at_fresh; [|eauto]; assumption).
    destruct (mapping_entries h1 (VR c)) as [[|e ents]|]; try (leaf; eapply grows_trans; eauto; fail).
    match type of H with (let (_, _) := alloc ?hh ?nn in _) = _ => destruct (alloc hh nn) as [h2 r] eqn:Ea end.
    eapply grows_trans; [exact G|]. eapply grows_then_keeps; [exact G1|].
    eapply keeps_trans; [apply grows_keeps; eapply alloc_grows; eauto|].
    eapply obs_loop_keeps; [|eauto]. exact Hc.
  Qed.

  Lemma clean_grows : forall k v h h' res, clean vt W rec fuel k v h = (h', res) -> grows h h'.
  Proof.
    intros k v h h' res H. destruct k; simpl in H.
    - destruct v; leaf.
    - leaf.
    - eapply clean_list_grows; eauto.
    - eapply clean_list_grows; eauto.
    - eapply get_dict_grows; eauto.
    - eapply clean_hashes_grows; eauto.
    - destruct (is_dict h v); [eapply Hrec; eauto|]. destruct (is_obj h v); leaf.
    - eapply clean_ext_grows; eauto.
    - eapply clean_obs_grows; eauto.
    - destruct (is_obj h v); [leaf|]. unfold bindv in H.
      destruct (get_dict v h) as [h0 r0] eqn:Eg. assert (G := get_dict_grows _ _ _ _ Eg).
      destruct r0; try leaf. eapply grows_trans; eauto.
  Qed.

  Lemma init_loop_keeps : forall s sch props b h h' res,
    b <= s -> init_loop rec s sch props h = (h', res) -> keeps b h h'.
  Proof.
    induction props as [|[name v] rest IH]; simpl; intros b h h' res Hb H.
    - leaf.
    - destruct (reserved_kw name || none_or_empty_list h v); [eauto|].
      destruct (set_item h s name v) as [h1|] eqn:Es; [|leaf].
      assert (K1 : keeps b h h1) by (eapply wrote_keeps; [|eapply set_item_wrote]; eauto).
      destruct (lookup name sch) as [k|].
      + unfold bindv in H. destruct (rec (QClean k v) h1) as [h2 r2] eqn:E.
        assert (G := Hrec _ _ _ _ E). destruct r2; try (leaf; eapply keeps_then_grows; eauto; fail).
        destruct (set_item h2 s name v0) as [h3|] eqn:Es2; [|leaf; eapply keeps_then_grows; eauto].
        eapply keeps_trans; [exact K1|]. eapply keeps_trans; [apply grows_keeps; exact G|].
        eapply keeps_trans; [eapply wrote_keeps; [|eapply set_item_wrote]; eauto|]. eauto.
      + eapply keeps_trans; eauto.
  Qed.

  Lemma construct_body_grows : forall c sch m h h' res, construct_body W rec c sch m h = (h', res) -> grows h h'.
  Proof.
    unfold construct_body. intros c sch m h h' res H.
    match type of H with (let (_, _) := alloc ?hh ?nn in _) = _ => destruct (alloc hh nn) as [h1 s] eqn:Ea end.
    assert (Hs : length h <= s) by (rewrite (alloc_loc _ _ _ _ Ea); lia).
    assert (G1 := alloc_grows _ _ _ _ Ea).
    unfold bindv in H.
    match type of H with (let (_, _) := init_loop ?a ?b ?c ?d ?e in _) = _ =>
      destruct (init_loop a b c d e) as [h2 r2] eqn:Ei end.
    assert (K2 : keeps (length h) h1 h2) by (eapply init_loop_keeps; eauto).
    destruct r2; try (leaf; eapply grows_then_keeps; eauto; fail).
    match type of H with (let (_, _) := alloc ?hh ?nn in _) = _ => destruct (alloc hh nn) as [h4 o] eqn:Ea2 end.
    leaf. eapply grows_then_keeps; [exact G1|]. eapply keeps_trans; [exact K2|].
    eapply keeps_then_grows; [|eapply alloc_grows; eauto].
    match goal with |- keeps _ _ (if ?c then _ else _) => destruct c end.
    - match goal with |- keeps _ _ (match set_item ?a ?b ?c ?d with _ => _ end) => destruct (set_item a b c d) as [hd|] eqn:Es end.
      + eapply keeps_trans; [|eapply wrote_keeps; [|eapply set_item_wrote]; eauto].
        match goal with |- keeps _ _ (match ?x with _ => _ end) => destruct x as [hu|] eqn:Eu end; [|apply keeps_refl].
        eapply wrote_keeps; [|eapply update_items_wrote]; eauto.
      + match goal with |- keeps _ _ (match ?x with _ => _ end) => destruct x as [hu|] eqn:Eu end; [|apply keeps_refl].
        eapply wrote_keeps; [|eapply update_items_wrote]; eauto.
    - match goal with |- keeps _ _ (match ?x with _ => _ end) => destruct x as [hu|] eqn:Eu end; [|apply keeps_refl].
      eapply wrote_keeps; [|eapply update_items_wrote]; eauto.
  Qed.

  Lemma construct_grows : forall c kw h h' res, construct W rec c kw h = (h', res) -> grows h h'.
  Proof.
    unfold construct. intros c kw h h' res H.
    destruct (lookup c (classes W)) as [sch|]; [|leaf].
    destruct (mapping_entries h kw) as [m|]; [|leaf].
    destruct (lookup c (defn_classes W)) as [table|]; [|eapply construct_body_grows; eauto].
    destruct (assoc (u "definition_type") m) as [dt|]; [|eapply construct_body_grows; eauto].
    destruct (assoc (u "definition") m) as [dv|]; [|eapply construct_body_grows; eauto].
    match type of H with (match ?x with _ => _ end) = _ => destruct x as [mc|] end; [|leaf].
    match type of H with (if ?x then _ else _) = _ => destruct x end; [eapply construct_body_grows; eauto|].
    unfold bindv in H.
    destruct (get_dict dv h) as [h0 r0] eqn:Eg. assert (G := get_dict_grows _ _ _ _ Eg).
    destruct r0; try leaf.
    destruct (rec (QConstruct mc v) h0) as [h1 r1] eqn:Er. assert (G1 := Hrec _ _ _ _ Er).
    destruct r1; try (leaf; eapply grows_trans; eauto; fail).
    eapply grows_trans; [exact G|]. eapply grows_trans; [exact G1|]. eapply construct_body_grows; eauto.
  Qed.

  Lemma parse_dict_grows : forall v ver ac h h' res, parse_dict W rec v ver ac h = (h', res) -> grows h h'.
  Proof.
    unfold parse_dict. intros v ver ac h h' res H.
    destruct (str_atom (mapping_get h v (u "type"))) as [ty|]; [|leaf].
    match type of H with (match ?a with _ => _ end) = _ => destruct a end; [eapply Hrec; eauto|].
    match type of H with (match ?a with _ => _ end) = _ => destruct a end; [eapply Hrec; eauto|].
    destruct ac; leaf.
  Qed.

  Lemma parse_observable_grows : forall v vr ver ac h h' res,
    parse_observable vt W rec fuel v vr ver ac h = (h', res) -> grows h h'.
  Proof.
    unfold parse_observable, bindv. intros v vr ver ac h h' res H.
    destruct (get_dict v h) as [h0 r0] eqn:Eg. assert (G := get_dict_grows _ _ _ _ Eg).
    destruct r0; try leaf.
    destruct (str_atom (mapping_get h0 v0 (u "type"))) as [ty|]; [|leaf].
    destruct (copy_at (cm_pobs vt) fuel v0 h0) as [h1 r1] eqn:Ec. assert (G1 := copy_at_grows _ _ _ _ _ _ Ec).
    destruct r1; try (leaf; eapply grows_trans; eauto; fail).
    destruct v1 as [a|c]; [leaf; eapply grows_trans; eauto|].
    assert (Hc : length h0 <= c) by (destruct Hvt as (He & Ho & Hp); eapply copy_at_fresh; [|eauto]; assumption).
    eapply grows_trans; [exact G|]. eapply grows_then_keeps; [exact G1|].
    cbv beta iota in H.
    assert (K : forall h2 vr', keeps (length h0) h1 h2 ->
      match set_item h2 c (u "_valid_refs") vr' with
      | Some h3 =>
          match class_for_type W ty match ver with Some b => b | None => detect_v21 W h3 (VR c) end "observables" with
          | Some cls => rec (QConstruct cls (VR c)) h3
          | None => if ac then (h3, RVal (VR c)) else (h3, RExc "ParseError")
          end
      | None => (h2, RExc "TypeError")
      end = (h', res) -> keeps (length h0) h1 h').
    { intros h2 vr' K2 H2.
      destruct (set_item h2 c (u "_valid_refs") vr') as [h3|] eqn:Es; [|leaf].
      eapply keeps_trans; [exact K2|].
      eapply keeps_trans; [eapply wrote_keeps; [|eapply set_item_wrote]; eauto|].
      match type of H2 with (match ?a with _ => _ end) = _ => destruct a end.
      - apply grows_keeps. eapply Hrec; eauto.
      - destruct ac; leaf. }
    destruct (truthy h1 vr).
    - eapply K; [|exact H]. apply keeps_refl.
    - destruct (alloc h1 (NList [])) as [hh ll] eqn:Ea.
      eapply K; [|exact H]. apply grows_keeps. eapply alloc_grows; eauto.
  Qed.

  Lemma step_grows : forall q h h' res, step vt W rec fuel q h = (h', res) -> grows h h'.
  Proof.
    intros [k v|c kw|v ver ac|v vr ver ac] h h' res H; simpl in H.
    - eapply clean_grows; eauto.
    - eapply construct_grows; eauto.
    - eapply parse_dict_grows; eauto.
    - eapply parse_observable_grows; eauto.
  Qed.
End InterpFacts.

(* FRAME for the interpreter: for every request (clean of any property kind,
   construction of any class from any keyword mapping, dict_to_stix2,
   parse_observable), every heap, every fuel. *)
Lemma interp_grows : forall vt W d, copies vt ->
  forall n q h h' res, interp vt W d n q h = (h', res) -> grows h h'.
Proof.
  intros vt W d Hvt. induction n as [|n IH]; intros q h h' res H; simpl in H.
  - inversion H. apply grows_refl.
  - eapply step_grows; eauto.
Qed.

(* Proofs/PatternEqRecog.v -- the documented rewrites are recognised: by the
   pass responsible for each (for arbitrary sub-expressions), and by the whole
   pipeline for patterns consisting of one comparison (set order, numerically
   equal constants).                                                      *)
From Coq Require Import NArith ZArith QArith List Bool Permutation Lia String.
From V Require Import Base.UString Model.PatternEq Spec.PatternSemantics Proofs.PatternEqCmp Proofs.PatternEqLists
     Proofs.PatternEqSort.
Import ListNotations.

(* ---- numerically equal constants ---- *)

Lemma recognises_numeric_value : forall m1 e1 m2 e2,
    Qeq (m1 # pow10 e1) (m2 # pow10 e2) -> prim_cmp (PFloat m1 e1) (PFloat m2 e2) = Eq.
Proof. intros. simpl. rewrite num_cmp_Q. apply Qeq_alt. assumption. Qed.

Lemma recognises_int_float : forall z e, prim_cmp (PInt z) (PFloat (z * 10 ^ Z.of_N e) e) = Eq.
Proof.
  intros z e. simpl. rewrite num_cmp_Q. apply Qeq_alt. unfold Qeq. simpl. rewrite pow10_spec. ring.
Qed.

Lemma recognises_trailing_zero : forall m e, prim_cmp (PFloat m e) (PFloat (m * 10) (e + 1)) = Eq.
Proof.
  intros m e. simpl. rewrite num_cmp_Q. apply Qeq_alt. unfold Qeq. simpl. rewrite !pow10_spec.
  rewrite N2Z.inj_add. rewrite Z.pow_add_r by lia. change (10 ^ Z.of_N 1)%Z with 10%Z. ring.
Qed.

(* ---- order-insensitive set literals ---- *)

Lemma recognises_set_order : forall l1 l2, Permutation l1 l2 -> const_cmp (KList l1) (KList l2) = Eq.
Proof.
  intros l1 l2 HP. simpl. unfold list_cmp. apply Forall2_lex_eq.
  apply (isort_perm_eq prim_cmp prim_cmp_lawful l1 l2 HP).
Qed.

(* a set whose members are respelt and reordered *)
Lemma recognises_set_members : forall l1 l2 m,
    Permutation l1 m -> Forall2 (fun a b => prim_cmp a b = Eq) m l2 -> const_cmp (KList l1) (KList l2) = Eq.
Proof.
  intros l1 l2 m HP HF. simpl. unfold list_cmp. apply Forall2_lex_eq.
  eapply (F2ceq_trans prim_cmp prim_cmp_lawful); [apply (isort_perm_eq prim_cmp prim_cmp_lawful l1 m HP)|].
  apply (isort_respects prim_cmp prim_cmp_lawful). exact HF.
Qed.

(* ---- commutativity: the order pass produces comparator-equal nodes for permuted operands ---- *)

Lemma ccmp_mkb : forall o l1 l2, ccmp (mkb o l1) (mkb o l2) = cmp_lex ccmp l1 l2.
Proof. destruct o; reflexivity. Qed.

Lemma recognises_commute_c : forall o l l',
    Permutation l l' -> ccmp (fst (corder_node o l)) (fst (corder_node o l')) = Eq.
Proof.
  intros o l l' HP. unfold corder_node. cbn [fst]. rewrite ccmp_mkb. apply Forall2_lex_eq.
  apply (dedupe_respects ccmp ccmp_lawful). apply (isort_perm_eq ccmp ccmp_lawful l l' HP).
Qed.

Lemma recognises_commute_o_and : forall l l',
    Permutation l l' -> ocmp (fst (oorder_node OpAnd l)) (fst (oorder_node OpAnd l')) = Eq.
Proof.
  intros l l' HP. unfold oorder_node. cbn [fst mko]. simpl. apply Forall2_lex_eq.
  apply (isort_perm_eq ocmp ocmp_lawful l l' HP).
Qed.

Lemma recognises_commute_o_or : forall l l',
    Permutation l l' -> ocmp (fst (oorder_node OpOr l)) (fst (oorder_node OpOr l')) = Eq.
Proof.
  intros l l' HP. unfold oorder_node. cbn [fst mko]. simpl. apply Forall2_lex_eq.
  apply (dedupe_respects ocmp ocmp_lawful). apply (isort_perm_eq ocmp ocmp_lawful l l' HP).
Qed.

(* ---- idempotence: a repeated operand is dropped (AND and OR of comparisons, OR of observations) ---- *)

Lemma dedupe_pair : forall {A} (cmp : A -> A -> comparison) a a', cmp a a' = Eq -> dedupe cmp [a; a'] = [a].
Proof. intros A cmp a a' E. simpl. rewrite E. reflexivity. Qed.

Lemma isort_pair_eq : forall {A} (cmp : A -> A -> comparison) a a', cmp a a' = Eq -> isort cmp [a; a'] = [a; a'].
Proof. intros A cmp a a' E. unfold isort. simpl. rewrite E. reflexivity. Qed.

Lemma recognises_idempotent_c : forall o a a', ccmp a a' = Eq -> fst (corder_node o [a; a']) = mkb o [a].
Proof.
  intros o a a' E. unfold corder_node. cbn [fst]. rewrite (isort_pair_eq ccmp a a' E), (dedupe_pair ccmp a a' E). reflexivity.
Qed.

Lemma recognises_idempotent_o_or : forall a a', ocmp a a' = Eq -> fst (oorder_node OpOr [a; a']) = OOr [a].
Proof.
  intros a a' E. unfold oorder_node. cbn [fst mko]. rewrite (isort_pair_eq ocmp a a' E), (dedupe_pair ocmp a a' E). reflexivity.
Qed.

(* and the flatten pass replaces the one-operand node by the operand *)
Lemma flatten_singleton_c : forall o a, fst (cflatten_node o [a]) = a.
Proof. reflexivity. Qed.
Lemma flatten_singleton_o : forall o a, fst (oflatten_node o [a]) = a.
Proof. reflexivity. Qed.

(* ---- associativity: the flatten pass splices a same-operator operand ---- *)

Lemma recognises_associate_c : forall o xs r,
    fst (cflatten_ops o (mkb o xs :: r)) = (xs ++ fst (cflatten_ops o r))%list.
Proof.
  intros o xs r. cbn [cflatten_ops]. destruct (cflatten_ops o r) as [r' ch].
  assert (E : ops_of o (mkb o xs) = Some xs) by (destruct o; reflexivity). rewrite E. reflexivity.
Qed.

Lemma recognises_associate_o : forall o xs r,
    fst (oflatten_ops o (mko o xs :: r)) = (xs ++ fst (oflatten_ops o r))%list.
Proof.
  intros o xs r. cbn [oflatten_ops]. destruct (oflatten_ops o r) as [r' ch].
  assert (E : oops_of o (mko o xs) = Some xs) by (destruct o; reflexivity). rewrite E. reflexivity.
Qed.

(* ---- absorption ---- *)

Lemma in_cmp_head : forall {A} (cmp : A -> A -> comparison) a l, cmp a a = Eq -> in_cmp cmp a (a :: l) = true.
Proof. intros A cmp a l E. unfold in_cmp. simpl. rewrite E. reflexivity. Qed.

(* A or (A and B) = A ;  A and (A or B) = A   (comparison expressions) *)
Lemma recognises_absorb_c : forall o a b,
    cabsorb_node o [a; mkb (other_op o) [a; b]] = (mkb o [a], true).
Proof.
  intros o a b. unfold cabsorb_node, absorb_marks. simpl.
  assert (E : cabsorbs (other_op o) a (mkb (other_op o) [a; b]) = true).
  { unfold cabsorbs. assert (Eo : ops_of (other_op o) (mkb (other_op o) [a; b]) = Some [a; b]) by (destruct o; reflexivity).
    rewrite Eo. rewrite (in_cmp_head ccmp a [b] (ccmp_refl a)). reflexivity. }
  rewrite E. simpl. reflexivity.
Qed.

Definition is_oqual (e : oexpr) : bool := match e with OQual _ _ => true | _ => false end.

(* A or (A and B) = A ; A or (A followedby B) = A ; A or (B followedby A) = A   when A is not qualified *)
Lemma oabsorbs_member : forall a ops, is_oqual a = false -> in_cmp ocmp a ops = true ->
                                       oabsorbs a (OAnd ops) = true /\ oabsorbs a (OFby ops) = true.
Proof. intros a ops Hq Hi. unfold oabsorbs. rewrite Hi. destruct a; try discriminate; auto. Qed.

Lemma in_cmp_second : forall {A} (cmp : A -> A -> comparison) a b l, cmp a a = Eq -> in_cmp cmp a (b :: a :: l) = true.
Proof. intros A cmp a b l E. unfold in_cmp. simpl. rewrite E. apply orb_true_r. Qed.

Lemma recognises_absorb_o_and : forall a b, is_oqual a = false -> oabsorb_node [a; OAnd [a; b]] = (OOr [a], true).
Proof.
  intros a b Hq. unfold oabsorb_node, absorb_marks. simpl.
  destruct (oabsorbs_member a [a; b] Hq (in_cmp_head ocmp a [b] (ocmp_refl a))) as [E _]. rewrite E. reflexivity.
Qed.

Lemma recognises_absorb_o_fby_left : forall a b, is_oqual a = false -> oabsorb_node [a; OFby [a; b]] = (OOr [a], true).
Proof.
  intros a b Hq. unfold oabsorb_node, absorb_marks. simpl.
  destruct (oabsorbs_member a [a; b] Hq (in_cmp_head ocmp a [b] (ocmp_refl a))) as [_ E]. rewrite E. reflexivity.
Qed.

Lemma recognises_absorb_o_fby_right : forall a b, is_oqual a = false -> oabsorb_node [a; OFby [b; a]] = (OOr [a], true).
Proof.
  intros a b Hq. unfold oabsorb_node, absorb_marks. simpl.
  destruct (oabsorbs_member a [b; a] Hq (in_cmp_second ocmp a b [] (ocmp_refl a))) as [_ E]. rewrite E. reflexivity.
Qed.

(* the documented absorption is NOT applied when A is a qualified expression (known finding
   C09-absorption-qualified-operand): nothing is deleted *)
Lemma absorption_skips_qualified : forall e q b,
    oabsorb_node [OQual e q; OAnd [OQual e q; b]] = (OOr [OQual e q; OAnd [OQual e q; b]], false).
Proof. intros e q b. reflexivity. Qed.

(* ---- distribution (observation level, leaves): A and (B or C) => (A and B) or (A and C), same for FOLLOWEDBY ---- *)

Lemma recognises_distribute_and : forall f a b c,
    odnf (S (S (S f))) (OAnd [Obs a; OOr [Obs b; Obs c]]) = Ok (OOr [OAnd [Obs a; Obs b]; OAnd [Obs a; Obs c]], true).
Proof. reflexivity. Qed.

Lemma recognises_distribute_fby_right : forall f a b c,
    odnf (S (S (S f))) (OFby [Obs a; OOr [Obs b; Obs c]]) = Ok (OOr [OFby [Obs a; Obs b]; OFby [Obs a; Obs c]], true).
Proof. reflexivity. Qed.

Lemma recognises_distribute_fby_left : forall f a b c,
    odnf (S (S (S f))) (OFby [OOr [Obs a; Obs b]; Obs c]) = Ok (OOr [OFby [Obs a; Obs c]; OFby [Obs b; Obs c]], true).
Proof. reflexivity. Qed.

(* ---- the whole pipeline on a pattern that is one comparison ---- *)

Lemma special_atom_none : forall v a, special_kind (a_type a) (a_path a) = SpNone -> special_atom v a = Ok a.
Proof. intros v a E. unfold special_atom. rewrite E. destruct (v_regex v); [|destruct (is_matches (a_op a))]; reflexivity. Qed.

Lemma onormalize_atom : forall v fuel a,
    special_kind (a_type a) (a_path a) = SpNone -> onormalize v (S fuel) (Obs0 (Atom0 a)) = Ok (Obs (Atom a)).
Proof.
  intros v fuel a E. unfold onormalize. simpl. unfold cnormalize. simpl. rewrite (special_atom_none v a E). reflexivity.
Qed.

Lemma equiv_atoms : forall v fuel a1 a2,
    special_kind (a_type a1) (a_path a1) = SpNone -> special_kind (a_type a2) (a_path a2) = SpNone ->
    equiv v (S fuel) (Obs0 (Atom0 a1)) (Obs0 (Atom0 a2)) = Ok (is_eq (atom_cmp a1 a2)).
Proof.
  intros v fuel a1 a2 E1 E2. unfold equiv. rewrite (onormalize_atom v fuel a1 E1), (onormalize_atom v fuel a2 E2). reflexivity.
Qed.

Lemma atom_cmp_same_but_const : forall t p o n k1 k2,
    const_cmp k1 k2 = Eq -> atom_cmp (mkAtom t p o n k1) (mkAtom t p o n k2) = Eq.
Proof.
  intros t p o n k1 k2 E. rewrite atom_cmp_form. simpl.
  destruct ustr_lawful as [UR _]. destruct (lex_lawful step_cmp step_cmp_lawful) as [PR _].
  destruct cop_cmp_lawful as [OR _]. destruct neg_cmp_lawful as [NR _].
  rewrite UR, PR, OR, NR. exact E.
Qed.

(* [t:p op (set)] is equivalent to the same comparison with the set's members in another order *)
Lemma recognises_set_order_full : forall v fuel t p o n l1 l2,
    special_kind t p = SpNone -> Permutation l1 l2 ->
    equiv v (S fuel) (Obs0 (Atom0 (mkAtom t p o n (KList l1)))) (Obs0 (Atom0 (mkAtom t p o n (KList l2)))) = Ok true.
Proof.
  intros v fuel t p o n l1 l2 E HP. rewrite (equiv_atoms v fuel (mkAtom t p o n (KList l1)) (mkAtom t p o n (KList l2)) E E).
  rewrite (atom_cmp_same_but_const t p o n _ _ (recognises_set_order l1 l2 HP)). reflexivity.
Qed.

(* [t:p op z] is equivalent to [t:p op z.000] *)
Lemma recognises_numeric_full : forall v fuel t p o n z e,
    special_kind t p = SpNone ->
    equiv v (S fuel) (Obs0 (Atom0 (mkAtom t p o n (KP (PInt z)))))
          (Obs0 (Atom0 (mkAtom t p o n (KP (PFloat (z * 10 ^ Z.of_N e) e))))) = Ok true.
Proof.
  intros v fuel t p o n z e E.
  rewrite (equiv_atoms v fuel (mkAtom t p o n (KP (PInt z))) (mkAtom t p o n (KP (PFloat (z * 10 ^ Z.of_N e) e))) E E).
  rewrite (atom_cmp_same_but_const t p o n (KP (PInt z)) (KP (PFloat (z * 10 ^ Z.of_N e) e)) (recognises_int_float z e)). reflexivity.
Qed.

(* Proofs/VersioningChain.v -- invariants of a version chain and the induction
   over operation histories behind chain_increasing.                         *)
From Coq Require Import String ZArith NArith List Bool Lia Sorting.Sorted.
From V Require Import Base.UString Base.Json Model.Timestamp Model.Versioning Spec.VersioningSpec
  Proofs.VersioningFacts Proofs.VersioningProofs.
Import ListNotations.
Open Scope list_scope. Open Scope Z_scope.

Definition ktype : ustring := u "type".
Definition kid : ustring := u "id".
Definition kspec : ustring := u "spec_version".

(* the properties version detection reads are not bound to None (a STIX dict read from JSON
   with "id": null is not a STIX object); after the first new version no property is *)
Definition header_ok (d : pdict) : Prop :=
  forall k, (k = ktype \/ k = kid \/ k = kspec) -> forall v, plookup k d = Some v -> is_none v = false.

(* `type` and `id` are among the unmodifiable properties of the table *)
Definition tables_ok (T : vtables) : Prop := mem ktype (t_unmod T) = true /\ mem kid (t_unmod T) = true.

(* keyword arguments are distinct, and no operation rewrites spec_version *)
Definition op_ok (o : op) : Prop :=
  match o with
  | OpNew ch _ => NoDup (keys ch) /\ has_key kspec ch = false
  | _ => True
  end.

Lemma has_key_cons : forall k k0 v0 r, has_key k ((k0, v0) :: r) = ustr_eqb k k0 || has_key k r.
Proof. intros. unfold has_key. cbn [plookup]. now destruct (ustr_eqb k k0). Qed.

Lemma plookup_update_notin : forall k kw d, has_key k kw = false -> plookup k (update d kw) = plookup k d.
Proof.
  induction kw as [|[k0 v0] r IH]; intros d H; [reflexivity|]. rewrite has_key_cons in H.
  apply orb_false_iff in H as [H1 H2]. rewrite update_cons. rewrite IH by assumption. now apply plookup_set_key_other.
Qed.

Lemma has_key_app : forall k a b, has_key k (a ++ b) = has_key k a || has_key k b.
Proof. intros. unfold has_key. rewrite plookup_app. now destruct (plookup k a). Qed.

Section Chain.
  Variable T : vtables.
  Variable nm : naive_mode.

  Lemma construct_no_null : forall c d d', construct nm c d = Ok d' ->
    (forall k v, plookup k d = Some v -> is_none v = false) -> forall k v, plookup k d' = Some v -> is_none v = false.
  Proof.
    intros c d d' H NN k v P. unfold construct in H. destruct c as [v0| |]; try (inversion H; subst; now apply NN with k).
    destruct (plookup (u "modified") d) as [m|]; [|inversion H; subst; now apply NN with k].
    destruct (parse_ts nm v0 (Some m)) as [[l o]|e]; [|discriminate]. inversion H; subst.
    destruct (ustr_eqb k (u "modified")) eqn:E.
    - apply ustr_eqb_eq in E. subst k. rewrite plookup_set_key_same in P. inversion P. reflexivity.
    - rewrite plookup_set_key_other in P by assumption. now apply NN with k.
  Qed.

  Lemma new_version_no_null : forall c d ch now d', new_version T nm c d ch now = Ok d' ->
    forall k v, plookup k d' = Some v -> is_none v = false.
  Proof.
    intros c d ch now d' H.
    destruct (new_version_ok T nm c d ch now d' H) as (v & locked & old & _ & _ & _ & _ & _ & Cases).
    destruct Cases as [(s & nmv & dlt & _ & _ & _ & _ & CON) | (l & o & _ & _ & CON)];
      apply (construct_no_null _ _ _ CON); intros k x P; now apply drop_none_no_none in P.
  Qed.

  Lemma new_version_nodup : forall c d ch now d', NoDup (keys d) -> new_version T nm c d ch now = Ok d' -> NoDup (keys d').
  Proof.
    intros c d ch now d' ND H.
    destruct (new_version_ok T nm c d ch now d' H) as (v & locked & old & _ & _ & _ & _ & _ & Cases).
    destruct Cases as [(s & nmv & dlt & _ & _ & _ & _ & CON) | (l & o & _ & _ & CON)];
      apply (construct_nodup nm _ _ _ CON); apply nodup_drop_none; now apply nodup_update.
  Qed.

  (* a header property the change set does not mention is the same in the new version *)
  Lemma header_kept : forall c d ch now d' k, NoDup (keys d) -> header_ok d ->
    new_version T nm c d ch now = Ok d' ->
    (k = ktype \/ k = kid \/ k = kspec) -> has_key k ch = false -> plookup k d' = plookup k d.
  Proof.
    intros c d ch now d' k ND HO H HK NK.
    assert (NM : ustr_eqb k kmod = false) by (destruct HK as [->|[->| ->]]; reflexivity).
    assert (PG : pget k d = plookup k d).
    { unfold pget. destruct (plookup k d) as [x|] eqn:E; [|reflexivity]. now rewrite (HO k HK x E). }
    destruct (new_version_ok T nm c d ch now d' H) as (v & locked & old & _ & _ & _ & _ & _ & Cases).
    destruct Cases as [(s & nmv & dlt & _ & _ & _ & _ & CON) | (l & o & _ & _ & CON)];
      rewrite (construct_other nm _ _ _ k CON NM); rewrite plookup_drop_none by (now apply nodup_update);
      unfold pget; rewrite plookup_update_notin.
    - exact PG.
    - exact NK.
    - exact PG.
    - rewrite has_key_app, NK. rewrite has_key_cons, NM. reflexivity.
  Qed.

  Lemma unmod_not_changed : forall c d ch now d' k, new_version T nm c d ch now = Ok d' -> mem k (t_unmod T) = true ->
    has_key k ch = false.
  Proof.
    intros c d ch now d' k H M. apply mem_In in M.
    destruct (new_version_ok T nm c d ch now d' H) as (v & locked & old & _ & _ & _ & EX & _).
    apply (existsb_has_key_false _ ch k EX). apply in_or_app. now left.
  Qed.

  Lemma detect_stable : forall c d ch now d', NoDup (keys d) -> header_ok d -> tables_ok T ->
    new_version T nm c d ch now = Ok d' -> has_key kspec ch = false -> detect T d' = detect T d.
  Proof.
    intros c d ch now d' ND HO [TT TI] H NS.
    pose proof (header_kept c d ch now d' ktype ND HO H ltac:(auto) (unmod_not_changed _ _ _ _ _ _ H TT)) as E1.
    pose proof (header_kept c d ch now d' kid ND HO H ltac:(auto) (unmod_not_changed _ _ _ _ _ _ H TI)) as E2.
    pose proof (header_kept c d ch now d' kspec ND HO H ltac:(auto) NS) as E3.
    unfold detect, has_key. fold ktype kid kspec. now rewrite E1, E2, E3.
  Qed.

  (* ---- one new_version step keeps the invariant and is strictly later ---- *)
  Lemma nv_step : forall c d ch now d' v, good_ver v -> tables_ok T ->
    get_stix_version T c d = Ok v -> NoDup (keys d) -> header_ok d ->
    NoDup (keys ch) -> has_key kspec ch = false ->
    new_version T nm c d ch now = Ok d' ->
    later nm v d d' /\ NoDup (keys d') /\ header_ok d' /\ get_stix_version T c d' = Ok v.
  Proof.
    intros c d ch now d' v GV TO GS ND HO NC NS H.
    destruct (new_version_ok T nm c d ch now d' H) as (v' & locked & old & CV & _).
    pose proof (check_versionable_ver T c d v' CV) as GS'. rewrite GS in GS'. inversion GS'; subst v'.
    split; [now apply (nv_strict_lemma T nm c d ch now d' v)|].
    split; [now apply (new_version_nodup c d ch now d')|].
    split; [intros k _ x P; now apply (new_version_no_null c d ch now d' H k x)|].
    destruct c as [v0| |]; [exact GS| |exact GS].
    cbn [get_stix_version] in *. now rewrite (detect_stable CDict d ch now d').
  Qed.

  Lemma marks_ok : forall x, NoDup (keys [(omr, x)]) /\ has_key kspec [(omr, x)] = false.
  Proof. intros x. split; [constructor; [tauto|constructor]|reflexivity]. Qed.

  Lemma revoked_kw_ok : NoDup (keys [(u "revoked", PJ (JBool true))]) /\ has_key kspec [(u "revoked", PJ (JBool true))] = false.
  Proof. split; [constructor; [tauto|constructor]|reflexivity]. Qed.

  Lemma op_step : forall c d o d' v, good_ver v -> tables_ok T ->
    get_stix_version T c d = Ok v -> NoDup (keys d) -> header_ok d -> op_ok o ->
    apply_op T nm c d o = New d' ->
    later nm v d d' /\ NoDup (keys d') /\ header_ok d' /\ get_stix_version T c d' = Ok v.
  Proof.
    intros c d o d' v GV TO GS ND HO OK H.
    assert (STEP : forall d0 ch n d1, get_stix_version T c d0 = Ok v -> NoDup (keys d0) -> header_ok d0 ->
                     NoDup (keys ch) /\ has_key kspec ch = false -> new_version T nm c d0 ch n = Ok d1 ->
                     later nm v d0 d1 /\ NoDup (keys d1) /\ header_ok d1 /\ get_stix_version T c d1 = Ok v).
    { intros d0 ch n d1 G N Hd [A B] E. now apply (nv_step c d0 ch n d1 v). }
    destruct o; cbn [apply_op] in H.
    - destruct (new_version T nm c d changes now) eqn:E; inversion H; subst. now apply (STEP d changes now d').
    - destruct (revoke T nm c d now) eqn:E; inversion H; subst. apply revoke_ok in E.
      exact (STEP _ _ _ _ GS ND HO revoked_kw_ok E).
    - unfold add_markings in H. destruct (new_version T nm c d _ now) eqn:E; inversion H; subst.
      exact (STEP _ _ _ _ GS ND HO (marks_ok _) E).
    - unfold remove_markings in H. destruct (marking_list d); [discriminate|].
      destruct (negb _); [discriminate|].
      destruct (filter _ _).
      + destruct (new_version T nm c d _ now) eqn:E; inversion H; subst. exact (STEP _ _ _ _ GS ND HO (marks_ok _) E).
      + destruct (new_version T nm c d _ now) eqn:E; inversion H; subst. exact (STEP _ _ _ _ GS ND HO (marks_ok _) E).
    - unfold clear_markings in H. destruct (new_version T nm c d _ now) eqn:E; inversion H; subst.
      exact (STEP _ _ _ _ GS ND HO (marks_ok _) E).
    - unfold set_markings, clear_markings, add_markings in H.
      destruct (new_version T nm c d _ now1) as [d1|] eqn:E1; [|discriminate].
      destruct (new_version T nm c d1 _ now2) as [d2|] eqn:E2; inversion H; subst.
      destruct (STEP d _ now1 d1 GS ND HO (marks_ok _) E1) as (L1 & N1 & H1 & G1).
      destruct (STEP d1 _ now2 d' G1 N1 H1 (marks_ok _) E2) as (L2 & N2 & H2 & G2).
      split; [now apply later_trans with d1|]. auto.
  Qed.

  (* ---- the whole chain ---- *)
  Lemma ssorted_cons_later : forall v d d' L, later nm v d d' -> StronglySorted (later nm v) (d' :: L) ->
    StronglySorted (later nm v) (d :: d' :: L).
  Proof.
    intros v d d' L LT S. constructor; [exact S|]. constructor; [exact LT|].
    apply StronglySorted_inv in S as [_ F]. eapply Forall_impl; [|exact F]. intros x Lx. now apply later_trans with d'.
  Qed.

  Theorem chain_increasing_lemma : forall ops c d v, good_ver v -> tables_ok T ->
    get_stix_version T c d = Ok v -> NoDup (keys d) -> header_ok d -> Forall op_ok ops ->
    StronglySorted (later nm v) (d :: new_versions T nm c d ops).
  Proof.
    induction ops as [|o rest IH]; intros c d v GV TO GS ND HO OK; cbn [new_versions].
    - constructor; constructor.
    - inversion OK; subst. destruct (apply_op T nm c d o) as [d'| |e] eqn:E.
      + destruct (op_step c d o d' v GV TO GS ND HO H1 E) as (L & N' & H' & G').
        apply ssorted_cons_later; [exact L|]. now apply IH.
      + now apply IH.
      + now apply IH.
  Qed.

  (* once revoked, a chain produces nothing more *)
  Theorem revoked_chain_lemma : forall ops c d, revoked_flag d = true -> new_versions T nm c d ops = [].
  Proof.
    induction ops as [|o rest IH]; intros c d R; cbn [new_versions]; [reflexivity|].
    destruct (apply_op T nm c d o) as [d'| |e] eqn:E; [|now apply IH|now apply IH].
    exfalso. now apply (revoked_final_lemma T nm c d o R d').
  Qed.
End Chain.

(* identity across versions, for the four properties the specification names *)
Lemma spec_unmod_not_modified : forall k, In k spec_unmod -> ustr_eqb k kmod = false.
Proof. intros k [<-|[<-|[<-|[<-|[]]]]]; reflexivity. Qed.

Theorem nv_identity_spec_lemma : forall T nm c d ch now d' k, subset spec_unmod (t_unmod T) = true ->
  NoDup (keys d) -> NoDup (keys ch) -> new_version T nm c d ch now = Ok d' -> In k spec_unmod -> pget k d' = pget k d.
Proof.
  intros T nm c d ch now d' k S ND NC H I.
  apply (nv_identity_lemma T nm c d ch now d' k ND NC H); [|now apply spec_unmod_not_modified].
  unfold subset in S. rewrite forallb_forall in S. apply mem_In. now apply S.
Qed.

(* Proofs/VersioningChain.v -- invariants of a version chain and the induction
   over operation histories behind chain_increasing.                         *)
From Coq Require Import String ZArith NArith List Bool Lia Sorting.Sorted.
From V Require Import Base.UString Base.Json Model.Timestamp Model.Versioning Spec.VersioningSpec
  Proofs.VersioningFacts Proofs.VersioningProofs.
Import ListNotations.
Open Scope list_scope. Open Scope Z_scope.

Definition ktype : ustring := u "type".
Definition kid : ustring := u "id".
Definition kspec : ustring := u "spec_version".

(* `type` and `id` are among the unmodifiable properties of the table *)
Definition tables_ok (T : vtables) : Prop := mem ktype (t_unmod T) = true /\ mem kid (t_unmod T) = true.

(* keyword arguments are distinct; an operation on a DICT does not rewrite spec_version (which would
   turn it into an object of the other specification: VersioningRefute.v shows that the statement
   fails then).  Nothing is asked of operations on objects.                  *)
Definition op_ok (c : carrier) (o : op) : Prop :=
  match o with
  | OpNew ch _ => NoDup (keys ch) /\ (c = CDict -> has_key kspec ch = false)
  | _ => True
  end.

Lemma has_key_cons : forall k k0 v0 r, has_key k ((k0, v0) :: r) = ustr_eqb k k0 || has_key k r.
Proof. intros. unfold has_key. cbn [plookup]. now destruct (ustr_eqb k k0). Qed.

Lemma plookup_update_notin : forall k kw d, has_key k kw = false -> plookup k (update d kw) = plookup k d.
Proof.
  induction kw as [|[k0 v0] r IH]; intros d H; [reflexivity|]. rewrite has_key_cons in H.
  apply orb_false_iff in H as [H1 H2]. rewrite update_cons. rewrite IH by assumption. now apply plookup_set_key_other.
Qed.

Lemma has_key_app : forall k a b, has_key k (a ++ b) = has_key k a || has_key k b.
Proof. intros. unfold has_key. rewrite plookup_app. now destruct (plookup k a). Qed.

Lemma is_none_true : forall x, is_none x = true -> x = PJ JNull.
Proof. intros [[]| |]; cbn; intros H; try discriminate; reflexivity. Qed.

Section Chain.
  Variable T : vtables.
  Variable nm : naive_mode.
  Variable cp : sver -> ustring -> pval -> pval.
  Variable ck : sver -> pdict -> option string.

  Lemma new_version_nodup : forall c d ch now d', NoDup (keys d) -> new_version T nm cp ck c d ch now = Ok d' -> NoDup (keys d').
  Proof.
    intros c d ch now d' ND H.
    destruct (new_version_ok T nm cp ck c d ch now d' H) as (v & locked & old & _ & _ & _ & _ & _ & Cases).
    destruct Cases as [(s & nmv & dlt & _ & _ & _ & _ & CON) | (l & o & _ & _ & CON)];
      apply (construct_nodup nm cp ck _ _ _ CON); apply nodup_drop_none; now apply nodup_update.
  Qed.

  Lemma unmod_not_changed : forall c d ch now d' k, new_version T nm cp ck c d ch now = Ok d' -> mem k (t_unmod T) = true ->
    has_key k ch = false.
  Proof.
    intros c d ch now d' k H M. apply mem_In in M.
    destruct (new_version_ok T nm cp ck c d ch now d' H) as (v & locked & old & _ & _ & _ & EX & _).
    apply (existsb_has_key_false _ ch k EX). apply in_or_app. now left.
  Qed.

  (* in the new version of a DICT, a header property the change set does not mention is what get()
     gave before (a binding to None disappears) *)
  Lemma header_after : forall d ch now d' k, NoDup (keys d) ->
    new_version T nm cp ck CDict d ch now = Ok d' ->
    (k = ktype \/ k = kid \/ k = kspec) -> has_key k ch = false -> plookup k d' = pget k d.
  Proof.
    intros d ch now d' k ND H HK NK.
    assert (NM : ustr_eqb k kmod = false) by (destruct HK as [->|[->| ->]]; reflexivity).
    destruct (new_version_ok T nm cp ck CDict d ch now d' H) as (v & locked & old & _ & _ & _ & _ & _ & Cases).
    destruct Cases as [(s & nmv & dlt & _ & _ & _ & _ & CON) | (l & o & _ & _ & CON)];
      apply construct_dict in CON; subst d'; rewrite plookup_drop_none by (now apply nodup_update);
      unfold pget; rewrite plookup_update_notin; try reflexivity.
    - exact NK.
    - rewrite has_key_app, NK. rewrite has_key_cons, NM. reflexivity.
  Qed.

  (* the detected version of the new dict: the same, or none at all (then nothing more can be done
     with it); never the other one *)
  Lemma detect_after : forall d ch now d' v, NoDup (keys d) -> tables_ok T -> good_ver v ->
    new_version T nm cp ck CDict d ch now = Ok d' -> has_key kspec ch = false ->
    detect T d = Ok v -> detect T d' = Ok v \/ exists e, detect T d' = Raise e.
  Proof.
    intros d ch now d' v ND [TT TI] GV H NS D.
    pose proof (header_after d ch now d' ktype ND H ltac:(auto) (unmod_not_changed _ _ _ _ _ _ H TT)) as E1.
    pose proof (header_after d ch now d' kid ND H ltac:(auto) (unmod_not_changed _ _ _ _ _ _ H TI)) as E2.
    pose proof (header_after d ch now d' kspec ND H ltac:(auto) NS) as E3.
    destruct (new_version_ok T nm cp ck CDict d ch now d' H) as (v' & locked & old & _ & _ & SL & _).
    unfold pget in E1, E2, E3. unfold detect in D |- *. unfold has_key in D |- *. fold ktype kid kspec in D |- *.
    rewrite E1, E2, E3. clear E1 E2 E3.
    destruct (plookup ktype d) as [ty|] eqn:PT; [|discriminate].
    destruct (is_none ty) eqn:NT; [right; eauto|].
    destruct (plookup kspec d) as [sv|] eqn:PS.
    - destruct (is_none sv) eqn:NSV; [|left; exact D].
      apply is_none_true in NSV. subst sv. cbn [ver_of_value] in D.
      destruct (match str_of ty with Some s => ustr_eqb s (u "bundle") | None => false end) eqn:B.
      + inversion D; subst v.
        destruct (plookup kid d) as [iv|]; [destruct (is_none iv)|]; cbn [negb]; eauto.
      + inversion D; subst v. destruct GV; discriminate.
    - destruct (plookup kid d) as [iv|] eqn:PI; cbn [negb] in D |- *; [|left; exact D].
      destruct (is_none iv) eqn:NI; cbn [negb]; [|left; exact D].
      destruct (match str_of ty with Some s => ustr_eqb s (u "bundle") | None => false end); [discriminate|].
      destruct (str_of ty) as [s|] eqn:ST; [|left; exact D].
      destruct (sco_lookup s (t_sco21 T)) as [contrib|] eqn:SC; [|left; exact D].
      (* an observable type with "id": None -- but then new_version itself was refused *)
      exfalso. apply is_none_true in NI. subst iv.
      destruct ty as [[]| |]; cbn [str_of] in ST; try discriminate. inversion ST; subst s0.
      unfold sco_locked in SL. unfold detect, has_key in SL. fold ktype kid kspec in SL.
      rewrite PT, PS, PI in SL. cbn [str_of negb] in SL.
      destruct (ustr_eqb s (u "bundle")); [discriminate|]. rewrite SC in SL. discriminate.
  Qed.

  (* ---- one new_version step: strictly later, and the version is kept or lost ---- *)
  Definition ver_kept (c : carrier) (d' : pdict) (v : sver) : Prop :=
    get_stix_version T c d' = Ok v \/ exists e, get_stix_version T c d' = Raise e.

  Lemma nv_step : forall c d ch now d' v, good_ver v -> tables_ok T ->
    get_stix_version T c d = Ok v -> NoDup (keys d) ->
    NoDup (keys ch) -> (c = CDict -> has_key kspec ch = false) ->
    new_version T nm cp ck c d ch now = Ok d' ->
    later nm v d d' /\ NoDup (keys d') /\ ver_kept c d' v.
  Proof.
    intros c d ch now d' v GV TO GS ND NC NS H.
    destruct (new_version_ok T nm cp ck c d ch now d' H) as (v' & locked & old & CV & _).
    pose proof (check_versionable_ver T c d v' CV) as GS'. rewrite GS in GS'. inversion GS'; subst v'.
    split; [exact (nv_strict_lemma T nm cp ck c d ch now d' v GV ND NC CV H)|].
    split; [exact (new_version_nodup c d ch now d' ND H)|].
    unfold ver_kept. destruct c as [v0| |]; [left; exact GS| |left; exact GS].
    cbn [get_stix_version] in *. exact (detect_after d ch now d' v ND TO GV H (NS eq_refl) GS).
  Qed.

  (* without a detectable version nothing can be versioned *)
  Lemma no_version_no_new : forall c d e, get_stix_version T c d = Raise e ->
    forall ch n a, new_version T nm cp ck c d ch n <> Ok a.
  Proof.
    intros c d e G ch n a H. destruct (new_version_ok T nm cp ck c d ch n a H) as (v & locked & old & CV & _).
    apply check_versionable_ver in CV. congruence.
  Qed.

  (* every operation that yields a new version does so through new_version on the object itself *)
  Lemma apply_op_needs_new_version : forall c d, (forall ch n a, new_version T nm cp ck c d ch n <> Ok a) ->
    forall o d', apply_op T nm cp ck c d o <> New d'.
  Proof.
    intros c d K o d' H. destruct o; cbn [apply_op] in H.
    - destruct (new_version T nm cp ck c d changes now) eqn:E; [now apply K in E|discriminate].
    - destruct (revoke T nm cp ck c d now) eqn:E; [|discriminate]. apply revoke_ok in E. now apply K in E.
    - unfold add_markings in H. destruct (new_version T nm cp ck c d _ now) eqn:E; [now apply K in E|discriminate].
    - unfold remove_markings in H. destruct (marking_list d); [discriminate|].
      destruct (negb _); [discriminate|].
      destruct (filter _ _).
      + destruct (new_version T nm cp ck c d _ now) eqn:E; [now apply K in E|discriminate].
      + destruct (new_version T nm cp ck c d _ now) eqn:E; [now apply K in E|discriminate].
    - unfold clear_markings in H. destruct (new_version T nm cp ck c d _ now) eqn:E; [now apply K in E|discriminate].
    - unfold set_markings, clear_markings in H. destruct (new_version T nm cp ck c d _ now1) eqn:E; [now apply K in E|discriminate].
  Qed.

  Lemma no_version_chain_ends : forall ops c d e, get_stix_version T c d = Raise e -> new_versions T nm cp ck c d ops = [].
  Proof.
    induction ops as [|o rest IH]; intros c d e G; cbn [new_versions]; [reflexivity|].
    destruct (apply_op T nm cp ck c d o) as [d'| |e'] eqn:E; [|now apply IH with e|now apply IH with e].
    exfalso. apply (apply_op_needs_new_version c d (no_version_no_new c d e G) o d' E).
  Qed.

  Lemma marks_ok : forall x, NoDup (keys [(omr, x)]) /\ has_key kspec [(omr, x)] = false.
  Proof. intros x. split; [constructor; [tauto|constructor]|reflexivity]. Qed.

  Lemma revoked_kw_ok : NoDup (keys [(u "revoked", PJ (JBool true))]) /\ has_key kspec [(u "revoked", PJ (JBool true))] = false.
  Proof. split; [constructor; [tauto|constructor]|reflexivity]. Qed.

  Lemma op_step : forall c d o d' v, good_ver v -> tables_ok T ->
    get_stix_version T c d = Ok v -> NoDup (keys d) -> op_ok c o ->
    apply_op T nm cp ck c d o = New d' ->
    later nm v d d' /\ NoDup (keys d') /\ ver_kept c d' v.
  Proof.
    intros c d o d' v GV TO GS ND OK H.
    assert (STEP : forall d0 ch n d1, get_stix_version T c d0 = Ok v -> NoDup (keys d0) ->
                     NoDup (keys ch) /\ has_key kspec ch = false -> new_version T nm cp ck c d0 ch n = Ok d1 ->
                     later nm v d0 d1 /\ NoDup (keys d1) /\ ver_kept c d1 v).
    { intros d0 ch n d1 G N [A B] E. apply (nv_step c d0 ch n d1 v); auto. }
    destruct o; cbn [apply_op] in H.
    - destruct (new_version T nm cp ck c d changes now) eqn:E; inversion H; subst.
      destruct OK as [A B]. now apply (nv_step c d changes now d' v).
    - destruct (revoke T nm cp ck c d now) eqn:E; inversion H; subst. apply revoke_ok in E.
      exact (STEP _ _ _ _ GS ND revoked_kw_ok E).
    - unfold add_markings in H. destruct (new_version T nm cp ck c d _ now) eqn:E; inversion H; subst.
      exact (STEP _ _ _ _ GS ND (marks_ok _) E).
    - unfold remove_markings in H. destruct (marking_list d); [discriminate|].
      destruct (negb _); [discriminate|].
      destruct (filter _ _).
      + destruct (new_version T nm cp ck c d _ now) eqn:E; inversion H; subst. exact (STEP _ _ _ _ GS ND (marks_ok _) E).
      + destruct (new_version T nm cp ck c d _ now) eqn:E; inversion H; subst. exact (STEP _ _ _ _ GS ND (marks_ok _) E).
    - unfold clear_markings in H. destruct (new_version T nm cp ck c d _ now) eqn:E; inversion H; subst.
      exact (STEP _ _ _ _ GS ND (marks_ok _) E).
    - unfold set_markings, clear_markings, add_markings in H.
      destruct (new_version T nm cp ck c d _ now1) as [d1|] eqn:E1; [|discriminate].
      destruct (new_version T nm cp ck c d1 _ now2) as [d2|] eqn:E2; inversion H; subst.
      destruct (STEP d _ now1 d1 GS ND (marks_ok _) E1) as (L1 & N1 & [G1|[e G1]]).
      + destruct (STEP d1 _ now2 d' G1 N1 (marks_ok _) E2) as (L2 & N2 & G2).
        split; [now apply later_trans with d1|]. auto.
      + exfalso. exact (no_version_no_new c d1 e G1 _ now2 d' E2).
  Qed.

  (* ---- the whole chain ---- *)
  Lemma ssorted_cons_later : forall v d d' L, later nm v d d' -> StronglySorted (later nm v) (d' :: L) ->
    StronglySorted (later nm v) (d :: d' :: L).
  Proof.
    intros v d d' L LT S. constructor; [exact S|]. constructor; [exact LT|].
    apply StronglySorted_inv in S as [_ F]. eapply Forall_impl; [|exact F]. intros x Lx. now apply later_trans with d'.
  Qed.

  Theorem chain_increasing_lemma : forall ops c d v, good_ver v -> tables_ok T ->
    get_stix_version T c d = Ok v -> NoDup (keys d) -> Forall (op_ok c) ops ->
    StronglySorted (later nm v) (d :: new_versions T nm cp ck c d ops).
  Proof.
    induction ops as [|o rest IH]; intros c d v GV TO GS ND OK; cbn [new_versions].
    - constructor; constructor.
    - inversion OK; subst. destruct (apply_op T nm cp ck c d o) as [d'| |e] eqn:E.
      + destruct (op_step c d o d' v GV TO GS ND H1 E) as (L & N' & [G'|[e G']]).
        * apply ssorted_cons_later; [exact L|]. now apply IH.
        * rewrite (no_version_chain_ends rest c d' e G').
          constructor; [constructor; constructor|]. constructor; [exact L|constructor].
      + now apply IH.
      + now apply IH.
  Qed.

  (* once revoked, a chain produces nothing more *)
  Theorem revoked_chain_lemma : forall ops c d, revoked_flag d = true -> new_versions T nm cp ck c d ops = [].
  Proof.
    induction ops as [|o rest IH]; intros c d R; cbn [new_versions]; [reflexivity|].
    destruct (apply_op T nm cp ck c d o) as [d'| |e] eqn:E; [|now apply IH|now apply IH].
    exfalso. now apply (revoked_final_lemma T nm cp ck c d o R d').
  Qed.
End Chain.

(* identity across versions, for the four properties the specification names *)
Lemma spec_unmod_not_modified : forall k, In k spec_unmod -> ustr_eqb k kmod = false.
Proof. intros k [<-|[<-|[<-|[<-|[]]]]]; reflexivity. Qed.

Theorem nv_identity_spec_lemma : forall T nm cp ck c d ch now d' k, subset spec_unmod (t_unmod T) = true ->
  NoDup (keys d) -> NoDup (keys ch) -> new_version T nm cp ck c d ch now = Ok d' -> In k spec_unmod ->
  (forall x, pget k d = Some x -> stored cp c k (Some x) = Some x) ->
  pget k d' = pget k d.
Proof.
  intros T nm cp ck c d ch now d' k S ND NC H I ST.
  apply (nv_identity_lemma T nm cp ck c d ch now d' k ND NC H); [|now apply spec_unmod_not_modified|exact ST].
  unfold subset in S. rewrite forallb_forall in S. apply mem_In. now apply S.
Qed.

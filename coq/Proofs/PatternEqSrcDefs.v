(* Proofs/PatternEqSrcDefs.v -- the vocabulary of Gen/PatternEqFacts.v (what
   translators/tr_patterneq.py reads from the source text of
   stix2/equivalence/pattern) and, for every fact, the function of the
   hand-written model generalised over it, with the lemma that at the choice
   the model makes the generalised function IS the model's.  Props/C09Src.v
   instantiates these with the facts read from the current text.          *)
From Coq Require Import NArith ZArith List Bool Lia.
From V Require Import Base.UString Model.PatternEq Proofs.PatternEqCmp.
Import ListNotations.
Local Open Scope list_scope.

(* ---- type-order tables ---- *)
Inductive ckind := KNum | KStr | KBool | KTime | KHex | KBin | KLst.
Inductive okind := KObs | KAnd | KOr | KFby | KQual.
Inductive qkind := QKRepeat | QKWithin | QKStartStop.

Definition ckind_of_prim (p : prim) : ckind :=
  match p with PInt _ | PFloat _ _ => KNum | PStr _ => KStr | PBool _ => KBool | PTime _ => KTime | PHex _ => KHex | PBin _ => KBin end.
Definition okind_of (e : oexpr) : okind :=
  match e with Obs _ => KObs | OAnd _ => KAnd | OOr _ => KOr | OFby _ => KFby | OQual _ _ => KQual end.
Definition qkind_of (q : qual) : qkind :=
  match q with QRepeat _ => QKRepeat | QWithin _ _ => QKWithin | QStartStop _ _ => QKStartStop end.

Definition ckind_eqb (a b : ckind) : bool :=
  match a, b with KNum, KNum | KStr, KStr | KBool, KBool | KTime, KTime | KHex, KHex | KBin, KBin | KLst, KLst => true | _, _ => false end.
Definition okind_eqb (a b : okind) : bool :=
  match a, b with KObs, KObs | KAnd, KAnd | KOr, KOr | KFby, KFby | KQual, KQual => true | _, _ => false end.
Definition qkind_eqb (a b : qkind) : bool :=
  match a, b with QKRepeat, QKRepeat | QKWithin, QKWithin | QKStartStop, QKStartStop => true | _, _ => false end.
Definition cop_eqb (a b : cop) : bool := (cop_index a =? cop_index b)%N.

(* tuple.index *)
Fixpoint index_of {A} (eqb : A -> A -> bool) (x : A) (l : list A) : option N :=
  match l with
  | [] => None
  | y :: r => if eqb x y then Some 0%N else match index_of eqb x r with Some n => Some (N.succ n) | None => None end
  end.

Definition all_cops : list cop := [OpEq; OpNeq; OpNeq2; OpLt; OpLe; OpGt; OpGe; OpIn; OpLike; OpMatches; OpSubset; OpSuperset].
Definition table_is_cop_index (t : list cop) : bool :=
  forallb (fun o => match index_of cop_eqb o t with Some n => (n =? cop_index o)%N | None => false end) all_cops
  && (List.length t =? 12)%nat.

(* numbers are special-cased in front of the table: rank 0; the table starts at 1; ListConstant is compared by const_cmp *)
Definition all_prim_kinds : list ckind := [KStr; KBool; KTime; KHex; KBin].
Definition rank_of_ckind (k : ckind) : N :=
  match k with KNum => 0 | KStr => 1 | KBool => 2 | KTime => 3 | KHex => 4 | KBin => 5 | KLst => 6 end%N.
Definition table_is_const_rank (t : list ckind) : bool :=
  forallb (fun k => match index_of ckind_eqb k t with Some n => (N.succ n =? rank_of_ckind k)%N | None => false end)
          (all_prim_kinds ++ [KLst])
  && (List.length t =? 6)%nat.

Lemma prim_rank_kind : forall p, prim_rank p = rank_of_ckind (ckind_of_prim p).
Proof. destruct p; reflexivity. Qed.

Definition all_okinds : list okind := [KObs; KAnd; KOr; KFby; KQual].
Definition rank_of_okind (k : okind) : N := match k with KObs => 0 | KAnd => 1 | KOr => 2 | KFby => 3 | KQual => 4 end%N.
Definition table_is_otype_index (t : list okind) : bool :=
  forallb (fun k => match index_of okind_eqb k t with Some n => (n =? rank_of_okind k)%N | None => false end) all_okinds
  && (List.length t =? 5)%nat.
Lemma otype_index_kind : forall e, otype_index e = rank_of_okind (okind_of e).
Proof. destruct e; reflexivity. Qed.

(* the order qual_cmp gives to qualifiers of different kinds *)
Definition qrank (k : qkind) : N := match k with QKRepeat => 0 | QKWithin => 1 | QKStartStop => 2 end%N.
Definition table_is_qual_rank (t : list qkind) : bool :=
  forallb (fun k => match index_of qkind_eqb k t with Some n => (n =? qrank k)%N | None => false end) [QKRepeat; QKWithin; QKStartStop]
  && (List.length t =? 3)%nat.
Lemma qual_cmp_kinds : forall a b, qkind_of a <> qkind_of b -> qual_cmp a b = N.compare (qrank (qkind_of a)) (qrank (qkind_of b)).
Proof. intros [x|m e|s t] [y|m' e'|s' t'] H; try reflexivity; contradiction H; reflexivity. Qed.

(* ---- constant_cmp: numbers against the rest ---- *)
Lemma const_numbers_first : forall x y, ckind_of_prim x = KNum -> ckind_of_prim y <> KNum ->
                                        prim_cmp x y = Lt /\ prim_cmp y x = Gt.
Proof. intros x y Hx Hy. destruct x; try discriminate; destruct y; try (contradiction Hy; reflexivity); split; reflexivity. Qed.

(* ---- hex_cmp / list_cmp ---- *)
Inductive hex_kind := HexBytes | HexNumber.
Definition be_value (l : list N) : N := fold_left (fun a b => (a * 256 + b)%N) l 0%N.
Definition hex_cmp_g (k : hex_kind) (x y : ustring) : comparison :=
  match k with
  | HexBytes => ustr_compare (hex_decode x) (hex_decode y)
  | HexNumber => N.compare (be_value (hex_decode x)) (be_value (hex_decode y))
  end.
Inductive list_kind := ListLex | ListZip.
Definition cmp_zip {A} (cmp : A -> A -> comparison) : list A -> list A -> comparison :=
  fix go l1 l2 :=
    match l1, l2 with
    | x :: r1, y :: r2 => match cmp x y with Eq => go r1 r2 | c => c end
    | _, _ => Eq
    end.
Definition list_cmp_g (k : list_kind) (l1 l2 : list prim) : comparison :=
  match k with
  | ListLex => cmp_lex prim_cmp (isort prim_cmp l1) (isort prim_cmp l2)
  | ListZip => cmp_zip prim_cmp (isort prim_cmp l1) (isort prim_cmp l2)
  end.

(* ---- object_path_component_cmp ---- *)
Inductive step_kind := IndexBeforeKey | StepsAsText.

(* ---- within_cmp ---- *)
Inductive within_kind := WithinExact | WithinTruncated.
Definition within_cmp_g (k : within_kind) (m1 : Z) (e1 : N) (m2 : Z) (e2 : N) : comparison :=
  match k with
  | WithinExact => num_cmp m1 e1 m2 e2
  | WithinTruncated => Z.compare (Z.quot m1 (10 ^ Z.of_N e1)) (Z.quot m2 (10 ^ Z.of_N e2))
  end.

(* ---- simple_comparison_expression_cmp: which fields, in which order ---- *)
Inductive astep := ALhs | AOp | ANegFalseFirst | ANegTrueFirst | ARhs.
Definition astep_cmp (s : astep) (x y : atom) : comparison :=
  match s with
  | ALhs => path_cmp (a_type x) (a_path x) (a_type y) (a_path y)
  | AOp => cop_cmp (a_op x) (a_op y)
  | ANegFalseFirst => neg_cmp (a_neg x) (a_neg y)
  | ANegTrueFirst => neg_cmp (a_neg y) (a_neg x)
  | ARhs => const_cmp (a_rhs x) (a_rhs y)
  end.
Fixpoint atom_cmp_by (steps : list astep) (x y : atom) : comparison :=
  match steps with
  | [] => Eq
  | s :: r => match astep_cmp s x y with Eq => atom_cmp_by r x y | c => c end
  end.

Lemma atom_cmp_steps : forall x y, atom_cmp x y = atom_cmp_by [ALhs; AOp; ANegFalseFirst; ARhs] x y.
Proof.
  intros x y. unfold atom_cmp. simpl.
  destruct (path_cmp (a_type x) (a_path x) (a_type y) (a_path y)); try reflexivity.
  destruct (cop_cmp (a_op x) (a_op y)); try reflexivity.
  destruct (neg_cmp (a_neg x) (a_neg y)); try reflexivity.
  destruct (const_cmp (a_rhs x) (a_rhs y)); reflexivity.
Qed.

(* ---- comparison_expression_cmp / observation_expression_cmp: the order of the cases ---- *)
Lemma ccmp_shape : forall a l1 l2,
    ccmp (Atom a) (CAnd l1) = Lt /\ ccmp (Atom a) (COr l1) = Lt /\ ccmp (CAnd l1) (Atom a) = Gt /\ ccmp (COr l1) (Atom a) = Gt /\
    ccmp (CAnd l1) (COr l2) = Lt /\ ccmp (COr l1) (CAnd l2) = Gt.
Proof. intros. repeat split; reflexivity. Qed.

(* ---- _dupe_ast: the arguments handed to the constructor ---- *)
Inductive dfield := DOp | DType | DPath | DRhs | DNeg.
Definition dfield_eqb (a b : dfield) : bool :=
  match a, b with DOp, DOp | DType, DType | DPath, DPath | DRhs, DRhs | DNeg, DNeg => true | _, _ => false end.
Definition has (f : dfield) (l : list dfield) : bool := existsb (dfield_eqb f) l.
(* the constructor's default for an argument not given: negated=False; the others are required *)
Definition dupe_atom (args : list dfield) (a : atom) : option atom :=
  if has DOp args && has DType args && has DPath args && has DRhs args
  then Some (mkAtom (a_type a) (a_path a) (a_op a) (if has DNeg args then a_neg a else false) (a_rhs a))
  else None.

(* ---- absorption: the order in which the marked operands are deleted ---- *)
Inductive del_order := Descending | Ascending.
Fixpoint del_nth {A} (i : nat) (l : list A) : list A :=
  match l, i with
  | [], _ => []
  | _ :: r, O => r
  | x :: r, S i' => x :: del_nth i' r
  end.
Fixpoint marked_from (k : nat) (del : list bool) : list nat :=
  match del with
  | [] => []
  | b :: r => (if b then [k] else []) ++ marked_from (S k) r
  end.
(* for i in <order>(sorted(to_delete)): del operands[i] *)
Definition delete_in_order {A} (o : del_order) (ops : list A) (del : list bool) : list A :=
  let idx := marked_from 0 del in
  fold_left (fun l i => del_nth i l) (match o with Descending => rev idx | Ascending => idx end) ops.

Lemma marked_from_S : forall del k, marked_from (S k) del = map S (marked_from k del).
Proof.
  induction del as [|b r IH]; intro k; [reflexivity|]. simpl. rewrite IH, map_app. destruct b; reflexivity.
Qed.

Lemma del_shifted : forall {A} (J : list nat) (x : A) l,
    fold_left (fun l i => del_nth i l) (map S J) (x :: l) = x :: fold_left (fun l i => del_nth i l) J l.
Proof. induction J as [|j J IH]; intros x l; [reflexivity|]. simpl. apply IH. Qed.

Lemma delete_descending : forall {A} (ops : list A) del, List.length del = List.length ops ->
    delete_in_order Descending ops del = remove_marked ops del.
Proof.
  unfold delete_in_order. induction ops as [|x ops IH]; intros del Hl.
  - destruct del; [reflexivity | discriminate].
  - destruct del as [|b del]; [discriminate|]. simpl in Hl. injection Hl as Hl.
    cbn [marked_from remove_marked]. rewrite marked_from_S, rev_app_distr, <- map_rev, fold_left_app, del_shifted, (IH del Hl).
    destruct b; reflexivity.
Qed.

(* ---- __is_contained_and: is the matched operand of the container consumed ---- *)
Fixpoint contained_and_g {A} (consume : bool) (cmp : A -> A -> comparison) (ees container : list A) : bool :=
  match ees with
  | [] => true
  | ee :: r => match remove_first (fun er => is_eq (cmp ee er)) container with
               | None => false
               | Some c' => contained_and_g consume cmp r (if consume then c' else container)
               end
  end.
Lemma contained_and_consuming : forall {A} (cmp : A -> A -> comparison) ees c, contained_and_g true cmp ees c = contained_and cmp ees c.
Proof. induction ees as [|e r IH]; intro c; [reflexivity|]. simpl. destruct (remove_first _ c); [apply IH | reflexivity]. Qed.

(* ---- ChainTransformer / SettleTransformer ---- *)
Inductive pass := PFlatten | POrder | PAbsorb.
Inductive chain_flag_kind := AnyChanged | LastOnly.
Inductive stage := SSpecial | SNormCmp | SSettle | SDnf.
Definition cpass (p : pass) : cexpr -> cexpr * bool := match p with PFlatten => cflatten | POrder => corder | PAbsorb => cabsorb end.
Definition opass (p : pass) : oexpr -> oexpr * bool := match p with PFlatten => oflatten | POrder => oorder | PAbsorb => oabsorb end.
(* changed = False; for t in transformers: ast, c = t.transform(ast); if c: changed = True *)
Definition run_chain {A} (f : pass -> A -> A * bool) (ps : list pass) (a : A) : A * bool :=
  fold_left (fun st p => let (x, c) := f p (fst st) in (x, snd st || c)) ps (a, false).

Lemma csimplify_chain : forall e, csimplify e = run_chain cpass [PFlatten; POrder; PAbsorb] e.
Proof.
  intro e. unfold csimplify, run_chain. simpl.
  destruct (cflatten e) as [e1 c1]. simpl. destruct (corder e1) as [e2 c2]. simpl. destruct (cabsorb e2) as [e3 c3]. reflexivity.
Qed.
Lemma osimplify_chain : forall e, osimplify e = run_chain opass [PFlatten; POrder; PAbsorb] e.
Proof.
  intro e. unfold osimplify, run_chain. simpl.
  destruct (oflatten e) as [e1 c1]. simpl. destruct (oorder e1) as [e2 c2]. simpl. destruct (oabsorb e2) as [e3 c3]. reflexivity.
Qed.

(* ---- _mask_bytes with the arithmetic of the text plugged in ---- *)
Local Open Scope Z_scope.
Definition mask_bytes_g (fixed : Z -> Z) (zero : Z -> Z -> Z) (ones : Z -> Z) (mask : Z -> Z) (bs : list N) (prefix : Z) : list N :=
  let nbytes := Z.of_nat (List.length bs) in
  let nbits := 8 * nbytes in
  let num_fixed := fixed prefix in
  let num_zero := zero nbits prefix in
  let bs1 := if 0 <? num_zero
             then firstn (Z.to_nat (nbytes - num_zero)) bs ++ repeat 0%N (Z.to_nat num_zero)
             else bs in
  if negb (num_fixed + num_zero =? nbytes) then
    let n1 := ones prefix in
    let m := Z.to_N (mask n1) in
    let k := Z.to_nat num_fixed in
    firstn k bs1 ++ match skipn k bs1 with b :: r => N.land b m :: r | [] => [] end
  else bs1.

Lemma mask_bytes_g_model : forall fixed zero ones mask,
    (forall p, fixed p = p / 8) -> (forall b p, zero b p = (b - p) / 8) -> (forall p, ones p = p mod 8) ->
    (forall n, 0 <= n < 8 -> mask n = (2 ^ n - 1) * 2 ^ (8 - n)) ->
    forall bs p, mask_bytes_g fixed zero ones mask bs p = mask_bytes bs p.
Proof.
  intros fixed zero ones mask Hf Hz Ho Hm bs p. unfold mask_bytes_g, mask_bytes. cbv zeta.
  rewrite Hf, Hz, Ho, (Hm (p mod 8)) by (apply Z.mod_pos_bound; lia). reflexivity.
Qed.

(* ---- the loops of the entry points ---- *)
Inductive equiv_test := CmpIsZero | CmpOther.
Inductive find_loop := FindEveryMember | FindCached.
Inductive version_arg := ByKeyword | Positional.

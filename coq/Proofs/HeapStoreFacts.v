(* Proofs/HeapStoreFacts.v -- frame theorems for ObjectFactory.create (the
   copied defaults are edited in place: they must be a DEEP copy) and for the
   memory store's _add (only the store's own table is written), and the
   attribute guards of _STIXBase.                                            *)
From Coq Require Import NArith ZArith String Bool Arith List Lia.
From V Require Import Model.Heap Model.HeapOps Model.HeapApi Proofs.HeapFacts Proofs.HeapInterp Proofs.HeapApiFacts.
Import ListNotations.
Open Scope nat_scope.

(* ------------------------------------------------------------------ *)
(* ObjectFactory.create                                                 *)

(* the dict at p has only atoms and fresh containers as members *)
Definition dict_fresh (b : nat) (h : heap) (p : nat) : Prop :=
  exists m, get h p = Some (NDict m) /\ Forall (fresh_ref b) (map snd m).

Lemma fresh_tree_ref : forall n b h v, fresh_tree n b h v -> fresh_ref b v.
Proof. intros n b h [a|l] F; simpl; auto. destruct n; simpl in F; tauto. Qed.

Lemma fresh_tree_kids : forall n b h l, fresh_tree (S n) b h (VR l) ->
  exists nd, get h l = Some nd /\ Forall (fresh_ref b) (kids nd).
Proof.
  intros n b h l F. simpl in F. destruct F as [_ F].
  destruct (get h l) as [nd|]; [|tauto]. exists nd. split; auto.
  eapply Forall_impl; [|exact F]. intros; eapply fresh_tree_ref; eauto.
Qed.

Lemma fresh_ref_le : forall b b' v, b' <= b -> fresh_ref b v -> fresh_ref b' v.
Proof. intros b b' [a|l] Hb F; simpl in *; auto. lia. Qed.

Lemma extend_items_list : forall ys h l h', extend_items h l ys = Some h' -> exists xs, get h l = Some (NList xs).
Proof.
  destruct ys as [|y r]; simpl; intros h l h' H.
  - destruct (get h l) as [[?|xs|? ?|?]|]; try discriminate. eauto.
  - destruct (append_item h l y) as [h1|] eqn:E; [|discriminate].
    destruct (append_item_get _ _ _ _ E) as (xs & Ex & _). eauto.
Qed.

Lemma mapping_get_dict : forall h p m k v, get h p = Some (NDict m) -> mapping_get h (VR p) k = Some v -> In v (map snd m).
Proof.
  unfold mapping_get, mapping_entries. intros h p m k v E H. rewrite E in H. eapply assoc_in; eauto.
Qed.

Lemma wrote_len : forall l h h', wrote l h h' -> length h' = length h.
Proof. intros l h h' [L _]. exact L. Qed.

Lemma wrote_get : forall l h h' l', wrote l h h' -> l' <> l -> get h' l' = get h l'.
Proof. intros l h h' l' [_ G] Hne. auto. Qed.

Lemma st_spec : forall b p lp cur h1 h3 v,
  b <= p -> b <= length h1 -> dict_fresh b h1 p -> fresh_ref b cur ->
  match list_items h1 cur with
  | Some _ => Some (h1, cur)
  | None => let (h2, l) := alloc h1 (NList [cur]) in
            match set_item h2 p lp (VR l) with Some h3 => Some (h3, VR l) | None => None end
  end = Some (h3, v) ->
  keeps b h1 h3 /\ fresh_ref b v /\ dict_fresh b h3 p.
Proof.
  intros b p lp cur h1 h3 v Hp Hb D Fc H.
  destruct (list_items h1 cur).
  - inversion H; subst. split; [apply keeps_refl|]. auto.
  - destruct (alloc h1 (NList [cur])) as [h2 l] eqn:Ea.
    destruct (set_item h2 p lp (VR l)) as [h3'|] eqn:Es; [|discriminate]. inversion H; subst h3' v.
    assert (G := alloc_grows _ _ _ _ Ea). assert (Hl := alloc_loc _ _ _ _ Ea).
    destruct D as (m & Em & Fm).
    assert (E2 : get h2 p = Some (NDict m)) by (eapply grows_get; eauto).
    split; [|split].
    + eapply keeps_trans; [apply grows_keeps; exact G|]. eapply (wrote_keeps b p); [exact Hp | eapply set_item_wrote; eauto].
    + simpl. lia.
    + exists (assoc_set lp (VR l) m). split; [eapply set_item_get_dict; eauto|].
      rewrite Forall_forall in *. intros x Hx. destruct (assoc_set_in _ _ _ _ Hx) as [->|Hx']; auto. simpl. lia.
Qed.

Section Factory.
  Variable vt : variant.
  Variable W : world.
  Hypothesis Hvt : safe vt.

  Lemma create_loop_keeps : forall p kw b lps h h' res,
    b <= p -> b <= kw -> kw <> p -> b <= length h -> dict_fresh b h p ->
    create_loop p kw lps h = (h', res) -> keeps b h h'.
  Proof.
    induction lps as [|lp rest IH]; simpl; intros h h' res Hp Hkw Hne Hb D H.
    - leaf.
    - destruct (mapping_get h (VR kw) lp) as [kwarg_prop|] eqn:Ekw; [|eauto].
      destruct (mapping_get h (VR p) lp) as [cur|] eqn:Ecur; [|eauto].
      destruct (del_item h kw lp) as [h1|] eqn:Ed; [|leaf].
      assert (W1 := del_item_wrote _ _ _ _ Ed).
      assert (K1 : keeps b h h1) by (eapply (wrote_keeps b kw); eauto).
      assert (Hb1 : b <= length h1) by (rewrite (wrote_len _ _ _ W1); auto).
      destruct D as (m & Em & Fm).
      assert (Fc : fresh_ref b cur).
      { rewrite Forall_forall in Fm. apply Fm. eapply mapping_get_dict; eauto. }
      assert (D1 : dict_fresh b h1 p).
      { exists m. split; auto. rewrite (wrote_get _ _ _ p W1); auto. }
      assert (B : match
                    match list_items h1 cur with
                    | Some _ => Some (h1, cur)
                    | None => let (h2, l) := alloc h1 (NList [cur]) in
                              match set_item h2 p lp (VR l) with Some h3 => Some (h3, VR l) | None => None end
                    end
                  with
                  | None => (h1, RExc "TypeError")
                  | Some (h3, VR l) =>
                    match match list_items h3 kwarg_prop with
                          | Some ys => extend_items h3 l ys
                          | None => append_item h3 l kwarg_prop
                          end with
                    | Some h4 => create_loop p kw rest h4
                    | None => (h3, RExc "TypeError")
                    end
                  | Some (h3, VA _) => (h3, RExc "TypeError")
                  end = (h', res) -> keeps b h h').
      { clear H. intro H.
        match type of H with (match ?st with _ => _ end) = _ => destruct st as [[h3 [a|l]]|] eqn:Est end;
          try (destruct (st_spec _ _ _ _ _ _ _ Hp Hb1 D1 Fc Est) as (K3 & F3 & D3));
          try (leaf; eapply keeps_trans; eauto; fail).
        simpl in F3.
        match type of H with (match ?x with _ => _ end) = _ => destruct x as [h4|] eqn:E4 end;
          [|leaf; eapply keeps_trans; eauto].
        assert (W4 : wrote l h3 h4 /\ exists xs, get h3 l = Some (NList xs)).
        { case_in E4.
          - split; [eapply extend_items_wrote; eauto | eapply extend_items_list; eauto].
          - split; [eapply append_item_wrote; eauto|].
            destruct (append_item_get _ _ _ _ E4) as (xs & Ex & _). eauto. }
        destruct W4 as [W4 (xs & Exs)].
        destruct D3 as (m3 & Em3 & Fm3).
        assert (Hlp : l <> p) by (intro; subst; rewrite Em3 in Exs; discriminate).
        eapply keeps_trans; [exact K1|]. eapply keeps_trans; [exact K3|].
        eapply keeps_trans; [eapply (wrote_keeps b l); eauto|].
        eapply IH; eauto.
        - rewrite (wrote_len _ _ _ W4). apply keeps_len in K3. lia.
        - exists m3. split; auto. rewrite (wrote_get _ _ _ p W4); auto. }
      destruct kwarg_prop as [a|l0]; [destruct a|]; try (apply B; exact H).
      (* kwarg_prop is None: `del properties[list_prop]` *)
      destruct (del_item h1 p lp) as [h2|] eqn:Ed2; [|leaf].
      assert (W2 := del_item_wrote _ _ _ _ Ed2).
      eapply keeps_trans; [exact K1|]. eapply keeps_trans; [eapply (wrote_keeps b p); eauto|].
      eapply IH; eauto.
      + rewrite (wrote_len _ _ _ W2). auto.
      + destruct (del_item_get_dict _ _ _ _ Ed2) as (m2 & Em2 & Em2').
        destruct D1 as (m1 & Em1 & Fm1). rewrite Em1 in Em2. inversion Em2; subst m2.
        exists (assoc_del lp m1). split; auto.
        rewrite Forall_forall in *. intros x Hx. apply Fm1. eapply assoc_del_in; eauto.
  Qed.

  Lemma factory_create_grows : forall f cls kwargs h h' res,
    factory_create vt W f cls kwargs h = (h', res) -> grows h h'.
  Proof.
    unfold factory_create, bindv. intros f cls kwargs h h' res H.
    destruct f as [a|fl]; [leaf|].
    destruct (get h fl) as [[?|?|c fs|?]|]; try leaf.
    destruct (assoc (u "_defaults") fs) as [d|]; [|leaf].
    destruct (assoc (u "_list_append") fs) as [[[| la | | |]|]|]; try leaf.
    destruct (shallow_copy kwargs h) as [h0 r0] eqn:Es.
    assert (G0 := shallow_copy_grows _ _ _ _ Es).
    destruct r0 as [kwv| |]; try leaf.
    assert (Hfac : cm_fac vt = Deep) by apply Hvt. rewrite Hfac in H. change (copy_at Deep FUEL d h0) with (deepcopy FUEL d h0) in H.
    destruct (deepcopy FUEL d h0) as [h1 r1] eqn:Ec.
    assert (G1 := deepcopy_grows _ _ _ _ _ Ec).
    assert (K1 : keeps (length h) h h1) by (apply grows_keeps; eapply grows_trans; eauto).
    destruct r1 as [pv| |]; try (kleaf K1; fail).
    destruct pv as [a|p]; cbv beta iota in H; [kleaf K1|].
    destruct kwv as [a|kw]; cbv beta iota in H; [kleaf K1|].
    destruct (is_dict h1 (VR p)) eqn:Edict; simpl negb in H; cbv iota in H; [|kleaf K1].
    (* where the two copies live *)
    destruct kwargs as [a|lk]; [unfold shallow_copy in Es; inversion Es|].
    destruct (shallow_copy_ref _ _ _ _ Es) as (kw' & nd & Ekw & Hkw & _ & _ & _ & Len0).
    inversion Ekw; subst kw'.
    destruct d as [a|ld]; [apply deepcopy_atom in Ec; destruct Ec; discriminate|].
    destruct (deepcopy_ref _ _ _ _ _ Ec) as (p' & Ep & Hp & _). inversion Ep; subst p'.
    assert (F := deepcopy_fresh _ _ _ _ _ Ec). change FUEL with (S 39) in F.
    destruct (fresh_tree_kids _ _ _ _ F) as (ndp & Endp & Fk).
    assert (D : dict_fresh (length h) h1 p).
    { unfold is_dict in Edict. rewrite Endp in Edict. destruct ndp as [m|?|? ?|?]; try discriminate.
      exists m. split; auto. eapply Forall_impl; [|exact Fk]. intros; eapply fresh_ref_le; [|eauto]. lia. }
    match type of H with (let (_, _) := ?x in _) = _ => destruct x as [h2 r2] eqn:El end.
    assert (K2 : keeps (length h) h h2).
    { destruct la.
      - eapply keeps_trans; [exact K1|]. eapply create_loop_keeps; try exact El; auto; try lia.
        apply grows_len in G0. apply grows_len in G1. lia.
      - inversion El; subst; auto. }
    destruct r2; try (kleaf K2; fail).
    destruct (mapping_entries h2 (VR kw)) as [kwm|]; [|kleaf K2].
    destruct (update_items h2 p kwm) as [h3|] eqn:Eu; [|kleaf K2].
    apply keeps_grows. eapply keeps_then_grows; [|eapply run_grows; eauto].
    eapply keeps_wrote; [exact K2| |eapply update_items_wrote; eauto]. lia.
  Qed.
End Factory.

(* ------------------------------------------------------------------ *)
(* the memory store                                                     *)

(* nothing but location d changes, and a table at d stays a table *)
Definition same_but (d : nat) (h h' : heap) : Prop :=
  length h <= length h' /\
  (forall l nd, l <> d -> get h l = Some nd -> get h' l = Some nd) /\
  (forall m, get h d = Some (NStore m) -> exists m', get h' d = Some (NStore m')).

Lemma same_but_refl : forall d h, same_but d h h.
Proof. intros. split; auto. split; eauto. Qed.

Lemma same_but_trans : forall d a b c, same_but d a b -> same_but d b c -> same_but d a c.
Proof.
  intros d a b c (L1 & G1 & S1) (L2 & G2 & S2). split; [lia|]. split; auto.
  intros m E. destruct (S1 m E) as (m' & E'). eauto.
Qed.

Lemma grows_same_but : forall d h h', grows h h' -> same_but d h h'.
Proof. intros d h h' [L G]. split; auto. split; eauto. Qed.

Lemma set_item_same_but : forall h d k v h', set_item h d k v = Some h' -> same_but d h h'.
Proof.
  intros h d k v h' H. destruct (set_item_wrote _ _ _ _ _ H) as [L G].
  split; [lia|]. split.
  - intros l nd Hne E. rewrite G; auto.
  - intros m E. unfold set_item in H. rewrite E in H. inversion H.
    eexists. apply get_upd_same. eapply get_lt; eauto.
Qed.

(* values never pass through a store table, so they survive same_but *)
Lemma same_but_frame_ns : forall d h h', same_but d h h' ->
  (forall nd, get h d = Some nd -> is_store nd = true) -> frame_ns h h'.
Proof.
  intros d h h' (L & G & S) Hd l nd E Ns. apply G; auto.
  intro; subst. rewrite (Hd _ E) in Ns. discriminate.
Qed.

Section Store.
  Variable vt : variant.
  Variable W : world.
  Hypothesis Hvt : safe vt.

  Lemma store_add_same_but : forall n d data h h' res,
    store_add vt W n d data h = (h', res) -> same_but d h h'.
  Proof.
    induction n as [|n IH]; intros d data h h' res H; simpl in H.
    - inversion H. apply same_but_refl.
    - assert (M : forall xs h h' res,
        (fix go (xs : list val) (h : heap) {struct xs} : heap * Heap.res :=
           match xs with
           | [] => (h, RVal (VA ANone))
           | x :: r => bindv (store_add vt W n d x h) (fun _ h1 => go r h1)
           end) xs h = (h', res) -> same_but d h h').
      { clear H. induction xs as [|x r IHx]; intros h0 h0' res0 H.
        - inversion H. apply same_but_refl.
        - unfold bindv in H. destruct (store_add vt W n d x h0) as [h1 r1] eqn:E1.
          assert (S1 := IH _ _ _ _ _ E1).
          destruct r1; try (inversion H; subst; auto; fail).
          eapply same_but_trans; eauto. }
      case_in H; [eapply M; eauto|].
      case_in H; [|inversion H; apply same_but_refl].
      case_in H; [eapply M; eauto|].
      unfold bindv in H.
      match type of H with (let (_, _) := ?x in _) = _ => destruct x as [h1 r1] eqn:E1 end.
      assert (S1 : same_but d h h1).
      { case_in E1.
        - inversion E1. apply same_but_refl.
        - apply grows_same_but. eapply run_grows; eauto. }
      destruct r1 as [o| |]; try (inversion H; subst; auto; fail).
      case_in H; [|inversion H; subst; auto].
      case_in H; [|inversion H; subst; auto].
      apply lift_inv in H. destruct H as [H|H]; [|subst; auto].
      eapply same_but_trans; [exact S1|]. eapply set_item_same_but; eauto.
  Qed.

  Lemma store_add_top_same_but : forall d data h h' res,
    store_add_top vt W d data h = (h', res) -> same_but d h h'.
  Proof. unfold store_add_top. intros. eapply store_add_same_but; eauto. Qed.

  Lemma store_new_grows : forall h h' s, store_new h = (h', s) -> grows h h'.
  Proof.
    unfold store_new. intros h h' s H.
    destruct (alloc h (NStore [])) as [h1 d] eqn:Ea.
    eapply grows_trans; eapply alloc_grows; eauto.
  Qed.

  Lemma store_get_same : forall d id h h' res, store_get d id h = (h', res) -> h' = h.
  Proof.
    unfold store_get. intros d id h h' res H.
    destruct (get h d) as [[?|?|? ?|?]|]; inversion H; auto.
  Qed.
End Store.

(* ------------------------------------------------------------------ *)
(* attribute guards                                                     *)

Lemma setattr_refused_l : forall l name x h,
  setattr_allowed name = false -> py_setattr (VR l) name x h = (h, RExc "ImmutableError").
Proof. unfold py_setattr. intros l name x h H. rewrite H. reflexivity. Qed.

Lemma setattr_heap_same : forall o name x h h' res,
  setattr_allowed name = false -> py_setattr o name x h = (h', res) -> h' = h /\ exists e, res = RExc e.
Proof.
  unfold py_setattr. intros o name x h h' res Hn H. destruct o as [a|l].
  - inversion H. eauto.
  - rewrite Hn in H. inversion H. eauto.
Qed.

Lemma not_underscore_neq : forall name s, setattr_allowed name = false -> setattr_allowed s = true -> ustr_eqb name s = false.
Proof.
  unfold setattr_allowed. intros [|c t] [|c' t'] H H'; simpl; auto; try discriminate.
  apply N.eqb_eq in H'. subst c'. rewrite H. reflexivity.
Qed.

Lemma delattr_refused_l : forall l h c fs name,
  get h l = Some (NObj c fs) -> assoc name fs = None -> py_delattr (VR l) name h = (h, RExc "AttributeError").
Proof. unfold py_delattr, del_field. intros l h c fs name E A. rewrite E, A. reflexivity. Qed.

(* Proofs/C14Dispatch.v -- the parameter-flow theorems of C14 for the call-site
   table GENERATED from the current source (Gen/CallSites.v).  The table is
   finite: each `..._all` lemma is one kernel evaluation (vm_compute) of a
   boolean check over the whole generated table, lifted to a quantified
   statement with forallb_forall and the chain-invariant lemma of
   Proofs/DispatchFacts.v (so the statements cover call chains of any length,
   recursion included).                                                       *)
From Coq Require Import String List Bool Ascii.
From V Require Import Model.CallTable Model.Dispatch Model.DispatchPinned Gen.CallSites Proofs.DispatchFacts.
Import ListNotations.
Open Scope string_scope.

(* The lemmas are proved for an arbitrary table satisfying the boolean checks (so that the
   kernel never has to unfold the generated table during conversion); the checks themselves
   are evaluated on the generated table at the end of the file.                          *)
Definition expected_entries : list string := [
  "parsing.parse"; "parsing.dict_to_stix2"; "parsing.parse_observable";
  "memory.MemoryStore.__init__"; "memory.MemorySource.__init__"; "memory.MemorySink.__init__";
  "memory.MemoryStore.add"; "memory.MemorySink.add";
  "memory.MemoryStore.load_from_file"; "memory.MemorySource.load_from_file";
  "filesystem.FileSystemSource.get"; "filesystem.FileSystemSource.all_versions"; "filesystem.FileSystemSource.query";
  "filesystem.FileSystemStore.get"; "filesystem.FileSystemStore.all_versions"; "filesystem.FileSystemStore.query";
  "filesystem.FileSystemSink.add"; "filesystem.FileSystemStore.add";
  "environment.Environment.parse"; "workbench.parse"; "workbench.save"].

Definition taxii_reparse : list string :=
  ["taxii.TAXIICollectionSource.all_versions"; "taxii.TAXIICollectionStore.all_versions"].

Definition version_or_none (t : state) : bool :=
  sym_eqb (got t "version") (SArg "version") || sym_eqb (got t "version") (SConst "None").
Definition taxii_weak_ok (E : entry) (t : state) : bool := version_or_none t && interop_ok E t && allow_ok E t.

(* stated over an arbitrary list R and instantiated with (reach T E) by application only:
   the kernel must never be asked to unfold a constant against a term containing reach *)
Definition good_on (E : entry) (R : visited) : bool :=
  forallb (fun x => wellformed (fst x) && (negb (is_terminal (fst x)) || terminal_ok E (fst x))) R.
Definition taxii_weak_on (T : table) (E : entry) (R : visited) : bool :=
  closedb T (map fst R) && state_mem (e_init E) (map fst R)
  && forallb (fun x => wellformed (fst x) && (negb (is_terminal (fst x)) || taxii_weak_ok E (fst x))) R.

Definition in_scope_check (T : table) : bool := forallb (fun E => taxii_entry E || entry_check T E) (entries T).
Definition covered_check (T : table) : bool :=
  forallb (fun n => existsb (fun E => String.eqb (e_name E) n && negb (taxii_entry E)) (entries T)) expected_entries
  && forallb (fun E => existsb (fun x => is_terminal (fst x)) (reach T E)) (entries T).
Definition taxii_check (T : table) : bool :=
  forallb (fun E => negb (taxii_entry E) ||
                    (if smem (e_name E) taxii_reparse then entry_check T E || taxii_weak_on T E (reach T E)
                     else entry_check T E)) (entries T).
Definition site_check (T : table) : bool := parser_core_ok T && id_sites_ok T && embedded_sites_ok T.

Lemma taxii_weak_on_spec : forall T E R, taxii_weak_on T E R = true ->
  forall s, reachable T (e_init E) s -> is_terminal s = true ->
    wellformed s = true /\ In s (map fst R) /\ version_or_none s = true /\ interop_ok E s = true.
Proof.
  intros T E R H s Hr Ht. unfold taxii_weak_on in H.
  apply andb_true_iff in H as [H12 Hg]. apply andb_true_iff in H12 as [Hc Hi].
  apply state_mem_In in Hi. pose proof (closed_invariant T _ _ Hc Hi s Hr) as Hin. split; [|split; [exact Hin|]].
  - apply in_map_iff in Hin as [x [Hx Hinx]]. subst s.
    rewrite forallb_forall in Hg. specialize (Hg x Hinx). apply andb_true_iff in Hg as [Hw _]. exact Hw.
  - apply in_map_iff in Hin as [x [Hx Hinx]]. subst s.
    rewrite forallb_forall in Hg. specialize (Hg x Hinx). apply andb_true_iff in Hg as [_ Hg].
    apply orb_true_iff in Hg as [Hg|Hg]; [rewrite Ht in Hg; discriminate|]. unfold taxii_weak_ok in Hg.
    apply andb_true_iff in Hg as [Hg _]. apply andb_true_iff in Hg as [Hv Hio]. auto.
Qed.

Lemma weak_not_good_on : forall T E R, taxii_weak_on T E R = true -> good_on E R = false ->
  exists x, In x R /\ is_terminal (fst x) = true /\ terminal_ok E (fst x) = false.
Proof.
  intros T E R Hw Hb. unfold taxii_weak_on in Hw. apply andb_true_iff in Hw as [_ Hg]. unfold good_on in Hb.
  induction R as [|y l IH]; simpl in Hb. discriminate.
  simpl in Hg. apply andb_true_iff in Hg as [Hy Hl].
  apply andb_false_iff in Hb as [Hb|Hb].
  - exists y. split. left. reflexivity. apply andb_true_iff in Hy as [Hwf _]. rewrite Hwf in Hb. simpl in Hb.
    apply orb_false_iff in Hb as [Hterm Hok]. apply negb_false_iff in Hterm. auto.
  - destruct (IH Hl Hb) as [x [Hx Hf]]. exists x. split. right. exact Hx. exact Hf.
Qed.

Section AnyTable.
Variable T : table.
Hypothesis in_scope_all0 : in_scope_check T = true.
Hypothesis covered_all0 : covered_check T = true.
Hypothesis taxii_all0 : taxii_check T = true.
Hypothesis site_checks_all0 : site_check T = true.

Lemma in_scope_all : forallb (fun E => taxii_entry E || entry_check T E) (entries T) = true.
Proof. exact in_scope_all0. Qed.

Lemma in_scope_chain : forall E, In E (entries T) -> taxii_entry E = false ->
  forall s, reachable T (e_init E) s ->
    wellformed s = true /\ (is_terminal s = true -> terminal_ok E s = true).
Proof.
  intros E HE Hs. pose proof in_scope_all as H. rewrite forallb_forall in H. specialize (H E HE).
  apply orb_true_iff in H as [H|H]; [rewrite Hs in H; discriminate|].
  exact (entry_check_all_chains T E H).
Qed.

Lemma version_forwarded_pf : forall E, In E (entries T) -> taxii_entry E = false ->
  forall s, reachable T (e_init E) s -> is_terminal s = true -> got s "version" = SArg "version".
Proof.
  intros E HE Hs s Hr Ht. destruct (in_scope_chain E HE Hs s Hr) as [_ H].
  exact (terminal_ok_version E s (H Ht)).
Qed.

Lemma interop_not_from_version_pf : forall E, In E (entries T) -> taxii_entry E = false ->
  forall s, reachable T (e_init E) s -> is_terminal s = true ->
    got s "interoperability" = (if smem "interoperability" (e_own E) then SArg "interoperability" else SConst "False")
    /\ ~ In "arg:version" (roots (got s "interoperability")).
Proof.
  intros E HE Hs s Hr Ht. destruct (in_scope_chain E HE Hs s Hr) as [_ H].
  pose proof (terminal_ok_interop E s (H Ht)) as Hi. split.
  - exact Hi.
  - rewrite Hi. apply interop_expected_not_version.
Qed.

Lemma allow_custom_forwarded_pf : forall E, In E (entries T) -> taxii_entry E = false ->
  forall s, reachable T (e_init E) s -> is_terminal s = true ->
    (forall r, In r (roots (got s "allow_custom")) -> r = "arg:allow_custom" \/ r = "ctor:allow_custom")
    /\ (In "allow_custom" (e_own E) -> got s "allow_custom" = SArg "allow_custom")
    /\ (~ In "allow_custom" (e_own E) -> e_kind E = EDef -> In "allow_custom" (e_ctor E) -> got s "allow_custom" = SCtor "allow_custom").
Proof.
  intros E HE Hs s Hr Ht. destruct (in_scope_chain E HE Hs s Hr) as [_ H].
  destruct (terminal_ok_allow E s (H Ht)) as [Hroots Hexp]. split; [|split].
  - intros r Hin. specialize (Hroots r Hin). simpl in Hroots. destruct Hroots as [<-|[<-|[]]]; auto.
  - intro Hown. apply Hexp. unfold allow_expected.
    apply smem_In in Hown. rewrite Hown. reflexivity.
  - intros Hn Hk Hc. apply Hexp. unfold allow_expected.
    destruct (smem "allow_custom" (e_own E)) eqn:He.
    + apply smem_In in He. contradiction.
    + rewrite Hk. apply smem_In in Hc. rewrite Hc. reflexivity.
Qed.

(* ---- which entry points exist, and that each one reaches the parser ---- *)
Lemma covered_all :
  forallb (fun n => existsb (fun E => String.eqb (e_name E) n && negb (taxii_entry E)) (entries T)) expected_entries = true
  /\ forallb (fun E => existsb (fun x => is_terminal (fst x)) (reach T E)) (entries T) = true.
Proof. apply andb_true_iff. exact covered_all0. Qed.

Lemma entry_points_covered_pf :
  (forall n, In n expected_entries -> exists E, In E (entries T) /\ e_name E = n /\ taxii_entry E = false)
  /\ (forall E, In E (entries T) -> exists s, reachable T (e_init E) s /\ is_terminal s = true).
Proof.
  destruct covered_all as [H1 H2]. split.
  - intros n Hn. rewrite forallb_forall in H1. specialize (H1 n Hn).
    apply existsb_exists in H1 as [E [HE Hc]]. apply andb_true_iff in Hc as [Hc1 Hc2].
    exists E. repeat split; auto. apply String.eqb_eq in Hc1. exact Hc1. apply negb_true_iff. exact Hc2.
  - intros E HE. rewrite forallb_forall in H2. specialize (H2 E HE). simpl in H2.
    apply existsb_exists in H2 as [x [Hx Ht]]. exists (fst x). split; auto. apply reach_reachable. exact Hx.
Qed.

(* ---- the TAXII source / sink / store (in the table, not drivable here) ---- *)
Lemma taxii_all :
  forallb (fun E => negb (taxii_entry E) ||
                    (if smem (e_name E) taxii_reparse then entry_check T E || taxii_weak_on T E (reach T E)
                     else entry_check T E)) (entries T) = true.
Proof. exact taxii_all0. Qed.

Lemma taxii_version_forwarded_pf : forall E, In E (entries T) -> taxii_entry E = true ->
  forall s, reachable T (e_init E) s -> is_terminal s = true ->
    (~ In (e_name E) taxii_reparse -> got s "version" = SArg "version")
    /\ (got s "version" = SArg "version" \/ got s "version" = SConst "None")
    /\ ~ In "arg:version" (roots (got s "interoperability")).
Proof.
  intros E HE Hs s Hr Ht. pose proof taxii_all as H. rewrite forallb_forall in H. specialize (H E HE).
  apply orb_true_iff in H as [H|H]; [rewrite Hs in H; discriminate|].
  assert (entry_check T E = true ->
          (~ In (e_name E) taxii_reparse -> got s "version" = SArg "version")
          /\ (got s "version" = SArg "version" \/ got s "version" = SConst "None")
          /\ ~ In "arg:version" (roots (got s "interoperability"))) as Hfull.
  { intro Hc. destruct (entry_check_all_chains T E Hc s Hr) as [_ Hok]. specialize (Hok Ht). split; [|split].
    - intros _. exact (terminal_ok_version E s Hok).
    - left. exact (terminal_ok_version E s Hok).
    - rewrite (terminal_ok_interop E s Hok). apply interop_expected_not_version. }
  destruct (smem (e_name E) taxii_reparse) eqn:Hm.
  - apply orb_true_iff in H as [H|H]; [exact (Hfull H)|].
    destruct (taxii_weak_on_spec T E _ H s Hr Ht) as [_ [_ [Hv Hio]]]. split; [|split].
    + intro Hn. exfalso. apply Hn. apply smem_In. exact Hm.
    + unfold version_or_none in Hv. apply orb_true_iff in Hv as [Hv|Hv]; apply sym_eqb_eq in Hv; auto.
    + apply sym_eqb_eq in Hio. rewrite Hio. apply interop_expected_not_version.
  - exact (Hfull H).
Qed.

(* ---- the parser's own use of its parameters, and the id check ---- *)
Lemma site_checks_all : parser_core_ok T = true /\ id_sites_ok T = true /\ embedded_sites_ok T = true.
Proof.
  pose proof site_checks_all0 as H. unfold site_check in H.
  apply andb_true_iff in H as [H H3]. apply andb_true_iff in H as [H1 H2]. auto.
Qed.

Lemma is_param_eq : forall p e, is_param p e = true -> e = FromParam p.
Proof. intros p e H. destruct e; try discriminate. simpl in H. apply String.eqb_eq in H. congruence. Qed.

Lemma site_binds_param : forall s q p, site_binds s q (is_param p) = true -> assoc q (s_binds s) = Some (FromParam p).
Proof.
  intros s q p H. unfold site_binds in H. destruct (assoc q (s_binds s)); try discriminate.
  apply is_param_eq in H. congruence.
Qed.

Lemma parser_uses_its_parameters_pf : forall f, In f terminal_fns ->
  (exists sg, find_sig T f = Some sg /\ In "version" (f_idioms sg)) /\
  forall s, In s (t_sites T) -> s_caller s = f ->
    (s_callee s = "registry.class_for_type" -> assoc "stix_version" (s_binds s) = Some (FromParam "version")) /\
    (s_callee s = "<obj_class>" ->
       assoc "allow_custom" (s_binds s) = Some (FromParam "allow_custom") /\
       assoc "interoperability" (s_binds s) = Some (FromParam "interoperability")).
Proof.
  intros f Hf. destruct site_checks_all as [H _]. unfold parser_core_ok in H.
  rewrite forallb_forall in H. specialize (H f Hf).
  apply andb_true_iff in H as [H123 H4]. apply andb_true_iff in H123 as [H12 _]. apply andb_true_iff in H12 as [H1 _].
  split.
  - destruct (find_sig T f) as [sg|]; try discriminate. exists sg. split; auto. apply smem_In. exact H4.
  - intros s Hs Hc. rewrite forallb_forall in H1. specialize (H1 s Hs).
    rewrite Hc in H1. rewrite String.eqb_refl in H1. simpl in H1. split; intro Hcal; rewrite Hcal in H1; simpl in H1.
    + apply site_binds_param. exact H1.
    + apply andb_true_iff in H1 as [Ha Hb]. split; apply site_binds_param; assumption.
Qed.

Lemma id_check_switch_unchanged_pf : forall s, In s (t_sites T) ->
  (s_callee s = "properties._check_uuid" ->
     assoc "spec_version" (s_binds s) = Some (FromParam "spec_version") /\
     assoc "interoperability" (s_binds s) = Some (FromParam "interoperability")) /\
  (s_callee s = "properties._validate_id" ->
     assoc "spec_version" (s_binds s) = Some (FromAttr "spec_version") /\
     (assoc "interoperability" (s_binds s) = Some (FromParam "interoperability") \/ assoc "interoperability" (s_binds s) = None)).
Proof.
  intros s Hs. destruct site_checks_all as [_ [H _]]. unfold id_sites_ok in H.
  apply andb_true_iff in H as [H _]. rewrite forallb_forall in H. specialize (H s Hs). split; intro Hc; rewrite Hc in H; simpl in H.
  - apply andb_true_iff in H as [Ha Hb]. split; apply site_binds_param; assumption.
  - apply andb_true_iff in H as [Ha Hb]. split.
    + unfold site_binds in Ha. destruct (assoc "spec_version" (s_binds s)) as [e|]; try discriminate.
      destruct e; try discriminate. apply String.eqb_eq in Ha. congruence.
    + destruct (assoc "interoperability" (s_binds s)) as [e|]; auto. left. apply is_param_eq in Hb. congruence.
Qed.

(* ---- concrete arguments: the strictness switches do not read the version argument ---- *)
Lemma own_allow_not_version : forall r, In r own_allow -> r <> "arg:version".
Proof. intros r [<-|[<-|[]]]; discriminate. Qed.

Lemma naming_version_never_relaxes_pf : forall E, In E (entries T) -> taxii_entry E = false ->
  forall s, reachable T (e_init E) s -> is_terminal s = true ->
  forall cargs v v',
    eval_sym E (("arg:version", v) :: cargs) (got s "interoperability")
      = eval_sym E (("arg:version", v') :: cargs) (got s "interoperability")
    /\ eval_sym E (("arg:version", v) :: cargs) (got s "allow_custom")
      = eval_sym E (("arg:version", v') :: cargs) (got s "allow_custom").
Proof.
  intros E HE Hs s Hr Ht cargs v v'. destruct (in_scope_chain E HE Hs s Hr) as [_ H]. specialize (H Ht). split.
  - apply eval_sym_version_independent. rewrite (terminal_ok_interop E s H). apply interop_expected_not_version.
  - apply eval_sym_version_independent. destruct (terminal_ok_allow E s H) as [Hroots _].
    intro Hin. apply (own_allow_not_version _ (Hroots _ Hin)). reflexivity.
Qed.

(* the triple handed to the parser, on concrete arguments, is the entry point's own *)
Lemma same_strictness_pf : forall E, In E (entries T) -> taxii_entry E = false ->
  forall s, reachable T (e_init E) s -> is_terminal s = true ->
  forall cargs,
    eval_sym E cargs (got s "version") = eval_sym E cargs (SArg "version")
    /\ eval_sym E cargs (got s "interoperability")
       = (if smem "interoperability" (e_own E) then eval_sym E cargs (SArg "interoperability") else PBool false).
Proof.
  intros E HE Hs s Hr Ht cargs. destruct (in_scope_chain E HE Hs s Hr) as [_ H]. specialize (H Ht). split.
  - rewrite (terminal_ok_version E s H). reflexivity.
  - rewrite (terminal_ok_interop E s H). unfold interop_expected.
    destruct (smem "interoperability" (e_own E)); reflexivity.
Qed.

End AnyTable.

(* ---- the generated table: the four checks, each one kernel evaluation ---- *)
Definition Tgen : table :=
  mkTable signatures callsites attr_assigns forwarders components class_bases aliases workbench_env.

Lemma gen_in_scope : in_scope_check Tgen = true.
Proof. vm_compute. reflexivity. Qed.
Lemma gen_covered : covered_check Tgen = true.
Proof. vm_compute. reflexivity. Qed.
Lemma gen_taxii : taxii_check Tgen = true.
Proof. vm_compute. reflexivity. Qed.
Lemma gen_sites : site_check Tgen = true.
Proof. vm_compute. reflexivity. Qed.

(* ---- TAXII: the all_versions -> query call site is the ONLY deviation ---- *)
Definition all_entries_check (T : table) : bool := forallb (fun E => entry_check T E) (entries T).

Lemma all_entries_forward : forall T, all_entries_check T = true ->
  forall E, In E (entries T) -> forall s, reachable T (e_init E) s -> is_terminal s = true ->
    got s "version" = SArg "version" /\ ~ In "arg:version" (roots (got s "interoperability")).
Proof.
  intros T H E HE s Hr Ht. unfold all_entries_check in H. rewrite forallb_forall in H. specialize (H E HE).
  destruct (entry_check_all_chains T E H s Hr) as [_ Hok]. specialize (Hok Ht). split.
  - exact (terminal_ok_version E s Hok).
  - rewrite (terminal_ok_interop E s Hok). apply interop_expected_not_version.
Qed.

Lemma gen_single_site_repair : all_entries_check (with_query_version Tgen) = true.
Proof. vm_compute. reflexivity. Qed.

Lemma gen_repair_keeps_entries : map e_name (entries (with_query_version Tgen)) = map e_name (entries Tgen).
Proof. vm_compute. reflexivity. Qed.

(* ---- the defective variant (frozen excerpt of the pinned table) ---- *)
Definition witness_check (T : table) (n : string) (P : state -> bool) : bool :=
  match find_entry T n with
  | Some E => existsb (fun x => P (fst x)) (reach T E)
  | None => false
  end.

Lemma witness_check_spec : forall T n P, witness_check T n P = true ->
  exists E s, In E (entries T) /\ e_name E = n /\ reachable T (e_init E) s /\ P s = true.
Proof.
  intros T n P H. unfold witness_check in H. destruct (find_entry T n) as [E|] eqn:Hf; [|discriminate].
  unfold find_entry in Hf. apply find_some in Hf as [H1 H2]. apply String.eqb_eq in H2.
  apply existsb_exists in H as [x [Hx HP]]. exists E, (fst x). repeat split; auto.
  apply reach_reachable. exact Hx.
Qed.

Definition positional_defect_state (s : state) : bool :=
  is_terminal s && sym_eqb (got s "interoperability") (SArg "version") && sym_eqb (got s "version") (SConst "None").

Lemma pinned_check : witness_check pinned_defective "memory.MemorySink.add" positional_defect_state = true.
Proof. vm_compute. reflexivity. Qed.

Lemma store_call_sites_positional_refuted_pf :
  exists E s, In E (entries pinned_defective) /\ e_name E = "memory.MemorySink.add"
    /\ reachable pinned_defective (e_init E) s /\ is_terminal s = true
    /\ got s "interoperability" = SArg "version" /\ got s "version" = SConst "None".
Proof.
  destruct (witness_check_spec _ _ _ pinned_check) as [E [s [HE [Hn [Hr HP]]]]].
  unfold positional_defect_state in HP. apply andb_true_iff in HP as [HP H3]. apply andb_true_iff in HP as [H1 H2].
  apply sym_eqb_eq in H2, H3. exists E, s. repeat split; auto.
Qed.

(* frozen excerpt of the TAXII source: all_versions reaches the parser once with version None *)
Definition unversioned_state (s : state) : bool :=
  is_terminal s && sym_eqb (got s "version") (SConst "None").

Lemma pinned_taxii_check : witness_check pinned_taxii "taxii.TAXIICollectionSource.all_versions" unversioned_state = true.
Proof. vm_compute. reflexivity. Qed.

Lemma taxii_all_versions_first_parse_unversioned_pf :
  exists E s, In E (entries pinned_taxii) /\ e_name E = "taxii.TAXIICollectionSource.all_versions"
    /\ reachable pinned_taxii (e_init E) s /\ is_terminal s = true /\ got s "version" = SConst "None".
Proof.
  destruct (witness_check_spec _ _ _ pinned_taxii_check) as [E [s [HE [Hn [Hr HP]]]]].
  unfold unversioned_state in HP. apply andb_true_iff in HP as [H1 H2]. apply sym_eqb_eq in H2.
  exists E, s. repeat split; auto.
Qed.

Lemma pinned_taxii_repaired : all_entries_check (with_query_version pinned_taxii) = true.
Proof. vm_compute. reflexivity. Qed.

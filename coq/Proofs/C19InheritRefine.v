(* Proofs/C19InheritRefine.v -- `custom types inherit`, the part stated with the
   schema family's refinement check (Spec/SchemaRefine.v): a builder table
   refines itself, and the side condition `world_refines` of the generic C02
   theorem is preserved when a fresh class and its registry row are added on
   both sides; a name accepted under the repaired recognisers is a legal type
   name in the schema family's sense (Spec/StixValid.valid_type_name).
   Only definitions of the schema family are used; none of its proofs.       *)
From Coq Require Import NArith ZArith List String Bool Arith Lia.
From V Require Import Base.UString Base.Json Model.SchemaTypes Model.PyBase Spec.StixValid Spec.SchemaRefine
                      Model.RegistryBuilder Proofs.C19Inherit.
From V Require Model.Registry Spec.NamingSpec Proofs.NamingFacts.
Import ListNotations.

Lemma find_slot_is_slot_named : forall c n, find_slot c n = slot_named c n.
Proof. reflexivity. Qed.

(* ---------------- a builder table refines itself (Spec/SchemaRefine.v) ---------------- *)

Definition slot_kind_ok (s : slot) : bool := kind_refines (skind s) (skind s).

Lemma ver_eqb_refl : forall v, ver_eqb v v = true.
Proof. destruct v; reflexivity. Qed.

Lemma standard_kinds_ok : forall bv k V n xt s, In s (standard_slots bv k V n xt) -> slot_kind_ok s = true.
Proof.
  intros bv k V n xt s I. unfold slot_kind_ok.
  destruct bv as [[|]], k, V; simpl in I; try contradiction;
    try (destruct xt as [x|]; simpl in I; try contradiction);
    repeat (destruct I as [<- | I]; [simpl; rewrite ?ueqb_refl, ?ver_eqb_refl; try reflexivity|]); try contradiction.
Qed.

Lemma always_present_of_requires : forall c s, spec_requires c s = true -> always_present s = true.
Proof.
  intros c s H. unfold spec_requires, always_present in *.
  destruct (sreq s); simpl in *; auto. destruct (sdef s); auto.
Qed.

Lemma flat_map_all_nil : forall {A B} (f : A -> list B) l, (forall x, In x l -> f x = []) -> flat_map f l = [].
Proof.
  induction l as [|a l IH]; simpl; intros H; auto.
  rewrite (H a (or_introl eq_refl)), IH; auto.
Qed.

Lemma flat_map_nil_inv : forall {A B} (f : A -> list B) l x, flat_map f l = [] -> In x l -> f x = [].
Proof.
  induction l as [|a l IH]; simpl; intros x H Hin; [tauto|]. apply app_eq_nil in H. destruct H as [H1 H2].
  destruct Hin as [-> | Hin]; auto.
Qed.

Lemma self_refines : forall c,
  ccons c = [] -> cinit c = INone -> NoDup (names (cslots c)) -> forallb slot_kind_ok (cslots c) = true ->
  class_refine_failures c c = [].
Proof.
  intros c HC HI ND HK. unfold class_refine_failures.
  assert (HH : header_ok c c = true).
  { unfold header_ok. rewrite ver_eqb_refl. destruct (ctype c) as [t|]; simpl; rewrite ?ueqb_refl; destruct (cfamily c); reflexivity. }
  rewrite HH, HC, HI. simpl.
  rewrite !flat_map_all_nil; auto.
  - intros s' I. destruct (spec_requires c s') eqn:R; simpl; auto.
    unfold find_slot. rewrite (find_self _ s' ND I). rewrite (always_present_of_requires c s' R). reflexivity.
  - intros s I. unfold find_slot. rewrite (find_self _ s ND I).
    rewrite forallb_forall in HK. specialize (HK s I). unfold slot_kind_ok in HK. rewrite HK. reflexivity.
Qed.

Theorem custom_refines_itself_lemma : forall bv k V n xt user cn,
  forallb slot_kind_ok user = true ->
  class_refine_failures (custom_cls bv k V n xt user cn) (custom_cls bv k V n xt user cn) = [].
Proof.
  intros. apply self_refines; try reflexivity.
  - apply custom_slots_NoDup_lemma.
  - apply forallb_forall. intros s I. cbn [custom_cls cslots] in I. apply custom_slots_In_lemma in I. destruct I as [I | I].
    + eapply standard_kinds_ok. exact I.
    + rewrite forallb_forall in H. apply H. exact I.
Qed.

(* ---------------- world_refines is preserved by adding a fresh class on both sides ---------------- *)

Lemma pairs_eqb_snoc : forall a b k v, pairs_eqb a b = true -> pairs_eqb (a ++ [(k, v)]) (b ++ [(k, v)]) = true.
Proof.
  induction a as [|[k1 v1] a IH]; destruct b as [|[k2 v2] b]; simpl; intros k v H; try discriminate.
  - rewrite !ueqb_refl. reflexivity.
  - apply andb_true_iff in H. destruct H as [H1 H2]. rewrite H1. simpl. apply IH. exact H2.
Qed.

Lemma registry_failures_nil : forall v a b, registry_failures v a b = [] <->
  pairs_eqb (robjects a) (robjects b) = true /\ pairs_eqb (robservables a) (robservables b) = true /\
  pairs_eqb (rextensions a) (rextensions b) = true /\ pairs_eqb (rmarkings a) (rmarkings b) = true.
Proof.
  intros. unfold registry_failures.
  destruct (pairs_eqb (robjects a) (robjects b)), (pairs_eqb (robservables a) (robservables b)),
           (pairs_eqb (rextensions a) (rextensions b)), (pairs_eqb (rmarkings a) (rmarkings b));
    simpl; split; intros H; try discriminate; auto; destruct H as [? [? [? ?]]]; discriminate.
Qed.

Lemma registry_failures_add : forall v k a b n id,
  registry_failures v a b = [] -> registry_failures v (reg_add k a n id) (reg_add k b n id) = [].
Proof.
  intros v k a b n id H. apply registry_failures_nil in H. destruct H as [H1 [H2 [H3 H4]]].
  apply registry_failures_nil. destruct k; simpl; repeat split; auto; apply pairs_eqb_snoc; auto.
Qed.

(* the registered name must be a legal type name for the specification side (objects, observables) *)
Definition name_ok_for (k : ckind) (n : ustring) : bool :=
  match k with CObject | CObservable => StixValid.valid_type_name n | _ => true end.

Lemma forallb_snoc : forall {A} (f : A -> bool) l x, forallb f (l ++ [x]) = forallb f l && f x.
Proof. intros. rewrite forallb_app. simpl. rewrite andb_true_r. reflexivity. Qed.

Lemma reg_names_ok_add : forall k r n id, reg_names_ok r = true -> name_ok_for k n = true -> reg_names_ok (reg_add k r n id) = true.
Proof.
  intros k r n id H N. unfold reg_names_ok in *. apply andb_true_iff in H. destruct H as [H1 H2].
  destruct k; simpl in *; rewrite ?forallb_snoc, ?H1, ?H2; simpl; rewrite ?N; reflexivity.
Qed.

Lemma spec_names_failures_nil : forall sp, spec_names_failures sp = [] <-> reg_names_ok (wreg20 sp) = true /\ reg_names_ok (wreg21 sp) = true.
Proof.
  intros. unfold spec_names_failures. destruct (reg_names_ok (wreg20 sp)), (reg_names_ok (wreg21 sp)); simpl; split; intros H;
    try discriminate; auto; destruct H; discriminate.
Qed.

Theorem world_refines_add_lemma : forall w sp k V n c c',
  world_refines w sp = true ->
  find_class (wclasses sp) (cid c) = None -> cid c' = cid c ->
  class_refine_failures c c' = [] ->
  name_ok_for k n = true ->
  world_refines (world_add w k V n c) (world_add sp k V n c') = true.
Proof.
  intros w sp k V n c c' H F E R NK.
  unfold world_refines, refine_failures in *.
  match type of H with match ?a ++ (?b ++ ?c2) ++ ?d with _ => _ end = true =>
    destruct (a ++ (b ++ c2) ++ d) eqn:X; try discriminate end. clear H.
  apply app_eq_nil in X. destruct X as [X1 X2]. apply app_eq_nil in X2. destruct X2 as [X2 X4].
  apply app_eq_nil in X2. destruct X2 as [X2 X3].
  assert (G : flat_map (fun lc => match find_class (wclasses (world_add sp k V n c')) (cid lc) with
                                  | Some sc => class_refine_failures lc sc
                                  | None => [FNoClass (cid lc)]
                                  end) (wclasses (world_add w k V n c)) = []).
  { cbn [world_add wclasses]. rewrite flat_map_app.
    match goal with |- ?a ++ _ = [] => assert (P1 : a = []) end.
    { apply flat_map_all_nil. intros lc I. pose proof (flat_map_nil_inv _ _ lc X1 I) as Y. simpl in Y.
      destruct (find_class (wclasses sp) (cid lc)) as [sc|] eqn:Fc; [|discriminate].
      rewrite (find_class_app_some _ _ _ _ Fc). exact Y. }
    rewrite P1. simpl. rewrite app_nil_r. rewrite (find_class_app_none _ _ _ F). simpl. rewrite E, ueqb_refl. exact R. }
  rewrite G.
  assert (R20 : registry_failures V20 (wreg20 (world_add w k V n c)) (wreg20 (world_add sp k V n c')) = []).
  { destruct V; simpl; auto. rewrite E. apply registry_failures_add. exact X2. }
  assert (R21 : registry_failures V21 (wreg21 (world_add w k V n c)) (wreg21 (world_add sp k V n c')) = []).
  { destruct V; simpl; auto. rewrite E. apply registry_failures_add. exact X3. }
  assert (SN : spec_names_failures (world_add sp k V n c') = []).
  { apply spec_names_failures_nil in X4. destruct X4 as [A B]. apply spec_names_failures_nil.
    destruct V; simpl; split; auto; apply reg_names_ok_add; auto. }
  rewrite R20, R21, SN. reflexivity.
Qed.

(* ---------------- the naming rule gives the schema family its `valid_type_name` ---------------- *)

Lemma spec_type_name_valid : forall V n, NamingSpec.spec_type_name V n -> StixValid.valid_type_name n = true.
Proof.
  intros V n [F [L _]]. unfold StixValid.valid_type_name. apply andb_true_iff. split.
  - apply forallb_forall. intros c I. rewrite Forall_forall in F. specialize (F c I).
    unfold NamingSpec.type_char, NamingSpec.lower_letter, NamingSpec.digit in F.
    unfold PyBase.is_lower, PyBase.is_digit.
    destruct F as [[A B] | [[A B] | ->]].
    + apply N.leb_le in A. apply N.leb_le in B. rewrite A, B. reflexivity.
    + apply N.leb_le in A. apply N.leb_le in B. rewrite A, B. simpl. rewrite orb_true_r. reflexivity.
    + rewrite N.eqb_refl. apply orb_true_r.
  - destruct n; simpl in *; [lia | reflexivity].
Qed.

(* a registration that succeeded under the repaired recognisers carries a name the schema family accepts *)
Lemma registered_name_ok_lemma : forall vt r k V n xt user cn r',
  NamingFacts.strict_type_rule vt (version_of_ver V) ->
  Registry.decorate vt r (regreq_of k V n xt user cn) = (r', Registry.Done) ->
  name_ok_for k n = true.
Proof.
  intros vt r k V n xt user cn r' S D.
  destruct k; try reflexivity; simpl.
  - destruct (Registry.validate_type vt (version_of_ver V) n) eqn:E.
    + apply (NamingFacts.type_name_rule_lemma vt _ _ S) in E. eapply spec_type_name_valid. exact E.
    + rewrite (NamingFacts.name_check_refused_lemma vt r (regreq_of CObject V n xt user cn)) in D by exact E. discriminate.
  - destruct (Registry.validate_type vt (version_of_ver V) n) eqn:E.
    + apply (NamingFacts.type_name_rule_lemma vt _ _ S) in E. eapply spec_type_name_valid. exact E.
    + rewrite (NamingFacts.name_check_refused_lemma vt r (regreq_of CObservable V n xt user cn)) in D by exact E. discriminate.
Qed.

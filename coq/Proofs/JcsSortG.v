(* Proofs/JcsSortG.v -- insertion sort by a key function (the untagged view of
   Model.Jcs.isort) and its facts: bridge to isort, permutation, sortedness,
   stability on sorted input, uniqueness under distinct keys, independence from
   the representation of the key, commutation with payload maps.               *)
From Coq Require Import String NArith ZArith List Bool Lia Sorted Permutation.
From V Require Import Base.UString Base.Json Model.JcsText Model.Jcs Proofs.JcsSortFacts.
Import ListNotations.
Open Scope N_scope.

Section SortG.
  Context {A : Type}.
  Variable g : A -> list N.

  Fixpoint insg (a : A) (l : list A) : list A :=
    match l with
    | [] => [a]
    | y :: r => if units_leb (g a) (g y) then a :: y :: r else y :: insg a r
    end.

  Fixpoint sortg (l : list A) : list A :=
    match l with
    | [] => []
    | a :: r => insg a (sortg r)
    end.

  Definition tag (a : A) : list N * A := (g a, a).

  Lemma insert_by_tag : forall a l, insert_by (g a) a (map tag l) = map tag (insg a l).
  Proof.
    induction l as [|y r IH]; simpl; [reflexivity|].
    destruct (units_leb (g a) (g y)); simpl; [reflexivity|]. rewrite IH. reflexivity.
  Qed.

  Lemma isort_tag : forall l, isort (map tag l) = map tag (sortg l).
  Proof.
    induction l as [|a r IH]; simpl; [reflexivity|]. rewrite IH. apply insert_by_tag.
  Qed.

  Lemma map_snd_tag : forall l, map snd (map tag l) = l.
  Proof. induction l; simpl; [reflexivity|]. f_equal. assumption. Qed.

  Lemma map_fst_tag : forall l, map fst (map tag l) = map g l.
  Proof. induction l; simpl; [reflexivity|]. f_equal. assumption. Qed.

  Lemma sortg_perm : forall l, Permutation (sortg l) l.
  Proof.
    intro l. rewrite <- (map_snd_tag (sortg l)). rewrite <- (map_snd_tag l) at 2.
    apply Permutation_map. rewrite <- isort_tag. apply isort_perm.
  Qed.

  Lemma sortg_In : forall l x, In x (sortg l) <-> In x l.
  Proof.
    intros l x. split; intro H.
    - eapply Permutation_in; [apply sortg_perm|exact H].
    - eapply Permutation_in; [apply Permutation_sym, sortg_perm|exact H].
  Qed.

  Lemma sortg_Forall : forall (P : A -> Prop) l, Forall P l -> Forall P (sortg l).
  Proof. intros P l H. eapply Permutation_Forall; [apply Permutation_sym, sortg_perm|exact H]. Qed.

  Definition gle (a b : A) : Prop := units_leb (g a) (g b) = true.

  Lemma insg_perm : forall a l, Permutation (insg a l) (a :: l).
  Proof.
    induction l as [|y r IH]; simpl; auto. destruct (units_leb (g a) (g y)); auto.
    eapply perm_trans; [apply perm_skip; exact IH|apply perm_swap].
  Qed.

  Lemma insg_sorted : forall a l, StronglySorted gle l -> StronglySorted gle (insg a l).
  Proof.
    induction l as [|y r IH]; simpl; intro H.
    - constructor; constructor.
    - inversion H as [|? ? Hs Hf]; subst. destruct (units_leb (g a) (g y)) eqn:E.
      + constructor; auto. constructor; [exact E|].
        eapply Forall_impl; [|exact Hf]. intros z Hz. unfold gle in *. eapply units_leb_trans; eauto.
      + constructor; [apply IH; exact Hs|].
        apply (Permutation_Forall (Permutation_sym (insg_perm a r))). constructor; auto.
        unfold gle. destruct (units_leb_total (g a) (g y)) as [H1|H1]; [congruence|exact H1].
  Qed.

  Lemma sortg_sorted : forall l, StronglySorted gle (sortg l).
  Proof. induction l as [|a r IH]; simpl; [constructor|]. apply insg_sorted. exact IH. Qed.

  Lemma sortg_id : forall l, StronglySorted gle l -> sortg l = l.
  Proof.
    induction l as [|a r IH]; simpl; intro H; auto.
    inversion H as [|? ? Hs Hf]; subst. rewrite IH by exact Hs.
    destruct r as [|y r]; simpl; auto. inversion Hf; subst. unfold gle in H2. rewrite H2. reflexivity.
  Qed.

  Lemma sortg_idem : forall l, sortg (sortg l) = sortg l.
  Proof. intro l. apply sortg_id. apply sortg_sorted. Qed.

  Lemma sortg_perm_unique : forall l1 l2, Permutation l1 l2 -> NoDup (map g l1) -> sortg l1 = sortg l2.
  Proof.
    intros l1 l2 Hp Hn.
    assert (E : isort (map tag l1) = isort (map tag l2)).
    { apply isort_perm_unique; [apply Permutation_map; exact Hp|]. rewrite map_fst_tag. exact Hn. }
    rewrite !isort_tag in E. apply (f_equal (map snd)) in E. rewrite !map_snd_tag in E. exact E.
  Qed.
End SortG.

(* the order depends only on the comparisons between keys *)
Lemma sortg_ext : forall (A : Type) (g1 g2 : A -> list N) (P : A -> Prop),
  (forall a b, P a -> P b -> units_leb (g1 a) (g1 b) = units_leb (g2 a) (g2 b)) ->
  forall l, Forall P l -> sortg g1 l = sortg g2 l.
Proof.
  intros A g1 g2 P Hagree.
  assert (Hins : forall a l, P a -> Forall P l -> insg g1 a l = insg g2 a l).
  { intros a l Pa. induction l as [|y r IH]; intro F; simpl; [reflexivity|].
    inversion F; subst. rewrite (Hagree a y Pa H1). rewrite IH by assumption. reflexivity. }
  induction l as [|a r IH]; intro F; simpl; [reflexivity|].
  inversion F; subst. rewrite <- IH by assumption. apply Hins; [assumption|].
  apply sortg_Forall. assumption.
Qed.

(* sorting commutes with a map that keeps the keys *)
Lemma sortg_map : forall (A B : Type) (g : B -> list N) (h : A -> B) (l : list A),
  sortg g (map h l) = map h (sortg (fun a => g (h a)) l).
Proof.
  intros A B g h.
  assert (Hins : forall a l, insg g (h a) (map h l) = map h (insg (fun a => g (h a)) a l)).
  { intros a l. induction l as [|y r IH]; simpl; [reflexivity|].
    destruct (units_leb (g (h a)) (g (h y))); simpl; [reflexivity|]. rewrite IH. reflexivity. }
  induction l as [|a r IH]; simpl; [reflexivity|]. rewrite IH. apply Hins.
Qed.

Lemma sortg_key_ext : forall (A : Type) (g1 g2 : A -> list N), (forall a, g1 a = g2 a) ->
  forall l, sortg g1 l = sortg g2 l.
Proof.
  intros A g1 g2 H l. apply (sortg_ext A g1 g2 (fun _ => True)).
  - intros a b _ _. rewrite !H. reflexivity.
  - apply Forall_forall. auto.
Qed.

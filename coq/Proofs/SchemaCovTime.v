(* Proofs/SchemaCovTime.v -- C02 coverage extension, timestamps compared as instants (QLt / QLe of the
   co-constraint language): the text the library writes for a stored instant (C15 model,
   Model/Timestamp.v:format) is read back by the specification's strict reader
   (Model/PyBase.v:parse_ts_strict, Spec/StixValid.v:instant_of_text) as that very instant.  So the
   order the library sees on its stored instants is the order the specification sees on the
   serialized texts.                                                                              *)
From Coq Require Import NArith ZArith List String Bool Lia.
From V Require Import Base.UString Base.Json Model.SchemaTypes Model.PyBase Spec.StixValid Proofs.SchemaTime.
From V Require Model.Calendar Model.Timestamp Spec.TimestampSpec Proofs.CalendarFacts Proofs.TimestampFacts Proofs.C15Proofs.
Import ListNotations.

Module T := Timestamp.
Module C := Calendar.
Module TS := TimestampSpec.
Module TF := TimestampFacts.
Module CP := C15Proofs.
Module CF := CalendarFacts.

Local Open Scope Z_scope.

(* ---- the two day-number formulas agree ---- *)
Lemma dby_split y' : 0 <= y' ->
  (y' / 400) * 146097 + (y' - (y' / 400) * 400) * 365 + (y' - (y' / 400) * 400) / 4 - (y' - (y' / 400) * 400) / 100
  = C.days_before_year (y' + 1).
Proof.
  intros Hy. set (era := y' / 400). set (yoe := y' - era * 400).
  assert (Hyoe : 0 <= yoe < 400).
  { unfold yoe, era. pose proof (Z.div_mod y' 400 ltac:(lia)). pose proof (Z.mod_pos_bound y' 400 ltac:(lia)). lia. }
  replace (y' + 1) with ((yoe + 1) + 400 * era) by (unfold yoe; lia).
  rewrite CF.days_before_year_period. unfold C.days_before_year.
  replace (yoe + 1 - 1) with yoe by lia.
  rewrite (Z.div_small yoe 400) by lia. lia.
Qed.

Lemma hinnant_eq y m d : 1 <= y -> 1 <= m <= 12 -> days_of_civil y m d = C.days_of_civil y m d.
Proof.
  intros Hy Hm. unfold days_of_civil. cbv zeta.
  assert (M : m = 1 \/ m = 2 \/ m = 3 \/ m = 4 \/ m = 5 \/ m = 6 \/ m = 7 \/ m = 8 \/ m = 9 \/ m = 10 \/ m = 11 \/ m = 12) by lia.
  unfold C.days_of_civil, C.days_before_month.
  assert (Low : forall mm, mm <= 2 -> (mm + 9) mod 12 = mm + 9 -> m = mm ->
                (153 * (mm + 9) + 2) / 5 = 306 + C.cum_days mm ->
                (let y' := if m <=? 2 then y - 1 else y in
                 let era := (if 0 <=? y' then y' else y' - 399) / 400 in
                 let yoe := y' - era * 400 in
                 let mp := (m + 9) mod 12 in
                 let doy := (153 * mp + 2) / 5 + d - 1 in
                 let doe := yoe * 365 + yoe / 4 - yoe / 100 + doy in
                 era * 146097 + doe - 306) =
                C.days_before_year y + (C.cum_days m + (if (2 <? m) && C.is_leap y then 1 else 0)) + (d - 1)).
  { intros mm Hmm Hmp -> Hc. cbv zeta.
    replace (mm <=? 2) with true by (symmetry; apply Z.leb_le; lia).
    replace (2 <? mm) with false by (symmetry; apply Z.ltb_ge; lia). cbn [andb].
    replace (0 <=? y - 1) with true by (symmetry; apply Z.leb_le; lia).
    rewrite Hmp, Hc. pose proof (dby_split (y - 1) ltac:(lia)) as D. replace (y - 1 + 1) with y in D by lia. lia. }
  assert (High : forall mm, 2 < mm -> (mm + 9) mod 12 = mm - 3 -> m = mm ->
                (153 * (mm - 3) + 2) / 5 = C.cum_days mm - 59 ->
                (let y' := if m <=? 2 then y - 1 else y in
                 let era := (if 0 <=? y' then y' else y' - 399) / 400 in
                 let yoe := y' - era * 400 in
                 let mp := (m + 9) mod 12 in
                 let doy := (153 * mp + 2) / 5 + d - 1 in
                 let doe := yoe * 365 + yoe / 4 - yoe / 100 + doy in
                 era * 146097 + doe - 306) =
                C.days_before_year y + (C.cum_days m + (if (2 <? m) && C.is_leap y then 1 else 0)) + (d - 1)).
  { intros mm Hmm Hmp -> Hc. cbv zeta.
    replace (mm <=? 2) with false by (symmetry; apply Z.leb_gt; lia).
    replace (2 <? mm) with true by (symmetry; apply Z.ltb_lt; lia). cbn [andb].
    replace (0 <=? y) with true by (symmetry; apply Z.leb_le; lia).
    rewrite Hmp, Hc. pose proof (dby_split y ltac:(lia)) as D. rewrite CF.year_length in D.
    destruct (C.is_leap y); lia. }
  destruct M as [M|[M|[M|[M|[M|[M|[M|[M|[M|[M|[M|M]]]]]]]]]]].
  - apply (Low 1); auto; try lia; reflexivity.
  - apply (Low 2); auto; try lia; reflexivity.
  - apply (High 3); auto; try lia; reflexivity.
  - apply (High 4); auto; try lia; reflexivity.
  - apply (High 5); auto; try lia; reflexivity.
  - apply (High 6); auto; try lia; reflexivity.
  - apply (High 7); auto; try lia; reflexivity.
  - apply (High 8); auto; try lia; reflexivity.
  - apply (High 9); auto; try lia; reflexivity.
  - apply (High 10); auto; try lia; reflexivity.
  - apply (High 11); auto; try lia; reflexivity.
  - apply (High 12); auto; try lia; reflexivity.
Qed.

(* ---- digit texts ---- *)
Lemma hexdigit_val_dchar d : TF.isdigit d -> Z.of_N (hexdigit_val (T.dchar d)) = d.
Proof. intros H. TF.dcases d H; reflexivity. Qed.

Lemma digits_val_text ds : Forall TF.isdigit ds -> forall acc, digits_val 10 (T.text_of ds) acc = TS.digits_value ds acc.
Proof.
  induction 1 as [|d r Hd Hr IH]; intros acc; [reflexivity|].
  cbn [T.text_of map digits_val TS.digits_value]. rewrite hexdigit_val_dchar by auto. apply IH.
Qed.

Lemma digits_val_app a b acc : digits_val 10 (a ++ b) acc = digits_val 10 b (digits_val 10 a acc).
Proof. revert acc. induction a; intros acc; cbn [app digits_val]; auto. Qed.

Lemma digits_val_zeros k acc : digits_val 10 (repeat 48%N k) acc = acc * 10 ^ Z.of_nat k.
Proof.
  revert acc. induction k; intros acc; cbn [repeat digits_val].
  - rewrite Z.pow_0_r. lia.
  - rewrite IHk. change (Z.of_N (hexdigit_val 48)) with 0.
    rewrite Nat2Z.inj_succ, Z.pow_succ_r by lia. lia.
Qed.

(* ---- what `format` writes, read back strictly ---- *)
Lemma format_reads_back p c t :
  C.in_range t = true ->
  instant_of_text (T.format T.Pad4 (ts_prec p) (ts_constr c) t)
  = Some (TS.floor_to (TF.sp (ts_prec p)) (TF.sc (ts_constr c)) t).
Proof.
  intros R. pose proof (TF.fields_facts t R) as F. cbv zeta in F.
  destruct F as (Hy & V & Dn & Hh & Hmi & Hs & Hus & Hsecs).
  pose proof (TF.valid_date_bounds _ _ _ V) as [Hm Hd].
  set (f := C.fields_of t) in *.
  set (frac := T.frac_digits (ts_prec p) (ts_constr c) (C.f_us f)).
  assert (FF : Forall TF.isdigit frac) by apply TF.frac_digits_isdigit.
  assert (Shape : T.format T.Pad4 (ts_prec p) (ts_constr c) t =
    T.dchar (C.f_year f / 1000 mod 10) :: T.dchar (C.f_year f / 100 mod 10) :: T.dchar (C.f_year f / 10 mod 10) :: T.dchar (C.f_year f mod 10) :: 45%N ::
    T.dchar (C.f_month f / 10 mod 10) :: T.dchar (C.f_month f mod 10) :: 45%N ::
    T.dchar (C.f_day f / 10 mod 10) :: T.dchar (C.f_day f mod 10) :: 84%N ::
    T.dchar (C.f_hour f / 10 mod 10) :: T.dchar (C.f_hour f mod 10) :: 58%N ::
    T.dchar (C.f_min f / 10 mod 10) :: T.dchar (C.f_min f mod 10) :: 58%N ::
    T.dchar (C.f_sec f / 10 mod 10) :: T.dchar (C.f_sec f mod 10) ::
    (match frac with [] => [] | _ => 46%N :: T.text_of frac end) ++ [90%N]).
  { unfold T.format, T.year_text, T.pad2. fold f. fold frac. rewrite CP.digitsn4_eq, !CP.digitsn2_eq. reflexivity. }
  unfold instant_of_text. rewrite Shape. unfold parse_ts_strict.
  cbn [forallb]. rewrite !is_digit_dchar by apply d1. cbn [andb].
  rewrite !two_dchar by apply d1.
  unfold C.valid_date in V. repeat (apply andb_true_iff in V; destruct V as [V ?]).
  repeat match goal with H : (_ <=? _) = true |- _ => apply Z.leb_le in H end.
  rewrite four_digits_val by lia. rewrite !two_digits_val by lia.
  cbv zeta.
  assert (FO : ((1 <=? C.f_year f) && (1 <=? C.f_month f) && (C.f_month f <=? 12) && (1 <=? C.f_day f)
                && (C.f_day f <=? days_in_month (C.f_year f) (C.f_month f))
                && (C.f_hour f <=? 23) && (C.f_min f <=? 59) && (C.f_sec f <=? 59)) = true).
  { rewrite days_in_month_eq. repeat (apply andb_true_iff; split); apply Z.leb_le; lia. }
  set (us' := C.f_us f - C.f_us f mod TS.unit_of (TF.sp (ts_prec p)) (TF.sc (ts_constr c))).
  assert (Fin : forall us, us = us' ->
            ((((days_of_civil (C.f_year f) (C.f_month f) (C.f_day f) * 24 + C.f_hour f) * 60 + C.f_min f) * 60 + C.f_sec f) * 1000000 + us)
            = TS.floor_to (TF.sp (ts_prec p)) (TF.sc (ts_constr c)) t).
  { intros us ->. rewrite hinnant_eq by lia. unfold TS.floor_to, us'. rewrite Dn.
    unfold C.us_per_day in *. rewrite Hus.
    destruct (CP.unit_cases (TF.sp (ts_prec p)) (TF.sc (ts_constr c))) as [U|[U|U]]; rewrite U; lia. }
  pose proof (CP.frac_us_value (ts_prec p) (ts_constr c) (C.f_us f) ltac:(lia)) as FU. fold frac in FU. fold us' in FU.
  destruct frac as [|d0 fr] eqn:Efrac.
  - cbn [app]. rewrite FO. unfold ts_instant. cbn [ts_y ts_mo ts_d ts_h ts_mi ts_s ts_us]. f_equal. apply Fin. auto.
  - set (ds := d0 :: fr) in *.
    change ((46%N :: T.text_of ds) ++ [90%N]) with (46%N :: (T.text_of ds ++ [90%N])).
    cbv iota beta. rewrite rev_unit. rewrite rev_involutive.
    pose proof (CP.frac_length6 (ts_prec p) (ts_constr c) (C.f_us f)) as L6. fold frac in L6. rewrite Efrac in L6. fold ds in L6.
    assert (Lt : List.length (T.text_of ds) = List.length ds) by (unfold T.text_of; apply map_length).
    rewrite (forallb_is_digit_text ds FF). rewrite Lt.
    replace (Nat.leb 1 (List.length ds)) with true by (symmetry; apply Nat.leb_le; subst ds; simpl; lia).
    replace (Nat.leb (List.length ds) 6) with true by (symmetry; apply Nat.leb_le; lia).
    cbn [andb]. rewrite FO. unfold ts_instant. cbn [ts_y ts_mo ts_d ts_h ts_mi ts_s ts_us]. f_equal. apply Fin.
    unfold pad_right_zeros. rewrite Lt, digits_val_app, digits_val_zeros, digits_val_text by auto.
    exact FU.
Qed.

(* TimestampProperty.clean on a string, then serialization: the text denotes the stored instant *)
Lemma floor_idem' p c t : TS.floor_to (TF.sp (ts_prec p)) (TF.sc (ts_constr c)) (T.stored_trunc (ts_prec p) (ts_constr c) t)
                          = T.stored_trunc (ts_prec p) (ts_constr c) t.
Proof. rewrite CP.stored_trunc_floor. apply CP.floor_idem. Qed.

Lemma ts_clean_instant p c s r :
  ts_clean true p c s = Ok r -> instant_of_text (snd r) = Some (fst r).
Proof.
  unfold ts_clean. destruct (T.parse_strptime s) as [t|] eqn:E; try discriminate.
  intros H. inversion H; subst. cbn [fst snd]. rewrite format_reads_back.
  - rewrite floor_idem'. reflexivity.
  - rewrite CP.stored_trunc_floor. apply CP.floor_in_range. eapply CP.parse_strptime_in_range; eauto.
Qed.

Lemma ts_clean_now_instant p c now r :
  ts_clean_now true p c now = Ok r -> instant_of_text (snd r) = Some (fst r).
Proof.
  unfold ts_clean_now. destruct (C.in_range now) eqn:E; try discriminate.
  intros H. inversion H; subst. cbn [fst snd]. rewrite format_reads_back.
  - rewrite floor_idem'. reflexivity.
  - rewrite CP.stored_trunc_floor. apply CP.floor_in_range. auto.
Qed.

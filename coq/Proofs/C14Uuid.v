(* Proofs/C14Uuid.v -- the acceptance direction of the identifier check:
   uuid.UUID(text) as modelled in Model/IdCheck.v reads the canonical text of
   every n < 2^128 back as n, so strict mode accepts canonical text exactly
   when the variant / version bits say so (in both variants of _check_uuid). *)
From Coq Require Import NArith List Bool Lia String.
From V Require Import Base.UString Model.IdCheck Proofs.C14Detect.
Import ListNotations.
Open Scope N_scope.

(* lower-case hexadecimal digit characters *)
Definition lowhex (c : N) : bool := ((48 <=? c) && (c <=? 57)) || ((97 <=? c) && (c <=? 102)).

Ltac bools H := repeat (apply orb_true_iff in H || apply andb_true_iff in H || destruct H as [H|H] || (let H' := fresh in destruct H as [H H']));
                 repeat match goal with H : (_ <=? _) = true |- _ => apply N.leb_le in H end.

Lemma lowhex_cases : forall c, lowhex c = true -> (48 <= c <= 57) \/ (97 <= c <= 102).
Proof.
  intros c H. unfold lowhex in H. apply orb_true_iff in H as [H|H]; apply andb_true_iff in H as [H1 H2];
    apply N.leb_le in H1, H2; lia.
Qed.

Ltac lowhex_tac H :=
  apply lowhex_cases in H; leb_cases; simpl; try reflexivity; lia.

Lemma lowhex_digit : forall n k, lowhex (digit_at n k) = true.
Proof.
  intros n k. unfold digit_at. assert ((n / 16 ^ k) mod 16 < 16) as H by (apply N.mod_lt; discriminate).
  revert H. generalize ((n / 16 ^ k) mod 16). intros d Hd. unfold hex_lower.
  destruct (N.ltb_spec d 10); unfold lowhex; leb_cases; simpl; try reflexivity; lia.
Qed.

Lemma lowhex_model : forall c, lowhex c = true -> in_model_char c = true.
Proof. intros c H. unfold in_model_char. lowhex_tac H. Qed.
Lemma lowhex_not : forall c k, lowhex c = true -> (k <? 48) || ((57 <? k) && (k <? 97)) || (102 <? k) = true -> (k =? c) = false /\ (c =? k) = false.
Proof.
  intros c k H Hk. apply lowhex_cases in H.
  assert (k <> c) as Hne.
  { intro; subst k. apply orb_true_iff in Hk as [Hk|Hk]; [apply orb_true_iff in Hk as [Hk|Hk]|].
    - apply N.ltb_lt in Hk. lia.
    - apply andb_true_iff in Hk as [H1 H2]. apply N.ltb_lt in H1, H2. lia.
    - apply N.ltb_lt in Hk. lia. }
  split; apply N.eqb_neq; auto.
Qed.
Lemma lowhex_brace : forall c, lowhex c = true -> is_brace c = false.
Proof. intros c H. unfold is_brace. lowhex_tac H. Qed.
Lemma lowhex_ws : forall c, lowhex c = true -> is_ws c = false.
Proof. intros c H. unfold is_ws. lowhex_tac H. Qed.
Lemma lowhex_hex : forall c, lowhex c = true -> is_hex c = true.
Proof. intros c H. unfold is_hex. lowhex_tac H. Qed.
Lemma lowhex_lower : forall c, lowhex c = true -> lower_char c = c.
Proof. intros c H. unfold lower_char. lowhex_tac H. Qed.

(* ---- str.replace / strip on text without the characters they look for ---- *)
Lemma remove_absent : forall p0 rest s, Forall (fun c => (p0 =? c) = false) s -> ustr_remove (p0 :: rest) s = s.
Proof.
  intros p0 rest s H. unfold ustr_remove. induction H as [|c r Hc Hr IH]; [reflexivity|].
  cbn [replace_go ustr_prefix]. rewrite Hc. cbn [andb]. f_equal. exact IH.
Qed.

Lemma remove_char : forall k s, ustr_remove [k] s = filter (fun c => negb (k =? c)) s.
Proof.
  intros k s. unfold ustr_remove. induction s as [|c r IH]; [reflexivity|].
  cbn [replace_go ustr_prefix filter List.length Nat.pred]. destruct (k =? c); cbn [andb negb].
  - destruct r; exact IH.
  - f_equal. exact IH.
Qed.

Lemma lstrip_braces_id : forall s, Forall (fun c => is_brace c = false) s -> lstrip_braces s = s.
Proof. intros s H. destruct H as [|c r Hc _]; [reflexivity|]. cbn [lstrip_braces]. rewrite Hc. reflexivity. Qed.
Lemma strip_braces_id : forall s, Forall (fun c => is_brace c = false) s -> strip_braces s = s.
Proof.
  intros s H. unfold strip_braces. rewrite (lstrip_braces_id s H).
  rewrite lstrip_braces_id by (apply Forall_rev; exact H). apply rev_involutive.
Qed.
Lemma lstrip_ws_id : forall s, Forall (fun c => is_ws c = false) s -> lstrip_ws s = s.
Proof. intros s H. destruct H as [|c r Hc _]; [reflexivity|]. cbn [lstrip_ws]. rewrite Hc. reflexivity. Qed.
Lemma strip_ws_id : forall s, Forall (fun c => is_ws c = false) s -> strip_ws s = s.
Proof.
  intros s H. unfold strip_ws. rewrite (lstrip_ws_id s H).
  rewrite lstrip_ws_id by (apply Forall_rev; exact H). apply rev_involutive.
Qed.

(* ---- int(text, 16) on lower-case hex digits ---- *)
Definition hstep (a c : N) : N := a * 16 + hex_val c.

Lemma hex_digits_lowhex : forall s any acc, Forall (fun c => lowhex c = true) s -> (any = true \/ s <> []) ->
  hex_digits s false any acc = Some (fold_left hstep s acc).
Proof.
  induction s as [|c r IH]; intros any acc H Hne.
  - cbn. destruct Hne as [->|Hne]; [reflexivity|contradiction].
  - inversion H as [|c0 r0 Hc Hr]; subst. cbn [hex_digits fold_left].
    destruct (lowhex_not c 95 Hc eq_refl) as [_ H95]. rewrite H95, (lowhex_hex c Hc).
    apply IH; auto.
Qed.

Lemma int16_lowhex : forall s, Forall (fun c => lowhex c = true) s -> s <> [] -> int16 s = Some (fold_left hstep s 0).
Proof.
  intros s H Hne. unfold int16.
  rewrite strip_ws_id by (eapply Forall_impl; [|exact H]; intros c Hc; apply lowhex_ws; exact Hc).
  destruct s as [|c0 r]; [contradiction|]. inversion H as [|c' r' Hc0 Hr]; subst.
  destruct (lowhex_not c0 43 Hc0 eq_refl) as [_ H43]. rewrite H43.
  destruct r as [|x r2].
  - apply hex_digits_lowhex; auto.
  - inversion Hr as [|x' r'' Hx Hr2]; subst.
    destruct (lowhex_not x 120 Hx eq_refl) as [_ H120]. destruct (lowhex_not x 88 Hx eq_refl) as [_ H88].
    rewrite H120, H88. rewrite andb_false_r. apply hex_digits_lowhex; auto.
Qed.

(* ---- Horner over the digits of n ---- *)
Fixpoint idx (k : nat) : list N :=
  match k with O => [] | S k' => N.of_nat k' :: idx k' end.

Lemma hex_val_lower : forall d, d < 16 -> hex_val (hex_lower d) = d.
Proof. intros d Hd. unfold hex_val, hex_lower. leb_cases; lia. Qed.

Lemma hex_val_digit : forall n k, hex_val (digit_at n k) = (n / 16 ^ k) mod 16.
Proof. intros n k. unfold digit_at. apply hex_val_lower. apply N.mod_lt. discriminate. Qed.

Lemma horner : forall n k acc,
  fold_left hstep (map (digit_at n) (idx k)) acc = acc * 16 ^ N.of_nat k + n mod 16 ^ N.of_nat k.
Proof.
  intros n. induction k as [|k IH]; intro acc.
  - cbn [idx map fold_left]. change (N.of_nat 0) with 0. rewrite N.pow_0_r, N.mod_1_r. lia.
  - cbn [idx map fold_left]. rewrite IH. unfold hstep. rewrite hex_val_digit.
    rewrite Nat2N.inj_succ, N.pow_succ_r'.
    rewrite (N.mul_comm 16 (16 ^ N.of_nat k)).
    rewrite (N.mod_mul_r n (16 ^ N.of_nat k) 16) by (try apply N.pow_nonzero; discriminate).
    lia.
Qed.

(* ---- the canonical text ---- *)
Definition digits32 (n : N) : ustring := map (digit_at n) (idx 32).

Lemma canon_forall : forall (P : N -> Prop) n, (forall k, P (digit_at n k)) -> P 45 -> Forall P (canon_text n).
Proof.
  intros P n Hd H45. unfold canon_text.
  repeat (apply Forall_app; split); try (apply Forall_forall; intros x Hx; apply in_map_iff in Hx as [k [<- _]]; apply Hd).
  all: constructor; [exact H45|constructor].
Qed.

Lemma filter_digits : forall n l, filter (fun c => negb (45 =? c)) (map (digit_at n) l) = map (digit_at n) l.
Proof.
  intros n l. induction l as [|k l IH]; [reflexivity|]. cbn [map filter].
  destruct (lowhex_not (digit_at n k) 45 (lowhex_digit n k) eq_refl) as [H _]. rewrite H. cbn [negb]. f_equal. exact IH.
Qed.

Lemma remove_dashes_canon : forall n, ustr_remove (u "-") (canon_text n) = digits32 n.
Proof.
  intro n. change (u "-") with [45]. rewrite remove_char. unfold canon_text.
  rewrite !filter_app, !filter_digits. cbn [filter N.eqb Pos.eqb negb app].
  unfold digits32. rewrite <- !map_app. reflexivity.
Qed.

Lemma uuid_int_canon : forall n, n < 2 ^ 128 -> uuid_int (canon_text n) = Some (Some n).
Proof.
  intros n Hn. unfold uuid_int.
  assert (forallb in_model_char (canon_text n) = true) as ->.
  { apply forallb_forall. apply Forall_forall. apply canon_forall; [|reflexivity].
    intro k. apply lowhex_model, lowhex_digit. }
  cbn [negb].
  change (u "urn:") with [117; 114; 110; 58]. change (u "uuid:") with [117; 117; 105; 100; 58].
  rewrite (remove_absent 117 [114; 110; 58] (canon_text n)) by (apply canon_forall; [|reflexivity]; intro k;
                                   exact (proj1 (lowhex_not _ 117 (lowhex_digit n k) eq_refl))).
  rewrite (remove_absent 117) by (apply canon_forall; [|reflexivity]; intro k;
                                   exact (proj1 (lowhex_not _ 117 (lowhex_digit n k) eq_refl))).
  rewrite strip_braces_id by (apply canon_forall; [|reflexivity]; intro k; apply lowhex_brace, lowhex_digit).
  rewrite remove_dashes_canon.
  assert (List.length (digits32 n) = 32%nat) as -> by (unfold digits32; rewrite map_length; reflexivity).
  cbn [Nat.eqb negb].
  rewrite int16_lowhex.
  - unfold digits32. rewrite horner. change (N.of_nat 32) with 32. rewrite N.mod_small; [reflexivity|].
    replace (16 ^ 32) with (2 ^ 128) by reflexivity. exact Hn.
  - unfold digits32. apply Forall_forall. intros x Hx. apply in_map_iff in Hx as [k [<- _]]. apply lowhex_digit.
  - unfold digits32. discriminate.
Qed.

Lemma lower_canon : forall n, ustr_lower (canon_text n) = canon_text n.
Proof.
  intro n. unfold ustr_lower. rewrite <- (map_id (canon_text n)) at 2. apply map_ext_Forall.
  apply canon_forall; [|reflexivity]. intro k. apply lowhex_lower, lowhex_digit.
Qed.

Lemma strict_accepts_canonical_pf : forall im n v, n < 2 ^ 128 ->
  check_uuid im (canon_text n) v false
  = UOk (if variant_rfc4122 n && ustr_eqb v v20s then uuid_version n =? 4 else variant_rfc4122 n).
Proof.
  intros im n v Hn. unfold check_uuid. rewrite (uuid_int_canon n Hn), lower_canon.
  assert (forall s, ustr_eqb s s = true) as Hr.
  { induction s as [|c s IH]; simpl; [reflexivity|]. rewrite N.eqb_refl. exact IH. }
  rewrite Hr. cbn [negb]. rewrite andb_false_r. reflexivity.
Qed.

(* Proofs/FiltersSrc.v -- the configuration read from the source text (Gen/FilterFacts.v, regenerated on every
   run by translators/tr_filters.py) is, place by place, the choice Model/Filters.v mirrors.  Each lemma is a
   kernel comparison of two closed terms: it fails exactly when the text at that place is no longer the recorded one. *)
From Coq Require Import List String Permutation.
From V Require Import Base.UString Model.Filters Model.FiltersCfg Spec.FilterSpec Gen.FilterFacts
  Proofs.FiltersBasics Proofs.FiltersOpt Proofs.FiltersFs Proofs.FiltersLaws Proofs.FiltersCongr.
Import ListNotations.

Definition src_opt_mode : opt_mode := cfg_opt_mode src_filter_cfg.

Lemma src_ops : src_filter_ops = map fop_text all_fops.                       Proof. reflexivity. Qed.
Lemma src_components : c_components src_filter_cfg = ComponentsChecked.       Proof. reflexivity. Qed.
Lemma src_coerce : c_coerce src_filter_cfg = CoerceParseFilterValue.          Proof. reflexivity. Qed.
Lemma src_dispatch : c_dispatch src_filter_cfg = DispatchModel.               Proof. reflexivity. Qed.
Lemma src_apply : c_apply src_filter_cfg = AllMustHold.                       Proof. reflexivity. Qed.
Lemma src_walk : c_walk src_filter_cfg = WalkAnyElement.                      Proof. reflexivity. Qed.
Lemma src_fset_init : c_fset_init src_filter_cfg = InitCopies.                Proof. reflexivity. Qed.
Lemma src_fset_add : c_fset_add src_filter_cfg = AddUnique.                   Proof. reflexivity. Qed.
Lemma src_update_allow : c_update_allow src_filter_cfg = UpdateIntersect.     Proof. reflexivity. Qed.
Lemma src_opt_recognised : c_opt src_filter_cfg = opt_cfg_of src_opt_mode.    Proof. reflexivity. Qed.
Lemma src_authset : c_authset src_filter_cfg = WhiteMinusBlack.               Proof. reflexivity. Qed.
Lemma src_dir_entries : c_dir_entries src_filter_cfg = LookupOrListing.       Proof. reflexivity. Qed.

Lemma src_is_model : src_filter_cfg = model_filter_cfg src_opt_mode.
Proof. reflexivity. Qed.

(* the shortcut variant of the text is the repaired one: no hypothesis on the filters *)
Lemma src_no_filter_hypothesis : forall fl, tyid_wf src_opt_mode fl.
Proof. intro fl. exact I. Qed.

Lemma src_opt_sound_complete :
  src_filter_cfg = model_filter_cfg src_opt_mode /\
  forall mode t fl r, Inv mode t -> naive mode fl t = Ok r ->
    exists r', fs_search mode src_opt_mode t fl = Ok r' /\ Permutation r r'.
Proof.
  split; [exact src_is_model|]. intros mode t fl r HInv H.
  exact (opt_sound_complete_lemma mode src_opt_mode t fl r HInv (src_no_filter_hypothesis fl) H).
Qed.

Lemma src_opt_raise :
  src_filter_cfg = model_filter_cfg src_opt_mode /\
  forall mode t fl e, Inv mode t -> fs_search mode src_opt_mode t fl = Raise e -> exists e', naive mode fl t = Raise e'.
Proof.
  split; [exact src_is_model|]. intros mode t fl e HInv H.
  exact (opt_raise_lemma mode src_opt_mode t fl e HInv (src_no_filter_hypothesis fl) H).
Qed.

Lemma src_attached_filters_apply :
  c_fset_init src_filter_cfg = InitCopies /\ c_fset_add src_filter_cfg = AddUnique /\ c_apply src_filter_cfg = AllMustHold /\
  forall mode q att comp o, fl_wf (q ++ att ++ comp) -> wfv o ->
    all_hold mode (complete_query q att comp) o = all_hold mode (q ++ att ++ comp) o.
Proof. repeat split; try reflexivity. exact complete_query_verdict_wf. Qed.

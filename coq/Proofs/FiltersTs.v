(* Proofs/FiltersTs.v -- the timestamp reader of Model/Filters.v (parse_ts,
   what Filter._check_property does to a filter value given as a string)
   against property C15's specification (Spec/TimestampSpec.v, owned by the
   C15 builder and only imported here): a string parse_ts accepts is in the
   canonical shape, passes C15's strict reader spec_read, and denotes exactly
   the instant parse_ts returns (parse_ts counts microseconds from
   1970-01-01T00:00:00Z, the specification from 0001-01-01T00:00:00Z).      *)
From Coq Require Import NArith ZArith List Bool Lia.
From V Require Import Base.UString Model.Calendar Spec.TimestampSpec Proofs.CalendarFacts Proofs.TimestampFacts.
From V Require Model.Filters.
Import ListNotations.
Open Scope Z_scope.

Module F := V.Model.Filters.

Definition unix_epoch_days : Z := 719162.                       (* days_of_civil 1970 1 1 *)
Definition unix_epoch_us : Z := 62135596800000000.              (* unix_epoch_days * 86400 * 10^6 *)

(* ---- the pieces are the same functions ---- *)

Lemma digit_sdigit : forall c, F.digit c = sdigit c.
Proof. reflexivity. Qed.

Lemma digits_read_num : forall n s acc, F.digits n s acc = read_num n s acc.
Proof.
  induction n as [|n IH]; intros s acc; simpl; auto;
  destruct s as [|c r]; auto; rewrite digit_sdigit; destruct (sdigit c); auto.
Qed.

Lemma expect_same : forall c s, F.expect c s = expect c s.
Proof. intros c s. destruct s as [|x r]; simpl; auto. rewrite N.eqb_sym. reflexivity. Qed.

Lemma sdigit_range : forall c d, sdigit c = Some d -> 0 <= d <= 9.
Proof.
  intros c d H. unfold sdigit in H. destruct ((48 <=? c)%N && (c <=? 57)%N) eqn:E; inversion H; subst.
  apply andb_true_iff in E. destruct E as [E1 E2]. apply N.leb_le in E1. apply N.leb_le in E2. lia.
Qed.

Lemma read_num_bound : forall n s acc v r, read_num n s acc = Some (v, r) -> 0 <= acc ->
  acc * 10 ^ Z.of_nat n <= v < (acc + 1) * 10 ^ Z.of_nat n.
Proof.
  induction n as [|n IH]; intros s acc v r H Ha.
  - simpl in H. inversion H; subst. simpl. lia.
  - simpl in H. destruct s as [|c s']; try discriminate. destruct (sdigit c) as [d|] eqn:D; try discriminate.
    apply sdigit_range in D. apply IH in H; [|lia].
    rewrite Nat2Z.inj_succ. rewrite Z.pow_succ_r by lia. nia.
Qed.

(* ---- the calendar: Hinnant's days_from_civil = C15's days_of_civil, shifted to 1970 ---- *)

Definition months : list Z := [1; 2; 3; 4; 5; 6; 7; 8; 9; 10; 11; 12].

Definition ym_ok (y m : Z) : bool :=
  (F.days_from_civil y m 1 =? days_of_civil y m 1 - unix_epoch_days) &&
  (F.days_in_month y m =? days_in_month y m).

Lemma ym_sweep : all_below 9999 (fun i => forallb (ym_ok (Z.of_N i + 1)) months) = true.
Proof. vm_compute. reflexivity. Qed.

Lemma ym_fact : forall y m, 1 <= y <= 9999 -> 1 <= m <= 12 ->
  F.days_from_civil y m 1 = days_of_civil y m 1 - unix_epoch_days /\ F.days_in_month y m = days_in_month y m.
Proof.
  intros y m Hy Hm.
  pose proof (all_below_spec _ _ ym_sweep (Z.to_N (y - 1))) as H.
  assert (Hi : (Z.to_N (y - 1) < 9999)%N) by lia. specialize (H Hi). cbv beta in H.
  replace (Z.of_N (Z.to_N (y - 1)) + 1) with y in H by lia.
  rewrite forallb_forall in H.
  assert (Hin : In m months).
  { unfold months. assert (m = 1 \/ m = 2 \/ m = 3 \/ m = 4 \/ m = 5 \/ m = 6 \/ m = 7 \/ m = 8 \/ m = 9 \/ m = 10 \/ m = 11 \/ m = 12) by lia.
    simpl. intuition. }
  specialize (H m Hin). unfold ym_ok in H. apply andb_true_iff in H. destruct H as [H1 H2].
  apply Z.eqb_eq in H1. apply Z.eqb_eq in H2. auto.
Qed.

Lemma days_from_civil_linear : forall y m d, F.days_from_civil y m d = F.days_from_civil y m 1 + (d - 1).
Proof. intros. unfold F.days_from_civil. cbv zeta. lia. Qed.

Lemma days_of_civil_linear : forall y m d, days_of_civil y m d = days_of_civil y m 1 + (d - 1).
Proof. intros. unfold days_of_civil. lia. Qed.

Lemma days_from_civil_spec : forall y m d, 1 <= y <= 9999 -> 1 <= m <= 12 ->
  F.days_from_civil y m d = days_of_civil y m d - unix_epoch_days.
Proof.
  intros y m d Hy Hm. rewrite days_from_civil_linear, (days_of_civil_linear y m d).
  destruct (ym_fact y m Hy Hm) as [H _]. lia.
Qed.

(* ---- the fraction ---- *)

Lemma digits_value_cons : forall d ds, digits_value (d :: ds) 0 = d * 10 ^ Z.of_nat (length ds) + digits_value ds 0.
Proof. intros. simpl. rewrite digits_value_acc. lia. Qed.

Lemma frac_digits_spec : forall n s acc scale seen us,
  scale = 10 ^ (Z.of_nat n - 1) ->
  F.frac_digits n s acc scale seen = Some (us, [90%N]) ->
  exists ds, read_frac s = Some ds /\ (seen = false -> ds <> []) /\ (length ds <= n)%nat /\
             us = acc + digits_value ds 0 * 10 ^ (Z.of_nat n - Z.of_nat (length ds)).
Proof.
  induction n as [|n IH]; intros s acc scale seen us Hs H.
  - destruct s as [|c s']; simpl in H.
    + destruct seen; discriminate.
    + rewrite digit_sdigit in H. destruct (sdigit c) eqn:D; try discriminate.
      destruct seen; try discriminate. inversion H; subst.
      exists []. simpl. repeat split; auto; try discriminate. lia.
  - destruct s as [|c s']; simpl in H.
    + destruct seen; discriminate.
    + rewrite digit_sdigit in H. destruct (sdigit c) as [d|] eqn:D.
      * assert (Hsc : scale / 10 = 10 ^ (Z.of_nat n - 1)).
        { subst scale. replace (Z.of_nat (S n) - 1) with (Z.of_nat n) by lia.
          destruct n as [|n']; [reflexivity|].
          replace (Z.of_nat (S n')) with (Z.succ (Z.of_nat (S n') - 1)) at 1 by lia.
          rewrite Z.pow_succ_r by lia. rewrite Z.mul_comm. apply Z.div_mul. lia. }
        destruct (IH s' (acc + d * scale) (scale / 10) true us Hsc H) as [ds [Hr [_ [Hl Hu]]]].
        exists (d :: ds). simpl read_frac. rewrite D, Hr. repeat split; try discriminate.
        -- simpl. lia.
        -- rewrite digits_value_cons. rewrite Hu. subst scale. simpl length.
           replace (Z.of_nat (S n) - 1) with (Z.of_nat n) by lia.
           replace (Z.of_nat (S n) - Z.of_nat (S (length ds))) with (Z.of_nat n - Z.of_nat (length ds)) by lia.
           rewrite Z.mul_add_distr_r. rewrite <- Z.mul_assoc. rewrite <- Z.pow_add_r by lia.
           replace (Z.of_nat (length ds) + (Z.of_nat n - Z.of_nat (length ds))) with (Z.of_nat n) by lia. lia.
      * destruct seen; try discriminate. inversion H; subst.
        exists []. simpl. repeat split; auto; try discriminate; try lia.
Qed.

(* ---- parse_ts ---- *)

Lemma match_Z : forall (A : Type) (rest : list N) (a : option A) v,
  match rest with | [90%N] => a | _ => None end = Some v -> rest = [90%N] /\ a = Some v.
Proof.
  intros A rest a v H. destruct rest as [|c rest]; [discriminate|].
  destruct c as [|p]; [discriminate|].
  do 7 (try (destruct p as [p|p|]; try discriminate)).
  all: destruct rest; try discriminate; auto.
Qed.

(* the end of parse_ts, after the seconds *)
Definition fin_of (y mo d h mi se us : Z) (s : ustring) : option Z :=
  match s with
  | [90%N] =>
      if (1 <=? y) && (1 <=? mo) && (mo <=? 12) && (1 <=? d) && (d <=? F.days_in_month y mo)
         && (h <=? 23) && (mi <=? 59) && (se <=? 59)
      then Some ((((F.days_from_civil y mo d * 24 + h) * 60 + mi) * 60 + se) * 1000000 + us)
      else None
  | _ => None
  end.

Definition tail_of (y mo d h mi se : Z) (s : ustring) : option Z :=
  match s with
  | 46%N :: s' => match F.frac_digits 6 s' 0 100000 false with Some (us, s'') => fin_of y mo d h mi se us s'' | None => None end
  | _ => fin_of y mo d h mi se 0 s
  end.

Lemma tail_cases : forall y mo d h mi se s t, tail_of y mo d h mi se s = Some t ->
  (exists s' us s'', s = 46%N :: s' /\ F.frac_digits 6 s' 0 100000 false = Some (us, s'') /\ fin_of y mo d h mi se us s'' = Some t)
  \/ (fin_of y mo d h mi se 0 s = Some t).
Proof.
  intros y mo d h mi se s t H. destruct s as [|c r]; [right; exact H|].
  destruct c as [|p]; [right; exact H|].
  do 6 (try (destruct p as [p|p|]; try (right; exact H))).
  left. unfold tail_of in H. destruct (F.frac_digits 6 r 0 100000 false) as [[us s'']|] eqn:E; [|discriminate].
  exists r, us, s''. auto.
Qed.

Lemma fin_of_spec : forall y mo d h mi se us rest t, fin_of y mo d h mi se us rest = Some t ->
  rest = [90%N] /\ 1 <= y /\ 1 <= mo <= 12 /\ 1 <= d <= F.days_in_month y mo /\ h <= 23 /\ mi <= 59 /\ se <= 59 /\
  t = (((F.days_from_civil y mo d * 24 + h) * 60 + mi) * 60 + se) * 1000000 + us.
Proof.
  intros y mo d h mi se us rest t H. unfold fin_of in H. apply match_Z in H. destruct H as [-> H].
  destruct ((1 <=? y) && (1 <=? mo) && (mo <=? 12) && (1 <=? d) && (d <=? F.days_in_month y mo)
            && (h <=? 23) && (mi <=? 59) && (se <=? 59)) eqn:V; [|discriminate].
  inversion H; subst. repeat (apply andb_true_iff in V; destruct V as [V ?]).
  repeat match goal with Hx : (_ <=? _) = true |- _ => apply Z.leb_le in Hx end. repeat split; auto; lia.
Qed.

Ltac step_num H v r E :=
  match type of H with
  | match F.digits ?n ?s ?acc with _ => _ end = _ =>
      destruct (F.digits n s acc) as [[v r]|] eqn:E; [|discriminate H]; rewrite digits_read_num in E
  end.
Ltac step_exp H r E :=
  match type of H with
  | match F.expect ?c ?s with _ => _ end = _ =>
      destruct (F.expect c s) as [r|] eqn:E; [|discriminate H]; rewrite expect_same in E
  end.

Theorem parse_ts_strict : forall s t, F.parse_ts s = Some t ->
  exists secs ds, spec_read s = Some (secs, ds) /\ denotes (secs, ds) (t + unix_epoch_us) /\ (List.length ds <= 6)%nat.
Proof.
  intros s t H. unfold F.parse_ts in H.
  step_num H y s1 Ey. step_exp H s2 E2. step_num H mo s3 Emo. step_exp H s4 E4. step_num H d s5 Ed.
  step_exp H s6 E6. step_num H h s7 Eh. step_exp H s8 E8. step_num H mi s9 Emi. step_exp H s10 E10.
  step_num H se s11 Ese.
  pose proof (read_num_bound _ _ _ _ _ Ey (Z.le_refl 0)) as By.
  pose proof (read_num_bound _ _ _ _ _ Emo (Z.le_refl 0)) as Bmo.
  pose proof (read_num_bound _ _ _ _ _ Ed (Z.le_refl 0)) as Bd.
  pose proof (read_num_bound _ _ _ _ _ Eh (Z.le_refl 0)) as Bh.
  pose proof (read_num_bound _ _ _ _ _ Emi (Z.le_refl 0)) as Bmi.
  pose proof (read_num_bound _ _ _ _ _ Ese (Z.le_refl 0)) as Bse.
  change (10 ^ Z.of_nat 4) with 10000 in By. change (10 ^ Z.of_nat 2) with 100 in *.
  change (tail_of y mo d h mi se s11 = Some t) in H.
  assert (Hfin : forall us rest ds,
            fin_of y mo d h mi se us rest = Some t ->
            read_tail s11 = Some ds -> us * 10 ^ Z.of_nat (List.length ds) = digits_value ds 0 * 1000000 ->
            (List.length ds <= 6)%nat ->
            exists secs ds0, spec_read s = Some (secs, ds0) /\ denotes (secs, ds0) (t + unix_epoch_us) /\ (List.length ds0 <= 6)%nat).
  { intros us rest ds Hf Ht Hus Hlen. apply fin_of_spec in Hf.
    destruct Hf as [_ [Hy1 [Hm [Hd [Hh [Hmi [Hse ->]]]]]]].
    assert (Hy : 1 <= y <= 9999) by lia.
    destruct (ym_fact y mo Hy Hm) as [_ Hdim].
    exists (((days_of_civil y mo d * 24 + h) * 60 + mi) * 60 + se), ds. split; [|split; auto].
    - unfold spec_read, read_shape. rewrite Ey, E2, Emo, E4, Ed, E6, Eh, E8, Emi, E10, Ese, Ht. cbn [r_y r_mo r_d r_h r_mi r_s r_frac].
      unfold valid_date. rewrite <- Hdim.
      replace (1 <=? mo) with true by (symmetry; apply Z.leb_le; lia).
      replace (mo <=? 12) with true by (symmetry; apply Z.leb_le; lia).
      replace (1 <=? d) with true by (symmetry; apply Z.leb_le; lia).
      replace (d <=? F.days_in_month y mo) with true by (symmetry; apply Z.leb_le; lia).
      replace (h <? 24) with true by (symmetry; apply Z.ltb_lt; lia).
      replace (mi <? 60) with true by (symmetry; apply Z.ltb_lt; lia).
      replace (se <? 60) with true by (symmetry; apply Z.ltb_lt; lia).
      reflexivity.
    - unfold denotes. rewrite (days_from_civil_spec y mo d Hy Hm). unfold unix_epoch_days, unix_epoch_us.
      set (k := 10 ^ Z.of_nat (List.length ds)) in *. set (dv := digits_value ds 0) in *.
      set (doc := days_of_civil y mo d).
      set (A := ((doc * 24 + h) * 60 + mi) * 60 + se).
      replace (((((doc - 719162) * 24 + h) * 60 + mi) * 60 + se) * 1000000 + us + 62135596800000000)
        with (A * 1000000 + us) by (unfold A; lia).
      rewrite !Z.mul_add_distr_r. rewrite Hus. ring. }
  destruct (tail_cases _ _ _ _ _ _ _ _ H) as [[s' [us [s'' [-> [Ef Hf]]]]] | Hf].
  - assert (Hrest := Hf). apply fin_of_spec in Hrest. destruct Hrest as [-> _].
    destruct (frac_digits_spec 6 s' 0 100000 false us eq_refl Ef) as [ds [Hr [Hne [Hl Hu]]]].
    destruct ds as [|d0 ds0]; [exfalso; apply Hne; auto|].
    apply (Hfin us [90%N] (d0 :: ds0)); auto.
    + simpl. rewrite Hr. reflexivity.
    + rewrite Hu. rewrite Z.add_0_l. rewrite <- Z.mul_assoc. rewrite <- Z.pow_add_r by lia.
      replace (Z.of_nat 6 - Z.of_nat (List.length (d0 :: ds0)) + Z.of_nat (List.length (d0 :: ds0))) with 6 by lia. reflexivity.
  - assert (Hrest := Hf). apply fin_of_spec in Hrest. destruct Hrest as [-> _].
    apply (Hfin 0 [90%N] []); auto. simpl. lia.
Qed.

(* Proofs/StoreRoundtrip.v -- the assumption of the store theorems (C11) that
   writing an object to a file / a bundle and reading it back yields an object
   with the same store view, discharged from property C01's round-trip theorem
   for the classes it covers (Props/C01.v roundtrip_equal_partial, constructor
   level: constructing from the object's own encoding returns the same object).

   `store_view` reads from a schema-level object (Model/Schema.v `pval`) exactly
   what Model/Store.v keeps of it: id, type, `modified` and `created` as
   instants (or absent), and the string properties navigation reads.          *)
From Coq Require Import NArith ZArith List String Bool.
From V Require Import Base.UString Base.Json Model.SchemaTypes Model.PyBase Model.Schema Model.Serialize.
From V Require Import Spec.JsonValue Proofs.C01Basics Proofs.C01Serialize.
From V Require Import Proofs.C01Kinds Proofs.C01KindsAll Proofs.C01Object Proofs.C01Roundtrip.
From V Require Model.Store.
Import ListNotations.
Open Scope list_scope.

Module S := V.Model.Store.

Definition str_at (k : ustring) (inner : list (ustring * pval)) : option ustring :=
  match alookup k inner with Some (PJ (JStr s)) => Some s | _ => None end.

Definition time_at (k : ustring) (inner : list (ustring * pval)) : S.vkey :=
  match alookup k inner with
  | Some (PTime us _) => S.VInst us
  | Some (PJ (JStr s)) => S.VText s          (* content kept as a dictionary *)
  | _ => S.VNone
  end.

Definition nav_props (inner : list (ustring * pval)) : list (ustring * ustring) :=
  flat_map (fun k => match str_at k inner with Some v => [(k, v)] | None => [] end)
           [S.k_source_ref; S.k_target_ref; S.k_relationship_type; S.k_created_by_ref].

(* what the stores keep of an object; `tag` identifies the copy (the stores never look at it) *)
Definition store_view (tag : N) (p : pval) : option S.obj :=
  match p with
  | PObject _ inner _ _ =>
      match str_at (u "id") inner, str_at (u "type") inner with
      | Some i, Some t => Some (S.mkObj i t (time_at (u "modified") inner) (time_at (u "created") inner) tag (nav_props inner))
      | _, _ => None
      end
  | _ => None
  end.

(* reading back what was written: the object re-constructed from its own encoding has the same store view *)
Theorem roundtrip_preserves_store_view :
  forall vr ev w pattern_ok selectors_ok, vr_year_pad vr = true ->
  forall ids, closed_okw vr w ids = true ->
  forall fuel kid allow interop kw vrefs o o' tag,
    mem_ustr kid ids = true -> plain_dict kw = true -> id_given w kid kw = true ->
    run vr ev w pattern_ok selectors_ok fuel (RConstruct kid allow interop kw vrefs) = Ok o ->
    run vr ev w pattern_ok selectors_ok fuel (RConstruct kid allow interop (omem o) vrefs) = Ok o' ->
    o' = o /\ store_view tag o' = store_view tag o.
Proof.
  intros vr ev w pok sok Hy ids Hc fuel kid allow interop kw vrefs o o' tag H1 H2 H3 Hr Hr'.
  pose proof (construct_roundtrip vr ev w pok sok Hy ids Hc fuel kid allow interop kw vrefs o H1 H2 H3 Hr) as E.
  rewrite E in Hr'. inversion Hr'. split; reflexivity.
Qed.

(* store_view is not the trivial None on objects of the shape the stores hold: a concrete identity *)
Definition sv_example : pval :=
  PObject (u "identity") [(u "type", PJ (JStr (u "identity")));
                          (u "id", PJ (JStr (u "identity--00000001-0000-4000-8000-000000000001")));
                          (u "created", PTime 1420070400000000%Z (u "2015-01-01T00:00:00.000Z"));
                          (u "modified", PTime 1577836800000000%Z (u "2020-01-01T00:00:00.000Z"));
                          (u "created_by_ref", PJ (JStr (u "identity--00000002-0000-4000-8000-000000000002")))] [] false.

Lemma store_view_example :
  store_view 7 sv_example =
  Some (S.mkObj (u "identity--00000001-0000-4000-8000-000000000001") (u "identity")
                (S.VInst 1577836800000000%Z) (S.VInst 1420070400000000%Z) 7
                [(S.k_created_by_ref, u "identity--00000002-0000-4000-8000-000000000002")]).
Proof. vm_compute. reflexivity. Qed.

(* ---------- bundles (MemorySink.save_to_file / load_from_file; bundlify) ---------- *)
From V Require Import Proofs.C01Parse Proofs.C01Bundle.

(* the store views of the members of a bundle, in order *)
Definition bundle_views (tag : N) (p : pval) : list (option S.obj) :=
  match p with
  | PObject _ inner _ _ =>
      match alookup (u "objects") inner with
      | Some (PArr l) => map (store_view tag) l
      | _ => []
      end
  | _ => []
  end.

(* a bundle re-constructed from its own encoding holds members with the same store views, in the same order *)
Theorem bundle_roundtrip_preserves_store_views :
  forall vr ev w pattern_ok selectors_ok, vr_year_pad vr = true ->
  forall ids, closed_ok vr w ids = true -> registry_ok w = true ->
  forall pids, forallb (fun k => mem_ustr k ids) pids = true ->
    forallb (fun k => match find_class (wclasses w) k with Some c => parse_class_ok w c | None => false end) pids = true ->
  forall fuel kid allow interop kw vrefs o o' c tag,
    find_class (wclasses w) kid = Some c -> bundle_ok vr w ids c = true ->
    plain_dict kw = true ->
    run vr ev w pattern_ok selectors_ok fuel (RConstruct kid allow interop kw vrefs) = Ok o ->
    bundle_members_ok w pids kw o = true ->
    run vr ev w pattern_ok selectors_ok fuel (RConstruct kid allow interop (omem o) vrefs) = Ok o' ->
    o' = o /\ bundle_views tag o' = bundle_views tag o.
Proof.
  intros vr ev w pok sok Hy ids Hc Hreg pids Hp1 Hp2 fuel kid allow interop kw vrefs o o' c tag Hf Hb Hpl Hr Hm Hr'.
  pose proof (bundle_roundtrip vr ev w pok sok Hy ids Hc Hreg pids Hp1 Hp2 fuel kid allow interop kw vrefs o c Hf Hb Hpl Hr Hm) as E.
  rewrite E in Hr'. inversion Hr'. split; reflexivity.
Qed.

(* Proofs/ScoIdOrderFacts.v -- _make_json_serializable (Model.ScoId.jsonable) maps
   values that differ only in dictionary order to JSON values that differ only in
   member order; with canon_perm_deep this gives independence of the id from
   nested dictionary orders.                                                     *)
From Coq Require Import String NArith ZArith List Bool Lia Sorted Permutation.
From V Require Import Base.UString Base.Json Model.JcsText Model.Jcs Model.ScoId
  Spec.Rfc8785 Spec.JcsSpec Spec.ScoIdSpec Spec.ScoIdOrder
  Proofs.JcsNumFacts Proofs.JcsSortFacts Proofs.JcsCanonFacts Proofs.ScoIdFacts Proofs.ScoIdHashFacts.
Import ListNotations.
Open Scope N_scope.

(* ---- unfolding jsonable ------------------------------------------------------------------ *)
Fixpoint seq_i {A : Type} (rs : list (ires A)) : ires (list A) :=
  match rs with
  | [] => IOk []
  | IRaise e :: _ => IRaise e
  | IOk a :: r => match seq_i r with IOk l => IOk (a :: l) | IRaise e => IRaise e end
  end.

Definition lift_kv (kv : ustring * pval) : ires (ustring * jvalue) :=
  match jsonable (snd kv) with IOk x => IOk (fst kv, x) | IRaise e => IRaise e end.

Lemma jsonable_list_eq : forall l,
  jsonable (PList l) = match seq_i (map jsonable l) with IOk l' => IOk (JArr l') | IRaise e => IRaise e end.
Proof.
  intro l. simpl.
  match goal with |- match ?f l with _ => _ end = _ =>
    assert (E : forall l', f l' = seq_i (map jsonable l'))
      by (induction l' as [|x r IH]; [reflexivity|simpl; rewrite IH; destruct (jsonable x); reflexivity])
  end.
  rewrite E. reflexivity.
Qed.

Lemma jsonable_dict_eq : forall m,
  jsonable (PDict m) = match seq_i (map lift_kv m) with IOk m' => IOk (JObj m') | IRaise e => IRaise e end.
Proof.
  intro m. simpl.
  match goal with |- match ?f m with _ => _ end = _ =>
    assert (E : forall m', f m' = seq_i (map lift_kv m'))
      by (induction m' as [|[k x] r IH]; [reflexivity|simpl; rewrite IH; unfold lift_kv; simpl; destruct (jsonable x); reflexivity])
  end.
  rewrite E. reflexivity.
Qed.

Lemma seq_i_ok : forall (A : Type) (rs : list (ires A)) l, seq_i rs = IOk l -> Forall2 (fun r a => r = IOk a) rs l.
Proof.
  induction rs as [|r rs IH]; intros l H.
  - inversion H. constructor.
  - simpl in H. destruct r as [a|e]; [|discriminate]. destruct (seq_i rs) as [l0|e] eqn:E; [|discriminate].
    inversion H; subst. constructor; [reflexivity|apply IH; reflexivity].
Qed.

Lemma seq_i_of_ok : forall (A : Type) (rs : list (ires A)) l, Forall2 (fun r a => r = IOk a) rs l -> seq_i rs = IOk l.
Proof. induction 1 as [|r a rs l H Hl IH]; [reflexivity|]. subst. simpl. rewrite IH. reflexivity. Qed.

Lemma seq_i_err : forall (A : Type) (rs : list (ires A)) e, seq_i rs = IRaise e -> In (IRaise e) rs.
Proof.
  induction rs as [|r rs IH]; intros e H; [discriminate|].
  simpl in H. destruct r as [a|e0]; [|inversion H; left; reflexivity].
  destruct (seq_i rs) as [l0|e1] eqn:E; [discriminate|]. inversion H; subst. right. apply IH. reflexivity.
Qed.

Lemma seq_i_has_err : forall (A : Type) (rs : list (ires A)) e, In (IRaise e) rs -> exists e', seq_i rs = IRaise e'.
Proof.
  induction rs as [|r rs IH]; intros e H; [contradiction|].
  simpl. destruct r as [a|e0]; [|eexists; reflexivity].
  destruct H as [H|H]; [discriminate|]. destruct (IH e H) as [e' E]. rewrite E. eexists; reflexivity.
Qed.

(* every error of jsonable is the ValueError for None *)
Lemma jsonable_err : forall v e, jsonable v = IRaise e -> e = EValueError.
Proof.
  induction v as [|b|z|r|s|t|ym pr pc t|l IH|m IH] using pval_nested_ind; intros e H; try discriminate.
  - inversion H. reflexivity.
  - rewrite jsonable_list_eq in H. destruct (seq_i (map jsonable l)) as [l'|e'] eqn:E; [discriminate|].
    inversion H; subst. apply seq_i_err in E. apply in_map_iff in E. destruct E as [x [Ex Hx]].
    rewrite Forall_forall in IH. eapply IH; eauto.
  - rewrite jsonable_dict_eq in H. destruct (seq_i (map lift_kv m)) as [m'|e'] eqn:E; [discriminate|].
    inversion H; subst. apply seq_i_err in E. apply in_map_iff in E. destruct E as [kv [Ex Hx]].
    unfold lift_kv in Ex. destruct (jsonable (snd kv)) as [x|e0] eqn:Ej; [discriminate|]. inversion Ex; subst.
    rewrite Forall_forall in IH. eapply IH; eauto.
Qed.

(* distinct keys are kept *)
Lemma lift_kv_fst : forall kv p, lift_kv kv = IOk p -> fst p = fst kv.
Proof. intros kv p H. unfold lift_kv in H. destruct (jsonable (snd kv)); inversion H. reflexivity. Qed.

Lemma jsonable_nodup : forall v a, pnodup v -> jsonable v = IOk a -> nodup_keys a.
Proof.
  induction v as [|b|z|r|s|t|ym pr pc t|l IH|m IH] using pval_nested_ind; intros a N H; try (inversion H; subst; constructor).
  - rewrite jsonable_list_eq in H. destruct (seq_i (map jsonable l)) as [l'|e'] eqn:E; [|discriminate].
    inversion H; subst. constructor. apply seq_i_ok in E. inversion N as [| | | | | | |l0 Nl|]; subst. clear H N.
    revert l' E. induction l as [|x l IHl]; intros l' E; inversion E; subst; constructor.
    + inversion IH; subst. inversion Nl; subst. eauto.
    + inversion IH; subst. inversion Nl; subst. apply IHl; auto.
  - rewrite jsonable_dict_eq in H. destruct (seq_i (map lift_kv m)) as [m'|e'] eqn:E; [|discriminate].
    inversion H; subst. apply seq_i_ok in E. inversion N as [| | | | | | | |m0 N1 N2]; subst. clear H N.
    assert (K : map fst m' = map fst m).
    { clear IH N1 N2. revert m' E. induction m as [|kv m IHm]; intros m' E; inversion E; subst; [reflexivity|].
      simpl. f_equal; [eapply lift_kv_fst; eauto|apply IHm; assumption]. }
    constructor; [rewrite K; exact N1|]. clear K N1.
    revert m' E. induction m as [|kv m IHm]; intros m' E; inversion E as [|? p ? ? Hp Ht]; subst; constructor.
    + inversion IH; subst. inversion N2; subst. unfold lift_kv in Hp.
      destruct (jsonable (snd kv)) as [x|e0] eqn:Ej; [|discriminate]. inversion Hp; subst. simpl. eauto.
    + inversion IH; subst. inversion N2; subst. apply IHm; auto.
Qed.

(* ---- the relation between the two results ---------------------------------------------------- *)
Definition Rres (r1 r2 : ires jvalue) : Prop :=
  match r1, r2 with
  | IOk a, IOk b => jperm a b
  | IRaise e, IRaise e' => e = e'
  | _, _ => False
  end.

Definition Rkv (r1 r2 : ires (ustring * jvalue)) : Prop :=
  match r1, r2 with
  | IOk a, IOk b => fst a = fst b /\ jperm (snd a) (snd b)
  | IRaise e, IRaise e' => e = e'
  | _, _ => False
  end.

Lemma seq_i_rel : forall (A : Type) (R : A -> A -> Prop) (rs rs' : list (ires A)),
  Forall2 (fun r1 r2 => match r1, r2 with IOk a, IOk b => R a b | IRaise e, IRaise e' => e = e' | _, _ => False end) rs rs' ->
  match seq_i rs, seq_i rs' with
  | IOk l, IOk l' => Forall2 R l l'
  | IRaise e, IRaise e' => e = e'
  | _, _ => False
  end.
Proof.
  induction 1 as [|r1 r2 rs rs' H Hl IH]; simpl; [constructor|].
  destruct r1 as [a|e]; destruct r2 as [b|e']; try contradiction; [|exact H].
  destruct (seq_i rs) as [l|e]; destruct (seq_i rs') as [l'|e']; try contradiction; [constructor; assumption|exact IH].
Qed.

Lemma seq_i_perm_ok : forall (A : Type) (rs rs' : list (ires A)) l, Permutation rs rs' -> seq_i rs = IOk l ->
  exists l', seq_i rs' = IOk l' /\ Permutation l l'.
Proof.
  intros A rs rs' l Hp. revert l. induction Hp as [|r rs rs' Hp IH|r1 r2 rs|rs1 rs2 rs3 H1 IH1 H2 IH2]; intros l H.
  - exists []. inversion H. split; [reflexivity|constructor].
  - simpl in H. destruct r as [a|e]; [|discriminate]. destruct (seq_i rs) as [l0|e] eqn:E; [|discriminate].
    inversion H; subst. destruct (IH l0 eq_refl) as [l' [E' P']]. exists (a :: l'). simpl. rewrite E'. split; [reflexivity|constructor; exact P'].
  - simpl in H. destruct r2 as [a2|e]; [|discriminate]. destruct r1 as [a1|e]; [|discriminate].
    destruct (seq_i rs) as [l0|e] eqn:E; [|discriminate]. inversion H; subst.
    exists (a1 :: a2 :: l0). simpl. rewrite E. split; [reflexivity|apply perm_swap].
  - destruct (IH1 l H) as [l2 [E2 P2]]. destruct (IH2 l2 E2) as [l3 [E3 P3]]. exists l3. split; [exact E3|eapply perm_trans; eauto].
Qed.

Lemma jsonable_pperm : forall v w, pperm v w -> pnodup v -> Rres (jsonable v) (jsonable w).
Proof.
  induction v as [|b|z|r|s|t|ym pr pc t|l IH|m IH] using pval_nested_ind; intros w P N;
    inversion P as [v0|l0 l' F2|m0 m' m'' F2 Pm]; subst;
    try (unfold Rres; destruct (jsonable _) eqn:E; [apply jp_refl|reflexivity]).
  - (* lists *)
    rewrite !jsonable_list_eq.
    assert (R : Forall2 Rres (map jsonable l) (map jsonable l')).
    { inversion N as [| | | | | | |l0 Nl|]; subst. clear P N.
      revert IH Nl. induction F2 as [|x y l l' Hxy Hll IHl]; intros IH Nl; simpl; constructor.
      - inversion IH; subst. inversion Nl; subst. auto.
      - inversion IH; subst. inversion Nl; subst. apply IHl; assumption. }
    pose proof (seq_i_rel _ jperm _ _ R) as S.
    destruct (seq_i (map jsonable l)) as [a|e]; destruct (seq_i (map jsonable l')) as [b|e']; try contradiction; simpl.
    + apply jp_arr. exact S.
    + exact S.
  - (* dictionaries *)
    rewrite !jsonable_dict_eq.
    assert (R : Forall2 Rkv (map lift_kv m) (map lift_kv m')).
    { inversion N as [| | | | | | | |m0 N1 N2]; subst. clear P N N1 Pm.
      revert IH N2. induction F2 as [|x y m m' [Hxy1 Hxy2] Hmm IHm]; intros IH N2; simpl; constructor.
      - inversion IH as [|? ? IHx IHr]; subst. inversion N2 as [|? ? Nx Nr]; subst.
        specialize (IHx _ Hxy2 Nx). unfold Rkv, lift_kv, Rres in *.
        destruct (jsonable (snd x)); destruct (jsonable (snd y)); try contradiction; simpl; auto.
      - inversion IH; subst. inversion N2; subst. apply IHm; assumption. }
    pose proof (seq_i_rel _ (fun a b => fst a = fst b /\ jperm (snd a) (snd b)) _ _ R) as S.
    destruct (seq_i (map lift_kv m)) as [a|e] eqn:E1; destruct (seq_i (map lift_kv m')) as [b|e'] eqn:E2; try contradiction.
    + destruct (seq_i_perm_ok _ _ _ b (Permutation_map lift_kv Pm) E2) as [c [E3 Pc]]. rewrite E3. simpl.
      eapply jp_obj; eauto.
    + subst e'. apply seq_i_err in E2.
      destruct (seq_i_has_err _ (map lift_kv m'') e) as [e'' E3].
      { eapply Permutation_in; [apply Permutation_map; exact Pm|exact E2]. }
      rewrite E3. simpl.
      assert (X : e = EValueError).
      { apply in_map_iff in E2. destruct E2 as [kv [Ek _]]. unfold lift_kv in Ek.
        destruct (jsonable (snd kv)) eqn:Ej; [discriminate|]. inversion Ek; subst. eapply jsonable_err; eauto. }
      assert (Y : e'' = EValueError).
      { apply seq_i_err in E3. apply in_map_iff in E3. destruct E3 as [kv [Ek _]]. unfold lift_kv in Ek.
        destruct (jsonable (snd kv)) eqn:Ej; [discriminate|]. inversion Ek; subst. eapply jsonable_err; eauto. }
      congruence.
Qed.

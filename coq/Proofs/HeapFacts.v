(* Proofs/HeapFacts.v -- facts about the explicit heap of Model/Heap.v:
   the frame relations (`grows`: nothing that existed is changed; `keeps b`:
   nothing below b is changed), what each writing primitive does, and the
   specification of copy.deepcopy (equal value, every container fresh).     *)
From Coq Require Import NArith ZArith String Bool Arith List Lia.
From V Require Import Model.Heap.
Import ListNotations.
Open Scope nat_scope.


(* ------------------------------------------------------------------ *)
(* frame relations                                                      *)

(* every node of h is still there, unchanged, in h' *)
Definition grows (h h' : heap) : Prop :=
  length h <= length h' /\ forall l nd, get h l = Some nd -> get h' l = Some nd.

(* every node of h below b is still there, unchanged, in h' *)
Definition keeps (b : nat) (h h' : heap) : Prop :=
  length h <= length h' /\ forall l nd, l < b -> get h l = Some nd -> get h' l = Some nd.

Lemma get_lt : forall h l nd, get h l = Some nd -> l < length h.
Proof. unfold get. intros h l nd H. apply nth_error_Some. congruence. Qed.

Lemma get_ge : forall h l, length h <= l -> get h l = None.
Proof. unfold get. intros. now apply nth_error_None. Qed.

Lemma grows_refl : forall h, grows h h.
Proof. split; auto. Qed.

Lemma grows_trans : forall a b c, grows a b -> grows b c -> grows a c.
Proof. intros a b c [L1 G1] [L2 G2]. split; [lia | auto]. Qed.

Lemma keeps_refl : forall b h, keeps b h h.
Proof. split; auto. Qed.

Lemma keeps_trans : forall b x y z, keeps b x y -> keeps b y z -> keeps b x z.
Proof. intros b x y z [L1 G1] [L2 G2]. split; [lia | auto]. Qed.

Lemma grows_keeps : forall b h h', grows h h' -> keeps b h h'.
Proof. intros b h h' [L G]. split; auto. Qed.

Lemma keeps_grows : forall h h', keeps (length h) h h' -> grows h h'.
Proof. intros h h' [L G]. split; auto. intros l nd H. apply G; auto. eapply get_lt; eauto. Qed.

Lemma keeps_le : forall b b' h h', b' <= b -> keeps b h h' -> keeps b' h h'.
Proof. intros b b' h h' Hle [L G]. split; auto. intros. apply G; auto. lia. Qed.

Lemma keeps_len : forall b h h', keeps b h h' -> length h <= length h'.
Proof. intros b h h' [L _]. exact L. Qed.

Lemma grows_len : forall h h', grows h h' -> length h <= length h'.
Proof. intros h h' [L _]. exact L. Qed.

Lemma grows_get : forall h h' l nd, grows h h' -> get h l = Some nd -> get h' l = Some nd.
Proof. intros h h' l nd [_ G]. apply G. Qed.

(* ------------------------------------------------------------------ *)
(* alloc and upd                                                        *)

Lemma alloc_spec : forall h n h1 l, alloc h n = (h1, l) -> h1 = h ++ [n] /\ l = length h.
Proof. unfold alloc. intros. inversion H. auto. Qed.

Lemma grows_app : forall h e, grows h (h ++ e).
Proof.
  intros h e. split.
  - rewrite app_length. lia.
  - unfold get. intros l nd H. rewrite nth_error_app1; auto. apply nth_error_Some. congruence.
Qed.

Lemma alloc_grows : forall h n h1 l, alloc h n = (h1, l) -> grows h h1.
Proof. intros h n h1 l H. apply alloc_spec in H. destruct H; subst. apply grows_app. Qed.

Lemma alloc_loc : forall h n h1 l, alloc h n = (h1, l) -> l = length h.
Proof. intros h n h1 l H. apply alloc_spec in H. tauto. Qed.

Lemma alloc_len : forall h n h1 l, alloc h n = (h1, l) -> length h1 = S (length h).
Proof. intros h n h1 l H. apply alloc_spec in H. destruct H; subst. rewrite app_length. simpl. lia. Qed.

Lemma alloc_get_new : forall h n h1 l, alloc h n = (h1, l) -> get h1 l = Some n.
Proof.
  intros h n h1 l H. apply alloc_spec in H. destruct H; subst. unfold get.
  rewrite nth_error_app2; auto. now rewrite Nat.sub_diag.
Qed.

Lemma alloc_get_old : forall h n h1 l l', alloc h n = (h1, l) -> l' <> l -> get h1 l' = get h l'.
Proof.
  intros h n h1 l l' H Hne. apply alloc_spec in H. destruct H; subst. unfold get.
  destruct (lt_dec l' (length h)).
  - now rewrite nth_error_app1.
  - rewrite (proj2 (nth_error_None h l')) by lia.
    apply nth_error_None. rewrite app_length. simpl. lia.
Qed.

(* from here on allocation is used through the lemmas above only *)
Global Opaque alloc.

Lemma upd_length : forall h l n, length (upd h l n) = length h.
Proof. induction h; destruct l; simpl; intros; auto. Qed.

Lemma get_upd_other : forall h l n l', l' <> l -> get (upd h l n) l' = get h l'.
Proof.
  unfold get. induction h; intros l n l' Hne; simpl; auto.
  destruct l; destruct l'; simpl; auto; try congruence.
Qed.

Lemma get_upd_same : forall h l n, l < length h -> get (upd h l n) l = Some n.
Proof.
  unfold get. induction h; intros l n Hl; simpl in *; [lia|].
  destruct l; simpl; auto. apply IHh. lia.
Qed.

Lemma upd_keeps : forall b h l n, b <= l -> keeps b h (upd h l n).
Proof.
  intros b h l n Hb. split.
  - rewrite upd_length. lia.
  - intros l' nd Hl' H. rewrite get_upd_other; auto. lia.
Qed.

(* ------------------------------------------------------------------ *)
(* the writing primitives                                               *)

(* a primitive that wrote location l: one node replaced, nothing else touched *)
Definition wrote (l : nat) (h h' : heap) : Prop :=
  length h' = length h /\ forall l', l' <> l -> get h' l' = get h l'.

Lemma wrote_refl : forall l h, wrote l h h.
Proof. split; auto. Qed.

Lemma wrote_trans : forall l a b c, wrote l a b -> wrote l b c -> wrote l a c.
Proof. intros l a b c [L1 G1] [L2 G2]. split; [lia|]. intros. rewrite G2, G1; auto. Qed.

Lemma wrote_upd : forall h l n, wrote l h (upd h l n).
Proof. split; [apply upd_length | intros; now apply get_upd_other]. Qed.

Lemma wrote_keeps : forall b l h h', b <= l -> wrote l h h' -> keeps b h h'.
Proof.
  intros b l h h' Hb [L G]. split; [lia|]. intros l' nd Hl' H. rewrite G; auto. lia.
Qed.

Lemma set_item_wrote : forall h l k v h', set_item h l k v = Some h' -> wrote l h h'.
Proof.
  unfold set_item. intros h l k v h' H.
  destruct (get h l) as [[m|xs|c fs|m]|]; inversion H; apply wrote_upd.
Qed.

Lemma del_item_wrote : forall h l k h', del_item h l k = Some h' -> wrote l h h'.
Proof.
  unfold del_item. intros h l k h' H.
  destruct (get h l) as [[m|xs|c fs|m]|]; try discriminate.
  destruct (assoc k m); inversion H. apply wrote_upd.
Qed.

Lemma append_item_wrote : forall h l v h', append_item h l v = Some h' -> wrote l h h'.
Proof.
  unfold append_item. intros h l v h' H.
  destruct (get h l) as [[m|xs|c fs|m]|]; inversion H; apply wrote_upd.
Qed.

Lemma set_field_wrote : forall h l k v h', set_field h l k v = Some h' -> wrote l h h'.
Proof.
  unfold set_field. intros h l k v h' H.
  destruct (get h l) as [[m|xs|c fs|m]|]; inversion H; apply wrote_upd.
Qed.

Lemma del_field_wrote : forall h l k h', del_field h l k = Some h' -> wrote l h h'.
Proof.
  unfold del_field. intros h l k h' H.
  destruct (get h l) as [[m|xs|c fs|m]|]; try discriminate.
  destruct (assoc k fs); inversion H. apply wrote_upd.
Qed.

Lemma update_items_wrote : forall m h l h', update_items h l m = Some h' -> wrote l h h'.
Proof.
  induction m as [|[k v] r IH]; simpl; intros h l h' H.
  - destruct (get h l) as [[?|?|? ?|?]|]; inversion H; apply wrote_refl.
  - destruct (set_item h l k v) eqn:E; try discriminate.
    eapply wrote_trans; [eapply set_item_wrote; eauto | eauto].
Qed.

Lemma extend_items_wrote : forall ys h l h', extend_items h l ys = Some h' -> wrote l h h'.
Proof.
  induction ys as [|y r IH]; simpl; intros h l h' H.
  - destruct (get h l) as [[?|?|? ?|?]|]; inversion H; apply wrote_refl.
  - destruct (append_item h l y) eqn:E; try discriminate.
    eapply wrote_trans; [eapply append_item_wrote; eauto | eauto].
Qed.

(* the kind of node at a written location is kept *)
Definition same_kind (a b : node) : Prop :=
  match a, b with
  | NDict _, NDict _ => True
  | NList _, NList _ => True
  | NObj c _, NObj d _ => c = d
  | NStore _, NStore _ => True
  | _, _ => False
  end.

(* ------------------------------------------------------------------ *)
(* values are preserved by the frame                                    *)

Lemma map_opt_ext : forall (A B : Type) (f g : A -> option B) xs ys,
  (forall x y, In x xs -> f x = Some y -> g x = Some y) -> map_opt f xs = Some ys -> map_opt g xs = Some ys.
Proof.
  induction xs as [|x r IH]; simpl; intros ys Hfg H; auto.
  destruct (f x) eqn:E; try discriminate.
  destruct (map_opt f r) eqn:E2; try discriminate.
  rewrite (Hfg x b) by auto. rewrite (IH l) by auto. exact H.
Qed.

(* frame for values: nodes that are not store tables are kept *)
Definition frame_ns (h h' : heap) : Prop :=
  forall l nd, get h l = Some nd -> is_store nd = false -> get h' l = Some nd.

Lemma grows_frame_ns : forall h h', grows h h' -> frame_ns h h'.
Proof. intros h h' [_ G] l nd H _. auto. Qed.

Lemma value_frame : forall h h', frame_ns h h' ->
  forall n v t, value n h v = Some t -> value n h' v = Some t.
Proof.
  intros h h' F. induction n as [|n IH]; intros v t H; destruct v as [a|l]; simpl in *; auto; try discriminate.
  destruct (get h l) as [nd|] eqn:E; try discriminate.
  destruct (shape_of nd) as [s|] eqn:Es; try discriminate.
  assert (is_store nd = false) by (destruct nd; simpl in *; auto; discriminate).
  rewrite (F l nd E H0). rewrite Es.
  destruct (map_opt (value n h) (kids nd)) as [ts|] eqn:Em; try discriminate.
  rewrite (map_opt_ext _ _ (value n h) (value n h') (kids nd) ts); auto.
Qed.

Lemma value_grows : forall h h' n v t, grows h h' -> value n h v = Some t -> value n h' v = Some t.
Proof. intros. eapply value_frame; eauto. now apply grows_frame_ns. Qed.

(* ------------------------------------------------------------------ *)
(* reachability and freshness                                           *)

(* every container reachable from v (within n levels) lies at or above b *)
Fixpoint fresh_tree (n : nat) (b : nat) (h : heap) (v : val) : Prop :=
  match v with
  | VA _ => True
  | VR l => b <= l /\
            match n with
            | O => False
            | S n' => match get h l with
                      | Some nd => Forall (fresh_tree n' b h) (kids nd)
                      | None => False
                      end
            end
  end.

Lemma fresh_tree_mono : forall n b b' h h' v,
  b' <= b -> grows h h' -> fresh_tree n b h v -> fresh_tree n b' h' v.
Proof.
  induction n as [|n IH]; intros b b' h h' v Hb G H; destruct v as [a|l]; simpl in *; auto.
  - tauto.
  - destruct H as [Hl H]. split; [lia|].
    destruct (get h l) as [nd|] eqn:E; [|tauto].
    rewrite (grows_get _ _ _ _ G E).
    eapply Forall_impl; [|exact H]. intros; eapply IH; eauto.
Qed.

Lemma fresh_tree_reaches : forall h v l, reaches h v l -> forall n b, fresh_tree n b h v -> b <= l.
Proof.
  induction 1 as [l nd E | l nd v l' E Hin R IH]; intros n b F.
  - destruct n; simpl in F; tauto.
  - destruct n; simpl in F; [tauto|]. destruct F as [_ F]. rewrite E in F.
    rewrite Forall_forall in F. eapply IH. eauto.
Qed.

Lemma reaches_lt : forall h v l, reaches h v l -> l < length h.
Proof. induction 1; auto. eapply get_lt; eauto. Qed.

(* ------------------------------------------------------------------ *)
(* copy.deepcopy                                                        *)

Lemma combine_fst_snd : forall (A B : Type) (m : list (A * B)), combine (map fst m) (map snd m) = m.
Proof. induction m as [|[? ?] ? IHm]; simpl; congruence. Qed.

Lemma rebuild_kids : forall nd s, shape_of nd = Some s -> rebuild s (kids nd) = nd.
Proof.
  intros [m|xs|c fs|m] s H; inversion H; simpl; auto; now rewrite combine_fst_snd.
Qed.

Lemma combine_fst_len : forall (A B : Type) (ks : list A) (vs : list B),
  length vs = length ks -> map fst (combine ks vs) = ks /\ map snd (combine ks vs) = vs.
Proof.
  induction ks; destruct vs; simpl; intros; try discriminate; auto.
  destruct (IHks vs) as [E1 E2]; [lia|]. rewrite E1, E2. auto.
Qed.

Definition shape_len (s : shape) (n : nat) : Prop :=
  match s with SDict ks => n = length ks | SList => True | SObj _ ks => n = length ks end.

Lemma shape_of_len : forall nd s, shape_of nd = Some s -> shape_len s (length (kids nd)).
Proof. intros [m|xs|c fs|m] s H; inversion H; simpl; auto; now rewrite !map_length. Qed.

Lemma rebuild_shape : forall s vs, shape_len s (length vs) ->
  shape_of (rebuild s vs) = Some s /\ kids (rebuild s vs) = vs.
Proof.
  intros [ks| |c ks] vs H; simpl in *; auto;
    destruct (combine_fst_len _ _ ks vs H) as [E1 E2]; rewrite E1, E2; auto.
Qed.

Lemma mapM_err : forall f vs h h' e, mapM f vs h = (h', inr e) -> forall v, e <> RVal v.
Proof.
  induction vs as [|x r IH]; simpl; intros h h' e H v; [discriminate|].
  destruct (f x h) as [h1 r1] eqn:E1.
  destruct r1; try (inversion H; subst; discriminate).
  destruct (mapM f r h1) as [h2 [cs|e']] eqn:E2; inversion H; subst. eapply IH; eauto.
Qed.

Section DeepcopyList.
  Variable n : nat.
  (* what the induction hypothesis gives for the elements *)
  Hypothesis IHg : forall v h h' r, deepcopy n v h = (h', r) -> grows h h'.
  Hypothesis IHf : forall v h h' c, deepcopy n v h = (h', RVal c) -> fresh_tree n (length h) h' c.
  Hypothesis IHv : forall v h h' c t, deepcopy n v h = (h', RVal c) -> value n h v = Some t -> value n h' c = Some t.
  Hypothesis IHt : forall v h t, value n h v = Some t -> exists h' c, deepcopy n v h = (h', RVal c).

  Lemma mapM_grows : forall vs h h' r, mapM (deepcopy n) vs h = (h', r) -> grows h h'.
  Proof.
    induction vs as [|v r IH]; simpl; intros h h' res H.
    - inversion H. apply grows_refl.
    - destruct (deepcopy n v h) as [h1 r1] eqn:E1.
      assert (G1 := IHg _ _ _ _ E1).
      destruct r1; try (inversion H; subst; auto; fail).
      destruct (mapM (deepcopy n) r h1) as [h2 [cs|e]] eqn:E2; inversion H; subst;
        eapply grows_trans; eauto.
  Qed.

  Lemma mapM_fresh : forall vs h h' cs, mapM (deepcopy n) vs h = (h', inl cs) ->
    Forall (fresh_tree n (length h) h') cs /\ length cs = length vs.
  Proof.
    induction vs as [|v r IH]; simpl; intros h h' cs H.
    - inversion H. auto.
    - destruct (deepcopy n v h) as [h1 r1] eqn:E1.
      destruct r1; try discriminate.
      destruct (mapM (deepcopy n) r h1) as [h2 [cs'|e]] eqn:E2; inversion H; subst.
      destruct (IH _ _ _ E2) as [F L]. split; [|simpl; lia].
      assert (G1 := IHg _ _ _ _ E1). assert (G2 := mapM_grows _ _ _ _ E2).
      constructor.
      + eapply fresh_tree_mono; [| exact G2 | eapply IHf; eauto]. lia.
      + eapply Forall_impl; [|exact F]. intros a Ha.
        eapply fresh_tree_mono; [| apply grows_refl | exact Ha]. eapply grows_len; eauto.
  Qed.

  Lemma mapM_value : forall vs h h' cs ts, mapM (deepcopy n) vs h = (h', inl cs) ->
    map_opt (value n h) vs = Some ts -> map_opt (value n h') cs = Some ts.
  Proof.
    induction vs as [|v r IH]; simpl; intros h h' cs ts H Hv.
    - inversion H. subst. simpl. auto.
    - destruct (deepcopy n v h) as [h1 r1] eqn:E1.
      destruct r1; try discriminate.
      destruct (mapM (deepcopy n) r h1) as [h2 [cs'|e]] eqn:E2; inversion H; subst.
      destruct (value n h v) as [t|] eqn:Ev; try discriminate.
      destruct (map_opt (value n h) r) as [ts'|] eqn:Er; try discriminate.
      inversion Hv; subst. simpl.
      assert (G1 := IHg _ _ _ _ E1). assert (G2 := mapM_grows _ _ _ _ E2).
      rewrite (value_grows _ _ _ _ _ G2 (IHv _ _ _ _ _ E1 Ev)).
      erewrite IH; eauto.
      eapply map_opt_ext; [|exact Er]. intros; eapply value_grows; eauto.
  Qed.

  Lemma mapM_total : forall vs h ts, map_opt (value n h) vs = Some ts ->
    exists h' cs, mapM (deepcopy n) vs h = (h', inl cs).
  Proof.
    induction vs as [|v r IH]; simpl; intros h ts Hv.
    - eauto.
    - destruct (value n h v) as [t|] eqn:Ev; try discriminate.
      destruct (map_opt (value n h) r) as [ts'|] eqn:Er; try discriminate.
      destruct (IHt _ _ _ Ev) as (h1 & c & E1). rewrite E1.
      assert (G1 := IHg _ _ _ _ E1).
      destruct (IH h1 ts') as (h2 & cs & E2).
      { eapply map_opt_ext; [|exact Er]. intros; eapply value_grows; eauto. }
      rewrite E2. eauto.
  Qed.
End DeepcopyList.

Lemma deepcopy_grows : forall n v h h' r, deepcopy n v h = (h', r) -> grows h h'.
Proof.
  induction n as [|n IH]; intros v h h' r H; destruct v as [a|l]; simpl in H;
    try (inversion H; apply grows_refl).
  destruct (get h l) as [nd|]; [|inversion H; apply grows_refl].
  destruct (shape_of nd) as [s|]; [|inversion H; apply grows_refl].
  destruct (mapM (deepcopy n) (kids nd) h) as [h1 [vs|e]] eqn:Em; simpl in H.
  - destruct (alloc h1 (rebuild s vs)) as [h2 l2] eqn:Ea. inversion H; subst.
    eapply grows_trans; [eapply mapM_grows; eauto | eapply alloc_grows; eauto].
  - inversion H; subst. eapply mapM_grows; eauto.
Qed.

(* the result of a deep copy of a container is a new location *)
Lemma deepcopy_ref : forall n l h h' c, deepcopy n (VR l) h = (h', RVal c) ->
  exists l2, c = VR l2 /\ length h <= l2 /\ l2 < length h'.
Proof.
  intros n l h h' c H. destruct n; simpl in H; try discriminate.
  destruct (get h l) as [nd|]; try discriminate.
  destruct (shape_of nd) as [s|]; try discriminate.
  destruct (mapM (deepcopy n) (kids nd) h) as [h1 [vs|e]] eqn:Em; simpl in H; [|inversion H; subst; exfalso; eapply mapM_err; eauto].
  destruct (alloc h1 (rebuild s vs)) as [h2 l2] eqn:Ea. inversion H; subst.
  exists l2. split; auto.
  assert (G := mapM_grows n (deepcopy_grows n) _ _ _ _ Em).
  rewrite (alloc_loc _ _ _ _ Ea), (alloc_len _ _ _ _ Ea). apply grows_len in G. lia.
Qed.

Lemma deepcopy_atom : forall n a h h' c, deepcopy n (VA a) h = (h', RVal c) -> c = VA a /\ h' = h.
Proof. intros n a h h' c H. destruct n; simpl in H; inversion H; auto. Qed.

Lemma deepcopy_fresh : forall n v h h' c, deepcopy n v h = (h', RVal c) -> fresh_tree n (length h) h' c.
Proof.
  induction n as [|n IH]; intros v h h' c H; destruct v as [a|l]; simpl in H;
    try (inversion H; subst; simpl; auto; fail).
  destruct (get h l) as [nd|]; try discriminate.
  destruct (shape_of nd) as [s|] eqn:Es; try discriminate.
  destruct (mapM (deepcopy n) (kids nd) h) as [h1 [vs|e]] eqn:Em; simpl in H; [|inversion H; subst; exfalso; eapply mapM_err; eauto].
  destruct (alloc h1 (rebuild s vs)) as [h2 l2] eqn:Ea. inversion H; subst.
  assert (G := mapM_grows n (deepcopy_grows n) _ _ _ _ Em).
  destruct (mapM_fresh n (deepcopy_grows n) IH _ _ _ _ Em) as [F L].
  simpl. split.
  - rewrite (alloc_loc _ _ _ _ Ea). eapply grows_len; eauto.
  - rewrite (alloc_get_new _ _ _ _ Ea).
    destruct (rebuild_shape s vs) as [_ K].
    { rewrite L. now apply shape_of_len. }
    rewrite K. eapply Forall_impl; [|exact F]. intros a Ha.
    eapply fresh_tree_mono; [| eapply alloc_grows; eauto | exact Ha]. lia.
Qed.

Lemma deepcopy_value : forall n v h h' c t, deepcopy n v h = (h', RVal c) ->
  value n h v = Some t -> value n h' c = Some t.
Proof.
  induction n as [|n IH]; intros v h h' c t H Hv; destruct v as [a|l]; simpl in H, Hv;
    try (inversion H; subst; simpl; auto; fail); try discriminate.
  destruct (get h l) as [nd|]; try discriminate.
  destruct (shape_of nd) as [s|] eqn:Es; try discriminate.
  destruct (mapM (deepcopy n) (kids nd) h) as [h1 [vs|e]] eqn:Em; simpl in H; [|inversion H; subst; exfalso; eapply mapM_err; eauto].
  destruct (alloc h1 (rebuild s vs)) as [h2 l2] eqn:Ea. inversion H; subst.
  destruct (map_opt (value n h) (kids nd)) as [ts|] eqn:Ek; try discriminate.
  inversion Hv; subst.
  destruct (mapM_fresh n (deepcopy_grows n) (deepcopy_fresh n) _ _ _ _ Em) as [_ L].
  destruct (rebuild_shape s vs) as [S K].
  { rewrite L. now apply shape_of_len. }
  simpl. rewrite (alloc_get_new _ _ _ _ Ea), S, K.
  assert (M := mapM_value n (deepcopy_grows n) IH _ _ _ _ _ Em Ek).
  erewrite map_opt_ext; [reflexivity | | exact M].
  intros; eapply value_grows; eauto. eapply alloc_grows; eauto.
Qed.

Lemma deepcopy_total : forall n v h t, value n h v = Some t -> exists h' c, deepcopy n v h = (h', RVal c).
Proof.
  induction n as [|n IH]; intros v h t Hv; destruct v as [a|l]; simpl in *; eauto; try discriminate.
  destruct (get h l) as [nd|]; try discriminate.
  destruct (shape_of nd) as [s|] eqn:Es; try discriminate.
  destruct (map_opt (value n h) (kids nd)) as [ts|] eqn:Ek; try discriminate.
  destruct (mapM_total n (deepcopy_grows n) IH _ _ _ Ek) as (h1 & cs & Em). rewrite Em.
  destruct (alloc h1 (rebuild s cs)) as [h2 l2] eqn:Ea. eauto.
Qed.

(* C13, third sentence: a deep copy is equal to its original and shares no
   mutable state with it -- and making it changes nothing that existed.     *)
Lemma deepcopy_equal_disjoint_l : forall n v h t, value n h v = Some t ->
  exists h' c, deepcopy n v h = (h', RVal c) /\
               value n h' c = Some t /\
               (forall l, reaches h' c l -> length h <= l) /\
               (forall l, reaches h v l -> ~ reaches h' c l) /\
               (forall l nd, get h l = Some nd -> get h' l = Some nd).
Proof.
  intros n v h t Hv. destruct (deepcopy_total _ _ _ _ Hv) as (h' & c & E).
  exists h', c. split; auto. split; [eapply deepcopy_value; eauto|].
  assert (D : forall l, reaches h' c l -> length h <= l).
  { intros l R. eapply fresh_tree_reaches; eauto. eapply deepcopy_fresh; eauto. }
  split; auto. split.
  - intros l R R'. apply reaches_lt in R. apply D in R'. lia.
  - intros. eapply grows_get; eauto. eapply deepcopy_grows; eauto.
Qed.

Lemma deepcopy_disjoint_l : forall n v h h' c, deepcopy n v h = (h', RVal c) ->
  (forall l, reaches h' c l -> length h <= l) /\ (forall l nd, get h l = Some nd -> get h' l = Some nd).
Proof.
  intros n v h h' c E. split.
  - intros l R. eapply fresh_tree_reaches; eauto. eapply deepcopy_fresh; eauto.
  - intros. eapply grows_get; eauto. eapply deepcopy_grows; eauto.
Qed.

(* ------------------------------------------------------------------ *)
(* the other copies                                                     *)

Lemma shallow_copy_grows : forall v h h' r, shallow_copy v h = (h', r) -> grows h h'.
Proof.
  unfold shallow_copy. intros v h h' r H. destruct v as [a|l]; [inversion H; apply grows_refl|].
  destruct (get h l) as [[m|xs|c fs|m]|]; try (inversion H; apply grows_refl);
    match type of H with (let (_, _) := alloc ?h ?n in _) = _ => destruct (alloc h n) as [h1 l1] eqn:Ea end;
    inversion H; subst; eapply alloc_grows; eauto.
Qed.

Lemma shallow_copy_ref : forall l h h' c, shallow_copy (VR l) h = (h', RVal c) ->
  exists l2 nd, c = VR l2 /\ l2 = length h /\ get h l = Some nd /\ is_store nd = false /\ get h' l2 = Some nd /\ length h' = S (length h).
Proof.
  unfold shallow_copy. intros l h h' c H.
  destruct (get h l) as [nd|] eqn:E; try discriminate.
  destruct nd as [m|xs|cl fs|m]; try discriminate;
    match type of H with (let (_, _) := alloc ?h ?n in _) = _ => destruct (alloc h n) as [h1 l1] eqn:Ea end;
    inversion H; subst; eexists; eexists; repeat split; eauto using alloc_loc, alloc_get_new, alloc_len.
Qed.

Lemma copy_at_grows : forall cm n v h h' r, copy_at cm n v h = (h', r) -> grows h h'.
Proof.
  intros [| |] n v h h' r H; simpl in H.
  - eapply deepcopy_grows; eauto.
  - eapply shallow_copy_grows; eauto.
  - inversion H. apply grows_refl.
Qed.

Lemma copy_at_fresh : forall cm n v h h' c, cm <> NoCopy -> copy_at cm n v h = (h', RVal (VR c)) -> length h <= c.
Proof.
  intros [| |] n v h h' c Hcm H; simpl in H; try congruence.
  - destruct v as [a|l].
    + apply deepcopy_atom in H. destruct H; discriminate.
    + apply deepcopy_ref in H. destruct H as (l2 & E & ? & ?). inversion E. lia.
  - destruct v as [a|l].
    + unfold shallow_copy in H. inversion H.
    + apply shallow_copy_ref in H. destruct H as (l2 & nd & E & ? & _). inversion E. lia.
Qed.

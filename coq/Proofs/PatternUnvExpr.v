(* Proofs/PatternUnvExpr.v -- C10: `unvisit` on expressions of the object model.

   Main lemma `unv_good`: whenever unvisit finds a parse tree for an object
   whose constants and names are printable (`aprint`), that tree is well
   formed, its yield is exactly the printed tokens, and it means what the
   object means; if moreover the object has the shape the visitor produces
   (`vexpr`), the tree satisfies the visitor's side conditions and the
   visitor maps it back to the very same object.                            *)
From Coq Require Import NArith ZArith List String Bool Lia.
From V Require Import Model.PatternSyntax Spec.PatternSpec Proofs.PatternR Proofs.PatternNumbers Proofs.PatternLit Proofs.PatternPath
  Proofs.PatternCmp Proofs.PatternObs Proofs.PatternEscape Proofs.PatternTokens Proofs.PatternMeaning
  Proofs.PatternUnvConst Proofs.PatternUnvPath.
Import ListNotations.
Open Scope N_scope.

(* ------------------------------------------------------------------ *)
(** * Printable objects *)






(* ------------------------------------------------------------------ *)
(** * Reading a result of unv at its own grammar level *)

Definition ac_yield (c : anycmp) : list token :=
  match c with AC_pt p => yield_pt p | AC_and a => yield_and a | AC_or o => yield_or o end.
Definition ac_wf (c : anycmp) : bool :=
  match c with AC_pt p => wf_pt p | AC_and a => wf_and a | AC_or o => wf_or o end.
Definition ac_meaning (c : anycmp) : mexpr :=
  match c with AC_pt p => mc_pt p | AC_and a => mc_and a | AC_or o => mc_or o end.
Definition ac_sv (c : anycmp) : aexpr :=
  match c with AC_pt p => sv_pt p | AC_and a => sv_and a | AC_or o => sv_or o end.
Definition ac_sem (c : anycmp) : bool :=
  match c with AC_pt p => sem_pt p | AC_and a => sem_and a | AC_or o => sem_or o end.
Definition ac_rt (c : anycmp) : list ustring :=
  match c with AC_pt p => rt_pt p | AC_and a => rt_and a | AC_or o => rt_or o end.
(* AC_and / AC_or are only produced for chains of two or more *)
Definition ac_inv (c : anycmp) : Prop :=
  match c with
  | AC_pt _ => True
  | AC_and (CAnd _ _) => True
  | AC_or (COr _ _) => True
  | _ => False
  end.

Definition ao_yield (o : anyobs) : list token :=
  match o with AO_obs x => yield_obs x | AO_and x => yield_oand x | AO_or x => yield_oor x | AO_fb x => yield_fb x end.
Definition ao_wf (o : anyobs) : bool :=
  match o with AO_obs x => wf_obs x | AO_and x => wf_oand x | AO_or x => wf_oor x | AO_fb x => wf_fb x end.
Definition ao_meaning (o : anyobs) : mexpr :=
  match o with
  | AO_obs x => mc_obs x
  | AO_and x => one_or (MObsOp OpAnd) (mc_oand_list x)
  | AO_or x => one_or (MObsOp OpOr) (mc_oor_list x)
  | AO_fb x => one_or (MObsOp OpFb) (mc_fb_list x)
  end.
Definition ao_sv (o : anyobs) : aexpr :=
  match o with AO_obs x => sv_obs x | AO_and x => sv_oand x | AO_or x => sv_oor x | AO_fb x => sv_fb x end.
Definition ao_sem (o : anyobs) : bool :=
  match o with AO_obs x => sem_obs x | AO_and x => sem_oand x | AO_or x => sem_oor x | AO_fb x => sem_fb x end.
Definition ao_inv (o : anyobs) : Prop :=
  match o with
  | AO_obs _ => True
  | AO_and (OAnd _ _) => True
  | AO_or (OOr _ _) => True
  | AO_fb (OFb _ _) => True
  | _ => False
  end.

Definition u_yield (u : ucst) : list token := match u with UCmp c => ac_yield c | UObs o => ao_yield o end.
Definition u_wf (u : ucst) : bool := match u with UCmp c => ac_wf c | UObs o => ao_wf o end.
Definition u_meaning (u : ucst) : mexpr := match u with UCmp c => ac_meaning c | UObs o => ao_meaning o end.
Definition u_sv (u : ucst) : aexpr := match u with UCmp c => ac_sv c | UObs o => ao_sv o end.
Definition u_sem (u : ucst) : bool := match u with UCmp c => ac_sem c | UObs o => ao_sem o end.
Definition u_inv (u : ucst) : Prop := match u with UCmp c => ac_inv c | UObs o => ao_inv o end.
Definition u_rt (u : ucst) : list ustring := match u with UCmp c => ac_rt c | UObs _ => [] end.

(* ---- lifting to a looser level changes nothing ---- *)

Lemma lift_or_facts : forall c, ac_inv c ->
  yield_or (lift_or c) = ac_yield c /\ wf_or (lift_or c) = ac_wf c /\ mc_or (lift_or c) = ac_meaning c /\
  sv_or (lift_or c) = ac_sv c /\ sem_or (lift_or c) = ac_sem c /\ rt_or (lift_or c) = ac_rt c.
Proof. intros [p|a|o] H; cbn; repeat split; reflexivity. Qed.

Lemma lift_and_facts : forall c a, ac_inv c -> lift_and c = Some a ->
  yield_and a = ac_yield c /\ wf_and a = ac_wf c /\ mc_and a = ac_meaning c /\
  sv_and a = ac_sv c /\ sem_and a = ac_sem c /\ rt_and a = ac_rt c.
Proof. intros [p|a'|o] a H E; cbn in E; inversion E; subst; cbn; repeat split; reflexivity. Qed.

Lemma lift_pt_facts : forall c p, lift_pt c = Some p -> c = AC_pt p.
Proof. intros [p'|a|o] p E; cbn in E; inversion E; reflexivity. Qed.

Lemma lift_fb_facts : forall o, ao_inv o ->
  yield_fb (lift_fb o) = ao_yield o /\ wf_fb (lift_fb o) = ao_wf o /\
  one_or (MObsOp OpFb) (mc_fb_list (lift_fb o)) = ao_meaning o /\
  sv_fb (lift_fb o) = ao_sv o /\ sem_fb (lift_fb o) = ao_sem o.
Proof. intros [x|x|x|x] H; cbn; repeat split; reflexivity. Qed.

Lemma lift_oor_facts : forall o x, ao_inv o -> lift_oor o = Some x ->
  yield_oor x = ao_yield o /\ wf_oor x = ao_wf o /\
  one_or (MObsOp OpOr) (mc_oor_list x) = ao_meaning o /\
  sv_oor x = ao_sv o /\ sem_oor x = ao_sem o.
Proof. intros [y|y|y|y] x H E; cbn in E; inversion E; subst; cbn; repeat split; reflexivity. Qed.

Lemma lift_oand_facts : forall o x, ao_inv o -> lift_oand o = Some x ->
  yield_oand x = ao_yield o /\ wf_oand x = ao_wf o /\
  one_or (MObsOp OpAnd) (mc_oand_list x) = ao_meaning o /\
  sv_oand x = ao_sv o /\ sem_oand x = ao_sem o.
Proof. intros [y|y|y|y] x H E; cbn in E; inversion E; subst; cbn; repeat split; reflexivity. Qed.

Lemma lift_obs_facts : forall o x, lift_obs o = Some x -> o = AO_obs x.
Proof. intros [y|y|y|y] x E; cbn in E; inversion E; reflexivity. Qed.

(* ------------------------------------------------------------------ *)
(** * Levels, root types and the visitor's shape, on the object model *)




Definition u_level (u : ucst) : alevel :=
  match u with
  | UCmp (AC_pt _) => LPt | UCmp (AC_and _) => LAnd | UCmp (AC_or _) => LOr
  | UObs (AO_obs _) => LObs | UObs (AO_and _) => LOAnd | UObs (AO_or _) => LOOr | UObs (AO_fb _) => LOFb
  end.

Lemma level_eqb_eq : forall a b, level_eqb a b = true -> a = b.
Proof. intros [] []; cbn; intros H; try discriminate; reflexivity. Qed.



(* every intersection along an AND chain is non-empty *)




(* the classes accepted the object: every AND has operands with a common object type *)

Definition Good (a : aexpr) (u : ucst) : Prop :=
  u_wf u = true /\ u_yield u = toks_of (pr a) /\ u_meaning u = ma a /\ u_inv u /\ u_level u = level a /\
  u_rt u = a_rt a /\
  (constructible a = true -> u_sem u = true) /\
  (vexpr a = true -> u_sv u = a).

Definition PGood (a : aexpr) : Prop := forall u, unv a = Some u -> aprint a = true -> Good a u.

(* ---- printing of operand lists ---- *)

Lemma toks_sep_op : forall t x rest,
  toks_of (sep_items [Sp; T t; Sp] (x :: rest)) = toks_of x ++ flat_map (fun y => t :: toks_of y) rest.
Proof.
  intros t x rest. revert x. induction rest as [|y r IH]; intros x.
  - cbn [sep_items flat_map]. rewrite app_nil_r. reflexivity.
  - change (sep_items [Sp; T t; Sp] (x :: y :: r)) with (x ++ [Sp; T t; Sp] ++ sep_items [Sp; T t; Sp] (y :: r)).
    rewrite !toks_of_app, IH. cbn [toks_of flat_map List.app]. reflexivity.
Qed.

Lemma toks_sep_comma : forall x rest,
  toks_of (sep_items [T t_COMMA; Sp] (x :: rest)) = toks_of x ++ flat_map (fun y => t_COMMA :: toks_of y) rest.
Proof.
  intros x rest. revert x. induction rest as [|y r IH]; intros x.
  - cbn [sep_items flat_map]. rewrite app_nil_r. reflexivity.
  - change (sep_items [T t_COMMA; Sp] (x :: y :: r)) with (x ++ [T t_COMMA; Sp] ++ sep_items [T t_COMMA; Sp] (y :: r)).
    rewrite !toks_of_app, IH. cbn [toks_of flat_map List.app]. reflexivity.
Qed.

(* custom induction principle: operands of EBool / ECompound *)
Lemma aexpr_ind' (P : aexpr -> Prop)
  (HCmp : forall cls lhs rhs neg, P (ECmp cls lhs rhs neg))
  (HBool : forall isand ops, Forall P ops -> P (EBool isand ops))
  (HObs : forall x, P x -> P (EObs x))
  (HCpd : forall op ops, Forall P ops -> P (ECompound op ops))
  (HPar : forall x, P x -> P (EParen x))
  (HQual : forall x q, P x -> P (EQualified x q)) : forall a, P a.
Proof.
  fix IH 1. intros a. destruct a as [cls lhs rhs neg|isand ops|x|op ops|x|x q].
  - apply HCmp.
  - apply HBool. induction ops as [|y r IHr]; constructor; [apply IH|exact IHr].
  - apply HObs, IH.
  - apply HCpd. induction ops as [|y r IHr]; constructor; [apply IH|exact IHr].
  - apply HPar, IH.
  - apply HQual, IH.
Qed.

(* ------------------------------------------------------------------ *)
(** * Comparisons *)

Lemma unv_path_type : forall p op, unv_path p = Some op -> tx (op_type op) = ap_type p.
Proof.
  intros [ty comps] op H. unfold PatternSyntax.unv_path in H. cbn [ap_comps ap_type] in H.
  destruct comps as [|c r]; [discriminate|]. inversion H; subst op. reflexivity.
Qed.

Lemma pr_const_leaf : forall c, const_ok c = true -> pr_const c = [T (const_tok c)].
Proof. intros c H. unfold const_tok. destruct c; try reflexivity. discriminate H. Qed.

Lemma toks_of_consts_ok : forall l, forallb const_ok l = true -> toks_of_consts l = Some (map const_tok l).
Proof.
  induction l as [|c r IH]; intros H; [reflexivity|]. cbn [forallb] in H. apply andb_true_iff in H. destruct H as [Hc Hr].
  cbn [PatternSyntax.toks_of_consts map]. rewrite (tok_of_const_leaf c Hc), (IH Hr). reflexivity.
Qed.

Lemma yield_set_consts : forall l, forallb const_ok l = true ->
  toks_of (sep_items [T t_COMMA; Sp] (map pr_const l)) = yield_set (map const_tok l).
Proof.
  intros [|c r] H; [reflexivity|]. cbn [map]. rewrite toks_sep_comma.
  cbn [forallb] in H. apply andb_true_iff in H. destruct H as [Hc Hr].
  rewrite (pr_const_leaf c Hc). cbn [toks_of List.app].
  revert c Hc. induction r as [|d r IH]; intros c Hc; [reflexivity|].
  cbn [forallb] in Hr. apply andb_true_iff in Hr. destruct Hr as [Hd Hr].
  cbn [map flat_map]. rewrite (pr_const_leaf d Hd). cbn [toks_of List.app].
  change (yield_set (const_tok c :: const_tok d :: map const_tok r)) with (const_tok c :: t_COMMA :: yield_set (const_tok d :: map const_tok r)).
  f_equal. f_equal. apply (IH Hr d Hd).
Qed.

Lemma consts_wf : forall l, forallb const_ok l = true ->
  forallb (fun t => kind_in t primitive_kinds) (map const_tok l) = true /\ forallb lit_sem (map const_tok l) = true /\
  map m_tok (map const_tok l) = map ma_const l.
Proof.
  induction l as [|c r IH]; intros H; [repeat split; reflexivity|].
  cbn [forallb] in H. apply andb_true_iff in H. destruct H as [Hc Hr]. destruct (IH Hr) as [I1 [I2 I3]].
  destruct (const_token c Hc) as [K [S _]]. cbn [map forallb].
  rewrite (kinds_primitive c _ K), S, I1, I2, (const_meaning c Hc), I3. repeat split; reflexivity.
Qed.

Lemma consts_canon_back : forall l, forallb (fun c => const_ok c && const_canon c) l = true ->
  forallb const_ok l = true /\ map sv_lit (map const_tok l) = l.
Proof.
  induction l as [|c r IH]; intros H; [split; reflexivity|].
  cbn [forallb] in H. apply andb_true_iff in H. destruct H as [Hc Hr]. apply andb_true_iff in Hc. destruct Hc as [Ho Hn].
  destruct (IH Hr) as [I1 I2]. cbn [forallb map]. rewrite Ho, I1, I2. split; [reflexivity|]. f_equal.
  destruct (const_token c Ho) as [_ [_ V]]. destruct c as [v [|]|t|z|f|b|v|v|l]; try exact V; discriminate Hn.
Qed.

Lemma const_canon_back : forall c, const_ok c = true -> const_canon c = true -> sv_lit (const_tok c) = c.
Proof.
  intros c Ho Hn. destruct (const_token c Ho) as [_ [_ V]].
  destruct c as [v [|]|t|z|f|b|v|v|l]; try exact V; discriminate Hn.
Qed.

Lemma toks_pr_cmp : forall cls lhs rhs neg,
  toks_of (pr (ECmp cls lhs rhs neg)) =
  toks_of (pr_path lhs) ++ opt_not neg ++ [cls_operator cls rhs] ++ toks_of (pr_const rhs).
Proof.
  intros cls lhs rhs neg. cbn [PatternSyntax.pr]. rewrite !toks_of_app. destruct neg; reflexivity.
Qed.

Lemma is_string_kind : forall c, const_ok c = true -> is_string c = true -> kind_in (const_tok c) [KString] = true.
Proof. intros c Ho Hs. destruct (const_token c Ho) as [K _]. destruct c; try discriminate Hs. exact K. Qed.

Lemma string_lit_sem : forall t, kind_in t [KString] = true -> lit_sem t = true.
Proof. intros t H. destruct (kind_single _ _ H) as [Hk _]. apply lit_sem_other; rewrite Hk; discriminate. Qed.

Lemma cmp_good : forall cls lhs rhs neg, PGood (ECmp cls lhs rhs neg).
Proof.
  intros cls lhs rhs neg u U A. cbn [PatternSyntax.unv] in U. cbn [aprint] in A. apply andb_true_iff in A. destruct A as [Ap Ar].
  destruct (unv_cmp cls lhs rhs neg) as [p|] eqn:E; [|discriminate]. inversion U; subst u; clear U.
  unfold PatternSyntax.unv_cmp in E. destruct (unv_path_ok lhs Ap) as [op [Eo [Wp [Yp Mp]]]]. rewrite Eo in E.
  pose proof (unv_path_type lhs op Eo) as Ty.
  unfold Good. cbn [u_wf u_yield u_meaning u_inv u_level u_sem u_sv u_rt ac_wf ac_yield ac_meaning ac_inv ac_sem ac_sv ac_rt level].
  rewrite toks_pr_cmp.
  assert (VP : vpath lhs = true -> sv_path_v op = lhs) by (intros V; apply (unv_path_back lhs op V Eo)).
  pose proof (unv_path_sem lhs op Eo) as S1.
  (* the four shapes of the right-hand side *)
  assert (SetCase : forall l, rhs = CList l -> forallb const_ok l = true -> p = PTSet op neg (map const_tok l) ->
            (cls = KlEq \/ cls = KlIn) ->
            wf_pt p = true /\ yield_pt p = toks_of (pr_path lhs) ++ opt_not neg ++ [cls_operator cls rhs] ++ toks_of (pr_const rhs) /\
            mc_pt p = ma (ECmp cls lhs rhs neg) /\ True /\ LPt = LPt /\
            rt_pt p = a_rt (ECmp cls lhs rhs neg) /\
            (constructible (ECmp cls lhs rhs neg) = true -> sem_pt p = true) /\
            (vexpr (ECmp cls lhs rhs neg) = true -> sv_pt p = ECmp cls lhs rhs neg)).
  { intros l El Hl Ep Hc. subst rhs p. destruct (consts_wf l Hl) as [W1 [W2 W3]].
    split; [cbn [wf_pt]; rewrite Wp, W1; reflexivity|]. split; [|split; [|split; [exact I|split; [reflexivity|split; [|split]]]]].
    - cbn [yield_pt PatternSyntax.pr_const]. rewrite Yp, !toks_of_app, (yield_set_consts l Hl).
      assert (Op : cls_operator cls (CList l) = t_IN) by (destruct Hc; subst cls; reflexivity). rewrite Op.
      cbn [toks_of List.app]. reflexivity.
    - cbn [mc_pt PatternSyntax.ma ma_const]. rewrite Mp, W3.
      assert (Op : ma_op cls (CList l) = MoIn) by (destruct Hc; subst cls; reflexivity). rewrite Op. reflexivity.
    - cbn [rt_pt a_rt]. rewrite Ty. reflexivity.
    - intros _. cbn [sem_pt]. rewrite S1, W2. reflexivity.
    - intros V. cbn [vexpr] in V. apply andb_true_iff in V. destruct V as [V1 V2]. pose proof (VP V1) as S2.
      destruct Hc; subst cls; [discriminate V2|]. cbn [vrhs] in V2. destruct (consts_canon_back l V2) as [_ B].
      cbn [sv_pt]. rewrite S2, B. reflexivity. }
  destruct cls; destruct rhs as [v q|t|z|f|b|v|v|l]; cbn [rhs_ok] in Ar;
    try discriminate Ar; try (cbn [const_ok not_bool is_string andb] in Ar; rewrite ?andb_false_r in Ar; discriminate Ar);
    try (destruct (toks_of_consts l) as [ts|] eqn:Et; [|discriminate E];
         rewrite (toks_of_consts_ok l Ar) in Et; injection Et as Et; subst ts; injection E as Ep;
         apply (SetCase l eq_refl Ar (eq_sym Ep)); auto).
  all: match type of E with
       | match tok_of_const ?c with _ => _ end = _ =>
           let Ho := fresh "Ho" in
           assert (Ho : const_ok c = true) by (first [exact Ar | apply andb_true_iff in Ar; tauto]);
           rewrite (tok_of_const_leaf c Ho) in E; inversion E as [Ep]; clear E;
           destruct (const_token c Ho) as [K [S _]];
           pose proof (const_meaning c Ho) as Mc;
           pose proof (pr_const_leaf c Ho) as Pc
       end.
  all: rewrite Pc; cbn [toks_of].
  all: split; [cbn [wf_pt]; rewrite Wp;
               first [ rewrite (kinds_primitive _ _ K); reflexivity
                     | match type of K with kind_in (const_tok ?c) _ = _ => rewrite (kinds_orderable c _ I K) end; reflexivity
                     | rewrite (is_string_kind _ Ho (proj2 (proj1 (andb_true_iff _ _) Ar))); reflexivity ]|].
  all: split; [cbn [yield_pt cls_operator strop_tok]; rewrite Yp; reflexivity|].
  all: split; [cbn [mc_pt PatternSyntax.ma ma_op m_order_op m_strop tk t_EQ t_GT t_LT t_GE t_LE tkind_eqb negb xorb]; rewrite Mp, Mc;
               try rewrite xorb_false_r; reflexivity|].
  all: split; [exact I|]. all: split; [reflexivity|].
  all: split; [cbn [rt_pt a_rt]; rewrite Ty; reflexivity|].
  all: split; [intros _; cbn [sem_pt]; rewrite S1; try rewrite S; reflexivity|].
  all: intros V; cbn [vexpr] in V; apply andb_true_iff in V; destruct V as [V1 V2]; pose proof (VP V1) as S2;
       cbn [vrhs] in V2; apply andb_true_iff in V2; destruct V2 as [_ V2];
       cbn [sv_pt order_cls strop_cls tk t_EQ t_GT t_LT t_GE t_LE tkind_eqb negb xorb];
       rewrite S2, (const_canon_back _ Ho V2); try reflexivity; destruct neg; reflexivity.
Qed.

(* ------------------------------------------------------------------ *)
(** * Chains of operands *)

Lemma as_cmp_some : forall x c, as_cmp (unv x) = Some c -> unv x = Some (UCmp c).
Proof. intros x c H. destruct (unv x) as [[c'|o]|]; cbn in H; inversion H; reflexivity. Qed.
Lemma as_obs_some : forall x o, as_obs (unv x) = Some o -> unv x = Some (UObs o).
Proof. intros x o H. destruct (unv x) as [[c'|o']|]; cbn in H; inversion H; reflexivity. Qed.

Lemma chain_and_good : forall xs l0 p0 r,
  Forall PGood xs -> forallb aprint xs = true ->
  chain_and (CAnd l0 p0) (map (fun x => as_cmp (unv x)) xs) = Some r ->
  (wf_and (CAnd l0 p0) = true -> wf_and r = true) /\
  yield_and r = yield_and (CAnd l0 p0) ++ flat_map (fun y => t_AND :: toks_of (pr y)) xs /\
  mc_and_list r = mc_and_list (CAnd l0 p0) ++ map ma xs /\
  (exists l p, r = CAnd l p) /\
  rt_and r = fold_left (fun s x => rt_step true s (a_rt x)) xs (rt_and (CAnd l0 p0)) /\
  (forallb constructible xs = true -> sem_and (CAnd l0 p0) = true ->
     rt_ok (rt_and (CAnd l0 p0)) (map a_rt xs) = true -> sem_and r = true) /\
  (forallb vexpr xs = true -> sv_and_ops r = sv_and_ops (CAnd l0 p0) ++ xs).
Proof.
  induction xs as [|x xs IH]; intros l0 p0 r HF HA HC.
  - cbn [map chain_and] in HC. inversion HC; subst r. cbn [flat_map map fold_left]. rewrite !app_nil_r.
    repeat split; try tauto. exists l0, p0. reflexivity.
  - inversion HF as [|? ? Hx HF']; subst. cbn [forallb] in HA. apply andb_true_iff in HA. destruct HA as [Ax Axs].
    cbn [map chain_and] in HC. destruct (as_cmp (unv x)) as [c|] eqn:Ec; [|discriminate].
    destruct (lift_pt c) as [p|] eqn:El; [|discriminate]. apply lift_pt_facts in El. subst c.
    apply as_cmp_some in Ec. destruct (Hx _ Ec Ax) as [G1 [G2 [G3 [_ [_ [G6 [G7 G8]]]]]]].
    cbn [u_wf u_yield u_meaning u_rt u_sem u_sv ac_wf ac_yield ac_meaning ac_rt ac_sem ac_sv] in G1, G2, G3, G6, G7, G8.
    destruct (IH (CAnd l0 p0) p r HF' Axs HC) as [I1 [I2 [I3 [I4 [I5 [I6 I7]]]]]].
    assert (Rt : rt_and (CAnd (CAnd l0 p0) p) = set_inter (rt_and (CAnd l0 p0)) (a_rt x)).
    { change (rt_and (CAnd (CAnd l0 p0) p)) with (set_inter (rt_and (CAnd l0 p0)) (rt_pt p)). rewrite G6. reflexivity. }
    split; [intros W; apply I1; cbn [wf_and] in W |- *; rewrite W, G1; reflexivity|].
    split; [rewrite I2; cbn [yield_and flat_map]; rewrite G2, <- !app_assoc; reflexivity|].
    split; [rewrite I3; cbn [mc_and_list map]; rewrite G3, <- !app_assoc; reflexivity|].
    split; [exact I4|].
    split; [rewrite I5, Rt; reflexivity|].
    split.
    + intros C Sm Rk. cbn [forallb] in C. apply andb_true_iff in C. destruct C as [Cx Cxs].
      cbn [map rt_ok] in Rk. apply andb_true_iff in Rk. destruct Rk as [Rk1 Rk2].
      apply I6; [exact Cxs| |rewrite Rt; exact Rk2].
      change (sem_and (CAnd (CAnd l0 p0) p)) with (sem_and (CAnd l0 p0) && sem_pt p && negb (is_nil (set_inter (rt_and (CAnd l0 p0)) (rt_pt p)))).
      rewrite Sm, (G7 Cx), G6. exact Rk1.
    + intros V. cbn [forallb] in V. apply andb_true_iff in V. destruct V as [Vx Vxs].
      rewrite (I7 Vxs). cbn [sv_and_ops]. rewrite (G8 Vx), <- !app_assoc. reflexivity.
Qed.

Lemma chain_or_good : forall xs l0 a0 r,
  Forall PGood xs -> forallb aprint xs = true ->
  chain_or (COr l0 a0) (map (fun x => as_cmp (unv x)) xs) = Some r ->
  (wf_or (COr l0 a0) = true -> wf_or r = true) /\
  yield_or r = yield_or (COr l0 a0) ++ flat_map (fun y => t_OR :: toks_of (pr y)) xs /\
  mc_or_list r = mc_or_list (COr l0 a0) ++ map ma xs /\
  (exists l a, r = COr l a) /\
  rt_or r = fold_left (fun s x => rt_step false s (a_rt x)) xs (rt_or (COr l0 a0)) /\
  (forallb constructible xs = true -> sem_or (COr l0 a0) = true -> sem_or r = true) /\
  (forallb vexpr xs = true -> sv_or_ops r = sv_or_ops (COr l0 a0) ++ xs).
Proof.
  induction xs as [|x xs IH]; intros l0 a0 r HF HA HC.
  - cbn [map chain_or] in HC. inversion HC; subst r. cbn [flat_map map fold_left]. rewrite !app_nil_r.
    repeat split; try tauto. exists l0, a0. reflexivity.
  - inversion HF as [|? ? Hx HF']; subst. cbn [forallb] in HA. apply andb_true_iff in HA. destruct HA as [Ax Axs].
    cbn [map chain_or] in HC. destruct (as_cmp (unv x)) as [c|] eqn:Ec; [|discriminate].
    destruct (lift_and c) as [a|] eqn:El; [|discriminate].
    apply as_cmp_some in Ec. destruct (Hx _ Ec Ax) as [G1 [G2 [G3 [G4 [_ [G6 [G7 G8]]]]]]].
    cbn [u_wf u_yield u_meaning u_inv u_rt u_sem u_sv] in G1, G2, G3, G4, G6, G7, G8.
    destruct (lift_and_facts c a G4 El) as [L1 [L2 [L3 [L4 [L5 L6]]]]].
    destruct (IH (COr l0 a0) a r HF' Axs HC) as [I1 [I2 [I3 [I4 [I5 [I6 I7]]]]]].
    split; [intros W; apply I1; cbn [wf_or] in W |- *; rewrite W, L2, G1; reflexivity|].
    split; [rewrite I2; cbn [yield_or flat_map]; rewrite L1, G2, <- !app_assoc; reflexivity|].
    split; [rewrite I3; cbn [mc_or_list map]; fold (mc_and a); rewrite L3, G3, <- !app_assoc; reflexivity|].
    split; [exact I4|].
    split; [rewrite I5; change (rt_or (COr (COr l0 a0) a)) with (set_union (rt_or (COr l0 a0)) (rt_and a)); rewrite L6, G6; reflexivity|].
    split.
    + intros C Sm. cbn [forallb] in C. apply andb_true_iff in C. destruct C as [Cx Cxs].
      apply I6; [exact Cxs|]. cbn [sem_or] in Sm |- *. rewrite Sm, L5, (G7 Cx). reflexivity.
    + intros V. cbn [forallb] in V. apply andb_true_iff in V. destruct V as [Vx Vxs].
      rewrite (I7 Vxs). cbn [sv_or_ops]. fold (sv_and a). rewrite L4, (G8 Vx), <- !app_assoc. reflexivity.
Qed.

Lemma chain_oand_good : forall xs l0 o0 r,
  Forall PGood xs -> forallb aprint xs = true ->
  chain_oand (OAnd l0 o0) (map (fun x => as_obs (unv x)) xs) = Some r ->
  (wf_oand (OAnd l0 o0) = true -> wf_oand r = true) /\
  yield_oand r = yield_oand (OAnd l0 o0) ++ flat_map (fun y => t_AND :: toks_of (pr y)) xs /\
  mc_oand_list r = mc_oand_list (OAnd l0 o0) ++ map ma xs /\
  (exists l o, r = OAnd l o) /\ (xs = [] -> r = OAnd l0 o0) /\
  (forallb constructible xs = true -> sem_oand (OAnd l0 o0) = true -> sem_oand r = true).
Proof.
  induction xs as [|x xs IH]; intros l0 o0 r HF HA HC.
  - cbn [map chain_oand] in HC. inversion HC; subst r. cbn [flat_map map]. rewrite !app_nil_r.
    repeat split; try tauto. exists l0, o0. reflexivity.
  - inversion HF as [|? ? Hx HF']; subst. cbn [forallb] in HA. apply andb_true_iff in HA. destruct HA as [Ax Axs].
    cbn [map chain_oand] in HC. destruct (as_obs (unv x)) as [c|] eqn:Ec; [|discriminate].
    destruct (lift_obs c) as [o|] eqn:El; [|discriminate]. apply lift_obs_facts in El. subst c.
    apply as_obs_some in Ec. destruct (Hx _ Ec Ax) as [G1 [G2 [G3 [_ [_ [_ [G7 _]]]]]]].
    cbn [u_wf u_yield u_meaning u_sem ao_wf ao_yield ao_meaning ao_sem] in G1, G2, G3, G7.
    destruct (IH (OAnd l0 o0) o r HF' Axs HC) as [I1 [I2 [I3 [I4 [_ I6]]]]].
    split; [intros W; apply I1; cbn [wf_oand] in W |- *; rewrite W, G1; reflexivity|].
    split; [rewrite I2; cbn [yield_oand flat_map]; rewrite G2, <- !app_assoc; reflexivity|].
    split; [rewrite I3; cbn [mc_oand_list map]; rewrite G3, <- !app_assoc; reflexivity|].
    split; [exact I4|]. split; [discriminate|].
    intros C Sm. cbn [forallb] in C. apply andb_true_iff in C. destruct C as [Cx Cxs].
    apply I6; [exact Cxs|]. cbn [sem_oand] in Sm |- *. rewrite Sm, (G7 Cx). reflexivity.
Qed.

Lemma chain_oor_good : forall xs l0 a0 r,
  Forall PGood xs -> forallb aprint xs = true ->
  chain_oor (OOr l0 a0) (map (fun x => as_obs (unv x)) xs) = Some r ->
  (wf_oor (OOr l0 a0) = true -> wf_oor r = true) /\
  yield_oor r = yield_oor (OOr l0 a0) ++ flat_map (fun y => t_OR :: toks_of (pr y)) xs /\
  mc_oor_list r = mc_oor_list (OOr l0 a0) ++ map ma xs /\
  (exists l a, r = OOr l a) /\ (xs = [] -> r = OOr l0 a0) /\
  (forallb constructible xs = true -> sem_oor (OOr l0 a0) = true -> sem_oor r = true).
Proof.
  induction xs as [|x xs IH]; intros l0 a0 r HF HA HC.
  - cbn [map chain_oor] in HC. inversion HC; subst r. cbn [flat_map map]. rewrite !app_nil_r.
    repeat split; try tauto. exists l0, a0. reflexivity.
  - inversion HF as [|? ? Hx HF']; subst. cbn [forallb] in HA. apply andb_true_iff in HA. destruct HA as [Ax Axs].
    cbn [map chain_oor] in HC. destruct (as_obs (unv x)) as [c|] eqn:Ec; [|discriminate].
    destruct (lift_oand c) as [a|] eqn:El; [|discriminate].
    apply as_obs_some in Ec. destruct (Hx _ Ec Ax) as [G1 [G2 [G3 [G4 [_ [_ [G7 _]]]]]]].
    cbn [u_wf u_yield u_meaning u_inv u_sem] in G1, G2, G3, G4, G7.
    destruct (lift_oand_facts c a G4 El) as [L1 [L2 [L3 [_ L5]]]].
    destruct (IH (OOr l0 a0) a r HF' Axs HC) as [I1 [I2 [I3 [I4 [_ I6]]]]].
    split; [intros W; apply I1; cbn [wf_oor] in W |- *; rewrite W, L2, G1; reflexivity|].
    split; [rewrite I2; cbn [yield_oor flat_map]; rewrite L1, G2, <- !app_assoc; reflexivity|].
    split; [rewrite I3; cbn [mc_oor_list map]; rewrite L3, G3, <- !app_assoc; reflexivity|].
    split; [exact I4|]. split; [discriminate|].
    intros C Sm. cbn [forallb] in C. apply andb_true_iff in C. destruct C as [Cx Cxs].
    apply I6; [exact Cxs|]. cbn [sem_oor] in Sm |- *. rewrite Sm, L5, (G7 Cx). reflexivity.
Qed.

Lemma chain_fb_good : forall xs l0 a0 r,
  Forall PGood xs -> forallb aprint xs = true ->
  chain_fb (OFb l0 a0) (map (fun x => as_obs (unv x)) xs) = Some r ->
  (wf_fb (OFb l0 a0) = true -> wf_fb r = true) /\
  yield_fb r = yield_fb (OFb l0 a0) ++ flat_map (fun y => t_FOLLOWEDBY :: toks_of (pr y)) xs /\
  mc_fb_list r = mc_fb_list (OFb l0 a0) ++ map ma xs /\
  (exists l a, r = OFb l a) /\ (xs = [] -> r = OFb l0 a0) /\
  (forallb constructible xs = true -> sem_fb (OFb l0 a0) = true -> sem_fb r = true).
Proof.
  induction xs as [|x xs IH]; intros l0 a0 r HF HA HC.
  - cbn [map chain_fb] in HC. inversion HC; subst r. cbn [flat_map map]. rewrite !app_nil_r.
    repeat split; try tauto. exists l0, a0. reflexivity.
  - inversion HF as [|? ? Hx HF']; subst. cbn [forallb] in HA. apply andb_true_iff in HA. destruct HA as [Ax Axs].
    cbn [map chain_fb] in HC. destruct (as_obs (unv x)) as [c|] eqn:Ec; [|discriminate].
    destruct (lift_oor c) as [a|] eqn:El; [|discriminate].
    apply as_obs_some in Ec. destruct (Hx _ Ec Ax) as [G1 [G2 [G3 [G4 [_ [_ [G7 _]]]]]]].
    cbn [u_wf u_yield u_meaning u_inv u_sem] in G1, G2, G3, G4, G7.
    destruct (lift_oor_facts c a G4 El) as [L1 [L2 [L3 [_ L5]]]].
    destruct (IH (OFb l0 a0) a r HF' Axs HC) as [I1 [I2 [I3 [I4 [_ I6]]]]].
    split; [intros W; apply I1; cbn [wf_fb] in W |- *; rewrite W, L2, G1; reflexivity|].
    split; [rewrite I2; cbn [yield_fb flat_map]; rewrite L1, G2, <- !app_assoc; reflexivity|].
    split; [rewrite I3; cbn [mc_fb_list map]; rewrite L3, G3, <- !app_assoc; reflexivity|].
    split; [exact I4|]. split; [discriminate|].
    intros C Sm. cbn [forallb] in C. apply andb_true_iff in C. destruct C as [Cx Cxs].
    apply I6; [exact Cxs|]. cbn [sem_fb] in Sm |- *. rewrite Sm, L5, (G7 Cx). reflexivity.
Qed.

(* ------------------------------------------------------------------ *)
(** * Qualifiers *)

Lemma nonneg_tok : forall z, (0 <=? z)%Z = true -> kind_in (const_tok (CInt z)) [KIntPos] = true.
Proof.
  intros z H. apply Z.leb_le in H. unfold const_tok. cbn [PatternSyntax.pr_const]. fold (int_tok z).
  destruct (int_tok_kind z) as [_ O]. apply kind_in_make; [|exact O].
  unfold int_tok. cbn [tk]. destruct z as [|p|p]; [reflexivity| |lia].
  cbn [dec_of_Z]. pose proof (dec_of_N_head (Npos p)) as Hh. destruct (dec_of_N (Npos p)) as [|c r]; [contradiction|].
  destruct (is_digit_not_sign c Hh) as [A _]. unfold num_kind. rewrite A. reflexivity.
Qed.

Lemma posfloat_tok : forall f, const_ok (CFloat f) = true -> f_neg f = false -> kind_in (const_tok (CFloat f)) [KFloatPos] = true.
Proof.
  intros f H Hn. destruct (const_token (CFloat f) H) as [K _]. unfold kind_in in K |- *.
  apply andb_true_iff in K. destruct K as [K1 K2]. rewrite K2, andb_true_r.
  unfold const_tok in *. cbn [PatternSyntax.pr_const tk] in *. rewrite print_float_rep, Hn. cbn [List.app].
  cbn [const_ok] in H. apply andb_true_iff in H. destruct H as [H _]. apply fnorm_b_spec in H. destruct H as [Hi _].
  pose proof (or0_head_digit (f_ip f) (46 :: or0 (f_fp f)) Hi) as Hh.
  destruct (or0 (f_ip f) ++ 46 :: or0 (f_fp f)) as [|c r]; [contradiction|].
  destruct (is_digit_not_sign c Hh) as [A _]. unfold num_kind. rewrite A. reflexivity.
Qed.

Lemma qual_good : forall q q', aqual_ok q = true -> unv_qual q = Some q' ->
  wf_qual q' = true /\ yield_qual q' = toks_of (pr_qual q) /\ mc_qual q' = ma_qual q /\
  sem_qual q' = true /\ sv_qual q' = q.
Proof.
  intros [c|c|a b] q' H U; cbn [aqual_ok PatternSyntax.unv_qual] in *.
  - destruct c as [| |z| | | | |]; try discriminate H. cbn [nonneg_int] in H.
    rewrite (tok_of_const_leaf (CInt z) eq_refl) in U. inversion U; subst q'.
    destruct (const_token (CInt z) eq_refl) as [_ [_ V]].
    cbn [wf_qual yield_qual mc_qual sem_qual sv_qual PatternSyntax.pr_qual ma_qual].
    rewrite (nonneg_tok z H), (const_meaning (CInt z) eq_refl), V, !toks_of_app, (pr_const_leaf (CInt z) eq_refl). repeat split; reflexivity.
  - apply orb_true_iff in H. destruct H as [H|H].
    + destruct c as [| |z| | | | |]; try discriminate H. cbn [nonneg_int] in H.
      rewrite (tok_of_const_leaf (CInt z) eq_refl) in U. inversion U; subst q'.
      destruct (const_token (CInt z) eq_refl) as [_ [S V]].
      cbn [wf_qual yield_qual mc_qual sem_qual sv_qual PatternSyntax.pr_qual ma_qual].
      rewrite (kind_in_weaken _ [KIntPos] [KIntPos; KFloatPos] (nonneg_tok z H)),
              (const_meaning (CInt z) eq_refl), S, V, !toks_of_app, (pr_const_leaf (CInt z) eq_refl);
        [repeat split; reflexivity|].
      intros k. destruct k; cbn; intros E; try discriminate; reflexivity.
    + destruct c as [| | |f| | | |]; try discriminate H. cbn [pos_float] in H.
      apply andb_true_iff in H. destruct H as [Ho Hn]. apply negb_true_iff in Hn.
      rewrite (tok_of_const_leaf (CFloat f) Ho) in U. inversion U; subst q'.
      destruct (const_token (CFloat f) Ho) as [_ [S V]].
      cbn [wf_qual yield_qual mc_qual sem_qual sv_qual PatternSyntax.pr_qual ma_qual].
      rewrite (kind_in_weaken _ [KFloatPos] [KIntPos; KFloatPos] (posfloat_tok f Ho Hn)),
              (const_meaning (CFloat f) Ho), S, V, !toks_of_app, (pr_const_leaf (CFloat f) Ho);
        [repeat split; reflexivity|].
      intros k. destruct k; cbn; intros E; try discriminate; reflexivity.
  - apply andb_true_iff in H. destruct H as [H Hb2]. apply andb_true_iff in H. destruct H as [H Hb1].
    apply andb_true_iff in H. destruct H as [Ha1 Ha2].
    destruct a as [|ta| | | | | |]; try discriminate Ha2. destruct b as [|tb| | | | | |]; try discriminate Hb2.
    rewrite (tok_of_const_leaf _ Ha1), (tok_of_const_leaf _ Hb1) in U. inversion U; subst q'.
    destruct (const_token _ Ha1) as [Ka [Sa Va]]. destruct (const_token _ Hb1) as [Kb [Sb Vb]].
    cbn [wf_qual yield_qual mc_qual sem_qual sv_qual PatternSyntax.pr_qual ma_qual kinds_of] in *.
    rewrite Ka, Kb, Sa, Sb, Va, Vb, (const_meaning _ Ha1), (const_meaning _ Hb1), !toks_of_app,
            (pr_const_leaf _ Ha1), (pr_const_leaf _ Hb1). repeat split; reflexivity.
Qed.

(* ------------------------------------------------------------------ *)
(** * Small facts used by the main induction *)

Lemma flat_map_map : forall (A B C : Type) (g : A -> B) (f : B -> list C) l,
  flat_map f (map g l) = flat_map (fun x => f (g x)) l.
Proof. intros A B C g f l. induction l as [|x r IH]; [reflexivity|]. cbn [map flat_map]. rewrite IH. reflexivity. Qed.

Lemma mc_and_list_nonnil : forall a, mc_and_list a <> [].
Proof. destruct a; cbn; [discriminate|]. intros H. apply app_eq_nil in H. destruct H; discriminate. Qed.
Lemma mc_or_list_nonnil : forall o, mc_or_list o <> [].
Proof. destruct o; cbn; [discriminate|]. intros H. apply app_eq_nil in H. destruct H; discriminate. Qed.
Lemma mc_oand_list_nonnil : forall a, mc_oand_list a <> [].
Proof. destruct a; cbn; [discriminate|]. intros H. apply app_eq_nil in H. destruct H; discriminate. Qed.
Lemma mc_oor_list_nonnil : forall a, mc_oor_list a <> [].
Proof. destruct a; cbn; [discriminate|]. intros H. apply app_eq_nil in H. destruct H; discriminate. Qed.
Lemma mc_fb_list_nonnil : forall a, mc_fb_list a <> [].
Proof. destruct a; cbn; [discriminate|]. intros H. apply app_eq_nil in H. destruct H; discriminate. Qed.

Lemma one_or_two : forall (A : Type) (mk : list A -> A) l x r, l <> [] -> one_or mk (l ++ x :: r) = mk (l ++ x :: r).
Proof. intros A mk l x r H. destruct l as [|a [|b l']]; [congruence| |]; reflexivity. Qed.

Lemma one_or_snoc : forall (A : Type) (mk : list A -> A) l x, l <> [] -> one_or mk (l ++ [x]) = mk (l ++ [x]).
Proof. intros. apply one_or_two. assumption. Qed.

Lemma mc_pt_not_bool : forall p, match mc_pt p with MBoolOp _ _ => False | _ => True end.
Proof. destruct p; exact I. Qed.
Lemma mc_obs_not_obsop : forall o, match mc_obs o with MObsOp _ _ => False | _ => True end.
Proof. destruct o; exact I. Qed.

(* unv of an observation-level node is never a comparison-level tree, and conversely *)
Lemma unv_cmp_shape : forall x c, unv x = Some (UCmp c) ->
  match x with EObs _ | ECompound _ _ | EQualified _ _ => False | _ => True end.
Proof.
  intros x c H. destruct x as [cls lhs rhs neg|isand ops|y|op ops|y|y q]; try exact I; cbn [PatternSyntax.unv] in H.
  - destruct (as_cmp (unv y)); discriminate.
  - destruct (map (fun x => as_obs (unv x)) ops) as [|[f|] [|s r]]; try discriminate.
    destruct op.
    + destruct (lift_oand f); [|discriminate]. destruct (chain_oand _ _); discriminate.
    + destruct (lift_oor f); [|discriminate]. destruct (chain_oor _ _); discriminate.
    + destruct (chain_fb _ _); discriminate.
  - destruct (as_obs (unv y)); [|discriminate]. destruct (unv_qual q); [|discriminate]. destruct (lift_obs _); discriminate.
Qed.

(* ------------------------------------------------------------------ *)
(** * The cases of the main induction *)

Lemma ucmp_level : forall c, is_cmp_level (u_level (UCmp c)) = true.
Proof. intros [p|a|o]; reflexivity. Qed.
Lemma uobs_level : forall o, is_cmp_level (u_level (UObs o)) = false.
Proof. intros [x|x|x|x]; reflexivity. Qed.

Lemma paren_good : forall x, PGood x -> PGood (EParen x).
Proof.
  intros x IH u U A. cbn [PatternSyntax.unv] in U. cbn [aprint] in A.
  destruct (unv x) as [[c|o]|] eqn:E; [| |discriminate]; inversion U; subst u; clear U;
    destruct (IH _ E A) as [G1 [G2 [G3 [G4 [G5 [G6 [G7 G8]]]]]]];
    cbn [u_wf u_yield u_meaning u_inv u_sem u_sv u_rt] in G1, G2, G3, G4, G6, G7, G8.
  - destruct (lift_or_facts c G4) as [L1 [L2 [L3 [L4 [L5 L6]]]]].
    unfold Good. cbn [u_wf u_yield u_meaning u_inv u_level u_sem u_sv u_rt ac_wf ac_yield ac_meaning ac_inv ac_sem ac_sv ac_rt
                       wf_pt yield_pt mc_pt sem_pt sv_pt rt_pt PatternSyntax.pr PatternSyntax.ma level vexpr a_rt constructible].
    fold (mc_or (lift_or c)). fold (sv_or (lift_or c)).
    rewrite L1, L2, L3, L4, L5, L6, G1, G2, G3, G6, !toks_of_app, <- G5, (ucmp_level c).
    split; [reflexivity|]. split; [reflexivity|]. split; [reflexivity|]. split; [exact I|]. split; [reflexivity|].
    split; [reflexivity|]. split; [exact G7|]. intros V. rewrite (G8 V). reflexivity.
  - destruct (lift_fb_facts o G4) as [L1 [L2 [L3 [L4 L5]]]].
    unfold Good. cbn [u_wf u_yield u_meaning u_inv u_level u_sem u_sv u_rt ao_wf ao_yield ao_meaning ao_inv ao_sem ao_sv
                       wf_obs yield_obs mc_obs sem_obs sv_obs PatternSyntax.pr PatternSyntax.ma level vexpr a_rt constructible].
    rewrite L1, L2, L3, L4, L5, G1, G2, G3, !toks_of_app, <- G5, (uobs_level o).
    split; [reflexivity|]. split; [reflexivity|]. split; [reflexivity|]. split; [exact I|]. split; [reflexivity|].
    split; [exact G6|]. split; [exact G7|]. intros V. rewrite (G8 V). reflexivity.
Qed.

Lemma obs_good : forall x, PGood x -> PGood (EObs x).
Proof.
  intros x IH u U A. cbn [PatternSyntax.unv] in U. cbn [aprint] in A.
  destruct (as_cmp (unv x)) as [c|] eqn:E; [|discriminate]. inversion U; subst u; clear U.
  apply as_cmp_some in E. pose proof (unv_cmp_shape x c E) as Sh.
  destruct (IH _ E A) as [G1 [G2 [G3 [G4 [G5 [G6 [G7 G8]]]]]]].
  cbn [u_wf u_yield u_meaning u_inv u_sem u_sv u_rt] in G1, G2, G3, G4, G6, G7, G8.
  destruct (lift_or_facts c G4) as [L1 [L2 [L3 [L4 [L5 L6]]]]].
  assert (P : toks_of (pr (EObs x)) = [t_LBRACK] ++ toks_of (pr x) ++ [t_RBRACK]).
  { destruct x; try contradiction; cbn [PatternSyntax.pr]; rewrite !toks_of_app; reflexivity. }
  assert (M : ma (EObs x) = MObs (ma x)) by (destruct x; try contradiction; reflexivity).
  unfold Good. rewrite P, M.
  cbn [u_wf u_yield u_meaning u_inv u_level u_sem u_sv u_rt ao_wf ao_yield ao_meaning ao_inv ao_sem ao_sv
       wf_obs yield_obs mc_obs sem_obs sv_obs level vexpr a_rt constructible].
  rewrite L1, L2, L3, L4, L5, G1, G2, G3.
  split; [reflexivity|]. split; [reflexivity|]. split; [reflexivity|]. split; [exact I|]. split; [reflexivity|].
  split; [reflexivity|]. split; [exact G7|].
  intros V. apply andb_true_iff in V. destruct V as [V _]. rewrite (G8 V). reflexivity.
Qed.

Lemma toks_pr_qualified : forall x q, toks_of (pr (EQualified x q)) = toks_of (pr x) ++ toks_of (pr_qual q).
Proof. intros x q. cbn [PatternSyntax.pr]. rewrite !toks_of_app. reflexivity. Qed.

Lemma qualified_good : forall x q, PGood x -> PGood (EQualified x q).
Proof.
  intros x q IH u U A. cbn [PatternSyntax.unv] in U. cbn [aprint] in A. apply andb_true_iff in A. destruct A as [Ax Aq].
  destruct (as_obs (unv x)) as [o|] eqn:E; [|discriminate].
  destruct (unv_qual q) as [q'|] eqn:Eq; [|discriminate].
  destruct (lift_obs o) as [o'|] eqn:El; [|discriminate]. inversion U; subst u; clear U.
  apply lift_obs_facts in El. subst o. apply as_obs_some in E.
  destruct (IH _ E Ax) as [G1 [G2 [G3 [G4 [G5 [G6 [G7 G8]]]]]]].
  cbn [u_wf u_yield u_meaning u_inv u_sem u_sv u_rt ao_wf ao_yield ao_meaning ao_sem ao_sv] in G1, G2, G3, G4, G6, G7, G8.
  destruct (qual_good q q' Aq Eq) as [Q1 [Q2 [Q3 [Q4 Q5]]]].
  unfold Good. rewrite toks_pr_qualified.
  cbn [u_wf u_yield u_meaning u_inv u_level u_sem u_sv u_rt ao_wf ao_yield ao_meaning ao_inv ao_sem ao_sv
       wf_obs yield_obs mc_obs sem_obs sv_obs PatternSyntax.ma level vexpr a_rt constructible].
  rewrite G1, G2, G3, Q1, Q2, Q3, Q4, Q5.
  split; [reflexivity|]. split; [reflexivity|]. split; [reflexivity|]. split; [exact I|]. split; [reflexivity|].
  split; [reflexivity|]. split; [intros C; rewrite (G7 C); reflexivity|].
  intros V. apply andb_true_iff in V. destruct V as [V _]. rewrite (G8 V). reflexivity.
Qed.

Definition same_bool (isand : bool) (m : mexpr) : option (list mexpr) :=
  match m with MBoolOp b xs => if Bool.eqb b isand then Some xs else None | _ => None end.
Definition same_obs (op : obsop) (m : mexpr) : option (list mexpr) :=
  match m with
  | MObsOp o xs => if match o, op with OpAnd, OpAnd | OpOr, OpOr | OpFb, OpFb => true | _, _ => false end then Some xs else None
  | _ => None
  end.

Lemma ma_bool : forall isand ops, ma (EBool isand ops) = MBoolOp isand (splice_first (same_bool isand) (map ma ops)).
Proof. reflexivity. Qed.
Lemma ma_cpd : forall op ops, ma (ECompound op ops) = MObsOp op (splice_first (same_obs op) (map ma ops)).
Proof. reflexivity. Qed.

Lemma splice_and : forall first a1 rest, ac_inv first -> lift_and first = Some a1 ->
  splice_first (same_bool true) (ac_meaning first :: rest) = mc_and_list a1 ++ rest.
Proof.
  intros [p|a|o] a1 rest Hi Hl; cbn in Hl; inversion Hl; subst a1; cbn [ac_meaning splice_first].
  - pose proof (mc_pt_not_bool p) as N. cbn [mc_and_list]. destruct (mc_pt p); try reflexivity. contradiction.
  - destruct a as [p|l p]; [contradiction|]. unfold mc_and. cbn [mc_and_list].
    rewrite (one_or_snoc _ (MBoolOp true) _ _ (mc_and_list_nonnil l)). reflexivity.
Qed.

Lemma splice_or : forall first rest, ac_inv first ->
  splice_first (same_bool false) (ac_meaning first :: rest) = mc_or_list (lift_or first) ++ rest.
Proof.
  intros [p|a|o] rest Hi; cbn [ac_meaning splice_first lift_or mc_or_list].
  - pose proof (mc_pt_not_bool p) as N. cbn [mc_and_list one_or]. destruct (mc_pt p); try reflexivity. contradiction.
  - destruct a as [p|l p]; [contradiction|]. unfold mc_and. cbn [mc_and_list].
    rewrite (one_or_snoc _ (MBoolOp true) _ _ (mc_and_list_nonnil l)). reflexivity.
  - destruct o as [a|l a]; [contradiction|]. unfold mc_or. cbn [mc_or_list].
    rewrite (one_or_snoc _ (MBoolOp false) _ _ (mc_or_list_nonnil l)). reflexivity.
Qed.

Lemma toks_pr_ops : forall t x1 x2 xs,
  toks_of (sep_items [Sp; T t; Sp] (map pr (x1 :: x2 :: xs))) =
  (toks_of (pr x1) ++ [t] ++ toks_of (pr x2)) ++ flat_map (fun y => t :: toks_of (pr y)) xs.
Proof.
  intros t x1 x2 xs. cbn [map]. rewrite toks_sep_op. cbn [flat_map]. rewrite flat_map_map, <- !app_assoc. reflexivity.
Qed.

Lemma level_pt_form : forall c x, u_level (UCmp c) = level x -> level_eqb (level x) LPt = true -> exists p, c = AC_pt p.
Proof. intros [p|a|o] x H L; rewrite <- H in L; cbn in L; try discriminate. exists p. reflexivity. Qed.

Lemma bool_good : forall isand ops, Forall PGood ops -> PGood (EBool isand ops).
Proof.
  intros isand ops HF u U A. cbn [PatternSyntax.unv] in U. cbn [aprint] in A.
  destruct ops as [|x1 [|x2 xs]].
  - discriminate U.
  - cbn [map] in U. destruct (as_cmp (unv x1)); discriminate U.
  - cbn [map] in U. destruct (as_cmp (unv x1)) as [first|] eqn:E1; [|discriminate U].
    inversion HF as [|? ? H1 HF2]; subst. inversion HF2 as [|? ? H2 HFs]; subst.
    cbn [forallb] in A. apply andb_true_iff in A. destruct A as [A1 A]. apply andb_true_iff in A. destruct A as [A2 As].
    apply as_cmp_some in E1.
    destruct (H1 _ E1 A1) as [F1 [F2 [F3 [F4 [F5 [F6 [F7 F8]]]]]]].
    cbn [u_wf u_yield u_meaning u_inv u_sem u_sv u_rt] in F1, F2, F3, F4, F6, F7, F8.
    destruct isand.
    + (* AND *)
      destruct (lift_and first) as [a1|] eqn:L1; [|discriminate U].
      destruct (chain_and a1 _) as [r|] eqn:C; [|discriminate U]. inversion U; subst u; clear U.
      cbn [chain_and] in C. destruct (as_cmp (unv x2)) as [c2|] eqn:E2; [|discriminate C].
      destruct (lift_pt c2) as [p2|] eqn:L2; [|discriminate C]. apply lift_pt_facts in L2. subst c2.
      apply as_cmp_some in E2.
      destruct (H2 _ E2 A2) as [S1 [S2 [S3 [_ [S5 [S6 [S7 S8]]]]]]].
      cbn [u_wf u_yield u_meaning u_inv u_sem u_sv u_rt ac_wf ac_yield ac_meaning ac_sem ac_sv ac_rt] in S1, S2, S3, S6, S7, S8.
      destruct (lift_and_facts first a1 F4 L1) as [La1 [La2 [La3 [La4 [La5 La6]]]]].
      destruct (chain_and_good xs a1 p2 r HFs As C) as [I1 [I2 [I3 [I4 [I5 [I6 I7]]]]]].
      assert (Rt : rt_and (CAnd a1 p2) = set_inter (a_rt x1) (a_rt x2)).
      { cbn [rt_and]. rewrite La6, F6, S6. reflexivity. }
      unfold Good. cbn [u_wf u_yield u_meaning u_inv u_level u_sem u_sv u_rt ac_wf ac_yield ac_meaning ac_sem ac_sv ac_rt level PatternSyntax.pr].
      split; [apply I1; cbn [wf_and]; rewrite La2, F1, S1; reflexivity|].
      split; [rewrite I2, toks_pr_ops; cbn [yield_and]; rewrite La1, F2, S2; reflexivity|].
      split; [rewrite ma_bool; cbn [map]; rewrite <- F3, (splice_and first a1 _ F4 L1); unfold mc_and; rewrite I3;
              cbn [mc_and_list]; rewrite S3, <- !app_assoc; cbn [List.app];
              rewrite (one_or_two _ (MBoolOp true) _ _ _ (mc_and_list_nonnil a1)); reflexivity|].
      split; [destruct I4 as [l [p Er]]; rewrite Er; exact I|].
      split; [reflexivity|].
      split; [rewrite I5, Rt; reflexivity|].
      split.
      * intros Cn. cbn [constructible] in Cn. apply andb_true_iff in Cn. destruct Cn as [Cn Crt].
        cbn [forallb] in Cn. apply andb_true_iff in Cn. destruct Cn as [C1 Cn]. apply andb_true_iff in Cn. destruct Cn as [C2 Cs].
        cbn [map rt_ok] in Crt. apply andb_true_iff in Crt. destruct Crt as [Crt1 Crt2].
        apply I6; [exact Cs| |rewrite Rt; exact Crt2].
        cbn [sem_and]. rewrite La5, (F7 C1), (S7 C2), La6, F6, S6. exact Crt1.
      * intros V. cbn [vexpr] in V. apply andb_true_iff in V. destruct V as [V _]. apply andb_true_iff in V. destruct V as [Vx Vl].
        cbn [forallb] in Vx, Vl. apply andb_true_iff in Vx. destruct Vx as [Vx1 Vx]. apply andb_true_iff in Vx. destruct Vx as [Vx2 Vxs].
        apply andb_true_iff in Vl. destruct Vl as [Vl1 _].
        destruct (level_pt_form first x1 F5 Vl1) as [p1 Ef]. subst first. cbn in L1. inversion L1; subst a1.
        cbn [ac_sv] in F8.
        unfold sv_and. rewrite (I7 Vxs). cbn [sv_and_ops List.app]. rewrite (F8 Vx1), (S8 Vx2). reflexivity.
    + (* OR *)
      destruct (chain_or (lift_or first) _) as [r|] eqn:C; [|discriminate U]. inversion U; subst u; clear U.
      cbn [chain_or] in C. destruct (as_cmp (unv x2)) as [c2|] eqn:E2; [|discriminate C].
      destruct (lift_and c2) as [a2|] eqn:L2; [|discriminate C].
      apply as_cmp_some in E2.
      destruct (H2 _ E2 A2) as [S1 [S2 [S3 [S4 [S5 [S6 [S7 S8]]]]]]].
      cbn [u_wf u_yield u_meaning u_inv u_sem u_sv u_rt] in S1, S2, S3, S4, S6, S7, S8.
      destruct (lift_or_facts first F4) as [La1 [La2 [La3 [La4 [La5 La6]]]]].
      destruct (lift_and_facts c2 a2 S4 L2) as [Lb1 [Lb2 [Lb3 [Lb4 [Lb5 Lb6]]]]].
      destruct (chain_or_good xs (lift_or first) a2 r HFs As C) as [I1 [I2 [I3 [I4 [I5 [I6 I7]]]]]].
      unfold Good. cbn [u_wf u_yield u_meaning u_inv u_level u_sem u_sv u_rt ac_wf ac_yield ac_meaning ac_sem ac_sv ac_rt level PatternSyntax.pr].
      split; [apply I1; cbn [wf_or]; rewrite La2, Lb2, F1, S1; reflexivity|].
      split; [rewrite I2, toks_pr_ops; cbn [yield_or]; rewrite La1, Lb1, F2, S2; reflexivity|].
      split; [rewrite ma_bool; cbn [map]; rewrite <- F3, (splice_or first _ F4); unfold mc_or; rewrite I3;
              cbn [mc_or_list]; fold (mc_and a2); rewrite Lb3, S3, <- !app_assoc; cbn [List.app];
              rewrite (one_or_two _ (MBoolOp false) _ _ _ (mc_or_list_nonnil (lift_or first))); reflexivity|].
      split; [destruct I4 as [l [a Er]]; rewrite Er; exact I|].
      split; [reflexivity|].
      split; [rewrite I5; cbn [rt_or a_rt fold_left rt_step]; rewrite La6, Lb6, F6, S6; reflexivity|].
      split.
      * intros Cn. cbn [constructible] in Cn. rewrite andb_true_r in Cn.
        cbn [forallb] in Cn. apply andb_true_iff in Cn. destruct Cn as [C1 Cn]. apply andb_true_iff in Cn. destruct Cn as [C2 Cs].
        apply I6; [exact Cs|]. cbn [sem_or]. rewrite La5, Lb5, (F7 C1), (S7 C2). reflexivity.
      * intros V. cbn [vexpr] in V. apply andb_true_iff in V. destruct V as [V _]. apply andb_true_iff in V. destruct V as [Vx Vl].
        cbn [forallb] in Vx, Vl. apply andb_true_iff in Vx. destruct Vx as [Vx1 Vx]. apply andb_true_iff in Vx. destruct Vx as [Vx2 Vxs].
        apply andb_true_iff in Vl. destruct Vl as [Vl1 _].
        assert (Fo2 : sv_or_ops (lift_or first) = [ac_sv first]).
        { destruct first as [p|a|o]; try reflexivity. exfalso. rewrite <- F5 in Vl1. discriminate Vl1. }
        unfold sv_or. rewrite (I7 Vxs). cbn [sv_or_ops]. fold (sv_and a2). rewrite Fo2, Lb4, (F8 Vx1), (S8 Vx2). reflexivity.
Qed.

Lemma splice_oand : forall first a1 rest, ao_inv first -> lift_oand first = Some a1 ->
  splice_first (same_obs OpAnd) (ao_meaning first :: rest) = mc_oand_list a1 ++ rest.
Proof.
  intros [o|a|a|a] a1 rest Hi Hl; cbn in Hl; inversion Hl; subst a1; cbn [ao_meaning splice_first].
  - pose proof (mc_obs_not_obsop o) as N. cbn [mc_oand_list]. destruct (mc_obs o); try reflexivity. contradiction.
  - destruct a as [o|l o]; [contradiction|]. cbn [mc_oand_list].
    rewrite (one_or_snoc _ (MObsOp OpAnd) _ _ (mc_oand_list_nonnil l)). reflexivity.
Qed.

Lemma one_or_and_not : forall l op, op <> OpAnd -> (forall o, In o l -> match o with MObsOp _ _ => False | _ => True end) ->
  same_obs op (one_or (MObsOp OpAnd) l) = None.
Proof.
  intros l op Hop H. destruct l as [|a [|b r]]; cbn [one_or same_obs].
  - destruct op; try reflexivity; congruence.
  - specialize (H a (or_introl eq_refl)). destruct a; try reflexivity; contradiction.
  - destruct op; try reflexivity; congruence.
Qed.

Lemma oand_list_plain : forall a o, In o (mc_oand_list a) -> match o with MObsOp _ _ => False | _ => True end.
Proof.
  induction a as [x|l IH x]; cbn [mc_oand_list]; intros o H.
  - destruct H as [H|[]]. subst o. apply mc_obs_not_obsop.
  - apply in_app_or in H. destruct H as [H|[H|[]]]; [apply IH; exact H|subst o; apply mc_obs_not_obsop].
Qed.

Lemma splice_oor : forall first a1 rest, ao_inv first -> lift_oor first = Some a1 ->
  splice_first (same_obs OpOr) (ao_meaning first :: rest) = mc_oor_list a1 ++ rest.
Proof.
  intros [o|a|a|a] a1 rest Hi Hl; cbn in Hl; inversion Hl; subst a1; cbn [ao_meaning splice_first].
  - pose proof (mc_obs_not_obsop o) as N. cbn [mc_oor_list mc_oand_list one_or]. destruct (mc_obs o); try reflexivity. contradiction.
  - cbn [mc_oor_list]. rewrite (one_or_and_not (mc_oand_list a) OpOr ltac:(discriminate) (oand_list_plain a)). reflexivity.
  - destruct a as [x|l x]; [contradiction|]. cbn [mc_oor_list].
    rewrite (one_or_snoc _ (MObsOp OpOr) _ _ (mc_oor_list_nonnil l)). reflexivity.
Qed.

Lemma same_fb_or : forall l, (forall o, In o l -> same_obs OpFb o = None) -> same_obs OpFb (one_or (MObsOp OpOr) l) = None.
Proof.
  intros l H. destruct l as [|a [|b r]]; cbn [one_or same_obs]; try reflexivity. apply H. left. reflexivity.
Qed.

Lemma oor_list_notfb : forall a o, In o (mc_oor_list a) -> same_obs OpFb o = None.
Proof.
  induction a as [x|l IH x]; cbn [mc_oor_list]; intros o H.
  - destruct H as [H|[]]. subst o. apply one_or_and_not; [discriminate|apply oand_list_plain].
  - apply in_app_or in H. destruct H as [H|[H|[]]]; [apply IH; exact H|subst o; apply one_or_and_not; [discriminate|apply oand_list_plain]].
Qed.

Lemma splice_fb : forall first rest, ao_inv first ->
  splice_first (same_obs OpFb) (ao_meaning first :: rest) = mc_fb_list (lift_fb first) ++ rest.
Proof.
  intros [o|a|a|a] rest Hi; cbn [ao_meaning splice_first lift_fb mc_fb_list].
  - pose proof (mc_obs_not_obsop o) as N. cbn [mc_oor_list mc_oand_list one_or]. destruct (mc_obs o); try reflexivity. contradiction.
  - cbn [mc_oor_list one_or]. rewrite (one_or_and_not (mc_oand_list a) OpFb ltac:(discriminate) (oand_list_plain a)). reflexivity.
  - rewrite (same_fb_or (mc_oor_list a) (oor_list_notfb a)). reflexivity.
  - destruct a as [x|l x]; [contradiction|]. cbn [mc_fb_list].
    rewrite (one_or_snoc _ (MObsOp OpFb) _ _ (mc_fb_list_nonnil l)). reflexivity.
Qed.

Lemma cpd_good : forall op ops, Forall PGood ops -> PGood (ECompound op ops).
Proof.
  intros op ops HF u U A. cbn [PatternSyntax.unv] in U. cbn [aprint] in A.
  destruct ops as [|x1 [|x2 xs]].
  - discriminate U.
  - cbn [map] in U. destruct (as_obs (unv x1)); discriminate U.
  - cbn [map] in U. destruct (as_obs (unv x1)) as [first|] eqn:E1; [|discriminate U].
    inversion HF as [|? ? H1 HF2]; subst. inversion HF2 as [|? ? H2 HFs]; subst.
    cbn [forallb] in A. apply andb_true_iff in A. destruct A as [A1 A]. apply andb_true_iff in A. destruct A as [A2 As].
    apply as_obs_some in E1.
    destruct (H1 _ E1 A1) as [F1 [F2 [F3 [F4 [F5 [_ [F7 F8]]]]]]].
    cbn [u_wf u_yield u_meaning u_inv u_sem u_sv] in F1, F2, F3, F4, F7, F8.
    assert (Vshape : vexpr (ECompound op (x1 :: x2 :: xs)) = true ->
              xs = [] /\ vexpr x1 = true /\ vexpr x2 = true).
    { intros V. cbn [vexpr] in V. destruct xs; [|discriminate V].
      apply andb_true_iff in V. destruct V as [V _]. apply andb_true_iff in V. destruct V as [V _].
      apply andb_true_iff in V. destruct V as [V1 V2]. repeat split; assumption. }
    assert (Cshape : constructible (ECompound op (x1 :: x2 :: xs)) = true ->
              constructible x1 = true /\ constructible x2 = true /\ forallb constructible xs = true).
    { intros Cn. cbn [constructible forallb] in Cn. apply andb_true_iff in Cn. destruct Cn as [C1 Cn].
      apply andb_true_iff in Cn. destruct Cn as [C2 Cs]. repeat split; assumption. }
    destruct op.
    + (* AND *)
      destruct (lift_oand first) as [a1|] eqn:L1; [|discriminate U].
      destruct (chain_oand a1 _) as [r|] eqn:C; [|discriminate U]. inversion U; subst u; clear U.
      cbn [chain_oand] in C. destruct (as_obs (unv x2)) as [c2|] eqn:E2; [|discriminate C].
      destruct (lift_obs c2) as [o2|] eqn:L2; [|discriminate C]. apply lift_obs_facts in L2. subst c2.
      apply as_obs_some in E2.
      destruct (H2 _ E2 A2) as [S1 [S2 [S3 [_ [S5 [_ [S7 S8]]]]]]].
      cbn [u_wf u_yield u_meaning u_inv u_sem u_sv ao_wf ao_yield ao_meaning ao_sem ao_sv] in S1, S2, S3, S7, S8.
      destruct (lift_oand_facts first a1 F4 L1) as [La1 [La2 [La3 [La4 La5]]]].
      destruct (chain_oand_good xs a1 o2 r HFs As C) as [I1 [I2 [I3 [I4 [I5 I6]]]]].
      unfold Good. cbn [u_wf u_yield u_meaning u_inv u_level u_sem u_sv u_rt ao_wf ao_yield ao_meaning ao_sem ao_sv level PatternSyntax.pr obsop_tok a_rt].
      split; [apply I1; cbn [wf_oand]; rewrite La2, F1, S1; reflexivity|].
      split; [rewrite I2, toks_pr_ops; cbn [yield_oand]; rewrite La1, F2, S2; reflexivity|].
      split; [rewrite ma_cpd; cbn [map]; rewrite <- F3, (splice_oand first a1 _ F4 L1), I3;
              cbn [mc_oand_list]; rewrite S3, <- !app_assoc; cbn [List.app];
              rewrite (one_or_two _ (MObsOp OpAnd) _ _ _ (mc_oand_list_nonnil a1)); reflexivity|].
      split; [destruct I4 as [l [p Er]]; rewrite Er; exact I|].
      split; [reflexivity|]. split; [reflexivity|].
      split.
      * intros Cn. destruct (Cshape Cn) as [C1 [C2 Cs]]. apply I6; [exact Cs|].
        cbn [sem_oand]. rewrite La5, (F7 C1), (S7 C2). reflexivity.
      * intros V. destruct (Vshape V) as [Ex [V1 V2]]. subst xs. rewrite (I5 eq_refl).
        cbn [sv_oand]. rewrite La4, (F8 V1), (S8 V2). reflexivity.
    + (* OR *)
      destruct (lift_oor first) as [a1|] eqn:L1; [|discriminate U].
      destruct (chain_oor a1 _) as [r|] eqn:C; [|discriminate U]. inversion U; subst u; clear U.
      cbn [chain_oor] in C. destruct (as_obs (unv x2)) as [c2|] eqn:E2; [|discriminate C].
      destruct (lift_oand c2) as [a2|] eqn:L2; [|discriminate C].
      apply as_obs_some in E2.
      destruct (H2 _ E2 A2) as [S1 [S2 [S3 [S4 [S5 [_ [S7 S8]]]]]]].
      cbn [u_wf u_yield u_meaning u_inv u_sem u_sv] in S1, S2, S3, S4, S7, S8.
      destruct (lift_oor_facts first a1 F4 L1) as [La1 [La2 [La3 [La4 La5]]]].
      destruct (lift_oand_facts c2 a2 S4 L2) as [Lb1 [Lb2 [Lb3 [Lb4 Lb5]]]].
      destruct (chain_oor_good xs a1 a2 r HFs As C) as [I1 [I2 [I3 [I4 [I5 I6]]]]].
      unfold Good. cbn [u_wf u_yield u_meaning u_inv u_level u_sem u_sv u_rt ao_wf ao_yield ao_meaning ao_sem ao_sv level PatternSyntax.pr obsop_tok a_rt].
      split; [apply I1; cbn [wf_oor]; rewrite La2, Lb2, F1, S1; reflexivity|].
      split; [rewrite I2, toks_pr_ops; cbn [yield_oor]; rewrite La1, Lb1, F2, S2; reflexivity|].
      split; [rewrite ma_cpd; cbn [map]; rewrite <- F3, (splice_oor first a1 _ F4 L1), I3;
              cbn [mc_oor_list]; rewrite Lb3, S3, <- !app_assoc; cbn [List.app];
              rewrite (one_or_two _ (MObsOp OpOr) _ _ _ (mc_oor_list_nonnil a1)); reflexivity|].
      split; [destruct I4 as [l [p Er]]; rewrite Er; exact I|].
      split; [reflexivity|]. split; [reflexivity|].
      split.
      * intros Cn. destruct (Cshape Cn) as [C1 [C2 Cs]]. apply I6; [exact Cs|].
        cbn [sem_oor]. rewrite La5, Lb5, (F7 C1), (S7 C2). reflexivity.
      * intros V. destruct (Vshape V) as [Ex [V1 V2]]. subst xs. rewrite (I5 eq_refl).
        cbn [sv_oor]. rewrite La4, Lb4, (F8 V1), (S8 V2). reflexivity.
    + (* FOLLOWEDBY *)
      destruct (chain_fb (lift_fb first) _) as [r|] eqn:C; [|discriminate U]. inversion U; subst u; clear U.
      cbn [chain_fb] in C. destruct (as_obs (unv x2)) as [c2|] eqn:E2; [|discriminate C].
      destruct (lift_oor c2) as [a2|] eqn:L2; [|discriminate C].
      apply as_obs_some in E2.
      destruct (H2 _ E2 A2) as [S1 [S2 [S3 [S4 [S5 [_ [S7 S8]]]]]]].
      cbn [u_wf u_yield u_meaning u_inv u_sem u_sv] in S1, S2, S3, S4, S7, S8.
      destruct (lift_fb_facts first F4) as [La1 [La2 [La3 [La4 La5]]]].
      destruct (lift_oor_facts c2 a2 S4 L2) as [Lb1 [Lb2 [Lb3 [Lb4 Lb5]]]].
      destruct (chain_fb_good xs (lift_fb first) a2 r HFs As C) as [I1 [I2 [I3 [I4 [I5 I6]]]]].
      unfold Good. cbn [u_wf u_yield u_meaning u_inv u_level u_sem u_sv u_rt ao_wf ao_yield ao_meaning ao_sem ao_sv level PatternSyntax.pr obsop_tok a_rt].
      split; [apply I1; cbn [wf_fb]; rewrite La2, Lb2, F1, S1; reflexivity|].
      split; [rewrite I2, toks_pr_ops; cbn [yield_fb]; rewrite La1, Lb1, F2, S2; reflexivity|].
      split; [rewrite ma_cpd; cbn [map]; rewrite <- F3, (splice_fb first _ F4), I3;
              cbn [mc_fb_list]; rewrite Lb3, S3, <- !app_assoc; cbn [List.app];
              rewrite (one_or_two _ (MObsOp OpFb) _ _ _ (mc_fb_list_nonnil (lift_fb first))); reflexivity|].
      split; [destruct I4 as [l [p Er]]; rewrite Er; exact I|].
      split; [reflexivity|]. split; [reflexivity|].
      split.
      * intros Cn. destruct (Cshape Cn) as [C1 [C2 Cs]]. apply I6; [exact Cs|].
        cbn [sem_fb]. rewrite La5, Lb5, (F7 C1), (S7 C2). reflexivity.
      * intros V. destruct (Vshape V) as [Ex [V1 V2]]. subst xs. rewrite (I5 eq_refl).
        cbn [sv_fb]. rewrite La4, Lb4, (F8 V1), (S8 V2). reflexivity.
Qed.

Theorem unv_good : forall a, PGood a.
Proof.
  apply aexpr_ind'.
  - apply cmp_good.
  - apply bool_good.
  - apply obs_good.
  - apply cpd_good.
  - apply paren_good.
  - intros x q H. apply qualified_good. exact H.
Qed.

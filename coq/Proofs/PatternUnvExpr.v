(* Proofs/PatternUnvExpr.v -- C10: `unvisit` on expressions of the object model.

   Main lemma `unv_good`: whenever unvisit finds a parse tree for an object
   whose constants and names are printable (`aprint`), that tree is well
   formed, its yield is exactly the printed tokens, and it means what the
   object means; if moreover the object has the shape the visitor produces
   (`vexpr`), the tree satisfies the visitor's side conditions and the
   visitor maps it back to the very same object.                            *)
From Coq Require Import NArith ZArith List String Bool Lia.
From V Require Import Model.PatternSyntax Proofs.PatternNumbers Proofs.PatternLit Proofs.PatternPath
  Proofs.PatternCmp Proofs.PatternObs Proofs.PatternEscape Proofs.PatternTokens Proofs.PatternMeaning
  Proofs.PatternUnvConst Proofs.PatternUnvPath.
Import ListNotations.
Open Scope N_scope.

(* ------------------------------------------------------------------ *)
(** * Printable objects *)

Definition is_string (c : aconst) : bool := match c with CString _ _ => true | _ => false end.
Definition not_bool (c : aconst) : bool := match c with CBool _ => false | _ => true end.

Definition rhs_ok (cls : cmpcls) (rhs : aconst) : bool :=
  match cls, rhs with
  | KlEq, CList l | KlIn, CList l => forallb const_ok l
  | KlIn, _ => false
  | KlEq, c => const_ok c
  | (KlGt | KlLt | KlGe | KlLe), c => const_ok c && not_bool c
  | (KlLike | KlMatches | KlSubset | KlSuperset), c => const_ok c && is_string c
  end.

Definition nonneg_int (c : aconst) : bool := match c with CInt z => (0 <=? z)%Z | _ => false end.
Definition pos_float (c : aconst) : bool := match c with CFloat f => const_ok c && negb (f_neg f) | _ => false end.
Definition is_ts (c : aconst) : bool := match c with CTimestamp _ => true | _ => false end.

Definition aqual_ok (q : aqual) : bool :=
  match q with
  | AQRepeat c => nonneg_int c
  | AQWithin c => nonneg_int c || pos_float c
  | AQStartStop a b => const_ok a && is_ts a && const_ok b && is_ts b
  end.

Fixpoint aprint (a : aexpr) : bool :=
  match a with
  | ECmp cls lhs rhs _ => apath_ok lhs && rhs_ok cls rhs
  | EBool _ ops => forallb aprint ops
  | EObs x => aprint x
  | ECompound _ ops => forallb aprint ops
  | EParen x => aprint x
  | EQualified x q => aprint x && aqual_ok q
  end.

(* ------------------------------------------------------------------ *)
(** * Reading a result of unv at its own grammar level *)

Definition ac_yield (c : anycmp) : list token :=
  match c with AC_pt p => yield_pt p | AC_and a => yield_and a | AC_or o => yield_or o end.
Definition ac_wf (c : anycmp) : bool :=
  match c with AC_pt p => wf_pt p | AC_and a => wf_and a | AC_or o => wf_or o end.
Definition ac_meaning (c : anycmp) : mexpr :=
  match c with AC_pt p => mc_pt p | AC_and a => mc_and a | AC_or o => mc_or o end.
Definition ac_sv (c : anycmp) : aexpr :=
  match c with AC_pt p => sv_pt p | AC_and a => sv_and a | AC_or o => sv_or o end.
Definition ac_sem (c : anycmp) : bool :=
  match c with AC_pt p => sem_pt p | AC_and a => sem_and a | AC_or o => sem_or o end.
Definition ac_rt (c : anycmp) : list ustring :=
  match c with AC_pt p => rt_pt p | AC_and a => rt_and a | AC_or o => rt_or o end.
(* AC_and / AC_or are only produced for chains of two or more *)
Definition ac_inv (c : anycmp) : Prop :=
  match c with
  | AC_pt _ => True
  | AC_and (CAnd _ _) => True
  | AC_or (COr _ _) => True
  | _ => False
  end.

Definition ao_yield (o : anyobs) : list token :=
  match o with AO_obs x => yield_obs x | AO_and x => yield_oand x | AO_or x => yield_oor x | AO_fb x => yield_fb x end.
Definition ao_wf (o : anyobs) : bool :=
  match o with AO_obs x => wf_obs x | AO_and x => wf_oand x | AO_or x => wf_oor x | AO_fb x => wf_fb x end.
Definition ao_meaning (o : anyobs) : mexpr :=
  match o with
  | AO_obs x => mc_obs x
  | AO_and x => one_or (MObsOp OpAnd) (mc_oand_list x)
  | AO_or x => one_or (MObsOp OpOr) (mc_oor_list x)
  | AO_fb x => one_or (MObsOp OpFb) (mc_fb_list x)
  end.
Definition ao_sv (o : anyobs) : aexpr :=
  match o with AO_obs x => sv_obs x | AO_and x => sv_oand x | AO_or x => sv_oor x | AO_fb x => sv_fb x end.
Definition ao_sem (o : anyobs) : bool :=
  match o with AO_obs x => sem_obs x | AO_and x => sem_oand x | AO_or x => sem_oor x | AO_fb x => sem_fb x end.
Definition ao_inv (o : anyobs) : Prop :=
  match o with
  | AO_obs _ => True
  | AO_and (OAnd _ _) => True
  | AO_or (OOr _ _) => True
  | AO_fb (OFb _ _) => True
  | _ => False
  end.

Definition u_yield (u : ucst) : list token := match u with UCmp c => ac_yield c | UObs o => ao_yield o end.
Definition u_wf (u : ucst) : bool := match u with UCmp c => ac_wf c | UObs o => ao_wf o end.
Definition u_meaning (u : ucst) : mexpr := match u with UCmp c => ac_meaning c | UObs o => ao_meaning o end.
Definition u_sv (u : ucst) : aexpr := match u with UCmp c => ac_sv c | UObs o => ao_sv o end.
Definition u_sem (u : ucst) : bool := match u with UCmp c => ac_sem c | UObs o => ao_sem o end.
Definition u_inv (u : ucst) : Prop := match u with UCmp c => ac_inv c | UObs o => ao_inv o end.
Definition u_rt (u : ucst) : list ustring := match u with UCmp c => ac_rt c | UObs _ => [] end.

(* ---- lifting to a looser level changes nothing ---- *)

Lemma lift_or_facts : forall c, ac_inv c ->
  yield_or (lift_or c) = ac_yield c /\ wf_or (lift_or c) = ac_wf c /\ mc_or (lift_or c) = ac_meaning c /\
  sv_or (lift_or c) = ac_sv c /\ sem_or (lift_or c) = ac_sem c /\ rt_or (lift_or c) = ac_rt c.
Proof. intros [p|a|o] H; cbn; repeat split; reflexivity. Qed.

Lemma lift_and_facts : forall c a, ac_inv c -> lift_and c = Some a ->
  yield_and a = ac_yield c /\ wf_and a = ac_wf c /\ mc_and a = ac_meaning c /\
  sv_and a = ac_sv c /\ sem_and a = ac_sem c /\ rt_and a = ac_rt c.
Proof. intros [p|a'|o] a H E; cbn in E; inversion E; subst; cbn; repeat split; reflexivity. Qed.

Lemma lift_pt_facts : forall c p, lift_pt c = Some p -> c = AC_pt p.
Proof. intros [p'|a|o] p E; cbn in E; inversion E; reflexivity. Qed.

Lemma lift_fb_facts : forall o, ao_inv o ->
  yield_fb (lift_fb o) = ao_yield o /\ wf_fb (lift_fb o) = ao_wf o /\
  one_or (MObsOp OpFb) (mc_fb_list (lift_fb o)) = ao_meaning o /\
  sv_fb (lift_fb o) = ao_sv o /\ sem_fb (lift_fb o) = ao_sem o.
Proof. intros [x|x|x|x] H; cbn; repeat split; reflexivity. Qed.

Lemma lift_oor_facts : forall o x, ao_inv o -> lift_oor o = Some x ->
  yield_oor x = ao_yield o /\ wf_oor x = ao_wf o /\
  one_or (MObsOp OpOr) (mc_oor_list x) = ao_meaning o /\
  sv_oor x = ao_sv o /\ sem_oor x = ao_sem o.
Proof. intros [y|y|y|y] x H E; cbn in E; inversion E; subst; cbn; repeat split; reflexivity. Qed.

Lemma lift_oand_facts : forall o x, ao_inv o -> lift_oand o = Some x ->
  yield_oand x = ao_yield o /\ wf_oand x = ao_wf o /\
  one_or (MObsOp OpAnd) (mc_oand_list x) = ao_meaning o /\
  sv_oand x = ao_sv o /\ sem_oand x = ao_sem o.
Proof. intros [y|y|y|y] x H E; cbn in E; inversion E; subst; cbn; repeat split; reflexivity. Qed.

Lemma lift_obs_facts : forall o x, lift_obs o = Some x -> o = AO_obs x.
Proof. intros [y|y|y|y] x E; cbn in E; inversion E; reflexivity. Qed.

(* ------------------------------------------------------------------ *)
(** * Levels, root types and the visitor's shape, on the object model *)

Inductive alevel := LPt | LAnd | LOr | LObs | LOAnd | LOOr | LOFb.

Definition is_cmp_level (l : alevel) : bool := match l with LPt | LAnd | LOr => true | _ => false end.

Fixpoint level (a : aexpr) : alevel :=
  match a with
  | ECmp _ _ _ _ => LPt
  | EBool true _ => LAnd
  | EBool false _ => LOr
  | EObs _ => LObs
  | ECompound OpAnd _ => LOAnd
  | ECompound OpOr _ => LOOr
  | ECompound OpFb _ => LOFb
  | EParen x => if is_cmp_level (level x) then LPt else LObs
  | EQualified _ _ => LObs
  end.

Definition u_level (u : ucst) : alevel :=
  match u with
  | UCmp (AC_pt _) => LPt | UCmp (AC_and _) => LAnd | UCmp (AC_or _) => LOr
  | UObs (AO_obs _) => LObs | UObs (AO_and _) => LOAnd | UObs (AO_or _) => LOOr | UObs (AO_fb _) => LOFb
  end.

Definition level_eqb (a b : alevel) : bool :=
  match a, b with
  | LPt, LPt | LAnd, LAnd | LOr, LOr | LObs, LObs | LOAnd, LOAnd | LOOr, LOOr | LOFb, LOFb => true
  | _, _ => false
  end.
Lemma level_eqb_eq : forall a b, level_eqb a b = true -> a = b.
Proof. intros [] []; cbn; intros H; try discriminate; reflexivity. Qed.

Fixpoint a_rt (a : aexpr) : list ustring :=
  match a with
  | ECmp _ lhs _ _ => [ap_type lhs]
  | EParen x => a_rt x
  | EBool isand ops =>
      match ops with
      | x1 :: x2 :: _ => if isand then set_inter (a_rt x1) (a_rt x2) else set_union (a_rt x1) (a_rt x2)
      | _ => []
      end
  | _ => []
  end.

Definition vrhs (cls : cmpcls) (rhs : aconst) : bool :=
  match cls, rhs with
  | KlIn, CList l => forallb (fun c => const_ok c && const_canon c) l
  | _, CList _ => false
  | _, c => rhs_ok cls c && const_canon c
  end.

Definition left_level_ok (op : obsop) (l : alevel) : bool :=
  match op, l with
  | OpAnd, (LObs | LOAnd) => true
  | OpOr, (LObs | LOAnd | LOOr) => true
  | OpFb, (LObs | LOAnd | LOOr | LOFb) => true
  | _, _ => false
  end.
Definition right_level_ok (op : obsop) (l : alevel) : bool :=
  match op, l with
  | OpAnd, LObs => true
  | OpOr, (LObs | LOAnd) => true
  | OpFb, (LObs | LOAnd | LOOr) => true
  | _, _ => false
  end.

Fixpoint vexpr (a : aexpr) : bool :=
  match a with
  | ECmp cls lhs rhs _ => vpath lhs && vrhs cls rhs
  | EBool isand ops =>
      forallb vexpr ops &&
      forallb (fun x => if isand then level_eqb (level x) LPt
                        else level_eqb (level x) LPt || level_eqb (level x) LAnd) ops &&
      match ops with
      | x1 :: x2 :: _ => if isand then negb (is_nil (set_inter (a_rt x1) (a_rt x2))) else true
      | _ => false
      end
  | EObs x => vexpr x && is_cmp_level (level x)
  | ECompound op ops =>
      match ops with
      | [x; y] => vexpr x && vexpr y && left_level_ok op (level x) && right_level_ok op (level y)
      | _ => false
      end
  | EParen x => vexpr x
  | EQualified x q => vexpr x && level_eqb (level x) LObs
  end.

Definition Good (a : aexpr) (u : ucst) : Prop :=
  u_wf u = true /\ u_yield u = toks_of (pr a) /\ u_meaning u = ma a /\ u_inv u /\ u_level u = level a /\
  (vexpr a = true -> u_sem u = true /\ u_sv u = a /\ u_rt u = a_rt a).

Definition PGood (a : aexpr) : Prop := forall u, unv a = Some u -> aprint a = true -> Good a u.

(* ---- printing of operand lists ---- *)

Lemma toks_sep_op : forall t x rest,
  toks_of (sep_items [Sp; T t; Sp] (x :: rest)) = toks_of x ++ flat_map (fun y => t :: toks_of y) rest.
Proof.
  intros t x rest. revert x. induction rest as [|y r IH]; intros x.
  - cbn [sep_items flat_map]. rewrite app_nil_r. reflexivity.
  - change (sep_items [Sp; T t; Sp] (x :: y :: r)) with (x ++ [Sp; T t; Sp] ++ sep_items [Sp; T t; Sp] (y :: r)).
    rewrite !toks_of_app, IH. cbn [toks_of flat_map List.app]. reflexivity.
Qed.

Lemma toks_sep_comma : forall x rest,
  toks_of (sep_items [T t_COMMA; Sp] (x :: rest)) = toks_of x ++ flat_map (fun y => t_COMMA :: toks_of y) rest.
Proof.
  intros x rest. revert x. induction rest as [|y r IH]; intros x.
  - cbn [sep_items flat_map]. rewrite app_nil_r. reflexivity.
  - change (sep_items [T t_COMMA; Sp] (x :: y :: r)) with (x ++ [T t_COMMA; Sp] ++ sep_items [T t_COMMA; Sp] (y :: r)).
    rewrite !toks_of_app, IH. cbn [toks_of flat_map List.app]. reflexivity.
Qed.

(* custom induction principle: operands of EBool / ECompound *)
Lemma aexpr_ind' (P : aexpr -> Prop)
  (HCmp : forall cls lhs rhs neg, P (ECmp cls lhs rhs neg))
  (HBool : forall isand ops, Forall P ops -> P (EBool isand ops))
  (HObs : forall x, P x -> P (EObs x))
  (HCpd : forall op ops, Forall P ops -> P (ECompound op ops))
  (HPar : forall x, P x -> P (EParen x))
  (HQual : forall x q, P x -> P (EQualified x q)) : forall a, P a.
Proof.
  fix IH 1. intros a. destruct a as [cls lhs rhs neg|isand ops|x|op ops|x|x q].
  - apply HCmp.
  - apply HBool. induction ops as [|y r IHr]; constructor; [apply IH|exact IHr].
  - apply HObs, IH.
  - apply HCpd. induction ops as [|y r IHr]; constructor; [apply IH|exact IHr].
  - apply HPar, IH.
  - apply HQual, IH.
Qed.

(* ------------------------------------------------------------------ *)
(** * Comparisons *)

Lemma unv_path_type : forall p op, unv_path p = Some op -> tx (op_type op) = ap_type p.
Proof.
  intros [ty comps] op H. unfold unv_path in H. cbn [ap_comps ap_type] in H.
  destruct comps as [|c r]; [discriminate|]. inversion H; subst op. reflexivity.
Qed.

Lemma pr_const_leaf : forall c, const_ok c = true -> pr_const c = [T (const_tok c)].
Proof. intros c H. unfold const_tok. destruct c; try reflexivity. discriminate H. Qed.

Lemma toks_of_consts_ok : forall l, forallb const_ok l = true -> toks_of_consts l = Some (map const_tok l).
Proof.
  induction l as [|c r IH]; intros H; [reflexivity|]. cbn [forallb] in H. apply andb_true_iff in H. destruct H as [Hc Hr].
  cbn [toks_of_consts map]. rewrite (tok_of_const_leaf c Hc), (IH Hr). reflexivity.
Qed.

Lemma yield_set_consts : forall l, forallb const_ok l = true ->
  toks_of (sep_items [T t_COMMA; Sp] (map pr_const l)) = yield_set (map const_tok l).
Proof.
  intros [|c r] H; [reflexivity|]. cbn [map]. rewrite toks_sep_comma.
  cbn [forallb] in H. apply andb_true_iff in H. destruct H as [Hc Hr].
  rewrite (pr_const_leaf c Hc). cbn [toks_of List.app].
  revert c Hc. induction r as [|d r IH]; intros c Hc; [reflexivity|].
  cbn [forallb] in Hr. apply andb_true_iff in Hr. destruct Hr as [Hd Hr].
  cbn [map flat_map]. rewrite (pr_const_leaf d Hd). cbn [toks_of List.app].
  change (yield_set (const_tok c :: const_tok d :: map const_tok r)) with (const_tok c :: t_COMMA :: yield_set (const_tok d :: map const_tok r)).
  f_equal. f_equal. apply (IH Hr d Hd).
Qed.

Lemma consts_wf : forall l, forallb const_ok l = true ->
  forallb (fun t => kind_in t primitive_kinds) (map const_tok l) = true /\ forallb lit_sem (map const_tok l) = true /\
  map m_tok (map const_tok l) = map ma_const l.
Proof.
  induction l as [|c r IH]; intros H; [repeat split; reflexivity|].
  cbn [forallb] in H. apply andb_true_iff in H. destruct H as [Hc Hr]. destruct (IH Hr) as [I1 [I2 I3]].
  destruct (const_token c Hc) as [K [S _]]. cbn [map forallb].
  rewrite (kinds_primitive c _ K), S, I1, I2, (const_meaning c Hc), I3. repeat split; reflexivity.
Qed.

Lemma consts_canon_back : forall l, forallb (fun c => const_ok c && const_canon c) l = true ->
  forallb const_ok l = true /\ map sv_lit (map const_tok l) = l.
Proof.
  induction l as [|c r IH]; intros H; [split; reflexivity|].
  cbn [forallb] in H. apply andb_true_iff in H. destruct H as [Hc Hr]. apply andb_true_iff in Hc. destruct Hc as [Ho Hn].
  destruct (IH Hr) as [I1 I2]. cbn [forallb map]. rewrite Ho, I1, I2. split; [reflexivity|]. f_equal.
  destruct (const_token c Ho) as [_ [_ V]]. destruct c as [v [|]|t|z|f|b|v|v|l]; try exact V; discriminate Hn.
Qed.

Lemma const_canon_back : forall c, const_ok c = true -> const_canon c = true -> sv_lit (const_tok c) = c.
Proof.
  intros c Ho Hn. destruct (const_token c Ho) as [_ [_ V]].
  destruct c as [v [|]|t|z|f|b|v|v|l]; try exact V; discriminate Hn.
Qed.

Lemma toks_pr_cmp : forall cls lhs rhs neg,
  toks_of (pr (ECmp cls lhs rhs neg)) =
  toks_of (pr_path lhs) ++ opt_not neg ++ [cls_operator cls rhs] ++ toks_of (pr_const rhs).
Proof.
  intros cls lhs rhs neg. cbn [pr]. rewrite !toks_of_app. destruct neg; reflexivity.
Qed.

Lemma is_string_kind : forall c, const_ok c = true -> is_string c = true -> kind_in (const_tok c) [KString] = true.
Proof. intros c Ho Hs. destruct (const_token c Ho) as [K _]. destruct c; try discriminate Hs. exact K. Qed.

Lemma string_lit_sem : forall t, kind_in t [KString] = true -> lit_sem t = true.
Proof. intros t H. destruct (kind_single _ _ H) as [Hk _]. apply lit_sem_other; rewrite Hk; discriminate. Qed.

Lemma cmp_good : forall cls lhs rhs neg, PGood (ECmp cls lhs rhs neg).
Proof.
  intros cls lhs rhs neg u U A. cbn [unv] in U. cbn [aprint] in A. apply andb_true_iff in A. destruct A as [Ap Ar].
  destruct (unv_cmp cls lhs rhs neg) as [p|] eqn:E; [|discriminate]. inversion U; subst u; clear U.
  unfold unv_cmp in E. destruct (unv_path_ok lhs Ap) as [op [Eo [Wp [Yp Mp]]]]. rewrite Eo in E.
  pose proof (unv_path_type lhs op Eo) as Ty.
  unfold Good. cbn [u_wf u_yield u_meaning u_inv u_level u_sem u_sv u_rt ac_wf ac_yield ac_meaning ac_inv ac_sem ac_sv ac_rt level].
  rewrite toks_pr_cmp.
  assert (VP : vpath lhs = true -> path_sem op = true /\ sv_path_v op = lhs) by (intros V; apply (unv_path_back lhs op V Eo)).
  (* the four shapes of the right-hand side *)
  assert (SetCase : forall l, rhs = CList l -> forallb const_ok l = true -> p = PTSet op neg (map const_tok l) ->
            (cls = KlEq \/ cls = KlIn) ->
            wf_pt p = true /\ yield_pt p = toks_of (pr_path lhs) ++ opt_not neg ++ [cls_operator cls rhs] ++ toks_of (pr_const rhs) /\
            mc_pt p = ma (ECmp cls lhs rhs neg) /\ True /\ LPt = LPt /\
            (vexpr (ECmp cls lhs rhs neg) = true -> sem_pt p = true /\ sv_pt p = ECmp cls lhs rhs neg /\ rt_pt p = a_rt (ECmp cls lhs rhs neg))).
  { intros l El Hl Ep Hc. subst rhs p. destruct (consts_wf l Hl) as [W1 [W2 W3]].
    split; [cbn [wf_pt]; rewrite Wp, W1; reflexivity|]. split; [|split; [|split; [exact I|split; [reflexivity|]]]].
    - cbn [yield_pt pr_const]. rewrite Yp, !toks_of_app, (yield_set_consts l Hl).
      assert (Op : cls_operator cls (CList l) = t_IN) by (destruct Hc; subst cls; reflexivity). rewrite Op.
      cbn [toks_of List.app]. reflexivity.
    - cbn [mc_pt ma ma_const]. rewrite Mp, W3.
      assert (Op : ma_op cls (CList l) = MoIn) by (destruct Hc; subst cls; reflexivity). rewrite Op. reflexivity.
    - intros V. cbn [vexpr] in V. apply andb_true_iff in V. destruct V as [V1 V2]. destruct (VP V1) as [S1 S2].
      destruct Hc; subst cls; [discriminate V2|]. cbn [vrhs] in V2. destruct (consts_canon_back l V2) as [_ B].
      cbn [sem_pt sv_pt rt_pt a_rt]. rewrite S1, W2, S2, B, Ty. repeat split; reflexivity. }
  destruct cls; destruct rhs as [v q|t|z|f|b|v|v|l]; cbn [rhs_ok] in Ar;
    try discriminate Ar;
    try (destruct (toks_of_consts l) as [ts|] eqn:Et; [|discriminate E];
         rewrite (toks_of_consts_ok l Ar) in Et; injection Et as Et; subst ts; injection E as Ep;
         apply (SetCase l eq_refl Ar (eq_sym Ep)); auto).
  all: match type of E with
       | match tok_of_const ?c with _ => _ end = _ =>
           let Ho := fresh "Ho" in
           assert (Ho : const_ok c = true) by (first [exact Ar | apply andb_true_iff in Ar; tauto]);
           rewrite (tok_of_const_leaf c Ho) in E; inversion E as [Ep]; clear E;
           destruct (const_token c Ho) as [K [S _]];
           pose proof (const_meaning c Ho) as Mc;
           pose proof (pr_const_leaf c Ho) as Pc
       end.
  all: rewrite Pc; cbn [toks_of].
  all: split; [cbn [wf_pt]; rewrite Wp;
               first [ rewrite (kinds_primitive _ _ K); reflexivity
                     | rewrite (kinds_orderable _ _ I K); reflexivity
                     | rewrite (is_string_kind _ Ho (proj2 (proj1 (andb_true_iff _ _) Ar))); reflexivity ]|].
  all: split; [cbn [yield_pt cls_operator strop_tok]; rewrite Yp; reflexivity|].
  all: split; [cbn [mc_pt ma ma_op m_order_op m_strop tk t_EQ t_GT t_LT t_GE t_LE tkind_eqb negb xorb]; rewrite Mp, Mc;
               try rewrite xorb_false_r; reflexivity|].
  all: split; [exact I|]. all: split; [reflexivity|].
  all: intros V; cbn [vexpr] in V; apply andb_true_iff in V; destruct V as [V1 V2]; destruct (VP V1) as [S1 S2];
       cbn [vrhs] in V2; apply andb_true_iff in V2; destruct V2 as [_ V2];
       cbn [sem_pt sv_pt rt_pt a_rt order_cls strop_cls tk t_EQ t_GT t_LT t_GE t_LE tkind_eqb negb xorb];
       rewrite S1, S2, Ty, (const_canon_back _ Ho V2); try rewrite S; repeat split; reflexivity.
Qed.

(* Proofs/SchemaCovKnot.v -- C02 coverage extension: the knot of Proofs/SchemaKnot.v tied again over the
   larger coverage predicate class_proved2 (Proofs/SchemaCovProved.v).  Same induction on the fuel of
   `run`; the object-level lemmas (construct_generic_facts, facts_good) and the request predicates
   (req_strict, req_scope) are those of Proofs/SchemaObject.v / SchemaKnot.v, unchanged; the per-kind
   and per-constraint steps are Proofs/SchemaCovKinds.v:kind_sound2 and SchemaCovCons.v:constr_sound2. *)
From Coq Require Import NArith ZArith List String Bool Lia.
From V Require Import Base.UString Base.Json Model.SchemaTypes Model.PyBase Model.Schema
     Spec.StixValid Spec.SchemaRefine Proofs.SchemaBasics Proofs.SchemaValidMono Proofs.SchemaScope
     Proofs.SchemaTime Proofs.SchemaLeaf Proofs.SchemaObject Proofs.SchemaProved Proofs.SchemaKinds
     Proofs.SchemaConstr Proofs.SchemaRefineFacts Proofs.SchemaKnot
     Proofs.SchemaCovRef Proofs.SchemaCovProved Proofs.SchemaCovKinds Proofs.SchemaCovInv Proofs.SchemaCovInv2 Proofs.SchemaCovCons.
Import ListNotations.

Local Arguments u : simpl never.

(* ---------- about `run` only ---------- *)
Lemma run_construct_obj vr ev w pok sok fuel k allow interop kw vrefs o :
  run vr ev w pok sok fuel (RConstruct k allow interop kw vrefs) = Ok o -> exists inner dfl hc, o = PObject k inner dfl hc.
Proof.
  destruct fuel; [discriminate|]. simpl. intros H.
  destruct (find_class (wclasses w) k) as [c|] eqn:Hfc; try discriminate.
  destruct (find_class_In _ _ _ Hfc) as [_ Hcid].
  match type of H with (if ?b then _ else _) = _ => destruct b; try discriminate end.
  inv_bind H.
  assert (exists inner' dfl' hc', a = PObject (cid c) inner' dfl' hc') as (inner' & dfl' & hc' & ->).
  { destruct (cinit c) as [|names| | |vv| |src]; try discriminate; try (eapply construct_generic_cid; eauto; fail).
    destruct (alookup (u "definition_type") kw) as [dt|]; [|eapply construct_generic_cid; eauto].
    destruct (alookup (u "definition") kw) as [dv|]; [|eapply construct_generic_cid; eauto].
    destruct dt as [| | | |t| |]; try discriminate.
    repeat match type of Ha with
           | match ?x with _ => _ end = _ => destruct x eqn:?; try discriminate
           | (if ?b then _ else _) = _ => destruct b eqn:?; try discriminate
           end.
    inv_bind Ha.
    match type of Hab with (if ?b then _ else _) = _ => destruct b; try discriminate end.
    inv_bind Hab. apply construct_generic_cid in Habb. destruct Habb as (i & dd & h & ->).
    repeat match goal with |- context [match ?x with _ => _ end] => destruct x end; simpl; eauto. }
  subst k.
  destruct (cfamily c); destruct (cver c); try (injection Hb as <-; eauto; fail).
  repeat match type of Hb with
         | (if ?b then _ else _) = _ => destruct b
         | match ?x with _ => _ end = _ => destruct x; try discriminate
         end; injection Hb as <-; eauto.
Qed.

(* parse_observable in strict mode is the constructor of the class registered for the type *)
Lemma run_parse_obs_inv vr ev w pok sok f vv refs d o :
  run vr ev w pok sok f (RParseObs (Some vv) refs false false d) = Ok o ->
  exists f' t k, f = S f' /\ assoc t (robservables (reg_of w vv)) = Some k /\
                 run vr ev w pok sok f' (RConstruct k false false d (Some refs)) = Ok o.
Proof.
  destruct f as [|f']; [discriminate|]. simpl. intros H.
  destruct (alookup (u "type") d) as [ty|]; try discriminate.
  destruct ty as [| | | |t| |]; try discriminate.
  unfold class_for in H.
  destruct (assoc t (robservables (reg_of w vv))) as [k|] eqn:Ea; try discriminate.
  destruct (amem (u "_valid_refs") d); try discriminate.
  inv_bind H. match type of Hb with (if ?b then _ else _) = _ => destruct b; try discriminate end.
  injection Hb as <-. exists f', t, k. auto.
Qed.

(* a class without class-specific wrapping whose `type` is fixed writes it *)
Lemma run_construct_typed vr ev w pok sok fuel k allow interop kw vrefs o t :
  vr_year_pad vr = true ->
  run vr ev w pok sok fuel (RConstruct k allow interop kw vrefs) = Ok o ->
  class_typed w k t = true -> typed t o.
Proof.
  intros Hpad H Hty. destruct fuel; [discriminate|]. simpl in H. unfold class_typed in Hty.
  destruct (find_class (wclasses w) k) as [c|] eqn:Hfc; try discriminate.
  apply andb_true_iff in Hty. destruct Hty as [Hty Hslot]. apply andb_true_iff in Hty. destruct Hty as [Hinit Hnames].
  destruct (find_slot c (u "type")) as [s|] eqn:Es; try discriminate.
  destruct (find_slot_spec _ _ _ Es) as [Hs Hname].
  destruct (skind s) as [| | |fv al| | | | | | | | | | | | | | | | | | | | |] eqn:Ek; try discriminate.
  destruct (sdef s) eqn:Ed; try discriminate. apply ustr_eqb_eq in Hslot. subst fv.
  match type of H with (if ?b then _ else _) = _ => destruct b; try discriminate end.
  inv_bind H.
  assert (G : exists setting hc, a = PObject (cid c) setting (defaulted_names c setting) hc /\
                                 alookup (u "type") setting = Some (PJ (JStr t))).
  { assert (Gen : forall kw' vr', construct_generic vr ev w pok sok
                    (fun k a i kw => run vr ev w pok sok fuel (RConstruct k a i kw None))
                    (fun a i d => run vr ev w pok sok fuel (RParse a i None d))
                    (fun vv refs a d => run vr ev w pok sok fuel (RParseObs (Some vv) refs a false d))
                    (S fuel) c allow interop kw' [] vr' = Ok a ->
                  exists setting hc, a = PObject (cid c) setting (defaulted_names c setting) hc /\
                                     alookup (u "type") setting = Some (PJ (JStr t))).
    { intros kw' vr' Hg.
      destruct (construct_generic_model vr ev w _ _ _ Hpad c Hnames _ _ [] ltac:(intros; discriminate) ltac:(reflexivity)
                                        ltac:(intros; discriminate) pok sok (S fuel) allow interop kw' vr' a eq_refl eq_refl Hg)
        as (setting & hc & E & _ & HF).
      exists setting, hc. split; auto. rewrite <- Hname. eapply HF; eauto. }
    destruct (cinit c); try discriminate Hinit; eapply Gen; eauto. }
  destruct G as (setting & hc & -> & Hl).
  assert (Hd : mem_ustr (u "type") (defaulted_names c setting) = false).
  { rewrite <- Hname. apply defaulted_not_present; auto. unfold always_present. rewrite Ed. apply orb_true_r. }
  assert (Base : typed t (PObject (cid c) setting (defaulted_names c setting) hc)).
  { do 4 eexists. split; [reflexivity|]. auto. }
  destruct (cfamily c); destruct (cver c); try (injection Hb as <-; exact Base).
  destruct (amem (u "id") kw); [injection Hb as <-; exact Base|].
  destruct (existsb _ (cidcontrib c)); [|injection Hb as <-; exact Base].
  destruct (ctype c); try discriminate. injection Hb as <-.
  do 4 eexists. split; [reflexivity|]. split; auto.
  rewrite alookup_aset_other by reflexivity. exact Hl.
Qed.

(* a registered marking class: the object it constructs is never empty, nor is its serialization, and
   a `tlp` member is not elided *)
Lemma run_construct_mark vr ev w pok sok fuel k allow interop kw vrefs o :
  vr_year_pad vr = true ->
  run vr ev w pok sok fuel (RConstruct k allow interop kw vrefs) = Ok o ->
  marking_cls_ok w k = true -> mark_ok o.
Proof.
  intros Hpad H Hok. destruct fuel; [discriminate|]. simpl in H. unfold marking_cls_ok in Hok.
  destruct (find_class (wclasses w) k) as [c|] eqn:Hfc; try discriminate.
  repeat (apply andb_true_iff in Hok; let H2 := fresh "M" in destruct Hok as [Hok H2]).
  rename Hok into Hinit. rename M2 into Hnames. rename M1 into Hfam. rename M0 into Hex. rename M into Htlp.
  match type of H with (if ?b then _ else _) = _ => destruct b; try discriminate end.
  inv_bind H.
  assert (G : exists setting hc, a = PObject (cid c) setting (defaulted_names c setting) hc /\ Imodel c setting).
  { assert (Gen : forall kw' vr', construct_generic vr ev w pok sok
                    (fun k a i kw => run vr ev w pok sok fuel (RConstruct k a i kw None))
                    (fun a i d => run vr ev w pok sok fuel (RParse a i None d))
                    (fun vv refs a d => run vr ev w pok sok fuel (RParseObs (Some vv) refs a false d))
                    (S fuel) c allow interop kw' [] vr' = Ok a ->
                  exists setting hc, a = PObject (cid c) setting (defaulted_names c setting) hc /\ Imodel c setting).
    { intros kw' vr' Hg.
      destruct (construct_generic_model vr ev w _ _ _ Hpad c Hnames _ _ [] ltac:(intros; discriminate) ltac:(reflexivity)
                                        ltac:(intros; discriminate) pok sok (S fuel) allow interop kw' vr' a eq_refl eq_refl Hg)
        as (setting & hc & E & HMo & _).
      eauto. }
    destruct (cinit c); try discriminate Hinit; eapply Gen; eauto. }
  destruct G as (setting & hc & -> & (_ & _ & HR & _)).
  assert (o = PObject (cid c) setting (defaulted_names c setting) hc) as ->.
  { destruct (cfamily c); try discriminate Hfam; destruct (cver c); injection Hb as <-; reflexivity. }
  apply existsb_exists in Hex. destruct Hex as [s0 [Hs0 Hr0]].
  pose proof (HR s0 Hs0 Hr0) as Ham. apply amem_alookup in Ham. destruct Ham as [x0 Hx0].
  pose proof (alookup_In _ _ _ Hx0) as Hin0.
  split.
  - rewrite encode_PObject. simpl ptruthy.
    assert (Hk : In (sname s0, x0) (filter (kept false (defaulted_names c setting)) setting)).
    { apply filter_In. split; auto. unfold kept. cbn [fst orb].
      rewrite (defaulted_not_present c Hnames s0 Hs0); auto. unfold always_present. rewrite Hr0. reflexivity. }
    destruct setting; [destruct Hin0|].
    destruct (filter _ _) eqn:Ef; [destruct Hk|]. reflexivity.
  - intros k' inner dfl hc' E. injection E as _ _ <- _.
    apply mem_ustr_false. unfold defaulted_names. intros Hin. apply in_map_iff in Hin. destruct Hin as [s [Hn Hf]].
    apply filter_In in Hf. destruct Hf as [Hs Hc]. apply andb_true_iff in Hc. destruct Hc as [Hnr _].
    rewrite forallb_forall in Htlp. specialize (Htlp s Hs). rewrite Hn, ustr_eqb_refl in Htlp. cbn [negb orb] in Htlp.
    rewrite Htlp in Hnr. discriminate.
Qed.

(* Proofs/SchemaObject.v:facts_good with the constraint verdict given for the one object at hand *)
Section Good2.
  Variable vr : variant.
  Variable sp : world.
  Variable pok : ver -> ustring -> bool.
  Variables c sc : cls.
  Hypothesis Hnames : unodup (map sname (cslots c)) = true.
  Hypothesis Hreq : forall s', In s' (cslots sc) -> spec_requires sc s' = true ->
      exists s, find_slot c (sname s') = Some s /\ always_present s = true.
  Hypothesis Hfind : find_class (wclasses sp) (cid c) = Some sc.

  Lemma facts_good2 setting :
    facts vr sp pok c sc setting ->
    (exists nc, forallb (jconstr pok nc sc (members c setting))
                        ((match cfamily sc with FExt => [CAtLeastOneDefault] | _ => [] end) ++ ccons sc) = true) ->
    good sp pok (cid c) (PObject (cid c) setting (defaulted_names c setting) false).
  Proof.
    intros (HInv & Hpresent & _ & _) [nc Hnc].
    exists setting, (defaulted_names c setting). split; auto.
    assert (Hmem : exists N, forall kv, In kv (members c setting) ->
               match find (fun s => ustr_eqb (sname s) (fst kv)) (cslots sc) with
               | Some s => valid_kind sp pok N (skind s) (snd kv) = true
               | None => False
               end).
    { apply forall_exists_bound.
      - intros n m kv Hle. destruct (find _ (cslots sc)); auto. apply valid_kind_mono; auto.
      - intros kv Hin. unfold members in Hin. apply in_map_iff in Hin. destruct Hin as [[k x] [<- Hin]].
        apply filter_In in Hin. destruct Hin as [Hin _]. simpl.
        destruct HInv as [_ Hent]. destruct (Hent k x Hin) as [_ [s' [Hf [m Hm]]]].
        unfold find_slot in Hf. rewrite Hf. eauto. }
    destruct Hmem as [N HN].
    exists (S (Nat.max N nc)).
    rewrite encode_PObject. fold (members c setting).
    change (valid_obj_body sp (valid_kind sp pok (Nat.max N nc)) (jconstr pok (S (Nat.max N nc))) (cid c) (JObj (members c setting)) = true).
    unfold valid_obj_body. rewrite Hfind.
    apply andb_true_iff. split; [apply andb_true_iff; split|].
    - rewrite forallb_forall. intros kv Hin. specialize (HN kv Hin).
      destruct (find _ (cslots sc)); [|contradiction]. eapply valid_kind_mono; [|exact HN]. lia.
    - rewrite forallb_forall. intros s' Hs'. destruct (spec_required sc s') eqn:Er; auto. simpl.
      pose proof (Hpresent s' Hs' Er) as Hpres.
      destruct (Hreq s' Hs' Er) as [s [Hfs Hap]].
      destruct (find_slot_spec _ _ _ Hfs) as [Hs Hn].
      rewrite jlookup_alookup. unfold members, kept. rewrite alookup_map_encode.
      rewrite (alookup_filter_keys (fun k => false || negb (mem_ustr k (defaulted_names c setting)))).
      rewrite <- Hn at 1. rewrite (defaulted_not_present c Hnames s Hs Hap). simpl.
      apply amem_alookup in Hpres. destruct Hpres as [v Hv]. rewrite Hv. auto.
    - revert Hnc. apply forallb_imp. intros k _. apply jconstr_mono. lia.
  Qed.
End Good2.

Section Knot2.
  Variable vr : variant.
  Variable ev : env.
  Variables w sp : world.
  Variable pok : ver -> ustring -> bool.
  Variable sok : list (ustring * pval) -> pval -> result bool.

  Hypothesis Hvr : variant_sound vr = true.
  Hypothesis Hev : env_ok ev = true.
  Hypothesis Href : world_refines w sp = true.

  Definition result_ok2 (n : nat) (r : request) (o : pval) : Prop :=
    match r with
    | RConstruct kid _ _ _ _ => class_proved2 n w kid = true -> good sp pok kid o
    | _ => forall cid inner dfl hc, o = PObject cid inner dfl hc -> class_proved2 n w cid = true -> good sp pok cid o
    end.

  (* the generic constructor on a covered class *)
  Lemma generic_ok2_pre f n c kwargs pre vrefs o :
    (forall r o, req_strict r = true -> req_scope r = true -> run vr ev w pok sok f r = Ok o -> result_ok2 n r o) ->
    find_class (wclasses w) (cid c) = Some c ->
    class_wf c = true ->
    forallb (fun s => kind_proved2 w (class_proved2 n w) (skind s)) (cslots c) = true ->
    forallb (constr_proved2 c) (ext_constr c ++ ccons c) = true ->
    dict_scope kwargs = true ->
    (* what the class __init__ wrapped *)
    (forall sc, find_class (wclasses sp) (cid c) = Some sc -> class_refine_failures c sc = [] ->
                forall m x, alookup m pre = Some x ->
                            match x with PJ _ => False | _ => True end /\ entry_ok sp pok sc m x /\ pval_has_custom x = false) ->
    (forall m x, alookup m pre = Some x -> tnice x) ->
    (forall s, In s (cslots c) -> pj_kind (skind s) = true -> alookup (sname s) pre = None) ->
    (forall m x, alookup m pre = Some x -> mark_ok x) ->
    construct_generic vr ev w pok sok
      (fun k a i kw => run vr ev w pok sok f (RConstruct k a i kw None))
      (fun a i d => run vr ev w pok sok f (RParse a i None d))
      (fun vv refs a d => run vr ev w pok sok f (RParseObs (Some vv) refs a false d))
      (S f) c false false kwargs pre vrefs = Ok o ->
    exists sc setting,
      class_refine_failures c sc = [] /\
      o = PObject (cid c) setting (defaulted_names c setting) false /\
      facts vr sp pok c sc setting /\ Imodel c setting /\
      (forall st, facts vr sp pok c sc st -> Imodel c st ->
                  good sp pok (cid c) (PObject (cid c) st (defaulted_names c st) false)).
  Proof.
    intros IH Hfc Hwf Hkinds Hcons Hsc Hpre0 Hpre_t Hpre_pj Hpre_mark H.
    destruct (find_class_In _ _ _ Hfc) as [Hin _].
    destruct (world_refines_class _ _ _ Href Hin) as [sc [Hfs Hcrf]].
    pose proof (Hpre0 sc Hfs Hcrf) as Hpre.
    destruct (crf_parts _ _ Hcrf) as (Hhead & _ & Hslots & Hreq & Hcc).
    destruct (header_ok_parts _ _ Hhead) as [Hver Hfam].
    destruct (class_wf_parts _ Hwf) as (Hnames & Hcn & Hdc & Hdconst).
    destruct (vr_flags vr Hvr) as (_ & _ & _ & _ & _ & Hpad & _ & Hsock).
    set (rc := fun k a i kw => run vr ev w pok sok f (RConstruct k a i kw None)) in *.
    set (rp := fun a i d => run vr ev w pok sok f (RParse a i None d)) in *.
    set (ro := fun vv refs a d => run vr ev w pok sok f (RParseObs (Some vv) refs a false d)) in *.
    assert (IHrc : forall k d o', class_proved2 n w k = true -> dict_scope d = true -> rc k false false d = Ok o' -> good sp pok k o').
    { intros k d o' Hk Hd Hr. unfold rc in Hr. apply (IH (RConstruct k false false d None) o'); auto. }
    assert (IHro : forall vv refs d o', dict_scope d = true -> ro vv refs false d = Ok o' ->
               exists t k, assoc t (robservables (reg_of w vv)) = Some k /\
                           (class_typed w k t = true -> typed t o') /\ (class_proved2 n w k = true -> good sp pok k o')).
    { intros vv refs d o' Hd Hr. unfold ro in Hr.
      destruct (run_parse_obs_inv _ _ _ _ _ _ _ _ _ _ Hr) as (f' & t & k & Ef & Hassoc & Hrun).
      exists t, k. split; auto. split.
      - intros Hty. eapply run_construct_typed; eauto.
      - intros Hk. destruct (run_construct_obj _ _ _ _ _ _ _ _ _ _ _ _ Hrun) as (inner & dfl & hc & ->).
        exact (IH (RParseObs (Some vv) refs false false d) _ eq_refl Hd Hr k inner dfl hc eq_refl Hk). }
    assert (Hslots' : forall s, In s (cslots c) ->
               exists s', find_slot sc (sname s) = Some s' /\ kind_refines (skind s) (skind s') = true /\
                          sound_kind vr w sp pok rc rp ro (skind s) (skind s')).
    { intros s Hs. destruct (Hslots s Hs) as [s' [Hf Hk]]. exists s'. split; auto. split; auto.
      rewrite forallb_forall in Hkinds. eapply kind_sound2; eauto. }
    assert (Hcon : forall fuel setting,
               Inv sp pok sc setting -> Imodel c setting ->
               constr_all (eval_constr vr pok fuel c setting)
                          ((match cfamily c with FExt => [CAtLeastOneDefault] | _ => [] end) ++ ccons c) = Ok tt ->
               exists n0, forallb (jconstr pok n0 sc (members c setting))
                                  ((match cfamily sc with FExt => [CAtLeastOneDefault] | _ => [] end) ++ ccons sc) = true).
    { intros fuel setting HInv HT Hall.
      assert (Each : forall k', In k' ((match cfamily sc with FExt => [CAtLeastOneDefault] | _ => [] end) ++ ccons sc) ->
                                exists n0, jconstr pok n0 sc (members c setting) k' = true).
      { intros k' Hk'.
        assert (Hlib : k' = CSkipBaseCheck \/ In k' (ext_constr c ++ ccons c)).
        { apply in_app_or in Hk'. destruct Hk' as [Hk' | Hk'].
          - right. apply in_or_app. left. unfold ext_constr. rewrite Hfam. exact Hk'.
          - destruct (Hcc k' Hk'); auto. right. apply in_or_app. auto. }
        destruct Hlib as [-> | Hlib]; [exists 1%nat; reflexivity|].
        eapply (constr_sound2 vr Hsock sp pok c sc Hfam Hslots setting HInv HT fuel k'); eauto.
        - rewrite forallb_forall in Hcons. auto.
        - eapply constr_all_In; eauto. }
      destruct (forall_exists_bound (fun n0 k' => jconstr pok n0 sc (members c setting) k' = true) _
                  (fun n1 n2 k' Hle => jconstr_mono pok n1 n2 sc (members c setting) k' Hle) Each) as [N HN].
      exists N. apply forallb_forall. exact HN. }
    destruct (construct_generic_facts vr ev w sp pok sok rc rp ro Hpad c sc Hnames Hslots' Hdconst Hreq kwargs Hsc pre
                Hpre (S f) kwargs vrefs o eq_refl H)
      as (setting & -> & F).
    assert (HT : Imodel c setting).
    { destruct (construct_generic_model vr ev w rc rp ro Hpad c Hnames _ _ pre Hpre_t Hpre_pj Hpre_mark
                                        pok sok (S f) false false kwargs vrefs _
                                        eq_refl eq_refl H) as (st' & hc' & E & HT & _).
      injection E as <- _. exact HT. }
    exists sc, setting. split; [auto|split; [auto|split; [exact F|split; [exact HT|]]]].
    intros st Fst HTst. apply (facts_good2 vr sp pok c sc Hnames Hreq Hfs st Fst).
    destruct Fst as (HInv & _ & _ & fuel & Hall). eapply Hcon; eauto.
  Qed.

  Lemma generic_ok2 f n c kwargs vrefs o :
    (forall r o, req_strict r = true -> req_scope r = true -> run vr ev w pok sok f r = Ok o -> result_ok2 n r o) ->
    find_class (wclasses w) (cid c) = Some c ->
    class_wf c = true ->
    forallb (fun s => kind_proved2 w (class_proved2 n w) (skind s)) (cslots c) = true ->
    forallb (constr_proved2 c) (ext_constr c ++ ccons c) = true ->
    dict_scope kwargs = true ->
    construct_generic vr ev w pok sok
      (fun k a i kw => run vr ev w pok sok f (RConstruct k a i kw None))
      (fun a i d => run vr ev w pok sok f (RParse a i None d))
      (fun vv refs a d => run vr ev w pok sok f (RParseObs (Some vv) refs a false d))
      (S f) c false false kwargs [] vrefs = Ok o ->
    exists sc setting,
      class_refine_failures c sc = [] /\
      o = PObject (cid c) setting (defaulted_names c setting) false /\
      facts vr sp pok c sc setting /\ Imodel c setting /\
      (forall st, facts vr sp pok c sc st -> Imodel c st ->
                  good sp pok (cid c) (PObject (cid c) st (defaulted_names c st) false)).
  Proof.
    intros IH Hfc Hwf Hkinds Hcons Hsc H.
    eapply (generic_ok2_pre f n c kwargs [] vrefs o IH Hfc Hwf Hkinds Hcons Hsc); [ | | | | exact H].
    - intros sc _ _ m x Hx. discriminate Hx.
    - intros m x Hx. discriminate Hx.
    - intros; reflexivity.
    - intros m x Hx. discriminate Hx.
  Qed.

  Theorem knot2 : forall fuel n r o,
      req_strict r = true -> req_scope r = true ->
      run vr ev w pok sok fuel r = Ok o -> result_ok2 n r o.
  Proof.
    induction fuel as [|f IH]; intros n r o Hst Hsc H; [discriminate|].
    destruct r as [kid allow interop kwargs0 vrefs0 | allow interop version d | vv refs allow interop d];
      simpl in Hst; apply andb_true_iff in Hst; destruct Hst as [Ha Hi];
      apply negb_true_iff in Ha; apply negb_true_iff in Hi; subst allow interop; simpl in Hsc.
    - (* a class constructor *)
      intros Hcp. destruct n as [|m]; [discriminate|]. simpl in Hcp.
      simpl in H. destruct (find_class (wclasses w) kid) as [c|] eqn:Hfc; try discriminate.
      destruct (find_class_In _ _ _ Hfc) as [Hin Hcid]. subst kid.
      repeat (apply andb_true_iff in Hcp; let H2 := fresh "P" in destruct Hcp as [Hcp H2]).
      rename Hcp into Pinit.
      match type of H with (if ?b then _ else _) = _ => destruct b; try discriminate end.
      inv_bind H.
      assert (Hgen : exists sc setting,
                 class_refine_failures c sc = [] /\
                 a = PObject (cid c) setting (defaulted_names c setting) false /\
                 facts vr sp pok c sc setting /\ Imodel c setting /\
                 (forall st, facts vr sp pok c sc st -> Imodel c st ->
                             good sp pok (cid c) (PObject (cid c) st (defaulted_names c st) false))).
      { unfold init_proved2 in Pinit.
        destruct (cinit c) as [|names| | |mv| |src] eqn:Ei; cbn [init_proved orb] in Pinit; try discriminate.
        - eapply generic_ok2; eauto.
        - eapply generic_ok2; [eauto|eauto|eauto|eauto|eauto| |exact Ha]. apply dict_scope_filter. auto.
        - eapply generic_ok2; [eauto|eauto|eauto|eauto|eauto| |exact Ha].
          match goal with |- dict_scope (if ?b then _ else _) = true => destruct b; auto end.
          apply dict_scope_aset; auto.
        - eapply generic_ok2; eauto.
        - (* v21 MarkingDefinition.__init__ *)
          destruct mv; try discriminate. apply andb_true_iff in Pinit. destruct Pinit as [Pmk Pdef].
          destruct (find_slot c (u "definition")) as [sd|] eqn:Esd; try discriminate.
          destruct (skind sd) as [| | | | | | | | | | | | | | | | | | | | |mvv| | |] eqn:Ekd; try discriminate.
          destruct mvv; try discriminate.
          destruct (find_slot_spec _ _ _ Esd) as [Hsd Hnd].
          destruct (alookup (u "definition_type") kwargs0) as [dt|] eqn:Edt; [|eapply generic_ok2; eauto].
          destruct (alookup (u "definition") kwargs0) as [dv|] eqn:Edv; [|eapply generic_ok2; eauto].
          destruct dt as [| | | |t| |]; try discriminate.
          unfold class_for in Ha. destruct (assoc t (rmarkings (reg_of w V21))) as [mcid|] eqn:Emc; try discriminate.
          inv_bind Ha. destruct dv as [| | | | | |dd0]; simpl in Haa; try discriminate. injection Haa as <-.
          match type of Hab with (if ?b then _ else _) = _ => destruct b; try discriminate end.
          inv_bind Hab. rename a0 into mo.
          assert (Hdd : dict_scope dd0 = true) by (exact (dict_scope_lookup _ _ _ Hsc Edv)).
          rewrite forallb_forall in Pmk. pose proof (Pmk (t, mcid) (assoc_In _ _ _ Emc)) as Pm. cbn [fst snd] in Pm.
          apply andb_true_iff in Pm. destruct Pm as [Pcp Pok].
          destruct (vr_flags vr Hvr) as (_ & _ & _ & _ & _ & Hpad & _ & _).
          pose proof (IH m (RConstruct mcid false false dd0 None) mo eq_refl Hdd Haba Pcp) as Gm.
          pose proof (run_construct_mark _ _ _ _ _ _ _ _ _ _ _ _ Hpad Haba Pok) as Mm.
          destruct Gm as (minner & mdfl & -> & nm & Hnm).
          destruct (class_wf_parts _ P1) as (Hnames & _).
          eapply (generic_ok2_pre f m c (aremove (u "definition") kwargs0) [(u "definition", PObject mcid minner mdfl false)]);
            [eauto|eauto|eauto|eauto|eauto| | | | | |exact Habb].
          + apply dict_scope_aremove. auto.
          + intros sc Hfs Hcrf k x Hx. cbn [alookup] in Hx.
            destruct (ustr_eqb k (u "definition")) eqn:Ek; try discriminate. apply ustr_eqb_eq in Ek. subst k.
            injection Hx as <-. split; [exact I|]. split; [|reflexivity].
            split; [exact I|].
            destruct (crf_parts _ _ Hcrf) as (_ & _ & Hslots & _ & _).
            destruct (Hslots sd Hsd) as [s' [Hf' Hkr]]. rewrite Hnd in Hf'. rewrite Ekd in Hkr.
            exists s'. split; auto.
            destruct (skind s') as [| | | | | | | | | | | | | | | | | | | | |mv'| | |] eqn:Ek'; simpl in Hkr; try discriminate.
            destruct mv'; try discriminate.
            exists (S nm). rewrite encode_PObject in *.
            change (existsb (fun kc => valid_obj sp pok nm (snd kc)
                                        (JObj (map (fun kv => (fst kv, encode false (snd kv))) (filter (kept false mdfl) minner))))
                            (rmarkings (s_reg sp V21)) = true).
            apply existsb_exists. exists (t, mcid). split; [|exact Hnm].
            unfold s_reg. rewrite <- (world_refines_reg_of _ _ V21 Href). apply assoc_In. exact Emc.
          + intros k x Hx. cbn [alookup] in Hx. destruct (ustr_eqb k (u "definition")); try discriminate.
            injection Hx as <-. exact I.
          + intros s Hs Hpj. cbn [alookup]. destruct (ustr_eqb (sname s) (u "definition")) eqn:Ek; auto.
            apply ustr_eqb_eq in Ek.
            assert (s = sd).
            { pose proof (find_self_nodup (cslots c) s (unodup_NoDup _ Hnames) Hs) as A.
              pose proof (find_self_nodup (cslots c) sd (unodup_NoDup _ Hnames) Hsd) as B.
              rewrite Ek, <- Hnd in A. rewrite A in B. injection B as ->. reflexivity. }
            subst s. rewrite Ekd in Hpj. discriminate.
          + intros k x Hx. cbn [alookup] in Hx. destruct (ustr_eqb k (u "definition")); try discriminate.
            injection Hx as <-. exact Mm.
        - eapply generic_ok2; eauto. }
      destruct Hgen as (sc & setting & Hcrf & -> & F & HT & Hgood).
      pose proof (Hgood setting F HT) as G0.
      destruct (cfamily c) eqn:Efam; destruct (cver c) eqn:Ever; try (injection Hb as <-; exact G0).
      destruct (amem _ kwargs0); [injection Hb as <-; exact G0|].
      destruct (existsb _ (cidcontrib c)); [|injection Hb as <-; exact G0].
      destruct (ctype c) as [t|] eqn:Et; try discriminate. injection Hb as <-.
      (* the deterministic id is written over the default *)
      destruct (class_wf_parts _ P1) as (Hnames & _).
      unfold class_wf in P1. rewrite Efam, Ever, Et in P1.
      apply andb_true_iff in P1. destruct P1 as [_ W]. apply andb_true_iff in W. destruct W as [Wid W].
      destruct (find_slot c (u "id")) as [sid|] eqn:Esid; try discriminate.
      destruct (skind sid) as [| | | |p vv| | | | | | | | | | | | | | | | | | | |] eqn:Ekid; try discriminate.
      destruct vv; try discriminate. destruct (sdef sid) eqn:Edid; try discriminate.
      apply ustr_eqb_eq in W. subst p.
      destruct (find_slot_spec _ _ _ Esid) as [Hsid Hnid].
      destruct (crf_parts _ _ Hcrf) as (_ & _ & Hslots & _ & _).
      destruct (Hslots sid Hsid) as [s' [Hf' Hkr]]. rewrite Hnid in Hf'. rewrite Ekid in Hkr.
      destruct (skind s') as [| | | |p' vv'| | | | | | | | | | | | | | | | | | | |] eqn:Ek'; simpl in Hkr; try discriminate.
      apply andb_true_iff in Hkr. destruct Hkr as [Hp' Hv']. apply ustr_eqb_eq in Hp'. subst p'.
      destruct vv'; try discriminate.
      assert (Hamem : amem (u "id") setting = true).
      { destruct F as (_ & _ & Hdef & _). rewrite <- Hnid. apply Hdef; auto. unfold default_present. rewrite Edid. auto. }
      assert (Fid : facts vr sp pok c sc (aset (u "id") (PJ (JStr (t ++ u "--" ++ e_uuid5 ev))) setting)).
      { apply facts_aset2; auto.
        - split; [exact I|]. exists s'. split; auto. exists 1%nat. rewrite Ek'. simpl.
          unfold valid_id.
          replace (t ++ 45%N :: 45%N :: e_uuid5 ev) with ((t ++ u "--") ++ e_uuid5 ev) by (rewrite <- app_assoc; reflexivity).
          rewrite ustr_prefix_app. rewrite udrop_app. rewrite andb_true_l.
          unfold env_ok in Hev. apply andb_true_iff in Hev. tauto.
        - intros k Hk.
          rewrite forallb_forall in Wid. specialize (Wid k Hk). apply negb_true_iff in Wid.
          apply mem_ustr_false in Wid. exact Wid. }
      assert (HTid : Imodel c (aset (u "id") (PJ (JStr (t ++ u "--" ++ e_uuid5 ev))) setting)).
      { apply Imodel_aset_pj; auto. intros s0 Hs0 Hn0.
        assert (s0 = sid).
        { pose proof (find_self_nodup (cslots c) s0 (unodup_NoDup _ Hnames) Hs0) as A.
          pose proof (find_self_nodup (cslots c) sid (unodup_NoDup _ Hnames) Hsid) as B.
          rewrite Hn0, <- Hnid in A. rewrite A in B. inversion B; auto. }
        subst s0. rewrite Ekid. reflexivity. }
      pose proof (Hgood _ Fid HTid) as G1.
      rewrite defaulted_names_aset in G1; auto.
      apply mem_ustr_false. unfold dconst_names. intros Hin'. apply in_map_iff in Hin'. destruct Hin' as [s2 [Hn2 Hf2]].
      apply filter_In in Hf2. destruct Hf2 as [Hs2 Hd2].
      assert (s2 = sid).
      { pose proof (find_self_nodup (cslots c) s2 (unodup_NoDup _ Hnames) Hs2) as A.
        pose proof (find_self_nodup (cslots c) sid (unodup_NoDup _ Hnames) Hsid) as B.
        rewrite Hn2, <- Hnid in A. rewrite A in B. inversion B; auto. }
      subst s2. rewrite Edid in Hd2. discriminate.
    - (* parse *)
      intros cid inner dfl hc -> Hcp. simpl in H.
      destruct (alookup (u "type") d) as [ty|]; try discriminate.
      inv_bind H.
      crush Hb.
      all: try (apply d2s_ext_scan_raw in Hb; discriminate).
      all: inv_bind Hb; crush Hbb; injection Hbb as ->.
      all: pose proof (run_construct_cid _ _ _ _ _ _ _ _ _ _ _ _ _ _ _ Hba); subst.
      all: exact (IH n (RConstruct _ false false d None) _ eq_refl Hsc Hba Hcp).
    - (* parse_observable *)
      intros cid inner dfl hc -> Hcp. simpl in H.
      destruct (alookup (u "type") d) as [ty|]; try discriminate.
      inv_bind H.
      crush Hb.
      all: inv_bind Hb; crush Hbb; injection Hbb as ->.
      all: pose proof (run_construct_cid _ _ _ _ _ _ _ _ _ _ _ _ _ _ _ Hba); subst.
      all: exact (IH n (RConstruct _ false false d (Some refs)) _ eq_refl Hsc Hba Hcp).
  Qed.
End Knot2.

Lemma strict_sound_partial2_gen :
  forall (vr : variant) (ev : env) (w sp : world) pok sok fuel n req oc inner dfl hc,
    variant_sound vr = true -> env_ok ev = true -> world_refines w sp = true ->
    req_strict req = true -> req_scope req = true ->
    run vr ev w pok sok fuel req = Ok (PObject oc inner dfl hc) ->
    class_proved2 n w oc = true ->
    hc = false /\ exists m, valid_obj sp pok m oc (encode false (PObject oc inner dfl hc)) = true.
Proof.
  intros vr ev w sp pok sok fuel n req oc inner dfl hc Hvr Hev Href Hst Hsc Hrun Hcp.
  pose proof (knot2 vr ev w sp pok sok Hvr Hev Href fuel n req _ Hst Hsc Hrun) as K.
  assert (G : good sp pok oc (PObject oc inner dfl hc)).
  { destruct req as [kid a i kw vr0 | a i v d | vv refs a i d]; simpl in K.
    - pose proof (run_construct_cid _ _ _ _ _ _ _ _ _ _ _ _ _ _ _ Hrun). subst kid. auto.
    - eapply K; eauto.
    - eapply K; eauto. }
  destruct G as (inner' & dfl' & E & m & Hm). inversion E; subst. split; auto. eauto.
Qed.

(* Proofs/MarkingsC07Ops.v -- what add / remove / clear / set do to the set of
   (selector, marking) pairs (granular level) and to the set of object
   markings (object level), for every variant of the model; the algebraic laws
   of C07 that follow. *)
From Coq Require Import String.
From Coq Require Import NArith ZArith List Bool Arith Lia.
From V Require Import Base.UString Model.Markings Spec.MarkingSpec Proofs.MarkingsC08 Proofs.MarkingsC07Sets.
Import ListNotations.

(* ---------------------------------------------------------------- *)
(* new_version                                                       *)

Definition opt_ulist (x : option (list ustring)) : list ustring := match x with Some l => l | None => [] end.

Definition bumped (props : members) : members :=
  filter (fun kv => negb (is_null (snd kv))) (set_prop (u "modified") new_time props).

Lemma new_version_ok : forall c o omr' gms' o',
  new_version c o omr' gms' = Ok o' ->
  o_kind o' = o_kind o /\ o_v21 o' = o_v21 o /\ o_vtype o' = o_vtype o /\
  o_props o' = bumped (o_props o) /\
  omr_list o' = opt_ulist omr' /\ gms_list o' = olist gms' /\
  ctor_check c o' = None /\ check_versionable o = None /\ is_revoked o = false.
Proof.
  intros c o omr' gms' o' H. unfold new_version in H.
  destruct (check_versionable o) eqn:Hv; [discriminate|].
  destruct (is_revoked o) eqn:Hr; [discriminate|].
  match type of H with context [ctor_check c ?x] => set (o2 := x) in H end.
  destruct (ctor_check c o2) eqn:Hc; [discriminate|]. inversion H. subst o'. clear H.
  repeat split; auto; unfold o2, omr_list, gms_list, opt_ulist, olist; simpl.
  - destruct (o_kind o); destruct omr' as [[|x l]|]; reflexivity.
  - destruct (o_kind o); destruct gms' as [[|x l]|]; reflexivity.
Qed.

(* ---------------------------------------------------------------- *)
(* add                                                               *)

Lemma tag_marking_sels : forall ss m, g_sels (tag_marking ss m) = ss.
Proof. intros ss m. unfold tag_marking. destruct (is_marking m); reflexivity. Qed.

Lemma tag_marking_ids : forall ss m x, nonempty x = true ->
  ((x = g_ref (tag_marking ss m) \/ x = g_lang (tag_marking ss m)) <-> x = m).
Proof.
  intros ss m x Hx. unfold tag_marking. destruct (is_marking m); simpl; split; intro H; auto;
    destruct H as [H|H]; auto; subst x; discriminate.
Qed.

Lemma pairs_fresh : forall ss ss' ms, (forall s, In s ss <-> In s ss') ->
  same_set (pairs (map (tag_marking ss) ms)) (product ss' (real ms)).
Proof.
  intros ss ss' ms Hs [s m]. rewrite in_pairs, in_product, in_real. split.
  - intros [g [H1 [H2 [H3 H4]]]]. apply in_map_iff in H1. destruct H1 as [m0 [E H1]]. subst g.
    rewrite tag_marking_sels in H2. apply tag_marking_ids in H4; auto. subst m0. rewrite <- Hs. auto.
  - intros [H1 [H2 H3]]. exists (tag_marking ss m). split; [apply in_map; exact H2|].
    rewrite tag_marking_sels. split; [apply Hs; exact H1|]. split; auto. apply tag_marking_ids; auto.
Qed.

Theorem g_add_pairs : forall c o ms sels o',
  g_add_markings c o ms sels = Ok o' ->
  same_set (pairs (gms_list o')) (pairs (gms_list o) ++ product sels (real ms)).
Proof.
  intros c o ms sels o' H. unfold g_add_markings in H.
  destruct (validate c (view o) sels); [|discriminate]. simpl in H.
  apply new_version_ok in H. destruct H as [_ [_ [_ [_ [_ [Hg _]]]]]]. rewrite Hg.
  eapply same_set_trans; [apply pairs_compress|].
  eapply same_set_trans; [apply pairs_expand|].
  rewrite pairs_app. intro p. rewrite !in_app_iff.
  rewrite (pairs_fresh (py_sorted sels) sels ms (fun s => in_py_sorted s sels) p). tauto.
Qed.

Theorem g_add_frame : forall c o ms sels o',
  g_add_markings c o ms sels = Ok o' ->
  omr_list o' = omr_list o /\ o_props o' = bumped (o_props o) /\ o_kind o' = o_kind o /\
  well_kinded (gms_list o').
Proof.
  intros c o ms sels o' H. unfold g_add_markings in H.
  destruct (validate c (view o) sels); [|discriminate]. simpl in H.
  apply new_version_ok in H. destruct H as [Hk [_ [_ [Hp [Ho [Hg _]]]]]].
  split; [exact Ho|]. split; [exact Hp|]. split; [exact Hk|]. rewrite Hg. apply compress_well_kinded.
Qed.

(* ---------------------------------------------------------------- *)
(* remove                                                            *)

Definition removal (sels ms : list ustring) : list gm := build_granular_marking (map (tag_marking sels) ms).

Lemma in_removal : forall g sels ms,
  In g (removal sels ms) <->
  exists s m, In s sels /\ In m ms /\ nonempty m = true /\
              g = (if is_marking m then mkgm [s] m [] else mkgm [s] [] m).
Proof.
  intros g sels ms. unfold removal, build_granular_marking. rewrite in_expand. split.
  - intros [g0 [H1 H2]]. apply in_map_iff in H1. destruct H1 as [m [E H1]]. subst g0.
    apply in_expand_one in H2. unfold tag_marking in H2.
    destruct (is_marking m) eqn:Em; simpl in H2; destruct H2 as [[Hn [s [Hs E]]]|[Hn [s [Hs E]]]]; try discriminate;
      exists s, m; rewrite Em; auto.
  - intros [s [m [Hs [Hm [Hn E]]]]]. exists (tag_marking sels m). split; [apply in_map; exact Hm|].
    apply in_expand_one. unfold tag_marking. destruct (is_marking m); simpl; subst g.
    + left. split; auto. exists s. auto.
    + right. split; auto. exists s. auto.
Qed.

Lemma kept_pairs : forall gs sels ms, well_kinded gs ->
  same_set (pairs (filter (fun g => negb (mem_gm g (removal sels ms))) (expand_markings gs)))
           (minus (pairs gs) (product sels ms)).
Proof.
  intros gs sels ms Hwf [s m]. rewrite in_minus, in_product. rewrite in_pairs. split.
  - intros [g' [H1 [H2 [H3 H4]]]]. apply filter_In in H1. destruct H1 as [Hex Hnot].
    apply negb_true_iff in Hnot.
    assert (Hnr : ~ In g' (removal sels ms)).
    { intro Hin. apply mem_gm_in in Hin. congruence. }
    split.
    + apply (pairs_expand gs (s, m)). apply in_pairs. exists g'. auto.
    + intros [Hs Hm]. apply Hnr. apply in_removal.
      apply in_expand in Hex. destruct Hex as [g0 [Hg0 Hex]]. apply in_expand_one in Hex.
      destruct (Hwf g0 Hg0) as [Wr Wl].
      destruct Hex as [[Hn [s' [Hs' E]]]|[Hn [s' [Hs' E]]]]; subst g'; simpl in *.
      * destruct H2 as [H2|[]]. subst s'. destruct H4 as [H4|H4]; [|subst m; discriminate]. subst m.
        exists s, (g_ref g0). rewrite (Wr Hn). auto.
      * destruct H2 as [H2|[]]. subst s'. destruct H4 as [H4|H4]; [subst m; discriminate|]. subst m.
        exists s, (g_lang g0). rewrite (Wl Hn). auto.
  - intros [Hin Hnot]. apply in_pairs in Hin. destruct Hin as [g0 [Hg0 [Hs [Hn Hid]]]].
    assert (Hgen : forall g', (g' = mkgm [s] m [] \/ g' = mkgm [s] [] m) -> In g' (expand_markings gs) ->
                     exists g', In g' (filter (fun g => negb (mem_gm g (removal sels ms))) (expand_markings gs)) /\
                                In s (g_sels g') /\ nonempty m = true /\ (m = g_ref g' \/ m = g_lang g')).
    { intros g' Hform Hex. exists g'. split.
      - apply filter_In. split; auto. apply negb_true_iff. destruct (mem_gm g' (removal sels ms)) eqn:E; auto.
        exfalso. apply mem_gm_in in E. apply in_removal in E. destruct E as [s1 [m1 [Hs1 [Hm1 [Hn1 E]]]]].
        apply Hnot. destruct (is_marking m1); destruct Hform as [F|F]; subst g'; inversion E; subst; auto; discriminate.
      - destruct Hform as [F|F]; subst g'; simpl; auto. }
    destruct Hid as [Hid|Hid]; subst m.
    + apply (Hgen (mkgm [s] (g_ref g0) [])); auto.
      apply in_expand. exists g0. split; auto. apply in_expand_one. left. split; auto. exists s. auto.
    + apply (Hgen (mkgm [s] [] (g_lang g0))); auto.
      apply in_expand. exists g0. split; auto. apply in_expand_one. right. split; auto. exists s. auto.
Qed.

Lemma olist_compress_match : forall k,
  olist (match compress_markings k with Some (x :: l) => Some (x :: l) | _ => None end) = olist (compress_markings k).
Proof. intro k. destruct (compress_markings k) as [[|x l]|]; reflexivity. Qed.

Theorem g_remove_pairs : forall c o ms sels o',
  well_kinded (gms_list o) ->
  g_remove_markings c o ms sels = Ok o' ->
  same_set (pairs (gms_list o')) (minus (pairs (gms_list o)) (product sels ms)).
Proof.
  intros c o ms sels o' Hwf H. unfold g_remove_markings in H.
  destruct (validate c (view o) sels); [|discriminate]. simpl in H.
  destruct (gms_list o) as [|g0 gs0] eqn:Eg.
  - inversion H. subst o'. rewrite Eg. intro p. simpl. tauto.
  - destruct (negb (existsb _ _)) in H; [discriminate|].
    assert (Hnv : exists gms', new_version c o (o_omr o) gms' = Ok o' /\
              olist gms' = olist (compress_markings
                 (filter (fun g => negb (mem_gm g (removal sels ms))) (expand_markings (g0 :: gs0))))).
    { match type of H with
      | match compress_markings ?k with _ => _ end = _ =>
          change k with (filter (fun g => negb (mem_gm g (removal sels ms))) (expand_markings (g0 :: gs0))) in H;
          destruct (compress_markings (filter (fun g => negb (mem_gm g (removal sels ms))) (expand_markings (g0 :: gs0))))
            as [[|x l]|] eqn:Ec
      end.
      - exists None. split; auto.
      - exists (Some (x :: l)). split; auto.
      - exists None. split; auto. }
    destruct Hnv as [gms' [Hnv Hol]]. apply new_version_ok in Hnv.
    destruct Hnv as [_ [_ [_ [_ [_ [Hg _]]]]]]. rewrite Hg, Hol.
    eapply same_set_trans; [apply pairs_compress|]. apply kept_pairs. exact Hwf.
Qed.

Theorem g_remove_frame : forall c o ms sels o',
  g_remove_markings c o ms sels = Ok o' ->
  o' = o \/ (omr_list o' = omr_list o /\ o_props o' = bumped (o_props o) /\ o_kind o' = o_kind o /\
             well_kinded (gms_list o')).
Proof.
  intros c o ms sels o' H. unfold g_remove_markings in H.
  destruct (validate c (view o) sels); [|discriminate]. simpl in H.
  destruct (gms_list o) as [|g0 gs0] eqn:Eg.
  - inversion H. auto.
  - right. destruct (negb (existsb _ _)) in H; [discriminate|].
    match type of H with
    | match compress_markings ?k with _ => _ end = _ => destruct (compress_markings k) as [[|x l]|] eqn:Ec
    end; apply new_version_ok in H; destruct H as [Hk [_ [_ [Hp [Ho [Hg _]]]]]];
      (split; [exact Ho|]); (split; [exact Hp|]); (split; [exact Hk|]); rewrite Hg.
    + intros g [].
    + rewrite <- Ec. apply compress_well_kinded.
    + intros g [].
Qed.

(* ---------------------------------------------------------------- *)
(* clear                                                             *)

Definition blank_of (sels : list ustring) (r l : bool) (g : gm) : gm :=
  if existsb (fun s => mem_ustr s (g_sels g)) sels
  then mkgm (g_sels g) (if nonempty (g_ref g) && r then [] else g_ref g) (if nonempty (g_lang g) && l then [] else g_lang g)
  else g.

Lemma ustr_eqb_sym : forall a b, ustr_eqb a b = ustr_eqb b a.
Proof.
  intros a b. destruct (ustr_eqb a b) eqn:E.
  - apply ustr_eqb_eq in E. subst. symmetry. apply ustr_eqb_refl.
  - symmetry. apply ustr_eqb_neq. apply ustr_eqb_neq in E. congruence.
Qed.

Lemma touches_single : forall s sels, existsb (fun x => mem_ustr x [s]) sels = mem_ustr s sels.
Proof.
  intros s sels. induction sels as [|y sels IH]; [reflexivity|].
  change (existsb (fun x => mem_ustr x [s]) (y :: sels)) with (mem_ustr y [s] || existsb (fun x => mem_ustr x [s]) sels).
  rewrite IH. change (mem_ustr s (y :: sels)) with (ustr_eqb s y || mem_ustr s sels). f_equal.
  change (mem_ustr y [s]) with (ustr_eqb y s || false). rewrite orb_false_r. apply ustr_eqb_sym.
Qed.

Lemma blank_ref : forall sels r l s m, nonempty m = true ->
  blank_of sels r l (mkgm [s] m []) = if mem_ustr s sels && r then mkgm [s] [] [] else mkgm [s] m [].
Proof.
  intros sels r l s m H. unfold blank_of. cbn [g_sels g_ref g_lang]. rewrite touches_single. rewrite H.
  destruct (mem_ustr s sels); destruct r; reflexivity.
Qed.

Lemma blank_lang : forall sels r l s m, nonempty m = true ->
  blank_of sels r l (mkgm [s] [] m) = if mem_ustr s sels && l then mkgm [s] [] [] else mkgm [s] [] m.
Proof.
  intros sels r l s m H. unfold blank_of. cbn [g_sels g_ref g_lang]. rewrite touches_single. rewrite H.
  destruct (mem_ustr s sels); destruct l; reflexivity.
Qed.

(* what is left after blanking, entry by entry of the original list *)
Lemma blank_pairs_raw : forall gs sels r l s m,
  In (s, m) (pairs (map (blank_of sels r l) (expand_markings gs))) <->
  exists g0, In g0 gs /\ In s (g_sels g0) /\ nonempty m = true /\
    ((m = g_ref g0 /\ (mem_ustr s sels && r) = false) \/ (m = g_lang g0 /\ (mem_ustr s sels && l) = false)).
Proof.
  intros gs sels r l s m. rewrite in_pairs. split.
  - intros [g [H1 [H2 [H3 H4]]]]. apply in_map_iff in H1. destruct H1 as [g' [E H1]]. subst g.
    apply in_expand in H1. destruct H1 as [g0 [Hg0 H1]]. exists g0. split; auto.
    apply in_expand_one in H1. destruct H1 as [[Hn [s' [Hs' E]]]|[Hn [s' [Hs' E]]]]; subst g'.
    + rewrite (blank_ref _ _ _ _ _ Hn) in H2, H4. destruct (mem_ustr s' sels && r) eqn:Em; simpl in H2, H4.
      * destruct H4 as [H4|H4]; subst m; discriminate.
      * destruct H2 as [H2|[]]. subst s'. destruct H4 as [H4|H4]; subst m; try discriminate. auto 6.
    + rewrite (blank_lang _ _ _ _ _ Hn) in H2, H4. destruct (mem_ustr s' sels && l) eqn:Em; simpl in H2, H4.
      * destruct H4 as [H4|H4]; subst m; discriminate.
      * destruct H2 as [H2|[]]. subst s'. destruct H4 as [H4|H4]; subst m; try discriminate. auto 6.
  - intros [g0 [Hg0 [Hs [Hn [[E Hc]|[E Hc]]]]]]; subst m.
    + exists (blank_of sels r l (mkgm [s] (g_ref g0) [])). split.
      * apply in_map. apply in_expand. exists g0. split; auto. apply in_expand_one. left. split; auto. exists s. auto.
      * rewrite (blank_ref _ _ _ _ _ Hn). rewrite Hc. simpl. auto.
    + exists (blank_of sels r l (mkgm [s] [] (g_lang g0))). split.
      * apply in_map. apply in_expand. exists g0. split; auto. apply in_expand_one. right. split; auto. exists s. auto.
      * rewrite (blank_lang _ _ _ _ _ Hn). rewrite Hc. simpl. auto.
Qed.

Lemma blank_pairs : forall gs sels r l, well_kinded gs ->
  same_set (pairs (map (blank_of sels r l) (expand_markings gs)))
           (filter (fun p => negb (cleared sels r l p)) (pairs gs)).
Proof.
  intros gs sels r l Hwf [s m]. rewrite blank_pairs_raw. rewrite filter_In, in_pairs. unfold cleared. simpl. split.
  - intros [g0 [Hg0 [Hs [Hn Hc]]]]. split; [exists g0; tauto|]. destruct (Hwf g0 Hg0) as [Wr Wl].
    destruct Hc as [[E Hc]|[E Hc]]; subst m.
    + rewrite (Wr Hn). rewrite Hc. reflexivity.
    + rewrite (Wl Hn). rewrite Hc. reflexivity.
  - intros [[g0 [Hg0 [Hs [Hn Hid]]]] Hc]. exists g0. split; auto. split; auto. split; auto.
    apply negb_true_iff in Hc. destruct (Hwf g0 Hg0) as [Wr Wl]. destruct Hid as [E|E]; subst m.
    + left. split; auto. rewrite (Wr Hn) in Hc. exact Hc.
    + right. split; auto. rewrite (Wl Hn) in Hc. exact Hc.
Qed.

Lemma blank_pairs_all : forall gs sels,
  same_set (pairs (map (blank_of sels true true) (expand_markings gs)))
           (filter (fun p => negb (mem_ustr (fst p) sels)) (pairs gs)).
Proof.
  intros gs sels [s m]. rewrite blank_pairs_raw. rewrite filter_In, in_pairs. simpl. rewrite !andb_true_r. split.
  - intros [g0 [Hg0 [Hs [Hn Hc]]]]. split; [exists g0; tauto|]. destruct Hc as [[_ Hc]|[_ Hc]]; rewrite Hc; reflexivity.
  - intros [[g0 [Hg0 [Hs [Hn Hid]]]] Hc]. exists g0. apply negb_true_iff in Hc. tauto.
Qed.

Lemma g_clear_inv : forall c o sels r l o',
  g_clear_markings c o sels r l = Ok o' ->
  (gms_list o = [] /\ o' = o) \/
  exists gms', new_version c o (o_omr o) gms' = Ok o' /\
               olist gms' = olist (compress_markings (map (blank_of sels r l) (expand_markings (gms_list o)))).
Proof.
  intros c o sels r l o' H. unfold g_clear_markings in H.
  destruct (validate c (view o) sels); [|discriminate]. simpl in H.
  destruct (gms_list o) as [|g0 gs0] eqn:Eg.
  - inversion H. auto.
  - right. destruct (negb (existsb _ _)) in H; [discriminate|].
    match type of H with
    | match compress_markings ?k with _ => _ end = _ =>
        change k with (map (blank_of sels r l) (expand_markings (g0 :: gs0))) in H;
        destruct (compress_markings (map (blank_of sels r l) (expand_markings (g0 :: gs0)))) as [[|x l0]|] eqn:Ec
    end.
    + exists None. auto.
    + exists (Some (x :: l0)). auto.
    + exists None. auto.
Qed.

Theorem g_clear_pairs : forall c o sels r l o',
  well_kinded (gms_list o) ->
  g_clear_markings c o sels r l = Ok o' ->
  same_set (pairs (gms_list o')) (filter (fun p => negb (cleared sels r l p)) (pairs (gms_list o))).
Proof.
  intros c o sels r l o' Hwf H. apply g_clear_inv in H. destruct H as [[Eg E]|[gms' [Hnv Hol]]].
  - subst o'. rewrite Eg. intro p. simpl. tauto.
  - apply new_version_ok in Hnv. destruct Hnv as [_ [_ [_ [_ [_ [Hg _]]]]]]. rewrite Hg, Hol.
    eapply same_set_trans; [apply pairs_compress|]. apply blank_pairs. exact Hwf.
Qed.

(* with the default flags nothing is left on the cleared selectors and everything elsewhere stays
   (no hypothesis on the kinds) *)
Theorem g_clear_pairs_all : forall c o sels o',
  g_clear_markings c o sels true true = Ok o' ->
  same_set (pairs (gms_list o')) (filter (fun p => negb (mem_ustr (fst p) sels)) (pairs (gms_list o))).
Proof.
  intros c o sels o' H. apply g_clear_inv in H. destruct H as [[Eg E]|[gms' [Hnv Hol]]].
  - subst o'. rewrite Eg. intro p. simpl. tauto.
  - apply new_version_ok in Hnv. destruct Hnv as [_ [_ [_ [_ [_ [Hg _]]]]]]. rewrite Hg, Hol.
    eapply same_set_trans; [apply pairs_compress|]. apply blank_pairs_all.
Qed.

Theorem g_clear_frame : forall c o sels r l o',
  g_clear_markings c o sels r l = Ok o' ->
  o' = o \/ (omr_list o' = omr_list o /\ o_props o' = bumped (o_props o) /\ o_kind o' = o_kind o /\
             well_kinded (gms_list o')).
Proof.
  intros c o sels r l o' H. apply g_clear_inv in H. destruct H as [[Eg E]|[gms' [Hnv Hol]]]; auto.
  right. apply new_version_ok in Hnv. destruct Hnv as [Hk [_ [_ [Hp [Ho [Hg _]]]]]].
  split; [exact Ho|]. split; [exact Hp|]. split; [exact Hk|].
  rewrite Hg, Hol. apply compress_well_kinded.
Qed.

(* ---------------------------------------------------------------- *)
(* set = clear ; add                                                 *)

Theorem g_set_is_clear_add : forall c o ms sels r l,
  g_set_markings c o ms sels r l =
  match g_clear_markings c o sels r l with Err e => Err e | Ok o1 => g_add_markings c o1 ms sels end.
Proof. reflexivity. Qed.

Theorem g_set_pairs : forall c o ms sels r l o',
  well_kinded (gms_list o) ->
  g_set_markings c o ms sels r l = Ok o' ->
  same_set (pairs (gms_list o'))
           (filter (fun p => negb (cleared sels r l p)) (pairs (gms_list o)) ++ product sels (real ms)).
Proof.
  intros c o ms sels r l o' Hwf H. unfold g_set_markings in H.
  destruct (g_clear_markings c o sels r l) as [o1|e] eqn:Hc; [|discriminate].
  apply g_add_pairs in H. eapply same_set_trans; [exact H|].
  apply same_set_app; [|apply same_set_refl]. apply (g_clear_pairs c o sels r l o1 Hwf Hc).
Qed.

(* ---------------------------------------------------------------- *)
(* the laws                                                          *)

Theorem add_idempotent : forall c o ms sels o1 o2,
  g_add_markings c o ms sels = Ok o1 -> g_add_markings c o1 ms sels = Ok o2 ->
  same_set (pairs (gms_list o2)) (pairs (gms_list o1)).
Proof.
  intros c o ms sels o1 o2 H1 H2. apply g_add_pairs in H1. apply g_add_pairs in H2.
  intro p. specialize (H1 p). specialize (H2 p). rewrite in_app_iff in *. tauto.
Qed.

Theorem add_commutes : forall c o ma sa mb sb oa oab ob oba,
  g_add_markings c o ma sa = Ok oa -> g_add_markings c oa mb sb = Ok oab ->
  g_add_markings c o mb sb = Ok ob -> g_add_markings c ob ma sa = Ok oba ->
  same_set (pairs (gms_list oab)) (pairs (gms_list oba)).
Proof.
  intros c o ma sa mb sb oa oab ob oba H1 H2 H3 H4.
  apply g_add_pairs in H1. apply g_add_pairs in H2. apply g_add_pairs in H3. apply g_add_pairs in H4.
  intro p. specialize (H1 p). specialize (H2 p). specialize (H3 p). specialize (H4 p).
  rewrite in_app_iff in *. tauto.
Qed.

(* removing what was just added restores the previous set -- when the added pairs were new.
   (If some (s, m) was already present, remove takes it away too: sets have no multiplicity.) *)
Theorem remove_after_add : forall c o ms sels o1 o2,
  (forall p, In p (product sels ms) -> ~ In p (pairs (gms_list o))) ->
  g_add_markings c o ms sels = Ok o1 -> g_remove_markings c o1 ms sels = Ok o2 ->
  same_set (pairs (gms_list o2)) (pairs (gms_list o)).
Proof.
  intros c o ms sels o1 o2 Hnew H1 H2.
  pose proof (g_add_frame _ _ _ _ _ H1) as [_ [_ [_ Hwf]]].
  apply g_add_pairs in H1. apply (g_remove_pairs _ _ _ _ _ Hwf) in H2.
  intros [s m]. specialize (H1 (s, m)). specialize (H2 (s, m)).
  rewrite in_minus in H2. rewrite in_app_iff in H1. rewrite in_product, in_real in H1.
  specialize (Hnew (s, m)). rewrite in_product in *. tauto.
Qed.

(* in general: add then remove leaves the previous set minus the named pairs *)
Theorem remove_after_add_general : forall c o ms sels o1 o2,
  g_add_markings c o ms sels = Ok o1 -> g_remove_markings c o1 ms sels = Ok o2 ->
  same_set (pairs (gms_list o2)) (minus (pairs (gms_list o)) (product sels ms)).
Proof.
  intros c o ms sels o1 o2 H1 H2.
  pose proof (g_add_frame _ _ _ _ _ H1) as [_ [_ [_ Hwf]]].
  apply g_add_pairs in H1. apply (g_remove_pairs _ _ _ _ _ Hwf) in H2.
  intros [s m]. specialize (H1 (s, m)). specialize (H2 (s, m)).
  rewrite in_minus in *. rewrite in_app_iff in H1. rewrite in_product, in_real in *. tauto.
Qed.

(* ---------------------------------------------------------------- *)
(* object level                                                      *)

Theorem o_add_set : forall c o ms o',
  o_add_markings c o ms = Ok o' ->
  (forall x, In x (omr_list o') <-> In x (omr_list o) \/ In x ms) /\
  gms_list o' = gms_list o /\ o_props o' = bumped (o_props o) /\ o_kind o' = o_kind o.
Proof.
  intros c o ms o' H. unfold o_add_markings in H. apply new_version_ok in H.
  destruct H as [Hk [_ [_ [Hp [Ho [Hg _]]]]]].
  split; [|split; [|split; [exact Hp | exact Hk]]].
  - intro x. rewrite Ho. simpl. rewrite in_dedupe, in_app_iff. tauto.
  - rewrite Hg. unfold gms_list, olist. reflexivity.
Qed.

Theorem o_remove_set : forall c o ms o',
  o_remove_markings c o ms = Ok o' ->
  (forall x, In x (omr_list o') <-> In x (omr_list o) /\ ~ In x ms) /\
  (forall x, In x ms -> omr_list o <> [] -> In x (omr_list o)) /\
  gms_list o' = gms_list o.
Proof.
  intros c o ms o' H. unfold o_remove_markings in H.
  destruct (omr_list o) as [|x0 cur] eqn:Eo.
  - inversion H. subst o'. rewrite Eo. split; [|split].
    + intro x. simpl. tauto.
    + intros x _ Hne. congruence.
    + reflexivity.
  - destruct (existsb (fun x => negb (mem_ustr x (x0 :: cur))) ms) eqn:Ex; [discriminate|].
    assert (Hsub : forall x, In x ms -> In x (x0 :: cur)).
    { intros x Hx. destruct (mem_ustr x (x0 :: cur)) eqn:Em; [apply mem_ustr_in; exact Em|].
      exfalso. assert (existsb (fun x => negb (mem_ustr x (x0 :: cur))) ms = true).
      { apply existsb_exists. exists x. rewrite Em. auto. } congruence. }
    assert (Hf : forall x, In x (filter (fun x => negb (mem_ustr x ms)) (x0 :: cur)) <-> In x (x0 :: cur) /\ ~ In x ms).
    { intro x. rewrite filter_In, negb_true_iff, mem_ustr_false. tauto. }
    destruct (filter (fun x => negb (mem_ustr x ms)) (x0 :: cur)) as [|y l] eqn:Ef;
      apply new_version_ok in H; destruct H as [_ [_ [_ [_ [Ho [Hg _]]]]]]; rewrite Ho, Hg.
    + split; [exact Hf|]. split; [|reflexivity]. intros x Hx _; auto.
    + split; [exact Hf|]. split; [|reflexivity]. intros x Hx _; auto.
Qed.

Theorem o_clear_set : forall c o o',
  o_clear_markings c o = Ok o' -> omr_list o' = [] /\ gms_list o' = gms_list o /\ o_props o' = bumped (o_props o).
Proof.
  intros c o o' H. unfold o_clear_markings in H. apply new_version_ok in H.
  destruct H as [_ [_ [_ [Hp [Ho [Hg _]]]]]]. split; [exact Ho|]. split; [|exact Hp]. rewrite Hg. reflexivity.
Qed.

Theorem o_set_is_clear_add : forall c o ms,
  o_set_markings c o ms = match o_clear_markings c o with Err e => Err e | Ok o1 => o_add_markings c o1 ms end.
Proof. reflexivity. Qed.

Theorem o_set_set : forall c o ms o',
  o_set_markings c o ms = Ok o' -> (forall x, In x (omr_list o') <-> In x ms) /\ gms_list o' = gms_list o.
Proof.
  intros c o ms o' H. unfold o_set_markings in H. destruct (o_clear_markings c o) as [o1|e] eqn:Hc; [|discriminate].
  apply o_clear_set in Hc. destruct Hc as [H1 [H2 _]]. apply o_add_set in H. destruct H as [H3 [H4 _]].
  split; [|congruence]. intro x. rewrite H3, H1. simpl. tauto.
Qed.

Theorem o_add_idempotent : forall c o ms o1 o2,
  o_add_markings c o ms = Ok o1 -> o_add_markings c o1 ms = Ok o2 ->
  forall x, In x (omr_list o2) <-> In x (omr_list o1).
Proof.
  intros c o ms o1 o2 H1 H2 x. apply o_add_set in H1. apply o_add_set in H2.
  destruct H1 as [H1 _]. destruct H2 as [H2 _]. rewrite H2, H1. tauto.
Qed.

Theorem o_remove_after_add : forall c o ms o1 o2,
  (forall x, In x ms -> ~ In x (omr_list o)) ->
  o_add_markings c o ms = Ok o1 -> o_remove_markings c o1 ms = Ok o2 ->
  forall x, In x (omr_list o2) <-> In x (omr_list o).
Proof.
  intros c o ms o1 o2 Hnew H1 H2 x. apply o_add_set in H1. apply o_remove_set in H2.
  destruct H1 as [H1 _]. destruct H2 as [H2 _]. rewrite H2, H1. specialize (Hnew x). tauto.
Qed.

(* granular operations never touch the object markings, and conversely *)
Theorem g_set_frame : forall c o ms sels r l o',
  g_set_markings c o ms sels r l = Ok o' -> omr_list o' = omr_list o.
Proof.
  intros c o ms sels r l o' H. unfold g_set_markings in H.
  destruct (g_clear_markings c o sels r l) as [o1|e] eqn:Hc; [|discriminate].
  apply g_add_frame in H. destruct H as [H _]. apply g_clear_frame in Hc.
  destruct Hc as [E|[E _]]; congruence.
Qed.

(* ---------------------------------------------------------------- *)
(* every mutator result is the input itself or a new_version of it in which only the two marking
   properties were replaced (the bridge to C05: Proofs/MarkingsVersioning.v)                       *)

Definition via_new_version (c : cfg) (o o' : sobj) : Prop :=
  o' = o \/ exists omr' gms', new_version c o omr' gms' = Ok o'.

Lemma g_add_via : forall c o ms sels o', g_add_markings c o ms sels = Ok o' -> via_new_version c o o'.
Proof.
  intros c o ms sels o' H. unfold g_add_markings in H.
  destruct (validate c (view o) sels); [|discriminate]. simpl in H. right. eauto.
Qed.

Lemma g_remove_via : forall c o ms sels o', g_remove_markings c o ms sels = Ok o' -> via_new_version c o o'.
Proof.
  intros c o ms sels o' H. unfold g_remove_markings in H.
  destruct (validate c (view o) sels); [|discriminate]. simpl in H.
  destruct (gms_list o) as [|g0 gs0]; [inversion H; left; reflexivity|].
  destruct (negb (existsb _ _)) in H; [discriminate|].
  match type of H with
  | match compress_markings ?k with _ => _ end = _ => destruct (compress_markings k) as [[|x l]|]
  end; right; eauto.
Qed.

Lemma g_clear_via : forall c o sels r l o', g_clear_markings c o sels r l = Ok o' -> via_new_version c o o'.
Proof.
  intros c o sels r l o' H. apply g_clear_inv in H. destruct H as [[_ E]|[gms' [H _]]].
  - left. exact E.
  - right. eauto.
Qed.

Theorem mutators_via_new_version : forall c o m sels r l o',
  (add_markings c o m sels = Ok o' \/ remove_markings c o m sels = Ok o' \/ clear_markings c o sels r l = Ok o') ->
  via_new_version c o o'.
Proof.
  intros c o m sels r l o' H. destruct sels as [ss|]; simpl in H.
  - destruct H as [H|[H|H]]; eauto using g_add_via, g_remove_via, g_clear_via.
  - destruct H as [H|[H|H]].
    + right. unfold o_add_markings in H. eauto.
    + unfold o_remove_markings in H. destruct (omr_list o) as [|x0 cur]; [inversion H; left; reflexivity|].
      destruct (existsb _ m) in H; [discriminate|].
      destruct (filter _ (x0 :: cur)); right; eauto.
    + right. unfold o_clear_markings in H. eauto.
Qed.

Theorem set_via_new_version : forall c o m sels r l o',
  set_markings c o m sels r l = Ok o' ->
  exists o1, via_new_version c o o1 /\ via_new_version c o1 o'.
Proof.
  intros c o m sels r l o' H. destruct sels as [ss|]; simpl in H.
  - unfold g_set_markings in H. destruct (g_clear_markings c o ss r l) as [o1|e] eqn:Hc; [|discriminate].
    exists o1. split; eauto using g_clear_via, g_add_via.
  - unfold o_set_markings in H. destruct (o_clear_markings c o) as [o1|e] eqn:Hc; [|discriminate].
    exists o1. split; right; [unfold o_clear_markings in Hc | unfold o_add_markings in H]; eauto.
Qed.

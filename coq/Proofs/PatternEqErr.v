(* Proofs/PatternEqErr.v -- which exceptions the normaliser can raise.
   With the repaired special-value pass the only failures of the model are
   fuel exhaustion (the model's stand-in for non-termination of the settle
   loops) and the AttributeError of the comparison-level DNF when a
   distributed node has no root_types (an AND all of whose distributed
   operand sets were pruned -- reachable only from object models the
   constructors themselves reject, see known finding C09-dnf-empty-or).   *)
From Coq Require Import NArith ZArith List Bool String.
From V Require Import Base.UString Model.PatternEq Proofs.PatternEqLists Proofs.PatternEqDnf Proofs.PatternEqNorm.
Import ListNotations.

Definition benign (e : perr) : Prop := e = EFuel \/ e = EAttribute.

Lemma bind_err : forall {A B} (r : res A) (f : A -> res B) e,
    bind r f = Err e -> r = Err e \/ exists a, r = Ok a /\ f a = Err e.
Proof. intros A B [a|e0] f e E; simpl in E; [right; exists a; auto | left; congruence]. Qed.

Lemma special_atom_repaired_ok : forall a, exists a', special_atom repaired a = Ok a'.
Proof.
  intro a. unfold special_atom, repaired. simpl.
  destruct (is_matches (a_op a)); [eexists; reflexivity|].
  destruct (special_kind (a_type a) (a_path a)) as [| |v6] eqn:Ek.
  - eexists; reflexivity.
  - destruct (a_rhs a) as [[]|]; simpl; eexists; reflexivity.
  - destruct (a_rhs a) as [[]|]; simpl; try (eexists; reflexivity).
    destruct (ip_canon v6 s); simpl; eexists; reflexivity.
Qed.

Lemma mapM_ok_all : forall {A B} (f : A -> res B) l, (forall x, In x l -> exists y, f x = Ok y) -> exists ys, mapM f l = Ok ys.
Proof.
  induction l as [|x l IH]; intros Hf; [exists []; reflexivity|].
  destruct (Hf x (or_introl eq_refl)) as [y Ey]. destruct IH as [ys Eys]; [intros z Hz; apply Hf; right; exact Hz|].
  exists (y :: ys). simpl. rewrite Ey, Eys. reflexivity.
Qed.

Lemma cspecial_repaired_ok : forall e0, exists e, cspecial repaired e0 = Ok e.
Proof.
  induction e0 using cexpr0_ind'.
  - destruct (special_atom_repaired_ok a) as [a' Ea]. exists (Atom a'). simpl. rewrite Ea. reflexivity.
  - destruct (mapM_ok_all (cspecial repaired) l) as [l' El]; [apply Forall_forall; exact H|].
    exists (CAnd l'). simpl. rewrite El. reflexivity.
  - destruct (mapM_ok_all (cspecial repaired) l) as [l' El]; [apply Forall_forall; exact H|].
    exists (COr l'). simpl. rewrite El. reflexivity.
  - exact IHe0.
Qed.

Lemma settle_err : forall {A} (g : A -> A * bool) fuel a ch e,
    settle_loop fuel (fun x => Ok (g x)) a ch = Err e -> e = EFuel.
Proof.
  intros A g. induction fuel as [|n IH]; intros a ch e E; simpl in E; [inversion E; reflexivity|].
  destruct (g a) as [a' c]. destruct c; [apply (IH _ _ _ E) | discriminate].
Qed.

Lemma rt_step_err : forall o cur arg e, rt_step o cur arg = Err e -> e = EAttribute \/ e = EValue.
Proof.
  intros o cur [s|] e E; simpl in E; [|inversion E; auto].
  match type of E with match ?nw with _ => _ end = _ => destruct nw end; inversion E; auto.
Qed.

Lemma rt_fold_err : forall o rs cur e, rt_fold o cur rs = Err e -> e = EAttribute \/ e = EValue.
Proof.
  induction rs as [|a rs IH]; simpl; intros cur e E; [discriminate|].
  destruct (rt_step o cur a) eqn:Es; [apply (IH _ _ E) | inversion E; subst; apply (rt_step_err _ _ _ _ Es)].
Qed.

Lemma rt_dupe_err : forall c e, rt_dupe c = Err e -> e = EAttribute \/ e = EValue.
Proof.
  induction c using PatternEqCmp.cexpr_ind'; intros e E; simpl in E; [discriminate | |].
  - destruct (mapM rt_dupe l) eqn:Em; [apply (rt_fold_err _ _ _ _ E)|].
    inversion E; subst. apply mapM_err in Em. destruct Em as [x [Hx Ex]]. rewrite Forall_forall in H. apply (H x Hx e Ex).
  - destruct (mapM rt_dupe l) eqn:Em; [apply (rt_fold_err _ _ _ _ E)|].
    inversion E; subst. apply mapM_err in Em. destruct Em as [x [Hx Ex]]. rewrite Forall_forall in H. apply (H x Hx e Ex).
Qed.

Lemma dnf_prune_err : forall sets e, dnf_prune sets = Err e -> e = EAttribute.
Proof.
  induction sets as [|s r IH]; intros e E; [discriminate|]. cbn [dnf_prune] in E.
  destruct (rt_dupe (CAnd s)) as [rt|e0] eqn:Er.
  - destruct (dnf_prune r) eqn:Ek; [discriminate|]. inversion E; subst. apply IH; reflexivity.
  - destruct (rt_dupe_err _ _ Er) as [->| ->]; [inversion E; reflexivity | apply IH; exact E].
Qed.

Lemma cdnf_err : forall fuel c e, cdnf fuel c = Err e -> benign e.
Proof.
  induction fuel as [|f IH]; intros c e E; [inversion E; left; reflexivity|].
  destruct c as [a|l|l]; cbn [cdnf] in E; [discriminate | |].
  - apply bind_err in E. destruct E as [E|[rs [Em E]]].
    + apply mapM_err in E. destruct E as [x [_ Ex]]. apply (IH _ _ Ex).
    + destruct (split_or (map fst rs)) as [ors others]. destruct ors as [|o1 ors']; [discriminate|].
      apply bind_err in E. destruct E as [E|[kept [Ek E]]]; [right; apply (dnf_prune_err _ _ E)|].
      apply bind_err in E. destruct E as [E|[kids [Ekids E]]].
      * apply mapM_err in E. destruct E as [x [_ Ex]]. apply bind_err in Ex.
        destruct Ex as [Ex|[r [_ Ex]]]; [apply (IH _ _ Ex) | discriminate].
      * destruct (existsb is_empty_or kids); [inversion E; right; reflexivity | discriminate].
  - apply bind_err in E. destruct E as [E|[rs [Em E]]]; [|discriminate].
    apply mapM_err in E. destruct E as [x [_ Ex]]. apply (IH _ _ Ex).
Qed.

Lemma cnormalize_repaired_err : forall fuel c e, cnormalize repaired fuel c = Err e -> benign e.
Proof.
  intros fuel c e E. unfold cnormalize in E. destruct (cspecial_repaired_ok c) as [c1 E1]. rewrite E1 in E. simpl in E.
  apply bind_err in E. destruct E as [E|[[c2 ch2] [_ E]]]; [left; apply (settle_err csimplify _ _ _ _ E)|].
  apply bind_err in E. destruct E as [E|[[c3 ch3] [_ E]]]; [apply (cdnf_err _ _ _ E)|].
  apply bind_err in E. destruct E as [E|[[c4 ch4] [_ E]]]; [left; apply (settle_err csimplify _ _ _ _ E) | discriminate].
Qed.

Lemma onormcmp_repaired_err : forall fuel p e, onormcmp repaired fuel p = Err e -> benign e.
Proof.
  intros fuel. induction p using oexpr0_ind'; intros e E; simpl in E.
  - apply bind_err in E. destruct E as [E|[[c' ch] [_ E]]]; [apply (cnormalize_repaired_err _ _ _ E) | discriminate].
  - apply bind_err in E. destruct E as [E|[rs [_ E]]]; [|discriminate].
    apply mapM_err in E. destruct E as [x [Hx Ex]]. rewrite Forall_forall in H. apply (H x Hx e Ex).
  - apply bind_err in E. destruct E as [E|[rs [_ E]]]; [|discriminate].
    apply mapM_err in E. destruct E as [x [Hx Ex]]. rewrite Forall_forall in H. apply (H x Hx e Ex).
  - apply bind_err in E. destruct E as [E|[rs [_ E]]]; [|discriminate].
    apply mapM_err in E. destruct E as [x [Hx Ex]]. rewrite Forall_forall in H. apply (H x Hx e Ex).
  - apply bind_err in E. destruct E as [E|[[r c] [_ E]]]; [apply (IHp e E) | discriminate].
  - apply bind_err in E. destruct E as [E|[[r c] [_ E]]]; [apply (IHp e E) | discriminate].
Qed.

Lemma odnf_err : forall fuel o e, odnf fuel o = Err e -> e = EFuel.
Proof.
  induction fuel as [|f IH]; intros o e E; [inversion E; reflexivity|].
  destruct o as [x | l | l | l | e0 q]; cbn [odnf] in E; [discriminate | | | |].
  - apply bind_err in E. destruct E as [E|[rs [_ E]]].
    + apply mapM_err in E. destruct E as [x [_ Ex]]. apply (IH _ _ Ex).
    + destruct (existsb is_oor (map fst rs)); [|discriminate].
      apply bind_err in E. destruct E as [E|[kids [_ E]]]; [|discriminate].
      apply mapM_err in E. destruct E as [x [_ Ex]]. apply bind_err in Ex.
      destruct Ex as [Ex|[r [_ Ex]]]; [apply (IH _ _ Ex) | discriminate].
  - apply bind_err in E. destruct E as [E|[rs [_ E]]]; [|discriminate].
    apply mapM_err in E. destruct E as [x [_ Ex]]. apply (IH _ _ Ex).
  - apply bind_err in E. destruct E as [E|[rs [_ E]]].
    + apply mapM_err in E. destruct E as [x [_ Ex]]. apply (IH _ _ Ex).
    + destruct (existsb is_oor (map fst rs)); [|discriminate].
      apply bind_err in E. destruct E as [E|[kids [_ E]]]; [|discriminate].
      apply mapM_err in E. destruct E as [x [_ Ex]]. apply bind_err in Ex.
      destruct Ex as [Ex|[r [_ Ex]]]; [apply (IH _ _ Ex) | discriminate].
  - apply bind_err in E. destruct E as [E|[[r c] [_ E]]]; [apply (IH _ _ E) | discriminate].
Qed.

Lemma onormalize_repaired_err : forall fuel p e, onormalize repaired fuel p = Err e -> benign e.
Proof.
  intros fuel p e E. unfold onormalize in E.
  apply bind_err in E. destruct E as [E|[[e0 c0] [_ E]]]; [apply (onormcmp_repaired_err _ _ _ E)|].
  apply bind_err in E. destruct E as [E|[[e1 c1] [_ E]]]; [left; apply (settle_err osimplify _ _ _ _ E)|].
  apply bind_err in E. destruct E as [E|[[e2 c2] [_ E]]]; [left; apply (odnf_err _ _ _ E)|].
  apply bind_err in E. destruct E as [E|[[e3 c3] [_ E]]]; [left; apply (settle_err osimplify _ _ _ _ E) | discriminate].
Qed.

Lemma equiv_repaired_err : forall fuel p q e, equiv repaired fuel p q = Err e -> benign e.
Proof.
  intros fuel p q e E. unfold equiv in E.
  apply bind_err in E. destruct E as [E|[n1 [_ E]]]; [apply (onormalize_repaired_err _ _ _ E)|].
  apply bind_err in E. destruct E as [E|[n2 [_ E]]]; [apply (onormalize_repaired_err _ _ _ E) | discriminate].
Qed.

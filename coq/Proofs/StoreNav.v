(* Proofs/StoreNav.v -- relationship navigation (property C18): relationships,
   related_to and creator_of of a source are a scan of its population; the
   composite's related_to is per member (refuted against the union by a
   witness) and the federated variant is the scan of the union.               *)
From Coq Require Import NArith ZArith List Bool Lia Permutation.
From V Require Import Base.UString Model.Store Model.StoreRun Spec.StoreSpec Spec.StoreNavSpec
  Proofs.StoreBase Proofs.StoreMem Proofs.StoreFs Proofs.StoreAgree Proofs.StoreComposite.
Import ListNotations.
Open Scope list_scope.

(* ---------- what a scan implies ---------- *)
Lemma all_hold_rel : forall rt k a o,
  all_hold (rel_base rt ++ [FOther (prop_is k a)]) o = is_rel_of rt k a o.
Proof.
  intros rt k a o. unfold all_hold, rel_base, is_rel_of.
  destruct rt as [[|c s]|]; simpl; rewrite ?andb_true_r, ?andb_assoc; reflexivity.
Qed.

Lemma filter_ext_eq : forall {A} (f g : A -> bool) l, (forall x, f x = g x) -> filter f l = filter g l.
Proof. intros. apply filter_ext. auto. Qed.

Theorem relationships_scan : forall qf P a rt so to, scans qf P ->
  relationships qf a rt so to = if so && to then Err EValue else Ok (rel_scan P a rt so to).
Proof.
  intros qf P a rt so to S. unfold relationships, rel_scan.
  destruct so, to; cbn [andb negb]; try reflexivity; rewrite ?S; cbn [rbind]; rewrite ?S; cbn [rbind];
    rewrite ?(filter_ext_eq _ _ P (all_hold_rel rt k_source_ref a)), ?(filter_ext_eq _ _ P (all_hold_rel rt k_target_ref a));
    rewrite ?app_nil_r; reflexivity.
Qed.

(* ---------- related_to over query functions with membership semantics ---------- *)
Lemma scans_answers : forall qf P, scans qf P -> answers qf P.
Proof. intros qf P S q. exists (filter (all_hold q) P). split; auto. intros o. apply filter_In. Qed.

Lemma In_add_new : forall x l y, In y (add_new x l) <-> y = x \/ In y l.
Proof.
  induction l as [|z l IH]; intros y; simpl.
  - split; intros [H|H]; auto; contradiction.
  - destruct (ustr_eqb z x) eqn:E.
    + apply s_eqb_eq in E. subst z. simpl. split; intros H; [tauto|]. destruct H as [H|H]; auto.
    + simpl. rewrite IH. tauto.
Qed.

Lemma NoDup_add_new : forall x l, NoDup l -> NoDup (add_new x l).
Proof.
  induction l as [|z l IH]; intros ND; simpl.
  - constructor; [intros []|constructor].
  - destruct (ustr_eqb z x) eqn:E; auto.
    inversion ND; subst. constructor; auto.
    rewrite In_add_new. intros [H|H]; auto. subst. rewrite s_eqb_refl in E. discriminate.
Qed.

Lemma endpoint_ids_spec : forall rels acc ids, NoDup acc -> endpoint_ids rels acc = Some ids ->
  NoDup ids /\
  forall i, In i ids <-> In i acc \/ exists r, In r rels /\ (prop_get k_source_ref r = Some i \/ prop_get k_target_ref r = Some i).
Proof.
  induction rels as [|r rels IH]; intros acc ids ND H; simpl in H.
  - inversion H; subst. split; auto. intros i. split; [auto|]. intros [H1|[r [[] _]]]. auto.
  - destruct (prop_get k_source_ref r) as [s|] eqn:Es; [|discriminate].
    destruct (prop_get k_target_ref r) as [t|] eqn:Et; [|discriminate].
    apply IH in H; [|apply NoDup_add_new; apply NoDup_add_new; auto].
    destruct H as [N H]. split; auto. intros i. rewrite H. rewrite !In_add_new. split.
    + intros [[X|[X|X]]|[r' [R1 R2]]]; auto.
      * subst. right. exists r. simpl. rewrite Et. auto.
      * subst. right. exists r. simpl. rewrite Es. auto.
      * right. exists r'. simpl. auto.
    + intros [X|[r' [[R1|R1] R2]]]; auto.
      * subst r'. rewrite Es, Et in R2. destruct R2 as [R2|R2]; inversion R2; subst; auto.
      * right. eauto.
Qed.

Lemma endpoint_ids_some : forall rels acc,
  (forall r, In r rels -> prop_get k_source_ref r <> None /\ prop_get k_target_ref r <> None) ->
  exists ids, endpoint_ids rels acc = Some ids.
Proof.
  induction rels as [|r rels IH]; intros acc H; simpl; eauto.
  destruct (H r (or_introl eq_refl)) as [H1 H2].
  destruct (prop_get k_source_ref r); [|contradiction]. destruct (prop_get k_target_ref r); [|contradiction].
  apply IH. intros. apply H. simpl. auto.
Qed.

Lemma all_hold_snoc_id : forall fl i o, all_hold (fl ++ [FId i]) o = all_hold fl o && ustr_eqb (oid o) i.
Proof. intros. rewrite all_hold_app. unfold all_hold at 2. simpl. rewrite andb_true_r. reflexivity. Qed.

Lemma query_each_spec : forall qf P fl ids, answers qf P ->
  exists res, query_each qf fl ids = Ok res /\
    forall o, In o res <-> In o P /\ all_hold fl o = true /\ In (oid o) ids.
Proof.
  intros qf P fl ids A. induction ids as [|i ids IH]; simpl.
  - exists []. split; auto. intros o. simpl. tauto.
  - destruct (A (fl ++ [FId i])) as [x [X1 X2]]. destruct IH as [y [Y1 Y2]].
    rewrite X1, Y1. simpl. exists (x ++ y). split; auto.
    intros o. rewrite in_app_iff, X2, Y2, all_hold_snoc_id, andb_true_iff, s_eqb_eq. split.
    + intros [[H1 [H2 H3]]|[H1 [H2 H3]]]; auto.
    + intros [H1 [H2 [H3|H3]]]; auto.
Qed.

(* related_to, whatever the relationships method and the query function are, as long as they have membership
   semantics over a population: exactly the objects of the population that pass the extra filters and whose id
   is the other end of one of the relationships *)
Theorem related_to_spec : forall relf qf P a rt so to fl rels,
  relf a rt so to = Ok rels -> answers qf P ->
  (forall r, In r rels -> prop_get k_source_ref r <> None /\ prop_get k_target_ref r <> None) ->
  exists res, related_to relf qf a rt so to fl = Ok res /\
    forall o, In o res <-> In o P /\ all_hold fl o = true /\ neighbour rels a (oid o).
Proof.
  intros relf qf P a rt so to fl rels Hr A Hrefs.
  unfold related_to. rewrite Hr. simpl. unfold lookup_related.
  destruct (endpoint_ids_some rels [] Hrefs) as [ids Hids]. rewrite Hids.
  destruct (endpoint_ids_spec _ _ _ (NoDup_nil _) Hids) as [ND Hin].
  destruct (query_each_spec qf P fl (filter (fun i => negb (ustr_eqb i a)) ids) A) as [res [R1 R2]].
  exists res. split; auto. intros o. rewrite R2. rewrite filter_In, Hin, negb_true_iff, s_eqb_neq.
  unfold neighbour. simpl. tauto.
Qed.

(* relationships over a query function with membership semantics *)
Theorem relationships_members : forall qf P a rt so to, answers qf P -> so && to = false ->
  exists res, relationships qf a rt so to = Ok res /\ forall r, In r res <-> In r (rel_scan P a rt so to).
Proof.
  intros qf P a rt so to A Hb. unfold relationships, rel_scan. rewrite Hb.
  destruct (A (rel_base rt ++ [FOther (prop_is k_source_ref a)])) as [x [X1 X2]].
  destruct (A (rel_base rt ++ [FOther (prop_is k_target_ref a)])) as [y [Y1 Y2]].
  assert (forall k o, In o P /\ all_hold (rel_base rt ++ [FOther (prop_is k a)]) o = true <-> In o (filter (is_rel_of rt k a) P)) as G.
  { intros k o. rewrite filter_In, all_hold_rel. tauto. }
  destruct so, to; try discriminate; cbn [negb]; rewrite ?X1, ?Y1; cbn [rbind]; rewrite ?X1, ?Y1; cbn [rbind];
    eexists; (split; [reflexivity|]); intros r; rewrite !in_app_iff, ?X2, ?Y2, ?G; simpl; tauto.
Qed.

(* a relationship that lacks an end makes related_to raise AttributeError (dictionary-kept content only) *)
Lemma endpoint_ids_none : forall rels acc r, In r rels ->
  (prop_get k_source_ref r = None \/ prop_get k_target_ref r = None) -> endpoint_ids rels acc = None.
Proof.
  induction rels as [|x rels IH]; intros acc r Hi Hn; [contradiction|]. simpl.
  destruct Hi as [Hi|Hi].
  - subst x. destruct Hn as [Hn|Hn]; rewrite Hn; auto. destruct (prop_get k_source_ref r); auto.
  - destruct (prop_get k_source_ref x); auto. destruct (prop_get k_target_ref x); auto. eapply IH; eauto.
Qed.

(* for a single source the answer is exact as a multiset: a permutation of the scan *)
Lemma filter_or_disjoint_perm : forall {A} (p1 p2 : A -> bool) l,
  (forall x, p1 x = true -> p2 x = true -> False) ->
  Permutation (filter (fun x => p1 x || p2 x) l) (filter p1 l ++ filter p2 l).
Proof.
  intros A p1 p2 l D. induction l as [|x l IH]; simpl; auto.
  destruct (p1 x) eqn:E1; destruct (p2 x) eqn:E2; simpl; auto.
  - exfalso. eauto.
  - apply Permutation_cons_app. auto.
Qed.

Lemma query_each_scan_perm : forall qf P fl ids, scans qf P -> NoDup ids ->
  exists res, query_each qf fl ids = Ok res /\
    Permutation res (filter (fun o => all_hold fl o && id_in ids o) P).
Proof.
  intros qf P fl ids S. induction ids as [|i ids IH]; intros ND; simpl.
  - exists []. split; auto. unfold id_in. simpl.
    rewrite (filter_ext_eq _ (fun _ => false)); [|intros; apply andb_false_r].
    clear S. induction P; simpl; auto.
  - inversion ND; subst. destruct (IH H2) as [y [Y1 Y2]]. rewrite S, Y1. simpl.
    eexists. split; [reflexivity|].
    eapply Permutation_trans; [apply Permutation_app_head; exact Y2|].
    apply Permutation_sym.
    rewrite (filter_ext_eq _ (fun o => all_hold (fl ++ [FId i]) o || (all_hold fl o && id_in ids o))).
    + apply filter_or_disjoint_perm. intros o X1 X2.
      rewrite all_hold_snoc_id in X1. apply andb_true_iff in X1. destruct X1 as [_ X1]. apply s_eqb_eq in X1.
      apply andb_true_iff in X2. destruct X2 as [_ X2]. unfold id_in in X2. apply existsb_exists in X2.
      destruct X2 as [j [J1 J2]]. apply s_eqb_eq in J2. apply H1. congruence.
    + intros o. rewrite all_hold_snoc_id. unfold id_in. simpl. destruct (all_hold fl o); simpl; auto.
Qed.

Theorem related_scan_perm : forall qf P a rt so to fl,
  scans qf P -> so && to = false ->
  (forall r, In r (rel_scan P a rt so to) -> prop_get k_source_ref r <> None /\ prop_get k_target_ref r <> None) ->
  exists ids res,
    NoDup ids /\ (forall i, In i ids <-> neighbour (rel_scan P a rt so to) a i) /\
    related_to (relationships qf) qf a rt so to fl = Ok res /\
    Permutation res (filter (fun o => all_hold fl o && id_in ids o) P).
Proof.
  intros qf P a rt so to fl S Hb Hrefs.
  unfold related_to. rewrite (relationships_scan _ _ _ _ _ _ S), Hb. simpl. unfold lookup_related.
  destruct (endpoint_ids_some _ [] Hrefs) as [ids Hids]. rewrite Hids.
  destruct (endpoint_ids_spec _ _ _ (NoDup_nil _) Hids) as [ND Hin].
  set (ids' := filter (fun i => negb (ustr_eqb i a)) ids).
  assert (NoDup ids') as ND' by (apply NoDup_filter; auto).
  destruct (query_each_scan_perm qf P fl ids' S ND') as [res [R1 R2]].
  exists ids', res. split; auto. split; auto.
  intros i. unfold ids'. rewrite filter_In, Hin, negb_true_iff, s_eqb_neq. unfold neighbour. simpl. tauto.
Qed.

(* ---------- sources ---------- *)
Section Nav.
  Variable mode : text_mode.
  Variable iot : ustring -> option Z.
  Notation run := (mem_run mode iot).

  Lemma mem_source_scans : forall m, scans (s_query (mem_source [] m) []) (mem_objs m).
  Proof. intros m q. simpl. unfold mem_query. rewrite !app_nil_r. reflexivity. Qed.

  Lemma fs_source_answers : forall ts2fn L s, FsInv ts2fn L s -> answers (s_query (fs_source [] s) []) (map fobj s).
  Proof.
    intros ts2fn L s I q. simpl. eexists. split; [reflexivity|].
    intros o. rewrite !app_nil_r. eapply In_fs_query; eauto.
  Qed.

  (* MemorySource / MemoryStore: relationships = scan of the stored objects *)
  Theorem relationships_mem : forall m a rt so to,
    s_rels (mem_source [] m) a rt so to = if so && to then Err EValue else Ok (rel_scan (mem_objs m) a rt so to).
  Proof. intros. simpl. apply relationships_scan. apply mem_source_scans. Qed.

  Theorem related_mem : forall m a rt so to fl, so && to = false ->
    (forall r, In r (rel_scan (mem_objs m) a rt so to) -> prop_get k_source_ref r <> None /\ prop_get k_target_ref r <> None) ->
    exists ids res,
      NoDup ids /\ (forall i, In i ids <-> neighbour (rel_scan (mem_objs m) a rt so to) a i) /\
      s_related (mem_source [] m) a rt so to fl = Ok res /\
      Permutation res (filter (fun o => all_hold fl o && id_in ids o) (mem_objs m)).
  Proof. intros. simpl. apply related_scan_perm; auto. apply mem_source_scans. Qed.

  (* FileSystemSource / FileSystemStore: navigation has the same content as the scan of the stored files *)
  Theorem navigation_fs : forall ts2fn L s a rt so to fl, FsInv ts2fn L s -> so && to = false ->
    let P := map fobj s in
    (forall r, In r (rel_scan P a rt so to) -> prop_get k_source_ref r <> None /\ prop_get k_target_ref r <> None) ->
    exists rels res,
      s_rels (fs_source [] s) a rt so to = Ok rels /\ (forall r, In r rels <-> In r (rel_scan P a rt so to)) /\
      s_related (fs_source [] s) a rt so to fl = Ok res /\
      (forall o, In o res <-> In o P /\ all_hold fl o = true /\ neighbour (rel_scan P a rt so to) a (oid o)).
  Proof.
    intros ts2fn L s a rt so to fl I Hb P Hrefs.
    pose proof (fs_source_answers ts2fn L s I) as A. fold P in A.
    destruct (relationships_members _ P a rt so to A Hb) as [rels [R1 R2]].
    destruct (related_to_spec (relationships (s_query (fs_source [] s) [])) (s_query (fs_source [] s) []) P a rt so to fl rels R1 A) as [res [S1 S2]].
    { intros r Hr. apply Hrefs. apply R2. exact Hr. }
    exists rels, res. split; [exact R1|]. split; auto. split; [exact S1|].
    intros o. rewrite S2. unfold neighbour.
    split; intros [X1 [X2 [X3 [r [X4 X5]]]]]; repeat split; auto; exists r; split; auto; apply R2; auto.
  Qed.

  (* creator_of is a lookup of created_by_ref *)
  Theorem creator_lookup : forall src o,
    creator_of src o = match prop_get k_created_by_ref o with
                       | Some (c :: r) => s_get src [] (c :: r)
                       | _ => Ok None
                       end.
  Proof. reflexivity. Qed.

  Theorem creator_mem : forall L o cid, prop_get k_created_by_ref o = Some cid -> cid <> [] ->
    creator_of (mem_source [] (run L)) o = Ok (mem_get [] cid (run L)).
  Proof. intros L o cid H N. unfold creator_of. rewrite H. destruct cid; [contradiction|]. reflexivity. Qed.

  (* ---------- composite ---------- *)
  (* the code as it is: each member navigates within its own data *)
  Theorem related_composite : forall af ms a rt so to fl, ms <> [] ->
    crelated_to PerMember af ms a rt so to fl =
    rbind (collect (fun m => s_related m a rt so to fl) ms) (fun rs => Ok (dedupe (concat rs))).
  Proof. intros af [|m ms] a rt so to fl H; [contradiction|]. reflexivity. Qed.

  Lemma mem_scan_member : forall m, scan_member (mem_source [] m) (mem_objs m).
  Proof. intros m. split; intros; simpl; auto. Qed.

  Lemma concat_filter : forall {A} (g : A -> bool) (ls : list (list A)),
    concat (map (filter g) ls) = filter g (concat ls).
  Proof. induction ls as [|l ls IH]; simpl; auto. rewrite filter_app, IH. reflexivity. Qed.

  Lemma collect_scan_query : forall ms Ps cf q, Forall2 scan_member ms Ps ->
    collect (fun m => s_query m cf q) ms = Ok (map (filter (all_hold (q ++ cf))) Ps).
  Proof.
    intros ms Ps cf q F. induction F as [|m P ms Ps [H1 H2] F IH]; simpl; auto.
    rewrite H1, IH. reflexivity.
  Qed.

  Lemma collect_scan_rels : forall ms Ps a rt so to, Forall2 scan_member ms Ps -> so && to = false ->
    collect (fun m => s_rels m a rt so to) ms = Ok (map (fun P => rel_scan P a rt so to) Ps).
  Proof.
    intros ms Ps a rt so to F Hb. induction F as [|m P ms Ps [H1 H2] F IH]; simpl; auto.
    rewrite H2. rewrite (relationships_scan _ P); [|intros q; rewrite H1, app_nil_r; reflexivity].
    rewrite Hb, IH. reflexivity.
  Qed.

  Lemma In_rel_scan_concat : forall Ps a rt so to r,
    In r (concat (map (fun P => rel_scan P a rt so to) Ps)) <-> In r (rel_scan (concat Ps) a rt so to).
  Proof.
    intros Ps a rt so to r. rewrite in_concat. unfold rel_scan. split.
    - intros [l [L1 L2]]. apply in_map_iff in L1. destruct L1 as [P [E HP]]. subst l.
      apply in_app_or in L2. apply in_or_app.
      destruct L2 as [L2|L2]; [left | right]; destruct to, so; simpl in *; try contradiction;
        apply filter_In in L2; destruct L2 as [X Y]; apply filter_In; split; auto; apply in_concat; eauto.
    - intros H. apply in_app_or in H.
      assert (forall g, In r (filter g (concat Ps)) -> exists P, In P Ps /\ In r (filter g P)) as G.
      { intros g Hg. apply filter_In in Hg. destruct Hg as [X Y]. apply in_concat in X. destruct X as [P [P1 P2]].
        exists P. split; auto. apply filter_In. auto. }
      destruct H as [H|H].
      + destruct to; [contradiction|]. destruct (G _ H) as [P [P1 P2]].
        exists (rel_scan P a rt so false). split; [apply in_map_iff; exists P; auto|].
        unfold rel_scan. apply in_or_app. left. exact P2.
      + destruct so; [contradiction|]. destruct (G _ H) as [P [P1 P2]].
        exists (rel_scan P a rt false to). split; [apply in_map_iff; exists P; auto|].
        unfold rel_scan. apply in_or_app. right. exact P2.
  Qed.

  (* relationships through a composite / Environment: the de-duplicated scan of the union of the members' populations *)
  Theorem crelationships_union_scan : forall ms Ps a rt so to,
    ms <> [] -> Forall2 scan_member ms Ps -> so && to = false ->
    let U := concat Ps in
    exists rels, crelationships ms a rt so to = Ok rels /\
      (forall r, In r rels -> In r (rel_scan U a rt so to)) /\
      (forall r, In r (rel_scan U a rt so to) -> exists r', In r' rels /\ dkey_of r' = dkey_of r) /\
      NoDup (map dkey_of rels) /\
      ((forall x y, In x U -> In y U -> dkey_of x = dkey_of y -> x = y) ->
       forall r, In r rels <-> In r (rel_scan U a rt so to)).
  Proof.
    intros ms Ps a rt so to Hne F Hb U.
    set (rels := dedupe (concat (map (fun P => rel_scan P a rt so to) Ps))).
    assert (crelationships ms a rt so to = Ok rels) as Er.
    { unfold crelationships. destruct ms; [contradiction|]. rewrite (collect_scan_rels _ Ps a rt so to F Hb). reflexivity. }
    destruct (dedupe_spec (concat (map (fun P => rel_scan P a rt so to) Ps))) as [D1 [D2 D3]].
    exists rels. split; auto. split; [|split; [|split]]; auto.
    - intros r Hr. apply In_rel_scan_concat. apply D1. exact Hr.
    - intros r Hr. apply D2. apply In_rel_scan_concat. exact Hr.
    - intros Hag r. unfold rels. rewrite dedupe_In_agree; [apply In_rel_scan_concat|].
      intros x y Hx Hy. apply In_rel_scan_concat in Hx. apply In_rel_scan_concat in Hy.
      assert (forall z, In z (rel_scan U a rt so to) -> In z U) as Hz.
      { intros z Hz. unfold rel_scan in Hz. apply in_app_or in Hz.
        destruct Hz as [Hz|Hz]; [destruct to | destruct so]; try contradiction; apply filter_In in Hz; tauto. }
      apply Hag; auto.
  Qed.

  (* the repaired variant: navigation on the federation as a whole = the scan of the union of the members'
     populations (copies of one (id, version) held by several members being the same object) *)
  Theorem related_federated_union : forall ms Ps a rt so to fl,
    ms <> [] -> Forall2 scan_member ms Ps -> so && to = false ->
    let U := concat Ps in
    (forall x y, In x U -> In y U -> dkey_of x = dkey_of y -> x = y) ->
    (forall r, In r (rel_scan U a rt so to) -> prop_get k_source_ref r <> None /\ prop_get k_target_ref r <> None) ->
    exists res, crelated_to Federated [] ms a rt so to fl = Ok res /\
      forall o, In o res <-> In o U /\ all_hold fl o = true /\ neighbour (rel_scan U a rt so to) a (oid o).
  Proof.
    intros ms Ps a rt so to fl Hne F Hb U Hag Hrefs.
    assert (crelated_to Federated [] ms a rt so to fl =
            related_to (crelationships ms) (cquery [] ms []) a rt so to fl) as E.
    { destruct ms; [contradiction|]. reflexivity. }
    rewrite E. clear E.
    (* the federated query answers over the union *)
    assert (answers (cquery [] ms []) U) as A.
    { intros q. rewrite (cquery_union [] ms [] q _ Hne (collect_scan_query ms Ps _ q F)).
      eexists. split; [reflexivity|]. intros o. simpl. rewrite app_nil_r, concat_filter.
      rewrite dedupe_In_agree.
      - apply filter_In.
      - intros x y Hx Hy. apply filter_In in Hx. apply filter_In in Hy. apply Hag; tauto. }
    (* the federated relationships are the scan of the union *)
    set (rels := dedupe (concat (map (fun P => rel_scan P a rt so to) Ps))).
    assert (crelationships ms a rt so to = Ok rels) as Er.
    { unfold crelationships. destruct ms; [contradiction|]. rewrite (collect_scan_rels _ Ps a rt so to F Hb). reflexivity. }
    assert (forall r, In r rels <-> In r (rel_scan U a rt so to)) as Hrel.
    { intros r. unfold rels. rewrite dedupe_In_agree; [apply In_rel_scan_concat|].
      intros x y Hx Hy. apply In_rel_scan_concat in Hx. apply In_rel_scan_concat in Hy.
      assert (forall z, In z (rel_scan U a rt so to) -> In z U) as Hz.
      { intros z Hz. unfold rel_scan in Hz. apply in_app_or in Hz.
        destruct Hz as [Hz|Hz]; [destruct to | destruct so]; try contradiction; apply filter_In in Hz; tauto. }
      apply Hag; auto. }
    destruct (related_to_spec (crelationships ms) (cquery [] ms []) U a rt so to fl rels Er A) as [res [R1 R2]].
    { intros r Hr. apply Hrefs. apply Hrel. exact Hr. }
    exists res. split; auto. intros o. rewrite R2. unfold neighbour.
    split; intros [X1 [X2 [X3 [r [X4 X5]]]]]; repeat split; auto; exists r; split; auto; apply Hrel; auto.
  Qed.
End Nav.

(* ---------- the cross-member witness ---------- *)
From Coq Require Import String.
Definition x_a : ustring := u "identity--00000001-0000-4000-8000-000000000001".
Definition x_b : ustring := u "identity--00000002-0000-4000-8000-000000000002".
Definition x_r : ustring := u "relationship--00000001-0000-4000-8000-000000000001".
Definition x_oa : obj := mkObj x_a (u "identity") (VInst 1577836800000000%Z) (VInst 1420070400000000%Z) 1 [].
Definition x_ob : obj := mkObj x_b (u "identity") (VInst 1577836800000000%Z) (VInst 1420070400000000%Z) 2 [].
Definition x_rel : obj := mkObj x_r k_relationship (VInst 1577836800000000%Z) (VInst 1420070400000000%Z) 3
  [(k_source_ref, x_a); (k_target_ref, x_b); (k_relationship_type, u "related-to")].

Lemma related_composite_vs_union_refuted_l : forall mode iot,
  let m1 := mem_source [] (mem_run mode iot [x_oa; x_rel]) in
  let m2 := mem_source [] (mem_run mode iot [x_ob]) in
  let all := mem_source [] (mem_run mode iot [x_oa; x_rel; x_ob]) in
  crelated_to PerMember [] [m1; m2] x_a None false false [] = Ok [] /\
  crelationships [m1; m2] x_a None false false = Ok [x_rel] /\
  cget [] [m1; m2] [] x_b = Ok (Some x_ob) /\
  s_related all x_a None false false [] = Ok [x_ob] /\
  crelated_to Federated [] [m1; m2] x_a None false false [] = Ok [x_ob].
Proof. intros [|] iot; vm_compute; repeat split; reflexivity. Qed.

(* Proofs/FiltersTs2.v -- parse_ts of Model/Filters.v against property C15's
   model of the library code itself (Model/Timestamp.v parse_strptime =
   datetime.strptime with the two formats of utils.parse_into_datetime, which
   is what Filter._check_property calls): on every string parse_ts accepts the
   two give the same instant.  (parse_strptime accepts more spellings -- one
   digit fields, lower-case t/z, other Unicode digits; parse_ts refuses them,
   which is the documented gap of the C12 model.)                          *)
From Coq Require Import NArith ZArith List Bool Lia.
From V Require Import Base.UString Model.Calendar Model.Timestamp Spec.TimestampSpec
  Proofs.CalendarFacts Proofs.TimestampFacts Proofs.StrptimeFacts Proofs.C15Proofs Proofs.FiltersTs.
From V Require Model.Filters.
Import ListNotations.
Open Scope Z_scope.

Lemma sdigit_inv : forall c d, sdigit c = Some d -> c = dchar d /\ isdigit d.
Proof.
  intros c d H. unfold sdigit in H. destruct ((48 <=? c)%N && (c <=? 57)%N) eqn:E; inversion H; subst.
  apply andb_true_iff in E. destruct E as [E1 E2]. apply N.leb_le in E1. apply N.leb_le in E2.
  unfold dchar, isdigit. split; [|lia]. replace (48 + (Z.of_N c - 48)) with (Z.of_N c) by lia. rewrite N2Z.id. reflexivity.
Qed.

Lemma read_num2_inv : forall s v r, read_num 2 s 0 = Some (v, r) ->
  exists a b, isdigit a /\ isdigit b /\ s = dchar a :: dchar b :: r /\ v = a * 10 + b.
Proof.
  intros s v r H. simpl in H. destruct s as [|c1 s]; try discriminate. destruct (sdigit c1) as [a|] eqn:A; try discriminate.
  destruct s as [|c2 s]; try discriminate. destruct (sdigit c2) as [b|] eqn:B; try discriminate. inversion H; subst.
  apply sdigit_inv in A. apply sdigit_inv in B. destruct A as [-> Ha]. destruct B as [-> Hb].
  exists a, b. unfold isdigit in *. repeat split; auto; lia.
Qed.

Lemma read_num4_inv : forall s v r, read_num 4 s 0 = Some (v, r) ->
  exists a b c d, isdigit a /\ isdigit b /\ isdigit c /\ isdigit d /\
    s = dchar a :: dchar b :: dchar c :: dchar d :: r /\ v = ((a * 10 + b) * 10 + c) * 10 + d.
Proof.
  intros s v r H. simpl in H.
  destruct s as [|c1 s]; try discriminate. destruct (sdigit c1) as [a|] eqn:A; try discriminate.
  destruct s as [|c2 s]; try discriminate. destruct (sdigit c2) as [b|] eqn:B; try discriminate.
  destruct s as [|c3 s]; try discriminate. destruct (sdigit c3) as [c|] eqn:C; try discriminate.
  destruct s as [|c4 s]; try discriminate. destruct (sdigit c4) as [d|] eqn:D; try discriminate. inversion H; subst.
  apply sdigit_inv in A. apply sdigit_inv in B. apply sdigit_inv in C. apply sdigit_inv in D.
  destruct A as [-> Ha]. destruct B as [-> Hb]. destruct C as [-> Hc]. destruct D as [-> Hd].
  exists a, b, c, d. unfold isdigit in *. repeat split; auto; lia.
Qed.

Lemma expect_inv : forall c s r, expect c s = Some r -> s = c :: r.
Proof.
  intros c s r H. destruct s as [|x s]; simpl in H; try discriminate.
  destruct (N.eqb x c) eqn:E; inversion H; subst. apply N.eqb_eq in E. subst. reflexivity.
Qed.

Lemma read_frac_inv : forall s ds, read_frac s = Some ds -> s = (text_of ds ++ [90%N])%list /\ Forall isdigit ds.
Proof.
  induction s as [|c s IH]; intros ds H; simpl in H; try discriminate.
  destruct (sdigit c) as [d|] eqn:D.
  - destruct (read_frac s) as [ds'|] eqn:R; try discriminate. inversion H; subst.
    apply sdigit_inv in D. destruct D as [-> Hd]. destruct (IH ds' eq_refl) as [-> HF].
    split; [reflexivity | constructor; auto].
  - destruct (N.eqb c 90) eqn:E; try discriminate. destruct s; try discriminate. inversion H; subst.
    apply N.eqb_eq in E. subst. split; [reflexivity | constructor].
Qed.

Lemma digits_value_lt : forall ds, Forall isdigit ds -> 0 <= digits_value ds 0 < 10 ^ Z.of_nat (length ds).
Proof.
  induction ds as [|d ds IH]; intro H.
  - simpl. lia.
  - inversion H; subst. specialize (IH H3). rewrite digits_value_cons. unfold isdigit in H2.
    change (length (d :: ds)) with (S (length ds)). rewrite Nat2Z.inj_succ. rewrite Z.pow_succ_r by lia. nia.
Qed.

Lemma F_days_in_month_le : forall y m, F.days_in_month y m <= 31.
Proof.
  intros. unfold F.days_in_month. destruct (m =? 2); [destruct (F.is_leap y); lia|].
  destruct ((m =? 4) || (m =? 6) || (m =? 9) || (m =? 11)); lia.
Qed.

Theorem parse_ts_is_strptime : forall s t, F.parse_ts s = Some t -> parse_strptime s = Some (t + unix_epoch_us).
Proof.
  intros s t H. unfold F.parse_ts in H.
  step_num H y s1 Ey. step_exp H s2 E2. step_num H mo s3 Emo. step_exp H s4 E4. step_num H d s5 Ed.
  step_exp H s6 E6. step_num H h s7 Eh. step_exp H s8 E8. step_num H mi s9 Emi. step_exp H s10 E10.
  step_num H se s11 Ese.
  change (tail_of y mo d h mi se s11 = Some t) in H.
  destruct (read_num4_inv _ _ _ Ey) as [y1 [y2 [y3 [y4 [Hy1 [Hy2 [Hy3 [Hy4 [Ss Vy]]]]]]]]].
  destruct (read_num2_inv _ _ _ Emo) as [m1 [m2 [Hm1 [Hm2 [Ss3 Vmo]]]]].
  destruct (read_num2_inv _ _ _ Ed) as [d1 [d2 [Hd1 [Hd2 [Ss5 Vd]]]]].
  destruct (read_num2_inv _ _ _ Eh) as [h1 [h2 [Hh1 [Hh2 [Ss7 Vh]]]]].
  destruct (read_num2_inv _ _ _ Emi) as [i1 [i2 [Hi1 [Hi2 [Ss9 Vmi]]]]].
  destruct (read_num2_inv _ _ _ Ese) as [e1 [e2 [He1 [He2 [Ss11 Vse]]]]].
  apply expect_inv in E2. apply expect_inv in E4. apply expect_inv in E6. apply expect_inv in E8. apply expect_inv in E10.
  (* the tail: fraction digits `frac` (possibly none), and the value us they stand for *)
  assert (Htail : exists frac us,
            s11 = ((match frac with [] => [] | _ => 46%N :: text_of frac end) ++ [90%N])%list /\
            Forall isdigit frac /\ (length frac <= 6)%nat /\
            us = (match frac with [] => 0 | _ => digits_value frac 0 * 10 ^ Z.of_nat (6 - length frac) end) /\
            fin_of y mo d h mi se us [90%N] = Some t).
  { destruct (tail_cases _ _ _ _ _ _ _ _ H) as [[s' [us [s'' [-> [Ef Hf]]]]] | Hf].
    - assert (Hrest := Hf). apply fin_of_spec in Hrest. destruct Hrest as [-> _].
      destruct (frac_digits_spec 6 s' 0 100000 false us eq_refl Ef) as [ds [Hr [Hne [Hl Hu]]]].
      apply read_frac_inv in Hr. destruct Hr as [-> HF].
      destruct ds as [|d0 ds0]; [exfalso; apply Hne; auto|].
      exists (d0 :: ds0), us. repeat split; auto.
      rewrite Hu. rewrite Z.add_0_l. f_equal. f_equal. lia.
    - assert (Hrest := Hf). apply fin_of_spec in Hrest. destruct Hrest as [-> _].
      exists [], 0. repeat split; auto. simpl. lia. }
  destruct Htail as [frac [us [Ss12 [HF [Hl [Hus Hf]]]]]].
  apply fin_of_spec in Hf. destruct Hf as [_ [Hy [Hm [Hd [Hh [Hmi [Hse ->]]]]]]].
  pose proof (F_days_in_month_le y mo) as Hdim.
  assert (Hs : s = (dchar y1 :: dchar y2 :: dchar y3 :: dchar y4 :: 45%N :: dchar m1 :: dchar m2 :: 45%N :: dchar d1 :: dchar d2 :: 84%N ::
               dchar h1 :: dchar h2 :: 58%N :: dchar i1 :: dchar i2 :: 58%N :: dchar e1 :: dchar e2 ::
               (match frac with [] => [] | _ => 46%N :: text_of frac end) ++ [90%N])%list).
  { subst. reflexivity. }
  assert (Dot : has_dot s = negb (is_nil frac)).
  { rewrite Hs. unfold has_dot. cbn [existsb]. rewrite !dchar_not_dot by assumption.
    cbn [orb N.eqb Pos.eqb]. fold (has_dot ((match frac with [] => [] | _ => 46%N :: text_of frac end) ++ [90%N])).
    rewrite has_dot_app. destruct frac as [|f0 fr]; reflexivity. }
  unfold parse_strptime. rewrite Dot, Hs.
  assert (Ybound : 1 <= y <= 9999) by (unfold isdigit in *; lia).
  rewrite regex_match_canonical; auto; try (unfold isdigit in *; lia).
  rewrite <- Vy, <- Vmo, <- Vd, <- Vh, <- Vmi, <- Vse, <- Hus.
  destruct (ym_fact y mo Ybound Hm) as [_ Hdm].
  assert (Hus_range : 0 <= us < 1000000).
  { rewrite Hus. destruct frac as [|f0 fr]; [lia|].
    pose proof (digits_value_lt (f0 :: fr) HF) as Hv.
    set (n := length (f0 :: fr)) in *. set (v := digits_value (f0 :: fr) 0) in *.
    assert (Hp : 10 ^ Z.of_nat n * 10 ^ Z.of_nat (6 - n) = 1000000).
    { rewrite <- Z.pow_add_r by lia. replace (Z.of_nat n + Z.of_nat (6 - n)) with 6 by lia. reflexivity. }
    assert (0 < 10 ^ Z.of_nat (6 - n)) by (apply Z.pow_pos_nonneg; lia). nia. }
  assert (V : valid_fields y mo d h mi se us = true).
  { unfold valid_fields, valid_date, us_per_sec. rewrite <- Hdm.
    repeat (apply andb_true_iff; split); try (apply Z.leb_le; unfold isdigit in *; lia); try (apply Z.ltb_lt; unfold isdigit in *; lia). }
  rewrite V. f_equal. unfold instant_of, us_per_sec. rewrite (days_from_civil_spec y mo d Ybound Hm).
  unfold unix_epoch_days, unix_epoch_us. lia.
Qed.

(* ---- the converse: every canonical text (year >= 1, at most six fraction digits, a real date and
   time of day) is accepted ---- *)

Lemma frac_digits_text : forall ds n acc scale seen, Forall isdigit ds -> (length ds <= n)%nat ->
  (seen = true \/ ds <> []) ->
  exists us, F.frac_digits n (text_of ds ++ [90%N]) acc scale seen = Some (us, [90%N]).
Proof.
  induction ds as [|d ds IH]; intros n acc scale seen HF Hl Hs.
  - destruct Hs as [-> | Hs]; [|contradiction]. exists acc. destruct n; reflexivity.
  - inversion HF; subst. destruct n as [|n]; [simpl in Hl; lia|].
    simpl text_of. simpl app. cbn [F.frac_digits]. rewrite digit_sdigit. rewrite (sdigit_dchar d H1).
    apply IH; auto. simpl in Hl. lia.
Qed.

Theorem canonical_strings_accepted : forall s secs ds y r,
  spec_read s = Some (secs, ds) -> (length ds <= 6)%nat ->
  read_num 4 s 0 = Some (y, r) -> 1 <= y ->
  exists t, F.parse_ts s = Some t.
Proof.
  intros s secs ds y r H Hl Ey Hy. unfold spec_read in H.
  destruct (read_shape s) as [rd|] eqn:R; [|discriminate].
  destruct (valid_date (r_y rd) (r_mo rd) (r_d rd) && (r_h rd <? 24) && (r_mi rd <? 60) && (r_s rd <? 60)) eqn:V; [|discriminate].
  inversion H; subst; clear H.
  unfold read_shape in R. rewrite Ey in R.
  destruct (expect 45 r) as [s2|] eqn:E2; [|discriminate].
  destruct (read_num 2 s2 0) as [[mo s3]|] eqn:Emo; [|discriminate].
  destruct (expect 45 s3) as [s4|] eqn:E4; [|discriminate].
  destruct (read_num 2 s4 0) as [[d s5]|] eqn:Ed; [|discriminate].
  destruct (expect 84 s5) as [s6|] eqn:E6; [|discriminate].
  destruct (read_num 2 s6 0) as [[h s7]|] eqn:Eh; [|discriminate].
  destruct (expect 58 s7) as [s8|] eqn:E8; [|discriminate].
  destruct (read_num 2 s8 0) as [[mi s9]|] eqn:Emi; [|discriminate].
  destruct (expect 58 s9) as [s10|] eqn:E10; [|discriminate].
  destruct (read_num 2 s10 0) as [[se s11]|] eqn:Ese; [|discriminate].
  destruct (read_tail s11) as [fr|] eqn:Et; [|discriminate].
  inversion R; subst rd; clear R. cbn [r_y r_mo r_d r_h r_mi r_s r_frac] in *.
  repeat (apply andb_true_iff in V; destruct V as [V ?]).
  pose proof (read_num_bound _ _ _ _ _ Ey (Z.le_refl 0)) as By. change (10 ^ Z.of_nat 4) with 10000 in By.
  pose proof (read_num_bound _ _ _ _ _ Eh (Z.le_refl 0)) as Bh.
  pose proof (read_num_bound _ _ _ _ _ Emi (Z.le_refl 0)) as Bmi.
  pose proof (read_num_bound _ _ _ _ _ Ese (Z.le_refl 0)) as Bse.
  assert (Hyb : 1 <= y <= 9999) by lia.
  unfold valid_date in V. repeat (apply andb_true_iff in V; destruct V as [V ?]).
  repeat match goal with Hx : (_ <=? _) = true |- _ => apply Z.leb_le in Hx end.
  repeat match goal with Hx : (_ <? _) = true |- _ => apply Z.ltb_lt in Hx end.
  assert (Hm : 1 <= mo <= 12) by lia.
  destruct (ym_fact y mo Hyb Hm) as [_ Hdm].
  assert (Hcond : (1 <=? y) && (1 <=? mo) && (mo <=? 12) && (1 <=? d) && (d <=? F.days_in_month y mo)
                  && (h <=? 23) && (mi <=? 59) && (se <=? 59) = true).
  { rewrite Hdm. repeat (apply andb_true_iff; split); apply Z.leb_le; lia. }
  assert (Htail : exists t, tail_of y mo d h mi se s11 = Some t).
  { unfold read_tail in Et. destruct s11 as [|c s']; try discriminate.
    destruct (N.eq_dec c 46) as [-> | Hc].
    - destruct (read_frac s') as [[|f0 fr0]|] eqn:Rf; try discriminate. inversion Et; subst fr.
      apply read_frac_inv in Rf. destruct Rf as [-> HF].
      destruct (frac_digits_text (f0 :: fr0) 6 0 100000 false HF Hl) as [us Hus]; [right; discriminate|].
      unfold tail_of. rewrite Hus. unfold fin_of. rewrite Hcond. eauto.
    - assert (Hz : c :: s' = [90%N]).
      { destruct c as [|p]; try discriminate. do 7 (try (destruct p as [p|p|]; try discriminate)).
        all: try (exfalso; apply Hc; reflexivity). all: destruct s'; try discriminate; reflexivity. }
      rewrite Hz. unfold tail_of, fin_of. rewrite Hcond. eauto. }
  destruct Htail as [t Ht]. exists t. unfold F.parse_ts.
  rewrite !digits_read_num. rewrite Ey. rewrite expect_same, E2. rewrite digits_read_num, Emo. rewrite expect_same, E4.
  rewrite digits_read_num, Ed. rewrite expect_same, E6. rewrite digits_read_num, Eh. rewrite expect_same, E8.
  rewrite digits_read_num, Emi. rewrite expect_same, E10. rewrite digits_read_num, Ese. exact Ht.
Qed.

(* Proofs/DispatchFacts.v -- facts about the parameter-flow model of
   Model/Dispatch.v, for an ARBITRARY call-site table:
   - the boolean equalities decide equality;
   - a set of states that contains the initial state and is closed under the
     successor function contains every state reachable along ANY chain of call
     sites, of any length (so the kernel-evaluated `closedb` check lifts a
     finite exploration to all call chains, recursion included);
   - every state the exploration returns is reachable (used for the
     refutation direction);
   - a symbolic value whose roots do not mention the version argument
     evaluates to the same concrete value whatever version is passed.         *)
From Coq Require Import String List Bool Ascii.
From V Require Import Model.CallTable Model.Dispatch.
Import ListNotations.
Open Scope string_scope.

(* ---- boolean equalities ---- *)
Lemma slist_eqb_eq : forall a b, slist_eqb a b = true <-> a = b.
Proof.
  induction a as [|x a IH]; destruct b as [|y b]; simpl; split; intro H; try congruence; try discriminate.
  - apply andb_true_iff in H as [H1 H2]. apply String.eqb_eq in H1. apply IH in H2. congruence.
  - inversion H; subst. apply andb_true_iff. split. apply String.eqb_refl. apply IH. reflexivity.
Qed.

Lemma sym_eqb_eq : forall a b, sym_eqb a b = true <-> a = b.
Proof.
  destruct a, b; simpl; split; intro H; try discriminate; try congruence.
  all: try (apply String.eqb_eq in H; congruence).
  all: try (inversion H; subst; apply String.eqb_refl).
  - apply andb_true_iff in H as [H1 H2]. apply String.eqb_eq in H1. apply slist_eqb_eq in H2. congruence.
  - inversion H; subst. apply andb_true_iff. split. apply String.eqb_refl. apply slist_eqb_eq. reflexivity.
Qed.

Lemma env_eqb_eq : forall a b, env_eqb a b = true <-> a = b.
Proof.
  induction a as [|[k v] a IH]; destruct b as [|[k' v'] b]; simpl; split; intro H; try congruence; try discriminate.
  - apply andb_true_iff in H as [H12 H3]. apply andb_true_iff in H12 as [H1 H2].
    apply String.eqb_eq in H1. apply sym_eqb_eq in H2. apply IH in H3. congruence.
  - inversion H; subst. rewrite String.eqb_refl. simpl.
    assert (sym_eqb v' v' = true) as -> by (apply sym_eqb_eq; reflexivity). simpl. apply IH. reflexivity.
Qed.

Lemma state_eqb_eq : forall a b, state_eqb a b = true <-> a = b.
Proof.
  intros [f c e s] [f' c' e' s']. unfold state_eqb. simpl. split; intro H.
  - apply andb_true_iff in H as [H123 H4]. apply andb_true_iff in H123 as [H12 H3].
    apply andb_true_iff in H12 as [H1 H2].
    apply String.eqb_eq in H1, H2. apply env_eqb_eq in H3, H4. congruence.
  - inversion H; subst. rewrite !String.eqb_refl. simpl.
    assert (env_eqb e' e' = true) as -> by (apply env_eqb_eq; reflexivity).
    assert (env_eqb s' s' = true) as -> by (apply env_eqb_eq; reflexivity). reflexivity.
Qed.

Lemma state_mem_In : forall s l, state_mem s l = true <-> In s l.
Proof.
  intros s l. unfold state_mem. rewrite existsb_exists. split.
  - intros [x [Hin Heq]]. apply state_eqb_eq in Heq. subst. exact Hin.
  - intro Hin. exists s. split. exact Hin. apply state_eqb_eq. reflexivity.
Qed.

Lemma smem_In : forall x l, smem x l = true <-> In x l.
Proof.
  intros x l. unfold smem. rewrite existsb_exists. split.
  - intros [y [Hin Heq]]. apply String.eqb_eq in Heq. subst. exact Hin.
  - intro Hin. exists x. split. exact Hin. apply String.eqb_refl.
Qed.

(* ---- reachability along arbitrary chains of call sites ---- *)
Inductive reachable (T : table) (s0 : state) : state -> Prop :=
| reach_refl : reachable T s0 s0
| reach_step : forall s1 id s2, reachable T s0 s1 -> In (id, s2) (succs T s1) -> reachable T s0 s2.

Lemma closed_invariant : forall T S s0,
  closedb T S = true -> In s0 S -> forall s, reachable T s0 s -> In s S.
Proof.
  intros T S s0 Hc H0 s Hr. induction Hr as [|s1 id s2 Hr IH Hstep].
  - exact H0.
  - unfold closedb in Hc. rewrite forallb_forall in Hc. specialize (Hc s1 IH).
    rewrite forallb_forall in Hc. specialize (Hc (id, s2) Hstep). simpl in Hc.
    apply state_mem_In in Hc. exact Hc.
Qed.

Lemma explore_sound : forall T s0 fuel frontier seen,
  (forall x, In x frontier -> reachable T s0 (fst x)) ->
  (forall x, In x seen -> reachable T s0 (fst x)) ->
  forall x, In x (explore T fuel frontier seen) -> reachable T s0 (fst x).
Proof.
  intros T s0. induction fuel as [|f IH]; intros frontier seen Hf Hs x Hx; simpl in Hx.
  - apply Hs. exact Hx.
  - destruct frontier as [|[st ch] rest].
    + apply Hs. exact Hx.
    + destruct (state_mem st (map fst seen)).
      * apply (IH rest seen); auto. intros y Hy. apply Hf. right. exact Hy.
      * apply (IH _ _) in Hx; auto.
        -- intros y Hy. apply in_app_or in Hy as [Hy|Hy].
           ++ apply Hf. right. exact Hy.
           ++ apply in_map_iff in Hy as [[id st'] [Heq Hin]]. subst y. simpl.
              apply (reach_step T s0 st id st').
              ** apply (Hf (st, ch)). left. reflexivity.
              ** exact Hin.
        -- intros y Hy. apply in_app_or in Hy as [Hy|Hy].
           ++ apply Hs. exact Hy.
           ++ destruct Hy as [Hy|[]]. subst y. simpl. apply (Hf (st, ch)). left. reflexivity.
Qed.

Lemma reach_reachable : forall T E x, In x (reach T E) -> reachable T (e_init E) (fst x).
Proof.
  intros T E x. unfold reach. generalize fuel0. intros n Hx.
  refine (explore_sound T (e_init E) n [(e_init E, [])] [] _ _ x Hx).
  - intros y [Hy|[]]. subst y. simpl. constructor.
  - intros y [].
Qed.

(* ---- the per-entry boolean check and what it means ---- *)
Definition entry_check (T : table) (E : entry) : bool :=
  entry_closed T E && state_mem (e_init E) (map fst (reach T E)) && entry_good T E.

Lemma entry_check_all_chains : forall T E, entry_check T E = true ->
  forall s, reachable T (e_init E) s ->
    wellformed s = true /\ (is_terminal s = true -> terminal_ok E s = true).
Proof.
  intros T E. unfold entry_check, entry_good, entry_closed. generalize (reach T E). intros R H s Hr.
  apply andb_true_iff in H as [H12 Hg]. apply andb_true_iff in H12 as [Hc Hi].
  apply state_mem_In in Hi.
  pose proof (closed_invariant T _ _ Hc Hi s Hr) as Hin.
  apply in_map_iff in Hin as [x [Hx Hinx]]. subst s.
  rewrite forallb_forall in Hg. specialize (Hg x Hinx).
  apply andb_true_iff in Hg as [Hw Ht]. split. exact Hw.
  intro Hterm. rewrite Hterm in Ht. exact Ht.
Qed.

Lemma terminal_ok_version : forall E t, terminal_ok E t = true -> got t "version" = SArg "version".
Proof.
  intros E t H. unfold terminal_ok in H. apply andb_true_iff in H as [H12 _]. apply andb_true_iff in H12 as [H1 _].
  apply sym_eqb_eq in H1. exact H1.
Qed.

Lemma terminal_ok_interop : forall E t, terminal_ok E t = true -> got t "interoperability" = interop_expected E.
Proof.
  intros E t H. unfold terminal_ok in H. apply andb_true_iff in H as [H12 _]. apply andb_true_iff in H12 as [_ H2].
  apply sym_eqb_eq in H2. exact H2.
Qed.

Lemma interop_expected_not_version : forall E, ~ In "arg:version" (roots (interop_expected E)).
Proof.
  intro E. unfold interop_expected. destruct (smem "interoperability" (e_own E)); simpl.
  - intros [H|[]]. discriminate H.
  - intros [].
Qed.

Lemma terminal_ok_allow : forall E t, terminal_ok E t = true ->
  (forall r, In r (roots (got t "allow_custom")) -> In r own_allow) /\
  (forall x, allow_expected E = Some x -> got t "allow_custom" = x).
Proof.
  intros E t H. unfold terminal_ok in H. apply andb_true_iff in H as [_ H3].
  unfold allow_ok in H3. apply andb_true_iff in H3 as [Hr He]. split.
  - intros r Hin. unfold allow_roots_ok in Hr. rewrite forallb_forall in Hr. apply smem_In. apply Hr. exact Hin.
  - intros x Hx. rewrite Hx in He. apply sym_eqb_eq in He. exact He.
Qed.

(* ---- the refutation direction: a name listed by `refuted` has a reachable failing state ---- *)
Definition fails (E : entry) (s : state) : Prop :=
  wellformed s = false \/ (is_terminal s = true /\ terminal_ok E s = false).

Lemma bad_reaches_fail : forall T E x, In x (bad_reaches T E) -> reachable T (e_init E) (fst x) /\ fails E (fst x).
Proof.
  intros T E x. unfold bad_reaches. intro Hx. apply filter_In in Hx as [Hin Hbad]. split.
  - apply reach_reachable. exact Hin.
  - unfold fails. apply orb_true_iff in Hbad as [Hb|Hb].
    + left. apply negb_true_iff in Hb. exact Hb.
    + right. apply andb_true_iff in Hb as [Ht Hn]. apply negb_true_iff in Hn. split; assumption.
Qed.

Lemma refuted_has_failing_state : forall T n site, In (n, site) (refuted T) ->
  exists E s, In E (entries T) /\ e_name E = n /\ reachable T (e_init E) s /\ fails E s.
Proof.
  intros T n site H. unfold refuted in H.
  apply in_flat_map in H as [E [HE H]].
  apply in_flat_map in H as [x [Hx H]].
  apply in_map_iff in H as [id [Heq _]]. inversion Heq; subst.
  destruct (bad_reaches_fail T E x Hx) as [Hr Hf].
  exists E, (fst x). repeat split; auto.
Qed.

(* ---- concrete evaluation does not read the version argument unless the roots say so ---- *)
Lemma eval_sym_version_independent : forall E cargs v v' s,
  ~ In "arg:version" (roots s) ->
  eval_sym E (("arg:version", v) :: cargs) s = eval_sym E (("arg:version", v') :: cargs) s.
Proof.
  intros E cargs v v' s Hn. destruct s as [p|p|c|t rs]; try reflexivity.
  - simpl. destruct (String.eqb p "version") eqn:He.
    + apply String.eqb_eq in He. subst p. exfalso. apply Hn. simpl. left. reflexivity.
    + reflexivity.
Qed.

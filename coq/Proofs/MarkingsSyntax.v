(* Proofs/MarkingsSyntax.v -- the model's recogniser for SELECTOR_REGEX
   (selector_syntax_ok) accepts exactly the strings of the selector grammar of
   Spec/MarkingSpec.v (C08, theorem selector_syntax). *)
From Coq Require Import String.
From Coq Require Import NArith ZArith List Bool Arith Lia.
From V Require Import Base.UString Model.Markings Spec.MarkingSpec Proofs.MarkingsC08.
Import ListNotations.

Definition nodot (s : ustring) : Prop := Forall (fun x => x <> dot) s.
Definition nonl (s : ustring) : Prop := Forall (fun x => x <> 10%N) s.

(* ---------------------------------------------------------------- *)
(* split('.') and '.'.join                                           *)

Lemma split_aux_nonempty : forall s cur, split_dot_aux s cur <> [].
Proof.
  induction s as [|x s IH]; intro cur; simpl; [discriminate|].
  destruct (x =? dot)%N; [discriminate | apply IH].
Qed.

Lemma join_dot_cons : forall a l, l <> [] -> join_dot (a :: l) = a ++ dot :: join_dot l.
Proof. intros a l H. destruct l; [congruence | reflexivity]. Qed.

Lemma join_split_aux : forall s cur, join_dot (split_dot_aux s cur) = rev cur ++ s.
Proof.
  induction s as [|x s IH]; intro cur; simpl.
  - rewrite app_nil_r. reflexivity.
  - destruct (x =? dot)%N eqn:E.
    + apply N.eqb_eq in E. subst x. rewrite join_dot_cons by apply split_aux_nonempty.
      rewrite IH. reflexivity.
    + rewrite IH. simpl. rewrite <- app_assoc. reflexivity.
Qed.

Lemma join_split : forall s, join_dot (split_dot s) = s.
Proof. intro s. unfold split_dot. rewrite join_split_aux. reflexivity. Qed.

Lemma split_aux_nodot : forall s cur, nodot s -> split_dot_aux s cur = [rev cur ++ s].
Proof.
  induction s as [|x s IH]; intros cur H; simpl.
  - rewrite app_nil_r. reflexivity.
  - inversion H; subst. destruct (x =? dot)%N eqn:E.
    + apply N.eqb_eq in E. contradiction.
    + rewrite IH by assumption. simpl. rewrite <- app_assoc. reflexivity.
Qed.

Lemma split_aux_app : forall a b cur, nodot a ->
  split_dot_aux (a ++ dot :: b) cur = (rev cur ++ a) :: split_dot_aux b [].
Proof.
  induction a as [|x a IH]; intros b cur H; simpl.
  - try rewrite N.eqb_refl. rewrite app_nil_r. reflexivity.
  - inversion H; subst. destruct (x =? dot)%N eqn:E.
    + apply N.eqb_eq in E. contradiction.
    + rewrite IH by assumption. simpl. rewrite <- app_assoc. reflexivity.
Qed.

Lemma split_join : forall segs, segs <> [] -> Forall nodot segs -> split_dot (join_dot segs) = segs.
Proof.
  induction segs as [|a segs IH]; intros Hne HF; [congruence|].
  inversion HF; subst. destruct segs as [|b segs].
  - simpl. unfold split_dot. rewrite split_aux_nodot by assumption. reflexivity.
  - rewrite join_dot_cons by discriminate. unfold split_dot. rewrite split_aux_app by assumption.
    simpl rev. simpl app at 1. f_equal. apply IH; [discriminate | assumption].
Qed.

(* ---------------------------------------------------------------- *)
(* the `$` rule: one trailing newline is tolerated                    *)

Lemma strip_nonl : forall s, nonl s -> strip_final_newline s = s.
Proof.
  intros s H. unfold strip_final_newline. destruct (rev s) as [|x r] eqn:E; [reflexivity|].
  assert (Hin : In x s) by (apply in_rev; rewrite E; left; reflexivity).
  unfold nonl in H. rewrite Forall_forall in H. specialize (H _ Hin).
  destruct x as [|p]; [reflexivity|].
  do 4 (destruct p as [p|p|]; try reflexivity). congruence.
Qed.

Lemma strip_app_nl : forall s, strip_final_newline (s ++ [10%N]) = s.
Proof. intro s. unfold strip_final_newline. rewrite rev_app_distr. simpl. apply rev_involutive. Qed.

Lemma strip_cases : forall s, strip_final_newline s = s \/ s = strip_final_newline s ++ [10%N].
Proof.
  intro s. unfold strip_final_newline. destruct (rev s) as [|x r] eqn:E; [left; reflexivity|].
  destruct (N.eq_dec x 10) as [H|H].
  - subst x. right. rewrite <- (rev_involutive s). rewrite E. simpl. reflexivity.
  - left. destruct x as [|p]; [reflexivity|].
    do 4 (destruct p as [p|p|]; try reflexivity). congruence.
Qed.

(* ---------------------------------------------------------------- *)
(* character classes                                                 *)

Lemma is_lower_key_char_iff : forall x, is_lower_key_char x = true <-> lower_key_char x.
Proof.
  intro x. unfold is_lower_key_char, lower_key_char.
  rewrite !orb_true_iff, !andb_true_iff, !N.leb_le, !N.eqb_eq. tauto.
Qed.

Lemma is_upper_iff : forall x, is_upper x = true <-> upper_char x.
Proof. intro x. unfold is_upper, upper_char. rewrite andb_true_iff, !N.leb_le. tauto. Qed.

Lemma is_digit_iff : forall x, is_digit x = true <-> digit_char x.
Proof.
  intro x. unfold is_digit, digit_char. rewrite existsb_exists. split.
  - intros [r [H1 H2]]. exists r. split; auto. apply andb_true_iff in H2. rewrite !N.leb_le in H2. exact H2.
  - intros [r [H1 H2]]. exists r. split; auto. apply andb_true_iff. rewrite !N.leb_le. exact H2.
Qed.

Lemma nd_ranges_above_slash : forallb (fun r => (48 <=? fst r)%N) nd_ranges = true.
Proof. vm_compute. reflexivity. Qed.

Lemma digit_char_ge : forall x, digit_char x -> (48 <= x)%N.
Proof.
  intros x [r [H1 H2]]. pose proof nd_ranges_above_slash as H. rewrite forallb_forall in H.
  specialize (H r H1). apply N.leb_le in H. lia.
Qed.

Definition upper_of (c : cfg) : bool := syntax_upper (c_syntax c).
Definition dollar_of (c : cfg) : bool := syntax_dollar (c_syntax c).

Lemma key_chars_ok_iff : forall c first s,
  key_chars_ok c first s = true <->
  Forall (fun x => lower_key_char x \/ ((upper_of c && negb first) = true /\ upper_char x)) s.
Proof.
  intros c first s. unfold key_chars_ok. rewrite forallb_forall, Forall_forall. fold (upper_of c).
  split; intros H x Hx; specialize (H x Hx).
  - apply orb_true_iff in H. destruct H as [H|H].
    + left. apply is_lower_key_char_iff. exact H.
    + right. apply andb_true_iff in H. destruct H as [H1 H2]. split; [exact H1|]. apply is_upper_iff. exact H2.
  - apply orb_true_iff. destruct H as [H|[H1 H2]].
    + left. apply is_lower_key_char_iff. exact H.
    + right. rewrite H1. apply is_upper_iff in H2. rewrite H2. reflexivity.
Qed.

Lemma seg_first_ok_iff : forall c s, seg_first_ok c s = true <-> key_seg false 3 250 s.
Proof.
  intros c s. unfold seg_first_ok, key_seg. rewrite !andb_true_iff, key_chars_ok_iff, !Nat.leb_le.
  rewrite andb_false_r. split.
  - intros [[H1 H2] H3]. split; [lia|]. eapply Forall_impl; [|exact H1].
    intros x [H|[H _]]; [left; exact H | discriminate].
  - intros [H1 H2]. split; [split; [|lia] | lia]. eapply Forall_impl; [|exact H2].
    intros x [H|[H _]]; [left; exact H | discriminate].
Qed.

Lemma key_rest_ok_iff : forall c s,
  (key_chars_ok c false s && (1 <=? List.length s) && (List.length s <=? 250)) = true <-> key_seg (upper_of c) 1 250 s.
Proof.
  intros c s. unfold key_seg. rewrite !andb_true_iff, key_chars_ok_iff, !Nat.leb_le.
  rewrite andb_true_r. split.
  - intros [[H1 H2] H3]. split; [lia | exact H1].
  - intros [H1 H2]. split; [split; [exact H2 | lia] | lia].
Qed.

Lemma forallb_rev : forall {A} (f : A -> bool) l, forallb f (rev l) = forallb f l.
Proof.
  intros A f l. induction l as [|x l IH]; [reflexivity|]. simpl. rewrite forallb_app. simpl.
  rewrite IH. rewrite andb_true_r. apply andb_comm.
Qed.

Lemma seg_index_ok_iff : forall s, seg_index_ok s = true <-> index_seg s.
Proof.
  intro s. unfold seg_index_ok, index_seg. split.
  - destruct s as [|x rest]; [discriminate|].
    destruct (N.eq_dec x 91) as [E|E].
    2:{ intro H. exfalso. destruct x as [|p]; [discriminate|].
        do 7 (destruct p as [p|p|]; try discriminate). congruence. }
    subst x. destruct (rev rest) as [|y dr] eqn:R; [discriminate|].
    destruct (N.eq_dec y 93) as [E|E].
    2:{ intro H. exfalso. destruct y as [|p]; [discriminate|].
        do 7 (destruct p as [p|p|]; try discriminate). congruence. }
    subst y. intro H. apply andb_true_iff in H. destruct H as [H1 H2].
    exists (rev dr). split; [|split].
    + destruct dr; [discriminate|]. simpl. intro E. apply app_eq_nil in E. destruct E; discriminate.
    + rewrite <- forallb_rev in H1. rewrite forallb_forall in H1. rewrite Forall_forall.
      intros x Hx. apply is_digit_iff. auto.
    + f_equal. rewrite <- (rev_involutive rest). rewrite R. reflexivity.
  - intros [ds [Hne [HF E]]]. subst s. rewrite rev_app_distr. simpl.
    apply andb_true_iff. split.
    + rewrite forallb_rev. rewrite forallb_forall. rewrite Forall_forall in HF.
      intros x Hx. apply is_digit_iff. auto.
    + destruct (rev ds) eqn:R; [|reflexivity]. exfalso. apply Hne.
      rewrite <- (rev_involutive ds). rewrite R. reflexivity.
Qed.

Lemma seg_rest_ok_iff : forall c s, seg_rest_ok c s = true <-> index_seg s \/ key_seg (upper_of c) 1 250 s.
Proof. intros c s. unfold seg_rest_ok. rewrite orb_true_iff, seg_index_ok_iff, key_rest_ok_iff. tauto. Qed.

(* ---------------------------------------------------------------- *)
(* no segment of the grammar contains '.' or a newline               *)

Lemma lower_key_char_plain : forall x, lower_key_char x -> x <> dot /\ x <> 10%N.
Proof. intros x H. unfold lower_key_char in H. unfold dot. lia. Qed.

Lemma key_seg_plain : forall b lo hi s, key_seg b lo hi s -> nodot s /\ nonl s.
Proof.
  intros b lo hi s [_ H]. unfold nodot, nonl. split; eapply Forall_impl; try exact H; intros x [Hx|[_ Hx]];
    try (apply lower_key_char_plain in Hx; tauto); unfold upper_char in Hx; unfold dot; lia.
Qed.

Lemma index_seg_plain : forall s, index_seg s -> nodot s /\ nonl s.
Proof.
  intros s [ds [_ [HF E]]]. subst s. unfold nodot, nonl.
  assert (Hd : Forall (fun x => x <> dot /\ x <> 10%N) ds).
  { eapply Forall_impl; [|exact HF]. intros x Hx. apply digit_char_ge in Hx. unfold dot. lia. }
  split.
  - constructor; [unfold dot; lia|]. apply Forall_app. split.
    + eapply Forall_impl; [|exact Hd]. intros x Hx. simpl in Hx. destruct Hx; assumption.
    + constructor; [unfold dot; lia | constructor].
  - constructor; [lia|]. apply Forall_app. split.
    + eapply Forall_impl; [|exact Hd]. intros x Hx. simpl in Hx. destruct Hx; assumption.
    + constructor; [lia | constructor].
Qed.

Lemma nonl_join : forall segs, Forall nonl segs -> nonl (join_dot segs).
Proof.
  induction segs as [|a segs IH]; intro H; [constructor|]. inversion H; subst.
  destruct segs as [|b segs]; [assumption|]. rewrite join_dot_cons by discriminate.
  unfold nonl. apply Forall_app. split; [assumption|]. constructor; [unfold dot; lia|]. apply IH. assumption.
Qed.

(* ---------------------------------------------------------------- *)
(* the recogniser without the newline rule                           *)

Definition core_ok (c : cfg) (s : ustring) : bool :=
  ustr_eqb s (u "id") ||
  match split_dot s with
  | first :: rest => seg_first_ok c first && forallb (seg_rest_ok c) rest
  | [] => false
  end.

Lemma syntax_ok_core : forall c s,
  selector_syntax_ok c s = core_ok c (if dollar_of c then strip_final_newline s else s).
Proof. reflexivity. Qed.

Lemma core_ok_iff : forall c s, core_ok c s = true <-> selector_grammar (upper_of c) s.
Proof.
  intros c s. unfold core_ok, selector_grammar. rewrite orb_true_iff. split.
  - intros [H|H].
    + left. apply ustr_eqb_eq in H. exact H.
    + right. destruct (split_dot s) as [|first rest] eqn:E; [discriminate|].
      apply andb_true_iff in H. destruct H as [H1 H2]. exists first, rest.
      split; [apply (seg_first_ok_iff c); exact H1|]. split.
      * rewrite forallb_forall in H2. rewrite Forall_forall. intros g Hg. apply seg_rest_ok_iff. auto.
      * rewrite <- E. symmetry. apply join_split.
  - intros [H|[first [rest [H1 [H2 E]]]]].
    + left. subst s. reflexivity.
    + right. subst s. rewrite split_join.
      * apply andb_true_iff. split; [apply seg_first_ok_iff; exact H1|].
        rewrite forallb_forall. rewrite Forall_forall in H2. intros g Hg. apply seg_rest_ok_iff. auto.
      * discriminate.
      * constructor; [apply (key_seg_plain _ _ _ _ H1)|].
        eapply Forall_impl; [|exact H2]. intros g [Hg|Hg];
          [apply (index_seg_plain _ Hg) | apply (key_seg_plain _ _ _ _ Hg)].
Qed.

Lemma grammar_nonl : forall b s, selector_grammar b s -> nonl s.
Proof.
  intros b s [H|[first [rest [H1 [H2 E]]]]].
  - subst s. repeat constructor; lia.
  - subst s. apply nonl_join. constructor; [apply (key_seg_plain _ _ _ _ H1)|].
    eapply Forall_impl; [|exact H2]. intros g [Hg|Hg];
      [apply (index_seg_plain _ Hg) | apply (key_seg_plain _ _ _ _ Hg)].
Qed.

(* `$` variants: the grammar, possibly followed by one newline; \Z variants: the grammar exactly *)
Theorem selector_syntax : forall c s,
  selector_syntax_ok c s = true <->
  if dollar_of c then selector_text (upper_of c) s else selector_grammar (upper_of c) s.
Proof.
  intros c s. rewrite syntax_ok_core. rewrite core_ok_iff. destruct (dollar_of c); [|tauto].
  unfold selector_text. split.
  - intro H. destruct (strip_cases s) as [E|E].
    + left. rewrite E in H. exact H.
    + right. exists (strip_final_newline s). split; assumption.
  - intros [H|[s' [E H]]].
    + rewrite strip_nonl; [exact H | eapply grammar_nonl; exact H].
    + subst s. rewrite strip_app_nl. exact H.
Qed.

(* sanity: the grammar is inhabited and is not everything *)
Lemma selector_syntax_examples :
  selector_syntax_ok cfg_pinned (u "external_references.[0].url") = true /\
  selector_syntax_ok cfg_pinned (u "id") = true /\
  selector_syntax_ok cfg_pinned (u "ab") = false /\
  selector_syntax_ok cfg_pinned (u "labels.[x]") = false /\
  selector_syntax_ok cfg_pinned (u "labels..a") = false /\
  selector_syntax_ok cfg_pinned (u "x_m.Bar") = false /\
  selector_syntax_ok cfg_repaired (u "x_m.Bar") = true /\
  selector_syntax_ok cfg_pinned (10%N :: rev (10%N :: rev (u "name"))) = false /\
  selector_syntax_ok cfg_pinned (rev (10%N :: rev (u "name"))) = true /\
  selector_syntax_ok cfg_repaired (rev (10%N :: rev (u "name"))) = false.
Proof. vm_compute. repeat split. Qed.

(* Proofs/SchemaCovRef.v -- C02 coverage extension, identifier-valued kinds: per-kind soundness of
   IDProperty (KId) and ReferenceProperty (KRef) in strict, non-interoperability mode, in the statement
   shape of Proofs/SchemaLeaf.v (sound_at).  ReferenceProperty: with allow_custom=False the
   white/black-list is never inverted, the referenced type must be registered (else the value is
   flagged custom and refused), so the type name is one the specification registers too.          *)
From Coq Require Import NArith ZArith List String Bool Lia.
From V Require Import Base.UString Base.Json Model.SchemaTypes Model.PyBase Model.Schema
     Spec.StixValid Spec.SchemaRefine Proofs.SchemaBasics Proofs.SchemaScope Proofs.SchemaUuid Proofs.SchemaLeaf.
Import ListNotations.

Local Arguments u : simpl never.

Lemma assoc_In k m v : assoc k m = Some v -> In (k, v) m.
Proof.
  induction m as [|[k' v'] m IH]; simpl; intros H; try discriminate.
  destruct (ustr_eqb k k') eqn:E.
  - apply ustr_eqb_eq in E. inversion H; subst. auto.
  - auto.
Qed.

Lemma validate_id_none_valid vr s v :
  vr_uuid_canon vr = true -> validate_id vr s v None false = Ok tt ->
  exists rest, snd (split_dashdash s) = Some rest /\ valid_uuid_text v rest = true.
Proof.
  intros Hc H. unfold validate_id in H. destruct (split_dashdash s) as [t [rest|]]; try discriminate.
  destruct (check_uuid vr rest v false) as [[|]| |] eqn:E; try discriminate.
  exists rest. split; auto. eapply check_uuid_valid; eauto.
Qed.

Section CovRef.
  Variable vr : variant.
  Variables w sp : world.
  Variable pok : ver -> ustring -> bool.
  Variable rc : ustring -> bool -> bool -> list (ustring * jvalue) -> result pval.
  Variable rp : bool -> bool -> list (ustring * jvalue) -> result pval.
  Variable ro : ver -> list (ustring * ustring) -> bool -> list (ustring * jvalue) -> result pval.

  Notation SA := (sound_at vr w sp pok rc rp ro).

  Hypothesis Huuid : vr_uuid_canon vr = true.

  (* ---- IDProperty ---- *)
  Lemma cov_sound_id p v p' v' :
    ustr_eqb p p' = true -> ver_eqb v v' = true -> SA (KId p v) (KId p' v').
  Proof.
    intros Ep Ev x pv hc n H. apply ustr_eqb_eq in Ep. apply ver_eqb_eq in Ev. subst p' v'.
    cbn [clean_kind] in H. destruct x; try discriminate. inv_bind H. destruct a. inversion Hb; subst.
    split; [auto|split; [exact I|]]. change (valid_id v (Some p) s = true). eapply validate_id_valid; eauto.
  Qed.

  (* ---- ReferenceProperty ---- *)
  Hypothesis Href : world_refines w sp = true.

  Lemma reg_eq v : reg_of w v = reg_of sp v.
  Proof. apply world_refines_reg_of. exact Href. Qed.

  Lemma is_sdo_spec t v : is_sdo w t v = s_is_sdo sp t v.
  Proof. unfold is_sdo, s_is_sdo, s_reg. rewrite reg_eq. reflexivity. Qed.

  Lemma is_sco_spec t v : is_sco w t v = s_is_sco sp t v.
  Proof. unfold is_sco, s_is_sco, s_reg. rewrite reg_eq. reflexivity. Qed.

  Lemma is_stix_type_spec t v gs : is_stix_type w t v gs = existsb (s_in_generic sp t v) gs.
  Proof.
    unfold is_stix_type. induction gs as [|g gs IH]; simpl; auto. rewrite IH. f_equal.
    unfold s_in_generic. rewrite is_sdo_spec, is_sco_spec. reflexivity.
  Qed.

  Lemma is_object_spec t v : is_object w t v = s_known_type sp t v.
  Proof.
    unfold is_object, s_known_type, s_reg. rewrite reg_eq.
    destruct (assoc t (robservables (reg_of sp v))), (assoc t (robjects (reg_of sp v))); reflexivity.
  Qed.

  Lemma known_type_name t v : s_known_type sp t v = true -> valid_type_name t = true.
  Proof.
    unfold s_known_type, s_reg. intros H.
    pose proof (world_refines_names _ _ v Href) as Hn. unfold reg_names_ok in Hn.
    apply andb_true_iff in Hn. destruct Hn as [Ho Hb]. rewrite forallb_forall in Ho, Hb.
    destruct (assoc t (robjects (reg_of sp v))) as [c|] eqn:E1.
    - apply assoc_In in E1. apply (Ho _ E1).
    - destruct (assoc t (robservables (reg_of sp v))) as [c|] eqn:E2; try discriminate.
      apply assoc_In in E2. apply (Hb _ E2).
  Qed.

  Lemma existsb_subset (f : ustring -> bool) a b : usubset a b = true -> existsb f a = true -> existsb f b = true.
  Proof.
    unfold usubset. intros Hs H. apply existsb_exists in H. destruct H as [x [Hin Hx]].
    rewrite forallb_forall in Hs. apply existsb_exists. exists x. split; auto. apply mem_ustr_In. auto.
  Qed.

  Lemma cov_sound_ref wh g s v wh' g' s' v' :
    kind_refines (KRef wh g s v) (KRef wh' g' s' v') = true -> SA (KRef wh g s v) (KRef wh' g' s' v').
  Proof.
    intros Hr x pv hc n H. simpl in Hr.
    apply andb_true_iff in Hr. destruct Hr as [Hr Hsub]. apply andb_true_iff in Hr. destruct Hr as [Hw Hv].
    apply ver_eqb_eq in Hv. subst v'. apply eqb_prop in Hw. subst wh'.
    cbn [clean_kind] in H. unfold clean_reference in H. inv_bind H. inv_bind Hb. destruct a0.
    cbn [andb] in Hbb.
    destruct (validate_id_none_valid _ _ _ Huuid Hba) as [rest [Hsplit Hu]].
    set (t := fst (split_dashdash a)) in *.
    match type of Hbb with (if negb ?ok then _ else _) = _ => destruct ok eqn:Eok; cbn [negb] in Hbb; try discriminate end.
    match type of Hbb with (if ?b then _ else _) = _ => destruct b eqn:Ehc; try discriminate end.
    injection Hbb as <- <-.
    cbn [negb andb] in Ehc. split; [exact Ehc|split; [exact I|]].
    apply orb_false_iff in Ehc. destruct Ehc as [Eobj Ex].
    apply negb_false_iff in Eobj. rewrite is_object_spec in Eobj.
    change (valid_ref sp wh g' s' v a = true). unfold valid_ref.
    apply andb_true_iff. split.
    - unfold valid_id. destruct (split_dashdash a) as [t0 o] eqn:Es. simpl in Hsplit. subst o.
      simpl in t. subst t. rewrite (known_type_name _ _ Eobj), Hu. reflexivity.
    - fold t. cbv zeta. rewrite Eobj, Ex. cbn [negb andb].
      rewrite is_stix_type_spec in Eok.
      destruct wh.
      + apply andb_true_iff in Hsub. destruct Hsub as [Hg Hs].
        apply orb_true_iff in Eok. apply orb_true_iff. destruct Eok as [E | E].
        * left. eapply existsb_subset; eauto.
        * right. eapply usubset_mem; eauto.
      + apply andb_true_iff in Hsub. destruct Hsub as [Hg Hs].
        rewrite orb_false_r in Eok. apply andb_true_iff in Eok. destruct Eok as [E1 E2].
        apply negb_true_iff in E1, E2. apply negb_true_iff. apply orb_false_iff. split.
        * destruct (existsb (s_in_generic sp t v) g') eqn:E; auto.
          rewrite (existsb_subset _ _ _ Hg E) in E1. discriminate.
        * destruct (mem_ustr t s') eqn:E; auto.
          rewrite (usubset_mem _ _ _ Hs E) in E2. discriminate.
  Qed.
End CovRef.

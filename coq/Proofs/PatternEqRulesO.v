(* Proofs/PatternEqRulesO.v -- commutativity, associativity and OR-idempotence
   are recognised by the WHOLE observation-level pipeline, for arbitrary
   operands (the observation analogue of PatternEqRules.v), and the lifts of
   both levels to `equiv` on parsed patterns.                              *)
From Coq Require Import NArith ZArith List Bool Permutation Lia Arith String Sorted.
From V Require Import Base.UString Model.PatternEq Proofs.PatternEqCmp Proofs.PatternEqLists Proofs.PatternEqSort
     Proofs.PatternEqDnf Proofs.PatternEqTerm Proofs.PatternEqCong Proofs.PatternEqRules Proofs.PatternEqCongO.
Import ListNotations.
Local Open Scope nat_scope.
Local Open Scope list_scope.

(* ------------------------------------------------------------------ *)
(* a pass that reports no change changes nothing                       *)

Lemma sort_eq_id : forall {A} (cmp : A -> A -> comparison), lawful cmp ->
    forall l, Forall2 (ceq cmp) l (isort cmp l) -> isort cmp l = l.
Proof.
  intros A cmp L l HF. apply (sorted_isort_id cmp). apply (sorted_respects cmp L l (isort cmp l) HF). apply (isort_sorted cmp L).
Qed.

Lemma oorder_false_id : forall e, snd (oorder e) = false -> fst (oorder e) = e.
Proof.
  assert (Hn : forall o l, Forall (fun e => snd (oorder e) = false -> fst (oorder e) = e) l ->
                           snd (oorder (mko o l)) = false -> fst (oorder (mko o l)) = mko o l).
  { intros o l IH Hf. rewrite oorder_mko. rewrite oorder_mko_flag in Hf. apply orb_false_iff in Hf. destruct Hf as [Hc Hnode].
    assert (El : map fst (map oorder l) = l).
    { rewrite map_map. apply map_id_on. clear Hnode. induction IH as [|c l Hcx _ IHl]; [constructor|].
      simpl in Hc. apply orb_false_iff in Hc. destruct Hc as [H1 H2]. constructor; [apply Hcx; exact H1 | apply IHl; exact H2]. }
    rewrite El in *. destruct o; cbn [oorder_list] in *; try reflexivity;
      apply negb_false_iff in Hnode; apply is_eq_true in Hnode; apply lex_eq_Forall2 in Hnode.
    - rewrite (sort_eq_id ocmp ocmp_lawful l Hnode). reflexivity.
    - rewrite (sortdedupe_eq_id ocmp ocmp_lawful l Hnode). reflexivity. }
  induction e using oexpr_ind'; intro Hf.
  - reflexivity.
  - apply (Hn OpAnd l H Hf).
  - apply (Hn OpOr l H Hf).
  - apply (Hn OpFby l H Hf).
  - rewrite oorder_qual in *. cbn [fst snd] in *. rewrite (IHe Hf). reflexivity.
Qed.

Lemma osimplify_false_id : forall e, snd (osimplify e) = false -> fst (osimplify e) = e.
Proof.
  intros e Hf. unfold osimplify in *.
  destruct (oflatten_shrinks e) as [_ [_ F3]]. destruct (oflatten e) as [e1 c1]. cbn [fst snd] in *.
  pose proof (oorder_false_id e1) as O3. destruct (oorder e1) as [e2 c2]. cbn [fst snd] in *.
  destruct (oabsorb_shrinks e2) as [_ [_ A3]]. destruct (oabsorb e2) as [e3 c3]. cbn [fst snd] in *.
  apply orb_false_iff in Hf. destruct Hf as [Hf H3]. apply orb_false_iff in Hf. destruct Hf as [H1 H2].
  rewrite (A3 H3), (O3 H2), (F3 H1). reflexivity.
Qed.

Definition onf := snf osimplify.

Lemma onf_of_osettle : forall fuel e y ch, osettle fuel e = Ok (y, ch) -> onf e y.
Proof. intros fuel e y ch E. exists fuel, false, ch. exact E. Qed.

Lemma onf_cong : forall a b y, ceqo a b -> onf a y -> forall y', onf b y' -> ceqo y y'.
Proof.
  intros a b y Hab [f1 [c1 [d1 E1]]] y' Hb.
  pose proof (settle_loop_cong ceqo osimplify osimplify_cong f1 a b c1 Hab) as Hr. rewrite E1 in Hr.
  destruct (settle_loop f1 (fun x => Ok (osimplify x)) b c1) as [[y2 d2]|x] eqn:E2; simpl in Hr; [|contradiction].
  destruct Hr as [Hy _]. assert (Hb2 : onf b y2) by (exists f1, c1, d2; exact E2).
  rewrite (snf_det osimplify b y' y2 Hb Hb2). exact Hy.
Qed.

Lemma osettle_by_round : forall X X' f1 f2 y y' c c',
    ceqo (fst (osimplify X)) (fst (osimplify X')) ->
    osettle f1 X = Ok (y, c) -> osettle f2 X' = Ok (y', c') -> ceqo y y'.
Proof.
  intros X X' f1 f2 y y' c c' Hr E1 E2.
  apply (onf_cong (fst (osimplify X)) (fst (osimplify X')) y Hr).
  - apply (proj1 (snf_round osimplify osimplify_false_id X y)). apply (onf_of_osettle _ _ _ _ E1).
  - apply (proj1 (snf_round osimplify osimplify_false_id X' y')). apply (onf_of_osettle _ _ _ _ E2).
Qed.

Lemma osettle_by_rounds2 : forall X X' f1 f2 y y' c c',
    ceqo (fst (osimplify (fst (osimplify X)))) (fst (osimplify (fst (osimplify X')))) ->
    osettle f1 X = Ok (y, c) -> osettle f2 X' = Ok (y', c') -> ceqo y y'.
Proof.
  intros X X' f1 f2 y y' c c' Hr E1 E2.
  apply (onf_cong _ _ y Hr).
  - apply (proj1 (snf_round osimplify osimplify_false_id _ y)). apply (proj1 (snf_round osimplify osimplify_false_id X y)). apply (onf_of_osettle _ _ _ _ E1).
  - apply (proj1 (snf_round osimplify osimplify_false_id _ y')). apply (proj1 (snf_round osimplify osimplify_false_id X' y')). apply (onf_of_osettle _ _ _ _ E2).
Qed.

Lemma ocore_after_settle : forall fuel X X' n n',
    (forall y y' d d', osettle fuel X = Ok (y, d) -> osettle fuel X' = Ok (y', d') -> ceqo y y') ->
    ocore fuel X = Ok n -> ocore fuel X' = Ok n' -> ceqo n n'.
Proof.
  intros fuel X X' n n' Hs E1 E2. unfold ocore in *.
  apply bind_ok in E1. destruct E1 as [[y d] [S1 E1]]. apply bind_ok in E2. destruct E2 as [[y' d'] [S2 E2]].
  pose proof (Hs y y' d d' S1 S2) as Hy.
  apply bind_ok in E1. destruct E1 as [[z dz] [D1 E1]]. apply bind_ok in E2. destruct E2 as [[z' dz'] [D2 E2]].
  pose proof (odnf_cong fuel y y' Hy) as Hd. rewrite D1, D2 in Hd. destruct Hd as [Hz _].
  apply bind_ok in E1. destruct E1 as [[w dw] [T1 E1]]. apply bind_ok in E2. destruct E2 as [[w' dw'] [T2 E2]].
  pose proof (osettle_cong fuel z z' Hz) as Ht. rewrite T1, T2 in Ht. destruct Ht as [Hw _].
  inversion E1; inversion E2; subst. exact Hw.
Qed.

(* ------------------------------------------------------------------ *)
(* what one round does to a node                                       *)

Definition gflo (o : oop) (x : oexpr) : list oexpr := match oops_of o x with Some xs => xs | None => [x] end.
Definition ofc (l : list oexpr) : list oexpr := map (fun e => fst (oflatten e)) l.
Definition ooc (l : list oexpr) : list oexpr := map (fun e => fst (oorder e)) l.

Lemma oflatten_ops_flat : forall o l, fst (oflatten_ops o l) = flat_map (gflo o) l.
Proof.
  induction l as [|x l IH]; [reflexivity|]. cbn [oflatten_ops]. destruct (oflatten_ops o l) as [r ch]. cbn [fst] in IH.
  simpl. unfold gflo at 1. destruct (oops_of o x); cbn [fst]; rewrite IH; reflexivity.
Qed.

Definition ocollapse (o : oop) (k : list oexpr) : oexpr := match k with [x] => x | k' => mko o (flat_map (gflo o) k') end.

Lemma ocollapse_big : forall o k, List.length k <> 1 -> ocollapse o k = mko o (flat_map (gflo o) k).
Proof. intros o [|a [|b r]] Hk; try reflexivity. contradiction Hk; reflexivity. Qed.

Lemma oflatten_mko : forall o l, fst (oflatten (mko o l)) = ocollapse o (ofc l).
Proof.
  intros o l. rewrite oflatten_unfold. cbn [fst]. unfold ocollapse, ofc. rewrite map_map. unfold oflatten_node.
  destruct (map (fun x => fst (oflatten x)) l) as [|x [|x' r]] eqn:El.
  - reflexivity.
  - reflexivity.
  - rewrite <- oflatten_ops_flat. destruct (oflatten_ops o (x :: x' :: r)); reflexivity.
Qed.

Lemma oorder_mko' : forall o m, fst (oorder (mko o m)) = mko o (oorder_list o (ooc m)).
Proof. intros o m. rewrite oorder_mko. unfold ooc. rewrite map_map. reflexivity. Qed.

Lemma osimplify_fst : forall e, fst (osimplify e) = fst (oabsorb (fst (oorder (fst (oflatten e))))).
Proof.
  intro e. unfold osimplify. destruct (oflatten e) as [e1 c1]. cbn [fst]. destruct (oorder e1) as [e2 c2]. cbn [fst].
  destruct (oabsorb e2) as [e3 c3]. reflexivity.
Qed.

(* AND: the same operands in any order *)
Lemma round_perm_and : forall l l', Permutation l l' -> ceqo (fst (osimplify (OAnd l))) (fst (osimplify (OAnd l'))).
Proof.
  intros l l' HP. destruct (Nat.eq_dec (List.length l) 1) as [H1|N1].
  - destruct l as [|x [|y r]]; try discriminate. apply Permutation_length_1_inv in HP. subst l'. apply ceqo_refl.
  - assert (N2 : List.length l' <> 1) by (rewrite <- (Permutation_length HP); exact N1).
    rewrite !osimplify_fst. change (OAnd l) with (mko OpAnd l). change (OAnd l') with (mko OpAnd l').
    rewrite !oflatten_mko, !ocollapse_big by (unfold ofc; rewrite map_length; assumption).
    rewrite !oorder_mko'. refine (proj1 (oabsorb_cong _ _ _)). apply ceqo_mko. cbn [oorder_list].
    apply (isort_perm_eq ocmp ocmp_lawful). unfold ooc, ofc. apply Permutation_map. apply Permutation_flat_map. apply Permutation_map. exact HP.
Qed.

(* OR: the same SET of operands (any order, any multiplicity) *)
Lemma round_seteq_or : forall l l', incl l l' -> incl l' l -> List.length l <> 1 -> List.length l' <> 1 ->
                                    ceqo (fst (osimplify (OOr l))) (fst (osimplify (OOr l'))).
Proof.
  intros l l' H1 H2 N1 N2. rewrite !osimplify_fst. change (OOr l) with (mko OpOr l). change (OOr l') with (mko OpOr l').
  rewrite !oflatten_mko, !ocollapse_big by (unfold ofc; rewrite map_length; assumption).
  rewrite !oorder_mko'. refine (proj1 (oabsorb_cong _ _ _)). apply ceqo_mko. cbn [oorder_list].
  apply (sortdedupe_set ocmp ocmp_lawful); apply (covers_incl ocmp ocmp_lawful); unfold ooc, ofc;
    apply incl_map; apply incl_flat_map; apply incl_map; assumption.
Qed.

(* A op (B op C) and (A op B) op C, for AND, OR and FOLLOWEDBY: flatten alone makes them identical *)
Lemma gflo_mko : forall o m, gflo o (mko o m) = m.
Proof. intros o m. unfold gflo. destruct o; reflexivity. Qed.

Lemma oflatten_assoc : forall o l1 l2 l3, l2 <> [] ->
    fst (oflatten (mko o (l1 ++ mko o l2 :: l3))) = fst (oflatten (mko o (l1 ++ l2 ++ l3))).
Proof.
  intros o l1 l2 l3 Hne.
  rewrite (oflatten_mko o (l1 ++ mko o l2 :: l3)), (oflatten_mko o (l1 ++ l2 ++ l3)).
  unfold ofc. rewrite !map_app. cbn [map]. fold (ofc l1) (ofc l2) (ofc l3).
  pose proof (oflatten_mko o l2) as HI.
  remember (ofc l1) as A eqn:EA. remember (ofc l2) as B eqn:EB. remember (ofc l3) as C eqn:EC.
  remember (fst (oflatten (mko o l2))) as I eqn:EI. clear EA EC EI.
  assert (HB : B <> []) by (subst B; unfold ofc; destruct l2; [contradiction Hne; reflexivity | discriminate]). clear EB.
  assert (HgI : gflo o I = flat_map (gflo o) B).
  { rewrite HI. unfold ocollapse. destruct B as [|x [|x' r]]; [contradiction HB; reflexivity | simpl; symmetry; apply app_nil_r | apply gflo_mko]. }
  assert (Hflat : flat_map (gflo o) (A ++ I :: C) = flat_map (gflo o) (A ++ B ++ C)).
  { rewrite !flat_map_app. simpl. rewrite HgI. reflexivity. }
  assert (HBl : 1 <= List.length B) by (destruct B; [contradiction HB; reflexivity | simpl; lia]).
  destruct (Nat.eq_dec (List.length A + List.length C) 0) as [Hz|Hnz].
  - assert (A = []) by (destruct A; [reflexivity | simpl in Hz; lia]). assert (C = []) by (destruct C; [reflexivity | simpl in Hz; lia]).
    subst A C. cbn [app]. rewrite ?app_nil_r. exact HI.
  - rewrite (ocollapse_big o (A ++ I :: C)) by (rewrite app_length; simpl; lia).
    rewrite (ocollapse_big o (A ++ B ++ C)) by (rewrite !app_length; lia).
    rewrite Hflat. reflexivity.
Qed.

Lemma oround_assoc : forall o l1 l2 l3, l2 <> [] ->
    fst (osimplify (mko o (l1 ++ mko o l2 :: l3))) = fst (osimplify (mko o (l1 ++ l2 ++ l3))).
Proof. intros o l1 l2 l3 Hne. rewrite !osimplify_fst, (oflatten_assoc o l1 l2 l3 Hne). reflexivity. Qed.

(* A OR A = A: two rounds *)
Lemma orounds_idem : forall a,
    ceqo (fst (osimplify (fst (osimplify (OOr [a; a]))))) (fst (osimplify (fst (osimplify a)))).
Proof.
  intro a. set (a1 := fst (oflatten a)).
  assert (E1 : fst (oflatten (OOr [a; a])) = mko OpOr (gflo OpOr a1 ++ gflo OpOr a1 ++ [])).
  { change (OOr [a; a]) with (mko OpOr [a; a]). rewrite oflatten_mko. reflexivity. }
  destruct (oops_of OpOr a1) as [m|] eqn:Eo.
  - assert (Ea1 : a1 = mko OpOr m) by (apply oops_of_mko; exact Eo).
    refine (proj1 (osimplify_cong _ _ _)).
    rewrite (osimplify_fst (OOr [a; a])), (osimplify_fst a), E1. fold a1. unfold gflo. rewrite Eo, Ea1, !oorder_mko'.
    refine (proj1 (oabsorb_cong _ _ _)). apply ceqo_mko. cbn [oorder_list].
    apply (sortdedupe_set ocmp ocmp_lawful); apply (covers_incl ocmp ocmp_lawful); unfold ooc; apply incl_map.
    + intros x Hx. rewrite app_nil_r in Hx. apply in_app_or in Hx. tauto.
    + intros x Hx. apply in_or_app. left. exact Hx.
  - set (a2 := fst (oorder a1)). set (a3 := fst (oabsorb a2)).
    assert (R1 : fst (osimplify (OOr [a; a])) = OOr [a3]).
    { rewrite osimplify_fst, E1. unfold gflo. rewrite Eo. cbn [app]. rewrite oorder_mko'. unfold ooc. cbn [map oorder_list]. fold a2.
      assert (Es : dedupe ocmp (isort ocmp [a2; a2]) = [a2]).
      { unfold isort. simpl. rewrite (proj1 ocmp_lawful a2). simpl. rewrite (proj1 ocmp_lawful a2). reflexivity. }
      rewrite Es. rewrite oabsorb_unfold. cbn [fst map oabsorb_nodeg]. fold a3. reflexivity. }
    assert (R2 : fst (osimplify a) = a3).
    { rewrite osimplify_fst. reflexivity. }
    rewrite R1, R2. change (OOr [a3]) with (mko OpOr [a3]). rewrite (osimplify_fst (mko OpOr [a3])), oflatten_mko.
    cbn [ofc map ocollapse]. rewrite <- osimplify_fst. apply ceqo_refl.
Qed.

(* ------------------------------------------------------------------ *)
(* the observation-level pipeline                                      *)

Theorem ocore_and_perm : forall fuel l l' n n', Permutation l l' ->
    ocore fuel (OAnd l) = Ok n -> ocore fuel (OAnd l') = Ok n' -> ceqo n n'.
Proof.
  intros fuel l l' n n' HP. apply ocore_after_settle.
  intros y y' d d'. apply osettle_by_round. apply round_perm_and. exact HP.
Qed.

Theorem ocore_or_seteq : forall fuel l l' n n',
    incl l l' -> incl l' l -> List.length l <> 1 -> List.length l' <> 1 ->
    ocore fuel (OOr l) = Ok n -> ocore fuel (OOr l') = Ok n' -> ceqo n n'.
Proof.
  intros fuel l l' n n' H1 H2 N1 N2. apply ocore_after_settle.
  intros y y' d d'. apply osettle_by_round. apply round_seteq_or; assumption.
Qed.

Theorem ocore_assoc : forall fuel o l1 l2 l3 n n', l2 <> [] ->
    ocore fuel (mko o (l1 ++ mko o l2 :: l3)) = Ok n -> ocore fuel (mko o (l1 ++ l2 ++ l3)) = Ok n' -> ceqo n n'.
Proof.
  intros fuel o l1 l2 l3 n n' Hne. apply ocore_after_settle.
  intros y y' d d'. apply osettle_by_round. rewrite (oround_assoc o l1 l2 l3 Hne). apply ceqo_refl.
Qed.

Theorem ocore_or_idem : forall fuel a n n',
    ocore fuel (OOr [a; a]) = Ok n -> ocore fuel a = Ok n' -> ceqo n n'.
Proof.
  intros fuel a n n'. apply ocore_after_settle.
  intros y y' d d'. apply osettle_by_rounds2. apply orounds_idem.
Qed.

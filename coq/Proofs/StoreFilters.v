(* Proofs/StoreFilters.v -- the store theorems (C11, C18) with the REAL filter
   semantics of property C12 in place of the abstract per-object verdict.

   Model/Store.v knows three filter shapes: FType, FId (the shapes its search
   optimiser acts on) and `FOther h` with h an arbitrary verdict.  Here every
   concrete filter f of Model/Filters.v (property, operator, value; dotted
   paths, list-valued properties, timestamp coercion, all eight operators) is
   translated to one of them (`cf`), the verdict being Filter._check_filter of
   C12's model on the dictionary view of the stored object, and the theorems
   are restated for `apply_filters`, C12's model of apply_common_filters.

   `view o` is the dictionary the real filter code sees for the stored object
   o: ANY dictionary whose "type" and "id" members are o's (everything else --
   the whole content of the object -- is arbitrary).                          *)
From Coq Require Import NArith ZArith List Bool Permutation.
From V Require Import Base.UString.
From V Require Model.Filters Proofs.FiltersBasics Proofs.FiltersOpt.
From V Require Import Model.Store Model.StoreRun Spec.StoreSpec
  Proofs.StoreBase Proofs.StoreMem Proofs.StoreFs Proofs.StoreAgree Proofs.StoreComposite.
Import ListNotations.
Open Scope list_scope.

Module F := V.Model.Filters.
Module FB := V.Proofs.FiltersBasics.
Module FO := V.Proofs.FiltersOpt.

Section Concrete.
  Variable tsm : F.ts_mode.                 (* C12's variant: timestamps of dictionary-kept content *)
  Variable view : obj -> F.pv.

  Definition viewed (o : obj) : Prop :=
    exists m, view o = F.VDict m /\
              F.plookup F.t_type m = Some (F.VStr (otype o)) /\ F.plookup F.t_id m = Some (F.VStr (oid o)) /\
              (tsm = F.InstantOnDicts -> F.parse_ts (otype o) = None /\ F.parse_ts (oid o) = None).

  Definition verdict (f : F.flt) (o : obj) : bool :=
    match F.check_filter tsm f (view o) with F.Ok true => true | _ => false end.

  (* a concrete filter as a filter of the store model *)
  Definition cf (f : F.flt) : sfilter :=
    match F.fop_ f, F.fval f with
    | F.OEq, F.VStr v =>
        if ustr_eqb (F.fprop f) F.t_type then FType v
        else if ustr_eqb (F.fprop f) F.t_id then FId v
        else FOther (verdict f)
    | _, _ => FOther (verdict f)
    end.

  Lemma sholds_cf : forall f o, viewed o -> sholds (cf f) o = verdict f o.
  Proof.
    intros f o [m [Ev [Ht [Hi Hts]]]]. unfold cf.
    destruct (F.fop_ f) eqn:Eop; try reflexivity.
    destruct (F.fval f) eqn:Eval; try reflexivity.
    destruct (ustr_eqb (F.fprop f) F.t_type) eqn:E1.
    - apply s_eqb_eq in E1. simpl. unfold verdict. rewrite Ev.
      rewrite (FO.chk_on_name tsm f m F.t_type (otype o)); [|rewrite E1; reflexivity|exact Ht].
      unfold F.check_property. rewrite Eop, Eval.
      rewrite FO.coerce_str; [|intros X; apply Hts; exact X]. simpl.
      destruct (ustr_eqb (otype o) s); reflexivity.
    - destruct (ustr_eqb (F.fprop f) F.t_id) eqn:E2; try reflexivity.
      apply s_eqb_eq in E2. simpl. unfold verdict. rewrite Ev.
      rewrite (FO.chk_on_name tsm f m F.t_id (oid o)); [|rewrite E2; reflexivity|exact Hi].
      unfold F.check_property. rewrite Eop, Eval.
      rewrite FO.coerce_str; [|intros X; apply Hts; exact X]. simpl.
      destruct (ustr_eqb (oid o) s); reflexivity.
  Qed.

  (* the store model's conjunction = C12's verdict of the whole filter list *)
  Lemma all_hold_cf : forall fl o, viewed o -> all_hold (map cf fl) o = FB.holds_b tsm fl (view o).
  Proof.
    intros fl o V. unfold all_hold. induction fl as [|f fl IH]; simpl.
    - reflexivity.
    - rewrite (sholds_cf f o V), IH. unfold verdict, FB.holds_b. simpl.
      destruct (F.check_filter tsm f (view o)) as [[|]|]; simpl; reflexivity.
  Qed.

  Lemma filter_views : forall fl P, (forall o, In o P -> viewed o) ->
    map view (filter (all_hold (map cf fl)) P) = filter (FB.holds_b tsm fl) (map view P).
  Proof.
    intros fl P V. induction P as [|o P IH]; simpl; auto.
    rewrite (all_hold_cf fl o (V o (or_introl eq_refl))).
    destruct (FB.holds_b tsm fl (view o)); simpl; rewrite IH; auto; intros; apply V; simpl; auto.
  Qed.

  (* apply_common_filters over the views of a population = the store model's filter, when no filter raises *)
  Lemma apply_filters_views : forall fl P, (forall o, In o P -> viewed o) ->
    Forall (FB.defined_on tsm fl) (map view P) ->
    F.apply_filters tsm fl (map view P) = F.Ok (map view (filter (all_hold (map cf fl)) P)).
  Proof.
    intros fl P V D. rewrite (FB.apply_filters_total tsm fl _ D). rewrite filter_views; auto.
  Qed.

  Variable mode : text_mode.
  Variable iot : ustring -> option Z.
  Variable ts2fn : Z -> ustring.
  Hypothesis ts2fn_inj : forall a b, ts2fn a = ts2fn b -> a = b.
  Notation nrm := (norm_obj mode iot).

  (* C11, memory: a query with real filters returns exactly what apply_common_filters keeps of the stored
     population -- one copy of every (id, version) added (mem_refines) *)
  Theorem mem_query_concrete : forall L fl,
    let NL := map nrm L in
    Forall clean NL -> uniform NL -> (forall o, In o NL -> viewed o) ->
    Forall (FB.defined_on tsm fl) (map view (mem_objs (mem_run mode iot L))) ->
    F.apply_filters tsm fl (map view (mem_objs (mem_run mode iot L))) =
    F.Ok (map view (mem_query (map cf fl) (mem_run mode iot L))).
  Proof.
    intros L fl NL Fc U V D. destruct (mem_refines_thm mode iot L Fc U) as [_ [R _]].
    unfold mem_query. apply apply_filters_views; auto.
    intros o Ho. apply V. apply (r_stored_sound _ _ _ _ R). exact Ho.
  Qed.

  (* C11, filesystem: the optimised query with real filters = apply_common_filters over every stored file,
     as multisets *)
  Theorem fs_query_concrete : forall L fl,
    let NL := map nrm L in
    Forall fs_ok NL -> uniform NL -> (forall o, In o NL -> viewed o) ->
    Forall (FB.defined_on tsm fl) (map view (map fobj (fs_run mode iot ts2fn L))) ->
    exists r, F.apply_filters tsm fl (map view (map fobj (fs_run mode iot ts2fn L))) = F.Ok r /\
              Permutation (map view (fs_query (map cf fl) (fs_run mode iot ts2fn L))) r.
  Proof.
    intros L fl NL Fo U V D.
    destruct (fs_refines_thm mode iot ts2fn ts2fn_inj L Fo U) as [_ [_ [R Q]]].
    eexists. split.
    - apply apply_filters_views; auto.
      intros o Ho. apply V. apply (r_stored_sound _ _ _ _ R). exact Ho.
    - apply Permutation_map. apply Q.
  Qed.

  (* C11: on histories without re-additions the two stores return the same objects for real filters *)
  Theorem stores_agree_concrete : forall L fl,
    let NL := map nrm L in
    Forall fs_ok NL -> uniform NL -> NoDup (map vkey_of NL) ->
    Permutation (mem_query (map cf fl) (mem_run mode iot L)) (fs_query (map cf fl) (fs_run mode iot ts2fn L)).
  Proof.
    intros L fl NL Fo U ND.
    destruct (stores_agree_thm mode iot ts2fn ts2fn_inj L Fo U ND) as [_ [_ [_ [_ Q]]]]. apply Q.
  Qed.

  (* C18: a composite over memory stores with real attached filters at both levels and a real query: every
     object returned passes the whole query, its member's filters and the composite's under C12's semantics,
     and every stored object that does is represented, each (id, version) once *)
  Theorem cquery_concrete : forall (afs : list (list F.flt * list obj)) (af q : list F.flt),
    afs <> [] ->
    (forall p o, In p afs -> In o (mem_objs (mem_run mode iot (snd p))) -> viewed o) ->
    exists res,
      cquery (map cf af) (map (fun p => mem_source (map cf (fst p)) (mem_run mode iot (snd p))) afs) [] (map cf q) = Ok res /\
      NoDup (map dkey_of res) /\
      (forall o, In o res -> exists p, In p afs /\ In o (mem_objs (mem_run mode iot (snd p))) /\
          FB.holds_b tsm q (view o) = true /\ FB.holds_b tsm (fst p) (view o) = true /\ FB.holds_b tsm af (view o) = true) /\
      (forall p o, In p afs -> In o (mem_objs (mem_run mode iot (snd p))) ->
          FB.holds_b tsm q (view o) = true -> FB.holds_b tsm (fst p) (view o) = true -> FB.holds_b tsm af (view o) = true ->
          exists o', In o' res /\ dkey_of o' = dkey_of o).
  Proof.
    intros afs af q Hne V.
    set (afs' := map (fun p => (map cf (fst p), snd p)) afs).
    assert (afs' <> []) as Hne' by (destruct afs; [contradiction|discriminate]).
    destruct (cquery_distinct_once_mem mode iot afs' (map cf af) (map cf q) Hne') as [res [R1 [R2 [R3 R4]]]].
    assert (map (fun p => mem_source (fst p) (mem_run mode iot (snd p))) afs' =
            map (fun p => mem_source (map cf (fst p)) (mem_run mode iot (snd p))) afs) as E.
    { unfold afs'. rewrite map_map. reflexivity. }
    rewrite E in R1. exists res. split; auto. split; auto. split.
    - intros o Ho. destruct (R3 _ Ho) as [p' [P1 [P2 [P3 [P4 P5]]]]].
      unfold afs' in P1. apply in_map_iff in P1. destruct P1 as [p [Ep Hp]]. subst p'. simpl in *.
      pose proof (V _ _ Hp P2) as Vo. rewrite (all_hold_cf _ _ Vo) in P3. rewrite (all_hold_cf _ _ Vo) in P4.
      rewrite (all_hold_cf _ _ Vo) in P5.
      exists p. auto.
    - intros p o Hp Ho Q1 Q2 Q3. pose proof (V _ _ Hp Ho) as Vo.
      apply (R4 (map cf (fst p), snd p) o); simpl; auto.
      + unfold afs'. apply in_map_iff. exists p. auto.
      + rewrite (all_hold_cf _ _ Vo). auto.
      + rewrite (all_hold_cf _ _ Vo). auto.
      + rewrite (all_hold_cf _ _ Vo). auto.
  Qed.
End Concrete.

(* the hypothesis `viewed` is satisfiable: the smallest dictionary view *)
Definition basic_view (o : obj) : F.pv :=
  F.VDict [(F.t_type, F.VStr (otype o)); (F.t_id, F.VStr (oid o))].

Lemma basic_view_viewed : forall o, viewed F.TextOnDicts basic_view o.
Proof.
  intros o. exists [(F.t_type, F.VStr (otype o)); (F.t_id, F.VStr (oid o))].
  split; [reflexivity|]. split; [reflexivity|]. split; [reflexivity|]. discriminate.
Qed.

(* ... and the full dictionary view of property C12's bridge (Proofs/FiltersStoreLink.v: type, id, modified,
   created, then the string properties) is a view in this sense, so every theorem above holds for it *)
From V Require Proofs.FiltersStoreLink.

Lemma link_view_viewed : forall o, viewed F.TextOnDicts V.Proofs.FiltersStoreLink.pv_of_obj o.
Proof.
  intros o. eexists. split; [reflexivity|]. split; [reflexivity|]. split; [reflexivity|]. discriminate.
Qed.

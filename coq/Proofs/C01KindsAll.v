(* Proofs/C01KindsAll.v -- clean_encode_idem for every proved property kind, given that the
   nested constructor is idempotent on its own output (the induction over fuel in
   Proofs/C01Roundtrip.v supplies that):
       kind_proved vr k = true -> plain_json v = true ->
       clean_kind k allow interop v = Ok (p, hc) -> clean_kind k allow interop (encode false p) = Ok (p, hc).
   plain_json: the JSON-level hypothesis of the C01 theorems (no member named custom_properties
   or extensions, no null / empty-list member values, at any depth).                           *)
From Coq Require Import NArith ZArith List String Bool Lia.
From V Require Import Base.UString Base.Json Model.SchemaTypes Model.PyBase Model.Schema.
From V Require Import Proofs.C01Basics Proofs.C01Kinds Proofs.C01Float.
Import ListNotations.

Definition cp_key : ustring := u "custom_properties".
Definition ext_key : ustring := u "extensions".

Definition nullish (j : jvalue) : bool := match j with JNull => true | JArr [] => true | _ => false end.

Fixpoint plain_json (j : jvalue) : bool :=
  match j with
  | JArr l => (fix go (l : list jvalue) : bool := match l with [] => true | x :: r => plain_json x && go r end) l
  | JObj m =>
    (fix go (m : list (ustring * jvalue)) : bool :=
       match m with
       | [] => true
       | (k, x) :: r => negb (ustr_eqb k cp_key) && negb (ustr_eqb k ext_key) && negb (nullish x) && plain_json x && go r
       end) m
  | _ => true
  end.

Definition plain_member (kx : ustring * jvalue) : bool :=
  negb (ustr_eqb (fst kx) cp_key) && negb (ustr_eqb (fst kx) ext_key) && negb (nullish (snd kx)) && plain_json (snd kx).

Lemma plain_json_obj : forall m, plain_json (JObj m) = forallb plain_member m.
Proof.
  induction m as [| [k x] r IH]; [reflexivity |]. cbn [forallb]. rewrite <- IH. reflexivity.
Qed.

Lemma plain_json_arr : forall l, plain_json (JArr l) = forallb plain_json l.
Proof. induction l as [| x r IH]; [reflexivity |]. cbn [forallb]. rewrite <- IH. reflexivity. Qed.

Definition plain_dict (d : list (ustring * jvalue)) : bool := forallb plain_member d.

Lemma plain_dict_lookup : forall d k x, plain_dict d = true -> alookup k d = Some x ->
  nullish x = false /\ plain_json x = true.
Proof.
  induction d as [| [k' x'] r IH]; cbn [alookup plain_dict forallb]; intros k x H E; try discriminate.
  apply andb_true_iff in H. destruct H as [H1 H2].
  destruct (ustr_eqb k k').
  - inv E. unfold plain_member in H1. cbn [fst snd] in H1.
    apply andb_true_iff in H1. destruct H1 as [H1 Hp]. apply andb_true_iff in H1. destruct H1 as [_ Hn].
    apply negb_true_iff in Hn. auto.
  - eapply IH; eauto.
Qed.

Lemma plain_dict_no_key : forall d, plain_dict d = true -> amem cp_key d = false /\ amem ext_key d = false.
Proof.
  unfold amem. induction d as [| [k' x'] r IH]; cbn [alookup plain_dict forallb]; intros H; auto.
  apply andb_true_iff in H. destruct H as [H1 H2]. destruct (IH H2) as [A B].
  unfold plain_member in H1. cbn [fst snd] in H1.
  apply andb_true_iff in H1. destruct H1 as [H1 _]. apply andb_true_iff in H1. destruct H1 as [H1 _].
  apply andb_true_iff in H1. destruct H1 as [Hc He].
  apply negb_true_iff in Hc. apply negb_true_iff in He.
  rewrite (ustr_eqb_sym cp_key k'), Hc. rewrite (ustr_eqb_sym ext_key k'), He. auto.
Qed.

(* the members an object is written with (plain encoder) *)
Definition omem (o : pval) : list (ustring * jvalue) := match encode false o with JObj m => m | _ => [] end.

(* reserved "class ids" standing for "the observables of a 2.x observed-data container are covered" *)
Definition obs_tag (vv : ver) : ustring := match vv with V20 => u "<observables 2.0>" | V21 => u "<observables 2.1>" end.
Definition is_obs_tag (c : ustring) : bool := ustr_eqb c (obs_tag V20) || ustr_eqb c (obs_tag V21).

Section All.
  Variable vr : variant.
  Variable w : world.
  Variable rc : ustring -> bool -> bool -> list (ustring * jvalue) -> result pval.
  Variable rp : bool -> bool -> list (ustring * jvalue) -> result pval.
  Variable ro : ver -> list (ustring * ustring) -> bool -> list (ustring * jvalue) -> result pval.

  Notation CK := (clean_kind vr w rc rp ro).

  Hypothesis Hpad : vr_year_pad vr = true.

  (* the classes (by id) whose constructor is covered *)
  Variable P : ustring -> bool.

  (* which kinds the theorem covers; the side condition of a hash dictionary is on its name list,
     that of an embedded object / a list of objects on the embedded class *)
  Fixpoint kind_proved (k : pkind) : bool :=
    match k with
    | KObservable vv => P (obs_tag vv)
    | KStixObject _ | KExtensions _ => false
    | KHashes names vv => hashes_kind_ok vr names vv && forallb (fun n => negb (ustr_eqb n cp_key) && negb (ustr_eqb n ext_key)) names
    | KList k' => kind_proved k'
    | KEmbedded cid | KListOf cid => P cid
    | _ => true
    end.

  (* the nested constructor on plain input: an object, free of reserved keywords, idempotent on its own output *)
  Definition refs_plain (refs : list (ustring * ustring)) : bool :=
    forallb (fun kv => negb (ustr_eqb (fst kv) cp_key) && negb (ustr_eqb (fst kv) ext_key)) refs.

  (* ... and the parser of one observable of a container: idempotent on its own output, type kept *)
  Definition ro_idem_at (vv : ver) : Prop :=
    forall refs a d p, refs <> [] -> refs_plain refs = true -> plain_dict d = true -> ro vv refs a d = Ok p ->
      encode false p = JObj (omem p) /\ ro vv refs a (omem p) = Ok p /\ plain_dict (omem p) = true /\
      alookup (u "type") (omem p) = alookup (u "type") d.

  Definition rc_idem : Prop :=
    (forall cid a i d o, P cid = true -> plain_dict d = true -> rc cid a i d = Ok o ->
      encode false o = JObj (omem o) /\ reserved_kw (omem o) = Ok tt /\ rc cid a i (omem o) = Ok o /\
      plain_dict (omem o) = true) /\
    (forall vv, P (obs_tag vv) = true -> ro_idem_at vv).

  Hypothesis Hrc0 : rc_idem.
  Let Hrc := proj1 Hrc0.
  Let Hro := proj2 Hrc0.

  (* ---- the observable container ---- *)
  Lemma obs_refs_keys : forall l refs, obs_refs l = Ok refs -> map fst refs = map fst l.
  Proof.
    induction l as [| [k x] r IH]; intros refs H; cbn [obs_refs] in H.
    - inv_ok H. reflexivity.
    - destruct x; try discriminate. destruct (alookup (u "type") m) as [[] |]; try discriminate.
      unfold bind in H. destruct (obs_refs r) as [rest | |] eqn:Er; try discriminate. inv_ok H.
      cbn [map fst]. rewrite (IH rest eq_refl). reflexivity.
  Qed.

  Lemma refs_plain_of : forall l refs, plain_dict l = true -> obs_refs l = Ok refs -> refs_plain refs = true.
  Proof.
    intros l refs Hp H. pose proof (obs_refs_keys l refs H) as Hk. unfold refs_plain. apply forallb_forall. intros [k t] Hin.
    assert (Hk1 : In k (map fst l)) by (rewrite <- Hk; apply in_map_iff; exists (k, t); auto).
    apply in_map_iff in Hk1. destruct Hk1 as [[k' x] [E Hin']]. cbn [fst] in E. subst k'.
    unfold plain_dict in Hp. rewrite forallb_forall in Hp. specialize (Hp _ Hin'). unfold plain_member in Hp. cbn [fst snd] in *.
    apply andb_true_iff in Hp. destruct Hp as [Hp _]. apply andb_true_iff in Hp. destruct Hp as [Hp _]. exact Hp.
  Qed.

  Lemma obs_loop_idem : forall vv refs a, ro_idem_at vv -> refs <> [] -> refs_plain refs = true ->
    forall l acc hc res h, plain_dict l = true ->
    obs_loop ro vv refs a l acc hc = Ok (PMap res, h) ->
    exists new, res = acc ++ new /\ map fst new = map fst l /\
      obs_loop ro vv refs a (enc_members false new) acc hc = Ok (PMap res, h) /\
      (forall refs0, obs_refs l = Ok refs0 -> obs_refs (enc_members false new) = Ok refs0) /\
      plain_dict (enc_members false new) = true.
  Proof.
    intros vv refs a Hroi Hne Hrp. induction l as [| [k x] r IH]; intros acc hc res h Hp H; cbn [obs_loop] in H.
    - inversion H; subst. exists []. rewrite app_nil_r. repeat split; auto.
    - destruct x as [| | | | | | o]; try discriminate. unfold bind in H.
      cbn [plain_dict forallb] in Hp. apply andb_true_iff in Hp. destruct Hp as [Hm Hr].
      assert (Hpo : plain_dict o = true).
      { unfold plain_member in Hm. cbn [fst snd] in Hm. apply andb_true_iff in Hm. destruct Hm as [_ Hm]. rewrite plain_json_obj in Hm. exact Hm. }
      destruct (ro vv refs a o) as [p | |] eqn:Ep; try discriminate.
      destruct (Hroi refs a o p Hne Hrp Hpo Ep) as [E1 [E2 [E3 E4]]].
      match type of H with (if ?g then _ else _) = _ => destruct g eqn:Eg; try discriminate end.
      destruct (IH _ _ res h Hr H) as [new [Er [Ek [Hl [Hrf Hpl]]]]].
      exists ((k, p) :: new). split; [rewrite Er, <- app_assoc; reflexivity |]. split; [cbn [map fst]; rewrite Ek; reflexivity |].
      split; [| split].
      + cbn [enc_members map fst snd obs_loop]. rewrite E1. unfold bind. rewrite E2, Eg. exact Hl.
      + intros refs0 H0. cbn [obs_refs] in H0. destruct (alookup (u "type") o) as [[| | | | t | |] |] eqn:Et; try discriminate.
        unfold bind in H0.
        destruct (obs_refs r) as [rest | |] eqn:Eor; try discriminate. inv_ok H0.
        cbn [enc_members map fst snd obs_refs]. rewrite E1, E4. unfold bind.
        change (map (fun kv : ustring * pval => (fst kv, encode false (snd kv))) new) with (enc_members false new).
        rewrite (Hrf rest eq_refl). reflexivity.
      + cbn [enc_members map fst snd plain_dict forallb]. fold (enc_members false new). fold (plain_dict (enc_members false new)).
        rewrite Hpl. rewrite andb_true_r. unfold plain_member in *. cbn [fst snd] in *.
        apply andb_true_iff in Hm. destruct Hm as [Hm _]. apply andb_true_iff in Hm. destruct Hm as [Hm _].
        rewrite Hm, E1. cbn [nullish negb andb]. rewrite plain_json_obj. exact E3.
  Qed.

  Lemma obs_loop_map : forall vv refs a l acc hc p h, obs_loop ro vv refs a l acc hc = Ok (p, h) -> exists res, p = PMap res.
  Proof.
    intros vv refs a. induction l as [| [k x] r IH]; intros acc hc p h H; cbn [obs_loop] in H.
    - inv_ok H. eauto.
    - destruct x; try discriminate. unfold bind in H. destruct (ro vv refs a m); try discriminate.
      match type of H with (if ?g then _ else _) = _ => destruct g; try discriminate end. eapply IH; eauto.
  Qed.

  (* what cleaning an observable container amounts to *)
  Lemma observable_unfold : forall vv a i jv pv hcv,
    CK (KObservable vv) a i jv = Ok (pv, hcv) ->
    exists d refs res, jv = JObj d /\ d <> [] /\ obs_refs d = Ok refs /\ pv = PMap res /\
                       obs_loop ro vv refs a d [] false = Ok (PMap res, hcv).
  Proof.
    intros vv a i jv pv hcv H. cbn [clean_kind] in H. unfold bind in H.
    destruct jv; cbn [get_dict] in H; try discriminate.
    destruct m as [| kv m']; try discriminate.
    destruct (obs_refs (kv :: m')) as [refs | |] eqn:Er; try discriminate.
    destruct (obs_loop_map _ _ _ _ _ _ _ _ H) as [res Ep]. subst pv.
    exists (kv :: m'), refs, res. repeat split; auto. discriminate.
  Qed.

  Lemma observable_idem : forall vv a i jv pv hcv, P (obs_tag vv) = true -> plain_json jv = true ->
    CK (KObservable vv) a i jv = Ok (pv, hcv) ->
    CK (KObservable vv) a i (encode false pv) = Ok (pv, hcv) /\ plain_json (encode false pv) = true /\
    nullish (encode false pv) = false.
  Proof.
    intros vv a i jv pv hcv HP Hv H.
    destruct (observable_unfold vv a i jv pv hcv H) as [d [refs [res [Ej [Hd [Er [Ep Hl]]]]]]]. subst jv pv.
    rewrite plain_json_obj in Hv. fold (plain_dict d) in Hv.
    assert (Hne : refs <> []).
    { intros E. subst refs. apply obs_refs_keys in Er. destruct d; [contradiction | discriminate]. }
    destruct (obs_loop_idem vv refs a (Hro vv HP) Hne (refs_plain_of d refs Hv Er) d [] false res hcv Hv Hl)
      as [new [Eres [Ek [Hl' [Hrf Hpl]]]]].
    cbn [app] in Eres. subst new. rewrite encode_map.
    split; [| split; [rewrite plain_json_obj; exact Hpl | reflexivity]].
    cbn [clean_kind get_dict bind].
    destruct (enc_members false res) as [| kv0 m0] eqn:Ee.
    - exfalso. unfold enc_members in Ee. destruct res; [| discriminate]. destruct d; [contradiction | discriminate].
    - rewrite (Hrf refs Er). cbn [bind]. exact Hl'.
  Qed.

  Lemma clean_items_idem : forall (f : jvalue -> result (pval * bool)) l res h,
    (forall x p hc, In x l -> f x = Ok (p, hc) -> f (encode false p) = Ok (p, hc)) ->
    clean_items f l = Ok (res, h) ->
    clean_items f (map (encode false) res) = Ok (res, h).
  Proof.
    induction l as [| x r IH]; intros res h Hf H; cbn [clean_items] in H.
    - inv_ok H. reflexivity.
    - unfold bind in H. destruct (f x) as [[p hc] | |] eqn:Ex; try discriminate.
      destruct (clean_items f r) as [[res' h'] | |] eqn:Er; try discriminate.
      inv_ok H. cbn [fst snd map clean_items]. unfold bind.
      rewrite (Hf x p hc (or_introl eq_refl) Ex).
      rewrite (IH res' h'); auto. intros x0 p0 hc0 Hin. apply Hf. right. exact Hin.
  Qed.

  Lemma listof_items_idem : forall cid a i l res h,
    P cid = true ->
    forallb plain_json l = true ->
    listof_items rc cid a i l = Ok (res, h) ->
    listof_items rc cid a i (map (encode false) res) = Ok (res, h).
  Proof.
    induction l as [| x r IH]; intros res h HP Hg H; cbn [listof_items] in H.
    - inv_ok H. reflexivity.
    - destruct x; try discriminate. unfold bind in H.
      cbn [forallb] in Hg. apply andb_true_iff in Hg. destruct Hg as [Hx Hr].
      destruct (reserved_kw m) as [[] | |] eqn:Ek; try discriminate.
      destruct (rc cid a i m) as [o | |] eqn:Eo; try discriminate.
      destruct (listof_items rc cid a i r) as [[res' h'] | |] eqn:Er; try discriminate.
      inv_ok H. cbn [fst snd map]. rewrite plain_json_obj in Hx.
      destruct (Hrc cid a i m o HP Hx Eo) as [E1 [E2 [E3 _]]].
      rewrite E1. cbn [listof_items]. unfold bind. rewrite E2, E3.
      rewrite (IH res' h' HP Hr eq_refl). reflexivity.
  Qed.

  Lemma finish_list_encode : forall a res h p hc, finish_list a (res, h) = Ok (p, hc) -> p = PArr res /\ hc = h.
  Proof.
    intros a res h p hc H. unfold finish_list in H. destruct (negb a && h); try discriminate.
    destruct res; try discriminate. inv_ok H. auto.
  Qed.

  Lemma list_items_plain : forall v l, plain_json v = true -> list_items v = Ok l -> forallb plain_json l = true.
  Proof.
    intros v l Hv H. destruct v; cbn [list_items] in H; try discriminate.
    - inv_ok H. reflexivity.
    - inv_ok H. rewrite plain_json_arr in Hv. exact Hv.
    - inv_ok H. clear Hv. induction m as [| [k x] r IH]; [reflexivity |].
      cbn [map forallb fst]. rewrite IH. reflexivity.
  Qed.

  Theorem clean_kind_idem : forall k, kind_proved k = true ->
    forall allow interop v p hc, plain_json v = true ->
    CK k allow interop v = Ok (p, hc) -> CK k allow interop (encode false p) = Ok (p, hc).
  Proof.
    induction k; intros Hk allow interop jv pv hcv Hv H; cbn [kind_proved] in Hk; try discriminate.
    - eapply idem_KString; eauto.
    - eapply idem_KPattern; eauto.
    - eapply idem_KObjRef; eauto.
    - eapply idem_KFixed; eauto.
    - eapply idem_KId; eauto.
    - eapply idem_KInt; eauto.
    - cbn [clean_kind] in *. eapply clean_float_idem; eauto.
    - eapply idem_KBool; eauto.
    - eapply idem_KTime; eauto.
    - eapply idem_KDict; eauto.
    - apply andb_true_iff in Hk. destruct Hk as [Hk _]. eapply idem_KHashes; eauto.
    - eapply idem_KBinary; eauto.
    - eapply idem_KHex; eauto.
    - eapply idem_KRef; eauto.
    - eapply idem_KSelector; eauto.
    - (* KEmbedded *)
      cbn [clean_kind] in *. destruct jv; try discriminate. unfold bind in H.
      destruct (reserved_kw m) as [[] | |] eqn:Ek; try discriminate.
      destruct (rc cls allow false m) as [o | |] eqn:Eo; try discriminate.
      rewrite plain_json_obj in Hv.
      destruct (Hrc cls allow false m o Hk Hv Eo) as [E1 [E2 [E3 _]]].
      destruct (negb allow && pval_has_custom o) eqn:Eh; try discriminate. inv_ok H.
      rewrite E1. unfold bind. rewrite E2, E3, Eh. reflexivity.
    - eapply idem_KEnum; eauto.
    - eapply idem_KOpenVocab; eauto.
    - (* KObservable *) exact (proj1 (observable_idem v allow interop jv pv hcv Hk Hv H)).
    - (* KList *)
      cbn [clean_kind] in *. unfold bind in H.
      destruct (list_items jv) as [l | |] eqn:El; try discriminate.
      destruct (clean_items (CK k allow interop) l) as [[res h] | |] eqn:Ec; try discriminate.
      destruct (finish_list_encode _ _ _ _ _ H) as [Ep Eh]. subst pv hcv.
      rewrite encode_arr. unfold enc_list. cbn [list_items]. unfold bind.
      pose proof (list_items_plain jv l Hv El) as Hl. rewrite forallb_forall in Hl.
      assert (Hc : clean_items (CK k allow interop) (map (encode false) res) = Ok (res, h)).
      { eapply clean_items_idem; [| exact Ec]. intros x p0 hc0 Hin Hx.
        eapply IHk; [exact Hk | apply Hl; exact Hin | exact Hx]. }
      rewrite Hc. exact H.
    - (* KListOf *)
      cbn [clean_kind] in *. unfold bind in H.
      destruct (list_items jv) as [l | |] eqn:El; try discriminate.
      destruct (listof_items rc cls allow interop l) as [[res h] | |] eqn:Ec; try discriminate.
      destruct (finish_list_encode _ _ _ _ _ H) as [Ep Eh]. subst pv hcv.
      rewrite encode_arr. unfold enc_list. cbn [list_items]. unfold bind.
      rewrite (listof_items_idem cls allow interop l res h Hk (list_items_plain jv l Hv El) Ec). exact H.
    - eapply idem_KAny; eauto.
  Qed.

  (* a cleaned value is never written as null or as an empty list *)
  Lemma clean_kind_not_nullish : forall k allow interop v p hc,
    kind_proved k = true -> plain_json v = true ->
    nullish v = false -> CK k allow interop v = Ok (p, hc) -> nullish (encode false p) = false.
  Proof.
    intros k allow interop v p hc Hk Hv Hn H. destruct k; cbn [kind_proved] in Hk; try discriminate; cbn [clean_kind] in H.
    all: unfold clean_string, clean_float, clean_bool, clean_reference in H.
    all: try (walk H; try discriminate; match type of H with Ok _ = Ok _ => inv H; cbn [encode nullish]; auto end; fail).
    - (* hashes *) unfold clean_hashes in H. walk H.
      assert (Hp : exists acc', p = PMap acc').
      { clear - H. revert H. generalize (@nil (ustring * pval)) false. induction a as [| [k x] r IH]; intros acc h H.
        - cbn [hashes_loop] in H. inv_ok H. eauto.
        - rewrite hashes_loop_step in H. destruct (hash_value_ok vr k x).
          + destruct (hash_target names k). destruct (negb allow && (h || b)); try discriminate. eapply IH; eauto.
          + destruct (infer_hash k); [destruct x; discriminate |]. inv_ok H. eauto. }
      destruct Hp as [acc' Hp]. subst p. rewrite encode_map. reflexivity.
    - (* embedded *)
      destruct v; try discriminate. unfold bind in H.
      destruct (reserved_kw m) as [[] | |]; try discriminate.
      destruct (rc cls allow false m) as [o | |] eqn:Eo; try discriminate.
      rewrite plain_json_obj in Hv. destruct (Hrc cls allow false m o Hk Hv Eo) as [E1 _].
      destruct (negb allow && pval_has_custom o); try discriminate. inv_ok H. rewrite E1. reflexivity.
    - (* observable container *)
      match goal with Hk0 : P (obs_tag ?vv) = true |- _ => exact (proj2 (proj2 (observable_idem vv allow interop v p hc Hk0 Hv H))) end.
    - (* list *)
      unfold bind in H. destruct (list_items v); try discriminate.
      destruct (clean_items (CK k allow interop) a) as [[res h] | |]; try discriminate.
      unfold finish_list in H. destruct (negb allow && h); try discriminate. destruct res; try discriminate.
      inv_ok H. rewrite encode_arr. reflexivity.
    - (* list of objects *)
      unfold bind in H. destruct (list_items v); try discriminate.
      destruct (listof_items rc cls allow interop a) as [[res h] | |]; try discriminate.
      unfold finish_list in H. destruct (negb allow && h); try discriminate. destruct res; try discriminate.
      inv_ok H. rewrite encode_arr. reflexivity.
  Qed.

  Lemma enc_members_aset : forall incl n v acc,
    enc_members incl (aset n v acc) = aset n (encode incl v) (enc_members incl acc).
  Proof.
    unfold enc_members. induction acc as [| [k x] r IH]; cbn [aset map fst snd]; auto.
    destruct (ustr_eqb n k); cbn [map fst snd]; [reflexivity | f_equal; exact IH].
  Qed.

  Lemma plain_dict_aset : forall n x (acc : list (ustring * jvalue)),
    plain_dict acc = true -> plain_member (n, x) = true -> plain_dict (aset n x acc) = true.
  Proof.
    unfold plain_dict. induction acc as [| [k y] r IH]; intros Ha Hm; cbn [aset forallb].
    - rewrite Hm. reflexivity.
    - cbn [forallb] in Ha. apply andb_true_iff in Ha. destruct Ha as [A1 A2].
      destruct (ustr_eqb n k); cbn [forallb].
      + rewrite Hm, A2. reflexivity.
      + rewrite A1. cbn [andb]. apply IH; auto.
  Qed.

  (* a cleaned value is written as plain JSON again *)
  Lemma hashes_loop_plain : forall names a l acc hc p h,
    forallb (fun n => negb (ustr_eqb n cp_key) && negb (ustr_eqb n ext_key)) names = true ->
    plain_dict l = true ->
    hashes_loop vr names a l acc hc = Ok (p, h) ->
    plain_dict (enc_members false acc) = true ->
    exists acc', p = PMap acc' /\ plain_dict (enc_members false acc') = true.
  Proof.
    intros names a. induction l as [| [k hv] r IH]; intros acc hc p h Hn Hl H Ha.
    - cbn [hashes_loop] in H. inv_ok H. eauto.
    - rewrite hashes_loop_step in H. cbn [plain_dict forallb] in Hl. apply andb_true_iff in Hl. destruct Hl as [Hm Hr].
      destruct (hash_value_ok vr k hv).
      + destruct (hash_target names k) as [n c] eqn:T. destruct (negb a && (hc || c)); try discriminate.
        eapply IH; [exact Hn | exact Hr | exact H |].
        (* the entry stored: key n (the given key or a specification name), value hv *)
        assert (Hkey : negb (ustr_eqb n cp_key) && negb (ustr_eqb n ext_key) = true).
        { unfold hash_target in T. unfold plain_member in Hm. cbn [fst snd] in Hm.
          apply andb_true_iff in Hm. destruct Hm as [Hm _]. apply andb_true_iff in Hm. destruct Hm as [Hm _].
          destruct (infer_hash k) as [alg |].
          - destruct (hash_spec_name names alg) as [n' |] eqn:S; inv T; [| exact Hm].
            unfold hash_spec_name in S. apply find_some in S. destruct S as [S _]. apply in_rev in S.
            rewrite forallb_forall in Hn. apply Hn. exact S.
          - inv T. exact Hm. }
        assert (Hval : negb (nullish hv) && plain_json hv = true).
        { unfold plain_member in Hm. cbn [fst snd] in Hm. apply andb_true_iff in Hm. destruct Hm as [Hm Hp].
          apply andb_true_iff in Hm. destruct Hm as [_ Hnn]. rewrite Hnn, Hp. reflexivity. }
        rewrite enc_members_aset. apply plain_dict_aset; [exact Ha |].
        unfold plain_member. cbn [fst snd encode]. apply andb_true_iff in Hval. destruct Hval as [V1 V2].
        rewrite Hkey, V1, V2. reflexivity.
      + destruct (infer_hash k); [destruct hv; discriminate |]. inv_ok H. eauto.
  Qed.

  Lemma clean_kind_plain : forall k, kind_proved k = true ->
    forall allow interop v p hc, plain_json v = true ->
    CK k allow interop v = Ok (p, hc) -> plain_json (encode false p) = true.
  Proof.
    induction k; intros Hk allow interop jv pv hcv Hv H; cbn [kind_proved] in Hk; try discriminate; cbn [clean_kind] in H.
    all: unfold clean_string, clean_float, clean_bool, clean_reference in H.
    all: try (walk H; try discriminate; match type of H with Ok _ = Ok _ => inv H; cbn [encode plain_json]; auto end; fail).
    - (* dictionary: the value itself *)
      unfold bind in H. destruct (clean_dictionary vr v jv) as [d | |] eqn:E; try discriminate. inv_ok H. cbn [encode].
      unfold clean_dictionary, bind in E. destruct jv; cbn [get_dict] in E; try discriminate.
      destruct (clean_dict_keys vr v m); try discriminate. destruct m; try discriminate. inv_ok E. exact Hv.
    - (* hashes *)
      apply andb_true_iff in Hk. destruct Hk as [_ Hn].
      unfold clean_hashes, bind in H. destruct (clean_dictionary vr v jv) as [d | |] eqn:E; try discriminate.
      assert (Hd : plain_dict d = true).
      { unfold clean_dictionary, bind in E. destruct jv; cbn [get_dict] in E; try discriminate.
        destruct (clean_dict_keys vr v m); try discriminate. destruct m; try discriminate. inv_ok E.
        rewrite plain_json_obj in Hv. exact Hv. }
      destruct (hashes_loop_plain names allow d [] false pv hcv Hn Hd H eq_refl) as [acc' [Ep Ha]].
      subst pv. rewrite encode_map. rewrite plain_json_obj. exact Ha.
    - (* embedded *)
      destruct jv; try discriminate. unfold bind in H.
      destruct (reserved_kw m) as [[] | |]; try discriminate.
      destruct (rc cls allow false m) as [o | |] eqn:Eo; try discriminate.
      rewrite plain_json_obj in Hv. destruct (Hrc cls allow false m o Hk Hv Eo) as [E1 [_ [_ E4]]].
      destruct (negb allow && pval_has_custom o); try discriminate. inv_ok H. rewrite E1. rewrite plain_json_obj. exact E4.
    - (* observable container *)
      match goal with Hk0 : P (obs_tag ?vv) = true |- _ => exact (proj1 (proj2 (observable_idem vv allow interop jv pv hcv Hk0 Hv H))) end.
    - (* list *)
      unfold bind in H. destruct (list_items jv) as [l | |] eqn:El; try discriminate.
      destruct (clean_items (CK k allow interop) l) as [[res h] | |] eqn:Ec; try discriminate.
      destruct (finish_list_encode _ _ _ _ _ H) as [Ep Eh]. subst pv hcv.
      rewrite encode_arr. unfold enc_list. rewrite plain_json_arr.
      pose proof (list_items_plain jv l Hv El) as Hl. clear H El.
      revert res h Ec. induction l as [| x r IHl]; intros res h Ec; cbn [clean_items] in Ec.
      + inv_ok Ec. reflexivity.
      + unfold bind in Ec. destruct (CK k allow interop x) as [[p hc] | |] eqn:Ex; try discriminate.
        destruct (clean_items (CK k allow interop) r) as [[res' h'] | |] eqn:Er; try discriminate. inv_ok Ec.
        cbn [forallb] in Hl. apply andb_true_iff in Hl. destruct Hl as [Hx Hr].
        cbn [fst map forallb]. rewrite (IHk Hk allow interop x p hc Hx Ex). cbn [andb]. eapply IHl; eauto.
    - (* list of objects *)
      unfold bind in H. destruct (list_items jv) as [l | |] eqn:El; try discriminate.
      destruct (listof_items rc cls allow interop l) as [[res h] | |] eqn:Ec; try discriminate.
      destruct (finish_list_encode _ _ _ _ _ H) as [Ep Eh]. subst pv hcv.
      rewrite encode_arr. unfold enc_list. rewrite plain_json_arr.
      pose proof (list_items_plain jv l Hv El) as Hl. clear H El.
      revert res h Ec. induction l as [| x r IHl]; intros res h Ec; cbn [listof_items] in Ec.
      + inv_ok Ec. reflexivity.
      + destruct x; try discriminate. unfold bind in Ec.
        cbn [forallb] in Hl. apply andb_true_iff in Hl. destruct Hl as [Hx Hr]. rewrite plain_json_obj in Hx.
        destruct (reserved_kw m) as [[] | |]; try discriminate.
        destruct (rc cls allow interop m) as [o | |] eqn:Eo; try discriminate.
        destruct (listof_items rc cls allow interop r) as [[res' h'] | |] eqn:Er; try discriminate. inv_ok Ec.
        destruct (Hrc cls allow interop m o Hk Hx Eo) as [E1 [_ [_ E4]]].
        cbn [fst map forallb]. rewrite E1. rewrite plain_json_obj. unfold plain_dict in E4. rewrite E4. cbn [andb]. eapply IHl; eauto.
  Qed.
End All.

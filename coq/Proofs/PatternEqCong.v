(* Proofs/PatternEqCong.v -- every pass of the normaliser respects
   comparator-equality (a ~ b := cmp a b = Eq), including the `changed` flag it
   reports; hence so do the settle loops, the DNF transformers and the whole
   pipeline after the special-value pass.  This is what lets a rewrite that is
   recognised after ONE round (operands sorted into comparator-equal order) be
   recognised by the whole pipeline.  Comparison level.                    *)
From Coq Require Import NArith ZArith List Bool Permutation Lia Arith String.
From V Require Import Base.UString Model.PatternEq Proofs.PatternEqCmp Proofs.PatternEqLists Proofs.PatternEqSort
     Proofs.PatternEqDnf Proofs.PatternEqTerm.
Import ListNotations.
Local Open Scope nat_scope.
Local Open Scope list_scope.

Notation ceqc := (ceq ccmp).

Lemma ceqc_refl : forall a, ceqc a a.
Proof. apply (ceq_refl ccmp ccmp_lawful). Qed.
Lemma ceqc_sym : forall a b, ceqc a b -> ceqc b a.
Proof. apply (ceq_sym ccmp ccmp_lawful). Qed.
Lemma ceqc_trans : forall a b c, ceqc a b -> ceqc b c -> ceqc a c.
Proof. apply (ceq_trans ccmp ccmp_lawful). Qed.

(* ---- the shape of comparator-equal expressions ---- *)

Lemma ceqc_mkb : forall o l1 l2, Forall2 ceqc l1 l2 -> ceqc (mkb o l1) (mkb o l2).
Proof. intros o l1 l2 HF. unfold ceq. destruct o; simpl; apply Forall2_lex_eq; exact HF. Qed.

Lemma ceqc_mkb_inv : forall o l1 b, ceqc (mkb o l1) b -> exists l2, b = mkb o l2 /\ Forall2 ceqc l1 l2.
Proof.
  intros o l1 b E. unfold ceq in E. destruct o, b as [y|l2|l2]; simpl in E; try discriminate;
    exists l2; (split; [reflexivity | apply lex_eq_Forall2; exact E]).
Qed.

Lemma ceqc_atom_inv : forall x b, ceqc (Atom x) b -> exists y, b = Atom y /\ atom_cmp x y = Eq.
Proof. intros x b E. unfold ceq in E. destruct b as [y|l|l]; simpl in E; try discriminate. exists y. auto. Qed.

Lemma ops_of_ceqc : forall o a b, ceqc a b ->
    match ops_of o a, ops_of o b with
    | Some xs, Some ys => Forall2 ceqc xs ys
    | None, None => True
    | _, _ => False
    end.
Proof.
  intros o a b E. destruct a as [x|l1|l1].
  - destruct (ceqc_atom_inv x b E) as [y [-> _]]. destruct o; exact I.
  - destruct (ceqc_mkb_inv BAnd l1 b E) as [l2 [-> HF]]. destruct o; simpl; [exact HF | exact I].
  - destruct (ceqc_mkb_inv BOr l1 b E) as [l2 [-> HF]]. destruct o; simpl; [exact I | exact HF].
Qed.

(* the result of a pass on comparator-equal inputs *)
Definition pcong (r1 r2 : cexpr * bool) : Prop := ceqc (fst r1) (fst r2) /\ snd r1 = snd r2.

Lemma children_cong : forall (pass : cexpr -> cexpr * bool) l1 l2,
    Forall (fun a => forall b, ceqc a b -> pcong (pass a) (pass b)) l1 -> Forall2 ceqc l1 l2 ->
    Forall2 ceqc (map fst (map pass l1)) (map fst (map pass l2)) /\ existsb snd (map pass l1) = existsb snd (map pass l2).
Proof.
  intros pass l1 l2 HF H2. induction H2 as [|a b l1 l2 Hab _ IH]; [split; [constructor | reflexivity]|].
  inversion HF as [|x xs Ha Hl]; subst. destruct (IH Hl) as [I1 I2]. destruct (Ha b Hab) as [P1 P2].
  simpl. split; [constructor; assumption | rewrite P2, I2; reflexivity].
Qed.

Section BottomUpCong.
  Variable pass : cexpr -> cexpr * bool.
  Variable node : bop -> list cexpr -> cexpr * bool.
  Hypothesis pass_atom : forall a, pass (Atom a) = (Atom a, false).
  Hypothesis pass_node : forall o l,
      pass (mkb o l) = (fst (node o (map fst (map pass l))),
                        existsb snd (map pass l) || snd (node o (map fst (map pass l)))).
  Hypothesis node_cong : forall o l1 l2, Forall2 ceqc l1 l2 -> pcong (node o l1) (node o l2).

  Lemma pass_cong : forall a b, ceqc a b -> pcong (pass a) (pass b).
  Proof.
    assert (Hn : forall o l1, Forall (fun a => forall b, ceqc a b -> pcong (pass a) (pass b)) l1 ->
                              forall b, ceqc (mkb o l1) b -> pcong (pass (mkb o l1)) (pass b)).
    { intros o l1 IH b E. destruct (ceqc_mkb_inv o l1 b E) as [l2 [-> HF]].
      destruct (children_cong pass l1 l2 IH HF) as [C1 C2]. destruct (node_cong o _ _ C1) as [N1 N2].
      rewrite !pass_node. unfold pcong. cbn [fst snd]. split; [exact N1 | rewrite C2, N2; reflexivity]. }
    induction a using cexpr_ind'; intros b E.
    - destruct (ceqc_atom_inv a b E) as [y [-> Ey]]. rewrite !pass_atom. split; [exact E | reflexivity].
    - apply (Hn BAnd l H b E).
    - apply (Hn BOr l H b E).
  Qed.
End BottomUpCong.

(* ---- flatten ---- *)

Lemma cflatten_ops_cong : forall o l1 l2, Forall2 ceqc l1 l2 ->
    Forall2 ceqc (fst (cflatten_ops o l1)) (fst (cflatten_ops o l2)) /\ snd (cflatten_ops o l1) = snd (cflatten_ops o l2).
Proof.
  intros o l1 l2 HF. induction HF as [|a b l1 l2 Hab _ [I1 I2]]; [split; [constructor | reflexivity]|].
  cbn [cflatten_ops]. destruct (cflatten_ops o l1) as [r1 c1]. destruct (cflatten_ops o l2) as [r2 c2]. cbn [fst snd] in *.
  pose proof (ops_of_ceqc o a b Hab) as Ho. destruct (ops_of o a) as [xs|], (ops_of o b) as [ys|]; try contradiction; cbn [fst snd].
  - split; [apply Forall2_app; assumption | reflexivity].
  - split; [constructor; assumption | exact I2].
Qed.

Lemma cflatten_node_cong : forall o l1 l2, Forall2 ceqc l1 l2 -> pcong (cflatten_node o l1) (cflatten_node o l2).
Proof.
  intros o l1 l2 HF. unfold cflatten_node, pcong.
  destruct HF as [|a b l1 l2 Hab HF]; [simpl; split; [apply ceqc_mkb; constructor | reflexivity]|].
  destruct HF as [|a' b' l1 l2 Hab' HF]; [simpl; split; [exact Hab | reflexivity]|].
  destruct (cflatten_ops_cong o (a :: a' :: l1) (b :: b' :: l2)) as [I1 I2]; [repeat constructor; assumption|].
  destruct (cflatten_ops o (a :: a' :: l1)) as [r1 c1]. destruct (cflatten_ops o (b :: b' :: l2)) as [r2 c2]. cbn [fst snd] in *.
  split; [apply ceqc_mkb; exact I1 | exact I2].
Qed.

Lemma cflatten_cong : forall a b, ceqc a b -> pcong (cflatten a) (cflatten b).
Proof. apply (pass_cong cflatten cflatten_node); [reflexivity | apply cflatten_unfold | apply cflatten_node_cong]. Qed.

(* ---- order ---- *)

Lemma lex_cong : forall l1 l2 d1 d2, Forall2 ceqc l1 l2 -> Forall2 ceqc d1 d2 -> cmp_lex ccmp l1 d1 = cmp_lex ccmp l2 d2.
Proof.
  intros l1 l2 d1 d2 H1 H2.
  apply (cmp_respects (cmp_lex ccmp) (lex_lawful ccmp ccmp_lawful)); unfold ceq; apply Forall2_lex_eq; assumption.
Qed.

Lemma corder_node_cong : forall o l1 l2, Forall2 ceqc l1 l2 -> pcong (corder_node o l1) (corder_node o l2).
Proof.
  intros o l1 l2 HF. unfold corder_node, pcong. cbn [fst snd].
  assert (Hd : Forall2 ceqc (dedupe ccmp (isort ccmp l1)) (dedupe ccmp (isort ccmp l2))).
  { apply (dedupe_respects ccmp ccmp_lawful). apply (isort_respects ccmp ccmp_lawful). exact HF. }
  split; [apply ceqc_mkb; exact Hd | rewrite (lex_cong _ _ _ _ HF Hd); reflexivity].
Qed.

Lemma corder_cong : forall a b, ceqc a b -> pcong (corder a) (corder b).
Proof. apply (pass_cong corder corder_node); [reflexivity | apply corder_unfold | apply corder_node_cong]. Qed.

(* ---- absorb: the deletion marks only depend on comparisons ---- *)

Section MarksCong.
  Context {A : Type} (absorbs : A -> A -> bool) (R : A -> A -> Prop).
  Hypothesis absorbs_R : forall a a' b b', R a a' -> R b b' -> absorbs a b = absorbs a' b'.

  Lemma mark_from_cong : forall ops ops' ci ci' i j del,
      Forall2 R ops ops' -> R ci ci' -> mark_from absorbs ci i j ops del = mark_from absorbs ci' i j ops' del.
  Proof.
    intros ops ops' ci ci' i j del HF Hc. revert j del. induction HF as [|x y ops ops' Hxy _ IH]; intros j del; [reflexivity|].
    destruct del as [|d del]; [reflexivity|]. simpl. rewrite (absorbs_R ci ci' x y Hc Hxy), IH. reflexivity.
  Qed.

  Lemma absorb_loop_cong : forall all all' rest rest' i del,
      Forall2 R all all' -> Forall2 R rest rest' -> absorb_loop absorbs all i rest del = absorb_loop absorbs all' i rest' del.
  Proof.
    intros all all' rest rest' i del Ha Hr. revert i del. induction Hr as [|c c' rest rest' Hc _ IH]; intros i del; [reflexivity|].
    simpl. rewrite (mark_from_cong all all' c c' i 0 del Ha Hc). apply IH.
  Qed.

  Lemma absorb_marks_cong : forall l l', Forall2 R l l' -> absorb_marks absorbs l = absorb_marks absorbs l'.
  Proof.
    intros l l' HF. unfold absorb_marks. rewrite (absorb_loop_cong l l' l l' 0 _ HF HF). f_equal.
    clear absorbs_R. induction HF; simpl; congruence.
  Qed.
End MarksCong.

Lemma remove_marked_cong : forall {A} (R : A -> A -> Prop) l l' del, Forall2 R l l' -> Forall2 R (remove_marked l del) (remove_marked l' del).
Proof.
  intros A R l l' del HF. revert del. induction HF as [|x y l l' Hxy _ IH]; intros [|d del]; simpl; try constructor.
  destruct d; [apply IH | constructor; [exact Hxy | apply IH]].
Qed.

Lemma in_cmp_cong : forall x x' l l', ceqc x x' -> Forall2 ceqc l l' -> in_cmp ccmp x l = in_cmp ccmp x' l'.
Proof.
  intros x x' l l' Hx HF. unfold in_cmp. induction HF as [|y y' l l' Hy _ IH]; [reflexivity|].
  simpl. rewrite (cmp_respects ccmp ccmp_lawful x x' y y' Hx Hy), IH. reflexivity.
Qed.

Lemma cabsorbs_cong : forall sec a a' b b', ceqc a a' -> ceqc b b' -> cabsorbs sec a b = cabsorbs sec a' b'.
Proof.
  intros sec a a' b b' Ha Hb. unfold cabsorbs.
  pose proof (ops_of_ceqc sec b b' Hb) as Hob. destruct (ops_of sec b) as [ops2|], (ops_of sec b') as [ops2'|]; try contradiction; [|reflexivity].
  rewrite (in_cmp_cong a a' ops2 ops2' Ha Hob). destruct (in_cmp ccmp a' ops2'); [reflexivity|].
  pose proof (ops_of_ceqc sec a a' Ha) as Hoa. destruct (ops_of sec a) as [ops1|], (ops_of sec a') as [ops1'|]; try contradiction; [|reflexivity].
  clear -Hoa Hob. induction Hoa as [|x x' l l' Hx _ IH]; [reflexivity|]. simpl. rewrite (in_cmp_cong x x' _ _ Hx Hob), IH. reflexivity.
Qed.

Lemma cabsorb_node_cong : forall o l1 l2, Forall2 ceqc l1 l2 -> pcong (cabsorb_node o l1) (cabsorb_node o l2).
Proof.
  intros o l1 l2 HF. unfold cabsorb_node, pcong. cbn [fst snd].
  rewrite (absorb_marks_cong (cabsorbs (other_op o)) ceqc (cabsorbs_cong (other_op o)) l1 l2 HF).
  split; [apply ceqc_mkb; apply remove_marked_cong; exact HF | reflexivity].
Qed.

Lemma cabsorb_cong : forall a b, ceqc a b -> pcong (cabsorb a) (cabsorb b).
Proof. apply (pass_cong cabsorb cabsorb_node); [reflexivity | apply cabsorb_unfold | apply cabsorb_node_cong]. Qed.

Lemma csimplify_cong : forall a b, ceqc a b -> pcong (csimplify a) (csimplify b).
Proof.
  intros a b E. unfold csimplify.
  destruct (cflatten_cong a b E) as [F1 F2]. destruct (cflatten a) as [a1 c1], (cflatten b) as [b1 d1]. cbn [fst snd] in *.
  destruct (corder_cong a1 b1 F1) as [O1 O2]. destruct (corder a1) as [a2 c2], (corder b1) as [b2 d2]. cbn [fst snd] in *.
  destruct (cabsorb_cong a2 b2 O1) as [A1 A2]. destruct (cabsorb a2) as [a3 c3], (cabsorb b2) as [b3 d3]. cbn [fst snd] in *.
  split; [exact A1 | cbn [snd]; rewrite F2, O2, A2; reflexivity].
Qed.

(* ------------------------------------------------------------------ *)
(* results in the error monad                                          *)

Definition rres {A} (R : A -> A -> Prop) (r1 r2 : res (A * bool)) : Prop :=
  match r1, r2 with
  | Ok (a, c), Ok (b, d) => R a b /\ c = d
  | Err x, Err y => x = y
  | _, _ => False
  end.

Definition rres1 {A} (R : A -> A -> Prop) (r1 r2 : res A) : Prop :=
  match r1, r2 with
  | Ok a, Ok b => R a b
  | Err x, Err y => x = y
  | _, _ => False
  end.

Lemma settle_loop_cong : forall {A} (R : A -> A -> Prop) (g : A -> A * bool),
    (forall a b, R a b -> R (fst (g a)) (fst (g b)) /\ snd (g a) = snd (g b)) ->
    forall fuel a b ch, R a b -> rres R (settle_loop fuel (fun x => Ok (g x)) a ch) (settle_loop fuel (fun x => Ok (g x)) b ch).
Proof.
  intros A R g Hg. induction fuel as [|n IH]; intros a b ch Hab; [reflexivity|].
  rewrite !settle_loop_S. destruct (Hg a b Hab) as [H1 H2]. destruct (g a) as [a1 c1], (g b) as [b1 d1]. cbn [fst snd] in *. subst d1.
  destruct c1; [apply IH; exact H1 | simpl; auto].
Qed.

Lemma csettle_cong : forall fuel a b, ceqc a b -> rres ceqc (csettle fuel a) (csettle fuel b).
Proof. intros fuel a b E. unfold csettle, settle. apply (settle_loop_cong ceqc csimplify csimplify_cong). exact E. Qed.

Lemma mapM_cong : forall {A B} (RA : A -> A -> Prop) (RB : B -> B -> Prop) (f1 f2 : A -> res B) l1 l2,
    Forall2 (fun a b => rres1 RB (f1 a) (f2 b)) l1 l2 ->
    rres1 (Forall2 RB) (mapM f1 l1) (mapM f2 l2).
Proof.
  intros A B RA RB f1 f2 l1 l2 HF. induction HF as [|a b l1 l2 Hab _ IH]; [constructor|].
  simpl. destruct (f1 a) as [ya|xa], (f2 b) as [yb|xb]; simpl in Hab; try contradiction; [|exact Hab].
  destruct (mapM f1 l1) as [r1|x1], (mapM f2 l2) as [r2|x2]; simpl in IH |- *; try contradiction; [constructor; assumption | exact IH].
Qed.

(* ---- pieces of the comparison-level DNF ---- *)

Lemma atom_cmp_type : forall x y, atom_cmp x y = Eq -> a_type x = a_type y.
Proof. intros x y E. rewrite atom_cmp_form in E. apply lex2_eq in E. destruct E as [E _]. apply ustr_compare_eq. exact E. Qed.

Lemma rt_dupe_cong : forall a b, ceqc a b -> rt_dupe a = rt_dupe b.
Proof.
  assert (Hl : forall l1 l2, Forall (fun a => forall b, ceqc a b -> rt_dupe a = rt_dupe b) l1 -> Forall2 ceqc l1 l2 ->
                             mapM rt_dupe l1 = mapM rt_dupe l2).
  { intros l1 l2 IH HF. induction HF as [|a b l1 l2 Hab _ IHl]; [reflexivity|].
    inversion IH as [|x xs Ha Hr]; subst. simpl. rewrite (Ha b Hab), (IHl Hr). reflexivity. }
  induction a using cexpr_ind'; intros b E.
  - destruct (ceqc_atom_inv a b E) as [y [-> Ey]]. simpl. rewrite (atom_cmp_type a y Ey). reflexivity.
  - destruct (ceqc_mkb_inv BAnd l b E) as [l2 [-> HF]]. simpl. rewrite (Hl l l2 H HF). reflexivity.
  - destruct (ceqc_mkb_inv BOr l b E) as [l2 [-> HF]]. simpl. rewrite (Hl l l2 H HF). reflexivity.
Qed.

Lemma split_or_cong : forall l1 l2, Forall2 ceqc l1 l2 ->
    Forall2 (Forall2 ceqc) (fst (split_or l1)) (fst (split_or l2)) /\ Forall2 ceqc (snd (split_or l1)) (snd (split_or l2)).
Proof.
  intros l1 l2 HF. induction HF as [|a b l1 l2 Hab _ [I1 I2]]; [split; constructor|].
  simpl. destruct (split_or l1) as [o1 t1], (split_or l2) as [o2 t2]. cbn [fst snd] in *.
  destruct a as [x|la|la].
  - destruct (ceqc_atom_inv x b Hab) as [y [-> _]]. simpl. split; [exact I1 | constructor; assumption].
  - destruct (ceqc_mkb_inv BAnd la b Hab) as [lb [-> HF']]. simpl. split; [exact I1 | constructor; assumption].
  - destruct (ceqc_mkb_inv BOr la b Hab) as [lb [-> HF']]. simpl. split; [constructor; assumption | exact I2].
Qed.

Lemma Forall2_map2 : forall {A B} (R : A -> A -> Prop) (S : B -> B -> Prop) (f g : A -> B) l1 l2,
    (forall a b, R a b -> S (f a) (g b)) -> Forall2 R l1 l2 -> Forall2 S (map f l1) (map g l2).
Proof. intros A B R S f g l1 l2 Hf HF. induction HF; simpl; constructor; auto. Qed.

Lemma Forall2_flat_map2 : forall {A B} (R : A -> A -> Prop) (S : B -> B -> Prop) (f g : A -> list B) l1 l2,
    (forall a b, R a b -> Forall2 S (f a) (g b)) -> Forall2 R l1 l2 -> Forall2 S (flat_map f l1) (flat_map g l2).
Proof. intros A B R S f g l1 l2 Hf HF. induction HF; simpl; [constructor | apply Forall2_app; auto]. Qed.

Lemma product_cong : forall {A} (R : A -> A -> Prop) ls1 ls2,
    Forall2 (Forall2 R) ls1 ls2 -> Forall2 (Forall2 R) (product ls1) (product ls2).
Proof.
  intros A R ls1 ls2 HF. induction HF as [|l1 l2 r1 r2 Hl _ IH]; simpl; [repeat constructor|].
  apply (Forall2_flat_map2 R (Forall2 R)); [|exact Hl].
  intros a b Hab. apply (Forall2_map2 (Forall2 R) (Forall2 R)); [|exact IH]. intros p q Hpq. constructor; assumption.
Qed.

Lemma dnf_prune_cong : forall s1 s2, Forall2 (Forall2 ceqc) s1 s2 -> rres1 (Forall2 ceqc) (dnf_prune s1) (dnf_prune s2).
Proof.
  intros s1 s2 HF. induction HF as [|a b s1 s2 Hab _ IH]; [constructor|].
  cbn [dnf_prune]. rewrite (rt_dupe_cong (CAnd a) (CAnd b) (ceqc_mkb BAnd a b Hab)).
  destruct (rt_dupe (CAnd b)) as [rt|e].
  - destruct (dnf_prune s1) as [k1|x1], (dnf_prune s2) as [k2|x2]; simpl in IH |- *; try contradiction; [|exact IH].
    constructor; [apply (ceqc_mkb BAnd a b Hab) | exact IH].
  - destruct e; try reflexivity. exact IH.
Qed.

Lemma is_empty_or_cong : forall a b, ceqc a b -> is_empty_or a = is_empty_or b.
Proof.
  intros a b E. destruct a as [x|la|la].
  - destruct (ceqc_atom_inv x b E) as [y [-> _]]. reflexivity.
  - destruct (ceqc_mkb_inv BAnd la b E) as [lb [-> _]]. reflexivity.
  - destruct (ceqc_mkb_inv BOr la b E) as [lb [-> HF]]. destruct HF; reflexivity.
Qed.

Lemma existsb_cong : forall {A} (R : A -> A -> Prop) (f : A -> bool) l1 l2,
    (forall a b, R a b -> f a = f b) -> Forall2 R l1 l2 -> existsb f l1 = existsb f l2.
Proof. intros A R f l1 l2 Hf HF. induction HF as [|a b l1 l2 Hab _ IH]; [reflexivity|]. simpl. rewrite (Hf a b Hab), IH. reflexivity. Qed.

Definition pairR (p q : cexpr * bool) : Prop := ceqc (fst p) (fst q) /\ snd p = snd q.

Lemma rres_rres1 : forall r1 r2, rres ceqc r1 r2 -> rres1 pairR r1 r2.
Proof. intros [[a c]|x] [[b d]|y] Hr; simpl in *; auto. Qed.

Theorem cdnf_cong : forall fuel a b, ceqc a b -> rres ceqc (cdnf fuel a) (cdnf fuel b).
Proof.
  induction fuel as [|f IH]; intros a b E; [reflexivity|].
  assert (Hch : forall l1 l2, Forall2 ceqc l1 l2 -> rres1 (Forall2 pairR) (mapM (cdnf f) l1) (mapM (cdnf f) l2)).
  { intros l1 l2 HF. apply (mapM_cong ceqc pairR). eapply Forall2_impl; [|exact HF]. intros x y Hxy. apply rres_rres1. apply IH. exact Hxy. }
  assert (Hfst : forall rs1 rs2, Forall2 pairR rs1 rs2 -> Forall2 ceqc (map fst rs1) (map fst rs2) /\ existsb snd rs1 = existsb snd rs2).
  { intros rs1 rs2 HF. induction HF as [|p q rs1 rs2 [P1 P2] _ [I1 I2]]; [split; [constructor | reflexivity]|].
    simpl. split; [constructor; assumption | rewrite P2, I2; reflexivity]. }
  destruct a as [x|la|la].
  - destruct (ceqc_atom_inv x b E) as [y [-> _]]. simpl. split; [exact E | reflexivity].
  - destruct (ceqc_mkb_inv BAnd la b E) as [lb [-> HF]]. simpl mkb. cbn [cdnf].
    pose proof (Hch la lb HF) as Hm. destruct (mapM (cdnf f) la) as [rs1|x1], (mapM (cdnf f) lb) as [rs2|x2]; simpl in Hm; try contradiction; [|exact Hm].
    simpl. destruct (Hfst rs1 rs2 Hm) as [Hl Hf].
    destruct (split_or_cong _ _ Hl) as [So St].
    destruct (split_or (map fst rs1)) as [ors1 oth1], (split_or (map fst rs2)) as [ors2 oth2]. cbn [fst snd] in *.
    destruct So as [|o1 o2 ors1 ors2 Ho1 So'].
    + simpl. split; [apply (ceqc_mkb BAnd); exact Hl | exact Hf].
    + assert (Hsets : Forall2 (Forall2 ceqc) (map (fun p => oth1 ++ p) (product (o1 :: ors1))) (map (fun p => oth2 ++ p) (product (o2 :: ors2)))).
      { apply (Forall2_map2 (Forall2 ceqc) (Forall2 ceqc)); [intros p q Hpq; apply Forall2_app; assumption|].
        apply product_cong. constructor; assumption. }
      pose proof (dnf_prune_cong _ _ Hsets) as Hp.
      destruct (dnf_prune (map (fun p => oth1 ++ p) (product (o1 :: ors1)))) as [k1|e1],
               (dnf_prune (map (fun p => oth2 ++ p) (product (o2 :: ors2)))) as [k2|e2]; simpl in Hp; try contradiction; [|exact Hp].
      simpl.
      assert (Hk : rres1 (Forall2 ceqc) (mapM (fun c => r <- cdnf f c ;; Ok (fst r)) k1) (mapM (fun c => r <- cdnf f c ;; Ok (fst r)) k2)).
      { apply (mapM_cong ceqc ceqc). eapply Forall2_impl; [|exact Hp]. intros x y Hxy.
        pose proof (IH x y Hxy) as Hr. destruct (cdnf f x) as [[x' cx]|ex], (cdnf f y) as [[y' cy]|ey]; simpl in Hr |- *; try contradiction; tauto. }
      destruct (mapM (fun c => r <- cdnf f c ;; Ok (fst r)) k1) as [kids1|e1],
               (mapM (fun c => r <- cdnf f c ;; Ok (fst r)) k2) as [kids2|e2]; simpl in Hk; try contradiction; [|exact Hk].
      simpl. rewrite (existsb_cong ceqc is_empty_or kids1 kids2 is_empty_or_cong Hk).
      destruct (existsb is_empty_or kids2); [reflexivity|]. simpl. split; [apply (ceqc_mkb BOr); exact Hk | reflexivity].
  - destruct (ceqc_mkb_inv BOr la b E) as [lb [-> HF]]. simpl mkb. cbn [cdnf].
    pose proof (Hch la lb HF) as Hm. destruct (mapM (cdnf f) la) as [rs1|x1], (mapM (cdnf f) lb) as [rs2|x2]; simpl in Hm; try contradiction; [|exact Hm].
    simpl. destruct (Hfst rs1 rs2 Hm) as [Hl Hf]. split; [apply (ceqc_mkb BOr); exact Hl | exact Hf].
Qed.

(* the comparison-level pipeline after the special-value pass *)
Definition ccore (fuel : nat) (e : cexpr) : res (cexpr * bool) :=
  ' (e1, c1) <- csettle fuel e ;;
  ' (e2, c2) <- cdnf fuel e1 ;;
  ' (e3, c3) <- csettle fuel e2 ;;
  Ok (e3, c1 || c2 || c3).

Lemma cnormalize_ccore : forall v fuel e0, cnormalize v fuel e0 = (e <- cspecial v e0 ;; ccore fuel e).
Proof. reflexivity. Qed.

Lemma bind_rres : forall (r1 r2 : res (cexpr * bool)) (k1 k2 : cexpr * bool -> res (cexpr * bool)),
    rres ceqc r1 r2 -> (forall p q, pairR p q -> rres ceqc (k1 p) (k2 q)) -> rres ceqc (bind r1 k1) (bind r2 k2).
Proof.
  intros [[a c]|x] [[b d]|y] k1 k2 Hr Hk; simpl in *; try contradiction; [|exact Hr].
  apply Hk. exact Hr.
Qed.

Theorem ccore_cong : forall fuel a b, ceqc a b -> rres ceqc (ccore fuel a) (ccore fuel b).
Proof.
  intros fuel a b E. unfold ccore.
  apply bind_rres; [apply csettle_cong; exact E|]. intros [a1 c1] [b1 d1] [H1 H1']. simpl in H1, H1'. subst d1.
  apply bind_rres; [apply cdnf_cong; exact H1|]. intros [a2 c2] [b2 d2] [H2 H2']. simpl in H2, H2'. subst d2.
  apply bind_rres; [apply csettle_cong; exact H2|]. intros [a3 c3] [b3 d3] [H3 H3']. simpl in H3, H3'. subst d3.
  simpl. auto.
Qed.

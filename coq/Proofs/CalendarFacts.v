(* Proofs/CalendarFacts.v -- the civil calendar of Model/Calendar.v:
   civil_of_days is a right inverse of the textbook day-number formula on all
   of Z (one 400-year era checked exhaustively by the kernel, 146 097 days,
   lifted to every era by periodicity), and the year bounds of the datetime
   range.                                                                    *)
From Coq Require Import ZArith NArith List Bool Lia.
From V Require Import Model.Calendar.
Import ListNotations.
Open Scope Z_scope.

Ltac Zify.zify_post_hook ::= Z.to_euclidean_division_equations.

(* ---- bounded universal quantifier over N, evaluated by the VM ---- *)
Fixpoint all_below_pos (p : positive) (f : N -> bool) (base : N) : bool :=
  (* checks f on base .. base + p - 1 *)
  match p with
  | xH => f base
  | xO q => all_below_pos q f base && all_below_pos q f (base + Npos q)
  | xI q => f base && all_below_pos q f (base + 1) && all_below_pos q f (base + 1 + Npos q)
  end.

Lemma all_below_pos_spec : forall p f base, all_below_pos p f base = true ->
  forall i, (base <= i < base + Npos p)%N -> f i = true.
Proof.
  induction p as [q IH|q IH|]; intros f base H i Hi; cbn [all_below_pos] in H.
  - apply andb_true_iff in H as [H H2]. apply andb_true_iff in H as [H0 H1].
    destruct (N.eq_dec i base) as [->|Hne]; [exact H0|].
    destruct (N.lt_ge_cases i (base + 1 + Npos q)) as [Hl|Hg].
    + apply (IH f (base + 1)%N H1). lia.
    + apply (IH f (base + 1 + Npos q)%N H2). lia.
  - apply andb_true_iff in H as [H1 H2].
    destruct (N.lt_ge_cases i (base + Npos q)) as [Hl|Hg].
    + apply (IH f base H1). lia.
    + apply (IH f (base + Npos q)%N H2). lia.
  - assert (i = base) by lia. subst. exact H.
Qed.

Definition all_below (n : N) (f : N -> bool) : bool :=
  match n with N0 => true | Npos p => all_below_pos p f 0 end.

Lemma all_below_spec : forall n f, all_below n f = true -> forall i, (i < n)%N -> f i = true.
Proof.
  intros [|p] f H i Hi; [lia|]. apply (all_below_pos_spec p f 0%N H). lia.
Qed.

(* ---- one era ---- *)
Definition era_check (doe : N) : bool :=
  let '(y, m, d) := civil_of_doe 0 (Z.of_N doe) in
  valid_date y m d && (days_of_civil y m d =? Z.of_N doe - 306) && (0 <=? y) && (y <=? 400).

Lemma era_sweep : all_below 146097 era_check = true.
Proof. vm_compute. reflexivity. Qed.

Lemma era_fact : forall doe, 0 <= doe < 146097 ->
  let '(y, m, d) := civil_of_doe 0 doe in
  valid_date y m d = true /\ days_of_civil y m d = doe - 306.
Proof.
  intros doe H.
  pose proof (all_below_spec _ _ era_sweep (Z.to_N doe)) as S.
  unfold era_check in S. rewrite Z2N.id in S by lia.
  destruct (civil_of_doe 0 doe) as [[y m] d].
  assert (Hlt : (Z.to_N doe < 146097)%N) by lia. specialize (S Hlt). cbv beta iota in S |- *.
  repeat (apply andb_true_iff in S as [S ?]).
  split; [unfold valid_date; repeat (apply andb_true_iff; split); assumption | apply Z.eqb_eq; assumption].
Qed.

(* ---- periodicity ---- *)
Lemma is_leap_period : forall y k, is_leap (y + 400 * k) = is_leap y.
Proof.
  intros y k. unfold is_leap.
  replace ((y + 400 * k) mod 4) with (y mod 4) by (replace (y + 400 * k) with (y + (100 * k) * 4) by lia; now rewrite Z_mod_plus_full).
  replace ((y + 400 * k) mod 100) with (y mod 100) by (replace (y + 400 * k) with (y + (4 * k) * 100) by lia; now rewrite Z_mod_plus_full).
  replace ((y + 400 * k) mod 400) with (y mod 400) by (replace (y + 400 * k) with (y + k * 400) by lia; now rewrite Z_mod_plus_full).
  reflexivity.
Qed.

Lemma days_before_year_period : forall y k, days_before_year (y + 400 * k) = days_before_year y + 146097 * k.
Proof.
  intros y k. unfold days_before_year. cbv zeta.
  replace ((y + 400 * k - 1) / 4) with ((y - 1) / 4 + 100 * k) by (replace (y + 400 * k - 1) with (y - 1 + (100 * k) * 4) by lia; now rewrite Z_div_plus_full by lia).
  replace ((y + 400 * k - 1) / 100) with ((y - 1) / 100 + 4 * k) by (replace (y + 400 * k - 1) with (y - 1 + (4 * k) * 100) by lia; now rewrite Z_div_plus_full by lia).
  replace ((y + 400 * k - 1) / 400) with ((y - 1) / 400 + k) by (replace (y + 400 * k - 1) with (y - 1 + k * 400) by lia; now rewrite Z_div_plus_full by lia).
  lia.
Qed.

Lemma days_of_civil_period : forall y m d k, days_of_civil (y + 400 * k) m d = days_of_civil y m d + 146097 * k.
Proof.
  intros. unfold days_of_civil, days_before_month. rewrite days_before_year_period, is_leap_period. lia.
Qed.

Lemma valid_date_period : forall y m d k, valid_date (y + 400 * k) m d = valid_date y m d.
Proof. intros. unfold valid_date, days_in_month. now rewrite is_leap_period. Qed.

Lemma civil_of_doe_era : forall era doe,
  civil_of_doe era doe = let '(y, m, d) := civil_of_doe 0 doe in (y + 400 * era, m, d).
Proof. intros. unfold civil_of_doe. cbv zeta. f_equal. f_equal. lia. Qed.

(* ---- the round trip, for every day number ---- *)
Lemma civil_roundtrip_lemma : forall n,
  let '(y, m, d) := civil_of_days n in valid_date y m d = true /\ days_of_civil y m d = n.
Proof.
  intros n. unfold civil_of_days. cbv zeta. rewrite civil_of_doe_era.
  assert (B : 0 <= (n + 306) mod 146097 < 146097) by (apply Z.mod_pos_bound; lia).
  pose proof (era_fact _ B) as E.
  destruct (civil_of_doe 0 ((n + 306) mod 146097)) as [[y m] d]. cbv beta iota in E |- *. destruct E as [V D].
  rewrite valid_date_period, days_of_civil_period, D. split; [assumption|].
  pose proof (Z.div_mod (n + 306) 146097). lia.
Qed.

(* ---- where a valid date lies ---- *)
Lemma year_length : forall y, days_before_year (y + 1) = days_before_year y + (if is_leap y then 366 else 365).
Proof.
  intros y. unfold days_before_year, is_leap. cbv zeta. replace (y + 1 - 1) with y by lia.
  destruct (y mod 4 =? 0) eqn:E4; destruct (y mod 100 =? 0) eqn:E100; destruct (y mod 400 =? 0) eqn:E400; cbn [andb orb negb];
    rewrite ?Z.eqb_eq, ?Z.eqb_neq in *; lia.
Qed.

Lemma days_before_year_mono : forall y y', y <= y' -> days_before_year y <= days_before_year y'.
Proof. intros y y' H. unfold days_before_year. cbv zeta. lia. Qed.

Lemma valid_date_within_year : forall y m d, valid_date y m d = true ->
  days_before_year y <= days_of_civil y m d < days_before_year (y + 1).
Proof.
  intros y m d V. rewrite year_length. unfold days_of_civil, days_before_month, valid_date, days_in_month in *.
  repeat (apply andb_true_iff in V as [V ?]).
  rewrite ?Z.leb_le in *.
  assert (M : m = 1 \/ m = 2 \/ m = 3 \/ m = 4 \/ m = 5 \/ m = 6 \/ m = 7 \/ m = 8 \/ m = 9 \/ m = 10 \/ m = 11 \/ m = 12) by lia.
  destruct (is_leap y); repeat (destruct M as [M|M]; [subst m; cbn in *; lia|]); subst m; cbn in *; lia.
Qed.

Lemma year_in_range : forall y m d, valid_date y m d = true ->
  0 <= days_of_civil y m d < max_days -> 1 <= y <= 9999.
Proof.
  intros y m d V R. pose proof (valid_date_within_year y m d V) as W. unfold max_days in R.
  split.
  - destruct (Z_lt_ge_dec y 1) as [L|G]; [|lia].
    pose proof (days_before_year_mono (y + 1) 1 ltac:(lia)) as Mn. change (days_before_year 1) with 0 in Mn. lia.
  - destruct (Z_le_gt_dec y 9999) as [L|G]; [lia|].
    pose proof (days_before_year_mono 10000 y ltac:(lia)) as Mn. change (days_before_year 10000) with 3652059 in Mn. lia.
Qed.

(* Proofs/PyTsFacts.v -- the two program fragments of Model/PyTs.v compute what the model of
   Model/Timestamp.v says: frac_digits (format_datetime) and stored_trunc (parse_into_datetime). *)
From Coq Require Import ZArith NArith List Bool Lia.
From V Require Import Base.UString Model.Calendar Model.Timestamp Model.PyTs Spec.TimestampSpec Proofs.TimestampFacts.
Import ListNotations.
Open Scope Z_scope.

Ltac Zify.zify_post_hook ::= Z.to_euclidean_division_equations.

Lemma dchar_is_zero : forall d, isdigit d -> (dchar d =? 48)%N = (d =? 0).
Proof. intros d H. dcases d H; reflexivity. Qed.

Lemma rstrip_c_text : forall ds, Forall isdigit ds -> rstrip_c 48 (text_of ds) = text_of (rstrip0 ds).
Proof.
  induction ds as [|d r IH]; intros F; [reflexivity|]. inversion F; subst.
  cbn [text_of map rstrip_c rstrip0]. fold (text_of r). rewrite IH by assumption.
  destruct (rstrip0 r) as [|x xs]; cbn [text_of map].
  - rewrite dchar_is_zero by assumption. now destruct (d =? 0).
  - reflexivity.
Qed.

Lemma text_of_repeat0 : forall k, text_of (repeat 0 k) = repeat 48%N k.
Proof. induction k; cbn; [reflexivity|]. unfold text_of in IHk. now rewrite IHk. Qed.

Lemma text_of_length : forall ds, length (text_of ds) = length ds.
Proof. intros. unfold text_of. apply map_length. Qed.

(* the fraction text format_datetime builds *)
Theorem format_prog_is_frac_digits : forall p c us,
  format_frac model_format_prog p c us = text_of (frac_digits p c us).
Proof.
  intros p c us. pose proof (digitsn_isdigit 6 us) as F.
  unfold format_frac, model_format_prog, ufrac.
  destruct p, c; cbn [exec exec_stmt eval_c prec_eqb cons_eqb eval_s fst snd frac_digits];
    try (destruct (us =? 0); cbn [negb fst snd exec_stmt eval_s]; [reflexivity|now rewrite rstrip_c_text]);
    try reflexivity.
  (* millisecond / min *)
  rewrite rstrip_c_text by assumption. change (Z.to_nat 3) with 3%nat. unfold ljust3. unfold text_of at 3. rewrite map_app.
  fold (text_of (rstrip0 (digitsn 6 us))). fold (text_of (repeat 0 (3 - length (rstrip0 (digitsn 6 us))))).
  now rewrite text_of_repeat0, text_of_length.
Qed.

(* the microsecond value parse_into_datetime keeps *)
Theorem parse_prog_is_stored_trunc : forall p c t,
  stored_trunc p c t = t - t mod 1000000 + parse_us model_parse_prog p c (t mod 1000000).
Proof.
  intros p c t. unfold parse_us, model_parse_prog.
  destruct p, c; cbn [exec exec_stmt eval_c prec_eqb cons_eqb eval_i fst snd stored_trunc]; lia.
Qed.

(* Proofs/C01Parse.v -- roundtrip_equal at the level of stix2.parse(text) with no version named:
   the object's own encoding is detected as the same spec version, looked up as the same class
   (detect_own_output) and constructed as the same object (Proofs/C01Roundtrip.v).
   Table conditions (kernel-evaluated on the generated tables): registry_ok, parse_class_ok.   *)
From Coq Require Import NArith ZArith List String Bool Lia Permutation.
From V Require Import Base.UString Base.Json Model.SchemaTypes Model.PyBase Model.Schema.
From V Require Import Proofs.C01Basics Proofs.C01Kinds Proofs.C01Float Proofs.C01KindsAll Proofs.C01Sort Proofs.C01Object
  Proofs.C01Roundtrip Proofs.C04Strict.
Import ListNotations.

Definition type_key : ustring := u "type".
Definition sv_key : ustring := u "spec_version".
Definition id_key : ustring := u "id".
Definition bundle_name : ustring := u "bundle".

Definition ver_eqb (a b : ver) : bool := match a, b with V20, V20 | V21, V21 => true | _, _ => false end.

(* every registered type name leads to a class of that version and type; object registries hold no observables *)
Definition registry_ok (w : world) : bool :=
  forallb (fun v =>
    forallb (fun tk => match find_class (wclasses w) (snd tk) with
                       | Some c => ver_eqb (cver c) v &&
                                   match ctype c with Some t => ustr_eqb t (fst tk) | None => false end &&
                                   negb (match cfamily c with FSco => true | _ => false end)
                       | None => false
                       end) (robjects (reg_of w v)) &&
    forallb (fun tk => match find_class (wclasses w) (snd tk) with
                       | Some c => ver_eqb (cver c) v &&
                                   match ctype c with Some t => ustr_eqb t (fst tk) | None => false end
                       | None => false
                       end) (robservables (reg_of w v))) [V20; V21].

Definition parse_class_ok (w : world) (c : cls) : bool :=
  match slot_of c type_key with None => true | Some sl => match skind sl with KFixed _ _ => true | _ => false end end &&
  negb (match ctype c with Some t => ustr_eqb t bundle_name | None => true end) &&
  match slot_of c id_key with Some sl => match sdef sl with DConst _ => false | _ => true end | None => true end &&
  match cver c with
  | V21 =>
    match slot_of c sv_key with
    | Some sl => match skind sl, sdef sl with KFixed fv _, DFixed => ustr_eqb fv (u "2.1") | _, _ => false end
    | None => false
    end
  | V20 =>
    match slot_of c sv_key with None => true | Some _ => false end &&
    match slot_of c id_key with
    | Some sl => match sdef sl with
                 | DNone => true
                 | _ => match ctype c with Some t => negb (amem t (robservables (wreg21 w))) | None => false end
                 end
    | None => true
    end
  end.

(* detect_spec_version on a dictionary whose type is a string other than "bundle" *)
Lemma detect_nonbundle : forall vr w f d t,
  alookup type_key d = Some (JStr t) -> ustr_eqb t bundle_name = false ->
  detect_version vr w (S f) d =
  match alookup sv_key d with
  | Some sv => match sv with
               | JStr s => if ustr_eqb s (u "2.1") then Ok (Some V21) else if ustr_eqb s (u "2.0") then Ok (Some V20) else Ok None
               | JArr _ | JObj _ => Err ETypeError
               | _ => Ok None
               end
  | None => if negb (amem id_key d) then Ok (Some V20)
            else Ok (Some (if amem t (robservables (wreg21 w)) then V21 else V20))
  end.
Proof.
  intros vr w f d t Ht Hb. cbn [detect_version].
  change (u "type") with type_key. change (u "spec_version") with sv_key. change (u "id") with id_key.
  rewrite Ht. cbn [jvalue_eqb]. change (u "bundle") with bundle_name. rewrite Hb. reflexivity.
Qed.

Lemma find_class_cid : forall cs k c, find_class cs k = Some c -> cid c = k.
Proof.
  induction cs as [| c0 r IH]; cbn [find_class]; intros k c H; try discriminate.
  destruct (ustr_eqb (cid c0) k) eqn:E; [inv H; apply ustr_eqb_eq; exact E | apply IH; exact H].
Qed.

Lemma cg_cid : forall vr ev w po so rc rp ro fuel c a i kw pre vrf ci S0 d h,
  construct_generic vr ev w po so rc rp ro fuel c a i kw pre vrf = Ok (PObject ci S0 d h) -> ci = cid c.
Proof.
  intros vr ev w po so rc rp ro fuel c a i kw pre vrf ci S0 d h H. unfold construct_generic in H.
  walk H; inv H; reflexivity.
Qed.

Lemma run_construct_cid : forall vr ev w po so fuel k a i kw vrefs ci S0 d h,
  run vr ev w po so fuel (RConstruct k a i kw vrefs) = Ok (PObject ci S0 d h) -> ci = k.
Proof.
  intros vr ev w po so fuel k a i kw vrefs ci S0 d h H.
  destruct fuel as [| f]; cbn [run] in H; try discriminate.
  destruct (find_class (wclasses w) k) as [c |] eqn:Ef; try discriminate.
  rewrite <- (find_class_cid _ _ _ Ef).
  destruct (amem (u "_valid_refs") kw || amem (u "allow_custom") kw || amem (u "interoperability") kw || amem (u "self") kw);
    try discriminate.
  unfold bind in H.
  match type of H with match ?g with _ => _ end = _ => destruct g as [obj | |] eqn:Eg; try discriminate end.
  assert (Hobj : exists S1, obj = PObject ci S1 d h).
  { destruct obj; try (inv H; eauto; fail).
    destruct (cfamily c); try (inv H; eauto; fail). destruct (cver c); try (inv H; eauto; fail).
    walk H; inv H; eauto. }
  destruct Hobj as [S1 Eobj]. subst obj. clear H.
  destruct (cinit c); try discriminate; try (eapply cg_cid; exact Eg).
  walk Eg; try discriminate;
    match goal with Hg : construct_generic _ _ _ _ _ _ _ _ _ ?c0 _ _ _ _ _ = Ok _ |- _ =>
      apply cg_cid in Hg; cbn [cid] in Hg; exact Hg end.
Qed.

Section Parse.
  Variable vr : variant.
  Variable ev : env.
  Variable w : world.
  Variable pattern_ok : ver -> ustring -> bool.
  Variable selectors_ok : list (ustring * pval) -> pval -> result bool.
  Hypothesis Hpad : vr_year_pad vr = true.
  Variable ids : list ustring.
  Hypothesis Hclosed : closed_okw vr w ids = true.
  Hypothesis Hreg : registry_ok w = true.
  (* the parse entry points among them *)
  Variable pids : list ustring.
  Hypothesis Hsub : forallb (fun k => mem_ustr k ids) pids = true.
  Hypothesis Hpc : forallb (fun k => match find_class (wclasses w) k with Some c => parse_class_ok w c | None => false end) pids = true.

  Notation RUN := (run vr ev w pattern_ok selectors_ok).

  Lemma class_for_found : forall t vv k,
    (match class_for w t vv 0%N with Some c0 => Some c0 | None => class_for w t vv 1%N end) = Some k ->
    exists c, find_class (wclasses w) k = Some c /\ cver c = vv /\ ctype c = Some t /\
              (is_sco21 c = true -> amem t (robservables (wreg21 w)) = true).
  Proof.
    intros t vv k H. unfold registry_ok in Hreg. rewrite forallb_forall in Hreg.
    assert (Hv : In vv [V20; V21]) by (destruct vv; cbn; auto).
    specialize (Hreg vv Hv). apply andb_true_iff in Hreg. destruct Hreg as [Ho Hb].
    rewrite forallb_forall in Ho. rewrite forallb_forall in Hb.
    assert (Hassoc : forall m, assoc t m = Some k -> In (t, k) m).
    { induction m as [| [k' v'] r IH]; cbn [assoc]; intros E; try discriminate.
      destruct (ustr_eqb t k') eqn:Et; [apply ustr_eqb_eq in Et; subst; inv E; left; reflexivity | right; apply IH; exact E]. }
    unfold class_for in H.
    destruct (assoc t (robjects (reg_of w vv))) as [k0 |] eqn:E0.
    - inv H. specialize (Ho (t, k) (Hassoc _ E0)). cbn [fst snd] in Ho.
      destruct (find_class (wclasses w) k) as [c |]; try discriminate. exists c. split; auto.
      apply andb_true_iff in Ho. destruct Ho as [Ho Hf]. apply andb_true_iff in Ho. destruct Ho as [Hver Hty].
      destruct (ctype c) as [t0 |]; try discriminate. apply ustr_eqb_eq in Hty. subst t0.
      repeat split; auto.
      + destruct (cver c), vv; try discriminate; reflexivity.
      + intros Hs. unfold is_sco21 in Hs. destruct (cfamily c); try discriminate.
    - specialize (Hb (t, k) (Hassoc _ H)). cbn [fst snd] in Hb.
      destruct (find_class (wclasses w) k) as [c |]; try discriminate. exists c. split; auto.
      apply andb_true_iff in Hb. destruct Hb as [Hver Hty].
      destruct (ctype c) as [t0 |]; try discriminate. apply ustr_eqb_eq in Hty. subst t0.
      assert (Ev : cver c = vv) by (destruct (cver c), vv; try discriminate; reflexivity).
      repeat split; auto.
      intros Hs. unfold is_sco21 in Hs. destruct (cfamily c); try discriminate. rewrite Ev in Hs. destruct vv; try discriminate.
      unfold amem. cbn [reg_of] in H.
      clear - H. induction (robservables (wreg21 w)) as [| [k' v'] r IH]; cbn [assoc alookup] in *; try discriminate.
      destruct (ustr_eqb t k'); auto.
  Qed.

  (* a successful parse of a covered class is a constructor run of that class, and conversely *)
  Lemma parse_inv : forall f allow interop d ci Sv dfl hc,
    mem_ustr ci pids = true ->
    RUN (S f) (RParse allow interop None d) = Ok (PObject ci Sv dfl hc) ->
    exists t vv,
      alookup type_key d = Some (JStr t) /\ detect_version vr w (S f) d = Ok (Some vv) /\
      (match class_for w t vv 0%N with Some c0 => Some c0 | None => class_for w t vv 1%N end) = Some ci /\
      RUN f (RConstruct ci allow interop d None) = Ok (PObject ci Sv dfl hc).
  Proof.
    intros f allow interop d ci Sv dfl hc Hmp H.
    cbn [run] in H. change (u "type") with type_key in H.
    destruct (alookup type_key d) as [ty |] eqn:Ety; try discriminate.
    unfold bind in H.
    destruct (detect_version vr w (S f) d) as [ovv | |] eqn:Edet; try discriminate.
    set (found := match ty, ovv with
                  | JStr t, Some vv => match class_for w t vv 0%N with Some c0 => Some c0 | None => class_for w t vv 1%N end
                  | _, _ => None
                  end) in *.
    assert (Hfound : exists k, found = Some k).
    { destruct found as [k |] eqn:Ef; [eauto |]. exfalso.
      destruct ty; try discriminate;
        (destruct allow; [inv H |
         match type of H with match ?g with _ => _ end = _ => destruct g as [x |] eqn:Ex; try discriminate end;
         try (destruct x; try discriminate; try (destruct (vr_d2s_ext_guard vr); discriminate);
              apply d2s_ext_scan_result in H; discriminate)]). }
    destruct Hfound as [k Efound].
    assert (Hty : exists t vv, ty = JStr t /\ ovv = Some vv /\
              (match class_for w t vv 0%N with Some c0 => Some c0 | None => class_for w t vv 1%N end) = Some k).
    { unfold found in Efound. destruct ty; try discriminate. destruct ovv as [vv |]; try discriminate. eauto. }
    destruct Hty as [t [vv [Ety2 [Eovv Ecf]]]]. subst ty ovv.
    cbv zeta in H. fold found in H. rewrite Efound in H.
    destruct (RUN f (RConstruct k allow interop d None)) as [o0 | |] eqn:Er; try discriminate.
    destruct (vr_parse_guard_custom vr && negb allow && pval_has_custom o0); try discriminate. inv H.
    pose proof (run_construct_cid _ _ _ _ _ _ _ _ _ _ _ _ _ _ _ Er) as Ek. subst k.
    exists t, vv. auto.
  Qed.

  Lemma parse_intro : forall f allow interop d t vv k o,
    alookup type_key d = Some (JStr t) -> detect_version vr w (S f) d = Ok (Some vv) ->
    (match class_for w t vv 0%N with Some c0 => Some c0 | None => class_for w t vv 1%N end) = Some k ->
    RUN f (RConstruct k allow interop d None) = Ok o ->
    vr_parse_guard_custom vr && negb allow && pval_has_custom o = false ->
    RUN (S f) (RParse allow interop None d) = Ok o.
  Proof.
    intros f allow interop d t vv k o Ety Edet Ecf Er Hg.
    remember f as f0. cbn [run]. change (u "type") with type_key. rewrite Ety. unfold bind. rewrite Edet.
    cbv zeta. rewrite Ecf. subst f0. rewrite Er. rewrite Hg. reflexivity.
  Qed.

  Lemma parse_inv2 : forall f allow interop d t vv k o,
    alookup type_key d = Some (JStr t) -> detect_version vr w (S f) d = Ok (Some vv) ->
    (match class_for w t vv 0%N with Some c0 => Some c0 | None => class_for w t vv 1%N end) = Some k ->
    RUN (S f) (RParse allow interop None d) = Ok o ->
    RUN f (RConstruct k allow interop d None) = Ok o.
  Proof.
    intros f allow interop d t vv k o Ety Edet Ecf H.
    remember f as f0. cbn [run] in H. change (u "type") with type_key in H. rewrite Ety in H. unfold bind in H. rewrite Edet in H.
    cbv zeta in H. rewrite Ecf in H. subst f0.
    destruct (RUN f (RConstruct k allow interop d None)) as [o0 | |]; try discriminate.
    destruct (vr_parse_guard_custom vr && negb allow && pval_has_custom o0); try discriminate. exact H.
  Qed.

  (* the round trip, and what else is preserved: plainness, absence of reserved names, the type, the presence of an id *)
  Theorem parse_roundtrip_full : forall fuel allow interop d ci Sv dfl hc,
    plain_dict d = true ->
    mem_ustr ci pids = true ->
    (amem id_key d = true \/ forall t, alookup type_key d = Some (JStr t) -> amem t (robservables (wreg21 w)) = false) ->
    RUN fuel (RParse allow interop None d) = Ok (PObject ci Sv dfl hc) ->
    RUN fuel (RParse allow interop None (omem (PObject ci Sv dfl hc))) = Ok (PObject ci Sv dfl hc) /\
    (plain_dict (omem (PObject ci Sv dfl hc)) = true /\ reserved_kw (omem (PObject ci Sv dfl hc)) = Ok tt /\
     (exists t, alookup type_key d = Some (JStr t) /\ alookup type_key (omem (PObject ci Sv dfl hc)) = Some (JStr t)) /\
     (amem id_key d = true -> amem id_key (omem (PObject ci Sv dfl hc)) = true) /\
     (forall n, amem n (omem (PObject ci Sv dfl hc)) = true -> amem n Sv = true)).
  Proof.
    intros fuel allow interop d ci Sv dfl hc Hp Hmp Hid H.
    assert (Hm : mem_ustr ci ids = true).
    { rewrite forallb_forall in Hsub. apply Hsub. apply mem_ustr_In. exact Hmp. }
    destruct fuel as [| f]; [cbn [run] in H; discriminate |].
    cbn [run] in H. change (u "type") with type_key in H.
    destruct (alookup type_key d) as [ty |] eqn:Ety; try discriminate.
    unfold bind in H.
    destruct (detect_version vr w (S f) d) as [ovv | |] eqn:Edet; try discriminate.
    set (found := match ty, ovv with
                  | JStr t, Some vv => match class_for w t vv 0%N with Some c0 => Some c0 | None => class_for w t vv 1%N end
                  | _, _ => None
                  end) in *.
    assert (Hfound : exists k, found = Some k).
    { destruct found as [k |] eqn:Ef; [eauto |]. exfalso.
      destruct ty; try discriminate;
        (destruct allow; [inv H |
         match type of H with match ?g with _ => _ end = _ => destruct g as [x |] eqn:Ex; try discriminate end;
         try (destruct x; try discriminate; try (destruct (vr_d2s_ext_guard vr); discriminate);
              apply d2s_ext_scan_result in H; discriminate)]). }
    destruct Hfound as [k Efound].
    assert (Hty : exists t vv, ty = JStr t /\ ovv = Some vv /\
              (match class_for w t vv 0%N with Some c0 => Some c0 | None => class_for w t vv 1%N end) = Some k).
    { unfold found in Efound. destruct ty; try discriminate. destruct ovv as [vv |]; try discriminate. eauto. }
    destruct Hty as [t [vv [Ety2 [Eovv Ecf]]]]. subst ty ovv.
    assert (Hrun : exists o0, RUN f (RConstruct k allow interop d None) = Ok o0 /\ o0 = PObject ci Sv dfl hc).
    { cbv zeta in H. fold found in H. rewrite Efound in H.
      destruct (RUN f (RConstruct k allow interop d None)) as [o0 | |] eqn:Er; try discriminate.
      destruct (vr_parse_guard_custom vr && negb allow && pval_has_custom o0); try discriminate. inv H. eauto. }
    destruct Hrun as [o0 [Er Eo0]]. subst o0.
    destruct (class_for_found t vv k Ecf) as [c [Efc [Ever [Ectype Hsco]]]].
    destruct f as [| f']; [cbn [run] in Er; discriminate |].
    (* the class of the result is the class found *)
    assert (Hk : mem_ustr k ids = true /\ mem_ustr k pids = true /\ ci = cid c).
    { pose proof (run_construct_cid _ _ _ _ _ _ _ _ _ _ _ _ _ _ _ Er) as Ek. subst k.
      rewrite (find_class_cid _ _ _ Efc). auto. }
    destruct Hk as [Hkm [Hkp Eci]]. subst ci.
    assert (Hidk : id_given w k d = true).
    { unfold id_given. rewrite Efc. destruct (is_sco21 c) eqn:Es; cbn [negb orb]; auto.
      destruct Hid as [Hi | Hi]; [exact Hi |]. rewrite (Hi t eq_refl) in Hsco. specialize (Hsco eq_refl). discriminate. }
    destruct (run_construct_eff vr ev w pattern_ok selectors_ok Hpad ids Hclosed f' k allow interop d None _ Hkm Hp Hidk Er)
      as [c' [Efc' [Hcok Heff]]].
    unfold effective in Heff.
    destruct Heff as [cE [rcE [PE [dE [Hrc [Hnd [Hslots [Hcg [HpE [Hagree [EcidE [EdflE [HslotE _]]]]]]]]]]]]].
    rewrite Efc in Efc'. inv Efc'.
    pose proof (run_construct_idem vr ev w pattern_ok selectors_ok Hpad ids Hclosed (S f') k allow interop d None _ Hkm Hp Hidk Er)
      as [_ [Hresw [Hre Hplw]]].
    set (rp := fun a i d0 => RUN f' (RParse a i None d0)) in *.
    set (ro := fun vv0 refs a d0 => RUN f' (RParseObs (Some vv0) refs a false d0)) in *.
    set (vrf := match cfamily c' with FSco => Some [] | _ => None end) in *.
    (* shape of the result *)
    destruct (cg_idem vr ev w pattern_ok selectors_ok rcE rp ro PE Hpad Hrc cE allow interop vrf Hnd Hslots (S f') dE _ HpE Hcg)
      as [S' [hc' [Eobj [_ [_ Hgiven']]]]].
    rewrite EcidE, EdflE in Eobj.
    inversion Eobj; subst S' dfl hc'. clear Eobj.
    (* the three names the parse looks at are untouched by the class __init__ *)
    assert (Kt : type_key <> PVERSION /\ type_key <> DEF /\ type_key <> CREATED) by (repeat split; intros E; vm_compute in E; discriminate).
    assert (Ks : sv_key <> PVERSION /\ sv_key <> DEF /\ sv_key <> CREATED) by (repeat split; intros E; vm_compute in E; discriminate).
    assert (Ki : id_key <> PVERSION /\ id_key <> DEF /\ id_key <> CREATED) by (repeat split; intros E; vm_compute in E; discriminate).
    assert (Hgiven : amem id_key d = true -> amem id_key Sv = true).
    { intros Hd. apply Hgiven'. unfold amem in *. rewrite (Hagree id_key (proj1 Ki)). exact Hd. }
    assert (GV : forall n j, (n <> PVERSION /\ n <> DEF /\ n <> CREATED) -> alookup n d = Some j ->
                 match slot_of c' n with
                 | None => alookup n Sv = Some (PJ j)
                 | Some sl => exists v h, alookup n Sv = Some v /\ clean_kind vr w rcE rp ro (skind sl) allow interop j = Ok (v, h)
                 end).
    { intros n j [K1 [K2 K3]] Ej. rewrite <- (HslotE n K2 K3).
      apply (cg_given_value vr ev w pattern_ok selectors_ok rcE rp ro cE allow interop vrf Hnd (S f') dE Sv (defaulted_names cE Sv) hc n j HpE).
      - rewrite EcidE, EdflE. exact Hcg.
      - rewrite (Hagree n K1). exact Ej. }
    assert (AB : forall n, (n <> PVERSION /\ n <> DEF /\ n <> CREATED) -> alookup n d = None ->
                 (forall sl, slot_of c' n = Some sl -> sdef sl = DNone) -> amem n Sv = false).
    { intros n [K1 [K2 K3]] Ej Hd.
      apply (cg_absent vr ev w pattern_ok selectors_ok rcE rp ro cE allow interop vrf Hnd (S f') dE Sv (defaulted_names cE Sv) hc n HpE).
      - rewrite EcidE, EdflE. exact Hcg.
      - rewrite (Hagree n K1). exact Ej.
      - intros sl Hsl. apply Hd. rewrite <- (HslotE n K2 K3). exact Hsl. }
    assert (DP : forall n sl, (n <> PVERSION /\ n <> DEF /\ n <> CREATED) -> alookup n d = None -> slot_of c' n = Some sl -> sdef sl <> DNone ->
                 amem n Sv = true /\
                 (forall fv al, skind sl = KFixed fv al -> sdef sl = DFixed -> alookup n Sv = Some (PJ (JStr fv)))).
    { intros n sl [K1 [K2 K3]] Ej Hsl Hdn.
      apply (cg_default_present vr ev w pattern_ok selectors_ok rcE rp ro cE allow interop vrf Hnd (S f') dE Sv (defaulted_names cE Sv) hc n sl HpE).
      - rewrite EcidE, EdflE. exact Hcg.
      - rewrite (Hagree n K1). exact Ej.
      - rewrite (HslotE n K2 K3). exact Hsl.
      - exact Hdn. }
    assert (MD : forall n, mem_ustr n (defaulted_names c' Sv) = true ->
                 exists sl b, (n <> DEF -> n <> CREATED -> slot_of c' n = Some sl) /\ sdef sl = DConst (JBool b) /\ alookup n Sv = Some (PJ (JBool b))).
    { intros n Hn. rewrite <- EdflE in Hn. destruct (mem_defaulted vr PE cE Hnd Hslots _ _ Hn) as [sl [b [E1 [E2 E3]]]].
      exists sl, b. split; [| auto]. intros K2 K3. rewrite <- (HslotE n K2 K3). exact E1. }
    rewrite forallb_forall in Hpc. pose proof (Hpc k (proj1 (mem_ustr_In k pids) Hkp)) as Hpk. rewrite Efc in Hpk.
    unfold parse_class_ok in Hpk.
    apply andb_true_iff in Hpk. destruct Hpk as [Hpk Hver]. apply andb_true_iff in Hpk. destruct Hpk as [Hpk Hidslot].
    apply andb_true_iff in Hpk. destruct Hpk as [Htyslot Hnb].
    rewrite Ectype in Hnb. apply negb_true_iff in Hnb.
    assert (Eom : omem (PObject (cid c') Sv (defaulted_names c' Sv) hc) = written c' Sv) by (unfold omem; rewrite encode_obj; reflexivity).
    rewrite Eom in *.
    (* "type" is written as given *)
    assert (Htype' : alookup type_key (written c' Sv) = Some (JStr t)).
    { rewrite alookup_written.
      pose proof (GV type_key (JStr t) Kt Ety) as Hv.
      assert (Es : alookup type_key Sv = Some (PJ (JStr t))).
      { destruct (slot_of c' type_key) as [sl |] eqn:Esl; [| exact Hv].
        destruct Hv as [v [h [E1 E2]]]. destruct (skind sl); try discriminate. cbn [clean_kind] in E2.
        destruct (jvalue_eqb (JStr t) (JStr v0)); try discriminate. inv E2. exact E1. }
      rewrite Es. destruct (mem_ustr type_key (defaulted_names c' Sv)) eqn:Ed; auto.
      destruct (MD _ Ed) as [sl [b [_ [_ E3]]]]. rewrite Es in E3. discriminate. }
    (* the version is detected again *)
    assert (Hdet' : detect_version vr w (S (S f')) (written c' Sv) = Ok (Some (cver c'))).
    { rewrite (detect_nonbundle vr w (S f') (written c' Sv) t Htype' Hnb).
      rewrite (detect_nonbundle vr w (S f') d t Ety Hnb) in Edet.
      assert (Hnotdfl : forall n v, alookup n Sv = Some v -> (forall b, v <> PJ (JBool b)) -> alookup n (written c' Sv) = Some (encode false v)).
      { intros n v Ev Hnb0. rewrite alookup_written, Ev.
        destruct (mem_ustr n (defaulted_names c' Sv)) eqn:Ed; auto.
        destruct (MD _ Ed) as [sl [b [_ [_ E3]]]]. rewrite Ev in E3. inv E3.
        exfalso. eapply Hnb0. reflexivity. }
      destruct (cver c') eqn:Ecv.
      - (* 2.0 *)
        apply andb_true_iff in Hver. destruct Hver as [Hsvslot Hidd].
        destruct (slot_of c' sv_key) eqn:Esv; try discriminate.
        destruct (alookup sv_key d) as [sv0 |] eqn:Esvd.
        + pose proof (GV sv_key sv0 Ks Esvd) as Hv. rewrite Esv in Hv.
          rewrite alookup_written, Hv.
          destruct (mem_ustr sv_key (defaulted_names c' Sv)) eqn:Ed.
          * exfalso. destruct (MD _ Ed) as [sl [b [E1 _]]]. specialize (E1 (proj1 (proj2 Ks)) (proj2 (proj2 Ks))).
            rewrite E1 in Esv. discriminate.
          * cbn [encode]. exact Edet.
        + assert (Habs : amem sv_key Sv = false).
          { apply (AB sv_key Ks Esvd). intros sl Hsl. rewrite Esv in Hsl. discriminate. }
          assert (Ew : alookup sv_key (written c' Sv) = None).
          { rewrite alookup_written. unfold amem in Habs. destruct (alookup sv_key Sv); [discriminate | reflexivity]. }
          rewrite Ew.
          destruct (amem id_key d) eqn:Eidd; cbn [negb] in Edet |- *.
          * assert (Hidw : amem id_key (written c' Sv) = true).
            { pose proof (Hgiven eq_refl) as Hs. unfold amem in *. rewrite alookup_written.
              destruct (alookup id_key Sv) as [v0 |] eqn:Ev; try discriminate.
              destruct (mem_ustr id_key (defaulted_names c' Sv)) eqn:Ed; auto.
              destruct (MD _ Ed) as [sl [b [E1 [E2 _]]]]. specialize (E1 (proj1 (proj2 Ki)) (proj2 (proj2 Ki))).
              rewrite E1 in Hidslot. rewrite E2 in Hidslot. discriminate. }
            rewrite Hidw. cbn [negb]. exact Edet.
          * (* no id given: either still none, or one was filled in and the type is not a 2.1 observable *)
            destruct (amem id_key (written c' Sv)) eqn:Eidw; cbn [negb]; [| reflexivity].
            assert (Hids : amem id_key Sv = true).
            { unfold amem in *. rewrite alookup_written in Eidw. destruct (alookup id_key Sv); [reflexivity | discriminate]. }
            assert (Hidn : alookup id_key d = None) by (apply amem_alookup_none; exact Eidd).
            destruct (slot_of c' id_key) as [sl |] eqn:Eidsl.
            -- destruct (sdef sl) eqn:Edf.
               ++ exfalso. assert (amem id_key Sv = false).
                  { apply (AB id_key Ki Hidn). intros sl0 Hsl0. rewrite Eidsl in Hsl0. inv Hsl0. exact Edf. }
                  congruence.
               ++ rewrite Ectype in Hidd. apply negb_true_iff in Hidd. rewrite Hidd. reflexivity.
               ++ rewrite Ectype in Hidd. apply negb_true_iff in Hidd. rewrite Hidd. reflexivity.
               ++ rewrite Ectype in Hidd. apply negb_true_iff in Hidd. rewrite Hidd. reflexivity.
               ++ rewrite Ectype in Hidd. apply negb_true_iff in Hidd. rewrite Hidd. reflexivity.
            -- exfalso. assert (amem id_key Sv = false).
               { apply (AB id_key Ki Hidn). intros sl0 Hsl0. rewrite Eidsl in Hsl0. discriminate. }
               congruence.
      - (* 2.1: spec_version is a fixed slot *)
        destruct (slot_of c' sv_key) as [sl |] eqn:Esv; try discriminate.
        destruct (skind sl) eqn:Eknd; try discriminate. destruct (sdef sl) eqn:Edf; try discriminate.
        apply ustr_eqb_eq in Hver. subst v.
        assert (Es : alookup sv_key Sv = Some (PJ (JStr (u "2.1")))).
        { destruct (alookup sv_key d) as [sv0 |] eqn:Esvd.
          - pose proof (GV sv_key sv0 Ks Esvd) as Hv. rewrite Esv in Hv.
            destruct Hv as [v [h [E1 E2]]]. rewrite Eknd in E2. cbn [clean_kind] in E2.
            destruct (jvalue_eqb sv0 (JStr (u "2.1"))) eqn:Ej; try discriminate. apply jvalue_eqb_eq in Ej. subst sv0. inv E2. exact E1.
          - assert (Hdn : sdef sl <> DNone) by (rewrite Edf; discriminate).
            destruct (DP sv_key sl Ks Esvd Esv Hdn) as [_ Hfx].
            exact (Hfx _ _ Eknd Edf). }
        rewrite (Hnotdfl sv_key _ Es) by (intros b Eb; discriminate). cbn [encode]. reflexivity. }
    split.
    - (* put the pieces together *)
      cbv zeta in H. fold found in H. rewrite Efound in H. rewrite Er in H. cbn [pval_has_custom] in H.
      remember (S f') as f0 eqn:Ef0.
      cbn [run]. change (u "type") with type_key. rewrite Htype'. unfold bind. rewrite Hdet'.
      cbv zeta. rewrite Ecf. rewrite Hre. cbn [pval_has_custom].
      destruct (vr_parse_guard_custom vr && negb allow && hc); [discriminate | reflexivity].
    - split; [exact Hplw |]. split; [exact Hresw |]. split; [exists t; auto |]. split.
      + intros Eidd. pose proof (Hgiven Eidd) as Hs. unfold amem in *. rewrite alookup_written.
        destruct (alookup id_key Sv) as [v0 |] eqn:Ev; try discriminate.
        destruct (mem_ustr id_key (defaulted_names c' Sv)) eqn:Ed; auto.
        destruct (MD _ Ed) as [sl [b [E1 [E2 _]]]]. specialize (E1 (proj1 (proj2 Ki)) (proj2 (proj2 Ki))).
        rewrite E1 in Hidslot. rewrite E2 in Hidslot. discriminate.
      + intros n Hn. unfold amem in *. rewrite alookup_written in Hn. destruct (alookup n Sv); [reflexivity | discriminate].
  Qed.

  Theorem parse_roundtrip : forall fuel allow interop d ci Sv dfl hc,
    plain_dict d = true ->
    mem_ustr ci pids = true ->
    (amem id_key d = true \/ forall t, alookup type_key d = Some (JStr t) -> amem t (robservables (wreg21 w)) = false) ->
    RUN fuel (RParse allow interop None d) = Ok (PObject ci Sv dfl hc) ->
    RUN fuel (RParse allow interop None (omem (PObject ci Sv dfl hc))) = Ok (PObject ci Sv dfl hc).
  Proof.
    intros fuel allow interop d ci Sv dfl hc Hp Hmp Hid H.
    exact (proj1 (parse_roundtrip_full fuel allow interop d ci Sv dfl hc Hp Hmp Hid H)).
  Qed.
End Parse.

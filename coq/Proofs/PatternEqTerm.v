(* Proofs/PatternEqTerm.v -- termination: some amount of fuel always suffices.

   SettleTransformer: one round of flatten / order / absorb never grows the
   expression; a round that changes something either shrinks it (a node
   spliced or collapsed, a duplicate dropped, an operand absorbed) or only
   reorders operands, and a round that only reorders is followed by a round
   that changes nothing (a sorted tree is a fixed point of the three passes).
   Hence at most 2 * size + 2 rounds.                                     *)
From Coq Require Import NArith ZArith List Bool Permutation Lia Arith String Sorted.
From V Require Import Base.UString Model.PatternEq Proofs.PatternEqCmp Proofs.PatternEqLists Proofs.PatternEqSort.
Import ListNotations.
Local Open Scope nat_scope.
Local Open Scope list_scope.

(* ------------------------------------------------------------------ *)
(* the settle loop, abstractly                                         *)

Lemma settle_loop_more : forall {A} (f : A -> res (A * bool)) fuel a ch r k,
    settle_loop fuel f a ch = Ok r -> settle_loop (fuel + k) f a ch = Ok r.
Proof.
  intros A f. induction fuel as [|n IH]; intros a ch r k E; [discriminate|].
  simpl in *. destruct (f a) as [[a1 c1]|]; [|discriminate]. destruct c1; [apply IH; exact E | exact E].
Qed.

Lemma settle_loop_S : forall {A} (f : A -> res (A * bool)) n a ch,
    settle_loop (S n) f a ch =
    match f a with Err e => Err e | Ok (a', c) => if c then settle_loop n f a' true else Ok (a', ch) end.
Proof. reflexivity. Qed.

Section SettleTerminates.
  Context {A : Type} (g : A -> A * bool) (size : A -> nat).
  Hypothesis g_le : forall a, size (fst (g a)) <= size a.
  Hypothesis g_fix : forall a, snd (g a) = true -> size (fst (g a)) = size a -> g (fst (g a)) = (fst (g a), false).

  Lemma settle_terminates_bound : forall n a ch, size a <= n ->
      exists r, settle_loop (2 * n + 2) (fun x => Ok (g x)) a ch = Ok r.
  Proof.
    induction n as [|n IH]; intros a ch Hs.
    - (* size 0: at most one changing round *)
      simpl. destruct (g a) as [a1 c1] eqn:E1. destruct c1; [|eexists; reflexivity].
      pose proof (g_le a) as Hle. rewrite E1 in Hle. simpl in Hle.
      assert (Hf : g a1 = (a1, false)).
      { pose proof (g_fix a) as Hf. rewrite E1 in Hf. simpl in Hf. apply Hf; [reflexivity | lia]. }
      rewrite Hf. eexists; reflexivity.
    - replace (2 * S n + 2) with (S (S (2 * n + 2))) by lia.
      rewrite settle_loop_S. destruct (g a) as [a1 c1] eqn:E1. destruct c1; [|eexists; reflexivity].
      pose proof (g_le a) as Hle. rewrite E1 in Hle. simpl in Hle.
      destruct (Nat.eq_dec (size a1) (size a)) as [Heq|Hne].
      + assert (Hf : g a1 = (a1, false)).
        { pose proof (g_fix a) as Hf. rewrite E1 in Hf. simpl in Hf. apply Hf; [reflexivity | exact Heq]. }
        rewrite settle_loop_S, Hf. eexists; reflexivity.
      + destruct (IH a1 true) as [r Er]; [lia|].
        exists r. replace (S (2 * n + 2)) with ((2 * n + 2) + 1) by lia. apply settle_loop_more. exact Er.
  Qed.

  Lemma settle_terminates : forall a, exists fuel r, settle fuel (fun x => Ok (g x)) a = Ok r.
  Proof.
    intro a. destruct (settle_terminates_bound (size a) a false (le_n _)) as [r Er]. exists (2 * size a + 2), r. exact Er.
  Qed.
End SettleTerminates.

(* ------------------------------------------------------------------ *)
(* sizes                                                               *)

Definition lsum {A} (sz : A -> nat) (l : list A) : nat := list_sum (map sz l).

Fixpoint csize (e : cexpr) : nat :=
  match e with
  | Atom _ => 1
  | CAnd l => S (list_sum (map csize l))
  | COr l => S (list_sum (map csize l))
  end.

Lemma csize_mkb : forall o l, csize (mkb o l) = S (lsum csize l).
Proof. destruct o; reflexivity. Qed.

Lemma csize_pos : forall e, 1 <= csize e.
Proof. destruct e; simpl; lia. Qed.

Lemma lsum_app : forall {A} (sz : A -> nat) l1 l2, lsum sz (l1 ++ l2) = lsum sz l1 + lsum sz l2.
Proof. intros. unfold lsum. rewrite map_app, list_sum_app. reflexivity. Qed.

Lemma lsum_cons : forall {A} (sz : A -> nat) x l, lsum sz (x :: l) = sz x + lsum sz l.
Proof. reflexivity. Qed.

Lemma lsum_perm : forall {A} (sz : A -> nat) l l', Permutation l l' -> lsum sz l = lsum sz l'.
Proof. induction 1; unfold lsum in *; simpl in *; lia. Qed.

(* what one pass does to the size: never grows; a reported change shrinks; no reported change = identity *)
Definition shrinks {A} (sz : A -> nat) (r : A * bool) (bound : nat) (orig : A) : Prop :=
  sz (fst r) <= bound /\ (snd r = true -> sz (fst r) < bound) /\ (snd r = false -> fst r = orig).

(* children first *)
Lemma children_shrink : forall {A} (sz : A -> nat) (pass : A -> A * bool) l,
    Forall (fun e => shrinks sz (pass e) (sz e) e) l ->
    lsum sz (map fst (map pass l)) <= lsum sz l /\
    (existsb snd (map pass l) = true -> lsum sz (map fst (map pass l)) < lsum sz l) /\
    (existsb snd (map pass l) = false -> map fst (map pass l) = l).
Proof.
  intros A sz pass l. induction 1 as [|e l [H1 [H2 H3]] _ [I1 [I2 I3]]]; simpl.
  - repeat split; auto; discriminate.
  - rewrite !lsum_cons. repeat split.
    + lia.
    + intro E. apply orb_true_iff in E. destruct E as [E|E]; [specialize (H2 E) | specialize (I2 E)]; lia.
    + intro E. apply orb_false_iff in E. destruct E as [E1 E2]. rewrite (H3 E1), (I3 E2). reflexivity.
Qed.

Section BottomUp.
  Variable pass : cexpr -> cexpr * bool.
  Variable node : bop -> list cexpr -> cexpr * bool.
  Hypothesis pass_atom : forall a, pass (Atom a) = (Atom a, false).
  Hypothesis pass_node : forall o l,
      pass (mkb o l) = (fst (node o (map fst (map pass l))),
                        existsb snd (map pass l) || snd (node o (map fst (map pass l)))).
  Hypothesis node_spec : forall o l, shrinks csize (node o l) (S (lsum csize l)) (mkb o l).

  Lemma pass_shrinks : forall e, shrinks csize (pass e) (csize e) e.
  Proof.
    assert (Hn : forall o l, Forall (fun e => shrinks csize (pass e) (csize e) e) l ->
                             shrinks csize (pass (mkb o l)) (csize (mkb o l)) (mkb o l)).
    { intros o l HF. destruct (children_shrink csize pass l HF) as [I1 [I2 I3]].
      destruct (node_spec o (map fst (map pass l))) as [N1 [N2 N3]].
      rewrite pass_node, csize_mkb. unfold shrinks. cbn [fst snd]. repeat split.
      - lia.
      - intro E. apply orb_true_iff in E. destruct E as [E|E]; [specialize (I2 E) | specialize (N2 E)]; lia.
      - intro E. apply orb_false_iff in E. destruct E as [E1 E2]. rewrite (N3 E2), (I3 E1). reflexivity. }
    induction e using cexpr_ind'.
    - rewrite pass_atom. unfold shrinks. simpl. repeat split; auto; discriminate.
    - apply (Hn BAnd l H).
    - apply (Hn BOr l H).
  Qed.
End BottomUp.

(* ------------------------------------------------------------------ *)
(* flatten                                                             *)

Lemma cflatten_unfold : forall o l,
    cflatten (mkb o l) = (fst (cflatten_node o (map fst (map cflatten l))),
                          existsb snd (map cflatten l) || snd (cflatten_node o (map fst (map cflatten l)))).
Proof. intros o l. destruct o; simpl; destruct (cflatten_node _ (map fst (map cflatten l))); reflexivity. Qed.

Lemma cflatten_ops_shrinks : forall o l,
    lsum csize (fst (cflatten_ops o l)) <= lsum csize l /\
    (snd (cflatten_ops o l) = true -> lsum csize (fst (cflatten_ops o l)) < lsum csize l) /\
    (snd (cflatten_ops o l) = false -> fst (cflatten_ops o l) = l).
Proof.
  induction l as [|x l [I1 [I2 I3]]]; [simpl; repeat split; auto; discriminate|].
  cbn [cflatten_ops]. destruct (cflatten_ops o l) as [r' ch]. cbn [fst snd] in *.
  destruct (ops_of o x) as [xs|] eqn:Eo; cbn [fst snd].
  - assert (Ex : x = mkb o xs) by (destruct o, x; simpl in Eo; inversion Eo; reflexivity). subst x.
    rewrite lsum_app, lsum_cons, csize_mkb. repeat split; try lia; discriminate.
  - rewrite !lsum_cons. repeat split; try lia.
    + intro E. specialize (I2 E). lia.
    + intro E. rewrite (I3 E). reflexivity.
Qed.

Lemma cflatten_node_shrinks : forall o l, shrinks csize (cflatten_node o l) (S (lsum csize l)) (mkb o l).
Proof.
  intros o l. unfold cflatten_node, shrinks. destruct l as [|x [|x' r]].
  - simpl. rewrite csize_mkb. repeat split; auto; try discriminate.
  - cbn [fst snd]. unfold lsum. simpl. repeat split; try lia; discriminate.
  - destruct (cflatten_ops_shrinks o (x :: x' :: r)) as [I1 [I2 I3]].
    destruct (cflatten_ops o (x :: x' :: r)) as [l' ch]. cbn [fst snd] in *. rewrite csize_mkb. repeat split.
    + lia.
    + intro E. specialize (I2 E). lia.
    + intro E. rewrite (I3 E). reflexivity.
Qed.

Lemma cflatten_shrinks : forall e, shrinks csize (cflatten e) (csize e) e.
Proof. apply (pass_shrinks cflatten cflatten_node); [reflexivity | apply cflatten_unfold | apply cflatten_node_shrinks]. Qed.

(* ------------------------------------------------------------------ *)
(* absorb                                                              *)

Lemma cabsorb_unfold : forall o l,
    cabsorb (mkb o l) = (fst (cabsorb_node o (map fst (map cabsorb l))),
                         existsb snd (map cabsorb l) || snd (cabsorb_node o (map fst (map cabsorb l)))).
Proof. intros o l. destruct o; reflexivity. Qed.

Lemma remove_marked_shrinks : forall {A} (sz : A -> nat) (l : list A) del,
    (forall x, 1 <= sz x) -> List.length del = List.length l ->
    lsum sz (remove_marked l del) <= lsum sz l /\
    (existsb (fun d => d) del = true -> lsum sz (remove_marked l del) < lsum sz l) /\
    (existsb (fun d => d) del = false -> remove_marked l del = l).
Proof.
  intros A sz l del Hpos. revert del. induction l as [|x l IH]; intros [|d del] E; simpl in *; try discriminate.
  - repeat split; auto; discriminate.
  - destruct (IH del ltac:(lia)) as [I1 [I2 I3]]. destruct d; simpl; rewrite ?lsum_cons.
    + pose proof (Hpos x). repeat split; try lia; discriminate.
    + repeat split; try lia.
      * intro Ed. specialize (I2 Ed). lia.
      * intro Ed. rewrite (I3 Ed). reflexivity.
Qed.

Lemma absorb_marks_length : forall {A} (absorbs : A -> A -> bool) l, List.length (absorb_marks absorbs l) = List.length l.
Proof.
  intros A absorbs l.
  destruct (absorb_marks_inv absorbs (fun _ _ => True) (fun _ _ _ _ _ => I) (fun _ _ _ => I) l) as [Hl _]. exact Hl.
Qed.

Lemma cabsorb_node_shrinks : forall o l, shrinks csize (cabsorb_node o l) (S (lsum csize l)) (mkb o l).
Proof.
  intros o l. unfold cabsorb_node, shrinks. cbn [fst snd]. rewrite csize_mkb.
  destruct (remove_marked_shrinks csize l (absorb_marks (cabsorbs (other_op o)) l) csize_pos (absorb_marks_length _ l)) as [I1 [I2 I3]].
  repeat split.
  - lia.
  - intro E. specialize (I2 E). lia.
  - intro E. rewrite (I3 E). reflexivity.
Qed.

Lemma cabsorb_shrinks : forall e, shrinks csize (cabsorb e) (csize e) e.
Proof. apply (pass_shrinks cabsorb cabsorb_node); [reflexivity | apply cabsorb_unfold | apply cabsorb_node_shrinks]. Qed.

(* ------------------------------------------------------------------ *)
(* sorting facts needed for the fixed point                            *)

Section SortedFix.
  Context {A : Type} (cmp : A -> A -> comparison).
  Hypothesis L : lawful cmp.

  Definition ngt (x y : A) : Prop := cmp x y <> Gt.

  Lemma insert_sorted : forall x l, Sorted ngt l -> Sorted ngt (insert cmp x l).
  Proof.
    intros x l. induction 1 as [|y r Hs IH Hd]; simpl; [repeat constructor|].
    destruct (cmp x y) eqn:E.
    - constructor; [constructor; assumption | constructor; unfold ngt; rewrite E; discriminate].
    - constructor; [constructor; assumption | constructor; unfold ngt; rewrite E; discriminate].
    - constructor; [exact IH|].
      assert (Hyx : ngt y x) by (unfold ngt; rewrite (cmp_gt_lt cmp L x y E); discriminate).
      destruct r as [|z r']; simpl; [constructor; exact Hyx|].
      destruct (cmp x z); constructor; try exact Hyx. inversion Hd; assumption.
  Qed.

  Lemma isort_sorted : forall l, Sorted ngt (isort cmp l).
  Proof. induction l as [|x l IH]; [constructor|]. unfold isort in *. simpl. apply insert_sorted. exact IH. Qed.

  Lemma sorted_isort_id : forall l, Sorted ngt l -> isort cmp l = l.
  Proof.
    induction 1 as [|x r Hs IH Hd]; [reflexivity|]. unfold isort in *. simpl. rewrite IH.
    destruct r as [|y r']; [reflexivity|]. simpl. inversion Hd as [|? ? Hxy]; subst. unfold ngt in Hxy.
    destruct (cmp x y); try reflexivity. contradiction Hxy; reflexivity.
  Qed.

  Lemma dedupe_from_sorted : forall l f, Sorted ngt (f :: l) -> Sorted ngt (f :: dedupe_from cmp f l).
  Proof.
    induction l as [|y r IH]; intros f Hs; simpl; [exact Hs|].
    inversion Hs as [|? ? Hs' Hd]; subst. inversion Hd as [|? ? Hfy]; subst.
    destruct (is_eq (cmp f y)) eqn:E.
    - apply is_eq_true in E. apply IH. inversion Hs' as [|? ? Hr Hdy]; subst. constructor; [exact Hr|].
      destruct r as [|z r']; constructor. inversion Hdy as [|? ? Hyz]; subst. unfold ngt in *.
      rewrite (lawful_eq_l cmp L f y z E). exact Hyz.
    - constructor; [apply IH; exact Hs' | constructor; exact Hfy].
  Qed.

  Lemma dedupe_sorted : forall l, Sorted ngt l -> Sorted ngt (dedupe cmp l).
  Proof. intros [|x r] Hs; [constructor|]. simpl. apply dedupe_from_sorted. exact Hs. Qed.

  (* kept elements differ from their predecessor: a second pass keeps everything *)
  Lemma dedupe_from_idem : forall l f, dedupe_from cmp f (dedupe_from cmp f l) = dedupe_from cmp f l.
  Proof.
    induction l as [|y r IH]; intros f; simpl; [reflexivity|].
    destruct (is_eq (cmp f y)) eqn:E; [apply IH|]. simpl. rewrite E, IH. reflexivity.
  Qed.

  Lemma dedupe_idem : forall l, dedupe cmp (dedupe cmp l) = dedupe cmp l.
  Proof. intros [|x r]; [reflexivity|]. simpl. rewrite dedupe_from_idem. reflexivity. Qed.

  (* sort-and-dedupe is idempotent *)
  Lemma sortdedupe_idem : forall l, let d := dedupe cmp (isort cmp l) in dedupe cmp (isort cmp d) = d.
  Proof.
    intros l d. unfold d. rewrite (sorted_isort_id _ (dedupe_sorted _ (isort_sorted l))). apply dedupe_idem.
  Qed.
End SortedFix.

Lemma dedupe_from_lsum : forall {A} (cmp : A -> A -> comparison) (sz : A -> nat) l f,
    (forall x, 1 <= sz x) ->
    lsum sz (dedupe_from cmp f l) <= lsum sz l /\ (lsum sz (dedupe_from cmp f l) = lsum sz l -> dedupe_from cmp f l = l).
Proof.
  intros A cmp sz l f Hpos. revert f. induction l as [|y r IH]; intro f; simpl; [split; auto|].
  destruct (is_eq (cmp f y)).
  - destruct (IH f) as [I1 I2]. rewrite lsum_cons. pose proof (Hpos y). split; [lia | intro E; lia].
  - destruct (IH y) as [I1 I2]. rewrite !lsum_cons. split; [lia | intro E; f_equal; apply I2; lia].
Qed.

Lemma dedupe_lsum : forall {A} (cmp : A -> A -> comparison) (sz : A -> nat) l,
    (forall x, 1 <= sz x) ->
    lsum sz (dedupe cmp l) <= lsum sz l /\ (lsum sz (dedupe cmp l) = lsum sz l -> dedupe cmp l = l).
Proof.
  intros A cmp sz [|x r] Hpos; [split; auto|]. simpl. destruct (dedupe_from_lsum cmp sz r x Hpos) as [I1 I2].
  rewrite !lsum_cons. split; [lia | intro E; f_equal; apply I2; lia].
Qed.

Lemma incl_isort_t : forall {A} (cmp : A -> A -> comparison) l, incl (isort cmp l) l.
Proof. intros A cmp l x Hx. apply (Permutation_in x (isort_perm cmp l) Hx). Qed.

(* ------------------------------------------------------------------ *)
(* order: never grows, and its result is a fixed point                 *)

Lemma corder_unfold : forall o l,
    corder (mkb o l) = (fst (corder_node o (map fst (map corder l))),
                        existsb snd (map corder l) || snd (corder_node o (map fst (map corder l)))).
Proof. intros o l. destruct o; reflexivity. Qed.

Lemma sortdedupe_lsum : forall l,
    lsum csize (dedupe ccmp (isort ccmp l)) <= lsum csize l /\
    (lsum csize (dedupe ccmp (isort ccmp l)) = lsum csize l -> dedupe ccmp (isort ccmp l) = isort ccmp l).
Proof.
  intro l. destruct (dedupe_lsum ccmp csize (isort ccmp l) csize_pos) as [I1 I2].
  rewrite (lsum_perm csize _ _ (isort_perm ccmp l)) in *. split; assumption.
Qed.

Lemma children_le : forall {A} (sz : A -> nat) (f : A -> A) l,
    Forall (fun e => sz (f e) <= sz e) l ->
    lsum sz (map f l) <= lsum sz l /\ (lsum sz (map f l) = lsum sz l -> Forall (fun e => sz (f e) = sz e) l).
Proof.
  intros A sz f l. induction 1 as [|e l He _ [I1 I2]]; simpl; [split; [lia | constructor]|].
  rewrite !lsum_cons. split; [lia|]. intro E. constructor; [lia | apply I2; lia].
Qed.

Lemma corder_size : forall e, csize (fst (corder e)) <= csize e.
Proof.
  assert (Hn : forall o l, Forall (fun e => csize (fst (corder e)) <= csize e) l -> csize (fst (corder (mkb o l))) <= csize (mkb o l)).
  { intros o l HF. rewrite corder_unfold. cbn [fst]. unfold corder_node. cbn [fst]. rewrite !csize_mkb.
    destruct (sortdedupe_lsum (map fst (map corder l))) as [I1 _].
    destruct (children_le csize (fun e => fst (corder e)) l HF) as [J1 _]. rewrite map_map in *. lia. }
  induction e using cexpr_ind'; [simpl; lia | apply (Hn BAnd l H) | apply (Hn BOr l H)].
Qed.

(* sorted trees *)
Fixpoint csorted (e : cexpr) : Prop :=
  match e with
  | Atom _ => True
  | CAnd l => dedupe ccmp (isort ccmp l) = l /\ (fix all (l : list cexpr) : Prop := match l with [] => True | x :: r => csorted x /\ all r end) l
  | COr l => dedupe ccmp (isort ccmp l) = l /\ (fix all (l : list cexpr) : Prop := match l with [] => True | x :: r => csorted x /\ all r end) l
  end.

Lemma csorted_all : forall l,
    (fix all (l : list cexpr) : Prop := match l with [] => True | x :: r => csorted x /\ all r end) l <-> Forall csorted l.
Proof.
  induction l as [|x r IH].
  - split; intros; constructor.
  - split.
    + intros [H1 H2]. constructor; [exact H1 | apply IH; exact H2].
    + intro Hh. inversion Hh; subst. split; [assumption | apply IH; assumption].
Qed.

Lemma csorted_mkb : forall o l, csorted (mkb o l) <-> dedupe ccmp (isort ccmp l) = l /\ Forall csorted l.
Proof. intros o l. destruct o; simpl; rewrite csorted_all; tauto. Qed.

Lemma map_id_on : forall {A} (f : A -> A) l, Forall (fun x => f x = x) l -> map f l = l.
Proof. induction 1; simpl; congruence. Qed.

Lemma corder_fixed : forall e, csorted e -> corder e = (e, false).
Proof.
  assert (Hn : forall o l, Forall (fun e => csorted e -> corder e = (e, false)) l -> csorted (mkb o l) -> corder (mkb o l) = (mkb o l, false)).
  { intros o l HF Hs. apply csorted_mkb in Hs. destruct Hs as [Hd Hc].
    assert (Hall : Forall (fun e => corder e = (e, false)) l).
    { rewrite Forall_forall in *. intros c Hin. apply HF; auto. }
    assert (E1 : map fst (map corder l) = l).
    { rewrite map_map. apply map_id_on. eapply Forall_impl; [|exact Hall]. intros a Ha. simpl. rewrite Ha. reflexivity. }
    assert (E2 : existsb snd (map corder l) = false).
    { clear -Hall. induction Hall as [|c l Hc _ IH]; [reflexivity|]. simpl. rewrite Hc, IH. reflexivity. }
    rewrite corder_unfold, E1, E2. unfold corder_node. cbn [fst snd]. rewrite Hd.
    destruct (lex_lawful ccmp ccmp_lawful) as [R _]. rewrite (R l). reflexivity. }
  induction e using cexpr_ind'; intro Hs; [reflexivity | apply (Hn BAnd l H Hs) | apply (Hn BOr l H Hs)].
Qed.

Lemma corder_sorted : forall e, csorted (fst (corder e)).
Proof.
  assert (Hn : forall o l, Forall (fun e => csorted (fst (corder e))) l -> csorted (fst (corder (mkb o l)))).
  { intros o l HF. rewrite corder_unfold. cbn [fst]. unfold corder_node. cbn [fst]. apply csorted_mkb. split.
    - apply (sortdedupe_idem ccmp ccmp_lawful).
    - assert (Hl1 : Forall csorted (map fst (map corder l))) by (rewrite map_map; apply Forall_map; exact HF).
      rewrite Forall_forall in *. intros c Hc. apply Hl1. apply (incl_isort_t ccmp). apply (dedupe_incl ccmp _ c Hc). }
  induction e using cexpr_ind'; [exact I | apply (Hn BAnd l H) | apply (Hn BOr l H)].
Qed.

(* ------------------------------------------------------------------ *)
(* a flatten-stable tree stays flatten-stable when it is only reordered *)

Definition cstable (e : cexpr) : Prop := snd (cflatten e) = false.

Lemma cflatten_ops_flag : forall o l, snd (cflatten_ops o l) = false <-> Forall (fun x => ops_of o x = None) l.
Proof.
  induction l as [|x l IH]; [split; [constructor | reflexivity]|].
  cbn [cflatten_ops]. destruct (cflatten_ops o l) as [r' ch]. cbn [snd] in IH.
  destruct (ops_of o x) as [xs|] eqn:Eo; cbn [snd].
  - split; [discriminate | intro HF; inversion HF; congruence].
  - rewrite IH. split; [intro HF; constructor; assumption | intro HF; inversion HF; assumption].
Qed.

Lemma cflatten_node_flag : forall o l,
    snd (cflatten_node o l) = false <-> List.length l <> 1 /\ Forall (fun x => ops_of o x = None) l.
Proof.
  intros o l. unfold cflatten_node. destruct l as [|x [|x' r]].
  - simpl. split; [intros _; split; [discriminate | constructor] | reflexivity].
  - simpl. split; [discriminate | intros [Hn _]; contradiction Hn; reflexivity].
  - pose proof (cflatten_ops_flag o (x :: x' :: r)) as Hf. destruct (cflatten_ops o (x :: x' :: r)) as [l' ch]. cbn [snd] in *.
    rewrite Hf. split; [intro HF; split; [simpl; discriminate | exact HF] | intros [_ HF]; exact HF].
Qed.

Lemma cstable_mkb : forall o l,
    cstable (mkb o l) <-> Forall cstable l /\ List.length l <> 1 /\ Forall (fun x => ops_of o x = None) l.
Proof.
  intros o l. unfold cstable at 1. rewrite cflatten_unfold. cbn [snd]. rewrite orb_false_iff.
  assert (Hc : existsb snd (map cflatten l) = false <-> Forall cstable l).
  { unfold cstable. induction l as [|c l IH]; simpl; [split; [constructor | reflexivity]|].
    rewrite orb_false_iff, IH. split; [intros [H1 H2]; constructor; assumption | intro HF; inversion HF; auto]. }
  split.
  - intros [E1 E2].
    assert (El : map fst (map cflatten l) = l).
    { apply (children_shrink csize cflatten l); [apply Forall_forall; intros; apply cflatten_shrinks | exact E1]. }
    rewrite El in E2. apply cflatten_node_flag in E2. apply Hc in E1. tauto.
  - intros [HF [Hn Ho]]. apply Hc in HF. split; [exact HF|].
    assert (El : map fst (map cflatten l) = l).
    { apply (children_shrink csize cflatten l); [apply Forall_forall; intros; apply cflatten_shrinks | exact HF]. }
    rewrite El. apply cflatten_node_flag. auto.
Qed.

Lemma ops_of_corder : forall o c, ops_of o c = None -> ops_of o (fst (corder c)) = None.
Proof. intros o c E. destruct o, c; simpl in *; try reflexivity; discriminate. Qed.

Lemma corder_keeps_stable : forall e, cstable e -> csize (fst (corder e)) = csize e -> cstable (fst (corder e)).
Proof.
  assert (Hn : forall o l, Forall (fun e => cstable e -> csize (fst (corder e)) = csize e -> cstable (fst (corder e))) l ->
                           cstable (mkb o l) -> csize (fst (corder (mkb o l))) = csize (mkb o l) -> cstable (fst (corder (mkb o l)))).
  { intros o l IH Hst Hsz. apply cstable_mkb in Hst. destruct Hst as [Hc [Hlen Hops]].
    rewrite corder_unfold in *. cbn [fst] in *. unfold corder_node in *. cbn [fst] in *. rewrite !csize_mkb in Hsz.
    destruct (sortdedupe_lsum (map fst (map corder l))) as [I1 I2].
    assert (HFle : Forall (fun e => csize (fst (corder e)) <= csize e) l) by (apply Forall_forall; intros; apply corder_size).
    destruct (children_le csize (fun e => fst (corder e)) l HFle) as [J1 J2]. rewrite map_map in *.
    assert (Ed : dedupe ccmp (isort ccmp (map (fun x => fst (corder x)) l)) = isort ccmp (map (fun x => fst (corder x)) l)) by (apply I2; lia).
    assert (Heq : Forall (fun e => csize (fst (corder e)) = csize e) l) by (apply J2; lia).
    rewrite Ed. apply cstable_mkb.
    assert (Hperm : Permutation (isort ccmp (map (fun x => fst (corder x)) l)) (map (fun x => fst (corder x)) l)) by apply isort_perm.
    split; [|split].
    - apply (Permutation_Forall (Permutation_sym Hperm)). apply Forall_map.
      rewrite Forall_forall in *. intros c Hin. apply IH; auto.
    - rewrite (Permutation_length Hperm), map_length. exact Hlen.
    - apply (Permutation_Forall (Permutation_sym Hperm)). apply Forall_map.
      rewrite Forall_forall in *. intros c Hin. apply ops_of_corder. apply Hops; exact Hin. }
  induction e using cexpr_ind'; intros Hst Hsz; [exact Hst | apply (Hn BAnd l H Hst Hsz) | apply (Hn BOr l H Hst Hsz)].
Qed.

(* ------------------------------------------------------------------ *)
(* the comparison-level settle loop terminates                         *)

Lemma csimplify_le : forall e, csize (fst (csimplify e)) <= csize e.
Proof.
  intro e. unfold csimplify.
  destruct (cflatten_shrinks e) as [F1 _]. destruct (cflatten e) as [e1 c1]. cbn [fst] in *.
  pose proof (corder_size e1) as O1. destruct (corder e1) as [e2 c2]. cbn [fst] in *.
  destruct (cabsorb_shrinks e2) as [A1 _]. destruct (cabsorb e2) as [e3 c3]. cbn [fst] in *. lia.
Qed.

Lemma pair_eta : forall {A B} (p : A * B) a b, fst p = a -> snd p = b -> p = (a, b).
Proof. intros A B [x y] a b; simpl; congruence. Qed.

Lemma csimplify_fix : forall e, snd (csimplify e) = true -> csize (fst (csimplify e)) = csize e ->
                                csimplify (fst (csimplify e)) = (fst (csimplify e), false).
Proof.
  intros e _ Hsz. unfold csimplify in Hsz |- *.
  destruct (cflatten_shrinks e) as [F1 [F2 F3]]. destruct (cflatten e) as [e1 c1] eqn:Ef. cbn [fst snd] in *.
  pose proof (corder_size e1) as O1. pose proof (corder_sorted e1) as Os. pose proof (corder_keeps_stable e1) as Ok1.
  destruct (corder e1) as [e2 c2] eqn:Eo. cbn [fst snd] in *.
  destruct (cabsorb_shrinks e2) as [A1 [A2 A3]]. destruct (cabsorb e2) as [e3 c3] eqn:Ea. cbn [fst snd] in *.
  assert (C1 : c1 = false) by (destruct c1; [specialize (F2 eq_refl); lia | reflexivity]).
  assert (C3 : c3 = false) by (destruct c3; [specialize (A2 eq_refl); lia | reflexivity]).
  specialize (F3 C1). specialize (A3 C3). subst e1 e3.
  assert (St : cstable e) by (unfold cstable; rewrite Ef; exact C1).
  assert (St2 : cstable e2) by (apply Ok1; [exact St | lia]).
  assert (Ef2 : cflatten e2 = (e2, false)).
  { destruct (cflatten_shrinks e2) as [_ [_ G3]]. apply pair_eta; [apply G3; exact St2 | exact St2]. }
  rewrite Ef2. rewrite (corder_fixed e2 Os). rewrite Ea, C3. reflexivity.
Qed.

Theorem csettle_terminates : forall e, exists fuel r, csettle fuel e = Ok r.
Proof. intro e. apply (settle_terminates csimplify csize csimplify_le csimplify_fix). Qed.

(* ================================================================== *)
(* observation level                                                   *)

Fixpoint osize (e : oexpr) : nat :=
  match e with
  | Obs _ => 1
  | OAnd l => S (list_sum (map osize l))
  | OOr l => S (list_sum (map osize l))
  | OFby l => S (list_sum (map osize l))
  | OQual e' _ => S (osize e')
  end.

Lemma osize_mko : forall o l, osize (mko o l) = S (lsum osize l).
Proof. destruct o; reflexivity. Qed.

Lemma osize_pos : forall e, 1 <= osize e.
Proof. destruct e; simpl; lia. Qed.

Section OBottomUp.
  Variable pass : oexpr -> oexpr * bool.
  Variable node : oop -> list oexpr -> oexpr * bool.
  Hypothesis pass_obs : forall c, pass (Obs c) = (Obs c, false).
  Hypothesis pass_qual : forall e q, pass (OQual e q) = (OQual (fst (pass e)) q, snd (pass e)).
  Hypothesis pass_node : forall o l,
      pass (mko o l) = (fst (node o (map fst (map pass l))),
                        existsb snd (map pass l) || snd (node o (map fst (map pass l)))).
  Hypothesis node_spec : forall o l, shrinks osize (node o l) (S (lsum osize l)) (mko o l).

  Lemma opass_shrinks : forall e, shrinks osize (pass e) (osize e) e.
  Proof.
    assert (Hn : forall o l, Forall (fun e => shrinks osize (pass e) (osize e) e) l ->
                             shrinks osize (pass (mko o l)) (osize (mko o l)) (mko o l)).
    { intros o l HF. destruct (children_shrink osize pass l HF) as [I1 [I2 I3]].
      destruct (node_spec o (map fst (map pass l))) as [N1 [N2 N3]].
      rewrite pass_node, osize_mko. unfold shrinks. cbn [fst snd]. repeat split.
      - lia.
      - intro E. apply orb_true_iff in E. destruct E as [E|E]; [specialize (I2 E) | specialize (N2 E)]; lia.
      - intro E. apply orb_false_iff in E. destruct E as [E1 E2]. rewrite (N3 E2), (I3 E1). reflexivity. }
    induction e using oexpr_ind'.
    - rewrite pass_obs. unfold shrinks. simpl. repeat split; auto; discriminate.
    - apply (Hn OpAnd l H).
    - apply (Hn OpOr l H).
    - apply (Hn OpFby l H).
    - rewrite pass_qual. destruct IHe as [I1 [I2 I3]]. unfold shrinks. cbn [fst snd osize]. repeat split.
      + lia.
      + intro E. specialize (I2 E). lia.
      + intro E. rewrite (I3 E). reflexivity.
  Qed.
End OBottomUp.

(* ---- flatten ---- *)

Lemma oflatten_unfold : forall o l,
    oflatten (mko o l) = (fst (oflatten_node o (map fst (map oflatten l))),
                          existsb snd (map oflatten l) || snd (oflatten_node o (map fst (map oflatten l)))).
Proof. intros o l. destruct o; simpl; destruct (oflatten_node _ (map fst (map oflatten l))); reflexivity. Qed.

Lemma oflatten_qual : forall e q, oflatten (OQual e q) = (OQual (fst (oflatten e)) q, snd (oflatten e)).
Proof. intros. simpl. destruct (oflatten e); reflexivity. Qed.

Lemma oops_of_mko : forall o x xs, oops_of o x = Some xs -> x = mko o xs.
Proof. destruct o, x; simpl; intros xs E; inversion E; reflexivity. Qed.

Lemma oflatten_ops_shrinks : forall o l,
    lsum osize (fst (oflatten_ops o l)) <= lsum osize l /\
    (snd (oflatten_ops o l) = true -> lsum osize (fst (oflatten_ops o l)) < lsum osize l) /\
    (snd (oflatten_ops o l) = false -> fst (oflatten_ops o l) = l).
Proof.
  induction l as [|x l [I1 [I2 I3]]]; [simpl; repeat split; auto; discriminate|].
  cbn [oflatten_ops]. destruct (oflatten_ops o l) as [r' ch]. cbn [fst snd] in *.
  destruct (oops_of o x) as [xs|] eqn:Eo; cbn [fst snd].
  - apply oops_of_mko in Eo. subst x. rewrite lsum_app, lsum_cons, osize_mko. repeat split; try lia; discriminate.
  - rewrite !lsum_cons. repeat split; try lia.
    + intro E. specialize (I2 E). lia.
    + intro E. rewrite (I3 E). reflexivity.
Qed.

Lemma oflatten_node_shrinks : forall o l, shrinks osize (oflatten_node o l) (S (lsum osize l)) (mko o l).
Proof.
  intros o l. unfold oflatten_node, shrinks. destruct l as [|x [|x' r]].
  - simpl. rewrite osize_mko. repeat split; auto; try discriminate.
  - cbn [fst snd]. unfold lsum. simpl. repeat split; try lia; discriminate.
  - destruct (oflatten_ops_shrinks o (x :: x' :: r)) as [I1 [I2 I3]].
    destruct (oflatten_ops o (x :: x' :: r)) as [l' ch]. cbn [fst snd] in *. rewrite osize_mko. repeat split.
    + lia.
    + intro E. specialize (I2 E). lia.
    + intro E. rewrite (I3 E). reflexivity.
Qed.

Lemma oflatten_shrinks : forall e, shrinks osize (oflatten e) (osize e) e.
Proof.
  apply (opass_shrinks oflatten oflatten_node); [reflexivity | apply oflatten_qual | apply oflatten_unfold | apply oflatten_node_shrinks].
Qed.

(* ---- absorb ---- *)

Definition oabsorb_nodeg (o : oop) (l : list oexpr) : oexpr * bool :=
  match o with OpOr => oabsorb_node l | _ => (mko o l, false) end.

Lemma oabsorb_unfold : forall o l,
    oabsorb (mko o l) = (fst (oabsorb_nodeg o (map fst (map oabsorb l))),
                         existsb snd (map oabsorb l) || snd (oabsorb_nodeg o (map fst (map oabsorb l)))).
Proof. intros o l. destruct o; simpl; rewrite ?orb_false_r; reflexivity. Qed.

Lemma oabsorb_qual : forall e q, oabsorb (OQual e q) = (OQual (fst (oabsorb e)) q, snd (oabsorb e)).
Proof. intros. simpl. destruct (oabsorb e); reflexivity. Qed.

Lemma oabsorb_nodeg_shrinks : forall o l, shrinks osize (oabsorb_nodeg o l) (S (lsum osize l)) (mko o l).
Proof.
  intros o l. unfold shrinks. destruct o; cbn [oabsorb_nodeg fst snd]; rewrite ?osize_mko;
    try (repeat split; auto; discriminate).
  unfold oabsorb_node. cbn [fst snd]. change (OOr (remove_marked l (absorb_marks oabsorbs l))) with (mko OpOr (remove_marked l (absorb_marks oabsorbs l))).
  rewrite osize_mko.
  destruct (remove_marked_shrinks osize l (absorb_marks oabsorbs l) osize_pos (absorb_marks_length _ l)) as [I1 [I2 I3]].
  repeat split.
  - lia.
  - intro E. specialize (I2 E). lia.
  - intro E. rewrite (I3 E). reflexivity.
Qed.

Lemma oabsorb_shrinks : forall e, shrinks osize (oabsorb e) (osize e) e.
Proof.
  apply (opass_shrinks oabsorb oabsorb_nodeg); [reflexivity | apply oabsorb_qual | apply oabsorb_unfold | apply oabsorb_nodeg_shrinks].
Qed.

(* ---- order ---- *)

Definition osorted_list (o : oop) (l : list oexpr) : Prop :=
  match o with
  | OpAnd => isort ocmp l = l
  | OpOr => dedupe ocmp (isort ocmp l) = l
  | OpFby => True
  end.

Definition oorder_list (o : oop) (l : list oexpr) : list oexpr :=
  match o with
  | OpAnd => isort ocmp l
  | OpOr => dedupe ocmp (isort ocmp l)
  | OpFby => l
  end.

Lemma oorder_mko : forall o l, fst (oorder (mko o l)) = mko o (oorder_list o (map fst (map oorder l))).
Proof. intros o l. destruct o; reflexivity. Qed.

Lemma oorder_mko_flag : forall o l,
    snd (oorder (mko o l)) =
    existsb snd (map oorder l) ||
    match o with OpFby => false
            | _ => negb (is_eq (cmp_lex ocmp (map fst (map oorder l)) (oorder_list o (map fst (map oorder l))))) end.
Proof. intros o l. destruct o; simpl; rewrite ?orb_false_r; reflexivity. Qed.

Lemma oorder_qual : forall e q, oorder (OQual e q) = (OQual (fst (oorder e)) q, snd (oorder e)).
Proof. intros. simpl. destruct (oorder e); reflexivity. Qed.

Lemma oorder_list_lsum : forall o l,
    lsum osize (oorder_list o l) <= lsum osize l /\
    (lsum osize (oorder_list o l) = lsum osize l -> Permutation (oorder_list o l) l).
Proof.
  intros o l. destruct o; simpl.
  - rewrite (lsum_perm osize _ _ (isort_perm ocmp l)). split; [lia | intros _; apply isort_perm].
  - destruct (dedupe_lsum ocmp osize (isort ocmp l) osize_pos) as [I1 I2].
    rewrite (lsum_perm osize _ _ (isort_perm ocmp l)) in *. split; [exact I1|].
    intro E. rewrite (I2 E). apply isort_perm.
  - split; [lia | intros _; apply Permutation_refl].
Qed.

Lemma oorder_size : forall e, osize (fst (oorder e)) <= osize e.
Proof.
  assert (Hn : forall o l, Forall (fun e => osize (fst (oorder e)) <= osize e) l -> osize (fst (oorder (mko o l))) <= osize (mko o l)).
  { intros o l HF. rewrite oorder_mko, !osize_mko.
    destruct (oorder_list_lsum o (map fst (map oorder l))) as [I1 _].
    destruct (children_le osize (fun e => fst (oorder e)) l HF) as [J1 _]. rewrite map_map in *. lia. }
  induction e using oexpr_ind'; [simpl; lia | apply (Hn OpAnd l H) | apply (Hn OpOr l H) | apply (Hn OpFby l H)|].
  rewrite oorder_qual. simpl. lia.
Qed.

Fixpoint osorted (e : oexpr) : Prop :=
  match e with
  | Obs _ => True
  | OAnd l => osorted_list OpAnd l /\ (fix all (l : list oexpr) : Prop := match l with [] => True | x :: r => osorted x /\ all r end) l
  | OOr l => osorted_list OpOr l /\ (fix all (l : list oexpr) : Prop := match l with [] => True | x :: r => osorted x /\ all r end) l
  | OFby l => (fix all (l : list oexpr) : Prop := match l with [] => True | x :: r => osorted x /\ all r end) l
  | OQual e' _ => osorted e'
  end.

Lemma osorted_all : forall l,
    (fix all (l : list oexpr) : Prop := match l with [] => True | x :: r => osorted x /\ all r end) l <-> Forall osorted l.
Proof.
  induction l as [|x r IH].
  - split; intros; constructor.
  - split.
    + intros [H1 H2]. constructor; [exact H1 | apply IH; exact H2].
    + intro Hh. inversion Hh; subst. split; [assumption | apply IH; assumption].
Qed.

Lemma osorted_mko : forall o l, osorted (mko o l) <-> osorted_list o l /\ Forall osorted l.
Proof. intros o l. destruct o; simpl; rewrite osorted_all; tauto. Qed.

Lemma oorder_list_fixed : forall o l, osorted_list o l -> oorder_list o l = l.
Proof. intros o l Hs. destruct o; simpl in *; auto. Qed.

Lemma oorder_list_sorted : forall o l, osorted_list o (oorder_list o l).
Proof.
  intros o l. destruct o; simpl; auto.
  - apply (sorted_isort_id ocmp). apply (isort_sorted ocmp ocmp_lawful).
  - apply (sortdedupe_idem ocmp ocmp_lawful).
Qed.

Lemma oorder_list_incl : forall o l, incl (oorder_list o l) l.
Proof.
  intros o l. destruct o; simpl; [apply incl_isort_t | eapply incl_tran; [apply dedupe_incl | apply incl_isort_t] | apply incl_refl].
Qed.

Lemma oorder_fixed : forall e, osorted e -> oorder e = (e, false).
Proof.
  assert (Hn : forall o l, Forall (fun e => osorted e -> oorder e = (e, false)) l -> osorted (mko o l) -> oorder (mko o l) = (mko o l, false)).
  { intros o l HF Hs. apply osorted_mko in Hs. destruct Hs as [Hd Hc].
    assert (Hall : Forall (fun e => oorder e = (e, false)) l).
    { rewrite Forall_forall in *. intros c Hin. apply HF; auto. }
    assert (E1 : map fst (map oorder l) = l).
    { rewrite map_map. apply map_id_on. eapply Forall_impl; [|exact Hall]. intros a Ha. simpl. rewrite Ha. reflexivity. }
    assert (E2 : existsb snd (map oorder l) = false).
    { clear -Hall. induction Hall as [|c l Hc _ IH]; [reflexivity|]. simpl. rewrite Hc, IH. reflexivity. }
    apply pair_eta.
    - rewrite oorder_mko, E1, (oorder_list_fixed o l Hd). reflexivity.
    - rewrite oorder_mko_flag, E1, E2, (oorder_list_fixed o l Hd).
      destruct (lex_lawful ocmp ocmp_lawful) as [R _]. pose proof (R l) as Rl. unfold c_refl in Rl.
      destruct o; simpl; rewrite ?Rl; reflexivity. }
  induction e using oexpr_ind'; intro Hs; [reflexivity | apply (Hn OpAnd l H Hs) | apply (Hn OpOr l H Hs) | apply (Hn OpFby l H Hs)|].
  rewrite oorder_qual. simpl in Hs. rewrite (IHe Hs). reflexivity.
Qed.

Lemma oorder_sorted : forall e, osorted (fst (oorder e)).
Proof.
  assert (Hn : forall o l, Forall (fun e => osorted (fst (oorder e))) l -> osorted (fst (oorder (mko o l)))).
  { intros o l HF. rewrite oorder_mko. apply osorted_mko. split; [apply oorder_list_sorted|].
    assert (Hl1 : Forall osorted (map fst (map oorder l))) by (rewrite map_map; apply Forall_map; exact HF).
    rewrite Forall_forall in *. intros c Hc. apply Hl1. apply (oorder_list_incl o _ c Hc). }
  induction e using oexpr_ind'; [exact I | apply (Hn OpAnd l H) | apply (Hn OpOr l H) | apply (Hn OpFby l H)|].
  rewrite oorder_qual. simpl. exact IHe.
Qed.

(* ---- flatten-stability under reordering ---- *)

Definition ostable (e : oexpr) : Prop := snd (oflatten e) = false.

Lemma oflatten_ops_flag : forall o l, snd (oflatten_ops o l) = false <-> Forall (fun x => oops_of o x = None) l.
Proof.
  induction l as [|x l IH]; [split; [constructor | reflexivity]|].
  cbn [oflatten_ops]. destruct (oflatten_ops o l) as [r' ch]. cbn [snd] in IH.
  destruct (oops_of o x) as [xs|] eqn:Eo; cbn [snd].
  - split; [discriminate | intro HF; inversion HF; congruence].
  - rewrite IH. split; [intro HF; constructor; assumption | intro HF; inversion HF; assumption].
Qed.

Lemma oflatten_node_flag : forall o l,
    snd (oflatten_node o l) = false <-> List.length l <> 1 /\ Forall (fun x => oops_of o x = None) l.
Proof.
  intros o l. unfold oflatten_node. destruct l as [|x [|x' r]].
  - simpl. split; [intros _; split; [discriminate | constructor] | reflexivity].
  - simpl. split; [discriminate | intros [Hn _]; contradiction Hn; reflexivity].
  - pose proof (oflatten_ops_flag o (x :: x' :: r)) as Hf. destruct (oflatten_ops o (x :: x' :: r)) as [l' ch]. cbn [snd] in *.
    rewrite Hf. split; [intro HF; split; [simpl; discriminate | exact HF] | intros [_ HF]; exact HF].
Qed.

Lemma ostable_mko : forall o l,
    ostable (mko o l) <-> Forall ostable l /\ List.length l <> 1 /\ Forall (fun x => oops_of o x = None) l.
Proof.
  intros o l. unfold ostable at 1. rewrite oflatten_unfold. cbn [snd]. rewrite orb_false_iff.
  assert (Hc : existsb snd (map oflatten l) = false <-> Forall ostable l).
  { unfold ostable. induction l as [|c l IH]; simpl; [split; [constructor | reflexivity]|].
    rewrite orb_false_iff, IH. split; [intros [H1 H2]; constructor; assumption | intro HF; inversion HF; auto]. }
  split.
  - intros [E1 E2].
    assert (El : map fst (map oflatten l) = l).
    { apply (children_shrink osize oflatten l); [apply Forall_forall; intros; apply oflatten_shrinks | exact E1]. }
    rewrite El in E2. apply oflatten_node_flag in E2. apply Hc in E1. tauto.
  - intros [HF [Hn Ho]]. apply Hc in HF. split; [exact HF|].
    assert (El : map fst (map oflatten l) = l).
    { apply (children_shrink osize oflatten l); [apply Forall_forall; intros; apply oflatten_shrinks | exact HF]. }
    rewrite El. apply oflatten_node_flag. auto.
Qed.

Lemma oops_of_oorder : forall o c, oops_of o c = None -> oops_of o (fst (oorder c)) = None.
Proof.
  intros o c E. destruct c as [x|l|l|l|e q]; try (destruct o; simpl in *; try reflexivity; discriminate).
  rewrite oorder_qual. destruct o; reflexivity.
Qed.

Lemma oorder_keeps_stable : forall e, ostable e -> osize (fst (oorder e)) = osize e -> ostable (fst (oorder e)).
Proof.
  assert (Hn : forall o l, Forall (fun e => ostable e -> osize (fst (oorder e)) = osize e -> ostable (fst (oorder e))) l ->
                           ostable (mko o l) -> osize (fst (oorder (mko o l))) = osize (mko o l) -> ostable (fst (oorder (mko o l)))).
  { intros o l IH Hst Hsz. apply ostable_mko in Hst. destruct Hst as [Hc [Hlen Hops]].
    rewrite oorder_mko in *. rewrite !osize_mko in Hsz.
    destruct (oorder_list_lsum o (map fst (map oorder l))) as [I1 I2].
    assert (HFle : Forall (fun e => osize (fst (oorder e)) <= osize e) l) by (apply Forall_forall; intros; apply oorder_size).
    destruct (children_le osize (fun e => fst (oorder e)) l HFle) as [J1 J2]. rewrite map_map in *.
    assert (Hperm : Permutation (oorder_list o (map (fun x => fst (oorder x)) l)) (map (fun x => fst (oorder x)) l)) by (apply I2; lia).
    assert (Heq : Forall (fun e => osize (fst (oorder e)) = osize e) l) by (apply J2; lia).
    apply ostable_mko. split; [|split].
    - apply (Permutation_Forall (Permutation_sym Hperm)). apply Forall_map.
      rewrite Forall_forall in *. intros c Hin. apply IH; auto.
    - rewrite (Permutation_length Hperm), map_length. exact Hlen.
    - apply (Permutation_Forall (Permutation_sym Hperm)). apply Forall_map.
      rewrite Forall_forall in *. intros c Hin. apply oops_of_oorder. apply Hops; exact Hin. }
  induction e using oexpr_ind'; intros Hst Hsz;
    [exact Hst | apply (Hn OpAnd l H Hst Hsz) | apply (Hn OpOr l H Hst Hsz) | apply (Hn OpFby l H Hst Hsz)|].
  unfold ostable in *. rewrite oorder_qual in *. cbn [fst] in *. rewrite oflatten_qual in *. cbn [snd] in *.
  apply IHe; [exact Hst | simpl in Hsz; lia].
Qed.

(* ---- the observation-level settle loop terminates ---- *)

Lemma osimplify_le : forall e, osize (fst (osimplify e)) <= osize e.
Proof.
  intro e. unfold osimplify.
  destruct (oflatten_shrinks e) as [F1 _]. destruct (oflatten e) as [e1 c1]. cbn [fst] in *.
  pose proof (oorder_size e1) as O1. destruct (oorder e1) as [e2 c2]. cbn [fst] in *.
  destruct (oabsorb_shrinks e2) as [A1 _]. destruct (oabsorb e2) as [e3 c3]. cbn [fst] in *. lia.
Qed.

Lemma osimplify_fix : forall e, snd (osimplify e) = true -> osize (fst (osimplify e)) = osize e ->
                                osimplify (fst (osimplify e)) = (fst (osimplify e), false).
Proof.
  intros e _ Hsz. unfold osimplify in Hsz |- *.
  destruct (oflatten_shrinks e) as [F1 [F2 F3]]. destruct (oflatten e) as [e1 c1] eqn:Ef. cbn [fst snd] in *.
  pose proof (oorder_size e1) as O1. pose proof (oorder_sorted e1) as Os. pose proof (oorder_keeps_stable e1) as Ok1.
  destruct (oorder e1) as [e2 c2] eqn:Eo. cbn [fst snd] in *.
  destruct (oabsorb_shrinks e2) as [A1 [A2 A3]]. destruct (oabsorb e2) as [e3 c3] eqn:Ea. cbn [fst snd] in *.
  assert (C1 : c1 = false) by (destruct c1; [specialize (F2 eq_refl); lia | reflexivity]).
  assert (C3 : c3 = false) by (destruct c3; [specialize (A2 eq_refl); lia | reflexivity]).
  specialize (F3 C1). specialize (A3 C3). subst e1 e3.
  assert (St : ostable e) by (unfold ostable; rewrite Ef; exact C1).
  assert (St2 : ostable e2) by (apply Ok1; [exact St | lia]).
  assert (Ef2 : oflatten e2 = (e2, false)).
  { destruct (oflatten_shrinks e2) as [_ [_ G3]]. apply pair_eta; [apply G3; exact St2 | exact St2]. }
  rewrite Ef2. rewrite (oorder_fixed e2 Os). rewrite Ea, C3. reflexivity.
Qed.

Theorem osettle_terminates : forall e, exists fuel r, osettle fuel e = Ok r.
Proof. intro e. apply (settle_terminates osimplify osize osimplify_le osimplify_fix). Qed.

(* Proofs/SchemaCompTime.v -- C03, completeness of TimestampProperty.clean on a string: a text that the
   specification's timestamp rule accepts (valid_timestamp p c) and that denotes an instant under the
   strict reader (instant_of_text s = Some i: year >= 1, seconds <= 59, at most six fraction digits --
   the rest is the known finding C03-timestamp-more-than-six-fraction-digits) is parsed by the library's
   strptime model (C15: Model/Timestamp.v) to that instant, stored without loss for the property's
   precision, and written back as a text that denotes the same instant.                           *)
From Coq Require Import NArith ZArith List String Bool Lia.
From V Require Import Base.UString Base.Json Model.SchemaTypes Model.PyBase Model.Schema
     Spec.StixValid Spec.SchemaRefine Proofs.SchemaBasics Proofs.SchemaTime Proofs.SchemaCovTime Proofs.SchemaComplete.
From V Require Model.Calendar Model.Timestamp Spec.TimestampSpec Proofs.CalendarFacts Proofs.TimestampFacts
     Proofs.StrptimeFacts Proofs.C15Proofs.
Import ListNotations.

Module SF := StrptimeFacts.

Local Open Scope Z_scope.

(* ---------- digit characters ---------- *)
Definition dval (c : N) : Z := Z.of_N c - 48.

Lemma is_digit_inv c : is_digit c = true -> TF.isdigit (dval c) /\ T.dchar (dval c) = c.
Proof.
  unfold is_digit, dval, TF.isdigit, T.dchar. intros H. apply andb_true_iff in H. destruct H as [A B].
  apply N.leb_le in A, B. split; [lia|]. replace (48 + (Z.of_N c - 48)) with (Z.of_N c) by lia. apply N2Z.id.
Qed.

Lemma two_dval a b : is_digit a = true -> is_digit b = true -> two a b = dval a * 10 + dval b.
Proof.
  intros Ha Hb. destruct (is_digit_inv a Ha) as [Ia Ea]. destruct (is_digit_inv b Hb) as [Ib Eb].
  rewrite <- Ea at 1. rewrite <- Eb at 1. apply two_dchar; auto.
Qed.

Lemma text_of_dvals f : forallb is_digit f = true -> Forall TF.isdigit (map dval f) /\ T.text_of (map dval f) = f.
Proof.
  induction f as [|c r IH]; intros H; [split; [constructor|reflexivity]|].
  simpl in H. apply andb_true_iff in H. destruct H as [Hc Hr]. destruct (is_digit_inv c Hc) as [I E].
  destruct (IH Hr) as [F T']. split; [constructor; auto|]. cbn [map T.text_of]. unfold T.text_of in T'. rewrite T', E. reflexivity.
Qed.

(* ---------- strptime on canonical text ---------- *)
Lemma parse_strptime_canonical y1 y2 y3 y4 m1 m2 d1 d2 h1 h2 i1 i2 s1 s2 frac :
  TF.isdigit y1 -> TF.isdigit y2 -> TF.isdigit y3 -> TF.isdigit y4 -> TF.isdigit m1 -> TF.isdigit m2 ->
  TF.isdigit d1 -> TF.isdigit d2 -> TF.isdigit h1 -> TF.isdigit h2 -> TF.isdigit i1 -> TF.isdigit i2 ->
  TF.isdigit s1 -> TF.isdigit s2 -> Forall TF.isdigit frac -> (List.length frac <= 6)%nat ->
  let us := match frac with [] => 0 | _ => TS.digits_value frac 0 * 10 ^ Z.of_nat (6 - List.length frac) end in
  C.valid_fields (((y1 * 10 + y2) * 10 + y3) * 10 + y4) (m1 * 10 + m2) (d1 * 10 + d2) (h1 * 10 + h2) (i1 * 10 + i2) (s1 * 10 + s2) us = true ->
  T.parse_strptime
    (T.dchar y1 :: T.dchar y2 :: T.dchar y3 :: T.dchar y4 :: 45%N :: T.dchar m1 :: T.dchar m2 :: 45%N :: T.dchar d1 :: T.dchar d2 :: 84%N ::
     T.dchar h1 :: T.dchar h2 :: 58%N :: T.dchar i1 :: T.dchar i2 :: 58%N :: T.dchar s1 :: T.dchar s2 ::
     (match frac with [] => [] | _ => 46%N :: T.text_of frac end) ++ [90%N])
  = Some (C.instant_of (((y1 * 10 + y2) * 10 + y3) * 10 + y4) (m1 * 10 + m2) (d1 * 10 + d2) (h1 * 10 + h2) (i1 * 10 + i2) (s1 * 10 + s2) us).
Proof.
  intros Y1 Y2 Y3 Y4 M1 M2 D1 D2 H1 H2 I1 I2 S1 S2 FF L6 us VF.
  unfold T.parse_strptime.
  assert (Dot : T.has_dot (T.dchar y1 :: T.dchar y2 :: T.dchar y3 :: T.dchar y4 :: 45%N :: T.dchar m1 :: T.dchar m2 :: 45%N :: T.dchar d1 :: T.dchar d2 :: 84%N ::
     T.dchar h1 :: T.dchar h2 :: 58%N :: T.dchar i1 :: T.dchar i2 :: 58%N :: T.dchar s1 :: T.dchar s2 ::
     (match frac with [] => [] | _ => 46%N :: T.text_of frac end) ++ [90%N]) = negb (SF.is_nil frac)).
  { unfold T.has_dot. cbn [existsb]. rewrite !SF.dchar_not_dot by assumption.
    cbn [orb N.eqb Pos.eqb]. fold (T.has_dot ((match frac with [] => [] | _ => 46%N :: T.text_of frac end) ++ [90%N])).
    rewrite CP.has_dot_app. destruct frac as [|d r]; [reflexivity|]. reflexivity. }
  rewrite Dot.
  pose proof VF as VF0. unfold C.valid_fields in VF0.
  repeat (apply andb_true_iff in VF0; let X := fresh "V" in destruct VF0 as [VF0 X]).
  pose proof (TF.valid_date_bounds _ _ _ V7) as [Bm Bd].
  repeat match goal with
         | X : (_ <=? _) = true |- _ => apply Z.leb_le in X
         | X : (_ <? _) = true |- _ => apply Z.ltb_lt in X
         end.
  rewrite SF.regex_match_canonical; try assumption; try lia.
  fold us. rewrite VF. reflexivity.
Qed.

(* ---------- the shape of a text the strict reader accepts ---------- *)
Ltac lit c H := destruct c as [|c]; [cbv beta iota in H; discriminate H|];
                repeat (destruct c as [c|c|]; try (cbv beta iota in H; discriminate H)).
Ltac ch s H := destruct s as [|? s]; [cbv beta iota in H; discriminate H|].
Ltac sep s H := let c := fresh "c" in destruct s as [|c s]; [cbv beta iota in H; discriminate H|]; lit c H.

Lemma instant_mod X us : 0 <= us < 1000000 -> (X * 1000000 + us) mod 1000000 = us.
Proof. intros B. rewrite Z.add_comm, Z.mod_add by lia. apply Z.mod_small. lia. Qed.

Lemma time_complete p c p' c' s i :
  kind_accepts (KTime p c) (KTime p' c') = true ->
  valid_timestamp p' c' s = true -> instant_of_text s = Some i ->
  exists r, ts_clean true p c s = Ok r /\ instant_of_text (snd r) = Some i.
Proof.
  intros Hacc Hv Hi. unfold instant_of_text in Hi. cbn [kind_accepts] in Hacc.
  destruct (parse_ts_strict s) as [ts| |] eqn:H; try discriminate. injection Hi as <-.
  unfold parse_ts_strict in H. unfold valid_timestamp in Hv.
  ch s H. ch s H. ch s H. ch s H. sep s H. ch s H. ch s H. sep s H. ch s H. ch s H. sep s H.
  ch s H. ch s H. sep s H. ch s H. ch s H. sep s H. ch s H. ch s H.
  cbv beta iota in H. cbv beta iota in Hv.
  rename n into y1, n0 into y2, n1 into y3, n2 into y4, n3 into m1, n4 into m2, n5 into d1, n6 into d2,
         n7 into h1, n8 into h2, n9 into i1, n10 into i2, n11 into s1, n12 into s2.
  destruct (forallb is_digit [y1; y2; y3; y4; m1; m2; d1; d2; h1; h2; i1; i2; s1; s2]) eqn:Hd; [|discriminate H].
  cbn [forallb] in Hd.
  repeat (apply andb_true_iff in Hd; let X := fresh "G" in destruct Hd as [X Hd]). clear Hd.
  cbv zeta in H. rewrite !two_dval in H by assumption.
  destruct (is_digit_inv y1 G) as [Y1 EY1]. destruct (is_digit_inv y2 G0) as [Y2 EY2].
  destruct (is_digit_inv y3 G1) as [Y3 EY3]. destruct (is_digit_inv y4 G2) as [Y4 EY4].
  destruct (is_digit_inv m1 G3) as [M1 EM1]. destruct (is_digit_inv m2 G4) as [M2 EM2].
  destruct (is_digit_inv d1 G5) as [D1 ED1]. destruct (is_digit_inv d2 G6) as [D2 ED2].
  destruct (is_digit_inv h1 G7) as [H1 EH1]. destruct (is_digit_inv h2 G8) as [H2 EH2].
  destruct (is_digit_inv i1 G9) as [I1 EI1]. destruct (is_digit_inv i2 G10) as [I2 EI2].
  destruct (is_digit_inv s1 G11) as [S1 ES1]. destruct (is_digit_inv s2 G12) as [S2 ES2].
  set (Y := (dval y1 * 10 + dval y2) * 100 + (dval y3 * 10 + dval y4)) in *.
  set (Mo := dval m1 * 10 + dval m2) in *. set (Dd := dval d1 * 10 + dval d2) in *.
  set (Hh := dval h1 * 10 + dval h2) in *. set (Mi := dval i1 * 10 + dval i2) in *.
  set (Se := dval s1 * 10 + dval s2) in *.
  set (FO := ((1 <=? Y) && (1 <=? Mo) && (Mo <=? 12) && (1 <=? Dd) && (Dd <=? days_in_month Y Mo)
              && (Hh <=? 23) && (Mi <=? 59) && (Se <=? 59))) in *.
  (* what is common to both endings: given the fraction digits *)
  assert (Core : forall frac usv,
             Forall TF.isdigit frac -> (List.length frac <= 6)%nat -> FO = true ->
             usv = match frac with [] => 0 | _ => TS.digits_value frac 0 * 10 ^ Z.of_nat (6 - List.length frac) end ->
             0 <= usv < 1000000 ->
             s = (match frac with [] => [] | _ => 46%N :: T.text_of frac end) ++ [90%N] ->
             T.stored_trunc (ts_prec p) (ts_constr c) (C.instant_of Y Mo Dd Hh Mi Se usv) = C.instant_of Y Mo Dd Hh Mi Se usv ->
             ts = {| ts_y := Y; ts_mo := Mo; ts_d := Dd; ts_h := Hh; ts_mi := Mi; ts_s := Se; ts_us := usv |} ->
             exists r, ts_clean true p c (y1 :: y2 :: y3 :: y4 :: 45%N :: m1 :: m2 :: 45%N :: d1 :: d2 :: 84%N ::
                                          h1 :: h2 :: 58%N :: i1 :: i2 :: 58%N :: s1 :: s2 :: s) = Ok r /\
                       instant_of_text (snd r) = Some (ts_instant ts)).
  { intros frac usv FF L6 HFO Eus Bus Es Etr Ets.
    unfold FO in HFO. rewrite days_in_month_eq in HFO. repeat (apply andb_true_iff in HFO; let X := fresh "F" in destruct HFO as [HFO X]).
    repeat match goal with X : (_ <=? _) = true |- _ => apply Z.leb_le in X end.
    assert (RD : 0 <= dval y1 <= 9 /\ 0 <= dval y2 <= 9 /\ 0 <= dval y3 <= 9 /\ 0 <= dval y4 <= 9 /\
                 0 <= dval m1 <= 9 /\ 0 <= dval m2 <= 9 /\ 0 <= dval d1 <= 9 /\ 0 <= dval d2 <= 9 /\
                 0 <= dval h1 <= 9 /\ 0 <= dval h2 <= 9 /\ 0 <= dval i1 <= 9 /\ 0 <= dval i2 <= 9 /\
                 0 <= dval s1 <= 9 /\ 0 <= dval s2 <= 9) by (unfold TF.isdigit in *; repeat split; lia).
    assert (EYr : ((dval y1 * 10 + dval y2) * 10 + dval y3) * 10 + dval y4 = Y) by (unfold Y; lia).
    assert (VF : C.valid_fields Y Mo Dd Hh Mi Se usv = true).
    { unfold C.valid_fields, C.valid_date, C.us_per_sec.
      repeat (apply andb_true_iff; split); try apply Z.leb_le; try apply Z.ltb_lt; unfold Y, Mo, Dd, Hh, Mi, Se in *; lia. }
    pose proof (parse_strptime_canonical (dval y1) (dval y2) (dval y3) (dval y4) (dval m1) (dval m2) (dval d1) (dval d2)
                  (dval h1) (dval h2) (dval i1) (dval i2) (dval s1) (dval s2) frac
                  Y1 Y2 Y3 Y4 M1 M2 D1 D2 H1 H2 I1 I2 S1 S2 FF L6) as PS.
    cbv zeta in PS. rewrite <- Eus in PS. rewrite EYr in PS. fold Mo Dd Hh Mi Se in PS. specialize (PS VF).
    rewrite EY1, EY2, EY3, EY4, EM1, EM2, ED1, ED2, EH1, EH2, EI1, EI2, ES1, ES2, <- Es in PS.
    unfold ts_clean. rewrite PS. eexists. split; [reflexivity|]. cbn [snd].
    rewrite Etr.
    assert (R : C.in_range (C.instant_of Y Mo Dd Hh Mi Se usv) = true) by (eapply CP.parse_strptime_in_range; eauto).
    rewrite format_reads_back by exact R.
    pose proof (floor_idem' p c (C.instant_of Y Mo Dd Hh Mi Se usv)) as FI. rewrite Etr in FI. rewrite FI.
    f_equal. rewrite Ets. unfold ts_instant, C.instant_of, C.us_per_sec. cbn [ts_y ts_mo ts_d ts_h ts_mi ts_s ts_us].
    rewrite hinnant_eq by (unfold Y, Mo in *; lia). reflexivity. }
  assert (Trunc : forall usv, 0 <= usv < 1000000 ->
             (match p, c with PSecond, CExact => usv = 0 | PMilli, CExact => usv mod 1000 = 0 | _, _ => True end) ->
             T.stored_trunc (ts_prec p) (ts_constr c) (C.instant_of Y Mo Dd Hh Mi Se usv) = C.instant_of Y Mo Dd Hh Mi Se usv).
  { intros usv B Hc. unfold C.instant_of, C.us_per_sec.
    set (X := ((C.days_of_civil Y Mo Dd * 24 + Hh) * 60 + Mi) * 60 + Se).
    destruct p, c; cbn [ts_prec ts_constr T.stored_trunc]; auto; rewrite instant_mod by lia; subst; lia. }
  (* the ending *)
  destruct s as [|r0 s]; [discriminate H|].
  destruct r0 as [|r0]; [discriminate H|].
  repeat (destruct r0 as [r0|r0|]; try discriminate H).
  - (* '.' fraction 'Z' *)
    destruct (rev s) as [|z dr] eqn:Er; [discriminate H|].
    destruct z as [|z]; [discriminate H|]. repeat (destruct z as [z|z|]; try discriminate H).
    assert (Es : s = rev dr ++ [90%N]).
    { rewrite <- (rev_involutive s), Er. reflexivity. }
    set (f := rev dr) in *.
    destruct (forallb is_digit f && Nat.leb 1 (List.length f) && Nat.leb (List.length f) 6) eqn:Ef.
    + apply andb_true_iff in Ef. destruct Ef as [Ef L6]. apply andb_true_iff in Ef. destruct Ef as [Fd L1].
      apply Nat.leb_le in L1, L6.
      destruct FO eqn:EFO; [|discriminate H]. injection H as <-.
      destruct (text_of_dvals f Fd) as [FF ET].
      set (ds := map dval f) in *.
      assert (Lds : List.length ds = List.length f) by (unfold ds; apply map_length).
      assert (Eus : digits_val 10 (pad_right_zeros 6 f) 0 = TS.digits_value ds 0 * 10 ^ Z.of_nat (6 - List.length ds)).
      { unfold pad_right_zeros. rewrite digits_val_app, digits_val_zeros. rewrite <- ET at 1.
        rewrite digits_val_text by auto. rewrite Lds. reflexivity. }
      assert (Bus : 0 <= TS.digits_value ds 0 * 10 ^ Z.of_nat (6 - List.length ds) < 1000000).
      { rewrite <- Eus.
        assert (GG : forall l acc, Forall TF.isdigit l -> 0 <= acc ->
                      0 <= TS.digits_value l acc < (acc + 1) * 10 ^ Z.of_nat (List.length l)).
        { induction l as [|d l IHl]; intros acc Fl Ha; cbn [TS.digits_value List.length].
          - simpl. lia.
          - apply Forall_cons_iff in Fl. destruct Fl as [Fd0 Fl]. unfold TF.isdigit in Fd0.
            destruct (IHl (acc * 10 + d) Fl ltac:(lia)) as [A B].
            split; auto. rewrite Nat2Z.inj_succ, Z.pow_succ_r by lia.
            set (P := 10 ^ Z.of_nat (List.length l)) in *. assert (0 < P) by (apply Z.pow_pos_nonneg; lia).
            assert (E : (acc + 1) * (10 * P) = (acc * 10 + 10) * P) by ring. rewrite E.
            eapply Z.lt_le_trans; [exact B|]. apply Z.mul_le_mono_nonneg_r; lia. }
        rewrite Eus. destruct (GG ds 0 FF ltac:(lia)) as [A B].
        set (P6 := 10 ^ Z.of_nat (6 - List.length ds)) in *. assert (0 < P6) by (apply Z.pow_pos_nonneg; lia).
        split; [apply Z.mul_nonneg_nonneg; lia|].
        replace 1000000 with (10 ^ Z.of_nat (List.length ds) * P6).
        2: { unfold P6. rewrite <- Z.pow_add_r by lia. replace (Z.of_nat (List.length ds) + Z.of_nat (6 - List.length ds)) with 6 by lia. reflexivity. }
        apply Z.mul_lt_mono_pos_r; lia. }
      apply (Core ds (TS.digits_value ds 0 * 10 ^ Z.of_nat (6 - List.length ds)) FF).
      * lia.
      * reflexivity.
      * destruct ds; [simpl in Lds; lia | reflexivity].
      * exact Bus.
      * rewrite ET. destruct ds; [simpl in Lds; lia|]. rewrite Es. reflexivity.
      * apply Trunc; auto.
        (* the specification's digit-count rule for the precision *)
        cbv beta iota in Hv.
        apply andb_true_iff in Hv. destruct Hv as [_ Hv].
        apply andb_true_iff in Hv. destruct Hv as [_ Hv].
        assert (Ldr : List.length dr = List.length ds) by (rewrite Lds; unfold f; rewrite rev_length; reflexivity).
        destruct p, c; auto; destruct p', c'; try discriminate Hacc; try discriminate Hv.
        apply Nat.eqb_eq in Hv. rewrite Ldr in Hv. rewrite Hv. change (Z.of_nat (6 - 3)) with 3.
        change (10 ^ 3) with 1000. apply Z_mod_mult.
      * rewrite Eus. reflexivity.
    + destruct (forallb is_digit f && Nat.leb 7 (List.length f)); discriminate H.
  - (* 'Z' *)
    destruct s; [|discriminate H].
    destruct FO eqn:EFO; [|repeat match type of H with (if ?b then _ else _) = _ => destruct b end; discriminate H].
    injection H as <-.
    apply (Core [] 0 (Forall_nil _)).
    + simpl. lia.
    + reflexivity.
    + reflexivity.
    + lia.
    + reflexivity.
    + apply Trunc; [lia|]. destruct p, c; auto.
    + reflexivity.
Qed.

(* ---------- the kind-level statement, on texts that denote an instant ---------- *)
Section CompTime.
  Variable vr : variant.
  Variables w sp : world.
  Variable pok : ver -> ustring -> bool.
  Variable rc : ustring -> bool -> bool -> list (ustring * jvalue) -> result pval.
  Variable rp : bool -> bool -> list (ustring * jvalue) -> result pval.
  Variable ro : ver -> list (ustring * ustring) -> bool -> list (ustring * jvalue) -> result pval.

  Lemma complete_time p c p' c' j n :
    vr_year_pad vr = true -> kind_accepts (KTime p c) (KTime p' c') = true ->
    valid_kind sp pok n (KTime p' c') j = true ->
    (forall s, j = JStr s -> instant_of_text s <> None) ->
    exists pv, clean_kind vr w rc rp ro (KTime p c) false false j = Ok (pv, false) /\ jsame (KTime p' c') j (encode true pv).
  Proof.
    intros Hpad Hacc H Hrep.
    destruct (valid_S sp pok _ _ _ H) as [m ->]. cbn in H. destruct j; try discriminate.
    destruct (instant_of_text s) as [i|] eqn:Ei; [|exfalso; apply (Hrep s eq_refl); auto].
    destruct (time_complete p c p' c' s i Hacc H Ei) as [r [Hr Hi]].
    exists (PTime (fst r) (snd r)). split.
    - cbn [clean_kind]. rewrite Hpad, Hr. reflexivity.
    - cbn [encode jsame]. rewrite Ei, Hi. split; [discriminate | reflexivity].
  Qed.
End CompTime.

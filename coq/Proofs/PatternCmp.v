(* Proofs/PatternCmp.v -- C10: what the (repaired) visitor makes of comparison
   expressions: propTest alternatives, AND / OR chains, parentheses, and the
   root_types bookkeeping of _BooleanExpression.                              *)
From Coq Require Import NArith ZArith List String Bool Lia.
From V Require Import Model.PatternSyntax Spec.PatternSpec Proofs.PatternR Proofs.PatternNumbers Proofs.PatternLit Proofs.PatternPath.
Import ListNotations.
Open Scope N_scope.




(* root_types as _BooleanExpression computes them (every operand of a chain counts) *)
Definition pt_path (p : proptest) : option objpath :=
  match p with
  | PTEqual p _ _ _ | PTOrder p _ _ _ | PTSet p _ _ | PTStr _ p _ _ | PTExists _ p => Some p
  | PTParen _ => None
  end.


(* side conditions: literals the visitor can represent, paths it can build,
   no EXISTS (C10-exists-unhandled), and the library's own refusal of an AND
   whose operands share no object type *)

(* ---- visit_children on lists of successes ---- *)

Lemma vc_cons_ok : forall v rs l, v <> VNone -> seq_results l = Ok rs ->
  visit_children (Ok v :: l) = Ok (v :: rs).
Proof.
  intros v rs l Hv H. unfold visit_children. cbn [seq_results bind]. rewrite H. cbn [bind].
  destruct v; try reflexivity. contradiction Hv; reflexivity.
Qed.

Lemma v_literal_ok : forall t, kind_in t primitive_kinds = true -> lit_sem t = true ->
  v_literal t = Ok (VConst (sv_lit t)).
Proof.
  intros t Hk Hs. unfold PatternSyntax.v_literal. rewrite (visit_lit t Hk Hs). destruct (tk t); reflexivity.
Qed.

Lemma orderable_primitive : forall t, kind_in t orderable_kinds = true -> kind_in t primitive_kinds = true.
Proof.
  intros t H. unfold kind_in in *. apply andb_true_iff in H. destruct H as [H1 H2]. rewrite H2, andb_true_r.
  unfold primitive_kinds. cbn [existsb]. rewrite H1. apply orb_true_r.
Qed.

Lemma v_orderable_ok : forall t, kind_in t orderable_kinds = true -> lit_sem t = true ->
  v_orderable t = Ok (VConst (sv_lit t)).
Proof.
  intros t Hk Hs. unfold PatternSyntax.v_orderable. rewrite (visit_lit t (orderable_primitive t Hk) Hs). reflexivity.
Qed.

(* the children of a setLiteral *)
Fixpoint set_vals (l : list token) : list vres :=
  match l with
  | [] => []
  | [x] => [VConst (sv_lit x)]
  | x :: r => VConst (sv_lit x) :: VTok t_COMMA :: set_vals r
  end.

Lemma seq_set_children : forall es,
  forallb (fun t => kind_in t primitive_kinds) es = true -> forallb lit_sem es = true ->
  seq_results (v_set_children es) = Ok (set_vals es).
Proof.
  induction es as [|x r IH]; intros Hk Hs; [reflexivity|].
  cbn [forallb] in Hk, Hs. apply andb_true_iff in Hk, Hs. destruct Hk as [Hx Hk]. destruct Hs as [Sx Hs].
  destruct r as [|y r'].
  - cbn [PatternSyntax.v_set_children set_vals seq_results]. rewrite (v_literal_ok x Hx Sx). reflexivity.
  - change (v_set_children (x :: y :: r')) with (v_literal x :: tokv t_COMMA :: v_set_children (y :: r')).
    change (set_vals (x :: y :: r')) with (VConst (sv_lit x) :: VTok t_COMMA :: set_vals (y :: r')).
    cbn [seq_results]. rewrite (v_literal_ok x Hx Sx), (IH Hk Hs). reflexivity.
Qed.

Lemma seq_results_app : forall a b ra rb, seq_results a = Ok ra -> seq_results b = Ok rb ->
  seq_results (a ++ b) = Ok (ra ++ rb).
Proof.
  induction a as [|x a IH]; intros b ra rb Ha Hb.
  - cbn in Ha. inversion Ha; subst. exact Hb.
  - cbn [app seq_results] in Ha |- *. destruct x as [v|e]; [|discriminate]. cbn [bind] in Ha |- *.
    destruct (seq_results a) as [ra'|e] eqn:E; [|discriminate]. cbn [bind] in Ha. inversion Ha; subst.
    rewrite (IH b ra' rb eq_refl Hb). reflexivity.
Qed.

Definition not_tok (v : vres) : bool := match v with VTok _ => false | _ => true end.

Lemma filter_set_vals : forall es, filter not_tok (set_vals es ++ [VTok t_RPAREN]) = map (fun t => VConst (sv_lit t)) es.
Proof.
  induction es as [|x r IH]; [reflexivity|].
  destruct r as [|y r'].
  - reflexivity.
  - change (set_vals (x :: y :: r')) with (VConst (sv_lit x) :: VTok t_COMMA :: set_vals (y :: r')).
    cbn [app filter not_tok map]. f_equal. exact IH.
Qed.

Lemma consts_of_map : forall cs, consts_of (map VConst cs) = Ok cs.
Proof. induction cs as [|c r IH]; [reflexivity|]. cbn [map consts_of]. rewrite IH. reflexivity. Qed.

Lemma v_set_ok : forall es,
  forallb (fun t => kind_in t primitive_kinds) es = true -> forallb lit_sem es = true ->
  v_set es = Ok (VConst (CList (map sv_lit es))).
Proof.
  intros es Hk Hs. unfold PatternSyntax.v_set.
  assert (S : seq_results (v_set_children es ++ [tokv t_RPAREN]) = Ok (set_vals es ++ [VTok t_RPAREN])).
  { apply seq_results_app; [apply seq_set_children; assumption|reflexivity]. }
  cbn [app]. unfold tokv in *. rewrite (vc_cons_ok (VTok t_LPAREN) _ _ ltac:(discriminate) S). cbn [bind].
  unfold m_set_literal. cbn [filter].
  change (filter (fun v : vres => match v with VTok _ => false | _ => true end)) with (filter not_tok).
  rewrite filter_set_vals, <- map_map, consts_of_map. reflexivity.
Qed.

(* ------------------------------------------------------------------ *)
(** * AND / OR chains *)

Definition is_bool (e : aexpr) : bool := match e with EBool _ _ => true | _ => false end.
Definition is_or (e : aexpr) : bool := match e with EBool false _ => true | _ => false end.

Lemma sv_pt_not_bool : forall p, is_bool (sv_pt p) = false.
Proof. destruct p; reflexivity. Qed.

Lemma sv_and_ops_nonnil : forall a, sv_and_ops a <> [].
Proof. destruct a; cbn; [discriminate|]. intros H. apply app_eq_nil in H. destruct H; discriminate. Qed.
Lemma sv_or_ops_nonnil : forall o, sv_or_ops o <> [].
Proof. destruct o; cbn; [discriminate|]. intros H. apply app_eq_nil in H. destruct H; discriminate. Qed.

Lemma mk1_snoc : forall b xs y, xs <> [] -> mk1 b (xs ++ [y]) = EBool b (xs ++ [y]).
Proof.
  intros b xs y H. destruct xs as [|x [|x' r]]; [congruence| |]; reflexivity.
Qed.

Lemma sv_and_CAnd : forall l r, sv_and (CAnd l r) = EBool true (sv_and_ops l ++ [sv_pt r]).
Proof. intros l r. unfold sv_and. cbn [sv_and_ops]. apply mk1_snoc, sv_and_ops_nonnil. Qed.
Lemma sv_or_COr : forall l r, sv_or (COr l r) = EBool false (sv_or_ops l ++ [sv_and r]).
Proof. intros l r. unfold sv_or. cbn [sv_or_ops]. apply mk1_snoc, sv_or_ops_nonnil. Qed.

(* an AND chain is never an OR node; a single operand is never a boolean node *)
Lemma sv_and_not_or : forall a, is_or (sv_and a) = false.
Proof.
  destruct a as [p|l r].
  - unfold sv_and. cbn [sv_and_ops mk1]. pose proof (sv_pt_not_bool p). destruct (sv_pt p); try reflexivity; discriminate.
  - rewrite sv_and_CAnd. reflexivity.
Qed.

Lemma m_cmp_and_fresh : forall e ra t e' rb,
  is_bool e = false -> ra <> [] -> set_inter ra rb <> [] ->
  m_cmp_and [VExpr e (Some ra); VTok t; VExpr e' (Some rb)] = Ok (VExpr (EBool true [e; e']) (Some (set_inter ra rb))).
Proof.
  intros e ra t e' rb He Hra Hi.
  assert (M : mk_bool true [VExpr e (Some ra); VExpr e' (Some rb)] = Ok (VExpr (EBool true [e; e']) (Some (set_inter ra rb)))).
  { unfold mk_bool. cbn [bool_rts]. destruct ra as [|x ra']; [congruence|].
    destruct (set_inter (x :: ra') rb) as [|y s] eqn:E; [congruence|]. reflexivity. }
  unfold PatternSyntax.m_cmp_and. cbn [List.length Nat.eqb child nth_error bind].
  destruct e; try exact M. discriminate He.
Qed.

Lemma m_cmp_and_append : forall ops rt t e' rt' r,
  bool_rts_e true None (ops ++ [e']) = Ok r ->
  m_cmp_and [VExpr (EBool true ops) rt; VTok t; VExpr e' rt'] = Ok (VExpr (EBool true (ops ++ [e'])) (Some r)).
Proof.
  intros ops rt t e' rt' r H. unfold PatternSyntax.m_cmp_and. cbn [List.length Nat.eqb child nth_error bind].
  rewrite append_operand_rep. cbn [expr_of bind]. rewrite H. reflexivity.
Qed.

Lemma m_cmp_or_fresh : forall e ra e' rb,
  is_or e = false -> ra <> [] ->
  m_cmp_or [VExpr e (Some ra); VTok t_OR; VExpr e' (Some rb)] = Ok (VExpr (EBool false [e; e']) (Some (set_union ra rb))).
Proof.
  intros e ra e' rb He Hra.
  assert (M : mk_bool false [VExpr e (Some ra); VExpr e' (Some rb)] = Ok (VExpr (EBool false [e; e']) (Some (set_union ra rb)))).
  { unfold mk_bool. cbn [bool_rts]. destruct ra as [|x ra']; [congruence|]. reflexivity. }
  unfold PatternSyntax.m_cmp_or. cbn [List.length Nat.eqb child nth_error bind].
  destruct e; try exact M.
  destruct isand; [|discriminate He]. cbn [as_tok bind]. exact M.
Qed.

Lemma m_cmp_or_append : forall ops rt e' rt' r,
  bool_rts_e false None (ops ++ [e']) = Ok r ->
  m_cmp_or [VExpr (EBool false ops) rt; VTok t_OR; VExpr e' rt'] = Ok (VExpr (EBool false (ops ++ [e'])) (Some r)).
Proof.
  intros ops rt e' rt' r H. unfold PatternSyntax.m_cmp_or. cbn [List.length Nat.eqb child nth_error bind as_tok].
  change (ustr_eqb (tx t_OR) (tx t_OR)) with true. cbn iota.
  rewrite append_operand_rep. cbn [expr_of bind]. rewrite H. reflexivity.
Qed.

(* ---- root_types recomputed from the operands of a rebuilt node ---- *)

Definition rstep (isand : bool) (a t : list ustring) : list ustring := if isand then set_inter a t else set_union a t.

Lemma brts_snoc : forall isand l a r y t,
  bool_rts_e isand (Some a) l = Ok r -> expr_rt y = Some t -> rstep isand r t <> [] ->
  bool_rts_e isand (Some a) (l ++ [y]) = Ok (rstep isand r t).
Proof.
  intros isand. induction l as [|x l IH]; intros a r y t H Hy Hn.
  - cbn in H. inversion H; subst a. cbn [List.app bool_rts_e]. rewrite Hy. fold (rstep isand r t).
    destruct (rstep isand r t) eqn:E; [congruence|]. reflexivity.
  - cbn [List.app bool_rts_e] in H |- *. destruct (expr_rt x) as [tx0|]; [|discriminate].
    destruct (if isand then set_inter a tx0 else set_union a tx0) eqn:E; [discriminate|].
    apply IH; assumption.
Qed.

Lemma brts_snoc_none : forall isand l r y t, l <> [] ->
  bool_rts_e isand None l = Ok r -> expr_rt y = Some t -> rstep isand r t <> [] ->
  bool_rts_e isand None (l ++ [y]) = Ok (rstep isand r t).
Proof.
  intros isand [|x l] r y t Hl H Hy Hn; [congruence|].
  cbn [List.app bool_rts_e] in H |- *. destruct (expr_rt x) as [tx0|]; [|discriminate].
  destruct tx0 as [|c tx1]; [discriminate|]. apply brts_snoc; assumption.
Qed.

Lemma brts_one : forall isand x t, expr_rt x = Some t -> t <> [] -> bool_rts_e isand None [x] = Ok t.
Proof. intros isand x t H Hn. cbn [bool_rts_e]. rewrite H. destruct t; [congruence|]. reflexivity. Qed.

(* the attribute of a node the constructor built *)
Lemma brts_expr_rt_some : forall isand l a r, bool_rts_e isand (Some a) l = Ok r ->
  (fix go (acc : option (list ustring)) (l : list aexpr) : option (list ustring) :=
     match l with
     | [] => acc
     | x :: r =>
         match expr_rt x with
         | Some t => go (Some (match acc with None => t | Some a => if isand then set_inter a t else set_union a t end)) r
         | None => None
         end
     end) (Some a) l = Some r.
Proof.
  intros isand. induction l as [|x l IH]; intros a r H.
  - cbn in H. inversion H. reflexivity.
  - cbn [bool_rts_e] in H. destruct (expr_rt x) as [t|]; [|discriminate].
    destruct (if isand then set_inter a t else set_union a t) eqn:E; [discriminate|]. rewrite <- E in H |- *. apply IH. exact H.
Qed.

Lemma brts_expr_rt : forall isand l r, bool_rts_e isand None l = Ok r -> expr_rt (mk1 isand l) = Some r.
Proof.
  intros isand [|x [|y l]] r H.
  - discriminate H.
  - cbn [mk1]. cbn [bool_rts_e] in H. destruct (expr_rt x) as [t|]; [|discriminate]. destruct t; [discriminate|]. inversion H. reflexivity.
  - cbn [mk1 expr_rt]. cbn [bool_rts_e] in H. destruct (expr_rt x) as [t|]; [|discriminate].
    destruct t as [|c t']; [discriminate|]. apply (brts_expr_rt_some isand (y :: l) (c :: t') r H).
Qed.

Lemma m_cmp_and_one : forall v, m_cmp_and [v] = Ok v.
Proof. reflexivity. Qed.
Lemma m_cmp_or_one : forall v, m_cmp_or [v] = Ok v.
Proof. reflexivity. Qed.

Lemma set_union_nonnil : forall a b, a <> [] -> set_union a b <> [].
Proof. intros a b H E. unfold set_union in E. apply app_eq_nil in E. tauto. Qed.

(* ---- propTest alternatives ---- *)

Lemma optnot_seq : forall nt, seq_results (optnot_children nt) = Ok (if nt then [VTok t_NOT] else []).
Proof. destruct nt; reflexivity. Qed.

Lemma v_pt_equal_ok : forall p nt op l,
  wf_pt (PTEqual p nt op l) = true -> sem_pt (PTEqual p nt op l) = true ->
  v_pt repaired (PTEqual p nt op l) = Ok (VExpr (sv_pt (PTEqual p nt op l)) (Some (rt_pt (PTEqual p nt op l)))).
Proof.
  intros p nt op l Hw Hs. cbn [wf_pt sem_pt] in Hw, Hs.
  apply andb_true_iff in Hw. destruct Hw as [Hw Hl]. apply andb_true_iff in Hw. destruct Hw as [Hp Hop].
  apply andb_true_iff in Hs. destruct Hs as [Sp Sl].
  cbn [v_pt]. rewrite (v_path_value p Hp Sp), (v_literal_ok l Hl Sl).
  destruct nt; reflexivity.
Qed.

Lemma v_pt_order_ok : forall p nt op l,
  wf_pt (PTOrder p nt op l) = true -> sem_pt (PTOrder p nt op l) = true ->
  v_pt repaired (PTOrder p nt op l) = Ok (VExpr (sv_pt (PTOrder p nt op l)) (Some (rt_pt (PTOrder p nt op l)))).
Proof.
  intros p nt op l Hw Hs. cbn [wf_pt sem_pt] in Hw, Hs.
  apply andb_true_iff in Hw. destruct Hw as [Hw Hl]. apply andb_true_iff in Hw. destruct Hw as [Hp Hop].
  apply andb_true_iff in Hs. destruct Hs as [Sp Sl].
  cbn [v_pt]. rewrite (v_path_value p Hp Sp), (v_orderable_ok l Hl Sl).
  unfold kind_in in Hop. apply andb_true_iff in Hop. destruct Hop as [Hop _].
  destruct op as [k s]. cbn [tk] in Hop.
  destruct k; cbn in Hop; try discriminate; destruct nt; reflexivity.
Qed.

Lemma v_pt_set_ok : forall p nt es,
  wf_pt (PTSet p nt es) = true -> sem_pt (PTSet p nt es) = true ->
  v_pt repaired (PTSet p nt es) = Ok (VExpr (sv_pt (PTSet p nt es)) (Some (rt_pt (PTSet p nt es)))).
Proof.
  intros p nt es Hw Hs. cbn [wf_pt sem_pt] in Hw, Hs.
  apply andb_true_iff in Hw. destruct Hw as [Hp Hes]. apply andb_true_iff in Hs. destruct Hs as [Sp Ses].
  cbn [v_pt]. rewrite (v_path_value p Hp Sp), (v_set_ok es Hes Ses).
  destruct nt; reflexivity.
Qed.

Lemma v_pt_str_ok : forall o p nt s,
  wf_pt (PTStr o p nt s) = true -> sem_pt (PTStr o p nt s) = true ->
  v_pt repaired (PTStr o p nt s) = Ok (VExpr (sv_pt (PTStr o p nt s)) (Some (rt_pt (PTStr o p nt s)))).
Proof.
  intros o p nt s Hw Hs. cbn [wf_pt sem_pt] in Hw, Hs.
  apply andb_true_iff in Hw. destruct Hw as [Hp Hk].
  assert (Hk' : kind_in s primitive_kinds = true).
  { unfold kind_in in *. apply andb_true_iff in Hk. destruct Hk as [H1 H2]. rewrite H2, andb_true_r.
    destruct s as [k x]. cbn [tk] in *. destruct k; cbn in H1; try discriminate. reflexivity. }
  assert (Sl : lit_sem s = true).
  { unfold kind_in in Hk. apply andb_true_iff in Hk. destruct Hk as [H1 _].
    destruct s as [k x]. cbn [tk] in *. destruct k; cbn in H1; try discriminate. reflexivity. }
  cbn [v_pt]. rewrite (v_path_value p Hp Hs), (visit_lit s Hk' Sl).
  destruct nt; destruct o; reflexivity.
Qed.

Scheme proptest_mind := Induction for proptest Sort Prop
  with cmpand_mind := Induction for cmpand Sort Prop
  with cmpor_mind := Induction for cmpor Sort Prop.
Combined Scheme cmp_mutind from proptest_mind, cmpand_mind, cmpor_mind.

Definition P_pt (p : proptest) : Prop :=
  wf_pt p = true -> sem_pt p = true ->
  v_pt repaired p = Ok (VExpr (sv_pt p) (Some (rt_pt p))) /\ rt_pt p <> [] /\ expr_rt (sv_pt p) = Some (rt_pt p).
Definition P_and (a : cmpand) : Prop :=
  wf_and a = true -> sem_and a = true ->
  v_and repaired a = Ok (VExpr (sv_and a) (Some (rt_and a))) /\ rt_and a <> [] /\
  bool_rts_e true None (sv_and_ops a) = Ok (rt_and a).
Definition P_or (o : cmpor) : Prop :=
  wf_or o = true -> sem_or o = true ->
  v_or repaired o = Ok (VExpr (sv_or o) (Some (rt_or o))) /\ rt_or o <> [] /\
  bool_rts_e false None (sv_or_ops o) = Ok (rt_or o).

Lemma visit_cmp : (forall p, P_pt p) /\ (forall a, P_and a) /\ (forall o, P_or o).
Proof.
  apply cmp_mutind; unfold P_pt, P_and, P_or.
  - intros p nt op l Hw Hs. split; [apply v_pt_equal_ok; assumption|]. split; [discriminate|reflexivity].
  - intros p nt op l Hw Hs. split; [apply v_pt_order_ok; assumption|]. split; [discriminate|reflexivity].
  - intros p nt es Hw Hs. split; [apply v_pt_set_ok; assumption|]. split; [discriminate|reflexivity].
  - intros o p nt s Hw Hs. split; [apply v_pt_str_ok; assumption|]. split; [discriminate|reflexivity].
  - (* parentheses *)
    intros e IH Hw Hs. cbn [wf_pt sem_pt] in Hw, Hs. destruct (IH Hw Hs) as [E [N B]].
    split; [cbn [v_pt]; rewrite E; reflexivity|]. split; [exact N|].
    cbn [sv_pt expr_rt rt_pt]. apply brts_expr_rt. exact B.
  - intros nt p Hw Hs. discriminate Hs.
  - (* single propTest *)
    intros p IH Hw Hs. cbn [wf_and sem_and] in Hw, Hs. destruct (IH Hw Hs) as [E [N R]].
    split; [cbn [v_and]; rewrite E; reflexivity|]. split; [exact N|].
    cbn [sv_and_ops rt_and]. apply brts_one; assumption.
  - (* l AND r *)
    intros l IHl r IHr Hw Hs. cbn [wf_and sem_and] in Hw, Hs.
    apply andb_true_iff in Hw. destruct Hw as [Hwl Hwr].
    apply andb_true_iff in Hs. destruct Hs as [Hs Hrt]. apply andb_true_iff in Hs. destruct Hs as [Hsl Hsr].
    destruct (IHl Hwl Hsl) as [El [Nl Bl]]. destruct (IHr Hwr Hsr) as [Er [Nr Rr]].
    apply negb_true_iff in Hrt.
    assert (Hi : set_inter (rt_and l) (rt_pt r) <> []).
    { intros E. rewrite E in Hrt. discriminate. }
    assert (B : bool_rts_e true None (sv_and_ops l ++ [sv_pt r]) = Ok (set_inter (rt_and l) (rt_pt r))).
    { apply (brts_snoc_none true _ _ _ _ (sv_and_ops_nonnil l) Bl Rr Hi). }
    cbn [rt_and sv_and_ops]. split; [|split; [exact Hi|exact B]].
    cbn [v_and]. rewrite El, Er. unfold visit_children. cbn [seq_results bind aggregate tokv].
    rewrite m_cmp_and_one. cbn [seq_results bind aggregate].
    rewrite sv_and_CAnd.
    destruct l as [p|l' r'].
    + (* first two operands: a fresh AndBooleanExpression *)
      unfold sv_and. cbn [sv_and_ops mk1 List.app rt_and] in *.
      apply m_cmp_and_fresh; [apply sv_pt_not_bool|exact Nl|exact Hi].
    + (* third and later operands: the node is rebuilt from all operands *)
      rewrite sv_and_CAnd. apply m_cmp_and_append. exact B.
  - (* single AND chain *)
    intros a IH Hw Hs. cbn [wf_or sem_or] in Hw, Hs. destruct (IH Hw Hs) as [E [N B]].
    split; [cbn [v_or]; rewrite E; reflexivity|]. split; [exact N|].
    cbn [sv_or_ops rt_or]. apply brts_one; [apply brts_expr_rt; exact B|exact N].
  - (* l OR r *)
    intros l IHl r IHr Hw Hs. cbn [wf_or sem_or] in Hw, Hs.
    apply andb_true_iff in Hw. destruct Hw as [Hwl Hwr]. apply andb_true_iff in Hs. destruct Hs as [Hsl Hsr].
    destruct (IHl Hwl Hsl) as [El [Nl Bl]]. destruct (IHr Hwr Hsr) as [Er [Nr Br]].
    assert (Hu : set_union (rt_or l) (rt_and r) <> []) by (apply set_union_nonnil; exact Nl).
    assert (B : bool_rts_e false None (sv_or_ops l ++ [sv_and r]) = Ok (set_union (rt_or l) (rt_and r))).
    { apply (brts_snoc_none false _ _ _ _ (sv_or_ops_nonnil l) Bl (brts_expr_rt true _ _ Br) Hu). }
    cbn [rt_or sv_or_ops]. fold (sv_and r). split; [|split; [exact Hu|exact B]].
    cbn [v_or]. rewrite El, Er. unfold visit_children. cbn [seq_results bind aggregate tokv].
    rewrite m_cmp_or_one. cbn [seq_results bind aggregate].
    rewrite sv_or_COr.
    destruct l as [a|l' r'].
    + unfold sv_or at 1. cbn [sv_or_ops mk1 List.app rt_or] in *. fold (sv_and a).
      apply m_cmp_or_fresh; [apply sv_and_not_or|exact Nl].
    + rewrite sv_or_COr. apply m_cmp_or_append. exact B.
Qed.

Lemma v_or_value : forall e, wf_or e = true -> sem_or e = true ->
  v_or repaired e = Ok (VExpr (sv_or e) (Some (rt_or e))).
Proof. intros e Hw Hs. apply (proj2 (proj2 visit_cmp) e Hw Hs). Qed.

(* Proofs/JcsCanonFacts.v -- structure of Model.Jcs.canon:
     canon v = emit (sort_deep v)   for every value whose keys are Unicode strings,
     an error otherwise;  sort_deep orders every object;  canon is invariant
     under permutation of members (top level and at every depth).               *)
From Coq Require Import String NArith ZArith List Bool Lia Sorted Permutation.
From V Require Import Base.UString Base.Json Model.JcsText Model.Jcs Spec.Rfc8785 Spec.JcsSpec
  Proofs.JcsSortFacts Proofs.JcsSortG Proofs.JcsKeyFacts Proofs.JcsEscFacts.
Import ListNotations.
Open Scope N_scope.

(* ---- unfolding canon --------------------------------------------------------- *)
Definition canon_members (enc : list (ustring * jres ustring)) : jres ustring :=
  match sort_members enc with
  | None => JRaise UnicodeEncodeError
  | Some sorted => wrap c_lbrace c_rbrace (sequence (map member_text sorted))
  end.

Lemma canon_arr_eq : forall l, canon (JArr l) = wrap c_lbrack c_rbrack (sequence (map canon l)).
Proof.
  intro l. simpl.
  match goal with |- context [sequence (?f l)] =>
    assert (E : forall l', f l' = map canon l')
      by (induction l' as [|x r IH]; [reflexivity|simpl; rewrite IH; reflexivity])
  end.
  rewrite E. unfold wrap. destruct (sequence (map canon l)); reflexivity.
Qed.

Lemma canon_obj_eq : forall m, canon (JObj m) = canon_members (map (on_snd canon) m).
Proof.
  intro m. simpl.
  match goal with |- context [sort_members (?f m)] =>
    assert (E : forall m', f m' = map (on_snd canon) m')
      by (induction m' as [|[k x] r IH]; [reflexivity|simpl; rewrite IH; reflexivity])
  end.
  rewrite E. unfold canon_members, wrap.
  destruct (sort_members (map (on_snd canon) m)); [|reflexivity].
  destruct (sequence (map member_text l)); reflexivity.
Qed.

Lemma member_text_emit : forall kv, member_text kv = emit_member kv.
Proof.
  intros [k r]. unfold member_text, emit_member, encode_string, str_text. simpl.
  rewrite canon_escape_minimal_proof. reflexivity.
Qed.

(* ---- the model's sort_members through sortg ------------------------------------ *)
Definition key_scalar {A : Type} (kv : ustring * A) : Prop := Forall scalar (fst kv).
Definition gb {A : Type} (kv : ustring * A) : list N := be_bytes (utf16 (fst kv)).
Definition gu {A : Type} (kv : ustring * A) : list N := utf16 (fst kv).

Lemma keyed_scalar : forall (A : Type) (m : list (ustring * A)),
  Forall key_scalar m -> keyed m = Some (map (tag gb) m).
Proof.
  induction 1 as [|[k x] m Hk Hm IH]; [reflexivity|].
  simpl. unfold key_scalar in Hk. simpl in Hk. rewrite (sort_key_scalar k Hk), IH. reflexivity.
Qed.

Lemma keyed_some : forall (A : Type) (m : list (ustring * A)) ks, keyed m = Some ks -> Forall key_scalar m.
Proof.
  induction m as [|[k x] m IH]; intros ks H; [constructor|].
  simpl in H. destruct (sort_key k) as [b|] eqn:E; [|discriminate].
  destruct (keyed m) as [r|] eqn:E2; [|discriminate].
  constructor; [|eapply IH; reflexivity]. apply sort_key_some in E. exact (proj1 E).
Qed.

Lemma spec_sort_sortg : forall (A : Type) (m : list (ustring * A)), sort_members_spec m = sortg gu m.
Proof.
  intros A m. unfold sort_members_spec. change (@tagk A) with (tag (@gu A)).
  rewrite isort_tag. apply map_snd_tag.
Qed.

Lemma gb_gu_agree : forall (A : Type) (a b : ustring * A), key_scalar a -> key_scalar b ->
  units_leb (gb a) (gb b) = units_leb (gu a) (gu b).
Proof.
  intros A a b Ha Hb. unfold units_leb, gb, gu.
  rewrite be_bytes_compare; [reflexivity| |]; apply utf16_unit16; assumption.
Qed.

Lemma sort_members_scalar : forall (A : Type) (m : list (ustring * A)),
  Forall key_scalar m -> sort_members m = Some (sort_members_spec m).
Proof.
  intros A m H. unfold sort_members. rewrite (keyed_scalar A m H). simpl.
  rewrite isort_tag, map_snd_tag, spec_sort_sortg. f_equal.
  apply (sortg_ext _ gb gu key_scalar); [apply gb_gu_agree|exact H].
Qed.

Lemma sort_members_nonscalar : forall (A : Type) (m : list (ustring * A)),
  ~ Forall key_scalar m -> sort_members m = None.
Proof.
  intros A m H. unfold sort_members. destruct (keyed m) eqn:E; [|reflexivity].
  exfalso. apply H. eapply keyed_some. exact E.
Qed.

Lemma key_scalar_dec : forall (A : Type) (m : list (ustring * A)), Forall key_scalar m \/ ~ Forall key_scalar m.
Proof.
  intros A m. destruct (keyed m) eqn:E.
  - left. eapply keyed_some. exact E.
  - right. intro H. rewrite (keyed_scalar A m H) in E. discriminate.
Qed.

Lemma key_scalar_map : forall (A B : Type) (f : A -> B) (m : list (ustring * A)),
  Forall key_scalar (map (on_snd f) m) <-> Forall key_scalar m.
Proof.
  intros A B f m. rewrite Forall_map. split; intro H; eapply Forall_impl; try exact H; intros [k x] Hk; exact Hk.
Qed.

Lemma spec_sort_map : forall (A B : Type) (f : A -> B) (m : list (ustring * A)),
  sort_members_spec (map (on_snd f) m) = map (on_snd f) (sort_members_spec m).
Proof.
  intros A B f m. rewrite !spec_sort_sortg. rewrite sortg_map. f_equal.
Qed.

Lemma spec_sort_In : forall (A : Type) (m : list (ustring * A)) kv, In kv (sort_members_spec m) <-> In kv m.
Proof. intros A m kv. rewrite spec_sort_sortg. apply sortg_In. Qed.

Lemma spec_sort_perm : forall (A : Type) (m : list (ustring * A)), Permutation (sort_members_spec m) m.
Proof. intros A m. rewrite spec_sort_sortg. apply sortg_perm. Qed.

(* ---- sequence ------------------------------------------------------------------ *)
Lemma sequence_ok : forall rs ps, sequence rs = JOk ps -> Forall (fun r => exists a, r = JOk a) rs.
Proof.
  induction rs as [|r rs IH]; intros ps H; [constructor|].
  simpl in H. destruct r as [a|e]; [|discriminate].
  destruct (sequence rs) as [l|e] eqn:E; [|discriminate].
  constructor; [eexists; reflexivity|]. eapply IH. reflexivity.
Qed.

Lemma map_ext_Forall : forall (A B : Type) (f g : A -> B) l, Forall (fun x => f x = g x) l -> map f l = map g l.
Proof. induction 1; simpl; [reflexivity|]. f_equal; assumption. Qed.

(* ---- canon = emit after sort_deep ------------------------------------------------ *)
Lemma canon_emit_proof : forall v, keys_scalar v -> canon v = emit (sort_deep v).
Proof.
  induction v as [|b|z|r|s|l IH|m IH] using jvalue_nested_ind; intro K; try reflexivity.
  - simpl. unfold encode_string, str_text. rewrite canon_escape_minimal_proof. reflexivity.
  - rewrite canon_arr_eq. simpl. rewrite map_map. f_equal. f_equal.
    apply map_ext_Forall. inversion K; subst. rewrite Forall_forall in *. intros x Hx. apply IH; auto.
  - rewrite canon_obj_eq. inversion K as [| | | | | |m' K1 K2]; subst.
    unfold canon_members. rewrite sort_members_scalar by (apply key_scalar_map; exact K1).
    rewrite spec_sort_map. simpl.
    change (map (fun kv : ustring * jvalue => (fst kv, sort_deep (snd kv))) m) with (map (on_snd sort_deep) m).
    rewrite spec_sort_map. rewrite !map_map. f_equal. f_equal.
    apply map_ext_Forall. rewrite Forall_forall in *. intros kv Hkv.
    apply (proj1 (spec_sort_In _ _ _)) in Hkv. rewrite member_text_emit. unfold on_snd. simpl.
    rewrite IH by (auto; apply K2; auto). reflexivity.
Qed.

Lemma canon_ok_keys_scalar : forall v t, canon v = JOk t -> keys_scalar v.
Proof.
  induction v as [|b|z|r|s|l IH|m IH] using jvalue_nested_ind; intros t H; try constructor.
  - rewrite canon_arr_eq in H. unfold wrap in H.
    destruct (sequence (map canon l)) as [ps|e] eqn:E; [|discriminate].
    apply sequence_ok in E. rewrite Forall_map in E. rewrite Forall_forall in *.
    intros x Hx. destruct (E x Hx) as [a Ha]. eapply IH; eauto.
  - rewrite canon_obj_eq in H. unfold canon_members in H.
    destruct (key_scalar_dec _ (map (on_snd canon) m)) as [S|S];
      [|rewrite (sort_members_nonscalar _ _ S) in H; discriminate].
    apply key_scalar_map in S. exact S.
  - rewrite canon_obj_eq in H. unfold canon_members in H.
    destruct (key_scalar_dec _ (map (on_snd canon) m)) as [S|S];
      [|rewrite (sort_members_nonscalar _ _ S) in H; discriminate].
    rewrite (sort_members_scalar _ _ S) in H. unfold wrap in H.
    destruct (sequence (map member_text (sort_members_spec (map (on_snd canon) m)))) as [ps|e] eqn:E; [|discriminate].
    apply sequence_ok in E. rewrite Forall_map in E. rewrite Forall_forall in *.
    intros kv Hkv.
    assert (Hin : In (on_snd canon kv) (sort_members_spec (map (on_snd canon) m))).
    { apply (proj2 (spec_sort_In _ _ _)). apply in_map. exact Hkv. }
    destruct (E _ Hin) as [a Ha]. unfold member_text, on_snd in Ha. simpl in Ha.
    destruct (canon (snd kv)) as [body|e] eqn:Eb; [|discriminate]. eapply IH; eauto.
Qed.

Lemma canon_emit_ok_proof : forall v t, canon v = JOk t -> emit (sort_deep v) = JOk t.
Proof. intros v t H. rewrite <- canon_emit_proof; [exact H|]. eapply canon_ok_keys_scalar. exact H. Qed.

(* ---- sort_deep orders every object --------------------------------------------------- *)
Lemma StronglySorted_map : forall (A B : Type) (R : B -> B -> Prop) (f : A -> B) l,
  StronglySorted (fun a b => R (f a) (f b)) l -> StronglySorted R (map f l).
Proof.
  induction 1 as [|a l Hs IH Hf]; simpl; constructor; auto. rewrite Forall_map. exact Hf.
Qed.

Lemma gle_units_le : forall (A : Type) (a b : ustring * A), gle gu a b -> units_le (utf16 (fst a)) (utf16 (fst b)).
Proof.
  intros A a b H. unfold gle, gu, units_leb, units_le in *. intro E. rewrite E in H. discriminate.
Qed.

Lemma spec_sort_ordered : forall (A : Type) (m : list (ustring * A)), keys_ordered (map fst (sort_members_spec m)).
Proof.
  intros A m. rewrite spec_sort_sortg. unfold keys_ordered. apply StronglySorted_map.
  pose proof (sortg_sorted gu m) as H. induction H as [|a l Hs IH Hf]; constructor; auto.
  eapply Forall_impl; [|exact Hf]. intros b Hb. apply gle_units_le. exact Hb.
Qed.

Lemma canon_sorted_proof : forall v, deep_ordered (sort_deep v).
Proof.
  induction v as [|b|z|r|s|l IH|m IH] using jvalue_nested_ind; try solve [constructor].
  - simpl. constructor. rewrite Forall_map. exact IH.
  - simpl. constructor; [apply spec_sort_ordered|].
    rewrite Forall_forall in *. intros kv Hkv. apply (proj1 (spec_sort_In _ _ _)) in Hkv.
    apply in_map_iff in Hkv. destruct Hkv as [kv0 [E Hin]]. subst kv. simpl. apply IH. exact Hin.
Qed.

(* sorting again changes nothing *)
Lemma keys_ordered_sort_id : forall (A : Type) (m : list (ustring * A)),
  keys_ordered (map fst m) -> sort_members_spec m = m.
Proof.
  intros A m H. rewrite spec_sort_sortg. apply sortg_id.
  unfold keys_ordered in H. remember (map fst m) as ks eqn:E. revert m E.
  induction H as [|k ks Hs IH Hf]; intros m E; destruct m as [|a m]; try discriminate; constructor.
  - apply IH. simpl in E. inversion E. reflexivity.
  - simpl in E. inversion E; subst. rewrite Forall_map in Hf. eapply Forall_impl; [|exact Hf].
    intros b Hb. unfold gle, gu, units_leb, units_le in *. destruct (ustr_compare (utf16 (fst a)) (utf16 (fst b))); auto; try (exfalso; apply Hb; reflexivity).
Qed.

Lemma sort_deep_ordered_id : forall v, deep_ordered v -> sort_deep v = v.
Proof.
  induction v as [|b|z|r|s|l IH|m IH] using jvalue_nested_ind; intro D; try reflexivity.
  - simpl. f_equal. inversion D; subst. rewrite <- (map_id l) at 2. apply map_ext_Forall.
    rewrite Forall_forall in *. intros x Hx. apply IH; auto.
  - simpl. inversion D as [| | | | | |m' D1 D2]; subst.
    assert (E : map (fun kv : ustring * jvalue => (fst kv, sort_deep (snd kv))) m = m).
    { rewrite <- (map_id m) at 2. apply map_ext_Forall. rewrite Forall_forall in *. intros [k x] Hkv.
      simpl. f_equal. apply (IH (k, x)); [exact Hkv|apply (D2 (k, x)); exact Hkv]. }
    rewrite E. f_equal. apply keys_ordered_sort_id. exact D1.
Qed.

Lemma sort_deep_idem_proof : forall v, sort_deep (sort_deep v) = sort_deep v.
Proof. intro v. apply sort_deep_ordered_id. apply canon_sorted_proof. Qed.

Lemma keys_scalar_sort_deep : forall v, keys_scalar v -> keys_scalar (sort_deep v).
Proof.
  induction v as [|b|z|r|s|l IH|m IH] using jvalue_nested_ind; intro K; try constructor.
  - inversion K; subst. rewrite Forall_map. rewrite Forall_forall in *. intros x Hx. apply IH; auto.
  - inversion K as [| | | | | |m' K1 K2]; subst.
    rewrite Forall_forall in *. intros kv Hkv. apply (proj1 (spec_sort_In _ _ _)) in Hkv.
    apply in_map_iff in Hkv. destruct Hkv as [kv0 [E Hin]]. subst kv. simpl. apply K1. exact Hin.
  - inversion K as [| | | | | |m' K1 K2]; subst.
    rewrite Forall_forall in *. intros kv Hkv. apply (proj1 (spec_sort_In _ _ _)) in Hkv.
    apply in_map_iff in Hkv. destruct Hkv as [kv0 [E Hin]]. subst kv. simpl. apply IH; auto.
Qed.

(* canonicalizing the key-sorted value gives the same text (fixed point) *)
Lemma canon_fixpoint_proof : forall v, keys_scalar v -> canon (sort_deep v) = canon v.
Proof.
  intros v K. rewrite (canon_emit_proof v K).
  rewrite (canon_emit_proof (sort_deep v) (keys_scalar_sort_deep v K)).
  rewrite sort_deep_idem_proof. reflexivity.
Qed.

(* ---- independence from member order ---------------------------------------------------- *)
Lemma NoDup_map_inj_in : forall (A B : Type) (f : A -> B) (l : list A),
  (forall a b, In a l -> In b l -> f a = f b -> a = b) -> NoDup l -> NoDup (map f l).
Proof.
  intros A B f l Hinj Hn. induction Hn as [|a l Hnotin Hn IH]; simpl; constructor.
  - intro Hin. apply in_map_iff in Hin. destruct Hin as [b [E Hb]].
    assert (b = a) by (apply Hinj; [right; exact Hb|left; reflexivity|exact E]). subst b. contradiction.
  - apply IH. intros x y Hx Hy. apply Hinj; right; assumption.
Qed.

Lemma canon_members_perm : forall e1 e2, Permutation e1 e2 -> NoDup (map fst e1) ->
  canon_members e1 = canon_members e2.
Proof.
  intros e1 e2 Hp Hn. unfold canon_members.
  destruct (key_scalar_dec _ e1) as [S|S].
  - assert (S2 : Forall key_scalar e2) by (eapply Permutation_Forall; eauto).
    rewrite (sort_members_scalar _ _ S), (sort_members_scalar _ _ S2).
    rewrite !spec_sort_sortg. rewrite (sortg_perm_unique gu e1 e2 Hp); [reflexivity|].
    unfold gu. rewrite <- (map_map fst utf16).
    apply NoDup_map_inj_in; [|exact Hn].
    intros a b Ha Hb E. apply in_map_iff in Ha. apply in_map_iff in Hb.
    destruct Ha as [kv1 [E1 I1]]. destruct Hb as [kv2 [E2 I2]]. subst a b.
    rewrite Forall_forall in S. apply utf16_inj; auto; [apply (S kv1 I1)|apply (S kv2 I2)].
  - assert (S2 : ~ Forall key_scalar e2).
    { intro F. apply S. eapply Permutation_Forall; [apply Permutation_sym; exact Hp|exact F]. }
    rewrite (sort_members_nonscalar _ _ S), (sort_members_nonscalar _ _ S2). reflexivity.
Qed.

Lemma map_fst_on_snd : forall (K A B : Type) (f : A -> B) (m : list (K * A)), map fst (map (on_snd f) m) = map fst m.
Proof. intros. rewrite map_map. apply map_ext. intros [k x]. reflexivity. Qed.

Lemma canon_perm_proof : forall ms ms', Permutation ms ms' -> NoDup (map fst ms) ->
  canon (JObj ms) = canon (JObj ms').
Proof.
  intros ms ms' Hp Hn. rewrite !canon_obj_eq. apply canon_members_perm.
  - apply Permutation_map. exact Hp.
  - rewrite map_fst_on_snd. exact Hn.
Qed.

Lemma canon_jperm_proof : forall v w, jperm v w -> nodup_keys v -> canon v = canon w.
Proof.
  induction v as [|b|z|r|s|l IH|m IH] using jvalue_nested_ind; intros w P Nd;
    inversion P as [v0|l0 l' F2|m0 m' m'' F2 Pm]; subst; try reflexivity.
  - rewrite !canon_arr_eq. f_equal. f_equal.
    inversion Nd as [| | | | |l0 Nl|]; subst. clear P Nd.
    revert IH Nl. induction F2 as [|x y l l' Hxy Hll IHl]; intros IH Nl; [reflexivity|].
    inversion IH as [|? ? IHx IHr]; subst. inversion Nl as [|? ? Nx Nr]; subst.
    simpl. f_equal; [apply IHx; assumption|apply IHl; assumption].
  - inversion Nd as [| | | | | |m0 Nd1 Nd2]; subst.
    assert (E : map (on_snd canon) m = map (on_snd canon) m').
    { clear P Nd Nd1 Pm. revert IH Nd2. induction F2 as [|a b m m' [Hab1 Hab2] Hmm IHm]; intros IH Nd2; [reflexivity|].
      inversion IH as [|? ? IHx IHr]; subst. inversion Nd2 as [|? ? Nx Nr]; subst.
      simpl. f_equal; [|apply IHm; assumption].
      unfold on_snd. rewrite Hab1. f_equal. apply IHx; assumption. }
    rewrite !canon_obj_eq. rewrite E. apply canon_members_perm.
    + apply Permutation_map. exact Pm.
    + rewrite <- E. rewrite map_fst_on_snd. exact Nd1.
Qed.

(* ---- NaN and the infinities are refused wherever they sit -------------------------------- *)
Lemma canon_arr_ok_members : forall l t, canon (JArr l) = JOk t -> forall x, In x l -> exists a, canon x = JOk a.
Proof.
  intros l t H x Hx. rewrite canon_arr_eq in H. unfold wrap in H.
  destruct (sequence (map canon l)) as [ps|e] eqn:E; [|discriminate].
  apply sequence_ok in E. rewrite Forall_map in E. rewrite Forall_forall in E. exact (E x Hx).
Qed.

Lemma canon_obj_ok_members : forall m t, canon (JObj m) = JOk t -> forall kv, In kv m -> exists a, canon (snd kv) = JOk a.
Proof.
  intros m t H kv Hkv. rewrite canon_obj_eq in H. unfold canon_members in H.
  destruct (key_scalar_dec _ (map (on_snd canon) m)) as [S|S];
    [|rewrite (sort_members_nonscalar _ _ S) in H; discriminate].
  rewrite (sort_members_scalar _ _ S) in H. unfold wrap in H.
  destruct (sequence (map member_text (sort_members_spec (map (on_snd canon) m)))) as [ps|e] eqn:E; [|discriminate].
  apply sequence_ok in E. rewrite Forall_map in E. rewrite Forall_forall in E.
  assert (Hin : In (on_snd canon kv) (sort_members_spec (map (on_snd canon) m))).
  { apply (proj2 (spec_sort_In _ _ _)). apply in_map. exact Hkv. }
  destruct (E _ Hin) as [a Ha]. unfold member_text, on_snd in Ha. simpl in Ha.
  destruct (canon (snd kv)) as [body|e]; [eexists; reflexivity|discriminate].
Qed.

Lemma canon_refuses_nonfinite_proof : forall v, nonfinite v -> forall t, canon v <> JOk t.
Proof.
  induction 1 as [r [Hr|[Hr|Hr]]|l x Hx Hn IH|m kv Hkv Hn IH]; intros t H.
  - subst r. vm_compute in H. discriminate.
  - subst r. vm_compute in H. discriminate.
  - subst r. vm_compute in H. discriminate.
  - destruct (canon_arr_ok_members l t H x Hx) as [a Ha]. exact (IH a Ha).
  - destruct (canon_obj_ok_members m t H kv Hkv) as [a Ha]. exact (IH a Ha).
Qed.

(* ---- with distinct keys the order is strict (RFC 8785 3.2.3 on JSON objects proper) ------- *)
Lemma StronglySorted_strengthen : forall (A : Type) (R R' : A -> A -> Prop) (l : list A),
  StronglySorted R l -> NoDup l -> (forall a b, In a l -> In b l -> R a b -> a <> b -> R' a b) -> StronglySorted R' l.
Proof.
  induction 1 as [|a l Hs IH Hf]; intros Hn Himp; constructor.
  - inversion Hn; subst. apply IH; auto. intros x y Hx Hy. apply Himp; right; assumption.
  - inversion Hn as [|? ? Hnotin Hn']; subst. rewrite Forall_forall in *. intros b Hb.
    apply Himp; [left; reflexivity|right; exact Hb|exact (Hf b Hb)|]. intro E. subst. contradiction.
Qed.

Lemma spec_sort_strict : forall (A : Type) (m : list (ustring * A)),
  NoDup (map fst m) -> Forall key_scalar m -> keys_sorted (map fst (sort_members_spec m)).
Proof.
  intros A m Hn Hs. unfold keys_sorted.
  apply (StronglySorted_strengthen _ (fun a b => units_le (utf16 a) (utf16 b))).
  - apply spec_sort_ordered.
  - eapply Permutation_NoDup; [apply Permutation_map, Permutation_sym, spec_sort_perm|exact Hn].
  - intros a b Ha Hb Hle Hne. unfold units_le, units_lt in *.
    destruct (ustr_compare (utf16 a) (utf16 b)) eqn:C; [|reflexivity|contradiction].
    exfalso. apply Hne. apply ucmp_eq in C.
    assert (Sa : forall k, In k (map fst (sort_members_spec m)) -> Forall scalar k).
    { intros k Hk. apply in_map_iff in Hk. destruct Hk as [kv [E Hin]]. subst k.
      apply (proj1 (spec_sort_In _ _ _)) in Hin. rewrite Forall_forall in Hs. exact (Hs kv Hin). }
    apply utf16_inj; auto.
Qed.

Lemma canon_sorted_strict_proof : forall v, nodup_keys v -> keys_scalar v -> deep_sorted (sort_deep v).
Proof.
  induction v as [|b|z|r|s|l IH|m IH] using jvalue_nested_ind; intros N K; try solve [constructor].
  - simpl. constructor. rewrite Forall_map. inversion N; subst. inversion K; subst.
    rewrite Forall_forall in *. intros x Hx. apply IH; auto.
  - simpl. inversion N as [| | | | | |m0 N1 N2]; subst. inversion K as [| | | | | |m1 K1 K2]; subst.
    change (map (fun kv : ustring * jvalue => (fst kv, sort_deep (snd kv))) m) with (map (on_snd sort_deep) m).
    constructor.
    + apply spec_sort_strict; [rewrite map_fst_on_snd; exact N1|apply key_scalar_map; exact K1].
    + rewrite Forall_forall in *. intros kv Hkv. apply (proj1 (spec_sort_In _ _ _)) in Hkv.
      apply in_map_iff in Hkv. destruct Hkv as [kv0 [E Hin]]. subst kv. simpl. apply IH; auto.
Qed.

(* ---- sort_deep only reorders members: nothing is dropped, duplicated or altered -------------- *)
Lemma sort_deep_jperm_proof : forall v, jperm v (sort_deep v).
Proof.
  induction v as [|b|z|r|s|l IH|m IH] using jvalue_nested_ind; try apply jp_refl.
  - simpl. apply jp_arr. induction IH as [|x l Hx Hl IHl]; simpl; constructor; assumption.
  - simpl. eapply jp_obj with (m' := map (fun kv : ustring * jvalue => (fst kv, sort_deep (snd kv))) m).
    + induction IH as [|kv m Hkv Hm IHm]; simpl; constructor; [split; [reflexivity|exact Hkv]|exact IHm].
    + apply Permutation_sym. apply spec_sort_perm.
Qed.

(* Proofs/SchemaTables.v -- the kernel-evaluated side conditions on the GENERATED tables
   (Gen/Tables.v from /repo, Gen/SpecTables.v from /verif/spec): recomputed on every build, so an
   edit to a class table re-runs a computation, not a proof script (DESIGN Appendix A.7).        *)
From Coq Require Import NArith ZArith List String Bool.
From V Require Import Base.UString Base.Json Model.SchemaTypes Spec.SchemaRefine Gen.Tables Gen.SpecTables.
Import ListNotations.

(* where the library's tables are not contained in the frozen specification's (empty on a conforming tree) *)
Definition lib_failures : list failure := Eval vm_compute in refine_failures lib spec.
(* the specification, weakened at exactly those places *)
Definition spec_relaxed : world := Eval vm_compute in relax lib spec lib_failures.

Lemma lib_failures_eq : refine_failures lib spec = lib_failures.
Proof. vm_compute. reflexivity. Qed.

Lemma spec_relaxed_eq : relax lib spec (refine_failures lib spec) = spec_relaxed.
Proof. vm_compute. reflexivity. Qed.

Lemma lib_refines_relaxed : world_refines lib spec_relaxed = true.
Proof. vm_compute. reflexivity. Qed.

(* relaxing at no place is the identity on the frozen tables *)
Lemma relax_nil_spec : relax lib spec [] = spec.
Proof. vm_compute. reflexivity. Qed.

(* ---- the C03 direction: where the library's tables are stricter than the frozen specification's ---- *)
Definition lib_accept_failures : list failure := Eval vm_compute in accept_failures spec lib.
Definition spec_restricted : world := Eval vm_compute in restrict lib spec lib_accept_failures.

Lemma lib_accept_failures_eq : accept_failures spec lib = lib_accept_failures.
Proof. vm_compute. reflexivity. Qed.

Lemma spec_restricted_eq : restrict lib spec (accept_failures spec lib) = spec_restricted.
Proof. vm_compute. reflexivity. Qed.

Lemma restricted_refines_lib : spec_refines spec_restricted lib = true.
Proof. vm_compute. reflexivity. Qed.

Lemma restrict_nil_spec : restrict lib spec [] = spec.
Proof. vm_compute. reflexivity. Qed.

(* Proofs/PatternRange.v -- C10: the objects the visitor produces (on admissible
   trees) are printable and of the shape `vexpr`.                             *)
From Coq Require Import NArith ZArith List String Bool Lia.
From V Require Import Model.PatternSyntax Spec.PatternSpec Proofs.PatternR Proofs.PatternNumbers Proofs.PatternLit Proofs.PatternPath
  Proofs.PatternCmp Proofs.PatternObs Proofs.PatternEscape Proofs.PatternTokens Proofs.PatternMeaning
  Proofs.PatternUnvConst Proofs.PatternUnvPath Proofs.PatternUnvExpr.
Import ListNotations.
Open Scope N_scope.

(* ---- literals ---- *)

Lemma sv_lit_ok : forall t, kind_in t primitive_kinds = true -> lit_sem t = true ->
  const_ok (sv_lit t) = true /\ const_canon (sv_lit t) = true.
Proof.
  intros t Hk Hs. pose proof (visit_lit t Hk Hs) as V.
  unfold kind_in in Hk. apply andb_true_iff in Hk. destruct Hk as [Hk Hok].
  destruct t as [k s]. unfold token_ok in Hok. unfold lit_sem in Hs. cbn [tk tx] in *.
  destruct k; cbn in Hk; try discriminate; unfold PatternSyntax.visit_terminal in V; cbn [tk tx] in V.
  - destruct (py_int s); [|discriminate]. inversion V as [E]. split; reflexivity.
  - destruct (py_int s); [|discriminate]. inversion V as [E]. split; reflexivity.
  - destruct (py_float s) as [f|] eqn:Ef; [|discriminate]. inversion V as [E]. split; [|reflexivity].
    cbn [const_ok]. rewrite Hs, andb_true_r. apply fnorm_b_spec. apply (py_float_norm s f Ef).
  - destruct (py_float s) as [f|] eqn:Ef; [|discriminate]. inversion V as [E]. split; [|reflexivity].
    cbn [const_ok]. rewrite Hs, andb_true_r. apply fnorm_b_spec. apply (py_float_norm s f Ef).
  - rewrite mk_hex_rep in V. destruct (prefixed_body 104 s) as [b|]; [|discriminate].
    destruct (hex_pairs b) eqn:C; [|discriminate]. inversion V as [E]. split; [exact C|reflexivity].
  - unfold mk_binary_from_tree in V. destruct (prefixed_body 98 s) as [b|]; [|discriminate].
    destruct (b64_groups b) eqn:C; [|discriminate]. inversion V as [E]. split; [exact C|reflexivity].
  - destruct (string_ok_shape s Hok) as [body [Es L]]. subst s.
    change (starts_with_quote (c_quote :: body ++ [c_quote])) with true in V.
    change (c_quote :: body ++ [c_quote]) with ((c_quote :: body) ++ [c_quote]) in V at 1.
    rewrite last_is_snoc in V. cbn [andb] in V. inversion V as [E]. rewrite slice_1_m1_quoted. split; [|reflexivity].
    cbn [const_ok orb]. destruct (lex_body body); [reflexivity|congruence].
  - destruct (ustr_eqb s (u "true")); [inversion V; split; reflexivity|].
    destruct (ustr_eqb s (u "false")); [inversion V; split; reflexivity|discriminate].
  - unfold timestamp_ok in Hok. destruct (prefixed_body 116 s) as [b|] eqn:Eb; [|discriminate].
    pose proof (prefixed_body_shape _ _ _ Eb) as Sh. clear Eb. subst s.
    change (116 =? 116) with true in V. cbn iota in V.
    destruct (py_strptime _) as [v|] eqn:Ev; [|discriminate]. inversion V as [E]. split; [|reflexivity].
    cbn [const_ok]. apply (py_strptime_ok _ _ Ev).
Qed.

Lemma sv_lit_kind : forall t, kind_in t primitive_kinds = true -> lit_sem t = true ->
  match tk t, sv_lit t with
  | KBool, CBool _ | KString, CString _ _ | (KIntPos | KIntNeg), CInt _ | (KFloatPos | KFloatNeg), CFloat _
  | KHex, CHex _ | KBinary, CBinary _ | KTimestamp, CTimestamp _ => True
  | _, _ => False
  end.
Proof.
  intros t Hk Hs. pose proof (visit_lit t Hk Hs) as V.
  unfold kind_in in Hk. apply andb_true_iff in Hk. destruct Hk as [Hk Hok].
  destruct t as [k s]. cbn [tk tx] in *.
  destruct k; cbn in Hk; try discriminate; unfold PatternSyntax.visit_terminal in V; cbn [tk tx] in V.
  - destruct (py_int s); [|discriminate]. inversion V as [E]. exact I.
  - destruct (py_int s); [|discriminate]. inversion V as [E]. exact I.
  - destruct (py_float s); [|discriminate]. inversion V as [E]. exact I.
  - destruct (py_float s); [|discriminate]. inversion V as [E]. exact I.
  - rewrite mk_hex_rep in V. destruct (prefixed_body 104 s); [|discriminate]. destruct (hex_pairs _); [|discriminate]. inversion V. exact I.
  - unfold mk_binary_from_tree in V. destruct (prefixed_body 98 s); [|discriminate]. destruct (b64_groups _); [|discriminate]. inversion V. exact I.
  - destruct (_ && _); [|discriminate]. inversion V. exact I.
  - destruct (ustr_eqb s (u "true")); [inversion V; exact I|]. destruct (ustr_eqb s (u "false")); [inversion V; exact I|discriminate].
  - destruct (s) as [|c r]; [destruct (py_strptime _); [inversion V; exact I|discriminate]|].
    destruct (c =? 116); destruct (py_strptime _); try discriminate; inversion V; exact I.
Qed.

(* ---- comparison expressions ---- *)

Definition lvl_pt (x : aexpr) : bool := level_eqb (level x) LPt.
Definition lvl_pt_and (x : aexpr) : bool := level_eqb (level x) LPt || level_eqb (level x) LAnd.
Definition rt_fold (isand : bool) (ops : list aexpr) : list ustring :=
  match ops with x1 :: rest => fold_left (fun s x => rt_step isand s (a_rt x)) rest (a_rt x1) | [] => [] end.
Definition rtok (ops : list aexpr) : bool :=
  match ops with x1 :: rest => rt_ok (a_rt x1) (map a_rt rest) | [] => true end.

Lemma a_rt_mk1 : forall b ops, ops <> [] -> a_rt (mk1 b ops) = rt_fold b ops.
Proof. intros b [|x [|y r]] H; [congruence| |]; reflexivity. Qed.

Lemma rt_fold_snoc : forall b ops x, ops <> [] -> rt_fold b (ops ++ [x]) = rt_step b (rt_fold b ops) (a_rt x).
Proof.
  intros b [|x1 rest] x H; [congruence|]. cbn [List.app rt_fold]. rewrite fold_left_app. reflexivity.
Qed.

Lemma rt_ok_snoc : forall l s t,
  rt_ok s (l ++ [t]) = rt_ok s l && negb (is_nil (set_inter (fold_left set_inter l s) t)).
Proof.
  induction l as [|u l IH]; intros s t.
  - cbn. rewrite andb_true_r. reflexivity.
  - cbn [List.app rt_ok fold_left]. rewrite IH, andb_assoc. reflexivity.
Qed.

Lemma fold_rt_map : forall rest s,
  fold_left (fun s x => rt_step true s (a_rt x)) rest s = fold_left set_inter (map a_rt rest) s.
Proof. induction rest as [|x r IH]; intros s; [reflexivity|]. cbn [fold_left map]. apply IH. Qed.

Lemma rtok_snoc : forall ops x, ops <> [] ->
  rtok (ops ++ [x]) = rtok ops && negb (is_nil (set_inter (rt_fold true ops) (a_rt x))).
Proof.
  intros [|x1 rest] x H; [congruence|]. cbn [List.app rtok rt_fold]. rewrite map_app. cbn [map].
  rewrite rt_ok_snoc, fold_rt_map. reflexivity.
Qed.

Lemma vexpr_mk1_and : forall ops, ops <> [] ->
  forallb vexpr ops = true -> forallb lvl_pt ops = true -> rtok ops = true -> vexpr (mk1 true ops) = true.
Proof.
  intros [|x [|y r]] Hn Hv Hl Hf; [congruence| |].
  - cbn [mk1 forallb] in *. apply andb_true_iff in Hv. tauto.
  - cbn [mk1 vexpr]. unfold lvl_pt in Hl. rewrite Hv, Hl. exact Hf.
Qed.

Lemma vexpr_mk1_or : forall ops, ops <> [] ->
  forallb vexpr ops = true -> forallb lvl_pt_and ops = true -> vexpr (mk1 false ops) = true.
Proof.
  intros [|x [|y r]] Hn Hv Hl; [congruence| |].
  - cbn [mk1 forallb] in *. apply andb_true_iff in Hv. tauto.
  - cbn [mk1 vexpr]. unfold lvl_pt_and in Hl. rewrite Hv, Hl. reflexivity.
Qed.

Lemma aprint_mk1 : forall b ops, forallb aprint ops = true -> aprint (mk1 b ops) = true.
Proof. intros b [|x [|y r]] H; try exact H. cbn [mk1 forallb] in *. apply andb_true_iff in H. tauto. Qed.

Lemma level_mk1_and : forall ops, forallb lvl_pt ops = true -> ops <> [] -> lvl_pt_and (mk1 true ops) = true.
Proof.
  intros [|x [|y r]] H Hn; [congruence| |].
  - cbn [mk1 forallb] in *. apply andb_true_iff in H. destruct H as [H _]. unfold lvl_pt_and. unfold lvl_pt in H. rewrite H. reflexivity.
  - reflexivity.
Qed.

Lemma level_cmp_mk1 : forall b ops, (forall x, In x ops -> is_cmp_level (level x) = true) -> ops <> [] ->
  is_cmp_level (level (mk1 b ops)) = true.
Proof.
  intros b [|x [|y r]] H Hn; [congruence| |].
  - apply H. left. reflexivity.
  - destruct b; reflexivity.
Qed.

Lemma set_lits_ok : forall es,
  forallb (fun t => kind_in t primitive_kinds) es = true -> forallb lit_sem es = true ->
  forallb (fun c => const_ok c && const_canon c) (map sv_lit es) = true.
Proof.
  induction es as [|x r IH]; intros Hk Hs; [reflexivity|].
  cbn [forallb map] in *. apply andb_true_iff in Hk, Hs. destruct Hk as [Kx Kr]. destruct Hs as [Sx Sr].
  destruct (sv_lit_ok x Kx Sx) as [O C]. rewrite O, C, (IH Kr Sr). reflexivity.
Qed.

Lemma forallb_and_l : forall (A : Type) (f g : A -> bool) l, forallb (fun x => f x && g x) l = true -> forallb f l = true.
Proof.
  intros A f g l H. apply forallb_forall. intros x Hx. pose proof (proj1 (forallb_forall _ _) H x Hx) as E.
  apply andb_true_iff in E. tauto.
Qed.

Definition R_pt (p : proptest) : Prop :=
  wf_pt p = true -> sem_pt p = true ->
  aprint (sv_pt p) = true /\ vexpr (sv_pt p) = true /\ lvl_pt (sv_pt p) = true /\ a_rt (sv_pt p) = rt_pt p.
Definition R_and (a : cmpand) : Prop :=
  wf_and a = true -> sem_and a = true ->
  forallb aprint (sv_and_ops a) = true /\ forallb vexpr (sv_and_ops a) = true /\ forallb lvl_pt (sv_and_ops a) = true /\
  rtok (sv_and_ops a) = true /\ rt_fold true (sv_and_ops a) = rt_and a.
Definition R_or (o : cmpor) : Prop :=
  wf_or o = true -> sem_or o = true ->
  forallb aprint (sv_or_ops o) = true /\ forallb vexpr (sv_or_ops o) = true /\ forallb lvl_pt_and (sv_or_ops o) = true /\
  rt_fold false (sv_or_ops o) = rt_or o.

Lemma cmp_leaf_range : forall cls p nt l,
  wf_path p = true -> path_sem p = true -> kind_in l primitive_kinds = true -> lit_sem l = true ->
  rhs_ok cls (sv_lit l) = true ->
  aprint (ECmp cls (sv_path_v p) (sv_lit l) nt) = true /\ vexpr (ECmp cls (sv_path_v p) (sv_lit l) nt) = true /\
  lvl_pt (ECmp cls (sv_path_v p) (sv_lit l) nt) = true /\ a_rt (ECmp cls (sv_path_v p) (sv_lit l) nt) = [tx (op_type p)].
Proof.
  intros cls p nt l Hp Sp Kl Sl Hr. pose proof (sv_path_vpath p Hp Sp) as V. pose proof (vpath_ok _ V) as A.
  destruct (sv_lit_ok l Kl Sl) as [O C]. pose proof (sv_lit_not_list l) as NL.
  cbn [aprint vexpr]. rewrite A, V, Hr. cbn [andb].
  split; [reflexivity|]. split; [|split; reflexivity].
  unfold vrhs. destruct cls; destruct (sv_lit l); try contradiction; rewrite Hr, C; reflexivity.
Qed.

Lemma range_cmp : (forall p, R_pt p) /\ (forall a, R_and a) /\ (forall o, R_or o).
Proof.
  apply cmp_mutind; unfold R_pt, R_and, R_or.
  - (* = *)
    intros p nt op l Hw Hs. cbn [wf_pt sem_pt] in *.
    apply andb_true_iff in Hw. destruct Hw as [Hw Hl]. apply andb_true_iff in Hw. destruct Hw as [Hp Hop].
    apply andb_true_iff in Hs. destruct Hs as [Sp Sl].
    destruct (sv_lit_ok l Hl Sl) as [O C]. pose proof (sv_lit_not_list l) as NL.
    cbn [sv_pt rt_pt]. apply cmp_leaf_range; try assumption.
    cbn [rhs_ok]. destruct (sv_lit l); try contradiction; exact O.
  - (* order *)
    intros p nt op l Hw Hs. cbn [wf_pt sem_pt] in *.
    apply andb_true_iff in Hw. destruct Hw as [Hw Hl]. apply andb_true_iff in Hw. destruct Hw as [Hp Hop].
    apply andb_true_iff in Hs. destruct Hs as [Sp Sl].
    pose proof (orderable_primitive l Hl) as Hl'.
    destruct (sv_lit_ok l Hl' Sl) as [O C]. pose proof (sv_lit_kind l Hl' Sl) as K.
    cbn [sv_pt rt_pt]. apply cmp_leaf_range; try assumption.
    assert (NB : not_bool (sv_lit l) = true).
    { unfold kind_in in Hl. apply andb_true_iff in Hl. destruct Hl as [Hk _].
      destruct (tk l); cbn in Hk; try discriminate; destruct (sv_lit l); try contradiction; reflexivity. }
    unfold order_cls. destruct (tk op); cbn [rhs_ok]; rewrite O, NB; reflexivity.
  - (* IN *)
    intros p nt es Hw Hs. cbn [wf_pt sem_pt] in *.
    apply andb_true_iff in Hw. destruct Hw as [Hp Hes]. apply andb_true_iff in Hs. destruct Hs as [Sp Ses].
    pose proof (set_lits_ok es Hes Ses) as L.
    pose proof (sv_path_vpath p Hp Sp) as V. pose proof (vpath_ok _ V) as A.
    cbn [sv_pt rt_pt aprint vexpr rhs_ok vrhs a_rt]. rewrite A, V, L, (forallb_and_l _ _ _ _ L). repeat split; reflexivity.
  - (* LIKE ... *)
    intros o p nt s Hw Hs. cbn [wf_pt sem_pt] in *.
    apply andb_true_iff in Hw. destruct Hw as [Hp Hk].
    assert (Hk' : kind_in s primitive_kinds = true).
    { apply (kind_in_weaken _ _ _ Hk). intros k. destruct k; cbn; intros E; try discriminate; reflexivity. }
    pose proof (string_lit_sem s Hk) as Sl.
    destruct (sv_lit_ok s Hk' Sl) as [O C]. pose proof (sv_lit_kind s Hk' Sl) as K.
    destruct (kind_single _ _ Hk) as [E _]. rewrite E in K.
    cbn [sv_pt rt_pt]. apply cmp_leaf_range; try assumption.
    destruct o; cbn [strop_cls rhs_ok]; rewrite O; destruct (sv_lit s); try contradiction; reflexivity.
  - (* parentheses *)
    intros e IH Hw Hs. cbn [wf_pt sem_pt] in *.
    destruct (IH Hw Hs) as [I1 [I2 [I3 I4]]].
    cbn [sv_pt rt_pt aprint vexpr a_rt]. fold (sv_or e).
    pose proof (sv_or_ops_nonnil e) as Nn.
    split; [apply aprint_mk1; exact I1|]. split; [apply vexpr_mk1_or; assumption|].
    split; [|unfold sv_or; rewrite (a_rt_mk1 false _ Nn); exact I4].
    unfold lvl_pt. cbn [level].
    assert (Cl : is_cmp_level (level (sv_or e)) = true).
    { apply level_cmp_mk1; [|exact Nn]. intros x Hx. pose proof (proj1 (forallb_forall _ _) I3 x Hx) as Lx.
      unfold lvl_pt_and in Lx. apply orb_true_iff in Lx. destruct Lx as [Lx|Lx]; apply level_eqb_eq in Lx; rewrite Lx; reflexivity. }
    rewrite Cl. reflexivity.
  - intros nt p Hw Hs. discriminate Hs.
  - (* single test *)
    intros p IH Hw Hs. cbn [wf_and sem_and] in *. destruct (IH Hw Hs) as [I1 [I2 [I3 I4]]].
    cbn [sv_and_ops forallb rtok rt_fold rt_ok map fold_left rt_and]. rewrite I1, I2, I3. repeat split; try reflexivity. exact I4.
  - (* l AND r *)
    intros l IHl r IHr Hw Hs. cbn [wf_and sem_and] in *.
    apply andb_true_iff in Hw. destruct Hw as [Hwl Hwr].
    apply andb_true_iff in Hs. destruct Hs as [Hs Hrt]. apply andb_true_iff in Hs. destruct Hs as [Hsl Hsr].
    destruct (IHl Hwl Hsl) as [L1 [L2 [L3 [L4 L5]]]]. destruct (IHr Hwr Hsr) as [R1 [R2 [R3 R4]]].
    pose proof (sv_and_ops_nonnil l) as Nn.
    cbn [sv_and_ops rt_and]. rewrite !forallb_app. cbn [forallb]. rewrite L1, L2, L3, R1, R2, R3. cbn [andb].
    rewrite (rtok_snoc _ _ Nn), (rt_fold_snoc true _ _ Nn), L4, L5, R4. cbn [rt_step andb].
    repeat split; try reflexivity. exact Hrt.
  - (* single AND chain *)
    intros a IH Hw Hs. cbn [wf_or sem_or] in *. destruct (IH Hw Hs) as [I1 [I2 [I3 [I4 I5]]]].
    pose proof (sv_and_ops_nonnil a) as Nn.
    cbn [sv_or_ops forallb rt_fold fold_left rt_or]. rewrite (aprint_mk1 true _ I1), (vexpr_mk1_and _ Nn I2 I3 I4), (level_mk1_and _ I3 Nn).
    rewrite (a_rt_mk1 true _ Nn), I5. repeat split; reflexivity.
  - (* l OR r *)
    intros l IHl r IHr Hw Hs. cbn [wf_or sem_or] in *.
    apply andb_true_iff in Hw. destruct Hw as [Hwl Hwr]. apply andb_true_iff in Hs. destruct Hs as [Hsl Hsr].
    destruct (IHl Hwl Hsl) as [L1 [L2 [L3 L5]]]. destruct (IHr Hwr Hsr) as [R1 [R2 [R3 [R4 R5]]]].
    pose proof (sv_and_ops_nonnil r) as Nn. pose proof (sv_or_ops_nonnil l) as Nl.
    cbn [sv_or_ops rt_or]. rewrite !forallb_app. cbn [forallb].
    rewrite L1, L2, L3, (aprint_mk1 true _ R1), (vexpr_mk1_and _ Nn R2 R3 R4), (level_mk1_and _ R3 Nn). cbn [andb].
    rewrite (rt_fold_snoc false _ _ Nl), L5, (a_rt_mk1 true _ Nn), R5. repeat split; reflexivity.
Qed.

(* ---- qualifiers ---- *)

Lemma py_int_intpos_nonneg : forall s z, intpos_ok s = true -> py_int s = Some z -> (0 <= z)%Z.
Proof.
  intros s z H P. destruct s as [|c r]; [discriminate|]. cbn [intpos_ok] in H. unfold py_int, split_sign in P.
  destruct (c =? 43) eqn:E43.
  - apply N.eqb_eq in E43. subst c. change (43 =? 45) with false in P. cbn iota in P.
    destruct (nat_of_digits r); [|discriminate]. inversion P. lia.
  - destruct (int_body_digits _ H) as [_ Hd]. cbn [forallb] in Hd. apply andb_true_iff in Hd. destruct Hd as [Hc _].
    destruct (is_digit_not_sign c Hc) as [E45 _]. rewrite E45 in P.
    destruct (nat_of_digits (c :: r)); [|discriminate]. inversion P. lia.
Qed.

Lemma sv_lit_intpos_nonneg : forall t, kind_in t [KIntPos] = true -> nonneg_int (sv_lit t) = true.
Proof.
  intros t H. destruct (kind_single _ _ H) as [Hk Hok]. destruct t as [k s]. cbn [tk] in Hk. subst k.
  unfold token_ok in Hok. cbn [tk tx] in Hok. destruct (py_int_intpos s Hok) as [z Hz].
  unfold sv_lit, PatternSyntax.visit_terminal. cbn [tk tx]. rewrite Hz. cbn [nonneg_int]. apply Z.leb_le. apply (py_int_intpos_nonneg s z Hok Hz).
Qed.

Lemma py_float_floatpos_sign : forall s f, floatpos_ok s = true -> py_float s = Some f -> f_neg f = false.
Proof.
  intros s f H P. destruct s as [|c r]; [discriminate|]. cbn [floatpos_ok] in H. unfold py_float, split_sign in P.
  destruct (c =? 43) eqn:E43.
  - apply N.eqb_eq in E43. subst c. change (43 =? 45) with false in P. cbn iota in P.
    unfold py_float_body in P. destruct (split_at 46 r) as [[a b]|]; [|discriminate]. destruct (_ && _); [|discriminate]. inversion P. reflexivity.
  - pose proof (float_body_head _ H) as [E45 _]. rewrite E45 in P.
    unfold py_float_body in P. destruct (split_at 46 (c :: r)) as [[a b]|]; [|discriminate]. destruct (_ && _); [|discriminate]. inversion P. reflexivity.
Qed.

Lemma qual_range : forall q, wf_qual q = true -> sem_qual q = true -> aqual_ok (sv_qual q) = true.
Proof.
  intros [a b|n|n] Hw Hs; cbn [wf_qual sem_qual sv_qual aqual_ok] in *.
  - apply andb_true_iff in Hw, Hs. destruct Hw as [Ha Hb]. destruct Hs as [Sa Sb].
    destruct (sv_lit_ok a (ts_primitive a Ha) Sa) as [Oa _]. destruct (sv_lit_ok b (ts_primitive b Hb) Sb) as [Ob _].
    destruct (sv_lit_ts a Ha Sa) as [va Ea]. destruct (sv_lit_ts b Hb Sb) as [vb Eb].
    rewrite Oa, Ob, Ea, Eb. reflexivity.
  - unfold kind_in in Hw. apply andb_true_iff in Hw. destruct Hw as [Hk Hok].
    destruct n as [k s]. cbn [tk] in Hk. destruct k; cbn in Hk; try discriminate.
    + rewrite (sv_lit_intpos_nonneg (Tok KIntPos s)); [reflexivity|]. apply kind_in_make; [reflexivity|exact Hok].
    + assert (Kp : kind_in (Tok KFloatPos s) primitive_kinds = true) by (apply kind_in_make; [reflexivity|exact Hok]).
      destruct (sv_lit_ok (Tok KFloatPos s) Kp Hs) as [O _].
      unfold token_ok in Hok. cbn [tk tx] in Hok. destruct (py_float_floatpos s Hok) as [f Hf].
      assert (E : sv_lit (Tok KFloatPos s) = CFloat f) by (unfold sv_lit, PatternSyntax.visit_terminal; cbn [tk tx]; rewrite Hf; reflexivity).
      rewrite E in O |- *. cbn [pos_float nonneg_int orb]. rewrite O, (py_float_floatpos_sign s f Hok Hf). reflexivity.
  - apply sv_lit_intpos_nonneg. exact Hw.
Qed.

(* ---- observation expressions ---- *)

Definition is_obs_level (l : alevel) : bool := negb (is_cmp_level l).

Lemma range_obs :
  (forall o, wf_obs o = true -> sem_obs o = true ->
     aprint (sv_obs o) = true /\ vexpr (sv_obs o) = true /\ level (sv_obs o) = LObs) /\
  (forall a, wf_oand a = true -> sem_oand a = true ->
     aprint (sv_oand a) = true /\ vexpr (sv_oand a) = true /\ left_level_ok OpAnd (level (sv_oand a)) = true) /\
  (forall a, wf_oor a = true -> sem_oor a = true ->
     aprint (sv_oor a) = true /\ vexpr (sv_oor a) = true /\ left_level_ok OpOr (level (sv_oor a)) = true) /\
  (forall a, wf_fb a = true -> sem_fb a = true ->
     aprint (sv_fb a) = true /\ vexpr (sv_fb a) = true /\ left_level_ok OpFb (level (sv_fb a)) = true).
Proof.
  apply obs_mutind.
  - intros e Hw Hs. cbn [wf_obs sem_obs] in *.
    destruct (proj2 (proj2 range_cmp) e Hw Hs) as [I1 [I2 [I3 _]]]. pose proof (sv_or_ops_nonnil e) as Nn.
    cbn [sv_obs aprint vexpr level]. unfold sv_or.
    rewrite (aprint_mk1 false _ I1), (vexpr_mk1_or _ Nn I2 I3).
    assert (Cl : is_cmp_level (level (mk1 false (sv_or_ops e))) = true).
    { apply level_cmp_mk1; [|exact Nn]. intros x Hx. pose proof (proj1 (forallb_forall _ _) I3 x Hx) as Lx.
      unfold lvl_pt_and in Lx. apply orb_true_iff in Lx. destruct Lx as [Lx|Lx]; apply level_eqb_eq in Lx; rewrite Lx; reflexivity. }
    rewrite Cl. repeat split; reflexivity.
  - intros e IH Hw Hs. cbn [wf_obs sem_obs] in *.
    destruct (IH Hw Hs) as [I1 [I2 I3]]. cbn [sv_obs aprint vexpr level]. rewrite I1, I2.
    repeat split; try reflexivity. destruct (level (sv_fb e)); try discriminate I3; reflexivity.
  - intros o IH q Hw Hs. cbn [wf_obs sem_obs] in *.
    apply andb_true_iff in Hw, Hs. destruct Hw as [Hwo Hwq]. destruct Hs as [Hso Hsq].
    destruct (IH Hwo Hso) as [I1 [I2 I3]]. cbn [sv_obs aprint vexpr level].
    rewrite I1, I2, I3, (qual_range q Hwq Hsq). repeat split; reflexivity.
  - intros o IH Hw Hs. cbn [wf_oand sem_oand] in *. destruct (IH Hw Hs) as [I1 [I2 I3]].
    cbn [sv_oand]. rewrite I1, I2, I3. repeat split; reflexivity.
  - intros l IHl r IHr Hw Hs. cbn [wf_oand sem_oand] in *.
    apply andb_true_iff in Hw, Hs. destruct Hw as [Hwl Hwr]. destruct Hs as [Hsl Hsr].
    destruct (IHl Hwl Hsl) as [L1 [L2 L3]]. destruct (IHr Hwr Hsr) as [R1 [R2 R3]].
    cbn [sv_oand aprint vexpr level forallb]. rewrite L1, L2, L3, R1, R2, R3. repeat split; reflexivity.
  - intros a IH Hw Hs. cbn [wf_oor sem_oor] in *. destruct (IH Hw Hs) as [I1 [I2 I3]].
    cbn [sv_oor]. rewrite I1, I2. repeat split; try reflexivity. destruct (level (sv_oand a)); try discriminate I3; reflexivity.
  - intros l IHl r IHr Hw Hs. cbn [wf_oor sem_oor] in *.
    apply andb_true_iff in Hw, Hs. destruct Hw as [Hwl Hwr]. destruct Hs as [Hsl Hsr].
    destruct (IHl Hwl Hsl) as [L1 [L2 L3]]. destruct (IHr Hwr Hsr) as [R1 [R2 R3]].
    cbn [sv_oor aprint vexpr level forallb]. rewrite L1, L2, L3, R1, R2. cbn [andb].
    repeat split; try reflexivity. destruct (level (sv_oand r)); try discriminate R3; reflexivity.
  - intros a IH Hw Hs. cbn [wf_fb sem_fb] in *. destruct (IH Hw Hs) as [I1 [I2 I3]].
    cbn [sv_fb]. rewrite I1, I2. repeat split; try reflexivity. destruct (level (sv_oor a)); try discriminate I3; reflexivity.
  - intros l IHl r IHr Hw Hs. cbn [wf_fb sem_fb] in *.
    apply andb_true_iff in Hw, Hs. destruct Hw as [Hwl Hwr]. destruct Hs as [Hsl Hsr].
    destruct (IHl Hwl Hsl) as [L1 [L2 L3]]. destruct (IHr Hwr Hsr) as [R1 [R2 R3]].
    cbn [sv_fb aprint vexpr level forallb]. rewrite L1, L2, L3, R1, R2. cbn [andb].
    repeat split; try reflexivity. destruct (level (sv_oor r)); try discriminate R3; reflexivity.
Qed.

Theorem visitor_range : forall c : pattern, wf c = true -> sem c = true ->
  aprint (sv_fb c) = true /\ vexpr (sv_fb c) = true.
Proof.
  intros c Hw Hs. destruct (proj2 (proj2 (proj2 range_obs)) c Hw Hs) as [A [V _]]. split; assumption.
Qed.

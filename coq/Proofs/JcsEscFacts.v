(* Proofs/JcsEscFacts.v -- the string escaping of Model/Jcs.v (ESCAPE / ESCAPE_DCT of
   Canonicalize.py) is the minimal escaping of RFC 8785 3.2.2.2, for every string. *)
From Coq Require Import String NArith ZArith List Bool Lia.
From V Require Import Base.UString Base.Json Model.JcsText Model.Jcs Spec.Rfc8785.
Import ListNotations.
Open Scope N_scope.

Definition below32 : list N :=
  [0;1;2;3;4;5;6;7;8;9;10;11;12;13;14;15;16;17;18;19;20;21;22;23;24;25;26;27;28;29;30;31].

Lemma below32_complete : forall c, c < 32 -> In c below32.
Proof.
  intros c H. unfold below32.
  destruct c as [|p]; [left; reflexivity|].
  do 5 (try (destruct p as [p|p|])); try (exfalso; lia); simpl; tauto.
Qed.

Lemma escape_char_low : forallb (fun c => ustr_eqb (escape_char c) (rfc_escape_char c)) below32 = true.
Proof. vm_compute. reflexivity. Qed.

Lemma ustr_eqb_true_eq : forall a b, ustr_eqb a b = true -> a = b.
Proof.
  induction a as [|x a IH]; destruct b as [|y b]; simpl; intro H; try discriminate; auto.
  apply andb_true_iff in H. destruct H as [H1 H2]. apply N.eqb_eq in H1. f_equal; auto.
Qed.

Lemma escape_char_rfc : forall c, escape_char c = rfc_escape_char c.
Proof.
  intro c. destruct (N.ltb_spec c 32) as [H|H].
  - pose proof escape_char_low as HL. rewrite forallb_forall in HL.
    apply ustr_eqb_true_eq. apply HL. apply below32_complete. exact H.
  - unfold escape_char, rfc_escape_char, short_escapes, assoc, c_bslash, c_quote.
    destruct (N.eqb_spec 8 c); [lia|]. destruct (N.eqb_spec 9 c); [lia|].
    destruct (N.eqb_spec 10 c); [lia|]. destruct (N.eqb_spec 12 c); [lia|].
    destruct (N.eqb_spec 13 c); [lia|].
    destruct (N.eqb_spec c 8); [lia|]. destruct (N.eqb_spec c 9); [lia|].
    destruct (N.eqb_spec c 10); [lia|]. destruct (N.eqb_spec c 12); [lia|].
    destruct (N.eqb_spec c 13); [lia|].
    destruct (N.ltb_spec c 32); [lia|].
    destruct (N.eqb_spec c 92); [subst; reflexivity|].
    destruct (N.eqb_spec c 34); [subst; reflexivity|]. reflexivity.
Qed.

Lemma canon_escape_minimal_proof : forall s, escape s = rfc_escape s.
Proof.
  intro s. unfold escape, rfc_escape. induction s as [|c s IH]; simpl; [reflexivity|].
  rewrite escape_char_rfc, IH. reflexivity.
Qed.

(* Proofs/ErrorsFacts.v -- C17: every outcome of the exception-flow model is
   in the documented family unless it originates at an unguarded site. *)
From Coq Require Import NArith ZArith List String Bool Lia.
From V Require Import Base.UString Base.Json Model.Errors.
Import ListNotations.

(* ------------------------------------------------------------------ *)
(* the wrapper                                                           *)

Lemma subclass_trans_IVE_family : forall e, subclass e K_InvalidValueError = true -> family e = true.
Proof.
  induction e as [k|n b IH]; simpl; intros H.
  - destruct k; try discriminate H; reflexivity.
  - unfold family in *. simpl. apply IH. exact H.
Qed.

Lemma wrapper_total_lemma :
  forall e, is_exception e = true ->
  exists e', check_property_wrapper (CleanRaise e None) = Exc e' S_lib /\ subclass e' K_InvalidValueError = true.
Proof.
  intros e He. unfold check_property_wrapper.
  destruct (subclass e K_InvalidValueError) eqn:Hs.
  - exists e. split; [reflexivity|exact Hs].
  - rewrite He. exists (Known K_InvalidValueError). split; reflexivity.
Qed.

Lemma wrapper_never_returns_other :
  forall r e s, (forall e0 sf, r = CleanRaise e0 sf -> sf = None) -> check_property_wrapper r = Exc e s ->
  s = S_lib /\ (subclass e K_InvalidValueError = true \/ is_exception e = false).
Proof.
  intros r e s Hsf. destruct r as [|e0 sf]; simpl; [discriminate|].
  rewrite (Hsf e0 sf eq_refl).
  destruct (subclass e0 K_InvalidValueError) eqn:Hs.
  - intros H; inversion H; subst. split; [reflexivity|left; exact Hs].
  - destruct (is_exception e0) eqn:He; intros H; inversion H; subst; split; try reflexivity.
    + left; reflexivity.
    + right; exact He.
Qed.

(* the wrapper words the reason with str(exc) INSIDE its handler: if that raises, that exception is what escapes *)
Lemma wrapper_str_failure :
  forall e e', is_exception e = true -> subclass e K_InvalidValueError = false ->
  check_property_wrapper (CleanRaise e (Some e')) = Exc e' S_lib.
Proof. intros e e' He Hs. unfold check_property_wrapper. rewrite Hs, He. reflexivity. Qed.

(* classes not derived from Exception (KeyboardInterrupt, SystemExit, GeneratorExit) pass through unchanged *)
Lemma wrapper_passes_non_exceptions :
  forall e sf, is_exception e = false -> check_property_wrapper (CleanRaise e sf) = Exc e S_lib.
Proof.
  intros e sf He. unfold check_property_wrapper.
  destruct (subclass e K_InvalidValueError) eqn:Hs; [reflexivity|]. rewrite He. reflexivity.
Qed.

(* ------------------------------------------------------------------ *)
(* outcome sets that stay in the family except at unguarded sites         *)

Definition okr {A} (V : variant) (r : res A) : Prop :=
  match r with Val _ => True | Exc e s => family e = true \/ V s = false end.
Definition ok {A} (V : variant) (m : M A) : Prop := Forall (okr V) m.

Section Ok.
  Variable V : variant.

  Lemma ok_ret : forall A (a : A), ok V (ret a).
  Proof. intros. repeat constructor. Qed.

  Lemma ok_fail : forall A k, family (Known k) = true -> ok V (@fail A k).
  Proof. intros. constructor; [left; assumption|constructor]. Qed.

  Lemma ok_raise_unguarded : forall A k s, V s = false -> ok V (@raise A k s).
  Proof. intros. constructor; [right; assumption|constructor]. Qed.

  Lemma ok_guard : forall A s k (m : M A), ok V m -> ok V (guard V s k m).
  Proof. intros. unfold guard. destruct (V s) eqn:E; [assumption|apply ok_raise_unguarded; exact E]. Qed.

  Lemma ok_bind : forall A B (m : M A) (f : A -> M B), ok V m -> (forall a, ok V (f a)) -> ok V (bind m f).
  Proof.
    unfold ok, bind. intros A B m f Hm Hf. induction Hm as [|x l Hx Hl IH]; simpl; [constructor|].
    apply Forall_app; split; [|exact IH].
    destruct x; [apply Hf|constructor; [exact Hx|constructor]].
  Qed.

  Lemma ok_seq : forall A (m : M unit) (k : M A), ok V m -> ok V k -> ok V (seq m k).
  Proof. intros. unfold seq. apply ok_bind; auto. Qed.

  Lemma ok_may : forall ks, Forall (fun k => family (Known k) = true) ks -> ok V (may ks).
  Proof.
    intros ks H. unfold may. constructor; [exact I|].
    induction H; simpl; constructor; auto. left; assumption.
  Qed.

  Lemma ok_may_guard : forall s k kfix, family (Known kfix) = true -> ok V (may_guard V s k kfix).
  Proof.
    intros. unfold may_guard. constructor; [exact I|].
    destruct (V s) eqn:E; (constructor; [|constructor]); [left; assumption|right; exact E].
  Qed.

  Lemma ok_when : forall b m, ok V m -> ok V (when b m).
  Proof. intros. destruct b; simpl; [assumption|apply ok_ret]. Qed.

  Lemma ok_lift_val : forall A (a : A), ok V (lift (Val a)).
  Proof. intros. repeat constructor. Qed.

  Lemma ok_app : forall A (m1 m2 : M A), ok V m1 -> ok V m2 -> ok V (m1 ++ m2)%list.
  Proof. intros. apply Forall_app; split; assumption. Qed.
End Ok.

Global Opaque us.

Ltac okstep :=
  match goal with
  | |- ok _ (ret _) => apply ok_ret
  | |- ok _ (fail _) => apply ok_fail; reflexivity
  | |- ok _ (guard _ _ _ _) => apply ok_guard
  | |- ok _ (bind _ _) => apply ok_bind; [|intros]
  | |- ok _ (seq _ _) => apply ok_seq
  | |- ok _ (may _) => apply ok_may; repeat constructor
  | |- ok _ (when _ _) => apply ok_when
  | |- ok _ (may_guard _ _ _ _) => apply ok_may_guard; reflexivity
  | |- ok _ (if ?b then _ else _) => destruct b eqn:?
  | |- ok _ (match ?x with _ => _ end) => destruct x eqn:?
  | |- ok _ (let _ := _ in _) => cbv zeta
  end.

(* ------------------------------------------------------------------ *)
(* the pieces                                                            *)

Section Pieces.
  Variable V : variant.

  Lemma ok_py_in : forall lit x, ok V (py_in lit x).
  Proof. intros. unfold py_in. repeat okstep. Qed.

  Lemma ok_py_max2 : forall a b, ok V (py_max2 a b).
  Proof.
    intros. unfold py_max2.
    destruct a; destruct b; try (constructor; [left; reflexivity|repeat constructor]).
    apply ok_ret.
  Qed.

  Lemma ok_max_seq : forall rs acc, Forall (ok V) rs -> ok V (max_seq rs acc).
  Proof.
    induction rs as [|r rest IH]; intros acc H; simpl; [apply ok_ret|].
    inversion H; subst.
    apply ok_bind; [assumption|intros v].
    destruct acc; [|apply IH; assumption].
    apply ok_bind; [apply ok_py_max2|intros; apply IH; assumption].
  Qed.

  Lemma ok_get_dict : forall dec x, ok V (get_dict V dec x).
  Proof. intros. unfold get_dict, decode_text. repeat okstep. Qed.

  Lemma ok_class_for_type : forall R ty ver cat, ok V (class_for_type R ty ver cat).
  Proof. intros. unfold class_for_type. repeat okstep. Qed.

  Lemma ok_bundle_version : forall objs,
    match objs with Some (_, elems) => Forall (ok V) elems | None => True end ->
    ok V (bundle_version V objs).
  Proof.
    intros objs H. unfold bundle_version. destruct objs as [[o elems]|]; [|repeat okstep].
    destruct (objects_results o elems) as [rs|] eqn:E; [|repeat okstep].
    assert (Hrs : Forall (ok V) rs).
    { unfold objects_results in E. destruct o; try discriminate E; inversion E; subst.
      - apply Forall_forall. intros m Hin. apply in_map_iff in Hin. destruct Hin as [? [<- _]]. apply ok_fail; reflexivity.
      - exact H.
      - apply Forall_forall. intros m' Hin. apply in_map_iff in Hin. destruct Hin as [? [<- _]]. apply ok_fail; reflexivity. }
    apply ok_bind; [apply ok_max_seq; exact Hrs|intros inner].
    destruct inner; [apply ok_py_max2|repeat okstep].
  Qed.

  Definition detect_P (obs21 : list (ustring * cls)) (j : jvalue) : Prop :=
    ok V (detect V obs21 j) /\
    match j with JArr l => Forall (fun x => ok V (detect V obs21 x)) l | _ => True end.

  Lemma ok_detect_P : forall obs21 j, detect_P obs21 j.
  Proof.
    intros obs21. induction j using jvalue_nested_ind; unfold detect_P;
      try (split; [simpl; apply ok_fail; reflexivity|exact I]).
    - (* JArr *)
      split; [simpl; apply ok_fail; reflexivity|].
      eapply Forall_impl; [|exact H]. intros a [Ha _]. exact Ha.
    - (* JObj *)
      split; [|exact I]. simpl.
      set (objs := (fix find (m0 : list (ustring * jvalue)) : option (jvalue * list (M jvalue)) :=
                      match m0 with
                      | [] => None
                      | (k, v) :: rest =>
                          if ustr_eqb (us "objects") k
                          then Some (v, match v with
                                        | JArr l => (fix each (l0 : list jvalue) : list (M jvalue) :=
                                                       match l0 with [] => [] | x :: r => detect V obs21 x :: each r end) l
                                        | _ => [] end)
                          else find rest
                      end) m).
      assert (Hobjs : match objs with Some (_, elems) => Forall (ok V) elems | None => True end).
      { subst objs. induction m as [|[k v] rest IHm]; [exact I|].
        inversion H; subst. simpl in *.
        destruct (ustr_eqb (us "objects") k); [|apply IHm; assumption].
        destruct v; try constructor.
        destruct H2 as [_ Hl]. clear - Hl.
        induction Hl; constructor; assumption. }
      destruct (jlookup (us "type") m); [|repeat okstep].
      destruct (jlookup (us "spec_version") m); [repeat okstep|].
      destruct (negb (mem_key (us "id") m)); [apply ok_ret|].
      destruct (str_is j (us "bundle")); [apply ok_bundle_version; exact Hobjs|].
      repeat okstep.
  Qed.

  Lemma ok_detect : forall obs21 j, ok V (detect V obs21 j).
  Proof. intros. apply ok_detect_P. Qed.
End Pieces.

(* ------------------------------------------------------------------ *)
(* construction                                                          *)

Lemma family_all_listed : forall k, In k all_kexn.
Proof. destruct k; simpl; tauto. Qed.

Section InitOk.
  Variable V : variant.
  Variable R : registry.
  Variable clean : cleaner.
  Variable strictext : bool.
  Hypothesis Hclean : forall ac io s ov, ok V (clean ac io s ov).

  Lemma ok_scan_entries : forall hasext m tl unreg, ok V (scan_entries V R strictext hasext m tl unreg).
  Proof.
    intros hasext. induction m as [|[k e] r IH]; intros; simpl; [apply ok_ret|].
    destruct e; try (apply ok_guard; apply IH).
    destruct (match jlookup (us "extension_type") m with Some t => str_is t (us "toplevel-property-extension") | None => false end);
      [|apply IH].
    destruct (find_ext R k) as [x|]; [|apply IH].
    destruct (x_toplevel x); [apply IH|apply ok_guard; apply IH].
  Qed.

  Lemma ok_ext_scan : forall hasext ext, ok V (ext_scan V R strictext hasext ext).
  Proof.
    intros. unfold ext_scan. destruct ext as [e|]; [|apply ok_ret].
    destruct (negb (truthy e)); [apply ok_ret|].
    destruct e; try (apply ok_guard; apply ok_ret). apply ok_scan_entries.
  Qed.

  Lemma ok_check_ref : forall vr, ok V (check_ref vr).
  Proof. intros. unfold check_ref. repeat okstep. Qed.

  Lemma ok_check_slot : forall ac io kind vr s val, ok V (check_slot clean ac io kind vr s val).
  Proof.
    intros. unfold check_slot.
    destruct val.
    - apply ok_seq; [apply Hclean|]. destruct kind; destruct (s_ref s); repeat okstep; apply ok_check_ref.
    - destruct (s_default s); [|apply ok_ret].
      apply ok_seq; [apply Hclean|]. destruct kind; destruct (s_ref s); repeat okstep; apply ok_check_ref.
  Qed.

  Lemma ok_prop_loop : forall ac io kind vr defined assigned order present,
    ok V (prop_loop clean ac io kind vr defined assigned order present).
  Proof.
    intros ac io kind vr defined assigned. induction order as [|n rest IH]; intros; simpl; [apply ok_ret|].
    destruct (find_slot n defined); [|apply IH].
    apply ok_bind; [apply ok_check_slot|intros; apply IH].
  Qed.

  Lemma ok_cons_base : forall c present raw, ok V (cons_base V c present raw).
  Proof. intros. unfold cons_base. repeat okstep. Qed.

  Lemma ok_cons_one : forall c present raw h, cons_known h = true -> ok V (cons_one V c present raw h).
  Proof.
    intros c present raw h Hk. destruct h; simpl; try discriminate Hk; try (repeat okstep; fail).
    - apply ok_cons_base.
    - (* ConsMay *)
      apply ok_may. apply Forall_forall. intros k Hin. simpl in Hk.
      rewrite forallb_forall in Hk. apply Hk. exact Hin.
  Qed.

  Lemma ok_cons_chain : forall c present raw hs, forallb cons_known hs = true -> ok V (cons_chain V c present raw hs).
  Proof.
    induction hs as [|h r IH]; intros Hk; simpl; [apply ok_ret|].
    simpl in Hk. apply andb_true_iff in Hk. destruct Hk as [Hh Hr].
    apply ok_seq; [apply ok_cons_one; exact Hh|apply IH; exact Hr].
  Qed.

  Lemma ok_base_init : forall c ac io kw vr, forallb cons_known (c_cons c) = true -> ok V (base_init V R clean strictext c ac io kw vr).
  Proof.
    intros c ac io kw vr Hk. unfold base_init.
    apply ok_bind.
    { destruct (jlookup (us "custom_properties") kw) as [v|]; [|apply ok_ret].
      destruct v; repeat okstep. }
    intros cpm. apply ok_bind; [apply ok_ext_scan|intros scan].
    cbv zeta.
    match goal with |- ok _ (if ?b then _ else _) => destruct b end; [apply ok_fail; reflexivity|].
    destruct cpm as [cpm'|].
    2:{ apply ok_guard. apply ok_fail. reflexivity. }
    match goal with |- ok _ (if ?b then _ else _) => destruct b end; [apply ok_fail; reflexivity|].
    apply ok_bind; [apply ok_prop_loop|intros present].
    match goal with |- ok _ (if ?b then _ else _) => destruct b end; [apply ok_fail; reflexivity|].
    apply ok_seq; [apply ok_cons_chain; exact Hk|].
    apply ok_when. apply ok_may. repeat constructor.
  Qed.
End InitOk.

Lemma alookup_known : forall t k c, tbl_known t = true -> alookup k t = Some c -> cls_known c = true.
Proof.
  induction t as [|[k' c'] r IH]; intros k c Ht Hl; simpl in *; [discriminate|].
  apply andb_true_iff in Ht. destruct Ht as [Hc Hr].
  destruct (ustr_eqb k k'); [inversion Hl; subst; exact Hc|eapply IH; eassumption].
Qed.

Section ParseOk.
  Variable V : variant.
  Variable R : registry.
  Variable clean : cleaner.
  Variable strictext : bool.
  Variable refuse : bool.
  Hypothesis Hclean : forall ac io s ov, ok V (clean ac io s ov).
  Hypothesis HR : reg_known R = true.

  Lemma reg_known_parts :
    tbl_known (r_objects20 R) = true /\ tbl_known (r_observables20 R) = true /\ tbl_known (r_markings20 R) = true /\
    tbl_known (r_objects21 R) = true /\ tbl_known (r_observables21 R) = true /\ tbl_known (r_markings21 R) = true.
  Proof.
    pose proof HR as H. unfold reg_known in H.
    repeat match goal with H : _ && _ = true |- _ => apply andb_true_iff in H; destruct H end.
    repeat split; assumption.
  Qed.

  Lemma ok_call_check : forall kw nonstr, ok V (call_check kw nonstr).
  Proof. intros. unfold call_check. repeat okstep. Qed.

  Lemma ok_construct0 : forall c ac io kw, cls_known c = true -> ok V (construct0 V R clean strictext c ac io kw).
  Proof.
    intros c ac io kw Hc. unfold cls_known in Hc. apply andb_true_iff in Hc. destruct Hc as [Hp Hk].
    unfold construct0. cbv zeta. rewrite Hp. simpl negb. cbv iota.
    apply ok_seq; [apply ok_base_init; assumption|].
    repeat okstep.
  Qed.

  Lemma ok_marking_pre : forall dec v20 kw, ok V (marking_pre V R clean strictext dec v20 kw).
  Proof.
    intros. unfold marking_pre.
    destruct (jlookup (us "definition_type") kw) as [dt|]; [|apply ok_ret].
    destruct (jlookup (us "definition") kw) as [defn|]; [|apply ok_ret].
    destruct (negb (hashable dt)); [apply ok_fail; reflexivity|].
    destruct (match dt with JStr s => alookup s (if v20 then r_markings20 R else r_markings21 R) | _ => None end) as [mc|] eqn:Hmc;
      [|apply ok_fail; reflexivity].
    assert (Hk : cls_known mc = true).
    { destruct dt; try discriminate Hmc. destruct reg_known_parts as (_ & _ & H20 & _ & _ & H21).
      destruct v20; (eapply alookup_known; [|exact Hmc]; assumption). }
    apply ok_seq.
    { destruct v20; [|apply ok_ret]. repeat okstep. }
    apply ok_bind; [apply ok_get_dict|intros d].
    destruct (fst d); try (apply ok_fail; reflexivity).
    apply ok_seq; [apply ok_call_check|apply ok_construct0; exact Hk].
  Qed.

  Lemma cls_known_tail : forall c p rest, cls_known c = true -> c_pre c = p :: rest ->
    cls_known {| c_key := c_key c; c_ver20 := c_ver20 c; c_kind := c_kind c; c_slots := c_slots c; c_pre := rest; c_cons := c_cons c |} = true.
  Proof.
    intros c p rest Hc Hp. unfold cls_known in *. simpl. rewrite Hp in Hc. simpl in Hc.
    apply andb_true_iff in Hc. destruct Hc as [Hc1 Hc2]. apply andb_true_iff in Hc1. destruct Hc1 as [_ Hr].
    rewrite Hr, Hc2. reflexivity.
  Qed.

  Lemma ok_construct : forall dec c ac io kw, cls_known c = true -> ok V (construct V R clean strictext dec c ac io kw).
  Proof.
    intros dec c ac io kw Hc. unfold construct.
    destruct (c_pre c) as [|p rest] eqn:Hp; [apply ok_construct0; exact Hc|].
    destruct p; try (apply ok_construct0; exact Hc);
      (apply ok_seq; [apply ok_marking_pre|apply ok_construct0; eapply cls_known_tail; eassumption]).
  Qed.

  Lemma ok_d2s_scan : forall m, ok V (d2s_scan V m).
  Proof.
    induction m as [|[k e] r IH]; simpl; [apply ok_ret|].
    destruct (ustr_prefix (us "extension-definition--") k); [|exact IH].
    destruct e; try (apply ok_guard; exact IH).
    destruct (jlookup (us "extension_type") m); [|apply ok_ret].
    apply ok_bind; [apply ok_py_in|intros b]. destruct b; [exact IH|apply ok_ret].
  Qed.

  Lemma ok_version_of : forall version d, ok V (version_of V R version d).
  Proof. intros. unfold version_of. destruct version as [[|c s]|]; try apply ok_detect. apply ok_ret. Qed.

  Lemma ok_type_of : forall d, ok V (type_of d).
  Proof. intros. unfold type_of. repeat okstep. Qed.

  Lemma class_for_type_known : forall ty ver cat c,
    In (Val (Some c)) (class_for_type R ty ver cat) -> cls_known c = true.
  Proof.
    intros ty ver cat c Hin. unfold class_for_type in Hin.
    destruct reg_known_parts as (H1 & H2 & _ & H4 & H5 & _).
    destruct (negb (hashable ver)); [simpl in Hin; destruct Hin as [Hin|[]]; discriminate Hin|].
    destruct (str_is ver (us "2.0")).
    - destruct (negb (hashable ty)); [simpl in Hin; destruct Hin as [Hin|[]]; discriminate Hin|].
      destruct ty; simpl in Hin; destruct Hin as [Hin|[]]; try discriminate Hin.
      inversion Hin as [Hl]. destruct cat; (eapply alookup_known; [|exact Hl]; assumption).
    - destruct (str_is ver (us "2.1")).
      + destruct (negb (hashable ty)); [simpl in Hin; destruct Hin as [Hin|[]]; discriminate Hin|].
        destruct ty; simpl in Hin; destruct Hin as [Hin|[]]; try discriminate Hin.
        inversion Hin as [Hl]. destruct cat; (eapply alookup_known; [|exact Hl]; assumption).
      + simpl in Hin. destruct Hin as [Hin|[]]; discriminate Hin.
  Qed.

  (* bind with knowledge of where the value came from *)
  Lemma ok_bind_in : forall A B (m : M A) (f : A -> M B),
    ok V m -> (forall a, In (Val a) m -> ok V (f a)) -> ok V (bind m f).
  Proof.
    unfold ok, bind. intros A B m f Hm. induction Hm as [|x l Hx Hl IH]; intros Hf; simpl; [constructor|].
    apply Forall_app; split.
    - destruct x; [apply Hf; left; reflexivity|constructor; [exact Hx|constructor]].
    - apply IH. intros a Ha. apply Hf. right. exact Ha.
  Qed.

  Lemma ok_refuse_custom : forall c ac kw, ok V (refuse_custom refuse c ac kw).
  Proof. intros. unfold refuse_custom. repeat okstep. Qed.

  Lemma ok_dict_to_stix2 : forall dec d nonstr ac io version, ok V (dict_to_stix2 V R clean strictext refuse dec d nonstr ac io version).
  Proof.
    intros. unfold dict_to_stix2.
    apply ok_bind; [apply ok_py_in|intros has].
    destruct (negb has); [apply ok_fail; reflexivity|].
    apply ok_bind; [apply ok_version_of|intros ver].
    apply ok_bind; [apply ok_type_of|intros ty].
    apply ok_bind_in; [apply ok_class_for_type|intros c1 Hc1].
    apply ok_bind_in.
    { destruct c1; [apply ok_ret|apply ok_class_for_type]. }
    intros c2 Hc2.
    assert (Hk : forall c, c2 = Some c -> cls_known c = true).
    { intros c ->. destruct c1 as [c1'|].
      - simpl in Hc2. destruct Hc2 as [Hc2|[]]. inversion Hc2; subst. eapply class_for_type_known; exact Hc1.
      - eapply class_for_type_known; exact Hc2. }
    destruct c2 as [c|].
    - destruct d; try (apply ok_fail; reflexivity).
      apply ok_seq; [apply ok_call_check|]. apply ok_seq; [apply ok_construct; apply Hk; reflexivity|].
      apply ok_seq; [apply ok_refuse_custom|apply ok_ret].
    - destruct d; try (apply ok_fail; reflexivity).
      destruct ac; [apply ok_ret|].
      destruct (jlookup (us "extensions") m) as [e|]; [|apply ok_fail; reflexivity].
      destruct e; try (apply ok_guard; apply ok_fail; reflexivity).
      apply ok_bind; [apply ok_d2s_scan|intros b]. destruct b; [apply ok_ret|apply ok_fail; reflexivity].
  Qed.

  Lemma ok_parse : forall dec x ac io version, ok V (parse V R clean strictext refuse dec x ac io version).
  Proof. intros. unfold parse. apply ok_bind; [apply ok_get_dict|intros; apply ok_dict_to_stix2]. Qed.

  Lemma ok_parse_file : forall dec tr ac io version, ok V (parse_file V R clean strictext refuse dec tr ac io version).
  Proof. intros. unfold parse_file. apply ok_bind; [unfold decode_text; repeat okstep|intros; apply ok_dict_to_stix2]. Qed.

  Lemma ok_parse_observable : forall dec x vr ac io version, ok V (parse_observable V R clean strictext refuse dec x vr ac io version).
  Proof.
    intros. unfold parse_observable.
    apply ok_bind; [apply ok_get_dict|intros d].
    apply ok_bind; [apply ok_py_in|intros has].
    destruct (negb has); [apply ok_fail; reflexivity|].
    destruct (fst d); try (apply ok_fail; reflexivity).
    cbv zeta.
    apply ok_bind; [apply ok_version_of|intros ver].
    apply ok_bind; [apply ok_type_of|intros ty].
    apply ok_bind_in; [apply ok_class_for_type|intros c Hc].
    destruct c as [c|].
    - apply ok_seq; [apply ok_call_check|]. apply ok_seq; [apply ok_construct; eapply class_for_type_known; exact Hc|].
      apply ok_seq; [apply ok_refuse_custom|apply ok_ret].
    - destruct ac; [apply ok_ret|apply ok_fail; reflexivity].
  Qed.
End ParseOk.

(* ------------------------------------------------------------------ *)
(* the two cleaners                                                      *)

Lemma ok_clean_any : forall V ac io s ov, ok V (clean_any ac io s ov).
Proof. intros. unfold clean_any. apply ok_may. repeat constructor. Qed.

Lemma ok_clean_via : forall V (cl : blackbox),
  well_behaved cl ->
  forall ac io s ov, ok V (clean_via cl ac io s ov).
Proof.
  intros V cl Hcl ac io s ov. unfold clean_via, lift.
  destruct (cl ac io s ov) as [|e sf] eqn:E; [repeat constructor|].
  destruct (Hcl _ _ _ _ _ _ E) as [Hex ->].
  destruct (wrapper_total_lemma e Hex) as [e' [He' Hs]]. rewrite He'.
  constructor; [left; apply subclass_trans_IVE_family; exact Hs|constructor].
Qed.

(* the structural cleaner: whatever the embedded construction / parse does, the wrapper lets out Ok / InvalidValueError *)
Definition simple (m : M unit) : Prop := forall r, In r m -> r = Val tt \/ r = ive.

Lemma simple_may : simple (may [K_InvalidValueError]).
Proof. intros r [<-|[<-|[]]]; [left|right]; reflexivity. Qed.
Lemma simple_fail : simple (fail K_InvalidValueError).
Proof. intros r [<-|[]]. right; reflexivity. Qed.
Lemma simple_ret : simple (ret tt).
Proof. intros r [<-|[]]. left; reflexivity. Qed.
Lemma simple_seq : forall m k, simple m -> simple k -> simple (seq m k).
Proof.
  intros m k Hm Hk r Hr. unfold seq, bind in Hr. apply in_flat_map in Hr. destruct Hr as [x [Hx Hr]].
  destruct (Hm x Hx) as [-> | ->]; [apply Hk; exact Hr|]. destruct Hr as [<-|[]]. right; reflexivity.
Qed.
Lemma simple_wrap_gen : forall A (okp : A -> bool) extra (m : M A), simple (wrap_gen okp extra m).
Proof.
  intros A okp extra m r Hin. unfold wrap_gen in Hin. apply in_app_or in Hin. destruct Hin as [Hin|Hin].
  - destruct (existsb _ m); [destruct Hin as [<-|[]]; left; reflexivity|destruct Hin].
  - destruct (extra || existsb _ m); [destruct Hin as [<-|[]]; right; reflexivity|destruct Hin].
Qed.
Lemma simple_seq_all : forall ms, Forall simple ms -> simple (seq_all ms).
Proof. induction 1; simpl; [apply simple_ret|apply simple_seq; assumption]. Qed.
Lemma simple_seq_all_map : forall A (f : A -> M unit) l, (forall a, simple (f a)) -> simple (seq_all (map f l)).
Proof. intros. apply simple_seq_all. apply Forall_forall. intros m Hin. apply in_map_iff in Hin. destruct Hin as [a [<- _]]. apply H. Qed.

Lemma simple_struct_list : forall subf v, (forall m, simple (subf m)) -> simple (struct_list subf v).
Proof.
  intros subf v Hs. unfold struct_list. destruct v; try apply simple_fail.
  destruct l; [apply simple_fail|]. apply simple_seq_all_map. intros item. destruct item; try apply simple_fail. apply Hs.
Qed.

Lemma simple_struct_dict : forall v20 v, simple (struct_dict v20 v).
Proof.
  intros. unfold struct_dict.
  destruct v; try apply simple_may;
    (destruct (as_dict _) as [[dm fl]|]; [|apply simple_fail];
     destruct fl; destruct dm; try apply simple_fail;
     match goal with |- simple (if ?b then _ else _) => destruct b end; [apply simple_ret|apply simple_fail]).
Qed.

Lemma simple_struct_extensions : forall exts subf ac v, (forall c m, simple (subf c m)) -> simple (struct_extensions exts subf ac v).
Proof.
  intros exts subf ac v Hs. unfold struct_extensions.
  assert (Hm : forall m, simple (seq_all (map (fun kv : ustring * jvalue =>
                 match find (fun x => ustr_eqb (x_name x) (fst kv)) exts with
                 | Some x =>
                     match x_cls x with
                     | Some c => match snd kv with
                                 | JObj em => subf c em
                                 | _ => fail K_InvalidValueError
                                 end
                     | None => may [K_InvalidValueError]
                     end
                 | None =>
                     if ustr_prefix (us "extension-definition--") (fst kv) then may [K_InvalidValueError]
                     else if ac then ret tt
                     else fail K_InvalidValueError
                 end) m))).
  { intros m. apply simple_seq_all_map. intros kv.
    destruct (find _ exts) as [x|].
    - destruct (x_cls x); [|apply simple_may]. destruct (snd kv); try apply simple_fail. apply Hs.
    - destruct (ustr_prefix _ _); [apply simple_may|]. destruct ac; [apply simple_ret|apply simple_fail]. }
  destruct v; try apply simple_may; (destruct (as_dict _) as [[dm fl]|]; [|apply simple_fail]; destruct fl; [apply simple_may|apply Hm]).
Qed.



Lemma simple_struct_objects : forall ver20 ac parsef v, simple (struct_objects ver20 ac parsef v).
Proof.
  intros. unfold struct_objects. destruct v; try apply simple_fail; try apply simple_may.
  - destruct l; [apply simple_fail|]. apply simple_seq_all_map. intros x.
    destruct x; try apply simple_fail; try apply simple_may.
    destruct m; [apply simple_fail|].
    match goal with |- simple (if ?b then _ else _) => destruct b end; [apply simple_fail|].
    match goal with |- simple (if ?b then _ else _) => destruct b end; [apply simple_fail|].
    apply simple_wrap_gen.
  - destruct m; [apply simple_fail|apply simple_may].
Qed.

Lemma simple_struct_observables : forall ac pof v, simple (struct_observables ac pof v).
Proof.
  intros. unfold struct_observables.
  destruct v; try apply simple_may;
    (destruct (as_dict _) as [[dm fl]|]; [|apply simple_fail];
     destruct fl; destruct dm; try apply simple_may; try apply simple_fail;
     match goal with |- simple (if ?b then _ else _) => destruct b end; [|apply simple_fail];
     cbv zeta; apply simple_seq_all_map; intros kv; apply simple_wrap_gen).
Qed.

Lemma simple_clean_struct : forall fuel V R strictext refuse classes ac io s ov,
  simple (clean_struct fuel V R strictext refuse classes ac io s ov).
Proof.
  intros. destruct fuel; simpl; [apply simple_may|].
  destruct ov as [v|]; [|apply simple_may].
  destruct (s_kind s).
  - apply simple_may.
  - destruct (class_named ckey classes); [|apply simple_may].
    destruct v; try apply simple_fail. apply simple_wrap_gen.
  - destruct (class_named ckey classes); [|apply simple_may].
    apply simple_struct_list. intros m. apply simple_wrap_gen.
  - apply simple_struct_extensions. intros c m. apply simple_wrap_gen.
  - apply simple_struct_objects.
  - apply simple_struct_observables.
  - apply simple_struct_dict.
Qed.

Lemma simple_ok : forall V m, simple m -> ok V m.
Proof.
  intros V m H. apply Forall_forall. intros r Hr. destruct (H r Hr) as [-> | ->]; [exact I|left; reflexivity].
Qed.

Lemma ok_clean_struct : forall fuel V R strictext refuse classes ac io s ov,
  ok V (clean_struct fuel V R strictext refuse classes ac io s ov).
Proof. intros. apply simple_ok. apply simple_clean_struct. Qed.

(* every outcome of a guarded model is in the family *)
Lemma ok_all_guarded : forall A V (m : M A), all_guarded V -> ok V m ->
  forall e s, In (Exc e s) m -> family e = true.
Proof.
  intros A V m HV Hm e s Hin. unfold ok in Hm. rewrite Forall_forall in Hm.
  specialize (Hm _ Hin). simpl in Hm. destruct Hm as [H|H]; [exact H|]. rewrite HV in H. discriminate H.
Qed.

Lemma ok_nonfamily_site : forall A V (m : M A), ok V m ->
  forall e s, In (Exc e s) m -> family e = false -> V s = false.
Proof.
  intros A V m Hm e s Hin Hf. unfold ok in Hm. rewrite Forall_forall in Hm.
  specialize (Hm _ Hin). simpl in Hm. destruct Hm as [H|H]; [rewrite H in Hf; discriminate Hf|exact H].
Qed.

(* ------------------------------------------------------------------ *)
(* the store                                                             *)

Section StoreFacts.
  Variable V : variant.
  Variable R : registry.
  Variable clean : cleaner.
  Variable strictext : bool.
  Variable refuse : bool.
  Variable dec : decoder.

  Lemma store_add_one_cases : forall st x version st' a,
    In (st', a) (store_add_one V R clean strictext refuse dec st x version) ->
    (a = Added /\ st' = (st ++ [x])%list /\ exists p, In (Val p) (parse V R clean strictext refuse dec x true false version)) \/
    (exists e s, a = Escaped e s /\ st' = st /\ In (Exc e s) (parse V R clean strictext refuse dec x true false version)).
  Proof.
    intros st x version st' a Hin. unfold store_add_one in Hin. apply in_map_iff in Hin.
    destruct Hin as [r [Hr Hin]]. destruct r as [p|e s]; inversion Hr; subst.
    - left. repeat split. exists p. exact Hin.
    - right. exists e, s. repeat split. exact Hin.
  Qed.

  Lemma store_add_list_prefix : forall xs st version st' a,
    In (st', a) (store_add_list V R clean strictext refuse dec st xs version) ->
    exists k, (k <= List.length xs)%nat /\ st' = (st ++ firstn k xs)%list /\
              Forall (fun x => exists p, In (Val p) (parse V R clean strictext refuse dec x true false version)) (firstn k xs) /\
              match a with
              | Added => k = List.length xs
              | Escaped e s => exists x, nth_error xs k = Some x /\ In (Exc e s) (parse V R clean strictext refuse dec x true false version)
              end.
  Proof.
    induction xs as [|x r IH]; intros st version st' a Hin; simpl in Hin.
    - destruct Hin as [Hin|[]]. inversion Hin; subst. exists 0%nat. simpl. rewrite app_nil_r. repeat split; auto.
    - apply in_flat_map in Hin. destruct Hin as [[st1 a1] [H1 H2]].
      apply store_add_one_cases in H1. destruct H1 as [[-> [-> [p Hp]]]|[e [s [-> [-> He]]]]]; simpl in H2.
      + apply IH in H2. destruct H2 as [k [Hk [-> [Hall Ha]]]].
        exists (S k). simpl. split; [lia|]. split; [rewrite <- app_assoc; reflexivity|].
        split; [constructor; [exists p; exact Hp|exact Hall]|].
        destruct a; [lia|exact Ha].
      + destruct H2 as [H2|[]]. inversion H2; subst.
        exists 0%nat. simpl. rewrite app_nil_r. split; [lia|]. split; [reflexivity|]. split; [constructor|].
        exists x. split; [reflexivity|exact He].
  Qed.
End StoreFacts.

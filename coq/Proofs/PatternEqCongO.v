(* Proofs/PatternEqCongO.v -- observation level: every pass respects
   comparator-equality, including its `changed` flag (see PatternEqCong.v).  *)
From Coq Require Import NArith ZArith List Bool Permutation Lia Arith String.
From V Require Import Base.UString Model.PatternEq Proofs.PatternEqCmp Proofs.PatternEqLists Proofs.PatternEqSort
     Proofs.PatternEqDnf Proofs.PatternEqTerm Proofs.PatternEqCong.
Import ListNotations.
Local Open Scope nat_scope.
Local Open Scope list_scope.

Notation ceqo := (ceq ocmp).

Lemma ceqo_refl : forall a, ceqo a a.
Proof. apply (ceq_refl ocmp ocmp_lawful). Qed.
Lemma ceqo_sym : forall a b, ceqo a b -> ceqo b a.
Proof. apply (ceq_sym ocmp ocmp_lawful). Qed.
Lemma ceqo_trans : forall a b c, ceqo a b -> ceqo b c -> ceqo a c.
Proof. apply (ceq_trans ocmp ocmp_lawful). Qed.

(* ---- shapes ---- *)

Lemma ceqo_mko : forall o l1 l2, Forall2 ceqo l1 l2 -> ceqo (mko o l1) (mko o l2).
Proof. intros o l1 l2 HF. unfold ceq. destruct o; simpl; apply Forall2_lex_eq; exact HF. Qed.

Lemma ceqo_obs : forall x y, ceqc x y -> ceqo (Obs x) (Obs y).
Proof. intros x y E. exact E. Qed.

Lemma ceqo_qual : forall e e' q q', qual_cmp q q' = Eq -> ceqo e e' -> ceqo (OQual e q) (OQual e' q').
Proof. intros e e' q q' Eq Ee. unfold ceq. rewrite ocmp_qual, Eq. exact Ee. Qed.

Lemma ceqo_mko_inv : forall o l1 b, ceqo (mko o l1) b -> exists l2, b = mko o l2 /\ Forall2 ceqo l1 l2.
Proof.
  intros o l1 b E. unfold ceq in E. destruct o, b as [y|l2|l2|l2|e2 q2]; simpl in E; try discriminate;
    exists l2; (split; [reflexivity | apply lex_eq_Forall2; exact E]).
Qed.

Lemma ceqo_obs_inv : forall x b, ceqo (Obs x) b -> exists y, b = Obs y /\ ceqc x y.
Proof. intros x b E. unfold ceq in E. destruct b as [y|l|l|l|e q]; simpl in E; try discriminate. exists y. auto. Qed.

Lemma ceqo_qual_inv : forall e q b, ceqo (OQual e q) b -> exists e' q', b = OQual e' q' /\ qual_cmp q q' = Eq /\ ceqo e e'.
Proof.
  intros e q b E. unfold ceq in E. destruct b as [y|l|l|l|e' q']; try (simpl in E; discriminate).
  rewrite ocmp_qual in E. apply lex2_eq in E. exists e', q'. tauto.
Qed.

Lemma oops_of_ceqo : forall o a b, ceqo a b ->
    match oops_of o a, oops_of o b with
    | Some xs, Some ys => Forall2 ceqo xs ys
    | None, None => True
    | _, _ => False
    end.
Proof.
  intros o a b E. destruct a as [x|l1|l1|l1|e q].
  - destruct (ceqo_obs_inv x b E) as [y [-> _]]. destruct o; exact I.
  - destruct (ceqo_mko_inv OpAnd l1 b E) as [l2 [-> HF]]. destruct o; simpl; try exact I; exact HF.
  - destruct (ceqo_mko_inv OpOr l1 b E) as [l2 [-> HF]]. destruct o; simpl; try exact I; exact HF.
  - destruct (ceqo_mko_inv OpFby l1 b E) as [l2 [-> HF]]. destruct o; simpl; try exact I; exact HF.
  - destruct (ceqo_qual_inv e q b E) as [e' [q' [-> _]]]. destruct o; exact I.
Qed.

Definition pcongo (r1 r2 : oexpr * bool) : Prop := ceqo (fst r1) (fst r2) /\ snd r1 = snd r2.

Lemma children_congo : forall (pass : oexpr -> oexpr * bool) l1 l2,
    Forall (fun a => forall b, ceqo a b -> pcongo (pass a) (pass b)) l1 -> Forall2 ceqo l1 l2 ->
    Forall2 ceqo (map fst (map pass l1)) (map fst (map pass l2)) /\ existsb snd (map pass l1) = existsb snd (map pass l2).
Proof.
  intros pass l1 l2 HF H2. induction H2 as [|a b l1 l2 Hab _ IH]; [split; [constructor | reflexivity]|].
  inversion HF as [|x xs Ha Hl]; subst. destruct (IH Hl) as [I1 I2]. destruct (Ha b Hab) as [P1 P2].
  simpl. split; [constructor; assumption | rewrite P2, I2; reflexivity].
Qed.

Section OBottomUpCong.
  Variable pass : oexpr -> oexpr * bool.
  Variable node : oop -> list oexpr -> oexpr * bool.
  Hypothesis pass_obs : forall c, pass (Obs c) = (Obs c, false).
  Hypothesis pass_qual : forall e q, pass (OQual e q) = (OQual (fst (pass e)) q, snd (pass e)).
  Hypothesis pass_node : forall o l,
      pass (mko o l) = (fst (node o (map fst (map pass l))),
                        existsb snd (map pass l) || snd (node o (map fst (map pass l)))).
  Hypothesis node_cong : forall o l1 l2, Forall2 ceqo l1 l2 -> pcongo (node o l1) (node o l2).

  Lemma opass_cong : forall a b, ceqo a b -> pcongo (pass a) (pass b).
  Proof.
    assert (Hn : forall o l1, Forall (fun a => forall b, ceqo a b -> pcongo (pass a) (pass b)) l1 ->
                              forall b, ceqo (mko o l1) b -> pcongo (pass (mko o l1)) (pass b)).
    { intros o l1 IH b E. destruct (ceqo_mko_inv o l1 b E) as [l2 [-> HF]].
      destruct (children_congo pass l1 l2 IH HF) as [C1 C2]. destruct (node_cong o _ _ C1) as [N1 N2].
      rewrite !pass_node. unfold pcongo. cbn [fst snd]. split; [exact N1 | rewrite C2, N2; reflexivity]. }
    induction a using oexpr_ind'; intros b E.
    - destruct (ceqo_obs_inv c b E) as [y [-> Ey]]. rewrite !pass_obs. split; [exact E | reflexivity].
    - apply (Hn OpAnd l H b E).
    - apply (Hn OpOr l H b E).
    - apply (Hn OpFby l H b E).
    - destruct (ceqo_qual_inv a q b E) as [e' [q' [-> [Eq Ee]]]]. rewrite !pass_qual. destruct (IHa e' Ee) as [P1 P2].
      split; [cbn [fst]; apply ceqo_qual; assumption | exact P2].
  Qed.
End OBottomUpCong.

(* ---- flatten ---- *)

Lemma oflatten_ops_cong : forall o l1 l2, Forall2 ceqo l1 l2 ->
    Forall2 ceqo (fst (oflatten_ops o l1)) (fst (oflatten_ops o l2)) /\ snd (oflatten_ops o l1) = snd (oflatten_ops o l2).
Proof.
  intros o l1 l2 HF. induction HF as [|a b l1 l2 Hab _ [I1 I2]]; [split; [constructor | reflexivity]|].
  cbn [oflatten_ops]. destruct (oflatten_ops o l1) as [r1 c1]. destruct (oflatten_ops o l2) as [r2 c2]. cbn [fst snd] in *.
  pose proof (oops_of_ceqo o a b Hab) as Ho. destruct (oops_of o a) as [xs|], (oops_of o b) as [ys|]; try contradiction; cbn [fst snd].
  - split; [apply Forall2_app; assumption | reflexivity].
  - split; [constructor; assumption | exact I2].
Qed.

Lemma oflatten_node_cong : forall o l1 l2, Forall2 ceqo l1 l2 -> pcongo (oflatten_node o l1) (oflatten_node o l2).
Proof.
  intros o l1 l2 HF. unfold oflatten_node, pcongo.
  destruct HF as [|a b l1 l2 Hab HF]; [simpl; split; [apply ceqo_mko; constructor | reflexivity]|].
  destruct HF as [|a' b' l1 l2 Hab' HF]; [simpl; split; [exact Hab | reflexivity]|].
  destruct (oflatten_ops_cong o (a :: a' :: l1) (b :: b' :: l2)) as [I1 I2]; [repeat constructor; assumption|].
  destruct (oflatten_ops o (a :: a' :: l1)) as [r1 c1]. destruct (oflatten_ops o (b :: b' :: l2)) as [r2 c2]. cbn [fst snd] in *.
  split; [apply ceqo_mko; exact I1 | exact I2].
Qed.

Lemma oflatten_cong : forall a b, ceqo a b -> pcongo (oflatten a) (oflatten b).
Proof.
  apply (opass_cong oflatten oflatten_node); [reflexivity | apply oflatten_qual | apply oflatten_unfold | apply oflatten_node_cong].
Qed.

(* ---- order ---- *)

Definition oorder_nodeg (o : oop) (l : list oexpr) : oexpr * bool :=
  (mko o (oorder_list o l), match o with OpFby => false | _ => negb (is_eq (cmp_lex ocmp l (oorder_list o l))) end).

Lemma oorder_unfold : forall o l,
    oorder (mko o l) = (fst (oorder_nodeg o (map fst (map oorder l))),
                        existsb snd (map oorder l) || snd (oorder_nodeg o (map fst (map oorder l)))).
Proof. intros o l. destruct o; simpl; rewrite ?orb_false_r; reflexivity. Qed.

Lemma olex_cong : forall l1 l2 d1 d2, Forall2 ceqo l1 l2 -> Forall2 ceqo d1 d2 -> cmp_lex ocmp l1 d1 = cmp_lex ocmp l2 d2.
Proof.
  intros l1 l2 d1 d2 H1 H2.
  apply (cmp_respects (cmp_lex ocmp) (lex_lawful ocmp ocmp_lawful)); unfold ceq; apply Forall2_lex_eq; assumption.
Qed.

Lemma oorder_list_cong : forall o l1 l2, Forall2 ceqo l1 l2 -> Forall2 ceqo (oorder_list o l1) (oorder_list o l2).
Proof.
  intros o l1 l2 HF. destruct o; simpl.
  - apply (isort_respects ocmp ocmp_lawful). exact HF.
  - apply (dedupe_respects ocmp ocmp_lawful). apply (isort_respects ocmp ocmp_lawful). exact HF.
  - exact HF.
Qed.

Lemma oorder_nodeg_cong : forall o l1 l2, Forall2 ceqo l1 l2 -> pcongo (oorder_nodeg o l1) (oorder_nodeg o l2).
Proof.
  intros o l1 l2 HF. unfold oorder_nodeg, pcongo. cbn [fst snd]. pose proof (oorder_list_cong o l1 l2 HF) as Hd.
  split; [apply ceqo_mko; exact Hd|]. destruct o; try reflexivity; rewrite (olex_cong _ _ _ _ HF Hd); reflexivity.
Qed.

Lemma oorder_cong : forall a b, ceqo a b -> pcongo (oorder a) (oorder b).
Proof.
  apply (opass_cong oorder oorder_nodeg); [reflexivity | apply oorder_qual | apply oorder_unfold | apply oorder_nodeg_cong].
Qed.

(* ---- absorb ---- *)

Definition ropt {A} (R : A -> A -> Prop) (a b : option A) : Prop :=
  match a, b with Some x, Some y => R x y | None, None => True | _, _ => False end.

Lemma remove_first_cong : forall {A} (R : A -> A -> Prop) (p p' : A -> bool) l l',
    (forall x x', R x x' -> p x = p' x') -> Forall2 R l l' -> ropt (Forall2 R) (remove_first p l) (remove_first p' l').
Proof.
  intros A R p p' l l' Hp HF. induction HF as [|x y l l' Hxy HF IH]; [exact I|].
  simpl. rewrite <- (Hp x y Hxy). destruct (p x); [exact HF|].
  destruct (remove_first p l) as [r|], (remove_first p' l') as [r'|]; simpl in IH |- *; try contradiction; [constructor; assumption | exact I].
Qed.

Lemma drop_until_cong : forall {A} (R : A -> A -> Prop) (p p' : A -> bool) l l',
    (forall x x', R x x' -> p x = p' x') -> Forall2 R l l' -> ropt (Forall2 R) (drop_until p l) (drop_until p' l').
Proof.
  intros A R p p' l l' Hp HF. induction HF as [|x y l l' Hxy HF IH]; [exact I|].
  simpl. rewrite <- (Hp x y Hxy). destruct (p x); [exact HF | exact IH].
Qed.

Lemma is_eq_ocmp_cong : forall a a' b b', ceqo a a' -> ceqo b b' -> is_eq (ocmp a b) = is_eq (ocmp a' b').
Proof. intros a a' b b' Ha Hb. rewrite (cmp_respects ocmp ocmp_lawful a a' b b' Ha Hb). reflexivity. Qed.

Lemma contained_and_cong : forall ees ees' c c', Forall2 ceqo ees ees' -> Forall2 ceqo c c' ->
                                                 contained_and ocmp ees c = contained_and ocmp ees' c'.
Proof.
  intros ees ees' c c' He. revert c c'. induction He as [|e e' ees ees' Hee _ IH]; intros c c' Hc; [reflexivity|].
  simpl. pose proof (remove_first_cong ceqo (fun er => is_eq (ocmp e er)) (fun er => is_eq (ocmp e' er)) c c'
                                       (fun x x' Hx => is_eq_ocmp_cong e e' x x' Hee Hx) Hc) as Hr.
  destruct (remove_first (fun er => is_eq (ocmp e er)) c) as [r|], (remove_first (fun er => is_eq (ocmp e' er)) c') as [r'|];
    simpl in Hr; try contradiction; [apply IH; exact Hr | reflexivity].
Qed.

Lemma contained_fby_cong : forall ees ees' c c', Forall2 ceqo ees ees' -> Forall2 ceqo c c' ->
                                                 contained_fby ocmp ees c = contained_fby ocmp ees' c'.
Proof.
  intros ees ees' c c' He. revert c c'. induction He as [|e e' ees ees' Hee _ IH]; intros c c' Hc; [reflexivity|].
  simpl. pose proof (drop_until_cong ceqo (fun er => is_eq (ocmp e er)) (fun er => is_eq (ocmp e' er)) c c'
                                     (fun x x' Hx => is_eq_ocmp_cong e e' x x' Hee Hx) Hc) as Hr.
  destruct (drop_until (fun er => is_eq (ocmp e er)) c) as [r|], (drop_until (fun er => is_eq (ocmp e' er)) c') as [r'|];
    simpl in Hr; try contradiction; [apply IH; exact Hr | reflexivity].
Qed.

Lemma in_cmp_congo : forall x x' l l', ceqo x x' -> Forall2 ceqo l l' -> in_cmp ocmp x l = in_cmp ocmp x' l'.
Proof.
  intros x x' l l' Hx HF. unfold in_cmp. induction HF as [|y y' l l' Hy _ IH]; [reflexivity|].
  simpl. rewrite (is_eq_ocmp_cong x x' y y' Hx Hy), IH. reflexivity.
Qed.

Lemma oabsorbs_cong : forall a a' b b', ceqo a a' -> ceqo b b' -> oabsorbs a b = oabsorbs a' b'.
Proof.
  intros a a' b b' Ha Hb. unfold oabsorbs.
  destruct a as [x|la|la|la|ea qa].
  - destruct (ceqo_obs_inv x a' Ha) as [y [-> _]].
    destruct b as [xb|lb|lb|lb|eb qb].
    + destruct (ceqo_obs_inv xb b' Hb) as [yb [-> _]]. reflexivity.
    + destruct (ceqo_mko_inv OpAnd lb b' Hb) as [lb' [-> HF]]. simpl. rewrite (in_cmp_congo _ _ _ _ Ha HF). reflexivity.
    + destruct (ceqo_mko_inv OpOr lb b' Hb) as [lb' [-> HF]]. reflexivity.
    + destruct (ceqo_mko_inv OpFby lb b' Hb) as [lb' [-> HF]]. simpl. rewrite (in_cmp_congo _ _ _ _ Ha HF). reflexivity.
    + destruct (ceqo_qual_inv eb qb b' Hb) as [e' [q' [-> _]]]. reflexivity.
  - destruct (ceqo_mko_inv OpAnd la a' Ha) as [la' [-> HFa]]. simpl mko.
    destruct b as [xb|lb|lb|lb|eb qb].
    + destruct (ceqo_obs_inv xb b' Hb) as [yb [-> _]]. reflexivity.
    + destruct (ceqo_mko_inv OpAnd lb b' Hb) as [lb' [-> HF]]. simpl mko. rewrite (in_cmp_congo _ _ _ _ Ha HF).
      rewrite (contained_and_cong _ _ _ _ HFa HF). reflexivity.
    + destruct (ceqo_mko_inv OpOr lb b' Hb) as [lb' [-> HF]]. reflexivity.
    + destruct (ceqo_mko_inv OpFby lb b' Hb) as [lb' [-> HF]]. simpl mko. rewrite (in_cmp_congo _ _ _ _ Ha HF). reflexivity.
    + destruct (ceqo_qual_inv eb qb b' Hb) as [e' [q' [-> _]]]. reflexivity.
  - destruct (ceqo_mko_inv OpOr la a' Ha) as [la' [-> HFa]]. simpl mko.
    destruct b as [xb|lb|lb|lb|eb qb].
    + destruct (ceqo_obs_inv xb b' Hb) as [yb [-> _]]. reflexivity.
    + destruct (ceqo_mko_inv OpAnd lb b' Hb) as [lb' [-> HF]]. simpl mko. rewrite (in_cmp_congo _ _ _ _ Ha HF). reflexivity.
    + destruct (ceqo_mko_inv OpOr lb b' Hb) as [lb' [-> HF]]. reflexivity.
    + destruct (ceqo_mko_inv OpFby lb b' Hb) as [lb' [-> HF]]. simpl mko. rewrite (in_cmp_congo _ _ _ _ Ha HF). reflexivity.
    + destruct (ceqo_qual_inv eb qb b' Hb) as [e' [q' [-> _]]]. reflexivity.
  - destruct (ceqo_mko_inv OpFby la a' Ha) as [la' [-> HFa]]. simpl mko.
    destruct b as [xb|lb|lb|lb|eb qb].
    + destruct (ceqo_obs_inv xb b' Hb) as [yb [-> _]]. reflexivity.
    + destruct (ceqo_mko_inv OpAnd lb b' Hb) as [lb' [-> HF]]. simpl mko. rewrite (in_cmp_congo _ _ _ _ Ha HF). reflexivity.
    + destruct (ceqo_mko_inv OpOr lb b' Hb) as [lb' [-> HF]]. reflexivity.
    + destruct (ceqo_mko_inv OpFby lb b' Hb) as [lb' [-> HF]]. simpl mko. rewrite (in_cmp_congo _ _ _ _ Ha HF).
      rewrite (contained_fby_cong _ _ _ _ HFa HF). reflexivity.
    + destruct (ceqo_qual_inv eb qb b' Hb) as [e' [q' [-> _]]]. reflexivity.
  - destruct (ceqo_qual_inv ea qa a' Ha) as [e' [q' [-> _]]]. reflexivity.
Qed.

Lemma oabsorb_nodeg_cong : forall o l1 l2, Forall2 ceqo l1 l2 -> pcongo (oabsorb_nodeg o l1) (oabsorb_nodeg o l2).
Proof.
  intros o l1 l2 HF. unfold oabsorb_nodeg, pcongo. destruct o; cbn [fst snd]; try (split; [apply ceqo_mko; exact HF | reflexivity]).
  unfold oabsorb_node. cbn [fst snd]. rewrite (absorb_marks_cong oabsorbs ceqo oabsorbs_cong l1 l2 HF).
  split; [apply (ceqo_mko OpOr); apply remove_marked_cong; exact HF | reflexivity].
Qed.

Lemma oabsorb_cong : forall a b, ceqo a b -> pcongo (oabsorb a) (oabsorb b).
Proof.
  apply (opass_cong oabsorb oabsorb_nodeg); [reflexivity | apply oabsorb_qual | apply oabsorb_unfold | apply oabsorb_nodeg_cong].
Qed.

Lemma osimplify_cong : forall a b, ceqo a b -> pcongo (osimplify a) (osimplify b).
Proof.
  intros a b E. unfold osimplify.
  destruct (oflatten_cong a b E) as [F1 F2]. destruct (oflatten a) as [a1 c1], (oflatten b) as [b1 d1]. cbn [fst snd] in *.
  destruct (oorder_cong a1 b1 F1) as [O1 O2]. destruct (oorder a1) as [a2 c2], (oorder b1) as [b2 d2]. cbn [fst snd] in *.
  destruct (oabsorb_cong a2 b2 O1) as [A1 A2]. destruct (oabsorb a2) as [a3 c3], (oabsorb b2) as [b3 d3]. cbn [fst snd] in *.
  split; [exact A1 | cbn [snd]; rewrite F2, O2, A2; reflexivity].
Qed.

Lemma osettle_cong : forall fuel a b, ceqo a b -> rres ceqo (osettle fuel a) (osettle fuel b).
Proof. intros fuel a b E. unfold osettle, settle. apply (settle_loop_cong ceqo osimplify osimplify_cong). exact E. Qed.

(* ---- DNF ---- *)

Lemma is_oor_cong : forall a b, ceqo a b -> is_oor a = is_oor b.
Proof.
  intros a b E. destruct a as [x|l|l|l|e q].
  - destruct (ceqo_obs_inv x b E) as [y [-> _]]. reflexivity.
  - destruct (ceqo_mko_inv OpAnd l b E) as [l2 [-> _]]. reflexivity.
  - destruct (ceqo_mko_inv OpOr l b E) as [l2 [-> _]]. reflexivity.
  - destruct (ceqo_mko_inv OpFby l b E) as [l2 [-> _]]. reflexivity.
  - destruct (ceqo_qual_inv e q b E) as [e' [q' [-> _]]]. reflexivity.
Qed.

Lemma or_iterable_cong : forall a b, ceqo a b -> Forall2 ceqo (or_iterable a) (or_iterable b).
Proof.
  intros a b E. destruct a as [x|l|l|l|e q].
  - destruct (ceqo_obs_inv x b E) as [y [-> _]]. constructor; [exact E | constructor].
  - destruct (ceqo_mko_inv OpAnd l b E) as [l2 [-> _]]. constructor; [exact E | constructor].
  - destruct (ceqo_mko_inv OpOr l b E) as [l2 [-> HF]]. exact HF.
  - destruct (ceqo_mko_inv OpFby l b E) as [l2 [-> _]]. constructor; [exact E | constructor].
  - destruct (ceqo_qual_inv e q b E) as [e' [q' [-> _]]]. constructor; [exact E | constructor].
Qed.

Lemma rres_rres1o : forall r1 r2, rres ceqo r1 r2 -> rres1 pcongo r1 r2.
Proof. intros [[a c]|x] [[b d]|y] Hr; simpl in *; auto. Qed.

Theorem odnf_cong : forall fuel a b, ceqo a b -> rres ceqo (odnf fuel a) (odnf fuel b).
Proof.
  induction fuel as [|f IH]; intros a b E; [reflexivity|].
  assert (Hch : forall l1 l2, Forall2 ceqo l1 l2 -> rres1 (Forall2 pcongo) (mapM (odnf f) l1) (mapM (odnf f) l2)).
  { intros l1 l2 HF. apply (mapM_cong ceqo pcongo). eapply Forall2_impl; [|exact HF]. intros x y Hxy. apply rres_rres1o. apply IH. exact Hxy. }
  assert (Hfst : forall rs1 rs2, Forall2 pcongo rs1 rs2 -> Forall2 ceqo (map fst rs1) (map fst rs2) /\ existsb snd rs1 = existsb snd rs2).
  { intros rs1 rs2 HF. induction HF as [|p q rs1 rs2 [P1 P2] _ [I1 I2]]; [split; [constructor | reflexivity]|].
    simpl. split; [constructor; assumption | rewrite P2, I2; reflexivity]. }
  assert (Hnode : forall o la lb, Forall2 ceqo la lb ->
             rres ceqo
               (rs <- mapM (odnf f) la ;;
                if existsb is_oor (map fst rs) then
                  kids <- mapM (fun c => r <- odnf f c ;; Ok (fst r)) (map (mko o) (product (map or_iterable (map fst rs)))) ;;
                  Ok (OOr kids, true)
                else Ok (mko o (map fst rs), existsb snd rs))
               (rs <- mapM (odnf f) lb ;;
                if existsb is_oor (map fst rs) then
                  kids <- mapM (fun c => r <- odnf f c ;; Ok (fst r)) (map (mko o) (product (map or_iterable (map fst rs)))) ;;
                  Ok (OOr kids, true)
                else Ok (mko o (map fst rs), existsb snd rs))).
  { intros o la lb HF.
    pose proof (Hch la lb HF) as Hm. destruct (mapM (odnf f) la) as [rs1|x1], (mapM (odnf f) lb) as [rs2|x2]; simpl in Hm; try contradiction; [|exact Hm].
    cbn [bind]. destruct (Hfst rs1 rs2 Hm) as [Hl Hf].
    rewrite (existsb_cong ceqo is_oor _ _ is_oor_cong Hl).
    destruct (existsb is_oor (map fst rs2)).
    - assert (Hp : Forall2 ceqo (map (mko o) (product (map or_iterable (map fst rs1)))) (map (mko o) (product (map or_iterable (map fst rs2))))).
      { apply (Forall2_map2 (Forall2 ceqo) ceqo); [intros p q Hpq; apply ceqo_mko; exact Hpq|].
        apply product_cong. apply (Forall2_map2 ceqo (Forall2 ceqo)); [apply or_iterable_cong | exact Hl]. }
      assert (Hk : rres1 (Forall2 ceqo) (mapM (fun c => r <- odnf f c ;; Ok (fst r)) (map (mko o) (product (map or_iterable (map fst rs1)))))
                         (mapM (fun c => r <- odnf f c ;; Ok (fst r)) (map (mko o) (product (map or_iterable (map fst rs2)))))).
      { apply (mapM_cong ceqo ceqo). eapply Forall2_impl; [|exact Hp]. intros x y Hxy.
        pose proof (IH x y Hxy) as Hr. destruct (odnf f x) as [[x' cx]|ex], (odnf f y) as [[y' cy]|ey]; simpl in Hr |- *; try contradiction; tauto. }
      destruct (mapM (fun c => r <- odnf f c ;; Ok (fst r)) (map (mko o) (product (map or_iterable (map fst rs1))))) as [k1|e1],
               (mapM (fun c => r <- odnf f c ;; Ok (fst r)) (map (mko o) (product (map or_iterable (map fst rs2))))) as [k2|e2];
        simpl in Hk; try contradiction; [|exact Hk].
      simpl. split; [apply (ceqo_mko OpOr); exact Hk | reflexivity].
    - simpl. split; [apply ceqo_mko; exact Hl | exact Hf]. }
  destruct a as [x|la|la|la|ea qa].
  - destruct (ceqo_obs_inv x b E) as [y [-> _]]. simpl. split; [exact E | reflexivity].
  - destruct (ceqo_mko_inv OpAnd la b E) as [lb [-> HF]]. exact (Hnode OpAnd la lb HF).
  - destruct (ceqo_mko_inv OpOr la b E) as [lb [-> HF]]. simpl mko. cbn [odnf].
    pose proof (Hch la lb HF) as Hm. destruct (mapM (odnf f) la) as [rs1|x1], (mapM (odnf f) lb) as [rs2|x2]; simpl in Hm; try contradiction; [|exact Hm].
    simpl. destruct (Hfst rs1 rs2 Hm) as [Hl Hf]. split; [apply (ceqo_mko OpOr); exact Hl | exact Hf].
  - destruct (ceqo_mko_inv OpFby la b E) as [lb [-> HF]]. exact (Hnode OpFby la lb HF).
  - destruct (ceqo_qual_inv ea qa b E) as [e' [q' [-> [Eq Ee]]]]. cbn [odnf].
    pose proof (IH ea e' Ee) as Hr. destruct (odnf f ea) as [[r1 c1]|x1], (odnf f e') as [[r2 c2]|x2]; simpl in Hr |- *; try contradiction; [|exact Hr].
    destruct Hr as [H1 H2]. split; [apply ceqo_qual; assumption | exact H2].
Qed.

(* the observation-level pipeline after the comparison expressions have been normalised *)
Definition ocore (fuel : nat) (e : oexpr) : res oexpr :=
  ' (e1, _) <- osettle fuel e ;;
  ' (e2, _) <- odnf fuel e1 ;;
  ' (e3, _) <- osettle fuel e2 ;;
  Ok e3.

Lemma onormalize_ocore : forall v fuel p, onormalize v fuel p = (r <- onormcmp v fuel p ;; ocore fuel (fst r)).
Proof. intros v fuel p. unfold onormalize, ocore. destruct (onormcmp v fuel p) as [[e0 c0]|x]; reflexivity. Qed.

Theorem ocore_cong : forall fuel a b, ceqo a b -> rres1 ceqo (ocore fuel a) (ocore fuel b).
Proof.
  intros fuel a b E. unfold ocore.
  pose proof (osettle_cong fuel a b E) as H1.
  destruct (osettle fuel a) as [[a1 c1]|x1], (osettle fuel b) as [[b1 d1]|y1]; simpl in H1 |- *; try contradiction; [|exact H1].
  destruct H1 as [H1 _]. pose proof (odnf_cong fuel a1 b1 H1) as H2.
  destruct (odnf fuel a1) as [[a2 c2]|x2], (odnf fuel b1) as [[b2 d2]|y2]; simpl in H2 |- *; try contradiction; [|exact H2].
  destruct H2 as [H2 _]. pose proof (osettle_cong fuel a2 b2 H2) as H3.
  destruct (osettle fuel a2) as [[a3 c3]|x3], (osettle fuel b2) as [[b3 d3]|y3]; simpl in H3 |- *; try contradiction; [|exact H3].
  tauto.
Qed.

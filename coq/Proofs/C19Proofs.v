(* Proofs/C19Proofs.v -- facts about what tr_regex read from the current source
   (Gen/Regexes.v): kernel evaluation on the generated constants, and the
   generic lemmas of RegistryFacts instantiated at the built-in registry.    *)
From Coq Require Import NArith List String Bool Arith Lia.
From V Require Import Base.UString Model.Registry Model.RegistryInit Gen.Regexes
                      Spec.NamingSpec Proofs.RegistryFacts Proofs.NamingFacts.
Import ListNotations.

(* the regex texts of the source are texts the recognisers were written (and proved) for *)
Lemma source_regexes_known_lemma : exists v, source_variant = Some v.
Proof. vm_compute. eexists. reflexivity. Qed.

(* _validate_type has the modelled shape: TYPE_REGEX for "2.0", TYPE_21_REGEX otherwise, 3..250 *)
Lemma source_validate_type_shape_lemma :
  vt_regex_20 = "TYPE_REGEX"%string /\ vt_regex_else = "TYPE_21_REGEX"%string
  /\ vt_len_min = type_len_min /\ vt_len_max = type_len_max.
Proof. vm_compute. repeat split. Qed.

Lemma source_default_version_lemma : version_of (u DEFAULT_VERSION_text) = Some V21.
Proof. vm_compute. reflexivity. Qed.

Lemma builtin_rows_wellformed_lemma : registry_of_rows builtin_rows = Some builtin_registry.
Proof. vm_compute. reflexivity. Qed.

Lemma builtin_keys_distinct_lemma : keys_distinct builtin_registry = true.
Proof. vm_compute. reflexivity. Qed.

Lemma builtin_NoDup : NoDup (map key_of builtin_registry).
Proof. apply keys_distinct_NoDup. exact builtin_keys_distinct_lemma. Qed.

(* every built-in type name obeys the rule it would be held to as a custom name
   (extensions: the extension-name rule) *)
Definition builtin_name_ok (e : entry) : bool :=
  match e_cat e with
  | Extensions => validate_ext_name repaired (e_ver e) (e_name e)
  | _ => validate_type repaired (e_ver e) (e_name e)
  end.

Lemma builtin_names_ok_lemma : forallb builtin_name_ok builtin_registry = true.
Proof. vm_compute. reflexivity. Qed.

Lemma repaired_strict : forall V, strict_type_rule repaired V.
Proof. intros. split; [destruct V; reflexivity | reflexivity]. Qed.

Lemma builtin_names_obey_rule_lemma : forall e, In e builtin_registry ->
  match e_cat e with
  | Extensions => spec_ext_name (e_ver e) (e_name e)
  | _ => spec_type_name (sv (e_ver e)) (e_name e)
  end.
Proof.
  intros e I. pose proof builtin_names_ok_lemma as H. rewrite forallb_forall in H. specialize (H e I).
  unfold builtin_name_ok in H. destruct (e_cat e).
  - apply (type_name_rule_lemma repaired _ _ (repaired_strict _)). exact H.
  - apply (type_name_rule_lemma repaired _ _ (repaired_strict _)). exact H.
  - apply (type_name_rule_lemma repaired _ _ (repaired_strict _)). exact H.
  - apply (ext_name_rule_lemma repaired _ _ (repaired_strict _) eq_refl). exact H.
Qed.

(* over every history that starts from the built-in registries: still a partial
   function, and no built-in type is ever displaced *)
Lemma builtin_history_functional_lemma : forall vt ops,
  NoDup (map key_of (state_after vt builtin_registry ops)).
Proof. intros. apply history_NoDup. exact builtin_NoDup. Qed.

Lemma builtin_never_displaced_lemma : forall vt ops e, In e builtin_registry ->
  lookup (state_after vt builtin_registry ops) (e_ver e) (e_cat e) (e_name e) = Some (e_cls e).
Proof. intros. apply history_grows. apply lookup_complete; [exact builtin_NoDup | assumption]. Qed.

(* a built-in name cannot be registered again *)
Lemma builtin_name_taken_lemma : forall vt ops q e, In e builtin_registry ->
  (r_ver q, r_kind q, r_name q) = (e_ver e, e_cat e, e_name e) ->
  exists x, snd (decorate vt (state_after vt builtin_registry ops) q) = Failed x.
Proof.
  intros vt ops q e I K. pose proof (builtin_never_displaced_lemma vt ops e I) as L.
  inversion K as [[K1 K2 K3]]. rewrite <- K1, <- K2, <- K3 in L.
  destruct (reg_exclusive_lemma vt _ q _ L) as [x [F _]]. eauto.
Qed.

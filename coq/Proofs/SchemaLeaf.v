(* Proofs/SchemaLeaf.v -- per-kind soundness of Property.clean (C02), leaf kinds:
   whatever clean_kind lets through in strict, non-interoperability mode encodes to
   a value the specification's rule for a containing kind accepts.              *)
From Coq Require Import NArith ZArith List String Bool Lia.
From V Require Import Base.UString Base.Json Model.SchemaTypes Model.PyBase Model.Schema
     Spec.StixValid Spec.SchemaRefine Proofs.SchemaBasics.
Import ListNotations.

Section Leaf.
  Variable vr : variant.
  Variables w sp : world.
  Variable pok : ver -> ustring -> bool.
  Variable rc : ustring -> bool -> bool -> list (ustring * jvalue) -> result pval.
  Variable rp : bool -> bool -> list (ustring * jvalue) -> result pval.
  Variable ro : ver -> list (ustring * ustring) -> bool -> list (ustring * jvalue) -> result pval.

  Notation CK := (clean_kind vr w rc rp ro).

  (* the statement proved per kind *)
  Definition sound_at (k k' : pkind) : Prop :=
    forall v pv hc n,
      CK k false false v = Ok (pv, hc) ->
      hc = false /\ nice pv /\ valid_kind sp pok (S n) k' (encode false pv) = true.

  Lemma ver_eqb_eq a b : ver_eqb a b = true -> a = b.
  Proof. destruct a, b; simpl; intros; auto; discriminate. Qed.

  (* ---- string-valued kinds ---- *)
  Lemma stringy_valid k' s n : is_stringy k' = true -> valid_kind sp pok (S n) k' (JStr s) = true.
  Proof. destruct k'; simpl; intros; auto; discriminate. Qed.

  Lemma clean_string_sound v pv hc k' n :
    clean_string v = Ok (pv, hc) -> is_stringy k' = true ->
    hc = false /\ nice pv /\ valid_kind sp pok (S n) k' (encode false pv) = true.
  Proof.
    unfold clean_string. intros H Hk. inv_bind H. inversion Hb; subst. split; [auto|split; [exact I|]]; auto.
    simpl encode. apply stringy_valid; auto.
  Qed.

  Lemma sound_stringy k k' : is_stringy k = true -> is_stringy k' = true -> sound_at k k'.
  Proof.
    intros Hk Hk' v pv hc n H.
    destruct k; simpl in Hk; try discriminate; simpl in H; eapply clean_string_sound; eauto.
  Qed.

  (* ---- fixed ---- *)
  Lemma jvalue_eqb_JStr v s : jvalue_eqb v (JStr s) = true -> v = JStr s.
  Proof. destruct v; simpl; intros H; try discriminate. apply ustr_eqb_eq in H. subst; auto. Qed.

  Lemma sound_fixed fv a fv' a' : ustr_eqb fv fv' = true -> sound_at (KFixed fv a) (KFixed fv' a').
  Proof.
    intros E v pv hc n H. simpl in H. apply ustr_eqb_eq in E. subst fv'.
    destruct (jvalue_eqb v (JStr fv)) eqn:Ev; try discriminate. inversion H; subst. split; [auto|split; [exact I|]]; auto.
  Qed.

  (* ---- integers ---- *)
  Lemma dec_cmp_int_int z b : dec_cmp_int (z, 0%Z) b = Z.compare z b.
  Proof. unfold dec_cmp_int. simpl. rewrite Z.mul_1_r. auto. Qed.

  Lemma sound_int mn mx mn' mx' :
    lower_within mn mn' = true -> upper_within mx mx' = true -> sound_at (KInt mn mx) (KInt mn' mx').
  Proof.
    intros Hl Hu v pv hc n H. simpl in H.
    destruct (py_int v) as [z| |] eqn:Ez; try discriminate.
    destruct (match mn with Some b => (z <? b)%Z | None => false end) eqn:E1; try discriminate.
    destruct (match mx with Some b => (b <? z)%Z | None => false end) eqn:E2; try discriminate.
    inversion H; subst. split; [auto|split; [exact I|]]; auto.
    change (number_in_bounds mn' mx' (JInt z) = true). unfold number_in_bounds.
    cbv beta iota.
    apply andb_true_iff. split.
    - destruct mn' as [y|]; auto. rewrite dec_cmp_int_int. unfold lower_within in Hl. destruct mn as [x|]; try discriminate.
      apply Z.leb_le in Hl. apply Z.ltb_ge in E1. destruct (Z.compare z y) eqn:C; auto.
      rewrite Z.compare_lt_iff in C. exfalso; lia.
    - destruct mx' as [y|]; auto. rewrite dec_cmp_int_int. unfold upper_within in Hu. destruct mx as [x|]; try discriminate.
      apply Z.leb_le in Hu. apply Z.ltb_ge in E2. destruct (Z.compare z y) eqn:C; auto.
      rewrite Z.compare_gt_iff in C. exfalso; lia.
  Qed.

  (* ---- booleans ---- *)
  Lemma sound_bool : sound_at KBool KBool.
  Proof.
    intros v pv hc n H. simpl in H. unfold clean_bool in H.
    assert (G : forall b, Ok (PJ (JBool b), false) = Ok (pv, hc) ->
                          hc = false /\ nice pv /\ valid_kind sp pok (S n) KBool (encode false pv) = true).
    { intros b E. inversion E; subst. split; [auto|split; [exact I|]]; auto. }
    destruct v; try discriminate; eauto.
    - destruct (z =? 1)%Z; eauto. destruct (z =? 0)%Z; eauto. discriminate.
    - destruct (dec_of_repr repr) as [me|]; try discriminate.
      destruct (dec_cmp_int me 1); eauto; destruct (dec_cmp_int me 0); eauto; discriminate.
    - destruct (negb (all_ascii s)); try discriminate.
      destruct (mem_ustr (ulower s) _); eauto. destruct (mem_ustr (ulower s) _); eauto. discriminate.
  Qed.

  (* ---- enumerations ---- *)
  Lemma usubset_mem a b x : usubset a b = true -> mem_ustr x a = true -> mem_ustr x b = true.
  Proof.
    unfold usubset. intros H Hx. rewrite forallb_forall in H. apply H. apply mem_ustr_In. auto.
  Qed.

  Lemma sound_enum a a' : usubset a a' = true -> sound_at (KEnum a) (KEnum a').
  Proof.
    intros Hs v pv hc n H. simpl in H. inv_bind H.
    destruct (mem_ustr a0 a) eqn:E; try discriminate. inversion Hb; subst. split; [auto|split; [exact I|]]; auto.
    simpl. eapply usubset_mem; eauto.
  Qed.

  (* ---- hexadecimal strings, binary ---- *)
  Lemma sound_hex : vr_hex_z vr = true -> sound_at KHex KHex.
  Proof.
    intros Hz v pv hc n H. simpl in H. destruct v; try discriminate.
    rewrite Hz in H. destruct (re_hex_pairs true s) eqn:E; try discriminate. inversion H; subst. split; [auto|split; [exact I|]]; auto.
    simpl. unfold re_hex_pairs, dollar in E. simpl in E. rewrite orb_false_r in E. exact E.
  Qed.

  Lemma sound_binary : sound_at KBinary KBinary.
  Proof.
    intros v pv hc n H. simpl in H. destruct v; try discriminate.
    destruct (all_ascii s && (if vr_b64_strict vr then b64_strict s else b64_ok s)); try discriminate. inversion H; subst. split; [auto|split; [exact I|]]; auto.
  Qed.

  (* ---- selectors ---- *)
  Lemma sel_name_step_up_of x lo hi : sel_name_step lo hi x = true -> sel_name_step_up lo hi x = true.
  Proof.
    unfold sel_name_step, sel_name_step_up. intros H.
    apply andb_true_iff in H. destruct H as [H H3]. apply andb_true_iff in H. destruct H as [H1 H2].
    rewrite H2, H3, !andb_true_r. rewrite forallb_forall in *. intros c Hc. rewrite (H1 c Hc). auto.
  Qed.

  Lemma sel_gen_mono b s : re_selector_exact_gen b s = true -> re_selector_exact_gen true s = true.
  Proof.
    destruct b; auto. unfold re_selector_exact_gen. intros H.
    apply orb_true_iff in H. destruct H as [H | H]; [rewrite H; auto|].
    apply orb_true_iff. right. destruct (usplit_dot s []) as [|first rest]; try discriminate.
    apply andb_true_iff in H. destruct H as [H1 H2]. rewrite H1. simpl.
    rewrite forallb_forall in *. intros x Hx. specialize (H2 x Hx).
    apply orb_true_iff in H2. destruct H2 as [H2 | H2]; [rewrite H2; auto|].
    rewrite (sel_name_step_up_of _ _ _ H2). apply orb_true_r.
  Qed.

  Lemma sound_selector : vr_sel_z vr = true -> sound_at KSelector KSelector.
  Proof.
    intros Hz v pv hc n H. simpl in H. destruct v; try discriminate.
    destruct (negb (all_ascii s)); try discriminate. rewrite Hz in H.
    destruct (re_selector true (vr_sel_upper vr) s) eqn:E; try discriminate. inversion H; subst. split; [auto|split; [exact I|]]; auto.
    simpl. unfold re_selector, dollar in E. simpl in E. rewrite orb_false_r in E. eapply sel_gen_mono; eauto.
  Qed.

  (* ---- dictionaries ---- *)
  Lemma dict_key_ok_strict vv k : vr_key_z vr = true -> dict_key_ok vr vv k = true -> strict_dict_key vv k = true.
  Proof.
    intros Hz. unfold dict_key_ok, strict_dict_key. rewrite Hz. unfold re_dict_key, dollar. simpl.
    rewrite orb_false_r. intros H. apply andb_true_iff in H. destruct H as [H1 H2].
    apply andb_true_iff in H2. destruct H2 as [H2 H3]. rewrite H2. simpl.
    destruct vv; auto. rewrite H1, andb_true_r.
    destruct (List.length k); simpl in *; auto; discriminate.
  Qed.

  Lemma clean_dict_keys_ok vv d :
    vr_key_z vr = true -> clean_dict_keys vr vv d = Ok tt -> forallb (fun kv => strict_dict_key vv (fst kv)) d = true.
  Proof.
    intros Hz. induction d as [|[k x] d IH]; simpl; auto.
    destruct (dict_key_ok vr vv k) eqn:E; try discriminate. intros H.
    rewrite (dict_key_ok_strict _ _ Hz E). simpl. auto.
  Qed.

  Lemma clean_dictionary_inv vv v d :
    clean_dictionary vr vv v = Ok d -> v = JObj d /\ clean_dict_keys vr vv d = Ok tt /\ d <> [].
  Proof.
    unfold clean_dictionary. intros H. inv_bind H. inv_bind Hb.
    destruct v; simpl in Ha; try discriminate. inversion Ha; subst.
    destruct a0. destruct a; try discriminate. inversion Hbb; subst. repeat split; auto. discriminate.
  Qed.

  Lemma sound_dict vv vv' : ver_eqb vv vv' = true -> vr_key_z vr = true -> sound_at (KDict vv) (KDict vv').
  Proof.
    intros Ev Hz v pv hc n H. apply ver_eqb_eq in Ev. subst vv'. simpl in H. inv_bind H.
    inversion Hb; subst. split; [auto|split; [exact I|]]; auto. apply clean_dictionary_inv in Ha. destruct Ha as [-> [Hk Hne]].
    simpl. rewrite (clean_dict_keys_ok _ _ Hz Hk), andb_true_r. destruct a; auto; contradiction.
  Qed.
End Leaf.

(* Proofs/MarkingsC08.v -- selector validity (C08): the model's validate
   accepts a selector text exactly when it is the text of a step list that
   addresses something, for every variant of the model in which the four
   path-walking deviations are repaired; witnesses for each deviation. *)
From Coq Require Import String.
From Coq Require Import NArith ZArith List Bool Arith Lia.
From V Require Import Base.UString Model.Markings Spec.MarkingSpec.
Import ListNotations.

(* ---------------------------------------------------------------- *)
(* strings                                                           *)

Lemma ustr_eqb_refl : forall a, ustr_eqb a a = true.
Proof. induction a as [|x a IH]; simpl; auto. rewrite N.eqb_refl. exact IH. Qed.

Lemma ustr_eqb_eq : forall a b, ustr_eqb a b = true <-> a = b.
Proof.
  induction a as [|x a IH]; destruct b as [|y b]; simpl; split; intro H; try discriminate; auto.
  - apply andb_true_iff in H. destruct H as [H1 H2]. apply N.eqb_eq in H1. apply IH in H2. congruence.
  - inversion H; subst. rewrite N.eqb_refl. simpl. apply ustr_eqb_refl.
Qed.

Lemma ustr_eqb_neq : forall a b, ustr_eqb a b = false <-> a <> b.
Proof.
  intros a b. split; intro H.
  - intro E. apply ustr_eqb_eq in E. congruence.
  - destruct (ustr_eqb a b) eqn:E; auto. apply ustr_eqb_eq in E. contradiction.
Qed.

(* ---------------------------------------------------------------- *)
(* induction over value trees                                        *)

Section MvalInd.
  Variable P : mval -> Prop.
  Hypothesis Hnull : P VNull.
  Hypothesis Hbool : forall b, P (VBool b).
  Hypothesis Hint : forall z, P (VInt z).
  Hypothesis Hfloat : forall r, P (VFloat r).
  Hypothesis Hstr : forall s, P (VStr s).
  Hypothesis Htime : forall t, P (VTime t).
  Hypothesis Hlist : forall l, Forall P l -> P (VList l).
  Hypothesis Hdict : forall m, Forall (fun kv => P (snd kv)) m -> P (VDict m).
  Hypothesis Hobj : forall m, Forall (fun kv => P (snd kv)) m -> P (VObj m).

  Fixpoint mval_nested_ind (v : mval) : P v :=
    match v with
    | VNull => Hnull
    | VBool b => Hbool b
    | VInt z => Hint z
    | VFloat r => Hfloat r
    | VStr s => Hstr s
    | VTime t => Htime t
    | VList l => Hlist l ((fix go (l : list mval) : Forall P l :=
                             match l with
                             | [] => Forall_nil _
                             | x :: xs => Forall_cons _ (mval_nested_ind x) (go xs)
                             end) l)
    | VDict m => Hdict m ((fix go (m : members) : Forall (fun kv => P (snd kv)) m :=
                             match m with
                             | [] => Forall_nil _
                             | kv :: xs => Forall_cons _ (mval_nested_ind (snd kv)) (go xs)
                             end) m)
    | VObj m => Hobj m ((fix go (m : members) : Forall (fun kv => P (snd kv)) m :=
                           match m with
                           | [] => Forall_nil _
                           | kv :: xs => Forall_cons _ (mval_nested_ind (snd kv)) (go xs)
                           end) m)
    end.
End MvalInd.

(* ---------------------------------------------------------------- *)
(* what walk yields                                                  *)

Lemma walk_dict : forall c b m, walk c b (VDict m) = walk_members c m.
Proof. reflexivity. Qed.

Lemma walk_obj_any : forall c b m, c_embed c = AnyMapping -> walk c b (VObj m) = walk_members c m.
Proof. intros c b m H. simpl. rewrite H. reflexivity. Qed.

Lemma walk_obj_dictonly : forall c b m, c_embed c = DictOnly -> walk c b (VObj m) = [].
Proof. intros c b m H. simpl. rewrite H. reflexivity. Qed.

Lemma walk_list_nested : forall c b l, c_nest c = NestedLists -> walk c b (VList l) = walk_items c l l 0.
Proof. intros c b l H. simpl. rewrite H. rewrite andb_false_r. reflexivity. Qed.

Lemma walk_list_prop : forall c l, walk c false (VList l) = walk_items c l l 0.
Proof. reflexivity. Qed.

Lemma in_map_under : forall k segs x l,
  In (segs, x) (map (under k) l) <-> exists segs', segs = k :: segs' /\ In (segs', x) l.
Proof.
  intros k segs x l. rewrite in_map_iff. split.
  - intros [[s y] [E H]]. unfold under in E. simpl in E. inversion E; subst. eauto.
  - intros [s' [E H]]. exists (s', x). subst. split; auto.
Qed.

Lemma walk_members_in : forall c m segs x,
  In (segs, x) (walk_members c m) <->
  exists k v, In (k, v) m /\
    ((segs = [k] /\ x = v) \/ exists segs', segs = k :: segs' /\ In (segs', x) (walk c false v)).
Proof.
  intros c m segs x. induction m as [|[k v] m IH].
  - simpl. split; [tauto|]. intros [k [v [[] _]]].
  - change (walk_members c ((k, v) :: m))
      with ((([k], v) :: map (under k) (walk c false v)) ++ walk_members c m).
    rewrite in_app_iff. simpl. rewrite in_map_under. rewrite IH. split.
    + intros [[H | H] | H].
      * inversion H; subst. exists k, x. split; auto.
      * exists k, v. split; auto.
      * destruct H as [k' [v' [Hin H]]]. exists k', v'. split; auto.
    + intros [k' [v' [[Hin | Hin] H]]].
      * inversion Hin; subst. left. destruct H as [[E1 E2] | H]; subst; auto.
      * right. exists k', v'. auto.
Qed.

Lemma walk_items_in : forall c l rest pos segs x,
  c_index c = Position ->
  (In (segs, x) (walk_items c l rest pos) <->
   exists i it, nth_error rest i = Some it /\
     ((segs = [idx_seg (pos + i)] /\ x = it) \/
      exists segs', segs = idx_seg (pos + i) :: segs' /\ In (segs', x) (walk c true it))).
Proof.
  intros c l rest pos segs x Hpos. revert pos. induction rest as [|it rest IH]; intro pos.
  - simpl. split; [tauto|]. intros [i [it [H _]]]. destruct i; discriminate.
  - change (walk_items c l (it :: rest) pos)
      with ((([idx_seg (item_index c l it pos)], it) :: map (under (idx_seg (item_index c l it pos))) (walk c true it))
            ++ walk_items c l rest (S pos)).
    assert (Hi : item_index c l it pos = pos) by (unfold item_index; rewrite Hpos; reflexivity).
    rewrite Hi. rewrite in_app_iff. simpl. rewrite in_map_under. rewrite IH. split.
    + intros [[H | H] | H].
      * inversion H; subst. exists 0, x. rewrite Nat.add_0_r. split; auto.
      * exists 0, it. rewrite Nat.add_0_r. split; auto.
      * destruct H as [i [it' [Hn H]]]. exists (S i), it'. rewrite Nat.add_succ_r. split; auto.
    + intros [i [it' [Hn H]]]. destruct i as [|i].
      * simpl in Hn. inversion Hn; subst. rewrite Nat.add_0_r in H. left.
        destruct H as [[E1 E2] | H]; subst; auto.
      * simpl in Hn. right. exists i, it'. rewrite Nat.add_succ_r in H. auto.
Qed.

(* The variants in which path walking is repaired *)
Definition walks_everything (c : cfg) : Prop :=
  c_index c = Position /\ c_embed c = AnyMapping /\ c_nest c = NestedLists.

Lemma addresses_nil_inv : forall v x, addresses v [] x -> x = v.
Proof. intros v x H. inversion H; auto. Qed.

Lemma nth_error_Forall : forall {A} (P : A -> Prop) l i x, Forall P l -> nth_error l i = Some x -> P x.
Proof. intros A P l i x HF Hn. apply nth_error_In in Hn. rewrite Forall_forall in HF. auto. Qed.

Lemma addresses_cons_inv : forall v st p y, addresses v (st :: p) y ->
  match st with
  | Key k => exists m x, (v = VDict m \/ v = VObj m) /\ In (k, x) m /\ addresses x p y
  | Index i => exists l x, v = VList l /\ nth_error l i = Some x /\ addresses x p y
  end.
Proof.
  intros v st p y H. inversion H; subst.
  - exists m, x. auto.
  - exists m, x. auto.
  - exists l, x. auto.
Qed.

Theorem walk_spec : forall c, walks_everything c ->
  forall v b segs x,
    In (segs, x) (walk c b v) <->
    exists p, p <> [] /\ map render_step p = segs /\ addresses v p x.
Proof.
  intros c [Hidx [Hemb Hnest]].
  induction v as [ | bv | z | r | s | t | l IHl | m IHm | m IHm ] using mval_nested_ind; intros bb segs x;
    try (simpl; split; [tauto | intros [p [Hne [_ Ha]]]; destruct p as [|st p]; [congruence|];
                        apply addresses_cons_inv in Ha; destruct st;
                        [destruct Ha as [m0 [x0 [[E|E] _]]]; discriminate
                        |destruct Ha as [l0 [x0 [E _]]]; discriminate]]).
  - (* list *)
    rewrite (walk_list_nested c bb l Hnest). rewrite (walk_items_in c l l 0 segs x Hidx). simpl. split.
    + intros [i [it [Hn Hc]]]. pose proof (nth_error_Forall _ _ _ _ IHl Hn) as IH.
      destruct Hc as [[E1 E2] | [segs' [E Hin]]]; subst.
      * exists [Index i]. split; [discriminate|]. split; [reflexivity|]. eapply A_list; eauto. constructor.
      * apply IH in Hin. destruct Hin as [p [Hne [Hm Ha]]]. exists (Index i :: p).
        split; [discriminate|]. split; [simpl; congruence|]. eapply A_list; eauto.
    + intros [p [Hne [Hm Ha]]]. destruct p as [|st p0]; [congruence|].
      apply addresses_cons_inv in Ha. destruct st as [k|i].
      { destruct Ha as [m0 [x0 [[E|E] _]]]; discriminate. }
      destruct Ha as [l0 [x0 [E [Hn Ha]]]]. inversion E; subst l0. clear E.
      exists i, x0. split; auto. pose proof (nth_error_Forall _ _ _ _ IHl Hn) as IH.
      simpl in Hm. subst segs.
      destruct p0 as [|st p0].
      * apply addresses_nil_inv in Ha. subst. left. auto.
      * right. exists (map render_step (st :: p0)). split; [reflexivity|].
        apply IH. exists (st :: p0). split; [discriminate|]. auto.
  - (* dict *)
    rewrite walk_dict. rewrite walk_members_in. split.
    + intros [k [v [Hin Hc]]]. rewrite Forall_forall in IHm. pose proof (IHm _ Hin) as IH. simpl in IH.
      destruct Hc as [[E1 E2] | [segs' [E Hw]]]; subst.
      * exists [Key k]. split; [discriminate|]. split; [reflexivity|]. eapply A_dict; eauto. constructor.
      * apply IH in Hw. destruct Hw as [p [Hne [Hm Ha]]]. exists (Key k :: p).
        split; [discriminate|]. split; [simpl; congruence|]. eapply A_dict; eauto.
    + intros [p [Hne [Hm Ha]]]. destruct p as [|st p0]; [congruence|].
      apply addresses_cons_inv in Ha. destruct st as [k|i].
      2:{ destruct Ha as [l0 [x0 [E _]]]; discriminate. }
      destruct Ha as [m0 [x0 [E [Hin Ha]]]].
      assert (m0 = m) by (destruct E as [E|E]; inversion E; auto). subst m0. clear E.
      exists k, x0. split; auto. rewrite Forall_forall in IHm. pose proof (IHm _ Hin) as IH. simpl in IH.
      simpl in Hm. subst segs.
      destruct p0 as [|st p0].
      * apply addresses_nil_inv in Ha. subst. left. auto.
      * right. exists (map render_step (st :: p0)). split; [reflexivity|].
        apply IH. exists (st :: p0). split; [discriminate|]. auto.
  - (* embedded object *)
    rewrite (walk_obj_any c bb m Hemb). rewrite walk_members_in. split.
    + intros [k [v [Hin Hc]]]. rewrite Forall_forall in IHm. pose proof (IHm _ Hin) as IH. simpl in IH.
      destruct Hc as [[E1 E2] | [segs' [E Hw]]]; subst.
      * exists [Key k]. split; [discriminate|]. split; [reflexivity|]. eapply A_obj; eauto. constructor.
      * apply IH in Hw. destruct Hw as [p [Hne [Hm Ha]]]. exists (Key k :: p).
        split; [discriminate|]. split; [simpl; congruence|]. eapply A_obj; eauto.
    + intros [p [Hne [Hm Ha]]]. destruct p as [|st p0]; [congruence|].
      apply addresses_cons_inv in Ha. destruct st as [k|i].
      2:{ destruct Ha as [l0 [x0 [E _]]]; discriminate. }
      destruct Ha as [m0 [x0 [E [Hin Ha]]]].
      assert (m0 = m) by (destruct E as [E|E]; inversion E; auto). subst m0. clear E.
      exists k, x0. split; auto. rewrite Forall_forall in IHm. pose proof (IHm _ Hin) as IH. simpl in IH.
      simpl in Hm. subst segs.
      destruct p0 as [|st p0].
      * apply addresses_nil_inv in Ha. subst. left. auto.
      * right. exists (map render_step (st :: p0)). split; [reflexivity|].
        apply IH. exists (st :: p0). split; [discriminate|]. auto.
Qed.

(* ---------------------------------------------------------------- *)
(* validate                                                          *)

Lemma validate_selector_iff : forall c top sel,
  validate_selector c top sel = true <->
  exists segs x, In (segs, x) (iterpath c top) /\ join_dot segs = sel /\ accepts c x = true.
Proof.
  intros c top sel. unfold validate_selector, evaluate_expression.
  destruct (find _ (iterpath c top)) as [[segs x]|] eqn:F.
  - split; [intros _|reflexivity]. apply find_some in F. destruct F as [Hin Hf]. simpl in Hf.
    apply andb_true_iff in Hf. destruct Hf as [H1 H2]. apply ustr_eqb_eq in H1. exists segs, x. auto.
  - split; [simpl; discriminate|]. intros [segs [x [Hin [Hj Ha]]]].
    pose proof (find_none _ _ F _ Hin) as Hn. simpl in Hn. rewrite Ha in Hn.
    apply ustr_eqb_eq in Hj. rewrite Hj in Hn. discriminate.
Qed.

(* the four repaired variants together *)
Definition selector_repaired (c : cfg) : Prop := c_falsy c = AnyValue /\ walks_everything c.

Theorem validate_selector_iff_addresses : forall c, selector_repaired c ->
  forall top sel, validate_selector c top sel = true <-> addresses_something top sel.
Proof.
  intros c [Hf Hw] top sel. rewrite validate_selector_iff. unfold addresses_something, iterpath.
  rewrite <- (walk_dict c false top). split.
  - intros [segs [x [Hin [Hj _]]]]. apply (walk_spec c Hw) in Hin. destruct Hin as [p [Hne [Hm Ha]]].
    exists p, x. split; auto. split; auto. unfold render. rewrite Hm. exact Hj.
  - intros [p [x [Hne [Hr Ha]]]]. exists (map render_step p), x. split.
    + apply (walk_spec c Hw). exists p. auto.
    + split; auto. unfold accepts. rewrite Hf. reflexivity.
Qed.

Theorem validate_list_iff : forall c top sels,
  validate c top sels = true <-> sels <> [] /\ forall s, In s sels -> validate_selector c top s = true.
Proof.
  intros c top sels. destruct sels as [|s sels].
  - simpl. split; [discriminate|]. intros [H _]. congruence.
  - unfold validate. rewrite forallb_forall. split.
    + intro H. split; [discriminate|]. exact H.
    + intros [_ H]. exact H.
Qed.

Theorem validate_iff_addresses : forall c, selector_repaired c ->
  forall top sels,
    validate c top sels = true <-> sels <> [] /\ forall s, In s sels -> addresses_something top s.
Proof.
  intros c Hc top sels. rewrite validate_list_iff. split; intros [H1 H2]; split; auto; intros s Hs.
  - apply (validate_selector_iff_addresses c Hc). auto.
  - apply (validate_selector_iff_addresses c Hc). auto.
Qed.

(* ---------------------------------------------------------------- *)
(* the functional form, for trees with distinct keys                 *)

Lemma lookup_in : forall k m x, lookup k m = Some x -> In (k, x) m.
Proof.
  intros k m x. induction m as [|[k' v] m IH]; simpl; [discriminate|].
  destruct (ustr_eqb k k') eqn:E.
  - intro H. inversion H; subst. apply ustr_eqb_eq in E. subst. auto.
  - auto.
Qed.

Lemma in_lookup : forall k m x, NoDup (map fst m) -> In (k, x) m -> lookup k m = Some x.
Proof.
  intros k m x. induction m as [|[k' v] m IH]; simpl; [tauto|].
  intros Hnd [H | H].
  - inversion H; subst. rewrite ustr_eqb_refl. reflexivity.
  - inversion Hnd; subst. destruct (ustr_eqb k k') eqn:E.
    + apply ustr_eqb_eq in E. subst. exfalso. apply H2. apply (in_map fst) in H. exact H.
    + auto.
Qed.

Lemma uniq_keys_member : forall m k x,
  (fix go (m : members) : Prop := match m with [] => True | kv :: m' => uniq_keys (snd kv) /\ go m' end) m ->
  In (k, x) m -> uniq_keys x.
Proof.
  induction m as [|kv m IH]; simpl; [tauto|]. intros k x [H1 H2] [E | Hin].
  - subst. exact H1.
  - eauto.
Qed.

Lemma uniq_keys_item : forall l i x,
  (fix go (l : list mval) : Prop := match l with [] => True | x :: l' => uniq_keys x /\ go l' end) l ->
  nth_error l i = Some x -> uniq_keys x.
Proof.
  induction l as [|y l IH]; intros i x H Hn; destruct i; simpl in Hn; try discriminate.
  - inversion Hn; subst. apply H.
  - destruct H as [_ H]. eauto.
Qed.

Lemma addresses_resolve : forall p v x, uniq_keys v -> (addresses v p x <-> resolve v p = Some x).
Proof.
  induction p as [|st p IH]; intros v x Hu.
  - simpl. split; intro H.
    + apply addresses_nil_inv in H. congruence.
    + inversion H; subst. constructor.
  - split; intro H.
    + inversion H; subst; simpl; simpl in Hu.
      * destruct Hu as [Hnd Hch]. rewrite (in_lookup _ _ _ Hnd H3). apply IH; auto. eapply uniq_keys_member; eauto.
      * destruct Hu as [Hnd Hch]. rewrite (in_lookup _ _ _ Hnd H3). apply IH; auto. eapply uniq_keys_member; eauto.
      * rewrite H3. apply IH; auto. eapply uniq_keys_item; eauto.
    + destruct st as [k | i]; simpl in H.
      * destruct v; try discriminate.
        -- destruct (lookup k m) eqn:L; [|discriminate]. simpl in Hu. destruct Hu as [Hnd Hch].
           apply lookup_in in L. eapply A_dict; eauto. apply IH; auto. eapply uniq_keys_member; eauto.
        -- destruct (lookup k m) eqn:L; [|discriminate]. simpl in Hu. destruct Hu as [Hnd Hch].
           apply lookup_in in L. eapply A_obj; eauto. apply IH; auto. eapply uniq_keys_member; eauto.
      * destruct v; try discriminate. destruct (nth_error l i) eqn:N; [|discriminate].
        simpl in Hu. eapply A_list; eauto. apply IH; auto. eapply uniq_keys_item; eauto.
Qed.

Theorem validate_selector_iff_resolves : forall c, selector_repaired c ->
  forall top sel, uniq_keys (VDict top) ->
    (validate_selector c top sel = true <-> exists p v, render p = sel /\ resolve_top top p = Some v).
Proof.
  intros c Hc top sel Hu. rewrite (validate_selector_iff_addresses c Hc). unfold addresses_something. split.
  - intros [p [v [Hne [Hr Ha]]]]. exists p, v. split; auto. unfold resolve_top.
    destruct p; [congruence|]. apply addresses_resolve; auto.
  - intros [p [v [Hr Hres]]]. exists p, v. destruct p as [|st p]; [discriminate|].
    split; [discriminate|]. split; auto. apply addresses_resolve; auto.
Qed.

(* ---------------------------------------------------------------- *)
(* every granular function rejects a selector list that validate rejects,
   and the two queries accept exactly what validate accepts            *)

Lemma rejects_get : forall c o sels i d r l,
  validate c (view o) sels = false -> g_get_markings c o sels i d r l = Err EInvalidSelector.
Proof. intros. unfold g_get_markings. rewrite H. reflexivity. Qed.

Lemma rejects_is_marked : forall c o m sels i d,
  validate c (view o) sels = false -> g_is_marked c o m sels i d = Err EInvalidSelector.
Proof. intros. unfold g_is_marked. rewrite H. reflexivity. Qed.

Lemma rejects_add : forall c o m sels,
  validate c (view o) sels = false -> g_add_markings c o m sels = Err EInvalidSelector.
Proof. intros. unfold g_add_markings. rewrite H. reflexivity. Qed.

Lemma rejects_remove : forall c o m sels,
  validate c (view o) sels = false -> g_remove_markings c o m sels = Err EInvalidSelector.
Proof. intros. unfold g_remove_markings. rewrite H. reflexivity. Qed.

Lemma rejects_clear : forall c o sels r l,
  validate c (view o) sels = false -> g_clear_markings c o sels r l = Err EInvalidSelector.
Proof. intros. unfold g_clear_markings. rewrite H. reflexivity. Qed.

Lemma rejects_set : forall c o m sels r l,
  validate c (view o) sels = false -> g_set_markings c o m sels r l = Err EInvalidSelector.
Proof. intros. unfold g_set_markings. rewrite rejects_clear; auto. Qed.

Theorem every_function_rejects : forall c o m sels i d r l,
  validate c (view o) sels = false ->
  get_markings c o (Some sels) i d r l = Err EInvalidSelector /\
  is_marked c o m (Some sels) i d = Err EInvalidSelector /\
  add_markings c o m (Some sels) = Err EInvalidSelector /\
  remove_markings c o m (Some sels) = Err EInvalidSelector /\
  clear_markings c o (Some sels) r l = Err EInvalidSelector /\
  set_markings c o m (Some sels) r l = Err EInvalidSelector.
Proof.
  intros. unfold get_markings, is_marked, add_markings, remove_markings, clear_markings, set_markings.
  rewrite rejects_get, rejects_is_marked, rejects_add, rejects_remove, rejects_clear, rejects_set; auto.
  repeat split.
Qed.

Theorem queries_accept : forall c o sels i d r l,
  validate c (view o) sels = true ->
  exists ms, g_get_markings c o sels i d r l = Ok ms.
Proof. intros. unfold g_get_markings. rewrite H. simpl. eauto. Qed.

(* construction: with the base check in place, an accepted object has only valid granular selectors *)
Theorem constructor_validates : forall c o,
  c_ind20 c = Ind20Checked -> o_kind o = KObj -> ctor_check c o = None ->
  forall g, In g (gms_list o) -> validate c (view o) (g_sels g) = true.
Proof.
  intros c o Hi Hk Hc g Hg. unfold ctor_check in Hc. rewrite Hk in Hc.
  destruct (negb (forallb is_marking (omr_list o))); [discriminate|].
  destruct (negb (forallb _ (gms_list o))) eqn:E1 in Hc; [discriminate|].
  assert (Hs : skips_selector_check c o = false) by (unfold skips_selector_check; rewrite Hi; reflexivity).
  rewrite Hs in Hc.
  destruct (forallb (fun g => validate c (view o) (g_sels g)) (gms_list o)) eqn:E2; [|discriminate].
  rewrite forallb_forall in E2. auto.
Qed.

(* ---------------------------------------------------------------- *)
(* witnesses for the deviations of the pinned code                   *)

Definition with_falsy f := mkcfg f Position AnyMapping NestedLists ByPathTree SameMarking AnyCaseKeys Ind20Checked.
Definition with_index i := mkcfg AnyValue i AnyMapping NestedLists ByPathTree SameMarking AnyCaseKeys Ind20Checked.
Definition with_embed e := mkcfg AnyValue Position e NestedLists ByPathTree SameMarking AnyCaseKeys Ind20Checked.
Definition with_nest n := mkcfg AnyValue Position AnyMapping n ByPathTree SameMarking AnyCaseKeys Ind20Checked.
Definition with_syntax s := mkcfg AnyValue Position AnyMapping NestedLists ByPathTree SameMarking s Ind20Checked.
Definition with_ind20 i := mkcfg AnyValue Position AnyMapping NestedLists ByPathTree SameMarking AnyCaseKeys i.

Lemma repaired_is_repaired : selector_repaired cfg_repaired.
Proof. repeat split. Qed.

Definition refutes (c : cfg) : Prop :=
  exists top sel, addresses_something top sel /\ validate_selector c top sel = false.

Lemma falsy_refuted : refutes (with_falsy TruthyOnly).
Proof.
  exists [(u "is_family", VBool false)], (u "is_family"). split.
  - exists [Key (u "is_family")], (VBool false). split; [discriminate|]. split; [reflexivity|].
    eapply A_dict; [left; reflexivity | constructor].
  - vm_compute. reflexivity.
Qed.

Lemma dup_element_refuted : refutes (with_index FirstEqual).
Proof.
  exists [(u "labels", VList [VStr (u "a"); VStr (u "a")])], (u "labels.[1]"). split.
  - exists [Key (u "labels"); Index 1], (VStr (u "a")). split; [discriminate|]. split; [vm_compute; reflexivity|].
    eapply A_dict; [left; reflexivity|]. eapply A_list; [reflexivity | constructor].
  - vm_compute. reflexivity.
Qed.

Lemma embedded_refuted : refutes (with_embed DictOnly).
Proof.
  exists [(u "external_references", VList [VObj [(u "source_name", VStr (u "s")); (u "url", VStr (u "http://x"))]])],
         (u "external_references.[0].url"). split.
  - exists [Key (u "external_references"); Index 0; Key (u "url")], (VStr (u "http://x")).
    split; [discriminate|]. split; [vm_compute; reflexivity|].
    eapply A_dict; [left; reflexivity|]. eapply A_list; [reflexivity|].
    eapply A_obj; [right; left; reflexivity | constructor].
  - vm_compute. reflexivity.
Qed.

Lemma nested_list_refuted : refutes (with_nest FlatLists).
Proof.
  exists [(u "x_m", VList [VList [VStr (u "a"); VStr (u "b")]])], (u "x_m.[0].[1]"). split.
  - exists [Key (u "x_m"); Index 0; Index 1], (VStr (u "b")). split; [discriminate|]. split; [vm_compute; reflexivity|].
    eapply A_dict; [left; reflexivity|]. eapply A_list; [reflexivity|]. eapply A_list; [reflexivity | constructor].
  - vm_compute. reflexivity.
Qed.

(* the selector syntax of the pinned code rejects a selector that validate
   accepts and that addresses a dictionary key made of legal key characters *)
Lemma syntax_refuted :
  exists top sel, addresses_something top sel /\ validate_selector (with_syntax LowerKeys) top sel = true /\
                  selector_syntax_ok (with_syntax LowerKeys) sel = false /\
                  selector_syntax_ok (with_syntax AnyCaseKeys) sel = true.
Proof.
  exists [(u "x_m", VDict [(u "Bar", VStr (u "v"))])], (u "x_m.Bar"). split.
  - exists [Key (u "x_m"); Key (u "Bar")], (VStr (u "v")). split; [discriminate|]. split; [vm_compute; reflexivity|].
    eapply A_dict; [left; reflexivity|]. eapply A_dict; [left; reflexivity | constructor].
  - vm_compute. auto.
Qed.

(* v20.Indicator as pinned: the constructor accepts a granular marking whose selector addresses nothing *)
Definition red_id : ustring := u "marking-definition--5e57c739-391a-4eb3-b6be-7d15ca92d5ed".

Definition ind20_witness : sobj :=
  mkobj KObj false true [(u "type", VStr (u "indicator")); (u "pattern", VStr (u "[file:name = 'a']"))] None
        (Some [mkgm [u "nonexistent"] red_id []]).

Lemma not_addressed_by_compute : forall top sel,
  validate_selector cfg_repaired top sel = false -> ~ addresses_something top sel.
Proof.
  intros top sel H A. apply (validate_selector_iff_addresses cfg_repaired repaired_is_repaired) in A. congruence.
Qed.

Lemma ind20_refuted :
  ~ addresses_something (view ind20_witness) (u "nonexistent") /\
  ctor_check (with_ind20 Ind20Unchecked) ind20_witness = None /\
  ctor_check (with_ind20 Ind20Checked) ind20_witness = Some EInvalidSelector.
Proof.
  split; [apply not_addressed_by_compute; vm_compute; reflexivity|]. split; vm_compute; reflexivity.
Qed.

(* the repaired configuration is not refuted by any of the witnesses (sanity: the witnesses are accepted) *)
Lemma witnesses_accepted_when_repaired :
  validate_selector cfg_repaired [(u "is_family", VBool false)] (u "is_family") = true /\
  validate_selector cfg_repaired [(u "labels", VList [VStr (u "a"); VStr (u "a")])] (u "labels.[1]") = true /\
  validate_selector cfg_repaired
    [(u "external_references", VList [VObj [(u "source_name", VStr (u "s")); (u "url", VStr (u "http://x"))]])]
    (u "external_references.[0].url") = true /\
  validate_selector cfg_repaired [(u "x_m", VList [VList [VStr (u "a"); VStr (u "b")]])] (u "x_m.[0].[1]") = true.
Proof. vm_compute. auto. Qed.

(* ---------------------------------------------------------------- *)
(* construction: exactly "addresses and is in the selector grammar"  *)

Lemma negb_forallb_false : forall {A} (f : A -> bool) l, negb (forallb f l) = false <-> forall x, In x l -> f x = true.
Proof. intros A f l. rewrite negb_false_iff. apply forallb_forall. Qed.

Theorem constructor_accepts_iff : forall c o,
  selector_repaired c -> c_ind20 c = Ind20Checked -> o_kind o = KObj ->
  (ctor_check c o = None <->
   (forall m, In m (omr_list o) -> is_marking m = true) /\
   (forall g, In g (gms_list o) ->
      g_sels g <> [] /\ (o_v21 o = true \/ nonempty (g_lang g) = false) /\
      forall s, In s (g_sels g) -> selector_syntax_ok c s = true /\ addresses_something (view o) s)).
Proof.
  intros c o Hrep Hi Hk. unfold ctor_check. rewrite Hk.
  assert (Hs : skips_selector_check c o = false) by (unfold skips_selector_check; rewrite Hi; reflexivity).
  rewrite Hs.
  destruct (negb (forallb is_marking (omr_list o))) eqn:EA.
  { split; [discriminate|]. intros [HA _]. apply (proj2 (negb_forallb_false _ _)) in HA. congruence. }
  pose proof (proj1 (negb_forallb_false _ _) EA) as EA'. clear EA. rename EA' into EA.
  match goal with |- context [negb (forallb ?f (gms_list o))] => set (fB := f) end.
  destruct (negb (forallb fB (gms_list o))) eqn:EB.
  { split; [discriminate|]. intros [_ HB]. exfalso.
    assert (negb (forallb fB (gms_list o)) = false).
    { apply (proj2 (negb_forallb_false _ _)). intros g Hg. destruct (HB g Hg) as [Hne [Hl Hss]]. unfold fB.
      apply andb_true_iff. split; [apply andb_true_iff; split|].
      - apply forallb_forall. intros s Hsin. apply Hss. exact Hsin.
      - destruct Hl as [Hl|Hl]; rewrite Hl; [reflexivity | apply orb_true_r].
      - destruct (g_sels g); [congruence | reflexivity]. }
    congruence. }
  pose proof (proj1 (negb_forallb_false _ _) EB) as EB'. clear EB. rename EB' into EB.
  destruct (negb (forallb (fun g => validate c (view o) (g_sels g)) (gms_list o))) eqn:EC.
  { split; [discriminate|]. intros [_ HB]. exfalso.
    assert (negb (forallb (fun g => validate c (view o) (g_sels g)) (gms_list o)) = false).
    { apply (proj2 (negb_forallb_false _ _)). intros g Hg. destruct (HB g Hg) as [Hne [_ Hss]].
      apply (validate_iff_addresses c Hrep). split; auto. intros s Hsin. apply Hss. exact Hsin. }
    congruence. }
  pose proof (proj1 (negb_forallb_false _ _) EC) as EC'. clear EC. rename EC' into EC.
  split; [intros _|reflexivity]. split; [exact EA|].
  intros g Hg. pose proof (EB g Hg) as HB. unfold fB in HB.
  apply andb_true_iff in HB. destruct HB as [HB1 HB3]. apply andb_true_iff in HB1. destruct HB1 as [HB1 HB2].
  pose proof (EC g Hg) as HC. apply (validate_iff_addresses c Hrep) in HC. destruct HC as [Hne Hadd].
  split; [exact Hne|]. split.
  - apply orb_true_iff in HB2. destruct HB2 as [H|H]; [left; exact H | right; apply negb_true_iff; exact H].
  - intros s Hsin. split; [|apply Hadd; exact Hsin]. rewrite forallb_forall in HB1. apply HB1. exact Hsin.
Qed.

(* the constructor raises InvalidSelectorError only for a selector that addresses nothing *)
Theorem constructor_rejects_only_nonaddressing : forall c o,
  selector_repaired c -> ctor_check c o = Some EInvalidSelector ->
  exists g s, In g (gms_list o) /\ In s (g_sels g) /\ ~ addresses_something (view o) s.
Proof.
  intros c o Hrep H. unfold ctor_check in H. destruct (o_kind o); [discriminate|].
  destruct (negb (forallb is_marking (omr_list o))); [discriminate|].
  match type of H with context [negb (forallb ?f (gms_list o))] => set (fB := f) in H end.
  destruct (negb (forallb fB (gms_list o))) eqn:EB; [discriminate|].
  destruct (skips_selector_check c o); [discriminate|].
  destruct (forallb (fun g => validate c (view o) (g_sels g)) (gms_list o)) eqn:EC; [discriminate|].
  assert (Hex : exists g, In g (gms_list o) /\ validate c (view o) (g_sels g) = false).
  { clear -EC. induction (gms_list o) as [|g l IH]; [discriminate|]. simpl in EC.
    destruct (validate c (view o) (g_sels g)) eqn:E.
    - destruct (IH EC) as [g' [H1 H2]]. exists g'. split; [right|]; assumption.
    - exists g. split; [left; reflexivity | exact E]. }
  destruct Hex as [g [Hg Hv]]. pose proof (proj1 (negb_forallb_false _ _) EB) as EB'. clear EB. rename EB' into EB. pose proof (EB g Hg) as HB. unfold fB in HB.
  apply andb_true_iff in HB. destruct HB as [_ HB3].
  assert (Hne : g_sels g <> []) by (destruct (g_sels g); [discriminate | discriminate]).
  (* some selector of g fails validate_selector *)
  assert (Hs : exists s, In s (g_sels g) /\ validate_selector c (view o) s = false).
  { unfold validate in Hv. destruct (g_sels g) as [|s0 ss] eqn:Es; [congruence|].
    clear -Hv. remember (s0 :: ss) as l. clear Heql. induction l as [|s l IH]; [discriminate|]. simpl in Hv.
    destruct (validate_selector c (view o) s) eqn:E.
    - destruct (IH Hv) as [s' [H1 H2]]. exists s'. split; [right|]; assumption.
    - exists s. split; [left; reflexivity | exact E]. }
  destruct Hs as [s [Hsin Hsf]]. exists g, s. split; auto. split; auto.
  intro Ha. apply (validate_selector_iff_addresses c Hrep) in Ha. congruence.
Qed.

(* ---------------------------------------------------------------- *)
(* mutators on plain dicts accept what validate accepts              *)

Lemma new_version_dict_errors : forall c o a b e,
  o_kind o = KDict -> new_version c o a b = Err e ->
  e = ETypeNotVersionable \/ e = EObjectNotVersionable \/ e = ERevoked.
Proof.
  intros c o a b e Hk H. unfold new_version in H.
  destruct (check_versionable o) as [e0|] eqn:Ev.
  - inversion H. subst e0. unfold check_versionable in Ev.
    destruct (_ && _ && _); [discriminate|]. destruct (negb (o_vtype o)); [inversion Ev; auto|].
    destruct (negb (has_key _ _)); inversion Ev; auto.
  - destruct (is_revoked o); [inversion H; auto|].
    unfold ctor_check in H. simpl in H. rewrite Hk in H. discriminate.
Qed.

Theorem dict_mutators_accept : forall c o m sels r l e,
  o_kind o = KDict -> validate c (view o) sels = true ->
  (g_add_markings c o m sels = Err e \/ g_remove_markings c o m sels = Err e \/ g_clear_markings c o sels r l = Err e) ->
  e <> EInvalidSelector /\ e <> EInvalidValue.
Proof.
  intros c o m sels r l e Hk Hv H.
  assert (Hnv : forall a b, new_version c o a b = Err e -> e <> EInvalidSelector /\ e <> EInvalidValue).
  { intros a b Hn. destruct (new_version_dict_errors c o a b e Hk Hn) as [E|[E|E]]; subst e; split; discriminate. }
  destruct H as [H|[H|H]].
  - unfold g_add_markings in H. rewrite Hv in H. simpl in H. eauto.
  - unfold g_remove_markings in H. rewrite Hv in H. simpl in H.
    destruct (gms_list o); [discriminate|]. destruct (negb (existsb _ _)) in H.
    + inversion H. split; discriminate.
    + match type of H with
      | match compress_markings ?k with _ => _ end = _ => destruct (compress_markings k) as [[|xx ll]|]
      end; eauto.
  - unfold g_clear_markings in H. rewrite Hv in H. simpl in H.
    destruct (gms_list o); [discriminate|]. destruct (negb (existsb _ _)) in H.
    + inversion H. split; discriminate.
    + match type of H with
      | match compress_markings ?k with _ => _ end = _ => destruct (compress_markings k) as [[|xx ll]|]
      end; eauto.
Qed.

(* Proofs/SchemaCovInv.v -- C02 coverage extension: a second invariant of _STIXBase.__init__
   (construct_generic), about the model only: the value stored at a timestamp property is a
   STIXdatetime whose serialized text reads back (Spec/StixValid.v:instant_of_text) as the stored
   instant.  Needed where a co-constraint compares two timestamps: the library compares the stored
   instants, the specification the serialized texts.                                              *)
From Coq Require Import NArith ZArith List String Bool Lia.
From V Require Import Base.UString Base.Json Model.SchemaTypes Model.PyBase Model.Schema
     Spec.StixValid Spec.SchemaRefine Proofs.SchemaBasics Proofs.SchemaObject Proofs.SchemaCovProved
     Proofs.SchemaCovTime.
Import ListNotations.

Local Arguments u : simpl never.

Definition tnice (x : pval) : Prop :=
  match x with PTime us txt => instant_of_text txt = Some us | _ => True end.

(* every timestamp property that is set holds such a value *)
Definition Itime (c : cls) (setting : list (ustring * pval)) : Prop :=
  forall s x, In s (cslots c) -> is_time_kind (skind s) = true -> alookup (sname s) setting = Some x -> tnice x.

Lemma Itime_nil c : Itime c [].
Proof. intros s x _ _ H. discriminate H. Qed.

Lemma Itime_aset_other c key v setting :
  Itime c setting ->
  (forall s, In s (cslots c) -> sname s = key -> is_time_kind (skind s) = false) ->
  Itime c (aset key v setting).
Proof.
  intros HI Hk s x Hs Ht Hx. destruct (ustr_eqb (sname s) key) eqn:E.
  - apply ustr_eqb_eq in E. rewrite (Hk s Hs E) in Ht. discriminate.
  - rewrite alookup_aset_other in Hx by auto. eapply HI; eauto.
Qed.

Section Inv2.
  Variable vr : variant.
  Variable ev : env.
  Variable w : world.
  Variable rc : ustring -> bool -> bool -> list (ustring * jvalue) -> result pval.
  Variable rp : bool -> bool -> list (ustring * jvalue) -> result pval.
  Variable ro : ver -> list (ustring * ustring) -> bool -> list (ustring * jvalue) -> result pval.

  Hypothesis Hpad : vr_year_pad vr = true.

  Variable c : cls.
  Hypothesis Hnames : unodup (map sname (cslots c)) = true.

  Variables kwargs custom_props : list (ustring * jvalue).
  Variable pre : list (ustring * pval).
  Hypothesis Hpre : forall n x, alookup n pre = Some x -> tnice x.

  Lemma assign_raw_other n k setting :
    ustr_eqb k n = false -> alookup k (assign_raw kwargs custom_props pre n setting) = alookup k setting.
  Proof.
    intros Hk. unfold assign_raw. destruct (alookup n pre); [apply alookup_aset_other; auto|].
    destruct (match alookup n kwargs with Some v => Some v | None => alookup n custom_props end) as [v|]; auto.
    destruct v as [| | | | |l|]; auto; try (apply alookup_aset_other; auto).
    destruct l; auto. apply alookup_aset_other; auto.
  Qed.

  Lemma assign_raw_at n setting x :
    alookup n (assign_raw kwargs custom_props pre n setting) = Some x -> tnice x \/ alookup n setting = Some x.
  Proof.
    unfold assign_raw. destruct (alookup n pre) as [pv|] eqn:Ep.
    - rewrite alookup_aset_same. intros E. injection E as <-. left. eapply Hpre; eauto.
    - destruct (match alookup n kwargs with Some v => Some v | None => alookup n custom_props end) as [v|]; auto.
      destruct v as [| | | | |l|]; auto; try (rewrite alookup_aset_same; intros E; injection E as <-; left; exact I).
      destruct l; auto. rewrite alookup_aset_same. intros E. injection E as <-. left. exact I.
  Qed.

  Lemma check_property_time s allow interop vrefs st st2 h :
    check_property vr ev w rc rp ro c s allow interop vrefs st = Ok (st2, h) ->
    (forall k, ustr_eqb k (sname s) = false -> alookup k st2 = alookup k st) /\
    (is_time_kind (skind s) = true -> forall x, alookup (sname s) st2 = Some x -> tnice x \/ alookup (sname s) st = Some x).
  Proof.
    intros H. unfold check_property in H. inv_bind H. destruct a as [st1 isnow]. cbn [fst snd] in Hb.
    set (n := sname s) in *.
    (* the default *)
    assert (D : (st1 = st /\ isnow = false) \/
                (exists v, st1 = aset n v st /\
                           (isnow = true -> tnice v) /\ (isnow = false -> exists j, v = PJ j))).
    { unfold default_value in Ha. fold n in Ha. destruct (alookup n st); [injection Ha as <- <-; auto|].
      destruct (sdef s).
      - injection Ha as <- <-; auto.
      - destruct (skind s); try discriminate. injection Ha as <- <-. right. eexists. split; [reflexivity|].
        split; [discriminate|eauto].
      - destruct (skind s); try discriminate. inv_bind Ha. injection Hab as <- <-. right. eexists. split; [reflexivity|].
        split; [|discriminate]. intros _. rewrite Hpad in Haa. simpl. eapply ts_clean_now_instant; eauto.
      - destruct (skind s); try discriminate. injection Ha as <- <-. right. eexists. split; [reflexivity|].
        split; [discriminate|eauto].
      - injection Ha as <- <-. right. eexists. split; [reflexivity|]. split; [discriminate|eauto]. }
    (* clean of the value present *)
    assert (P : st2 = st1 \/
                (exists j v hc, isnow = false /\ alookup n st1 = Some (PJ j) /\
                                clean_kind vr w rc rp ro (skind s) allow interop j = Ok (v, hc) /\ st2 = aset n v st1)).
    { unfold clean_present in Hb. fold n in Hb. destruct (alookup n st1) as [raw|] eqn:El; [|injection Hb as <- _; auto].
      destruct isnow; [injection Hb as <- _; auto|].
      destruct raw as [j| | | |].
      - destruct (clean_kind vr w rc rp ro (skind s) allow interop j) as [[v hc]| |] eqn:Ec; try discriminate.
        inv_bind Hb. injection Hbb as <- _. right. exists j, v, hc. auto.
      - left. destruct (vr_marking_flag vr); [destruct (negb allow && _); try discriminate|]; injection Hb as <- _; auto.
      - left. destruct (vr_marking_flag vr); [destruct (negb allow && _); try discriminate|]; injection Hb as <- _; auto.
      - left. destruct (vr_marking_flag vr); [destruct (negb allow && _); try discriminate|]; injection Hb as <- _; auto.
      - left. destruct (vr_marking_flag vr); [destruct (negb allow && _); try discriminate|]; injection Hb as <- _; auto. }
    split.
    - intros k Hk.
      assert (E1 : alookup k st1 = alookup k st).
      { destruct D as [[-> _] | [v [-> _]]]; auto. apply alookup_aset_other; auto. }
      destruct P as [-> | (j & v & hc & _ & _ & _ & ->)]; auto. rewrite alookup_aset_other; auto.
    - intros Ht x Hx.
      destruct P as [-> | (j & v & hc & Hn & Hl & Hc & ->)].
      + destruct D as [[-> _] | [v [-> [Hv1 Hv2]]]]; auto.
        rewrite alookup_aset_same in Hx. injection Hx as <-. left.
        destruct isnow; [auto|]. destruct (Hv2 eq_refl) as [j ->]. exact I.
      + rewrite alookup_aset_same in Hx. injection Hx as <-. left.
        destruct (skind s) as [| | | | | | | |p c0| | | | | | | | | | | | | | | |]; try discriminate Ht.
        cbn [clean_kind] in Hc. destruct j; try discriminate. inv_bind Hc. injection Hcb as <- _.
        rewrite Hpad in Hca. simpl. eapply ts_clean_instant; eauto.
  Qed.

  Lemma slot_of_name n s : slot_of c n = Some s -> In s (cslots c) /\ sname s = n.
  Proof.
    unfold slot_of. intros H. apply find_some in H. destruct H as [H1 H2]. apply ustr_eqb_eq in H2. auto.
  Qed.

  Lemma slot_of_none n s : slot_of c n = None -> In s (cslots c) -> ustr_eqb (sname s) n = false.
  Proof. unfold slot_of. intros H Hs. apply (find_none _ _ H s Hs). Qed.

  Lemma assign_loop_time allow interop vrefs : forall l setting hc setting' hc',
    Itime c setting ->
    assign_loop vr ev w rc rp ro c allow interop vrefs kwargs custom_props pre l setting hc = Ok (setting', hc') ->
    Itime c setting'.
  Proof.
    induction l as [|n rest IH]; intros setting hc setting' hc' HI H.
    - simpl in H. injection H as <- _. exact HI.
    - cbn [assign_loop] in H. destruct (slot_of c n) as [s0|] eqn:Es.
      + destruct (slot_of_name _ _ Es) as [Hs0 Hn0]. inv_bind H. destruct a as [st2 h]. cbn [fst snd] in Hb.
        destruct (check_property_time _ _ _ _ _ _ _ Ha) as [Hoth Hat].
        eapply IH; [|exact Hb].
        intros s x Hs Ht Hx. destruct (ustr_eqb (sname s) (sname s0)) eqn:E.
        * apply ustr_eqb_eq in E.
          assert (s = s0).
          { pose proof (find_self_nodup (cslots c) s (unodup_NoDup _ Hnames) Hs) as A.
            pose proof (find_self_nodup (cslots c) s0 (unodup_NoDup _ Hnames) Hs0) as B.
            rewrite E in A. rewrite A in B. injection B as ->. reflexivity. }
          subst s0. destruct (Hat Ht x Hx) as [T | Hx1]; auto.
          rewrite Hn0 in Hx1. destruct (assign_raw_at _ _ _ Hx1) as [T | Hx2]; auto.
          rewrite <- Hn0 in Hx2. eapply HI; eauto.
        * rewrite (Hoth _ E) in Hx. rewrite assign_raw_other in Hx by (rewrite <- Hn0; exact E). eapply HI; eauto.
      + eapply IH; [|exact H].
        intros s x Hs Ht Hx. rewrite assign_raw_other in Hx by (eapply slot_of_none; eauto). eapply HI; eauto.
  Qed.

  (* the whole constructor *)
  Lemma construct_generic_time pok sok fuel allow interop kwargs0 vrefs o :
    kwargs = aremove (u "custom_properties") kwargs0 ->
    custom_props = match alookup (u "custom_properties") kwargs0 with Some (JObj m) => m | _ => [] end ->
    construct_generic vr ev w pok sok rc rp ro fuel c allow interop kwargs0 pre vrefs = Ok o ->
    exists setting dfl hc, o = PObject (cid c) setting dfl hc /\ Itime c setting.
  Proof.
    intros Ek Ec H. unfold construct_generic in H. inv_bind H.
    assert (Ea : a = custom_props).
    { rewrite Ec. destruct (alookup (u "custom_properties") kwargs0) as [[| | | | | |m]|]; try (injection Ha as <-; reflexivity);
        try (destruct (truthy _); discriminate). }
    subst a. rewrite <- Ek in Hb. inv_bind Hb. cbv zeta in Hbb.
    match type of Hbb with
    | context [match ?ck with [] => _ | _ :: _ => _ end] => destruct ck; destruct allow
    end; try discriminate.
    all: match type of Hbb with (if ?b then _ else _) = _ => destruct b; try discriminate end.
    all: inv_bind Hbb; destruct a0 as [setting hc]; cbn [bind] in Hbbb.
    all: pose proof (assign_loop_time _ _ _ _ _ _ _ _ (Itime_nil c) Hbba) as HT.
    all: match type of Hbbb with (if ?b then _ else _) = _ => destruct b; try discriminate end.
    all: inv_bind Hbbb; inv_bind Hbbbb.
    all: repeat match type of Hbbbbb with (if ?b then _ else _) = _ => destruct b; try discriminate end.
    all: injection Hbbbbb as <-; eauto.
  Qed.
End Inv2.

(* Proofs/JcsNumValue.v -- the number texts denote the value they were written for:
   both float.__repr__ (as restated by py_repr) and the ECMAScript text denote
   0.d1...dk * 10^n, hence convert2es6 preserves the denoted number.            *)
From Coq Require Import String NArith ZArith List Bool Lia Decimal DecimalFacts DecimalN.
From V Require Import Base.UString Base.Json Model.JcsText Model.Jcs Spec.Rfc8785 Spec.NumValue Proofs.JcsNumFacts.
Import ListNotations.
Open Scope N_scope.

Definition vals (s : ustring) : list N := map (fun c => c - 48) s.

Lemma cval_vals : forall s, cval s = dval (vals s).
Proof. reflexivity. Qed.

Lemma vals_app : forall a b, vals (a ++ b) = vals a ++ vals b.
Proof. intros. unfold vals. apply map_app. Qed.

Lemma vals_dchars : forall ds, vals (dchars ds) = ds.
Proof.
  induction ds as [|d ds IH]; [reflexivity|]. unfold vals, dchars in *. simpl. rewrite IH. f_equal. unfold dchar. lia.
Qed.

Lemma vals_zeros : forall m, vals (repeat c_0 m) = repeat 0 m.
Proof. induction m; [reflexivity|]. simpl. f_equal. exact IHm. Qed.

Lemma fold_dval : forall ds a, fold_left (fun a d => 10 * a + d) ds a = a * 10 ^ N.of_nat (length ds) + dval ds.
Proof.
  induction ds as [|d ds IH]; intro a.
  - simpl. unfold dval. simpl. lia.
  - unfold dval. cbn [fold_left length]. rewrite (IH (10 * a + d)), (IH (10 * 0 + d)).
    rewrite Nat2N.inj_succ, N.pow_succ_r'. lia.
Qed.

Lemma dval_app : forall a b, dval (a ++ b) = dval a * 10 ^ N.of_nat (length b) + dval b.
Proof. intros a b. unfold dval at 1. rewrite fold_left_app. fold (dval a). apply fold_dval. Qed.

Lemma dval_zeros : forall m, dval (repeat 0 m) = 0.
Proof.
  induction m; [reflexivity|]. change (repeat 0 (S m)) with ([0] ++ repeat 0 m). rewrite dval_app, IHm. reflexivity.
Qed.

Lemma dval_lead_zeros : forall m ds, dval (repeat 0 m ++ ds) = dval ds.
Proof. intros. rewrite dval_app, dval_zeros. lia. Qed.

Lemma dval_trail_zeros : forall m ds, dval (ds ++ repeat 0 m) = dval ds * 10 ^ N.of_nat m.
Proof. intros. rewrite dval_app, dval_zeros, repeat_length. lia. Qed.

(* ---- scanning digits ------------------------------------------------------------------- *)
Lemma isdig_b_true : forall c, isdig c -> isdig_b c = true.
Proof. intros c [H1 H2]. unfold isdig_b. apply N.leb_le in H1. apply N.leb_le in H2. rewrite H1, H2. reflexivity. Qed.

Definition nondigit_start (rest : ustring) : Prop :=
  match rest with [] => True | c :: _ => isdig_b c = false end.

Lemma span_dig_app : forall p rest, Forall isdig p -> nondigit_start rest -> span_dig (p ++ rest) = (p, rest).
Proof.
  induction 1 as [|c p Hc Hp IH]; intro Hr.
  - simpl. destruct rest as [|c r]; [reflexivity|]. simpl in *. rewrite Hr. reflexivity.
  - simpl. rewrite (isdig_b_true c Hc). rewrite (IH Hr). reflexivity.
Qed.

(* ---- the shape  [-] I [. F] [e X] --------------------------------------------------------- *)
Definition frac_text (F : option ustring) : ustring := match F with None => [] | Some f => c_dot :: f end.
Definition frac_digs (F : option ustring) : ustring := match F with None => [] | Some f => f end.
Definition exp_part (X : option (ustring * Z)) : ustring := match X with None => [] | Some (r, _) => c_e :: r end.
Definition exp_val (X : option (ustring * Z)) : Z := match X with None => 0%Z | Some (_, x) => x end.

Lemma read_shape : forall neg IP F X,
  IP <> [] -> Forall isdig IP -> Forall isdig (frac_digs F) ->
  (forall r x, X = Some (r, x) -> py_int r = Some x) ->
  read_number (sign_text neg ++ IP ++ frac_text F ++ exp_part X) =
  Some (neg, cval (IP ++ frac_digs F), (exp_val X - Z.of_nat (length (frac_digs F)))%Z).
Proof.
  intros neg IP F X HI DI DF HX.
  assert (E1 : forall rest, (match sign_text neg ++ IP ++ rest with
                             | c :: r => if c =? 45 then (true, r) else (false, sign_text neg ++ IP ++ rest)
                             | [] => (false, sign_text neg ++ IP ++ rest) end) = (neg, IP ++ rest)).
  { intro rest. destruct neg; simpl; [reflexivity|].
    destruct IP as [|c IP']; [contradiction|]. simpl. inversion DI; subst.
    assert (c =? 45 = false) as -> by (apply N.eqb_neq; unfold isdig in *; lia). reflexivity. }
  unfold read_number. rewrite E1.
  assert (ND : nondigit_start (frac_text F ++ exp_part X)).
  { destruct F; simpl; [reflexivity|]. destruct X as [[r x]|]; simpl; [reflexivity|exact Logic.I]. }
  rewrite (span_dig_app IP _ DI ND).
  destruct IP as [|c0 IP0]; [contradiction|].
  cbv beta iota.
  match goal with |- match ?mm with _ => _ end = _ => assert (E2 : mm = (frac_digs F, exp_part X)) end.
  { destruct F as [f|]; simpl.
    - apply span_dig_app; [exact DF|]. destruct X as [[r x]|]; simpl; [reflexivity|exact Logic.I].
    - destruct X as [[r x]|]; simpl; reflexivity. }
  rewrite E2.
  destruct X as [[r x]|]; simpl.
  - rewrite (HX r x eq_refl). reflexivity.
  - reflexivity.
Qed.

(* ---- exponents ------------------------------------------------------------------------------ *)
Lemma dec_parse_padded : forall a, dec_parse (c_0 :: dec_show a) = Some a.
Proof.
  intro a. unfold dec_parse, dec_show, c_0. cbn [uint_of_digits]. rewrite uint_of_digits_of_uint.
  simpl. rewrite DecimalN.Unsigned.of_to. reflexivity.
Qed.

Lemma py_int_exp_text_py : forall e, py_int (skipn 1 (exp_text_py e)) = Some e.
Proof.
  intro e. unfold exp_text_py. simpl skipn.
  assert (P : forall a, dec_parse (if a <? 10 then c_0 :: dec_show a else dec_show a) = Some a).
  { intro a. destruct (a <? 10); [apply dec_parse_padded|apply dec_parse_show]. }
  destruct (e <? 0)%Z eqn:E.
  - unfold c_minus. cbn [py_int]. cbv zeta. rewrite P. simpl. f_equal. rewrite N2Z.inj_abs_N. apply Z.ltb_lt in E. lia.
  - unfold c_plus. cbn [py_int]. cbv zeta. rewrite P. simpl. f_equal. rewrite N2Z.inj_abs_N. apply Z.ltb_ge in E. lia.
Qed.

(* ---- the two writers -------------------------------------------------------------------------- *)
Lemma denotes_intro : forall t neg ds n (z : nat) M E,
  read_number t = Some (neg, M, E) -> M = dval ds * 10 ^ N.of_nat z ->
  E = (n - Z.of_nat (length ds) - Z.of_nat z)%Z -> denotes t neg ds n.
Proof. intros. subst. exists z. assumption. Qed.

Lemma dchars_nonnil : forall ds, ds <> [] -> dchars ds <> [].
Proof. intros [|d ds] H; [contradiction|discriminate]. Qed.

Lemma es6_denotes_proof : forall neg ds n, wf_digits ds -> denotes (es6_tostring neg ds n) neg ds n.
Proof.
  intros neg ds n [Hlen [Hdig [Hhd Hlast]]].
  assert (Hne : ds <> []) by (destruct ds; [simpl in Hlen; lia|discriminate]).
  pose proof (dchars_isdig ds Hdig) as HD.
  unfold es6_tostring. fold (sign_text neg). set (k := Z.of_nat (length ds)).
  destruct ((k <=? n)%Z && (n <=? 21)%Z) eqn:C1.
  - (* digits then zeros *)
    apply andb_true_iff in C1. destruct C1 as [C1 _]. apply Z.leb_le in C1.
    pose proof (read_shape neg (dchars ds ++ repeat c_0 (Z.to_nat (n - k))) None None) as R.
    simpl in R. rewrite !List.app_nil_r in R.
    eapply (denotes_intro _ _ _ _ (Z.to_nat (n - k))); [apply R| |].
    + intro E. apply app_eq_nil in E. destruct E as [E _]. exact (dchars_nonnil ds Hne E).
    + apply Forall_app. split; [exact HD|apply repeat0_isdig].
    + constructor.
    + intros r x E. discriminate.
    + rewrite cval_vals, vals_app, vals_dchars, vals_zeros. apply dval_trail_zeros.
    + fold k. lia.
  - destruct ((0 <? n)%Z && (n <=? 21)%Z) eqn:C2.
    + (* point inside the digits *)
      apply andb_true_iff in C2. destruct C2 as [C2 C2']. apply Z.ltb_lt in C2. apply Z.leb_le in C2'.
      assert (Hnk : (n < k)%Z).
      { apply andb_false_iff in C1. destruct C1 as [C1|C1]; [apply Z.leb_gt in C1; exact C1|].
        apply Z.leb_gt in C1. lia. }
      pose proof (read_shape neg (dchars (firstn (Z.to_nat n) ds)) (Some (dchars (skipn (Z.to_nat n) ds))) None) as R.
      simpl in R. rewrite !List.app_nil_r in R.
      eapply (denotes_intro _ _ _ _ O); [apply R| |].
      * apply dchars_nonnil. intro E. apply (f_equal (@length N)) in E. rewrite firstn_length in E. simpl in E. unfold k in *. lia.
      * apply dchars_isdig, Forall_firstn'. exact Hdig.
      * apply dchars_isdig, Forall_skipn'. exact Hdig.
      * intros r x E. discriminate.
      * rewrite cval_vals, vals_app, !vals_dchars, firstn_skipn. simpl. lia.
      * unfold dchars. rewrite map_length, skipn_length. fold k. unfold k in *. lia.
    + destruct ((-6 <? n)%Z && (n <=? 0)%Z) eqn:C3.
      * (* 0.000ddd *)
        apply andb_true_iff in C3. destruct C3 as [_ C3]. apply Z.leb_le in C3.
        pose proof (read_shape neg [c_0] (Some (repeat c_0 (Z.to_nat (- n)) ++ dchars ds)) None) as R.
        simpl in R. rewrite !List.app_nil_r in R.
        eapply (denotes_intro _ _ _ _ O); [apply R| |].
        -- discriminate.
        -- repeat constructor; unfold c_0; lia.
        -- apply Forall_app. split; [apply repeat0_isdig|exact HD].
        -- intros r x E. discriminate.
        -- rewrite cval_vals. change (vals (c_0 :: repeat c_0 (Z.to_nat (- n)) ++ dchars ds))
             with (vals (repeat c_0 (S (Z.to_nat (- n))) ++ dchars ds)).
           rewrite vals_app, vals_zeros, vals_dchars, dval_lead_zeros. simpl. lia.
        -- rewrite app_length, repeat_length. unfold dchars. rewrite map_length. fold k. lia.
      * (* exponent notation *)
        destruct ds as [|d rest]; [contradiction|].
        assert (HX : forall r x, Some (skipn 1 (es6_exp (n - 1)), (n - 1)%Z) = Some (r, x) -> py_int r = Some x).
        { intros r x E. inversion E; subst. apply py_int_es6_exp. }
        inversion HD as [|? ? Hd Hr]; subst.
        destruct rest as [|d2 rest].
        -- pose proof (read_shape neg [dchar d] None (Some (skipn 1 (es6_exp (n - 1)), (n - 1)%Z))) as R.
           simpl in R. eapply (denotes_intro _ _ _ _ O).
           ++ apply R; [discriminate|constructor; [exact Hd|constructor]|constructor|exact HX].
           ++ rewrite cval_vals. change [dchar d] with (dchars [d]). rewrite vals_dchars. simpl. lia.
           ++ simpl. lia.
        -- pose proof (read_shape neg [dchar d] (Some (dchars (d2 :: rest))) (Some (skipn 1 (es6_exp (n - 1)), (n - 1)%Z))) as R.
           simpl in R.
           eapply (denotes_intro _ _ _ _ O).
           ++ apply R; [discriminate|constructor; [exact Hd|constructor]|exact Hr|exact HX].
           ++ rewrite cval_vals. change (dchar d :: dchar d2 :: dchars rest) with (dchars (d :: d2 :: rest)).
              rewrite vals_dchars. simpl. lia.
           ++ unfold dchars. simpl length. rewrite map_length. simpl length. lia.
Qed.

Lemma repr_denotes_proof : forall neg ds n, ds <> [] -> Forall (fun d => d < 10) ds -> denotes (py_repr neg ds n) neg ds n.
Proof.
  intros neg ds n Hne Hdig.
  pose proof (dchars_isdig ds Hdig) as HD.
  unfold py_repr. set (k := Z.of_nat (length ds)).
  destruct ((-4 <? n)%Z && (n <=? 16)%Z) eqn:C0.
  - destruct (n <=? 0)%Z eqn:C1.
    + apply Z.leb_le in C1.
      pose proof (read_shape neg [c_0] (Some (repeat c_0 (Z.to_nat (- n)) ++ dchars ds)) None) as R.
      simpl in R. rewrite ?List.app_nil_r in R.
      eapply (denotes_intro _ _ _ _ O).
      * apply R; [discriminate|repeat constructor; unfold c_0; lia| |intros r x E; discriminate].
        apply Forall_app. split; [apply repeat0_isdig|exact HD].
      * rewrite cval_vals. change (vals (c_0 :: repeat c_0 (Z.to_nat (- n)) ++ dchars ds))
          with (vals (repeat c_0 (S (Z.to_nat (- n))) ++ dchars ds)).
        rewrite vals_app, vals_zeros, vals_dchars, dval_lead_zeros. simpl. lia.
      * rewrite app_length, repeat_length. unfold dchars. rewrite map_length. fold k. lia.
    + apply Z.leb_gt in C1. destruct (n <? k)%Z eqn:C2.
      * apply Z.ltb_lt in C2.
        pose proof (read_shape neg (dchars (firstn (Z.to_nat n) ds)) (Some (dchars (skipn (Z.to_nat n) ds))) None) as R.
        simpl in R. rewrite ?List.app_nil_r in R.
        eapply (denotes_intro _ _ _ _ O).
        -- apply R; [| | |intros r x E; discriminate].
           ++ apply dchars_nonnil. intro E. apply (f_equal (@length N)) in E. rewrite firstn_length in E. simpl in E. unfold k in *. lia.
           ++ apply dchars_isdig, Forall_firstn'. exact Hdig.
           ++ apply dchars_isdig, Forall_skipn'. exact Hdig.
        -- rewrite cval_vals, vals_app, !vals_dchars, firstn_skipn. simpl. lia.
        -- unfold dchars. rewrite map_length, skipn_length. fold k. unfold k in *. lia.
      * apply Z.ltb_ge in C2.
        pose proof (read_shape neg (dchars ds ++ repeat c_0 (Z.to_nat (n - k))) (Some [c_0]) None) as R.
        simpl in R. rewrite ?List.app_nil_r in R.
        eapply (denotes_intro _ _ _ _ (S (Z.to_nat (n - k)))).
        -- rewrite (List.app_assoc (dchars ds)). apply R; [| | |intros r x E; discriminate].
           ++ intro E. apply app_eq_nil in E. destruct E as [E _]. exact (dchars_nonnil ds Hne E).
           ++ apply Forall_app. split; [exact HD|apply repeat0_isdig].
           ++ repeat constructor; unfold c_0; lia.
        -- rewrite cval_vals. rewrite <- List.app_assoc.
           change (repeat c_0 (Z.to_nat (n - k)) ++ [c_0]) with (repeat c_0 (Z.to_nat (n - k)) ++ repeat c_0 1).
           rewrite <- repeat_app. rewrite vals_app, vals_dchars, vals_zeros, dval_trail_zeros.
           f_equal. f_equal. lia.
        -- simpl length. fold k. lia.
  - (* exponent notation *)
    destruct ds as [|d rest]; [contradiction|].
    assert (HX : forall r x, Some (skipn 1 (exp_text_py (n - 1)), (n - 1)%Z) = Some (r, x) -> py_int r = Some x).
    { intros r x E. inversion E; subst. apply py_int_exp_text_py. }
    inversion HD as [|? ? Hd Hr]; subst.
    destruct rest as [|d2 rest].
    + pose proof (read_shape neg [dchar d] None (Some (skipn 1 (exp_text_py (n - 1)), (n - 1)%Z))
                    ltac:(discriminate) ltac:(constructor; [exact Hd|constructor]) ltac:(constructor) HX) as R.
      exists O. etransitivity; [exact R|]. apply f_equal. apply f_equal2; [apply f_equal|].
      * simpl frac_digs. rewrite List.app_nil_r, cval_vals. change [dchar d] with (dchars [d]). rewrite vals_dchars. simpl. lia.
      * simpl. lia.
    + pose proof (read_shape neg [dchar d] (Some (dchars (d2 :: rest))) (Some (skipn 1 (exp_text_py (n - 1)), (n - 1)%Z))
                    ltac:(discriminate) ltac:(constructor; [exact Hd|constructor]) Hr HX) as R.
      exists O. etransitivity; [exact R|]. apply f_equal. apply f_equal2; [apply f_equal|].
      * simpl frac_digs. rewrite cval_vals. change ([dchar d] ++ dchar d2 :: dchars rest) with (dchars (d :: d2 :: rest)).
        rewrite vals_dchars. simpl. lia.
      * simpl frac_digs. simpl exp_val. unfold dchars. simpl length. rewrite map_length. lia.
Qed.

(* convert2es6 preserves the denoted number *)
Lemma num_value_preserved_proof : forall neg ds n, wf_digits ds ->
  exists t, convert2es6 (py_repr neg ds n) = JOk t /\ denotes (py_repr neg ds n) neg ds n /\ denotes t neg ds n.
Proof.
  intros neg ds n W. exists (es6_tostring neg ds n).
  split; [apply num_es6_proof; exact W|]. pose proof W as W'.
  destruct W as [Hlen [Hdig [Hhd Hlast]]].
  assert (Hne : ds <> []) by (destruct ds; [simpl in Hlen; lia|discriminate]).
  split; [apply repr_denotes_proof; assumption|apply es6_denotes_proof; exact W'].
Qed.

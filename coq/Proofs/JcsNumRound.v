(* Proofs/JcsNumRound.v -- numbers through the whole path: the canonical text of a
   double is read back by the independent reader as a number literal that denotes
   the same decimal 0.d1...dk * 10^n.                                            *)
From Coq Require Import String NArith ZArith List Bool Lia.
From V Require Import Base.UString Base.Json Model.JcsText Model.Jcs Spec.Rfc8785 Spec.JcsSpec Spec.JsonParse Spec.NumValue
  Proofs.JcsNumFacts Proofs.JcsWsFacts Proofs.JcsParseFacts Proofs.JcsNumValue.
Import ListNotations.
Open Scope N_scope.

Lemma num_roundtrip_proof : forall neg ds n, wf_digits ds ->
  exists t, canon (JFloat (py_repr neg ds n)) = JOk t /\ parse_json t = Some (JFloat t) /\
            denotes (py_repr neg ds n) neg ds n /\ denotes t neg ds n.
Proof.
  intros neg ds n W. destruct (num_value_preserved_proof neg ds n W) as [t [C [D1 D2]]].
  exists t. split; [exact C|]. split; [|split; assumption].
  assert (Wf : nums_wf (JFloat (py_repr neg ds n))).
  { constructor. split; [apply py_repr_nonempty|].
    eapply Forall_impl; [|apply py_repr_rc; exact (proj1 (proj2 W))]. apply repr_char_numc. }
  pose proof (canon_parse_proof (JFloat (py_repr neg ds n)) t C Wf) as P.
  unfold json_of in P. simpl in P. rewrite C in P. exact P.
Qed.

(* Proofs/C01Observed.v -- ObservedData in its STIX 2.1 form (object_refs; no `objects` member): the deprecated
   `objects` property (ObservableProperty, a dictionary of parsed observables) is never cleaned when it is not
   given, so the constructor run is the run of the same class with that slot given a harmless kind, to which
   the theory of Proofs/C01Object.v applies.  (ObservedData WITH an `objects` dictionary -- the 2.0 form, and the
   deprecated 2.1 form -- stays outside the round-trip theorems.)                                           *)
From Coq Require Import NArith ZArith List String Bool Lia.
From V Require Import Base.UString Base.Json Model.SchemaTypes Model.PyBase Model.Schema.
From V Require Import Proofs.C01Basics Proofs.C01Kinds Proofs.C01Float Proofs.C01KindsAll Proofs.C01Sort Proofs.C01Object
  Proofs.C01Marking Proofs.C01Roundtrip.
Import ListNotations.

(* ------------------------------------------------------------------ a class with some slot kinds replaced *)
Section Rekind.
  Variable g : slot -> slot.
  Hypothesis g_name : forall s, sname (g s) = sname s.
  Hypothesis g_req : forall s, sreq (g s) = sreq s.
  Hypothesis g_def : forall s, sdef (g s) = sdef s.

  Definition rk_cls (c : cls) : cls :=
    {| cid := cid c; cver := cver c; ctype := ctype c; cfamily := cfamily c; cslots := map g (cslots c);
       ccons := ccons c; cinit := cinit c; cidcontrib := cidcontrib c; cserialize_tlp := cserialize_tlp c |}.

  Lemma rk_PN : forall c, PN (rk_cls c) = PN c.
  Proof. intros c. unfold PN, rk_cls. cbn [cslots]. rewrite map_map. apply map_ext. exact g_name. Qed.

  Lemma rk_slot_of : forall c n, slot_of (rk_cls c) n = option_map g (slot_of c n).
  Proof.
    intros c n. unfold slot_of, rk_cls. cbn [cslots]. induction (cslots c) as [| s r IH]; cbn [map find option_map]; [reflexivity |].
    rewrite g_name. destruct (ustr_eqb (sname s) n); [reflexivity | exact IH].
  Qed.

  Lemma rk_defaulted : forall c S, defaulted_names (rk_cls c) S = defaulted_names c S.
  Proof.
    intros c S. unfold defaulted_names, rk_cls. cbn [cslots].
    induction (cslots c) as [| s r IH]; cbn [map filter]; [reflexivity |].
    rewrite g_req, g_def, g_name.
    match goal with |- context [if ?b then _ else _] => destruct b end; cbn [map]; [rewrite g_name, IH | rewrite IH]; reflexivity.
  Qed.

  Lemma rk_required : forall c (S : list (ustring * pval)),
    existsb (fun s => sreq s && negb (amem (sname s) S)) (cslots (rk_cls c)) =
    existsb (fun s => sreq s && negb (amem (sname s) S)) (cslots c).
  Proof.
    intros c S. unfold rk_cls. cbn [cslots]. induction (cslots c) as [| s r IH]; cbn [map existsb]; [reflexivity |].
    rewrite g_req, g_name, IH. reflexivity.
  Qed.

  Lemma rk_default_checked : forall c, default_checked (rk_cls c) = default_checked c.
  Proof.
    intros c. unfold default_checked. cbn [cfamily rk_cls cslots]. rewrite map_map.
    f_equal. apply map_ext. exact g_name.
  Qed.

  Lemma rk_eval_constr : forall vr po c fuel inner k,
    eval_constr vr po fuel (rk_cls c) inner k = eval_constr vr po fuel c inner k.
  Proof.
    intros vr po c. induction fuel as [| f IH]; intros inner k; [reflexivity |].
    cbn [eval_constr]. destruct k; try reflexivity; try (rewrite rk_default_checked; reflexivity).
    match goal with |- context [eval_ccond ?q ?i] => destruct (eval_ccond q i) as [[] | |] end; cbn [bind]; try reflexivity.
    apply constr_all_ext. intros x. apply IH.
  Qed.

  Lemma rk_cg_tail : forall vr po so c a fuel AC r,
    cg_tail vr po so (rk_cls c) a fuel AC r = cg_tail vr po so c a fuel AC r.
  Proof.
    intros vr po so c a fuel AC [S hc0]. unfold cg_tail. rewrite rk_required, rk_defaulted. cbn [ccons cfamily cid rk_cls].
    rewrite (constr_all_ext _ _ _ (rk_eval_constr vr po c fuel S)). reflexivity.
  Qed.

  Lemma written_rk : forall c S, written (rk_cls c) S = written c S.
  Proof. intros c S. unfold written. rewrite rk_defaulted. reflexivity. Qed.

  (* the check of one (unchanged) slot does not look at the other slots of the class *)
  Lemma rk_check_property : forall vr ev w rc rp ro c sl a i v s,
    check_property vr ev w rc rp ro (rk_cls c) sl a i v s = check_property vr ev w rc rp ro c sl a i v s.
  Proof. intros. reflexivity. Qed.
End Rekind.

(* ------------------------------------------------------------------ `objects` not given *)
Definition OBJ : ustring := u "objects".

Definition okind (s : slot) : slot :=
  if ustr_eqb (sname s) OBJ then {| sname := sname s; skind := KAny; sreq := sreq s; sdef := sdef s |} else s.

Lemma okind_name : forall s, sname (okind s) = sname s.
Proof. intros s. unfold okind. destruct (ustr_eqb (sname s) OBJ); reflexivity. Qed.
Lemma okind_req : forall s, sreq (okind s) = sreq s.
Proof. intros s. unfold okind. destruct (ustr_eqb (sname s) OBJ); reflexivity. Qed.
Lemma okind_def : forall s, sdef (okind s) = sdef s.
Proof. intros s. unfold okind. destruct (ustr_eqb (sname s) OBJ); reflexivity. Qed.

Notation ocls := (rk_cls okind).

Section ObservedCG.
  Variable vr : variant.
  Variable ev : env.
  Variable w : world.
  Variable pattern_ok : ver -> ustring -> bool.
  Variable selectors_ok : list (ustring * pval) -> pval -> result bool.
  Variable rc : ustring -> bool -> bool -> list (ustring * jvalue) -> result pval.
  Variable rp : bool -> bool -> list (ustring * jvalue) -> result pval.
  Variable ro : ver -> list (ustring * ustring) -> bool -> list (ustring * jvalue) -> result pval.
  Variable c : cls.
  Variable a interop : bool.
  Variable vrefs : option (list (ustring * ustring)).
  Variable sO : slot.
  Hypothesis Hnodup : NoDup (map sname (cslots c)).
  Hypothesis HsO : slot_of c OBJ = Some sO.
  Hypothesis HdO : sdef sO = DNone.

  Notation STEPL := (step vr ev w rc rp ro c a interop vrefs).
  Notation STEPR := (step vr ev w rc rp ro (ocls c) a interop vrefs).
  Notation LOOPL := (assign_loop vr ev w rc rp ro c a interop vrefs).
  Notation LOOPR := (assign_loop vr ev w rc rp ro (ocls c) a interop vrefs).

  Lemma ostep_eq : forall K n s hc, alookup OBJ K = None -> amem n s = false -> STEPR K n s hc = STEPL K n s hc.
  Proof.
    intros K n s hc HK Hf. unfold step. rewrite (rk_slot_of okind okind_name).
    destruct (slot_of c n) as [sl |] eqn:Esl; cbn [option_map]; [| reflexivity].
    destruct (slot_of_In c n sl Esl) as [Hin En].
    destruct (ustr_eqb n OBJ) eqn:Eo.
    - (* the observable container: not given, no default, nothing to clean *)
      apply ustr_eqb_eq in Eo. subst n. rewrite Eo in *. rewrite HsO in Esl. inversion Esl; subst sl.
      rewrite assign_raw_spec. rewrite HK. apply amem_alookup_none in Hf.
      unfold check_property, default_value. rewrite okind_name, okind_def, Eo, Hf, HdO. cbn [bind fst snd].
      unfold clean_present. rewrite okind_name, Eo, Hf. reflexivity.
    - assert (Hk : okind sl = sl) by (unfold okind; rewrite En, Eo; reflexivity).
      rewrite Hk. reflexivity.
  Qed.

  Lemma oloop_eq : forall K l s hc, alookup OBJ K = None -> NoDup l -> (forall n, In n l -> amem n s = false) ->
    LOOPR K [] [] l s hc = LOOPL K [] [] l s hc.
  Proof.
    intros K. induction l as [| n rest IH]; intros s hc HK ND Hf; [reflexivity |].
    rewrite !loop_cons. rewrite ostep_eq by (auto; apply Hf; left; reflexivity).
    destruct (STEPL K n s hc) as [[s1 h1] | |] eqn:Es; cbn [bind fst snd]; try reflexivity.
    inversion ND; subst. apply IH; auto.
    intros m Hm. unfold amem. rewrite (sos_frame _ _ _ m (step_shape vr ev w rc rp ro c a interop vrefs _ _ _ _ _ _ Es)).
    - apply Hf. right. exact Hm.
    - intros E2. subst. contradiction.
  Qed.

  (* the generic constructor of the two classes on arguments without `objects` *)
  Theorem ocg_eq : forall fuel kw,
    alookup cp_key kw = None -> alookup ext_key kw = None -> alookup OBJ kw = None ->
    construct_generic vr ev w pattern_ok selectors_ok rc rp ro fuel (ocls c) a interop kw [] vrefs =
    construct_generic vr ev w pattern_ok selectors_ok rc rp ro fuel c a interop kw [] vrefs.
  Proof.
    intros fuel kw Hcp Hext HK.
    rewrite (cg_plain vr ev w pattern_ok selectors_ok rc rp ro (ocls c) a interop vrefs fuel kw Hcp Hext).
    rewrite (cg_plain vr ev w pattern_ok selectors_ok rc rp ro c a interop vrefs fuel kw Hcp Hext).
    cbv zeta. unfold notPN. rewrite (rk_PN okind okind_name). fold (notPN c).
    set (E := filter (notPN c) (akeys kw)).
    set (AC := udedup (filter (notPN c) (E ++ []))).
    cbn [cver rk_cls].
    assert (HX : (if (match cver c with V21 => negb (forallb re_prefix21 AC) | V20 => false end) then Err EInvalidValue else
                  do r <- LOOPR kw [] [] (PN c ++ ([] ++ usort AC)) [] (flag0 vr AC);
                  cg_tail vr pattern_ok selectors_ok (ocls c) a fuel AC r) =
                 (if (match cver c with V21 => negb (forallb re_prefix21 AC) | V20 => false end) then Err EInvalidValue else
                  do r <- LOOPL kw [] [] (PN c ++ ([] ++ usort AC)) [] (flag0 vr AC);
                  cg_tail vr pattern_ok selectors_ok c a fuel AC r)).
    { destruct (match cver c with V21 => negb (forallb re_prefix21 AC) | V20 => false end); [reflexivity |].
      rewrite oloop_eq.
      + unfold bind. destruct (LOOPL kw [] [] (PN c ++ [] ++ usort AC) [] (flag0 vr AC)); try reflexivity.
        rewrite (rk_cg_tail okind okind_name okind_req okind_def). reflexivity.
      + exact HK.
      + cbn [app]. apply NoDup_app_disj; [exact Hnodup | apply NoDup_usort; apply NoDup_udedup |].
        intros x Hx Hx2. apply (proj1 (In_usort _ _)) in Hx2. unfold AC in Hx2. apply (proj1 (In_udedup _ _)) in Hx2.
        apply filter_In in Hx2. destruct Hx2 as [_ Hn]. unfold notPN in Hn. apply negb_true_iff in Hn.
        apply (proj2 (mem_ustr_In x (PN c))) in Hx. congruence.
      + intros; reflexivity. }
    rewrite HX. reflexivity.
  Qed.
End ObservedCG.

(* ------------------------------------------------------------------ the constructor *)
Section ObservedRun.
  Variable vr : variant.
  Variable ev : env.
  Variable w : world.
  Variable pattern_ok : ver -> ustring -> bool.
  Variable selectors_ok : list (ustring * pval) -> pval -> result bool.
  Hypothesis Hpad : vr_year_pad vr = true.
  Variable ids : list ustring.
  Hypothesis Hclosed : closed_okw vr w ids = true.

  Notation RUN := (run vr ev w pattern_ok selectors_ok).

  Definition observed_ok (c : cls) : bool :=
    init_ok vr (cinit c) &&
    match cfamily c with FSco => false | _ => true end &&
    nodupb (map sname (cslots c)) &&
    forallb (slot_ok vr (nestable w ids)) (cslots (ocls c)) &&
    match slot_of c OBJ with Some sO => is_dnone sO && negb (sreq sO) | None => false end.

  Theorem observed_roundtrip : forall fuel kid allow interop kw vrefs o c,
    find_class (wclasses w) kid = Some c -> observed_ok c = true ->
    plain_dict kw = true -> alookup OBJ kw = None ->
    RUN fuel (RConstruct kid allow interop kw vrefs) = Ok o ->
    RUN fuel (RConstruct kid allow interop (omem o) vrefs) = Ok o.
  Proof.
    intros fuel kid allow interop kw vrefs o c Ef Hok Hp HK H.
    destruct fuel as [| f]; [cbn [run] in H; discriminate |].
    unfold observed_ok in Hok.
    apply andb_true_iff in Hok. destruct Hok as [Hok HsO]. apply andb_true_iff in Hok. destruct Hok as [Hok Hslw].
    apply andb_true_iff in Hok. destruct Hok as [Hok Hnd]. apply andb_true_iff in Hok. destruct Hok as [Hinit Hfam].
    apply nodupb_NoDup in Hnd.
    destruct (slot_of c OBJ) as [sO |] eqn:EsO; try discriminate.
    apply andb_true_iff in HsO. destruct HsO as [HsO _].
    assert (HdO : sdef sO = DNone) by (unfold is_dnone in HsO; destruct (sdef sO); try discriminate; reflexivity).
    assert (Hiw : init_okw vr w ids c = true) by (unfold init_okw; rewrite Hinit; reflexivity).
    rewrite (run_unfold vr ev w pattern_ok selectors_ok ids f kid allow interop kw vrefs c Ef Hiw) in H.
    rewrite (run_unfold vr ev w pattern_ok selectors_ok ids f kid allow interop _ vrefs c Ef Hiw).
    destruct (amem (u "_valid_refs") kw || amem (u "allow_custom") kw || amem (u "interoperability") kw || amem (u "self") kw) eqn:Eres;
      try discriminate.
    destruct (reserved_split kw Eres) as [R1 [R2 [R3 R4]]].
    set (vrf := match cfamily c with FSco => Some match vrefs with Some r => r | None => [] end | _ => None end) in *.
    assert (Hie : forall kw', init_expr vr ev w pattern_ok selectors_ok f c allow interop kw' vrf =
                              GEN vr ev w pattern_ok selectors_ok f c allow interop kw' [] vrf \/
                              exists names, cinit c = IPositional names /\ vr_positional_none vr = true /\
                                init_expr vr ev w pattern_ok selectors_ok f c allow interop kw' vrf =
                                GEN vr ev w pattern_ok selectors_ok f c allow interop (pos_filter vr names kw') [] vrf).
    { intros kw'. unfold init_expr. destruct (cinit c) as [| names | | | vv | |]; cbn [init_ok] in Hinit; try discriminate; auto.
      right. exists names. auto. }
    assert (Hg : forall kw', plain_dict kw' = true ->
                   init_expr vr ev w pattern_ok selectors_ok f c allow interop kw' vrf =
                   GEN vr ev w pattern_ok selectors_ok f c allow interop kw' [] vrf).
    { intros kw' Hp'. destruct (Hie kw') as [E | [names [_ [Hv E]]]]; [exact E |].
      rewrite E. rewrite (pos_filter_id vr names kw' Hv (plain_members_nonnull kw' Hp')). reflexivity. }
    rewrite (Hg kw Hp) in H. unfold GEN in *. unfold bind in H.
    match type of H with match ?g with _ => _ end = _ => destruct g as [obj | |] eqn:Eg; try discriminate end.
    assert (Eo : o = obj).
    { unfold post in H. destruct obj; try (inversion H; reflexivity). destruct (cfamily c); try discriminate; inversion H; reflexivity. }
    subst obj.
    destruct (plain_dict_no_key kw Hp) as [Hcp Hext]. apply amem_alookup_none in Hcp. apply amem_alookup_none in Hext.
    set (rc := fun k a i kw0 => RUN f (RConstruct k a i kw0 None)) in *.
    set (rp := fun a i d => RUN f (RParse a i None d)) in *.
    set (ro := fun vv0 refs a d => RUN f (RParseObs (Some vv0) refs a false d)) in *.
    assert (Hndw : NoDup (map sname (cslots (ocls c)))).
    { change (map sname (cslots (ocls c))) with (PN (ocls c)). rewrite (rk_PN okind okind_name). exact Hnd. }
    rewrite <- (ocg_eq vr ev w pattern_ok selectors_ok rc rp ro c allow interop vrf sO Hnd EsO HdO (S f) kw Hcp Hext HK) in Eg.
    pose proof (claim_rc vr ev w pattern_ok selectors_ok ids f (run_construct_idem vr ev w pattern_ok selectors_ok Hpad ids Hclosed f)) as Hrc.
    fold rc in Hrc.
    destruct (written_facts vr ev w pattern_ok selectors_ok rc rp ro (nestable w ids) Hpad Hrc (ocls c) allow interop vrf
                Hndw Hslw (S f) kw o Hp Eg) as [Sv [hc [Eobj [Hre [Hpl [Hresv Hgiv]]]]]].
    assert (Hab : alookup OBJ (written c Sv) = None).
    { rewrite alookup_written.
      assert (Ham : amem OBJ Sv = false).
      { rewrite Eobj in Eg.
        eapply (cg_absent vr ev w pattern_ok selectors_ok rc rp ro (ocls c) allow interop vrf Hndw); [exact Hp | exact Eg | exact HK |].
        intros sl Hsl. rewrite (rk_slot_of okind okind_name) in Hsl. rewrite EsO in Hsl. cbn [option_map] in Hsl. inversion Hsl; subst.
        rewrite okind_def. exact HdO. }
      unfold amem in Ham. destruct (alookup OBJ Sv); [discriminate | reflexivity]. }
    rewrite (written_rk okind okind_name okind_req okind_def) in *. rewrite (rk_defaulted okind okind_name okind_req okind_def) in Eobj.
    cbn [cid rk_cls] in Eobj.
    assert (Eom : omem o = written c Sv) by (subst o; unfold omem; rewrite encode_obj; reflexivity).
    rewrite Eom.
    assert (In1 : In (u "_valid_refs") reserved_names) by (unfold reserved_names; cbn [map In]; repeat (try (left; reflexivity); right)).
    assert (In2 : In (u "allow_custom") reserved_names) by (unfold reserved_names; cbn [map In]; repeat (try (left; reflexivity); right)).
    assert (In3 : In (u "interoperability") reserved_names) by (unfold reserved_names; cbn [map In]; repeat (try (left; reflexivity); right)).
    assert (In4 : In (u "self") reserved_names) by (unfold reserved_names; cbn [map In]; repeat (try (left; reflexivity); right)).
    rewrite (Hresv _ In1 R1), (Hresv _ In2 R2), (Hresv _ In3 R3), (Hresv _ In4 R4). cbn [orb].
    destruct (plain_dict_no_key _ Hpl) as [Hcp' Hext']. apply amem_alookup_none in Hcp'. apply amem_alookup_none in Hext'.
    rewrite (Hg _ Hpl). unfold GEN. fold rc. fold rp. fold ro.
    rewrite <- (ocg_eq vr ev w pattern_ok selectors_ok rc rp ro c allow interop vrf sO Hnd EsO HdO (S f) (written c Sv) Hcp' Hext' Hab).
    rewrite Hre. cbn [bind]. unfold post. subst o. destruct (cfamily c); try discriminate; reflexivity.
  Qed.
End ObservedRun.

(* ------------------------------------------------------------------ the 2.0 form: `objects`, a dictionary of observables *)
Section Observed20.
  Variable vr : variant.
  Variable ev : env.
  Variable w : world.
  Variable pattern_ok : ver -> ustring -> bool.
  Variable selectors_ok : list (ustring * pval) -> pval -> result bool.
  Hypothesis Hpad : vr_year_pad vr = true.
  Variable ids : list ustring.
  Hypothesis Hclosed : closed_okw vr w ids = true.

  Notation RUN := (run vr ev w pattern_ok selectors_ok).

  Definition TYPE : ustring := u "type".

  (* the classes covered, and the observables of a 2.0 container *)
  Definition PO (cid0 : ustring) : bool := ustr_eqb cid0 (obs_tag V20) || nestable w ids cid0.

  Definition type_slot_ok (c : cls) : bool :=
    match slot_of c TYPE with
    | None => true
    | Some sl => match skind sl with KFixed _ _ => true | _ => false end
    end.

  (* every registered 2.0 observable type leads to a covered class whose `type` is a fixed property *)
  Definition observables20_ok : bool :=
    forallb (fun kv => nestable w ids (snd kv) &&
                       match find_class (wclasses w) (snd kv) with Some c => type_slot_ok c | None => false end)
            (robservables (wreg20 w)) &&
    match find_class (wclasses w) (obs_tag V20) with None => true | Some _ => false end.

  Lemma run_construct_novr : forall g k a i kw v o,
    RUN (S g) (RConstruct k a i kw v) = Ok o -> amem (u "_valid_refs") kw = false.
  Proof.
    intros g k a i kw v o H. cbn [run] in H. destruct (find_class (wclasses w) k); try discriminate.
    destruct (amem (u "_valid_refs") kw); [discriminate | reflexivity].
  Qed.

  (* the `type` given is the `type` written *)
  Lemma construct_type_kept : forall g k a i d vrefs o c t,
    nestable w ids k = true -> find_class (wclasses w) k = Some c -> type_slot_ok c = true ->
    plain_dict d = true -> alookup TYPE d = Some (JStr t) ->
    RUN (S g) (RConstruct k a i d vrefs) = Ok o ->
    alookup TYPE (omem o) = Some (JStr t).
  Proof.
    intros g k a i d vrefs o c t Hn Ef Hts Hp Et H.
    pose proof Hn as Hn'. unfold nestable in Hn'. apply andb_true_iff in Hn'. destruct Hn' as [Hm _].
    destruct (run_construct_eff vr ev w pattern_ok selectors_ok Hpad ids Hclosed g k a i d vrefs o Hm Hp (nestable_given w ids k d Hn) H)
      as [c' [Ef' [_ Heff]]].
    rewrite Ef in Ef'. inversion Ef'; subst c'. clear Ef'.
    unfold effective in Heff.
    destruct Heff as [cE [rcE [PE [dE [Hrc [Hnd [Hslots [Hcg [HpE [Hagree [EcidE [EdflE [HslotE _]]]]]]]]]]]]].
    set (rp := fun a0 i0 d0 => RUN g (RParse a0 i0 None d0)) in *.
    set (ro := fun vv0 refs a0 d0 => RUN g (RParseObs (Some vv0) refs a0 false d0)) in *.
    destruct (cg_idem vr ev w pattern_ok selectors_ok rcE rp ro PE Hpad Hrc cE a i _ Hnd Hslots (S g) dE _ HpE Hcg)
      as [Sv [hc [Eobj _]]].
    subst o. unfold omem. rewrite encode_obj. fold (written cE Sv).
    assert (K1 : TYPE <> PVERSION) by (intros E; vm_compute in E; discriminate).
    assert (K2 : TYPE <> DEF) by (intros E; vm_compute in E; discriminate).
    assert (K3 : TYPE <> CREATED) by (intros E; vm_compute in E; discriminate).
    pose proof (cg_given_value vr ev w pattern_ok selectors_ok rcE rp ro cE a i _ Hnd (S g) dE Sv _ hc TYPE (JStr t) HpE Hcg) as Hv.
    rewrite (Hagree TYPE K1) in Hv. specialize (Hv Et). rewrite (HslotE TYPE K2 K3) in Hv.
    assert (Es : alookup TYPE Sv = Some (PJ (JStr t))).
    { unfold type_slot_ok in Hts. destruct (slot_of c TYPE) as [sl |]; [| exact Hv].
      destruct Hv as [v [h [E1 E2]]]. destruct (skind sl); try discriminate. cbn [clean_kind] in E2.
      destruct (jvalue_eqb (JStr t) (JStr v0)); try discriminate. inversion E2; subst. exact E1. }
    rewrite (written_stored vr PE cE Hnd Hslots Sv TYPE _ Es); [reflexivity | intros b Hb; discriminate].
  Qed.

  Lemma assoc_In' : forall t k m, assoc t m = Some k -> In (t, k) m.
  Proof.
    induction m as [| [k' v'] r IHm]; cbn [assoc]; intros E; try discriminate.
    destruct (ustr_eqb t k') eqn:Et; [apply ustr_eqb_eq in Et; subst; inversion E; left; reflexivity | right; apply IHm; exact E].
  Qed.

  Lemma refs_members_plain : forall l : list (ustring * ustring), refs_plain l = true ->
    forallb plain_member (map (fun kv => (fst kv, JStr (snd kv))) l) = true.
  Proof.
    induction l as [| [k t] r IH]; intros H; [reflexivity |].
    unfold refs_plain in *. cbn [forallb fst] in H. apply andb_true_iff in H. destruct H as [Hk Hr].
    cbn [map forallb fst snd]. unfold plain_member at 1. cbn [fst snd nullish plain_json negb andb]. rewrite Hk. cbn [andb].
    apply IH. exact Hr.
  Qed.

  Lemma refs_json_plain : forall refs, refs <> [] -> refs_plain refs = true ->
    plain_member (u "_valid_refs", refs_json refs) = true.
  Proof.
    intros refs Hne Hrp. unfold plain_member. cbn [fst snd].
    assert (E1 : ustr_eqb (u "_valid_refs") cp_key = false) by (vm_compute; reflexivity).
    assert (E2 : ustr_eqb (u "_valid_refs") ext_key = false) by (vm_compute; reflexivity).
    rewrite E1, E2. cbn [negb andb].
    unfold refs_json. destruct refs as [| r0 rs]; [contradiction |]. cbn [nullish negb andb].
    rewrite plain_json_obj. apply refs_members_plain. exact Hrp.
  Qed.

  Lemma ro20_idem : observables20_ok = true -> forall f,
    ro_idem_at (fun vv refs a d => RUN f (RParseObs (Some vv) refs a false d)) V20.
  Proof.
    intros Hok f refs a d p Hne Hrp Hp H.
    unfold observables20_ok in Hok. apply andb_true_iff in Hok. destruct Hok as [Hreg _].
    destruct f as [| g]; [cbn [run] in H; discriminate |].
    remember g as g0 eqn:Eg0. cbn [run] in H. fold TYPE in H.
    destruct (alookup TYPE d) as [ty |] eqn:Ety; try discriminate. cbn [bind] in H.
    destruct ty as [| | | | t | |]; try discriminate.
    all: try (destruct a; [| discriminate]; inversion H; subst p; clear H).
    all: try (cbn [encode]; unfold omem; cbn [encode];
              split; [reflexivity |]; split; [| split];
              [ cbn [run]; fold TYPE; rewrite alookup_aset_other by (intros E; vm_compute in E; discriminate); rewrite Ety;
                cbn [bind]; rewrite aset_aset; reflexivity
              | apply plain_dict_aset; [exact Hp | apply refs_json_plain; assumption]
              | apply alookup_aset_other; intros E; vm_compute in E; discriminate ]; fail).
    (* a string type *)
    destruct (class_for w t V20 1%N) as [k |] eqn:Ecf.
    - destruct (amem (u "_valid_refs") d) eqn:Evr; try discriminate. unfold bind in H.
      destruct (run vr ev w pattern_ok selectors_ok g0 (RConstruct k a false d (Some refs))) as [o | |] eqn:Er; try discriminate.
      destruct (vr_parse_guard_custom vr && negb a && pval_has_custom o) eqn:Egd; try discriminate. inversion H; subst p. clear H.
      pose proof Ecf as Ecf2.
      unfold class_for in Ecf. cbn in Ecf. apply assoc_In' in Ecf. rewrite forallb_forall in Hreg. specialize (Hreg _ Ecf). cbn [snd] in Hreg.
      apply andb_true_iff in Hreg. destruct Hreg as [Hn Hc].
      destruct (find_class (wclasses w) k) as [c |] eqn:Ef; try discriminate.
      pose proof Hn as Hn'. unfold nestable in Hn'. apply andb_true_iff in Hn'. destruct Hn' as [Hm _].
      destruct g0 as [| g1]; [cbn [run] in Er; discriminate |].
      destruct (run_construct_idem vr ev w pattern_ok selectors_ok Hpad ids Hclosed (S g1) k a false d (Some refs) o Hm Hp
                  (nestable_given w ids k d Hn) Er) as [E1 [_ [E3 E4]]].
      pose proof (construct_type_kept g1 k a false d (Some refs) o c t Hn Ef Hc Hp Ety Er) as Ety'.
      split; [exact E1 |]. split; [| split; [exact E4 | change (alookup TYPE (omem o) = alookup TYPE d); rewrite Ety', Ety; reflexivity]].
      remember (S g1) as g2. cbn [run]. fold TYPE. rewrite Ety'. cbn [bind].
      rewrite Ecf2. subst g2. rewrite (run_construct_novr g1 k a false (omem o) (Some refs) o E3). unfold bind. rewrite E3, Egd. reflexivity.
    - destruct a; [| discriminate]. inversion H; subst p. clear H.
      cbn [encode]. unfold omem. cbn [encode].
      split; [reflexivity |]. split; [| split].
      + cbn [run]. fold TYPE. rewrite alookup_aset_other by (intros E; vm_compute in E; discriminate). rewrite Ety.
        cbn [bind]. rewrite Ecf. rewrite aset_aset. reflexivity.
      + apply plain_dict_aset; [exact Hp | apply refs_json_plain; assumption].
      + apply alookup_aset_other. intros E. vm_compute in E. discriminate.
  Qed.
  Definition observed20_ok (c : cls) : bool :=
    init_ok vr (cinit c) &&
    match cfamily c with FSco => false | _ => true end &&
    nodupb (map sname (cslots c)) &&
    forallb (slot_ok vr PO) (cslots c) &&
    observables20_ok.

  Lemma rc_idem_PO : observables20_ok = true -> forall f,
    rc_idem (fun k a i kw0 => RUN f (RConstruct k a i kw0 None)) (fun vv refs a d => RUN f (RParseObs (Some vv) refs a false d)) PO.
  Proof.
    intros Hok f. split.
    - intros cid0 a i d o HP Hp H. unfold PO in HP. destruct (ustr_eqb cid0 (obs_tag V20)) eqn:E.
      + exfalso. apply ustr_eqb_eq in E. subst cid0.
        unfold observables20_ok in Hok. apply andb_true_iff in Hok. destruct Hok as [_ Hno].
        destruct f as [| g]; cbn [run] in H; [discriminate |].
        destruct (find_class (wclasses w) (obs_tag V20)); discriminate.
      + cbn [orb] in HP.
        exact (proj1 (claim_rc vr ev w pattern_ok selectors_ok ids f (run_construct_idem vr ev w pattern_ok selectors_ok Hpad ids Hclosed f))
                 cid0 a i d o HP Hp H).
    - intros vv HP. destruct vv.
      + apply ro20_idem. exact Hok.
      + unfold PO in HP. rewrite nestable_no_tag in HP. vm_compute in HP. discriminate.
  Qed.

  (* roundtrip_equal for ObservedData in its 2.0 form *)
  Theorem observed20_roundtrip : forall fuel kid allow interop kw vrefs o c,
    find_class (wclasses w) kid = Some c -> observed20_ok c = true ->
    plain_dict kw = true ->
    RUN fuel (RConstruct kid allow interop kw vrefs) = Ok o ->
    RUN fuel (RConstruct kid allow interop (omem o) vrefs) = Ok o.
  Proof.
    intros fuel kid allow interop kw vrefs o c Ef Hok Hp H.
    destruct fuel as [| f]; [cbn [run] in H; discriminate |].
    unfold observed20_ok in Hok.
    apply andb_true_iff in Hok. destruct Hok as [Hok Hobs]. apply andb_true_iff in Hok. destruct Hok as [Hok Hslots].
    apply andb_true_iff in Hok. destruct Hok as [Hok Hnd]. apply andb_true_iff in Hok. destruct Hok as [Hinit Hfam].
    apply nodupb_NoDup in Hnd.
    assert (Hiw : init_okw vr w ids c = true) by (unfold init_okw; rewrite Hinit; reflexivity).
    rewrite (run_unfold vr ev w pattern_ok selectors_ok ids f kid allow interop kw vrefs c Ef Hiw) in H.
    rewrite (run_unfold vr ev w pattern_ok selectors_ok ids f kid allow interop _ vrefs c Ef Hiw).
    destruct (amem (u "_valid_refs") kw || amem (u "allow_custom") kw || amem (u "interoperability") kw || amem (u "self") kw) eqn:Eres;
      try discriminate.
    destruct (reserved_split kw Eres) as [R1 [R2 [R3 R4]]].
    set (vrf := match cfamily c with FSco => Some match vrefs with Some r => r | None => [] end | _ => None end) in *.
    assert (Hg : forall kw', plain_dict kw' = true ->
                   init_expr vr ev w pattern_ok selectors_ok f c allow interop kw' vrf =
                   GEN vr ev w pattern_ok selectors_ok f c allow interop kw' [] vrf).
    { intros kw' Hp'. unfold init_expr. destruct (cinit c) as [| names | | | vv | |]; cbn [init_ok] in Hinit; try discriminate; auto.
      rewrite (pos_filter_id vr names kw' Hinit (plain_members_nonnull kw' Hp')). reflexivity. }
    rewrite (Hg kw Hp) in H. unfold GEN in *. unfold bind in H.
    match type of H with match ?g with _ => _ end = _ => destruct g as [obj | |] eqn:Eg; try discriminate end.
    assert (Eo : o = obj).
    { unfold post in H. destruct obj; try (inversion H; reflexivity). destruct (cfamily c); try discriminate; inversion H; reflexivity. }
    subst obj.
    destruct (written_facts vr ev w pattern_ok selectors_ok _ _ _ PO Hpad (rc_idem_PO Hobs f) c allow interop vrf
                Hnd Hslots (S f) kw o Hp Eg) as [Sv [hc [Eobj [Hre [Hpl [Hresv Hgiv]]]]]].
    assert (Eom : omem o = written c Sv) by (subst o; unfold omem; rewrite encode_obj; reflexivity).
    rewrite Eom.
    assert (In1 : In (u "_valid_refs") reserved_names) by (unfold reserved_names; cbn [map In]; repeat (try (left; reflexivity); right)).
    assert (In2 : In (u "allow_custom") reserved_names) by (unfold reserved_names; cbn [map In]; repeat (try (left; reflexivity); right)).
    assert (In3 : In (u "interoperability") reserved_names) by (unfold reserved_names; cbn [map In]; repeat (try (left; reflexivity); right)).
    assert (In4 : In (u "self") reserved_names) by (unfold reserved_names; cbn [map In]; repeat (try (left; reflexivity); right)).
    rewrite (Hresv _ In1 R1), (Hresv _ In2 R2), (Hresv _ In3 R3), (Hresv _ In4 R4). cbn [orb].
    rewrite (Hg _ Hpl). unfold GEN. rewrite Hre. cbn [bind]. unfold post. subst o. destruct (cfamily c); try discriminate; reflexivity.
  Qed.
End Observed20.

(* Proofs/C15Audit.v -- additions asked for by the review of Props/C15.v:
   an independent closed form for the day number (Fliegel - Van Flandern's Julian Day Number, truncating
   division) agreeing with days_of_civil on every month of years 1..9999, and theorems for write_as /
   reparse (a STIXdatetime cleaned at (p, c) and written at (p', c')).      *)
From Coq Require Import String ZArith NArith List Bool Lia.
From V Require Import Base.UString Model.Calendar Model.Timestamp Spec.TimestampSpec
  Proofs.CalendarFacts Proofs.TimestampFacts Proofs.C15Proofs.
Import ListNotations.
Open Scope list_scope. Open Scope Z_scope.

(* Julian Day Number of a Gregorian calendar date (Fliegel & Van Flandern 1968), with the truncating
   division of the original FORTRAN: a formula that shares nothing with Model/Calendar.v *)
Definition jdn (y m d : Z) : Z :=
  let a := Z.quot (m - 14) 12 in
  Z.quot (1461 * (y + 4800 + a)) 4 + Z.quot (367 * (m - 2 - 12 * a)) 12
  - Z.quot (3 * Z.quot (y + 4900 + a) 100) 4 + d - 32075.

(* 0001-01-01 (proleptic Gregorian) is JDN 1721426 *)
Definition jdn_epoch : Z := 1721426.

Definition month_check (i : N) : bool :=
  let y := Z.of_N (i / 12) + 1 in
  let m := Z.of_N (i mod 12) + 1 in
  days_of_civil y m 1 =? jdn y m 1 - jdn_epoch.

Lemma month_sweep : all_below 119988 month_check = true.
Proof. vm_compute. reflexivity. Qed.

Lemma days_of_civil_is_jdn : forall y m d, 1 <= y <= 9999 -> 1 <= m <= 12 ->
  days_of_civil y m d = jdn y m d - jdn_epoch.
Proof.
  intros y m d Hy Hm.
  assert (L1 : days_of_civil y m d = days_of_civil y m 1 + (d - 1)) by (unfold days_of_civil; lia).
  assert (L2 : jdn y m d = jdn y m 1 + (d - 1)) by (unfold jdn; cbv zeta; lia).
  rewrite L1, L2.
  pose proof (all_below_spec _ _ month_sweep (Z.to_N ((y - 1) * 12 + (m - 1)))) as S.
  assert (B : (Z.to_N ((y - 1) * 12 + (m - 1)) < 119988)%N) by lia. specialize (S B). unfold month_check in S.
  replace (Z.of_N (Z.to_N ((y - 1) * 12 + (m - 1)) / 12) + 1) with y in S.
  2:{ rewrite N2Z.inj_div, Z2N.id by lia. change (Z.of_N 12) with 12.
      replace ((y - 1) * 12 + (m - 1)) with ((m - 1) + (y - 1) * 12) by lia. rewrite Z_div_plus_full by lia.
      rewrite Z.div_small by lia. lia. }
  replace (Z.of_N (Z.to_N ((y - 1) * 12 + (m - 1)) mod 12) + 1) with m in S.
  2:{ rewrite N2Z.inj_mod, Z2N.id by lia. change (Z.of_N 12) with 12.
      replace ((y - 1) * 12 + (m - 1)) with ((m - 1) + (y - 1) * 12) by lia. rewrite Z_mod_plus_full.
      rewrite Z.mod_small by lia. lia. }
  apply Z.eqb_eq in S. lia.
Qed.

(* ---- write_as: cleaned at (p, c), written at (p', c') ---- *)
Lemma write_as_aware_lemma : forall nm p c p' c' l o, in_range (l - o) = true -> o mod unit_of (sp p) (sc c) = 0 ->
  write_as nm Pad4 p c p' c' (InDatetime l (Some o)) = Ok (format Pad4 p' c' (floor_to (sp p) (sc c) (l - o))).
Proof.
  intros nm p c p' c' l o R M. unfold write_as, parse_into, format_dt.
  rewrite stored_trunc_floor, <- floor_shift by assumption. now rewrite floor_in_range.
Qed.

(* hence the text denotes the instant truncated at (p, c) and then at (p', c'): still a floor of the input *)
Lemma write_as_denotes_lemma : forall nm p c p' c' l o, in_range (l - o) = true -> o mod unit_of (sp p) (sc c) = 0 ->
  exists txt rd, write_as nm Pad4 p c p' c' (InDatetime l (Some o)) = Ok txt /\ spec_read txt = Some rd /\
                 denotes rd (floor_to (sp p') (sc c') (floor_to (sp p) (sc c) (l - o))) /\
                 floor_to (sp p') (sc c') (floor_to (sp p) (sc c) (l - o)) <= l - o.
Proof.
  intros nm p c p' c' l o R M. rewrite write_as_aware_lemma by assumption.
  assert (R' : in_range (floor_to (sp p) (sc c) (l - o)) = true) by (now apply floor_in_range).
  destruct (fmt_denotes_lemma p' c' _ R') as (rd & S & D). exists (format Pad4 p' c' (floor_to (sp p) (sc c) (l - o))), rd.
  repeat split; try assumption.
  pose proof (floor_le_lemma (sp p') (sc c') (floor_to (sp p) (sc c) (l - o))) as [[A _] _].
  pose proof (floor_le_lemma (sp p) (sc c) (l - o)) as [[B _] _]. lia.
Qed.

(* reparse: an accepted string cleaned at (p, c), then handed to a property of precision (p', c') *)
Lemma reparse_string_lemma : forall nm p c p' c' s t, parse_strptime s = Some t ->
  write nm Pad4 p' c' (reparse nm p c (InStr s)) = Ok (format Pad4 p' c' (floor_to (sp p) (sc c) t)).
Proof.
  intros nm p c p' c' s t H. pose proof (parse_strptime_in_range s t H) as R.
  unfold reparse, parse_into. rewrite H. rewrite <- stored_trunc_floor.
  pose proof (write_aware_lemma nm p' c' (stored_trunc p c t) 0) as W. rewrite Z.sub_0_r in W. apply W.
  - rewrite stored_trunc_floor. now apply floor_in_range.
  - apply Z.mod_0_l. pose proof (unit_pos (sp p') (sc c')). lia.
Qed.

(* Proofs/C04Modes.v -- the two modes of the allow_custom switch agree on custom-free content:
     a property cleaner that succeeds with flag false under one setting of `allow` succeeds with the
     same value under the other (repaired reference inversion: vr_ref_flip_unreg);
     hence (Proofs/C04Flag.v) a constructor run that returns flag false under allow_custom=True is
     also a run under allow_custom=False and conversely.                                   *)
From Coq Require Import NArith ZArith List String Bool Lia.
From V Require Import Base.UString Base.Json Model.SchemaTypes Model.PyBase Model.Schema.
From V Require Import Proofs.C01Basics Proofs.C01Kinds Proofs.C01Float Proofs.C01KindsAll.
Import ListNotations.

Section Hashes.
  Variable vr : variant.
  Variable names : list ustring.

  (* the flag of the hash loop only grows *)
  Lemma hashes_loop_flag_mono : forall a l acc hc p h,
    hashes_loop vr names a l acc hc = Ok (p, h) -> hc = true -> h = true.
  Proof.
    induction l as [| [k hv] r IH]; intros acc hc p h H Hc.
    - cbn [hashes_loop] in H. inv_ok H. reflexivity.
    - rewrite hashes_loop_step in H. destruct (hash_value_ok vr k hv).
      + destruct (hash_target names k) as [n c]. destruct (negb a && (hc || c)); try discriminate.
        eapply IH; [exact H |]. rewrite Hc. reflexivity.
      + destruct (infer_hash k); [destruct hv; discriminate |]. inv_ok H. reflexivity.
  Qed.

  (* a run that ends with flag false does not depend on the mode *)
  Lemma hashes_loop_mode : forall a a' l acc hc p,
    hashes_loop vr names a l acc hc = Ok (p, false) -> hashes_loop vr names a' l acc hc = Ok (p, false).
  Proof.
    induction l as [| [k hv] r IH]; intros acc hc p H.
    - cbn [hashes_loop] in *. exact H.
    - rewrite hashes_loop_step in *. destruct (hash_value_ok vr k hv); [| exact H].
      destruct (hash_target names k) as [n c].
      destruct (negb a && (hc || c)) eqn:Ea; try discriminate.
      destruct (hc || c) eqn:Eh.
      + pose proof (hashes_loop_flag_mono _ _ _ _ _ _ H eq_refl). discriminate.
      + rewrite andb_false_r. apply IH. exact H.
  Qed.
End Hashes.

Section Modes.
  Variable vr : variant.
  Variable w : world.
  Variable rc : ustring -> bool -> bool -> list (ustring * jvalue) -> result pval.
  Variable rp : bool -> bool -> list (ustring * jvalue) -> result pval.
  Variable ro : ver -> list (ustring * ustring) -> bool -> list (ustring * jvalue) -> result pval.
  Variable P : ustring -> bool.

  Notation CK := (clean_kind vr w rc rp ro).

  Hypothesis Hflip : vr_ref_flip_unreg vr = true.
  (* observable containers are outside these lemmas *)
  Hypothesis Hnoobs : forall vv, P (obs_tag vv) = false.

  (* the nested constructor: a custom-free result does not depend on the mode *)
  Definition rc_mode : Prop :=
    forall cid a a' i d o, P cid = true -> plain_dict d = true ->
      rc cid a i d = Ok o -> pval_has_custom o = false -> rc cid a' i d = Ok o.
  Hypothesis Hrc : rc_mode.

  Lemma clean_items_mode : forall (f g : jvalue -> result (pval * bool)) l res,
    (forall x p, In x l -> f x = Ok (p, false) -> g x = Ok (p, false)) ->
    clean_items f l = Ok (res, false) -> clean_items g l = Ok (res, false).
  Proof.
    induction l as [| x r IH]; intros res Hf H; cbn [clean_items] in *.
    - exact H.
    - unfold bind in *. destruct (f x) as [[p hc] | |] eqn:Ex; try discriminate.
      destruct (clean_items f r) as [[res' h'] | |] eqn:Er; try discriminate.
      injection H as Hres Hor. apply orb_false_iff in Hor. destruct Hor as [H2a H2b]. cbn [fst snd] in *. subst hc h' res.
      rewrite (Hf x p (or_introl eq_refl) Ex). rewrite (IH res' (fun y q Hy => Hf y q (or_intror Hy)) eq_refl). reflexivity.
  Qed.

  Lemma listof_items_mode : forall cid a a' i l res,
    P cid = true -> forallb plain_json l = true ->
    listof_items rc cid a i l = Ok (res, false) -> listof_items rc cid a' i l = Ok (res, false).
  Proof.
    induction l as [| x r IH]; intros res HP Hg H; cbn [listof_items] in *.
    - exact H.
    - destruct x; try discriminate. unfold bind in *.
      cbn [forallb] in Hg. apply andb_true_iff in Hg. destruct Hg as [Hx Hr]. rewrite plain_json_obj in Hx.
      destruct (reserved_kw m) as [[] | |]; try discriminate.
      destruct (rc cid a i m) as [o | |] eqn:Eo; try discriminate.
      destruct (listof_items rc cid a i r) as [[res' h'] | |] eqn:Er; try discriminate.
      injection H as Hres Hor. apply orb_false_iff in Hor. destruct Hor as [H2a H2b]. cbn [fst snd] in *. subst h' res.
      rewrite (Hrc cid a a' i m o HP Hx Eo H2a). rewrite (IH res' HP Hr eq_refl). cbn [fst snd]. rewrite H2a. reflexivity.
  Qed.

  Lemma finish_list_mode : forall a a' r p, finish_list a r = Ok (p, false) -> finish_list a' r = Ok (p, false).
  Proof.
    intros a a' [res h] p H. unfold finish_list in *. destruct (negb a && h) eqn:E1; try discriminate.
    destruct res; try discriminate. inversion H; subst. rewrite andb_false_r. reflexivity.
  Qed.

  Lemma finish_list_flag : forall a res h p hc, finish_list a (res, h) = Ok (p, hc) -> hc = h.
  Proof.
    intros a res h p hc H. unfold finish_list in H. destruct (negb a && h); try discriminate. destruct res; try discriminate.
    inversion H. reflexivity.
  Qed.

  Lemma clean_reference_mode : forall wh g sp vv a a' i v p,
    clean_reference vr w wh g sp vv a i v = Ok (p, false) -> clean_reference vr w wh g sp vv a' i v = Ok (p, false).
  Proof.
    intros wh g sp vv a a' i v p H. unfold clean_reference, bind in *.
    destruct (py_str v) as [s | |]; try discriminate.
    destruct (validate_id vr s vv None i); try discriminate.
    rewrite Hflip in *. cbv zeta iota in *.
    set (t := fst (split_dashdash s)) in *.
    destruct (is_object w t vv) eqn:Eo; cbn [negb] in *.
    - (* a registered type: the whitelist is not inverted in either mode *)
      rewrite !andb_false_r in *. cbv iota in *. cbn [orb] in *.
      destruct (ustr_prefix (u "x-") t) eqn:Ex.
      + exfalso. match type of H with (if ?b then _ else _) = _ => destruct b; try discriminate end.
        destruct (negb a && true); discriminate.
      + rewrite !andb_false_r in *. exact H.
    - (* an unregistered type is flagged *)
      exfalso. cbn [orb] in H.
      match type of H with (if ?b then _ else _) = _ => destruct b; try discriminate end.
      destruct (negb a && true); discriminate.
  Qed.

  Theorem clean_kind_mode : forall k, kind_proved vr P k = true ->
    forall a a' interop v p, plain_json v = true ->
    CK k a interop v = Ok (p, false) -> CK k a' interop v = Ok (p, false).
  Proof.
    induction k; intros Hk a a' interop jv pv Hv H; cbn [kind_proved] in Hk; try discriminate;
      try (rewrite Hnoobs in Hk; discriminate); cbn [clean_kind] in *; try exact H.
    - (* hashes *) unfold clean_hashes, bind in *. destruct (clean_dictionary vr v jv); try discriminate.
      eapply hashes_loop_mode; eauto.
    - (* reference *) eapply clean_reference_mode; eauto.
    - (* embedded *)
      destruct jv; try discriminate. unfold bind in *.
      destruct (reserved_kw m) as [[] | |]; try discriminate.
      destruct (rc cls a false m) as [o | |] eqn:Eo; try discriminate.
      rewrite plain_json_obj in Hv.
      destruct (negb a && pval_has_custom o) eqn:E1; try discriminate. injection H as Ho Hh. subst o.
      rewrite (Hrc cls a a' false m pv Hk Hv Eo Hh). rewrite Hh. rewrite andb_false_r. reflexivity.
    - (* list *)
      unfold bind in *. destruct (list_items jv) as [l | |] eqn:El; try discriminate.
      destruct (clean_items (CK k a interop) l) as [[res h] | |] eqn:Ec; try discriminate.
      pose proof (finish_list_flag _ _ _ _ _ H) as Eh. subst h.
      pose proof (list_items_plain jv l Hv El) as Hl. rewrite forallb_forall in Hl.
      rewrite (clean_items_mode (CK k a interop) (CK k a' interop) l res); auto.
      + eapply finish_list_mode; eauto.
      + intros x p Hin Hx. eapply IHk; eauto.
    - (* list of objects *)
      unfold bind in *. destruct (list_items jv) as [l | |] eqn:El; try discriminate.
      destruct (listof_items rc cls a interop l) as [[res h] | |] eqn:Ec; try discriminate.
      pose proof (finish_list_flag _ _ _ _ _ H) as Eh. subst h.
      rewrite (listof_items_mode cls a a' interop l res Hk (list_items_plain jv l Hv El) Ec).
      eapply finish_list_mode; eauto.
  Qed.
End Modes.
